package main

// discv: the LIVE discovery endpoint. Everything the node does AFTER a datagram decoded: bonding, the pending-reply
// queue of udp.loop, the reply callbacks of findnode / ping, the table and the node database.
//
// One child process per session. In the child: the victim = the product's discovery transport (discover.newUDP, i.e.
// ListenUDP after the socket was opened: table, loop, readLoop on their own goroutines, none of them with a recover)
// on a loopback UDP socket, and remote peers with their own keys and sockets:
//   H        an honest peer (bonds, answers pings, answers findnode with the nodes it knows); its ping is the barrier
//            and the probe of "the node keeps serving the others"
//   fillers  honest nodes that only become known through neighbors replies (they fill the buckets)
//   hostile  identities that speak the protocol correctly up to a chosen point: they bond (ping, pong), get queried
//            (the harness calls the exported Table.Lookup, as the dial scheduler of p2p.Server and the refresh timer do)
//            and answer - or send unsolicited - CORRECTLY HASHED AND SIGNED packets with hostile content
// A crash of the victim ends the child: the parent reports node-process-survives-discovery with the last packets.
//
// The victim's socket is wrapped (dvConn): every datagram the node writes is recorded (destination as the node
// computed it, type, size); it is put on the wire only when it goes to a socket of this session (hostile entries
// point anywhere; nothing of that may leave the process).

import (
	"bufio"
	"bytes"
	"crypto/ecdsa"
	"encoding/hex"
	"encoding/json"
	"fmt"
	"math/rand"
	"net"
	"os"
	"os/exec"
	"runtime"
	"strconv"
	"sync"
	"sync/atomic"
	"time"

	"github.com/ethereum/go-ethereum/crypto"
	"github.com/ethereum/go-ethereum/rlp"

	"github.com/zenon-network/go-zenon/p2p/discover"
	. "zharness/hz"
)

const (
	dvHead       = discover.VerifHeadSize
	dvMac        = discover.VerifMacSize
	dvPing       = byte(discover.VerifPingPacket)
	dvPong       = byte(discover.VerifPongPacket)
	dvFind       = byte(discover.VerifFindnodePacket)
	dvNeigh      = byte(discover.VerifNeighborsPacket)
	dvBucket     = discover.VerifBucketSize
	dvDatagram   = 1280 // the read buffer of udp.readLoop: the protocol's datagram limit
	dvSmallMax   = 220  // upper bound of a ping / pong / findnode datagram of the node (head 97 + type 1 + two endpoints with 16-byte addresses)
	unixInternal = 62135596800
)

// ---------------------------------------------------------------- parent

func runDiscvParent(rng *rand.Rand, n int, out *Out, _ []string) {
	type job struct {
		seed int64
		idx  int
	}
	base := int(rng.Int63n(1 << 20))
	par := 16
	sem := make(chan struct{}, par)
	var wg sync.WaitGroup
	mu := &childMergeMu // the suite may run side by side with others (runSessionsParent)
	for i := 0; i < n; i++ {
		j := job{rng.Int63(), base + i}
		wg.Add(1)
		sem <- struct{}{}
		go func(j job) {
			defer wg.Done()
			defer func() { <-sem }()
			tmp, err := os.CreateTemp("", "c15discv*.jsonl")
			if err != nil {
				panic(err)
			}
			tmp.Close()
			defer os.Remove(tmp.Name())
			cmd := exec.Command(os.Args[0], "discv-child", "-seed", fmt.Sprint(j.seed), "-n", "1", "-out", tmp.Name(), strconv.Itoa(j.idx))
			cmd.Stdout = os.Stderr
			cmd.Stderr = os.Stderr
			start := time.Now()
			errc := make(chan error, 1)
			if err := cmd.Start(); err != nil {
				panic(err)
			}
			go func() { errc <- cmd.Wait() }()
			var werr error
			timedOut := false
			select {
			case werr = <-errc:
			case <-time.After(180 * time.Second):
				cmd.Process.Kill()
				werr = <-errc
				timedOut = true
			}
			mu.Lock()
			defer mu.Unlock()
			out.Count("child-runs:discv")
			var last []interface{}
			failsByKey := map[string]int64{}
			if f, err := os.Open(tmp.Name()); err == nil {
				sc := bufio.NewScanner(f)
				sc.Buffer(make([]byte, 1<<20), 64<<20)
				for sc.Scan() {
					var m M
					d := json.NewDecoder(bytesReader(sc.Bytes()))
					d.UseNumber()
					if d.Decode(&m) != nil {
						continue
					}
					switch m["k"] {
					case "case":
						out.Case(m["fn"].(string), m["in"], m["out"], m["tag"].(string))
					case "oracle":
						out.Oracle(false, m["key"].(string), m["detail"])
						failsByKey["oracle:"+m["key"].(string)]++
					case "dist":
						for key, v := range m["dist"].(map[string]interface{}) {
							c, _ := v.(json.Number).Int64()
							if len(key) > 5 && key[:5] == "case:" {
								continue
							}
							fails := failsByKey[key]
							for i := int64(0); i < c-fails; i++ {
								out.Count(key)
							}
						}
					case "progress":
						last = append(last, m["session"])
						if len(last) > 4 {
							last = last[1:]
						}
					}
				}
				f.Close()
			}
			out.Oracle(werr == nil && !timedOut, "node-process-survives-discovery",
				Tup("discv-child", fmt.Sprint(werr), timedOut, "child-seed", I64(j.seed), "scenario", I64(int64(j.idx)),
					"last-packets-sent-to-the-node (oldest first)", last, time.Since(start).String()))
		}(j)
	}
	wg.Wait()
}

// ---------------------------------------------------------------- the victim's socket

type dvSent struct {
	ip    []byte
	port  int
	ptype byte
	size  int
}

type dvConn struct {
	*net.UDPConn
	mu    sync.Mutex
	log   []dvSent
	live  map[int]bool
	bytes int
}

func (c *dvConn) WriteToUDP(b []byte, a *net.UDPAddr) (int, error) {
	var pt byte
	if len(b) > dvHead {
		pt = b[dvHead]
	}
	deliver := false
	if a != nil {
		ip4 := a.IP.To4()
		deliver = len(a.IP) == 0 || (ip4 != nil && (ip4[0] == 127 || ip4.Equal(net.IPv4zero)))
	}
	c.mu.Lock()
	if a != nil {
		c.log = append(c.log, dvSent{append([]byte{}, a.IP...), a.Port, pt, len(b)})
		deliver = deliver && c.live[a.Port]
	}
	c.bytes += len(b)
	c.mu.Unlock()
	if !deliver {
		return len(b), nil
	}
	return c.UDPConn.WriteToUDP(b, &net.UDPAddr{IP: net.IPv4(127, 0, 0, 1), Port: a.Port})
}
func (c *dvConn) mark() int { c.mu.Lock(); defer c.mu.Unlock(); return len(c.log) }
func (c *dvConn) since(i int) []dvSent {
	c.mu.Lock()
	defer c.mu.Unlock()
	return append([]dvSent{}, c.log[i:]...)
}
func (c *dvConn) totals() (n, b int)   { c.mu.Lock(); defer c.mu.Unlock(); return len(c.log), c.bytes }
func (c *dvConn) isLive(port int) bool { c.mu.Lock(); defer c.mu.Unlock(); return c.live[port] }
func (c *dvConn) setLive(port int, on bool) {
	c.mu.Lock()
	c.live[port] = on
	c.mu.Unlock()
}

// ---------------------------------------------------------------- wire format as the harness reads it (mirror structs)

type dvEP struct {
	IP       []byte
	UDP, TCP uint16
}
type dvPingT struct {
	Version    uint
	From, To   dvEP
	Expiration uint64
}
type dvPongT struct {
	To         dvEP
	ReplyTok   []byte
	Expiration uint64
}
type dvFindT struct {
	Target     [64]byte
	Expiration uint64
}
type dvNodeT struct {
	IP       []byte
	UDP, TCP uint16
	ID       [64]byte
}
type dvNeighT struct {
	Nodes      []dvNodeT
	Expiration uint64
}

func dvDecodes(ptype byte, payload []byte) bool {
	switch ptype {
	case dvPing:
		return rlp.DecodeBytes(payload, new(dvPingT)) == nil
	case dvPong:
		return rlp.DecodeBytes(payload, new(dvPongT)) == nil
	case dvFind:
		return rlp.DecodeBytes(payload, new(dvFindT)) == nil
	case dvNeigh:
		return rlp.DecodeBytes(payload, new(dvNeighT)) == nil
	}
	return false
}

// raw values (what hostile peers send): every field is what the caller says
type rawEP struct {
	IP       []byte
	UDP, TCP uint64
}

func (e rawEP) val() []interface{} { return []interface{}{e.IP, e.UDP, e.TCP} }

type rawNode struct {
	IP       []byte
	UDP, TCP uint64
	ID       []byte
	// bookkeeping of the harness
	label string
	tie   bool // the entry's fate is observable: fresh identity, destination unique in this session
	live  bool
}

func (n rawNode) val() []interface{} { return []interface{}{n.IP, n.UDP, n.TCP, n.ID} }

// ---------------------------------------------------------------- the world of one session

type dworld struct {
	rng        *rand.Rand
	out        *Out
	omu        sync.Mutex
	idx        int
	vkey       *ecdsa.PrivateKey
	vid        discover.NodeID
	tab        *discover.Table
	vc         *dvConn
	vadr       *net.UDPAddr
	h          *dpeer
	fill       []*dpeer
	lag        *lagMeter
	hgo        int64 // goroutines of the harness itself
	ring       []string
	rmu        sync.Mutex
	nonce      uint64
	baseline   int
	deadBudget int    // addresses where nobody answers that one lookup may be told about (each costs a reply timeout of a bonding slot)
	silent     int    // identities of the last flood that never answer
	port       uint64 // source of unique destination ports (never bound by the harness: 40000..)
	cls        int    // walking class counter
	// accounting of what the node may send
	allowN, allowB int64
	incon          int64
}

func (w *dworld) oracle(ok bool, key string, detail interface{}) {
	w.omu.Lock()
	w.out.Oracle(ok, key, detail)
	w.omu.Unlock()
}
func (w *dworld) count(k string) { w.omu.Lock(); w.out.Count(k); w.omu.Unlock() }
func (w *dworld) tcase(fn string, in, o interface{}, tag string) {
	w.omu.Lock()
	w.out.Case(fn, in, o, tag)
	w.omu.Unlock()
}
func (w *dworld) allow(n, b int) {
	atomic.AddInt64(&w.allowN, int64(n))
	atomic.AddInt64(&w.allowB, int64(b))
}
func (w *dworld) goh(f func()) {
	atomic.AddInt64(&w.hgo, 1)
	go func() { defer atomic.AddInt64(&w.hgo, -1); f() }()
}
func (w *dworld) victimGoroutines() int {
	return runtime.NumGoroutine() - int(atomic.LoadInt64(&w.hgo))
}

// sent: what is about to reach the node (the parent keeps the last records of a dead child)
func (w *dworld) sent(desc string, from *dpeer, pkts ...[]byte) {
	s := desc + " from=" + from.name
	for i, p := range pkts {
		if i == 3 {
			s += fmt.Sprintf(" (+%d more)", len(pkts)-3)
			break
		}
		h := hex.EncodeToString(p)
		if len(h) > 2800 {
			h = h[:2800] + fmt.Sprintf("..(%d bytes)", len(p))
		}
		s += " datagram=" + h
	}
	w.omu.Lock()
	progress(w.out, s)
	w.omu.Unlock()
	w.rmu.Lock()
	w.ring = append(w.ring, s)
	if len(w.ring) > 3 {
		w.ring = w.ring[1:]
	}
	w.rmu.Unlock()
}
func (w *dworld) last() []interface{} {
	w.rmu.Lock()
	defer w.rmu.Unlock()
	var l []interface{}
	for _, s := range w.ring {
		if len(s) > 700 {
			s = s[:700] + ".."
		}
		l = append(l, s)
	}
	return l
}

func (w *dworld) waitFor(d time.Duration, cond func() bool) bool {
	end := time.Now().Add(d)
	for {
		if cond() {
			return true
		}
		if time.Now().After(end) {
			return cond()
		}
		time.Sleep(300 * time.Microsecond)
	}
}

func dvKey(rng *rand.Rand) *ecdsa.PrivateKey {
	for {
		b := make([]byte, 32)
		rng.Read(b)
		if k, err := crypto.ToECDSA(b); err == nil {
			return k
		}
	}
}

func (w *dworld) uniquePort() uint64 { w.port++; return 40000 + w.port%20000 }
func (w *dworld) nextClass() int     { w.cls++; return w.cls }

// ---------------------------------------------------------------- peers

const (
	roleHonest = iota
	roleFiller
	roleHostile
)

type dpeer struct {
	w    *dworld
	name string
	role int
	key  *ecdsa.PrivateKey
	id   discover.NodeID
	conn *net.UDPConn
	port int
	rng  *rand.Rand
	cls  int

	mu        sync.Mutex
	pongTok   map[string]bool // reply tokens of the pongs the node sent here
	pings     int             // pings of the node
	pongs     int
	finds     int
	neighPk   int
	neighNd   int
	bad       int
	pingedV   bool
	pongMode  int                                   // hostile: how a ping of the node is answered
	plan      func(p *dpeer, find dvFindT) [][]byte // hostile: the answer to the node's next findnode
	planDelay []time.Duration
	planAt    time.Time // when the node's findnode arrived
	planDone  time.Duration
	planN     int
	known     []rawNode // honest / filler: the nodes it tells about
}

func (w *dworld) newPeer(name string, role int) *dpeer { return w.newPeerNear(name, role, -1) }

// near >= 0: an identity whose hash starts with that byte (close to every target whose hash starts with it: such a
// node is among the first a lookup for the target asks)
func (w *dworld) newPeerNear(name string, role int, near int) *dpeer {
	c, err := net.ListenUDP("udp4", &net.UDPAddr{IP: net.IPv4(127, 0, 0, 1)})
	if err != nil {
		panic(err)
	}
	p := &dpeer{w: w, name: name, role: role, key: dvKey(w.rng), conn: c, port: c.LocalAddr().(*net.UDPAddr).Port, pongTok: map[string]bool{}}
	p.rng = rand.New(rand.NewSource(w.rng.Int63())) // for the peer's own goroutine (w.rng belongs to the session's goroutine)
	p.cls = w.rng.Intn(27)
	p.id = discover.PubkeyID(&p.key.PublicKey)
	for near >= 0 && int(crypto.Keccak256(p.id[:])[0]) != near {
		p.key = dvKey(w.rng)
		p.id = discover.PubkeyID(&p.key.PublicKey)
	}
	w.vc.setLive(p.port, true)
	w.goh(p.loop)
	return p
}

func (p *dpeer) close() {
	p.w.vc.setLive(p.port, false)
	p.conn.Close()
}

func (p *dpeer) write(b []byte) {
	p.conn.WriteToUDP(b, p.w.vadr)
}

func (p *dpeer) loop() {
	buf := make([]byte, 4096)
	for {
		n, _, err := p.conn.ReadFromUDP(buf)
		if err != nil {
			return
		}
		p.onPacket(append([]byte{}, buf[:n]...))
	}
}

func dvNow() uint64 { return uint64(time.Now().Unix()) }

func (p *dpeer) ep() rawEP { return rawEP{[]byte{127, 0, 0, 1}, uint64(p.port), uint64(p.port)} }
func (w *dworld) vep() rawEP {
	return rawEP{[]byte{127, 0, 0, 1}, uint64(w.vadr.Port), uint64(w.vadr.Port)}
}

// the node's own encoder on caller-chosen values
func dvEncode(k *ecdsa.PrivateKey, t byte, v interface{}) []byte {
	b, err := discover.VerifEncodePacket(k, t, v)
	if err != nil {
		panic(err)
	}
	return b
}

// the harness's own sealing of an arbitrary payload (hash and signature are good)
func dvSeal(k *ecdsa.PrivateKey, t byte, payload []byte) []byte {
	return seal(k, append([]byte{t}, payload...), true, true, nil)
}

// every ping is a different datagram (the reply token is its hash): the tcp port of the recipient endpoint, which
// nobody reads, counts
func (p *dpeer) goodPing() []byte {
	to := p.w.vep()
	to.TCP = atomic.AddUint64(&p.w.nonce, 1) % 65536
	return dvEncode(p.key, dvPing, []interface{}{uint64(discover.Version), p.ep().val(), to.val(), dvNow() + 20})
}
func (p *dpeer) goodPong(tok []byte) []byte {
	return dvEncode(p.key, dvPong, []interface{}{p.w.vep().val(), tok, dvNow() + 20})
}

func (p *dpeer) onPacket(b []byte) {
	w := p.w
	okEnv := len(b) > dvHead && bytes.Equal(b[:dvMac], crypto.Keccak256(b[dvMac:]))
	var signer discover.NodeID
	if okEnv {
		pub, err := crypto.Ecrecover(crypto.Keccak256(b[dvHead:]), b[dvMac:dvHead])
		okEnv = err == nil && len(pub) == 65
		if okEnv {
			copy(signer[:], pub[1:])
		}
	}
	if okEnv && signer == w.vid && len(b) > dvDatagram {
		// a genuine datagram of the node above the protocol's 1280 bytes: its neighbors chunks are sized for 16-byte
		// addresses, a table entry learnt with a longer address (entries are accepted with any address length) makes a
		// chunk of 12 entries longer. The receiver's read buffer cuts it off; nothing of the property (crash, stall,
		// bloat) is touched: counted, not an oracle failure (it was one until the thorough tier showed it, DESIGN §8)
		w.count("discv:node-datagram-above-1280-bytes")
	}
	if !okEnv || signer != w.vid {
		p.mu.Lock()
		p.bad++
		p.mu.Unlock()
		w.oracle(false, "node-sends-well-formed-datagrams", Tup(p.name, Byt(b)))
		return
	}
	t, payload := b[dvHead], b[dvHead+1:]
	switch t {
	case dvPing:
		var m dvPingT
		if rlp.DecodeBytes(payload, &m) != nil {
			w.oracle(false, "node-sends-well-formed-datagrams", Tup(p.name, "ping", Byt(b)))
			return
		}
		p.mu.Lock()
		p.pings++
		mode := p.pongMode
		first := !p.pingedV
		if p.role != roleHostile {
			p.pingedV = true
		}
		p.mu.Unlock()
		tok := b[:dvMac]
		if p.role != roleHostile {
			// pong, and a ping of its own (a real node bonds back when it does not know the sender; any node may ping
			// at any time, and the node's bonding does not have to wait the reply timeout for it)
			p.write(p.goodPong(tok))
			p.write(p.goodPing())
			w.allow(3, 3*dvSmallMax)
			_ = first
			return
		}
		p.hostilePong(mode, tok)
	case dvPong:
		var m dvPongT
		if rlp.DecodeBytes(payload, &m) != nil {
			w.oracle(false, "node-sends-well-formed-datagrams", Tup(p.name, "pong", Byt(b)))
			return
		}
		p.mu.Lock()
		p.pongs++
		p.pongTok[string(m.ReplyTok)] = true
		p.mu.Unlock()
	case dvFind:
		var m dvFindT
		if rlp.DecodeBytes(payload, &m) != nil {
			w.oracle(false, "node-sends-well-formed-datagrams", Tup(p.name, "findnode", Byt(b)))
			return
		}
		at := time.Now()
		p.mu.Lock()
		p.finds++
		plan, delays := p.plan, p.planDelay
		p.plan, p.planDelay = nil, nil
		known := p.known
		p.mu.Unlock()
		if p.role != roleHostile {
			// the nodes it knows, as a real node sends them: chunks below the datagram limit
			for i := 0; i < len(known) && i < dvBucket; i += 8 {
				j := i + 8
				if j > len(known) {
					j = len(known)
				}
				var l []interface{}
				for _, n := range known[i:j] {
					l = append(l, n.val())
				}
				p.write(dvEncode(p.key, dvNeigh, []interface{}{l, dvNow() + 20}))
			}
			return
		}
		if plan == nil {
			return
		}
		pk := plan(p, m)
		run := func() {
			for i, d := range pk {
				if i < len(delays) && delays[i] > 0 {
					time.Sleep(delays[i])
				}
				p.write(d)
			}
			p.mu.Lock()
			p.planAt, p.planDone = at, time.Since(at)
			p.planN++
			p.mu.Unlock()
		}
		w.sent("answer-to-findnode", p, pk...)
		if len(delays) == 0 {
			run()
		} else {
			w.goh(run)
		}
	case dvNeigh:
		var m dvNeighT
		if rlp.DecodeBytes(payload, &m) != nil {
			w.oracle(false, "node-sends-well-formed-datagrams", Tup(p.name, "neighbors", Byt(b)))
			return
		}
		p.mu.Lock()
		p.neighPk++
		p.neighNd += len(m.Nodes)
		p.mu.Unlock()
	default:
		w.oracle(false, "node-sends-well-formed-datagrams", Tup(p.name, "type", I64(int64(t))))
	}
}

const (
	pongHonest = iota
	pongSilent
	pongEmptyTok
	pongShortTok
	pongLongTok
	pongRandomTok
	pongExpired
	pongOtherKey
	pongTwice
	pongHostileEP
	pongModes
)

var pongModeName = []string{"honest", "silent", "empty-token", "short-token", "long-token", "random-token", "expired", "other-key", "twice", "hostile-endpoint"}

// how a hostile identity answers the node's ping (always well signed)
func (p *dpeer) hostilePong(mode int, tok []byte) {
	w := p.w
	exp := dvNow() + 20
	to := w.vep().val()
	var pk [][]byte
	switch mode {
	case pongSilent:
		return
	case pongEmptyTok:
		pk = append(pk, dvEncode(p.key, dvPong, []interface{}{to, []byte{}, exp}))
	case pongShortTok:
		pk = append(pk, dvEncode(p.key, dvPong, []interface{}{to, tok[:1+p.rng.Intn(31)], exp}))
	case pongLongTok:
		pk = append(pk, dvEncode(p.key, dvPong, []interface{}{to, bytes.Repeat(tok, 1+p.rng.Intn(30)), exp}))
	case pongRandomTok:
		r := make([]byte, 32)
		p.rng.Read(r)
		pk = append(pk, dvEncode(p.key, dvPong, []interface{}{to, r, exp}))
	case pongExpired:
		pk = append(pk, dvEncode(p.key, dvPong, []interface{}{to, tok, dvNow() - 5}))
	case pongOtherKey:
		pk = append(pk, dvEncode(dvKey(p.rng), dvPong, []interface{}{to, tok, exp}))
	case pongTwice:
		pk = append(pk, p.goodPong(tok), p.goodPong(tok))
	case pongHostileEP:
		p.cls++
		ip, _ := w.ipClassR(p.rng, p.cls)
		pk = append(pk, dvEncode(p.key, dvPong, []interface{}{rawEP{ip, uint64(p.rng.Intn(3)) * 32767, 0}.val(), tok, exp}))
	default:
		pk = append(pk, p.goodPong(tok))
	}
	w.sent("pong:"+pongModeName[mode], p, pk...)
	for _, d := range pk {
		p.write(d)
	}
}

// ---------------------------------------------------------------- hostile content

var dvIPLens = []int{0, 1, 3, 4, 5, 15, 16, 17, 255}

// ipClass: an address of every length and every special kind. Addresses that may be put on a wire are documentation
// ranges (192.0.2.0/24, 198.51.100.0/24, 203.0.113.0/24, 2001:db8::/32) - and the socket wrapper drops them anyway.
func (w *dworld) ipClass(c int) ([]byte, string) { return w.ipClassR(w.rng, c) }
func (w *dworld) ipClassR(r *rand.Rand, c int) ([]byte, string) {
	rb := func(n int) []byte { b := make([]byte, n); r.Read(b); return b }
	const K = 27
	switch c % K {
	case 0, 1, 2, 3, 4, 5, 6, 7, 8:
		n := dvIPLens[c%K]
		b := rb(n)
		if n == 4 {
			b = []byte{198, 51, 100, byte(r.Intn(256))}
		}
		if n == 16 {
			copy(b, []byte{0x20, 0x01, 0x0d, 0xb8})
		}
		return b, fmt.Sprintf("len%d", n)
	case 9:
		return []byte{0, 0, 0, 0}, "zero4"
	case 10:
		return make([]byte, 16), "zero16"
	case 11:
		return []byte{224, 0, 0, byte(1 + r.Intn(250))}, "multicast4"
	case 12:
		b := rb(16)
		b[0] = 0xff
		return b, "multicast6"
	case 13:
		return []byte{127, 0, 0, 1}, "loopback4"
	case 14:
		b := make([]byte, 16)
		b[15] = 1
		return b, "loopback6"
	case 15:
		return append([]byte{}, w.vadr.IP.To4()...), "victims-own"
	case 16:
		return append(append(make([]byte, 10), 0xff, 0xff), 192, 0, 2, byte(r.Intn(256))), "v4-in-v6"
	case 17:
		return []byte{255, 255, 255, 255}, "broadcast"
	case 18:
		return []byte{10, byte(r.Intn(256)), byte(r.Intn(256)), byte(r.Intn(256))}, "private10"
	case 19:
		return []byte{169, 254, byte(r.Intn(256)), byte(r.Intn(256))}, "linklocal4"
	case 20:
		b := rb(16)
		b[0] = 0xfc + byte(r.Intn(2))
		return b, "unique-local6"
	case 21:
		b := rb(16)
		b[0], b[1] = 0xfe, 0x80
		return b, "linklocal6"
	case 22:
		return append(append(make([]byte, 10), 0xff, 0xff), 224, 0, 0, 1), "multicast-v4-in-v6"
	case 23:
		return append(append(make([]byte, 10), 0xff, 0xff), 0, 0, 0, 0), "zero-v4-in-v6"
	case 24:
		return []byte{0xff}, "len1-ff"
	case 25:
		return bytes.Repeat([]byte{0xff}, 17), "len17-ff"
	default:
		return []byte{203, 0, 113, byte(r.Intn(256))}, "public4"
	}
}

func (w *dworld) expClass(c int) (uint64, string) {
	now := dvNow()
	switch c % 16 {
	case 0, 1, 2, 3:
		return now + 20, "good"
	case 4:
		return now + 4, "soon"
	case 5:
		return now - 4, "just-past"
	case 6:
		return now - 100000, "past"
	case 7:
		return 0, "zero"
	case 8:
		return 1, "one"
	case 9:
		return now + 1000000000, "far-future"
	case 10:
		return 1 << 62, "2^62"
	case 11:
		return 1<<63 - unixInternal - 1, "last-before-wrap"
	case 12:
		return 1<<63 - unixInternal, "first-wrapping"
	case 13:
		return 1<<63 - 1, "2^63-1"
	case 14:
		return 1<<63 + uint64(w.rng.Intn(10)), "2^63.."
	default:
		return 1<<64 - 1, "2^64-1"
	}
}

// what the harness itself expects of an expiration (Go: time.Unix(int64(ts), 0).Before(now), with the wrap of the
// internal seconds); used for time budgeting only, the verdict is the model's
func dvExpired(ts uint64) bool {
	s := int64(ts)
	return s+unixInternal < int64(dvNow())+unixInternal // int64 wrap intended
}

func (w *dworld) randID() []byte { b := make([]byte, 64); w.rng.Read(b); return b }

// one entry of a hostile neighbors packet. dead: how many entries that make the node ping an address where nobody
// answers may still be spent (each holds one of the 16 bonding slots for the reply timeout).
func (w *dworld) hostileEntry(sender *dpeer, prev *rawNode, dead *int) rawNode {
	r := w.rng
	c := w.nextClass()
	ip, ipl := w.ipClass(c)
	var e rawNode
	e.IP = ip
	e.label = ipl
	// port
	switch pc := r.Intn(12); {
	case pc == 0:
		e.UDP, e.label = 0, e.label+"/port0"
	case pc == 1:
		e.UDP, e.label = 65535, e.label+"/port65535"
	case pc == 2:
		e.UDP, e.label = uint64(w.vadr.Port), e.label+"/victims-port"
	default:
		e.UDP = w.uniquePort()
	}
	e.TCP = []uint64{0, 65535, e.UDP, uint64(r.Intn(65536))}[r.Intn(4)]
	// identity
	fresh, unknown := false, false
	switch ic := r.Intn(14); {
	case ic == 0:
		e.ID, e.label, unknown = make([]byte, 64), e.label+"/id-zero", true
	case ic == 1:
		e.ID, e.label, unknown = bytes.Repeat([]byte{0xff}, 64), e.label+"/id-ff", true
	case ic == 2:
		e.ID, e.label, unknown = w.vid[:], e.label+"/id-victim", true
	case ic == 3:
		e.ID, e.label = sender.id[:], e.label+"/id-sender"
	case ic == 4:
		e.ID, e.label = w.h.id[:], e.label+"/id-honest"
	case ic == 5 && prev != nil:
		e.ID, e.label = prev.ID, e.label+"/id-duplicate"
		prev.tie = false // one bonding process per identity: which of the two addresses is pinged is a race
	case ic == 6 && len(w.fill) > 0:
		f := w.fill[r.Intn(len(w.fill))]
		e.ID, e.label = f.id[:], e.label+"/id-filler"
	case ic == 7:
		k := dvKey(r)
		id := discover.PubkeyID(&k.PublicKey)
		e.ID, e.label, fresh = id[:], e.label+"/id-curve-point", true
	default:
		e.ID, fresh = w.randID(), true
	}
	// would the node ping it? (budget only)
	nip := net.IP(e.IP)
	valid := !(nip.IsMulticast() || nip.IsUnspecified() || e.UDP == 0)
	if valid && (unknown || fresh) {
		if *dead <= 0 {
			// no budget: keep the address class, make it an entry the node does not ping
			e.UDP, e.label = 0, e.label+"/port0"
			valid = false
		} else {
			*dead--
		}
	}
	e.tie = fresh && (e.UDP >= 40000 && e.UDP < 60000 || e.UDP == 0)
	return e
}

func dvNeighVal(nodes []rawNode, exp uint64) []interface{} {
	l := []interface{}{}
	for _, n := range nodes {
		l = append(l, n.val())
	}
	return []interface{}{l, exp}
}

// mutate: a truncated / extended payload under a good hash and signature
func (w *dworld) mutate(payload []byte, m int) ([]byte, string) {
	r := w.rng
	switch m {
	case 1:
		if len(payload) > 1 {
			return payload[:1+r.Intn(len(payload)-1)], "truncated"
		}
	case 2:
		g := make([]byte, 1+r.Intn(40))
		r.Read(g)
		return append(append([]byte{}, payload...), g...), "trailing-garbage"
	case 3:
		return append(append([]byte{}, payload...), payload...), "twice"
	case 4:
		return payload[:0], "no-payload"
	case 5:
		return randomRLP(r, 0), "random-rlp"
	}
	return payload, "intact"
}

// ---------------------------------------------------------------- child

func runDiscvChild(rng *rand.Rand, n int, out *Out, args []string) {
	idx := 0
	if len(args) > 0 {
		idx, _ = strconv.Atoi(args[0])
	}
	for s := 0; s < n; s++ {
		dvSession(rng, out, idx+s)
	}
}

func dvSession(rng *rand.Rand, out *Out, idx int) {
	w := &dworld{rng: rng, out: out, idx: idx, cls: idx * 7}
	w.lag = newLagMeter()
	defer close(w.lag.stop)
	atomic.AddInt64(&w.hgo, 1) // the lag meter
	base0 := runtime.NumGoroutine()

	// the victim
	w.vkey = dvKey(rng)
	w.vid = discover.PubkeyID(&w.vkey.PublicKey)
	uc, err := net.ListenUDP("udp4", &net.UDPAddr{IP: net.IPv4(127, 0, 0, 1)})
	if err != nil {
		panic(err)
	}
	w.vadr = uc.LocalAddr().(*net.UDPAddr)
	w.vc = &dvConn{UDPConn: uc, live: map[int]bool{}}
	w.tab = discover.VerifNewUDP(w.vkey, w.vc, "")
	_ = base0

	// honest peer, fillers
	w.h = w.newPeer("H", roleHonest)
	nfill := []int{0, 6, 40, 24}[idx%4]
	for i := 0; i < nfill; i++ {
		w.fill = append(w.fill, w.newPeer(fmt.Sprintf("filler%d", i), roleFiller))
	}
	var pool []rawNode
	for _, f := range w.fill {
		pool = append(pool, rawNode{IP: []byte{127, 0, 0, 1}, UDP: uint64(f.port), TCP: uint64(f.port), ID: f.id[:]})
	}
	tell := func(p *dpeer) {
		var k []rawNode
		for _, i := range rng.Perm(len(pool)) {
			if len(k) < dvBucket && !bytes.Equal(pool[i].ID, p.id[:]) {
				k = append(k, pool[i])
			}
		}
		for i := 0; len(k) > 0 && len(k) < dvBucket; i++ {
			k = append(k, k[i]) // a short list would make the node wait the reply timeout for more
		}
		p.known = k
	}
	tell(w.h)
	for _, f := range w.fill {
		tell(f)
	}

	// H bonds
	w.allow(3, 3*dvSmallMax)
	w.h.pingedV = true
	w.h.write(w.h.goodPing())
	bonded := w.waitFor(5*time.Second, func() bool { return discover.VerifKnownNode(w.tab, w.h.id) && discover.VerifTableHas(w.tab, w.h.id) })
	w.oracle(bonded, "node-bonds-with-honest-peer", Tup("scenario", I64(int64(idx))))
	if !bonded {
		return
	}
	time.Sleep(20 * time.Millisecond)
	baseline := w.victimGoroutines()
	w.baseline = baseline
	w.deadBudget = 12
	peak := baseline

	w.barrier("start")
	w.tcase("dv_consts", I64(0), Lst(I64(discover.Version), I64(dvBucket), I64(int64(discover.VerifMaxNeighbors())), I64(discover.VerifMaxBondingPingPongs),
		I64(int64(discover.VerifRespTimeout/time.Millisecond)), I64(int64(dvPing)), I64(int64(dvPong)), I64(int64(dvFind)), I64(int64(dvNeigh))), "constants")
	// lookups first: identities that leave later would be asked (and waited for) in every lookup
	hs := w.phaseLookups(&peak)
	w.phaseUnsolicited(&peak)
	w.phaseFloods(&peak)
	for _, p := range hs {
		p.close()
	}

	// ---- afterwards
	w.barrier("end")
	// bounded state: every bonding process ends; at the latest after one reply timeout each (one after the other)
	quiet := w.waitFor(time.Duration(w.silent+6)*discover.VerifRespTimeout+2*time.Second, func() bool { return w.victimGoroutines() <= baseline+2 })
	g := w.victimGoroutines()
	if !quiet {
		buf := make([]byte, 1<<20)
		buf = buf[:runtime.Stack(buf, true)]
		os.Stderr.Write(buf)
	}
	w.oracle(quiet, "discovery-leaves-no-goroutines-behind", Tup("baseline", I64(int64(baseline)), "afterwards", I64(int64(g)), "peak", I64(int64(peak)), w.last()))
	w.count(fmt.Sprintf("discv:goroutine-peak-over-baseline:%s", bucketOf(peak-baseline)))
	w.tableOracle("end")
	w.amplification("end")
	w.barrier("final")
	if atomic.LoadInt64(&w.incon) > 0 {
		w.count("discv:inconclusive-observations-under-load")
	}
	// the sockets are closed by the end of the process; the node is left running (udp.close panics on a second Close)
}

func bucketOf(n int) string {
	switch {
	case n <= 0:
		return "0"
	case n <= 4:
		return "1-4"
	case n <= 16:
		return "5-16"
	case n <= 64:
		return "17-64"
	case n <= 256:
		return "65-256"
	}
	return ">256"
}

// barrier = the probe of the property: an honest peer's ping is answered. The read loop of the node handles the
// datagrams of its socket one after the other, so the pong also says that everything sent before was dealt with.
func (w *dworld) barrier(where string) bool {
	pk := w.h.goodPing()
	toks := []string{string(pk[:dvMac])}
	w.allow(1, dvSmallMax)
	w.lag.reset()
	t0 := time.Now()
	w.h.write(pk)
	got := func() bool {
		w.h.mu.Lock()
		defer w.h.mu.Unlock()
		for _, t := range toks {
			if w.h.pongTok[t] {
				return true
			}
		}
		return false
	}
	// a datagram can be lost when a socket buffer is full (floods): ask again, every second
	ok := false
	for try := 0; try < 12 && !ok; try++ {
		ok = w.waitFor(time.Second, got)
		if !ok {
			pk2 := w.h.goodPing()
			w.allow(1, dvSmallMax)
			toks = append(toks, string(pk2[:dvMac]))
			w.h.write(pk2)
		}
	}
	el := time.Since(t0)
	// the table mutex is held while the oldest entry of a full bucket is pinged (one reply timeout); the read loop
	// waits for it when it serves a findnode: bounded by the reply timeout per waiting bonding process
	bound := 4*time.Second + 2*w.lag.worst()
	w.oracle(ok && el <= bound, "node-answers-honest-ping-afterwards", Tup(where, "answered", ok, "after", el.String(), "bound", bound.String(), w.last()))
	w.count("discv:barrier")
	return ok
}

func (w *dworld) tableOracle(where string) {
	total, maxb, hasNil, hasSelf, hasDup := discover.VerifTableStats(w.tab)
	ok := total <= discover.VerifNBuckets*dvBucket && maxb <= dvBucket && !hasNil && !hasSelf && !hasDup
	w.oracle(ok, "discovery-table-within-its-bounds", Tup(where, "entries", I64(int64(total)), "fullest-bucket", I64(int64(maxb)), "nil-entry", hasNil, "own-identity", hasSelf, "identity-twice", hasDup, w.last()))
	w.count("discv:table-fullest-bucket:" + bucketOf(maxb))
}

// everything the node has sent so far against what the protocol lets the datagrams it received (and the lookups the
// harness started) cause: a pong and one bonding ping (plus one ping to the oldest entry of a full bucket) per ping,
// one answer set of ceil(bucketSize/maxNeighbors) datagrams per findnode of a BONDED node, nothing for anything else
func (w *dworld) amplification(where string) {
	n, b := w.vc.totals()
	an, ab := atomic.LoadInt64(&w.allowN), atomic.LoadInt64(&w.allowB)
	w.oracle(int64(n) <= an && int64(b) <= ab, "node-sends-no-more-than-the-protocol-allows",
		Tup(where, "datagrams-sent", I64(int64(n)), "allowed", I64(an), "bytes-sent", I64(int64(b)), "allowed", I64(ab), w.last()))
}

func (w *dworld) neighborsPerAnswer() int {
	m := discover.VerifMaxNeighbors()
	return (dvBucket + m - 1) / m
}

// ---------------------------------------------------------------- phase 1: unsolicited packets, one at a time

// the datagrams the node sent to one socket
func dvTo(recs []dvSent, port int) (pongs, pings, neigh, other int) {
	for _, r := range recs {
		if r.port != port {
			continue
		}
		switch r.ptype {
		case dvPong:
			pongs++
		case dvPing:
			pings++
		case dvNeigh:
			neigh++
		default:
			other++
		}
	}
	return
}

func (w *dworld) bondHostile(name string, mode int, near int) *dpeer {
	p := w.newPeerNear(name, roleHostile, near)
	p.pongMode = mode
	w.allow(3, 3*dvSmallMax)
	pk := p.goodPing()
	w.sent("ping:bonding", p, pk)
	p.write(pk)
	return p
}

func (w *dworld) isKnown(p *dpeer) bool { return discover.VerifKnownNode(w.tab, p.id) }

func (w *dworld) phaseUnsolicited(peak *int) {
	r := w.rng
	// a bonded hostile identity (honest pongs) and its table entry
	b := w.bondHostile("B0", pongHonest, -1)
	// (known to the node database: its findnode is served; whether it also got a place in its bucket is Kademlia's business)
	if !w.waitFor(5*time.Second, func() bool { return w.isKnown(b) }) {
		w.oracle(false, "node-bonds-with-honest-peer", Tup("B0 (honest so far)", w.last()))
		return
	}
	nacts := 56
	type dvLater struct {
		p    *dpeer
		mode int
		at   time.Time
	}
	var later []dvLater
	for a := 0; a < nacts; a++ {
		c := w.nextClass()
		// sender: the bonded identity or a fresh one
		sender := b
		fresh := a%2 == 1
		if fresh {
			sender = w.newPeer(fmt.Sprintf("F%d", a), roleHostile)
			sender.pongMode = (c / 16) % pongModes
		}
		kind := []byte{dvPing, dvFind, dvNeigh, dvPong, dvPing, dvFind, dvPing, dvNeigh}[(c/2)%8]
		exp, expl := w.expClass(r.Intn(16))
		if r.Intn(3) == 0 {
			exp, expl = dvNow()+20, "good"
		}
		var val []interface{}
		label := ""
		version := uint64(discover.Version)
		switch kind {
		case dvPing:
			fip, fl := w.ipClass(w.nextClass())
			tip, tl := w.ipClass(r.Intn(27))
			from := rawEP{fip, []uint64{0, 65535, uint64(sender.port)}[r.Intn(3)], []uint64{0, 65535, uint64(sender.port)}[r.Intn(3)]}
			to := rawEP{tip, []uint64{0, 65535, uint64(w.vadr.Port)}[r.Intn(3)], uint64(r.Intn(65536))}
			if r.Intn(4) == 0 {
				version = []uint64{0, 3, 5, 1 << 32, 1<<64 - 1}[r.Intn(5)]
			}
			val = []interface{}{version, from.val(), to.val(), exp}
			label = fmt.Sprintf("ping:v%d:from-%s:to-%s:exp-%s", version, fl, tl, expl)
			switch r.Intn(10) {
			case 0:
				val = append(val, []byte("extra"))
				label += ":extra-field"
			case 1:
				val = val[:3]
				label += ":no-expiration"
			case 2:
				val[1] = fip
				label += ":endpoint-not-a-list"
			}
		case dvPong:
			tip, tl := w.ipClass(w.nextClass())
			tok := make([]byte, []int{0, 1, 31, 32, 33, 1000}[r.Intn(6)])
			r.Read(tok)
			val = []interface{}{rawEP{tip, uint64(r.Intn(2)) * 65535, 0}.val(), tok, exp}
			label = fmt.Sprintf("pong:unsolicited:to-%s:tok%d:exp-%s", tl, len(tok), expl)
		case dvFind:
			var target []byte
			switch r.Intn(6) {
			case 0:
				target = make([]byte, 64)
			case 1:
				target = w.vid[:]
			case 2:
				target = make([]byte, 63)
			case 3:
				target = make([]byte, 65)
			default:
				target = w.randID()
			}
			val = []interface{}{target, exp}
			label = fmt.Sprintf("findnode:target%d:exp-%s", len(target), expl)
		case dvNeigh:
			var nodes []rawNode
			dead := 0
			cnt := []int{0, 1, 2, 8, 12, 13, 16}[r.Intn(7)]
			for i := 0; i < cnt; i++ {
				var prev *rawNode
				if i > 0 {
					prev = &nodes[i-1]
				}
				e := w.hostileEntry(sender, prev, &dead)
				// unsolicited: nothing of it may be used, so the entries may as well be attractive
				if e.UDP == 0 && r.Intn(2) == 0 {
					e.UDP = w.uniquePort()
				}
				nodes = append(nodes, e)
			}
			val = dvNeighVal(nodes, exp)
			label = fmt.Sprintf("neighbors:unsolicited:%d-entries:exp-%s", cnt, expl)
		}
		payload := enc(val)
		mut := 0
		if r.Intn(5) == 0 {
			mut = 1 + r.Intn(5)
		}
		payload, ml := w.mutate(payload, mut)
		if len(payload)+dvHead+1 > dvDatagram {
			payload = payload[:dvDatagram-dvHead-1]
			ml = "cut-at-the-datagram-limit"
		}
		var pk []byte
		if mut == 0 && r.Intn(2) == 0 {
			pk = dvEncode(sender.key, kind, val) // the node's own encoder on the raw values
		} else {
			pk = dvSeal(sender.key, kind, payload)
		}
		if mut != 0 {
			label += ":" + ml
		}
		if fresh {
			label += ":unbonded"
		} else {
			label += ":bonded"
		}
		decodes := dvDecodes(kind, payload)
		known := w.isKnown(sender)
		total, _, _, _, _ := discover.VerifTableStats(w.tab)
		closest := total
		if closest > dvBucket {
			closest = dvBucket
		}
		// what the protocol lets this datagram cause
		switch kind {
		case dvPing:
			w.allow(3, 3*dvSmallMax)
		case dvFind:
			if known {
				w.allow(w.neighborsPerAnswer(), w.neighborsPerAnswer()*dvDatagram)
			}
		}
		sender.mu.Lock()
		nd0, pg0, np0 := sender.neighNd, sender.pings, sender.neighPk
		sender.mu.Unlock()
		m0 := w.vc.mark()
		now0 := dvNow()
		w.sent(label, sender, pk)
		sender.write(pk)
		okb := w.barrier(label)
		now1 := dvNow()
		recs := w.vc.since(m0)
		pongs, _, neigh, other := dvTo(recs, sender.port)
		// (the sender's reader is a goroutine of its own: let it see the datagrams the node has written)
		w.waitFor(2*time.Second, func() bool { sender.mu.Lock(); defer sender.mu.Unlock(); return sender.neighPk-np0 >= neigh })
		sender.mu.Lock()
		nodes := sender.neighNd - nd0
		seenAll := sender.neighPk-np0 == neigh
		sender.mu.Unlock()
		w.count("discv:act:" + []string{"", "ping", "pong", "findnode", "neighbors"}[kind])
		if g := w.victimGoroutines(); g > *peak {
			*peak = g
		}
		if !okb {
			continue
		}
		// the node never answers with anything but pong / neighbors, and never to an unbonded findnode
		w.oracle(other == 0, "node-answers-only-with-pong-or-neighbors", Tup(label, Byt(pk)))
		if kind == dvFind && !known {
			w.oracle(pongs == 0 && neigh == 0, "no-answer-to-findnode-of-unbonded-peer", Tup(label, "datagrams", I64(int64(neigh)), Byt(pk)))
		}
		if kind == dvFind {
			w.oracle(neigh <= w.neighborsPerAnswer() && nodes <= dvBucket, "findnode-answer-within-bucket-size", Tup(label, "datagrams", I64(int64(neigh)), "nodes", I64(int64(nodes)), Byt(pk)))
		}
		if kind == dvNeigh || kind == dvPong {
			// an unsolicited reply changes nothing: no datagram to the sender, none to an address it names
			caused := ""
			for _, rc := range recs {
				if rc.port == sender.port || !w.vc.isLive(rc.port) {
					caused += fmt.Sprintf(" type %d to %v:%d", rc.ptype, net.IP(rc.ip), rc.port)
				}
			}
			w.oracle(caused == "", "unsolicited-reply-causes-no-datagram", Tup(label, "datagrams:"+caused, Byt(pk)))
		}
		// model: the decision per packet (expiration as the model computes it from ts and the clock)
		// (the verdict on an expiration within seconds of the clock depends on the moment the node looked at it)
		near := exp+3 >= now0 && exp <= now1+3
		total1, _, _, _, _ := discover.VerifTableStats(w.tab)
		if !near && seenAll && w.lag.worst() < 500*time.Millisecond && (total1 == total || total >= dvBucket && total1 >= dvBucket) {
			w.tcase("disc_handle", Tup(I64(int64(kind)), decodes, U64(exp), U64(now0), U64(version), known, I64(int64(closest))),
				Tup(I64(int64(pongs)), I64(int64(neigh)), I64(int64(nodes))), dvTag(kind, decodes, dvExpired(exp), version, known))
		}
		// a valid ping of an unknown identity starts a bonding process: the node pings back, the identity answers in
		// its way (pongMode); wait for the end before the table is read again
		if kind == dvPing && fresh && pongs == 1 {
			got := w.waitFor(3*time.Second, func() bool { sender.mu.Lock(); defer sender.mu.Unlock(); return sender.pings > pg0 })
			w.oracle(got, "node-bonds-back-after-ping", Tup(label, Byt(pk)))
			mode := sender.pongMode
			w.count("discv:bonding-pong:" + pongModeName[mode])
			// model disc_reply: a pong is taken iff it decodes, is not expired and comes from the identity that was pinged
			accept := mode != pongSilent && mode != pongExpired && mode != pongOtherKey
			if got && accept {
				ok := w.waitFor(3*time.Second, func() bool { return w.isKnown(sender) })
				w.tcase("disc_reply", Tup(true, mode == pongExpired, true), ok, "pong:"+pongModeName[mode])
				sender.close()
			} else if got {
				later = append(later, dvLater{sender, mode, time.Now()})
			}
			continue
		}
		if fresh {
			// the identity leaves (its table entry stays, as a node that went away)
			sender.close()
		}
	}
	// the pongs that must not complete a bond: the node's ping has timed out by now
	for _, l := range later {
		if d := time.Until(l.at.Add(discover.VerifRespTimeout + 250*time.Millisecond)); d > 0 {
			time.Sleep(d)
		}
		w.tcase("disc_reply", Tup(l.mode != pongSilent, l.mode == pongExpired, l.mode != pongOtherKey), w.isKnown(l.p), "pong:"+pongModeName[l.mode])
		l.p.close()
	}
	w.tableOracle("after-unsolicited")
	w.amplification("after-unsolicited")
	b.close()
}

func dvTag(kind byte, decodes, expired bool, version uint64, known bool) string {
	s := []string{"", "ping", "pong", "findnode", "neighbors"}[kind]
	switch {
	case !decodes:
		return s + ":undecodable"
	case expired:
		return s + ":expired"
	case kind == dvPing && version != uint64(discover.Version):
		return s + ":bad-version"
	case kind == dvFind && !known:
		return s + ":unbonded"
	}
	return s + ":served"
}

// ---------------------------------------------------------------- phase 2: the node asks, hostile peers answer

type dvPlan struct {
	name   string
	groups [][]rawNode // entries per datagram
	pk     [][]byte
	delays []time.Duration
	clean  bool // every datagram intact, in time, from the asked identity, good expiration, below the limit
	exp    uint64
	expPl  bool // intact and in time, but with an expiration of a hostile class
}

func (w *dworld) makePlan(p *dpeer, c int, dead *int) *dvPlan {
	r := w.rng
	pl := &dvPlan{clean: true}
	group := func(n int) []rawNode {
		var g []rawNode
		for i := 0; i < n; i++ {
			var prev *rawNode
			if i > 0 {
				prev = &g[i-1]
			}
			g = append(g, w.hostileEntry(p, prev, dead))
		}
		return g
	}
	exp := dvNow() + 20
	signer := p.key
	mutAt, mut := -1, 0
	switch c % 14 {
	case 0, 1:
		pl.name = "two-datagrams-of-8"
		pl.groups = [][]rawNode{group(8), group(8)}
	case 2:
		pl.name = "as-many-as-fit"
		pl.groups = [][]rawNode{group(16)}
	case 3:
		pl.name = "twenty-datagrams-of-1"
		for i := 0; i < 20; i++ {
			pl.groups = append(pl.groups, group(1))
		}
	case 4:
		k := []int{20, 40, 100, 300, 900}[r.Intn(5)]
		pl.name = fmt.Sprintf("beyond-the-datagram-limit-%d-then-two", k)
		d := 0
		big := make([]rawNode, k)
		for i := range big {
			big[i] = w.hostileEntry(p, nil, &d)
			big[i].IP = big[i].IP[:0]
		}
		pl.groups = [][]rawNode{big, group(8), group(8)}
		pl.clean = false
	case 5:
		pl.name = "empty-lists-then-two"
		pl.groups = [][]rawNode{{}, {}, {}, group(8), group(8)}
	case 6:
		pl.name = "after-the-deadline"
		pl.groups = [][]rawNode{group(8), group(8)}
		pl.delays = []time.Duration{discover.VerifRespTimeout + 150*time.Millisecond, 0}
		pl.clean = false
	case 7:
		pl.name = "in-two-halves"
		pl.groups = [][]rawNode{group(8), group(8)}
		pl.delays = []time.Duration{0, 150 * time.Millisecond}
		pl.clean = false
	case 8:
		var el string
		exp, el = w.expClass(4 + r.Intn(12))
		pl.name = "expiration-" + el
		pl.groups = [][]rawNode{group(8), group(8)}
		pl.clean = false
		pl.exp, pl.expPl = exp, true
	case 9:
		pl.name = "mutated-then-two"
		pl.groups = [][]rawNode{group(6), group(8), group(8)}
		mutAt, mut = 0, 1+r.Intn(5)
		pl.clean = false
	case 10:
		pl.name = "silence"
	case 11:
		pl.name = "three-datagrams-of-12"
		pl.groups = [][]rawNode{group(12), group(12), group(12)}
	case 12:
		pl.name = "signed-by-another-key"
		pl.groups = [][]rawNode{group(8), group(8)}
		signer = dvKey(r)
		pl.clean = false
	case 13:
		pl.name = "one-entry-then-seventeen"
		pl.groups = [][]rawNode{group(1), group(17)}
	}
	for i, g := range pl.groups {
		val := dvNeighVal(g, exp)
		payload := enc(val)
		ml := ""
		if i == mutAt {
			payload, ml = w.mutate(payload, mut)
			pl.name += ":" + ml
		}
		// entries with long addresses: drop entries until the datagram fits (unless the plan is about the limit)
		for !(c%14 == 4 && i == 0) && len(payload)+dvHead+1 > dvDatagram && len(g) > 0 && i != mutAt {
			g = g[:len(g)-1]
			pl.groups[i] = g
			payload = enc(dvNeighVal(g, exp))
		}
		if len(payload)+dvHead+1 > 65000 {
			payload = payload[:65000-dvHead-1]
		}
		if i != mutAt && r.Intn(2) == 0 && len(payload)+dvHead+1 <= dvDatagram {
			pl.pk = append(pl.pk, dvEncode(signer, dvNeigh, dvNeighVal(g, exp)))
		} else {
			pl.pk = append(pl.pk, dvSeal(signer, dvNeigh, payload))
		}
	}
	return pl
}

func (w *dworld) phaseLookups(peak *int) (hs []*dpeer) {
	r := w.rng
	// hostile identities that bond honestly and sit in the table
	nh := 2 + w.idx%2
	near := r.Intn(256)
	for i := 0; i < nh; i++ {
		hs = append(hs, w.bondHostile(fmt.Sprintf("B%d", i+1), pongHonest, near))
	}
	// a few fillers bond by themselves, the others are learnt from answers
	for i, f := range w.fill {
		if i < 3 {
			w.allow(3, 3*dvSmallMax)
			f.mu.Lock()
			f.pingedV = true
			f.mu.Unlock()
			f.write(f.goodPing())
		}
	}
	for _, p := range hs {
		p := p
		if !w.waitFor(3*time.Second, func() bool { return w.isKnown(p) && discover.VerifTableHas(w.tab, p.id) }) {
			w.oracle(false, "node-bonds-with-honest-peer", Tup(p.name+" (honest so far)", w.last()))
			return hs
		}
	}
	rounds := 3
	for round := 0; round < rounds; round++ {
		dead := w.deadBudget
		plans := map[*dpeer]*dvPlan{}
		for i, p := range hs {
			share := dead / (len(hs) - i)
			d := share
			pl := w.makePlan(p, w.idx*3+round*5+i*3+r.Intn(2)*7, &d)
			dead -= share - d
			plans[p] = pl
			p.mu.Lock()
			pk := pl.pk
			p.plan = func(*dpeer, dvFindT) [][]byte { return pk }
			p.planDelay = pl.delays
			p.planN = 0
			// when the node pings this identity again (a failed findnode makes it bond from scratch), the answer varies
			p.pongMode = []int{pongHonest, pongHonest, pongEmptyTok, pongShortTok, pongLongTok, pongRandomTok, pongTwice, pongHostileEP, pongExpired}[r.Intn(9)]
			p.mu.Unlock()
			w.count("discv:plan:" + pl.name)
		}
		total0, _, _, _, _ := discover.VerifTableStats(w.tab)
		m0 := w.vc.mark()
		now0 := dvNow()
		w.lag.reset()
		var target discover.NodeID
		for r.Read(target[:]); int(crypto.Keccak256(target[:])[0]) != near; {
			r.Read(target[:])
		}
		if r.Intn(6) == 0 {
			target = w.vid
		}
		done := make(chan int, 1)
		t0 := time.Now()
		var wg sync.WaitGroup
		go func() { done <- len(w.tab.Lookup(target, &wg, false)) }()
		// the lookup ends: every query is bounded by the reply timeout, every bonding by two of them
		var res int
		finished := false
		select {
		case res = <-done:
			finished = true
		case <-time.After(40 * time.Second):
		}
		el := time.Since(t0)
		if !finished {
			buf := make([]byte, 1<<20)
			buf = buf[:runtime.Stack(buf, true)]
			os.Stderr.Write(buf)
		}
		w.oracle(finished, "lookup-ends-whatever-the-answers", Tup("round", I64(int64(round)), el.String(), w.last()))
		if !finished {
			return hs
		}
		_ = res
		w.count("discv:lookup")
		w.count("discv:lookup-seconds:" + bucketOf(int(el/time.Second)))
		if g := w.victimGoroutines(); g > *peak {
			*peak = g
		}
		recs := w.vc.since(m0)
		// what the lookup may send: a findnode to every node it can have asked, two pings per entry it was told
		// about (bonding, oldest entry of a full bucket); the pings of fillers that bond back are accounted by them
		told := 0
		for _, pl := range plans {
			for _, g := range pl.groups {
				told += len(g)
			}
		}
		told += (1 + len(w.fill)) * dvBucket
		w.allow(2*(total0+told)+told, (2*(total0+told)+told)*dvSmallMax)
		w.barrier("after-lookup:" + fmt.Sprint(round))
		w.tableOracle("after-lookup")
		w.amplification("after-lookup")

		// ---- ties: the fate of the entries
		pinged := map[string]bool{}
		for _, rc := range recs {
			if rc.ptype == dvPing {
				pinged[string(rc.ip)+":"+fmt.Sprint(rc.port)] = true
			}
		}
		lagw := w.lag.worst()
		for p, pl := range plans {
			p.mu.Lock()
			asked, took := p.planN > 0, p.planDone
			p.mu.Unlock()
			if !asked {
				w.count("discv:plan-not-asked")
				continue
			}
			w.count("discv:plan-asked")
			if pl.expPl && took+2*lagw <= 200*time.Millisecond && !(pl.exp+3 >= now0 && pl.exp <= dvNow()+3) && len(pl.groups) > 0 {
				// a reply with a hostile expiration: handed to the callback iff not expired (model disc_reply; the
				// expiration itself is compared through disc_handle)
				// "handed to the callback" = the node pinged the addresses the reply names. One pinged address can be a
				// coincidence (another reply of the round, or an older table entry, naming the same address: 1 case in
				// 231 000 of a thorough run, DESIGN §8): with several probe entries ALL of them must have been pinged
				probe, seen := false, false
				nProbe, nSeen := 0, 0
				for _, e := range pl.groups[0] {
					nip := net.IP(e.IP)
					if e.tie && e.UDP != 0 && !nip.IsMulticast() && !nip.IsUnspecified() {
						probe = true
						nProbe++
						if pinged[dvDest(e)] {
							nSeen++
						}
					}
				}
				seen = nSeen > 0
				if nProbe >= 2 && nSeen > 0 && nSeen < nProbe && dvExpired(pl.exp) {
					w.count("discv:reply-probe-ambiguous")
					probe = false
				}
				if probe {
					w.tcase("disc_reply", Tup(true, dvExpired(pl.exp), true), seen, "neighbors:"+pl.name)
				}
			}
			if !pl.clean {
				continue
			}
			if took+2*lagw > 200*time.Millisecond {
				atomic.AddInt64(&w.incon, 1)
				continue
			}
			// which datagrams reach the callback: model findnode_collect on the entry counts
			var counts []interface{}
			var consumedObs []interface{}
			observable := true
			cum := 0
			for _, g := range pl.groups {
				counts = append(counts, I64(int64(len(g))))
				consumed := cum < dvBucket
				cum += len(g)
				// a probe: an entry of this datagram whose ping is expected
				seen, probe := false, false
				for _, e := range g {
					if !e.tie || e.UDP == 0 {
						continue
					}
					nip := net.IP(e.IP)
					if nip.IsMulticast() || nip.IsUnspecified() {
						continue
					}
					probe = true
					if pinged[dvDest(e)] {
						seen = true
					}
				}
				if !probe {
					observable = false
				}
				consumedObs = append(consumedObs, seen)
				if !consumed {
					continue
				}
				for _, e := range g {
					if !e.tie {
						continue
					}
					got := int64(0)
					if pinged[dvDest(e)] {
						got = 1
					}
					w.tcase("node_from_rpc", Tup(Byt(e.IP), U64(e.UDP)), I64(got), e.label)
				}
			}
			if observable && len(counts) > 0 {
				w.tcase("findnode_collect", counts, consumedObs, pl.name)
			}
		}
	}
	return hs
}

// the destination the node computes for an entry (newNode: the 4-byte form of an IPv4 address)
func dvDest(e rawNode) string {
	ip := net.IP(e.IP)
	if v4 := ip.To4(); v4 != nil {
		ip = v4
	}
	return string(ip) + ":" + fmt.Sprint(e.UDP)
}

// ---------------------------------------------------------------- phase 3: floods

func (w *dworld) phaseFloods(peak *int) {
	r := w.rng
	// (i) findnode flood of an unbonded identity: nothing comes back
	u := w.newPeer("U", roleHostile)
	m0 := w.vc.mark()
	var first []byte
	nf := 120
	for i := 0; i < nf; i++ {
		pk := dvEncode(u.key, dvFind, []interface{}{w.randID(), dvNow() + 20})
		if i == 0 {
			first = pk
			w.sent(fmt.Sprintf("findnode-flood:unbonded:%d", nf), u, pk)
		}
		u.write(pk)
	}
	w.barrier("findnode-flood:unbonded")
	pongs, pings, neigh, other := dvTo(w.vc.since(m0), u.port)
	w.oracle(pongs+pings+neigh+other == 0, "no-answer-to-findnode-of-unbonded-peer", Tup("flood", I64(int64(nf)), "datagrams-to-the-sender", I64(int64(pongs+pings+neigh+other)), Byt(first)))
	u.close()

	// (ii) findnode flood of a bonded identity: one answer set each, the honest peer is served afterwards
	b := w.bondHostile("BF", pongHonest, -1)
	if w.waitFor(3*time.Second, func() bool { return w.isKnown(b) }) {
		m0 = w.vc.mark()
		nf = 60
		for i := 0; i < nf; i++ {
			pk := dvEncode(b.key, dvFind, []interface{}{w.randID(), dvNow() + 20})
			if i == 0 {
				first = pk
				w.sent(fmt.Sprintf("findnode-flood:bonded:%d", nf), b, pk)
			}
			w.allow(w.neighborsPerAnswer(), w.neighborsPerAnswer()*dvDatagram)
			b.write(pk)
		}
		w.barrier("findnode-flood:bonded")
		_, _, neigh, _ = dvTo(w.vc.since(m0), b.port)
		w.oracle(neigh <= nf*w.neighborsPerAnswer(), "findnode-answer-within-bucket-size", Tup("flood", I64(int64(nf)), "datagrams", I64(int64(neigh)), Byt(first)))
	}
	// (iii) ping flood of one identity
	m0 = w.vc.mark()
	np := 80
	for i := 0; i < np; i++ {
		pk := b.goodPing()
		if i == 0 {
			first = pk
			w.sent(fmt.Sprintf("ping-flood:one-identity:%d", np), b, pk)
		}
		w.allow(3, 3*dvSmallMax)
		b.write(pk)
	}
	w.barrier("ping-flood:one-identity")
	if g := w.victimGoroutines(); g > *peak {
		*peak = g
	}
	b.close()
	// (iv) pings of several identities that never answer the node's ping, all at once. Every one starts a bonding
	// process; maxBondingPingPongs (16) of them may run at a time, so the node's pings to all of them are out at once -
	// a peer that does not answer holds ONE slot for one reply timeout and delays nobody else. Judged when the node has
	// been through at least 16 bondings before (slots that are not given back are missing by then) and nothing else is
	// bonding.
	answered := 0
	count := func(p *dpeer) { p.mu.Lock(); answered += p.pings; p.mu.Unlock() }
	count(w.h)
	for _, f := range w.fill {
		count(f)
	}
	w.waitFor(6*time.Second, func() bool { return w.victimGoroutines() <= w.baseline+1 })
	idle := w.victimGoroutines() <= w.baseline+1
	s := w.newPeer("S", roleHostile)
	s.pongMode = pongSilent
	ni := 12
	w.silent = ni
	w.lag.reset()
	m0 = w.vc.mark()
	for i := 0; i < ni; i++ {
		k := dvKey(r)
		fip, _ := w.ipClass(w.nextClass())
		pk := dvEncode(k, dvPing, []interface{}{uint64(discover.Version), rawEP{fip, uint64(s.port), uint64(r.Intn(65536))}.val(), w.vep().val(), dvNow() + 20})
		if i == 0 {
			first = pk
			w.sent(fmt.Sprintf("pings:%d-identities-that-never-answer", ni), s, pk)
		}
		w.allow(3, 3*dvSmallMax)
		s.write(pk)
	}
	time.Sleep(discover.VerifRespTimeout / 2)
	_, out, _, _ := dvTo(w.vc.since(m0), s.port)
	if idle && answered >= discover.VerifMaxBondingPingPongs && w.lag.worst() < 100*time.Millisecond {
		w.oracle(out >= ni-1, "bonding-slots-are-returned", Tup("identities that pinged at once and do not answer", I64(int64(ni)),
			"bonding pings of the node out after half a reply timeout", I64(int64(out)), "bondings before", I64(int64(answered)), Byt(first)))
	} else {
		w.count("discv:slots-not-judged")
	}
	w.barrier("pings:many-identities")
	if g := w.victimGoroutines(); g > *peak {
		*peak = g
	}
	w.count("discv:floods")
}
