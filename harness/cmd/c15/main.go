package main

// c15: untrusted peers cannot crash, stall or bloat the node.
//   handler - the real protocol.ProtocolManager on a mock chain, SubProtocols[0].Run driven over p2p.MsgPipe.
//             Sessions run in CHILD processes (re-exec with suite handler-child): a panic on one of the node's
//             own goroutines has no recover and is observed as the child's exit status.
//   frames  - RLPx frames from the real writer, then bit flips / truncation into rlpxFrameRW.ReadMsg
//   packets - discovery packets from the real encoder, then corruption into decodePacket
//   base    - hostile base-protocol (devp2p) messages: Peer.handle / readProtocolHandshake directly, a Peer's run loop
//             over a pipe, the real Server over RLPx on loopback with an honest peer that must stay served (base.go)
//   auth    - hostile messages of the encryption handshake that are well-formed ECIES encryptions of hostile fields,
//             against the listening and the dialing side of the transport and of the real Server (auth.go)
//   peers   - one node, an honest peer ahead of it, a misbehaving peer, an idle honest peer: the downloader synchronises
//             with the honest one while the other interferes (peers.go)
import (
	"bufio"
	"bytes"
	"encoding/json"
	"fmt"
	"math/rand"
	"os"
	"os/exec"
	"sync"
	"time"

	. "zharness/hz"
)

func main() {
	Main(map[string]Runner{
		"handler": runHandlerParent, "handler-child": runHandlerChild,
		"frames": runFrames, "packets": runPackets, "session": runSession,
		"base": runBaseParent, "base-child": runBaseChild,
		"peers": runPeersParent, "peers-child": runPeersChild,
		"syncpeer": runSyncParent, "syncpeer-child": runSyncChild,
		"stall": runStallParent, "stall-child": runStallChild,
		"sessions": runSessionsParent,
		"auth":     runAuthParent, "auth-child": runAuthChild,
		"discv": runDiscvParent, "discv-child": runDiscvChild,
	})
}

// run `n` sessions in child processes of `chunk` sessions each; merge their output
func runHandlerParent(rng *rand.Rand, n int, out *Out, args []string) {
	chunk := 40
	for done := 0; done < n; done += chunk {
		k := chunk
		if n-done < k {
			k = n - done
		}
		seed := rng.Int63()
		tmp, err := os.CreateTemp("", "c15child*.jsonl")
		if err != nil {
			panic(err)
		}
		tmp.Close()
		cmd := exec.Command(os.Args[0], "handler-child", "-seed", fmt.Sprint(seed), "-n", fmt.Sprint(k), "-out", tmp.Name())
		cmd.Stdout = os.Stderr
		cmd.Stderr = os.Stderr
		start := time.Now()
		errc := make(chan error, 1)
		if err := cmd.Start(); err != nil {
			panic(err)
		}
		go func() { errc <- cmd.Wait() }()
		var werr error
		timedOut := false
		select {
		case werr = <-errc:
		case <-time.After(900 * time.Second): // 40 sessions take ~15 s on a quiet machine; a loaded one needed more than 120 s once (thorough tier, DESIGN §8)
			cmd.Process.Kill()
			werr = <-errc
			timedOut = true
		}
		out.Count("child-runs")
		// the child's lines (also of a crashed child: it flushes after every session)
		last := ""
		failsByKey := map[string]int64{}
		if f, err := os.Open(tmp.Name()); err == nil {
			sc := bufio.NewScanner(f)
			sc.Buffer(make([]byte, 1<<20), 64<<20)
			for sc.Scan() {
				var m M
				d := json.NewDecoder(bytesReader(sc.Bytes()))
				d.UseNumber()
				if d.Decode(&m) != nil {
					continue
				}
				switch m["k"] {
				case "case":
					out.Case(m["fn"].(string), m["in"], m["out"], m["tag"].(string))
				case "oracle":
					out.Oracle(false, m["key"].(string), m["detail"])
					failsByKey["oracle:"+m["key"].(string)]++
				case "dist":
					for key, v := range m["dist"].(map[string]interface{}) {
						c, _ := v.(json.Number).Int64()
						if len(key) > 5 && key[:5] == "case:" {
							continue // counted by out.Case above
						}
						fails := failsByKey[key]
						for i := int64(0); i < c-fails; i++ {
							out.Count(key)
						}
					}
				case "progress":
					last, _ = m["session"].(string)
				}
			}
			f.Close()
		}
		os.Remove(tmp.Name())
		out.Oracle(werr == nil && !timedOut, "node-process-survives-session", Tup(fmt.Sprint(werr), timedOut, "child-seed", I64(seed), "last-session", last, time.Since(start).String()))
	}
}

// sessions = the suites syncpeer (n sessions), stall (4 rounds, 12 from n = 100 on), peers (12 scenarios, 240 from
// n = 100 on) and discv (16 sessions, 320 from n = 100 on) side by side: all of them spend most of their time waiting for the node's own timers (5 s handshake / hash
// request, 9 s block request, 4 s synchronisation cycle). Each of them can be run alone under its own name.
func runSessionsParent(rng *rand.Rand, n int, out *Out, args []string) {
	r1, r2, r3 := rand.New(rand.NewSource(rng.Int63())), rand.New(rand.NewSource(rng.Int63())), rand.New(rand.NewSource(rng.Int63()))
	r4 := rand.New(rand.NewSource(rng.Int63()))
	rounds, scen, disc := 4, 12, 16
	if n >= 100 {
		rounds, scen, disc = 12, 240, 320
	}
	var wg sync.WaitGroup
	wg.Add(4)
	// discv (discv.go): the live discovery endpoint; its sessions wait for the reply timeouts of the discovery protocol
	go func() { defer wg.Done(); runDiscvParent(r4, disc, out, nil) }()
	go func() { defer wg.Done(); runSyncParent(r1, n, out, nil) }()
	go func() { defer wg.Done(); runStallParent(r2, rounds, out, nil) }()
	go func() { defer wg.Done(); runPeersParent(r3, scen, out, nil) }()
	wg.Wait()
}

func bytesReader(b []byte) *bytes.Reader { return bytes.NewReader(b) }
