package main

import (
	"crypto/ecdsa"
	"fmt"
	"math/rand"
	"net"
	"sync"
	"time"

	"github.com/ethereum/go-ethereum/crypto"

	"github.com/zenon-network/go-zenon/p2p"
	"github.com/zenon-network/go-zenon/protocol"
	"github.com/zenon-network/go-zenon/verifier"
	. "zharness/hz"
)

// session: the real p2p.Server (TCP on loopback) with the protocol manager's sub-protocol; connections that stay
// silent / send garbage must be dropped by the armed timer (model Session.v). n >= 40 (thorough) adds the 40 s run of a
// real peer that completes the transport handshake, answers pings, but never sends its status.
func runSession(rng *rand.Rand, n int, out *Out, _ []string) {
	nd := NewNode()
	defer nd.Stop()
	for i := 0; i < 5; i++ {
		nd.Momentum()
	}
	bridge := protocol.NewChainBridge(nd.Ch, nd.Cs, verifier.NewVerifier(nd.Ch, nd.Cs), nd.Sv)
	pm := protocol.NewProtocolManager(1, networkId, bridge)
	pm.Start()
	keyA, _ := ecdsa.GenerateKey(crypto.S256(), rng)
	srvA := &p2p.Server{PrivateKey: keyA, MaxPeers: 50, MaxPendingPeers: 100, Name: "c15-A", Protocols: pm.SubProtocols, ListenAddr: "127.0.0.1:0", NoDial: true}
	if err := srvA.Start(); err != nil {
		out.Count("session:listen-unavailable")
		fmt.Println("cannot start p2p server:", err)
		return
	}
	defer srvA.Stop()
	addr := srvA.ListenAddr
	hs := int64(p2p.VerifHandshakeTimeout / time.Second)
	ticks := func(k int64) []interface{} {
		l := Lst()
		for i := int64(0); i < k; i++ {
			l = append(l, Con("Tick"))
		}
		return l
	}
	phaseOf := func(open bool, p string) M {
		if open {
			return Con(p)
		}
		return Con("PClosed")
	}
	var wg sync.WaitGroup
	var mu sync.Mutex
	silent := 3
	if n > silent {
		silent = n
		if silent > 30 {
			silent = 30
		}
	}
	for i := 0; i < silent; i++ {
		wg.Add(1)
		go func(i int) {
			defer wg.Done()
			garbage := i%3 == 2
			c, err := net.Dial("tcp", addr)
			if err != nil {
				mu.Lock()
				out.Oracle(false, "session-connect", Tup(err.Error()))
				mu.Unlock()
				return
			}
			defer c.Close()
			t0 := time.Now()
			buf := make([]byte, 4096)
			if garbage {
				b := make([]byte, 200+i)
				mu.Lock()
				rng.Read(b)
				mu.Unlock()
				c.Write(b)
			}
			// still open one second before the deadline?
			c.SetReadDeadline(t0.Add(time.Duration(hs-1) * time.Second))
			_, err = c.Read(buf)
			ne, isTimeout := err.(net.Error)
			openBefore := err == nil || (isTimeout && ne.Timeout())
			// closed shortly after it?
			c.SetReadDeadline(t0.Add(time.Duration(hs+5) * time.Second))
			var closedAt time.Duration = -1
			for {
				_, err = c.Read(buf)
				if err != nil {
					if ne, ok := err.(net.Error); !ok || !ne.Timeout() {
						closedAt = time.Since(t0)
					}
					break
				}
			}
			mu.Lock()
			defer mu.Unlock()
			if garbage {
				// an undecodable handshake message is rejected at once
				out.Oracle(closedAt >= 0 && closedAt < time.Duration(hs)*time.Second+time.Second, "garbage-handshake-dropped", Tup(closedAt.String()))
				out.Case("session_run", Tup(Con("PEnc"), Lst(Con("Recv", Con("FGarbage")))), phaseOf(closedAt < 0, "PEnc"), "garbage-handshake")
				return
			}
			out.Oracle(closedAt >= 0, "silent-connection-dropped-by-handshake-timer", Tup(closedAt.String()))
			out.Case("session_run", Tup(Con("PEnc"), ticks(hs-1)), phaseOf(openBefore, "PEnc"), "silent-before-deadline")
			if closedAt >= 0 {
				out.Oracle(closedAt >= time.Duration(hs)*time.Second-200*time.Millisecond, "handshake-timer-not-early", Tup(closedAt.String()))
				out.Case("session_run", Tup(Con("PEnc"), ticks(int64(closedAt/time.Second)+1)), Con("PClosed"), "silent-after-deadline")
			}
		}(i)
	}
	if n >= 40 {
		// a real peer: transport + protocol handshake done, pings answered, the eth status never sent
		keyB, _ := ecdsa.GenerateKey(crypto.S256(), rng)
		hold := time.Duration(p2p.VerifFrameReadTimeout) + 8*time.Second
		started := make(chan struct{}, 1)
		srvB := &p2p.Server{PrivateKey: keyB, MaxPeers: 5, Name: "c15-B", ListenAddr: "127.0.0.1:0", StaticNodes: nil,
			Protocols: []p2p.Protocol{{Name: "eth", Version: 61, Length: 9, Run: func(p *p2p.Peer, rw p2p.MsgReadWriter) error {
				started <- struct{}{}
				done := time.After(hold)
				msgs := make(chan error, 1)
				go func() {
					for {
						m, err := rw.ReadMsg()
						if err != nil {
							msgs <- err
							return
						}
						m.Discard()
					}
				}()
				select {
				case <-done:
					return nil
				case err := <-msgs:
					return err
				}
			}}}}
		if err := srvB.Start(); err == nil {
			srvB.AddPeer(srvA.Self())
			select {
			case <-started:
				time.Sleep(time.Duration(p2p.VerifFrameReadTimeout) + 4*time.Second)
				still := srvA.PeerCount() >= 1
				ev := Lst(Con("Recv", Con("FProgress")), Con("Recv", Con("FProgress")))
				for t := int64(0); t < int64(p2p.VerifFrameReadTimeout/time.Second)+4; t++ {
					ev = append(ev, Con("Tick"))
					if (t+1)%int64(p2p.VerifPingInterval/time.Second) == 0 {
						ev = append(ev, Con("Recv", Con("FBase")))
					}
				}
				mu.Lock()
				out.Count(fmt.Sprintf("session:status-wait-still-open-after-read-timeout=%v", still))
				out.Case("session_run", Tup(Con("PEnc"), ev), phaseOf(still, "PWaitStatus"), "status-never-sent-pings-answered")
				mu.Unlock()
				released := false
				srvB.Stop() // (B redials A as a static node, so stop B as a whole)
				for w := 0; w < 100 && !released; w++ {
					time.Sleep(100 * time.Millisecond)
					released = srvA.PeerCount() == 0
				}
				mu.Lock()
				out.Oracle(released, "peer-slot-released-after-disconnect", Tup(I64(int64(srvA.PeerCount()))))
				mu.Unlock()
			case <-time.After(10 * time.Second):
				mu.Lock()
				out.Count("session:real-peer-did-not-connect")
				mu.Unlock()
				srvB.Stop()
			}
		}
	}
	wg.Wait()
	// the server still accepts and serves: a fresh silent connection is accepted
	c, err := net.Dial("tcp", addr)
	out.Oracle(err == nil, "server-accepts-after-hostile-connections", Tup(fmt.Sprint(err)))
	if err == nil {
		c.Close()
	}
	pm.Stop()
}
