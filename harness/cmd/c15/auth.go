package main

// auth: hostile messages of the RLPx ENCRYPTION handshake and of the protocol handshake that follows it. Everything a
// node reads before it knows who is talking comes from anybody who can open a TCP connection (inbound) or who answers
// on an address the node dials (outbound), and the node's public static key is public knowledge (enode URL): a remote
// side can therefore send a PROPERLY ECIES-ENCRYPTED message whose plaintext fields are hostile. The family:
//   listening side - auth messages (fixed-size format of p2p/rlpx.go, and the EIP-8 RLP format) whose fields are set
//                    BEFORE encryption: static public key {off-curve small / random, all zero, all 0xff, valid X with
//                    wrong Y, negated Y, coordinates >= p, X = 0, a valid key of somebody else}, signature {random, zero,
//                    recovery id flipped / 2,3 / >= 4, r or s zero / >= n, malleated high-s, another key, another message},
//                    nonce {zero, 0xff, equal to the token, changed after signing}, token flag / EIP-8 version extremes,
//                    hash-of-ephemeral-key field, truncated / extended plaintext, trailing bytes / trailing RLP elements,
//                    hostile ECIES envelopes (ephemeral point off-curve / zero / compressed format byte, MAC, other key)
//   dialing side   - auth responses with the same treatment of the ephemeral public key, nonce, flag, length, envelope
//   then           - a protocol handshake (hello) variant over the negotiated secrets (or over wrong ones)
// Victims: (direct) the transport exactly as Server.setupConn drives it - newRLPX, doEncHandshake, doProtoHandshake, the
// identity comparison - on one end of a loopback TCP connection, under recover so that a panic is REPORTED with the
// input; (wire) the real p2p.Server, inbound through its listener and outbound through its dialer (AddPeer), whose
// goroutines have no recover: a panic ends the child process (oracle node-process-survives-session of the parent, with
// the last progress record = the input). An honest peer stays connected to the server and is probed after every session.

import (
	"bytes"
	"crypto/ecdsa"
	"encoding/binary"
	"fmt"
	"hash"
	"io"
	"math/big"
	"math/rand"
	"net"
	"sync"
	"time"

	"github.com/ethereum/go-ethereum/crypto"
	"github.com/ethereum/go-ethereum/crypto/ecies"
	"github.com/ethereum/go-ethereum/crypto/secp256k1"
	"github.com/ethereum/go-ethereum/rlp"
	"golang.org/x/crypto/sha3"

	"github.com/zenon-network/go-zenon/p2p"
	"github.com/zenon-network/go-zenon/p2p/discover"
	. "zharness/hz"
)

const (
	aSig     = p2p.VerifSigLen
	aPub     = p2p.VerifPubLen
	aSha     = p2p.VerifShaLen
	aAuthLen = p2p.VerifAuthMsgLen
	aRespLen = p2p.VerifAuthRespLen
	aEncAuth = p2p.VerifEncAuthMsgLen
	aEncResp = p2p.VerifEncAuthRespLen
	aEcies   = p2p.VerifEciesOverhead

	oracleReject = "hostile-handshake-rejected-without-crash"
	oracleHonest = "honest-handshake-succeeds"
)

var (
	curveP = crypto.S256().Params().P
	curveN = crypto.S256().Params().N
)

func runAuthParent(rng *rand.Rand, n int, out *Out, _ []string) {
	chunk := (n + 1) / 2
	if chunk > 600 {
		chunk = 600
	}
	if chunk < 1 {
		chunk = 1
	}
	runChildren(rng, n, out, "auth-child", chunk, 2, 300*time.Second)
}

// ---------------------------------------------------------------- keys and the primitives of the handshake

// a key derived from the harness prng only (ecdsa.GenerateKey consumes a random amount of its reader)
func detKey(rng *rand.Rand) *ecdsa.PrivateKey {
	for {
		b := make([]byte, 32)
		rng.Read(b)
		if k, err := crypto.ToECDSA(b); err == nil {
			return k
		}
	}
}

func pub64(k *ecdsa.PublicKey) []byte { return crypto.FromECDSAPub(k)[1:] }

func be32(x *big.Int) []byte {
	b := make([]byte, 32)
	x.FillBytes(b)
	return b
}

// the statement "these 64 bytes are a point of secp256k1", independent of the library: 0 <= x, y < p, y^2 = x^3 + 7
func validPoint(b []byte) bool {
	if len(b) != 64 {
		return false
	}
	x, y := new(big.Int).SetBytes(b[:32]), new(big.Int).SetBytes(b[32:])
	if x.Cmp(curveP) >= 0 || y.Cmp(curveP) >= 0 {
		return false
	}
	l := new(big.Int).Mul(y, y)
	l.Mod(l, curveP)
	r := new(big.Int).Mul(x, x)
	r.Mul(r, x)
	r.Add(r, big.NewInt(7))
	r.Mod(r, curveP)
	return l.Cmp(r) == 0
}

func pointOf(b []byte) *ecdsa.PublicKey {
	return &ecdsa.PublicKey{Curve: crypto.S256(), X: new(big.Int).SetBytes(b[:32]), Y: new(big.Int).SetBytes(b[32:])}
}

// x coordinate of prv * pub, 32 bytes (ecies.GenerateShared(sskLen, sskLen) of the code)
func ecdhX(prv *ecdsa.PrivateKey, pub *ecdsa.PublicKey) []byte {
	x, _ := crypto.S256().ScalarMult(pub.X, pub.Y, prv.D.Bytes())
	if x == nil {
		return make([]byte, 32)
	}
	return be32(x)
}

func xorb(a, b []byte) []byte {
	o := make([]byte, len(a))
	for i := range a {
		o[i] = a[i] ^ b[i]
	}
	return o
}

func eciesSeal(rng *rand.Rand, to *ecdsa.PublicKey, plain, s2 []byte) []byte {
	ct, err := ecies.Encrypt(rng, ecies.ImportECDSAPublic(to), plain, nil, s2)
	if err != nil {
		panic(err)
	}
	return ct
}

// ECIES decryption as an oracle of the model, evaluated by the harness
func opens(prv *ecdsa.PrivateKey, ct []byte) (plain []byte, ok bool) {
	guard(func() {
		p, err := p2p.Decrypt(prv, ct)
		plain, ok = p, err == nil
	})
	return
}

type sessionKeys struct {
	aes, mac        []byte
	egress, ingress hash.Hash
}

// the secrets of a session (encHandshake.secrets), computed by the remote side from its own ephemeral key
func deriveKeys(initiator bool, eph *ecdsa.PrivateKey, remoteEph *ecdsa.PublicKey, initNonce, respNonce, auth, resp []byte) sessionKeys {
	ecdhe := ecdhX(eph, remoteEph)
	shared := crypto.Keccak256(ecdhe, crypto.Keccak256(respNonce, initNonce))
	aes := crypto.Keccak256(ecdhe, shared)
	k := sessionKeys{aes: aes, mac: crypto.Keccak256(ecdhe, aes)}
	mac1 := sha3.New256()
	mac1.Write(xorb(k.mac, respNonce))
	mac1.Write(auth)
	mac2 := sha3.New256()
	mac2.Write(xorb(k.mac, initNonce))
	mac2.Write(resp)
	if initiator {
		k.egress, k.ingress = mac1, mac2
	} else {
		k.egress, k.ingress = mac2, mac1
	}
	return k
}

// what a remote side without the secrets can do: guess
func guessKeys(rng *rand.Rand) sessionKeys {
	k := sessionKeys{aes: make([]byte, 32), mac: make([]byte, 32), egress: sha3.New256(), ingress: sha3.New256()}
	rng.Read(k.aes)
	rng.Read(k.mac)
	return k
}

// ---------------------------------------------------------------- hostile fields

// a 64-byte public key field; prv is the private key of the point when the sender has one
type keyField struct {
	class string
	b     []byte
	prv   *ecdsa.PrivateKey
}

func hostileKeyField(rng *rand.Rand, own *ecdsa.PrivateKey, k int) keyField {
	mine := pub64(&own.PublicKey)
	f := keyField{b: make([]byte, 64)}
	switch k {
	case 0:
		f.class = "key-offcurve-small"
		f.b[31], f.b[63] = byte(1+rng.Intn(3)), byte(1+rng.Intn(3))
	case 1:
		f.class = "key-offcurve-random"
		rng.Read(f.b)
	case 2:
		f.class = "key-zero"
	case 3:
		f.class = "key-ff"
		for i := range f.b {
			f.b[i] = 0xff
		}
	case 4:
		f.class = "key-x-valid-y-wrong"
		copy(f.b, mine)
		switch rng.Intn(4) {
		case 0:
			f.b[63] ^= 1 << uint(rng.Intn(8))
		case 1:
			rng.Read(f.b[32:])
		case 2:
			copy(f.b[32:], make([]byte, 32))
		default:
			copy(f.b[32:], mine[:32])
		}
	case 5: // -P: a point again, with private key n - d
		f.class = "key-negated"
		copy(f.b, mine)
		copy(f.b[32:], be32(new(big.Int).Sub(curveP, own.PublicKey.Y)))
		d := new(big.Int).Sub(curveN, own.D)
		f.prv, _ = crypto.ToECDSA(be32(d))
	case 6: // encodings that are no field elements
		f.class = "key-coordinates-not-reduced"
		switch rng.Intn(3) {
		case 0:
			copy(f.b, be32(curveP))
			copy(f.b[32:], be32(curveP))
		case 1:
			copy(f.b, be32(new(big.Int).Add(curveP, big.NewInt(int64(1+rng.Intn(900))))))
			rng.Read(f.b[32:])
		default:
			copy(f.b, mine[:32])
			copy(f.b[32:], be32(curveP))
		}
	case 7:
		f.class = "key-x-zero"
		if rng.Intn(2) == 0 {
			rng.Read(f.b[32:])
		} else {
			f.b[63] = 1
		}
	case 8: // a point whose private key the sender does not have
		f.class = "key-of-somebody-else"
		if rng.Intn(3) == 0 {
			copy(f.b, be32(crypto.S256().Params().Gx))
			copy(f.b[32:], be32(crypto.S256().Params().Gy))
		} else {
			copy(f.b, pub64(&detKey(rng).PublicKey))
		}
	case 9:
		f.class = "key-halves-swapped"
		copy(f.b, mine[32:])
		copy(f.b[32:], mine[:32])
	default:
		f.class = "key-own"
		copy(f.b, mine)
		f.prv = own
	}
	return f
}

const nKeyClasses = 10

// a 65-byte recoverable signature field over msg by eph
func hostileSig(rng *rand.Rand, msg []byte, eph *ecdsa.PrivateKey, k int) (string, []byte) {
	good, err := crypto.Sign(msg, eph)
	if err != nil {
		panic(err)
	}
	s := append([]byte{}, good...)
	switch k {
	case 0:
		rng.Read(s)
		s[64] = byte(rng.Intn(4))
		return "sig-random", s
	case 1:
		rng.Read(s)
		return "sig-random-recid-any", s
	case 2:
		return "sig-zero", make([]byte, 65)
	case 3:
		s[64] ^= 1
		return "sig-recid-flipped", s
	case 4:
		s[64] = byte(2 + rng.Intn(2))
		return "sig-recid-2-3", s
	case 5:
		s[64] = []byte{4, 5, 27, 28, 0x80, 0xff}[rng.Intn(6)]
		return "sig-recid-out-of-range", s
	case 6:
		if rng.Intn(2) == 0 {
			copy(s[:32], make([]byte, 32))
		} else {
			copy(s[32:64], make([]byte, 32))
		}
		return "sig-r-or-s-zero", s
	case 7:
		v := [][]byte{be32(curveN), be32(new(big.Int).Add(curveN, big.NewInt(1))), bytes.Repeat([]byte{0xff}, 32)}[rng.Intn(3)]
		if rng.Intn(2) == 0 {
			copy(s[:32], v)
		} else {
			copy(s[32:64], v)
		}
		return "sig-r-or-s-not-below-n", s
	case 8: // (r, n-s, v^1) recovers the same key
		copy(s[32:64], be32(new(big.Int).Sub(curveN, new(big.Int).SetBytes(s[32:64]))))
		s[64] ^= 1
		return "sig-malleated-high-s", s
	case 9:
		o, _ := crypto.Sign(msg, detKey(rng))
		return "sig-of-another-key", o
	case 10:
		m := make([]byte, 32)
		rng.Read(m)
		o, _ := crypto.Sign(m, eph)
		return "sig-over-another-message", o
	}
	return "sig-own", s
}

const nSigClasses = 11

// ---------------------------------------------------------------- the remote initiator (against a listening node)

type authCase struct {
	class  string
	plain  []byte // the message before encryption (nil: there is none)
	wire   []byte
	closeW bool // the remote side closes its sending direction after `wire` (messages shorter than the node reads)
	kf     keyField
	eph    *ecdsa.PrivateKey
	nonce  []byte // the initiator nonce the remote side continues with
	extra  int    // bytes sent after a complete auth message
}

// fixed-size auth plaintext: signature || sha3(ephemeral pubkey) || static pubkey || nonce || token flag
func authPlain(sig, ephHash, key, nonce []byte, flag byte) []byte {
	m := make([]byte, 0, aAuthLen)
	m = append(m, sig...)
	m = append(m, ephHash...)
	m = append(m, key...)
	m = append(m, nonce...)
	return append(m, flag)
}

// EIP-8 auth packet: size || ecies(rlp([sig, pubkey, nonce, version, ...]) || padding), the size is MAC'ed
func eip8Packet(rng *rand.Rand, to *ecdsa.PublicKey, fields []interface{}, trailing []byte, pad int, prefix func(int) uint16) []byte {
	body, err := rlp.EncodeToBytes(fields)
	if err != nil {
		panic(err)
	}
	body = append(body, trailing...)
	p := make([]byte, pad)
	rng.Read(p)
	body = append(body, p...)
	size := len(body) + aEcies
	pre := make([]byte, 2)
	if prefix != nil {
		binary.BigEndian.PutUint16(pre, prefix(size))
	} else {
		binary.BigEndian.PutUint16(pre, uint16(size))
	}
	return append(pre, eciesSeal(rng, to, body, pre)...)
}

func hostileAuth(rng *rand.Rand, srvPub *ecdsa.PublicKey) *authCase {
	own := detKey(rng)
	c := &authCase{eph: detKey(rng), nonce: make([]byte, aSha)}
	rng.Read(c.nonce)
	c.kf = hostileKeyField(rng, own, -1)
	sigK, flag := -1, byte(0)
	ephHash := crypto.Keccak256(pub64(&c.eph.PublicKey))
	nonceAfter := []byte(nil)
	group := rng.Intn(100)
	switch {
	case group < 8:
		c.class = "honest"
	case group < 36:
		c.kf = hostileKeyField(rng, own, rng.Intn(nKeyClasses))
		c.class = c.kf.class
	case group < 54:
		sigK = rng.Intn(nSigClasses)
	case group < 62:
		switch rng.Intn(4) {
		case 0:
			c.class, c.nonce = "nonce-zero", make([]byte, aSha)
		case 1:
			c.class, c.nonce = "nonce-ff", bytes.Repeat([]byte{0xff}, aSha)
		case 2: // the signed message is all zero
			c.class, c.nonce = "nonce-equals-token", ecdhX(own, srvPub)
		default:
			c.class = "nonce-changed-after-signing"
			nonceAfter = append([]byte{}, c.nonce...)
			nonceAfter[rng.Intn(aSha)] ^= 1 << uint(rng.Intn(8))
		}
	case group < 66:
		flag = []byte{1, 2, 0x7f, 0x80, 0xff}[rng.Intn(5)]
		c.class = "token-flag"
	case group < 70:
		c.class = "ephemeral-hash-field"
		ephHash = make([]byte, aSha)
		if rng.Intn(2) == 0 {
			rng.Read(ephHash)
		}
	}
	// the token: static-key agreement with the node, from the private key the sender has
	tokKey := own
	if c.kf.prv != nil {
		tokKey = c.kf.prv
	}
	signed := xorb(ecdhX(tokKey, srvPub), c.nonce)
	sigClass, sig := hostileSig(rng, signed, c.eph, sigK)
	if sigK >= 0 {
		c.class = sigClass
	}
	msgNonce := c.nonce
	if nonceAfter != nil {
		msgNonce = nonceAfter
	}
	c.plain = authPlain(sig, ephHash, c.kf.b, msgNonce, flag)
	if c.class != "" {
		c.wire = eciesSeal(rng, srvPub, c.plain, nil)
		return c
	}
	// ---- length, envelope, format
	switch k := rng.Intn(15); k {
	case 0: // properly encrypted, shorter plaintext
		c.class = "plain-truncated"
		c.plain = c.plain[:[]int{1, 64, 65, 97, 160, 161, 192, 193}[rng.Intn(8)]]
		c.wire = eciesSeal(rng, srvPub, c.plain, nil)
		if rng.Intn(2) == 0 {
			c.closeW = true
		} else {
			c.class = "plain-truncated-padded"
			pad := make([]byte, aEncAuth-len(c.wire))
			rng.Read(pad)
			c.wire = append(c.wire, pad...)
		}
	case 1: // properly encrypted, longer plaintext
		c.class = "plain-extended"
		ext := make([]byte, []int{1, 2, 16, 113, 194, 1000, 70000}[rng.Intn(7)])
		rng.Read(ext)
		c.plain = append(c.plain, ext...)
		c.wire = eciesSeal(rng, srvPub, c.plain, nil)
	case 2: // a complete valid message followed by more bytes
		c.class = "auth-then-trailing-bytes"
		c.wire = eciesSeal(rng, srvPub, c.plain, nil)
		tr := make([]byte, []int{1, 16, 32, 33, 500}[rng.Intn(5)])
		rng.Read(tr)
		c.wire = append(c.wire, tr...)
		c.extra = len(tr)
	case 3:
		c.class = "envelope-point-off-curve"
		c.wire = eciesSeal(rng, srvPub, c.plain, nil)
		kf := hostileKeyField(rng, own, rng.Intn(5))
		copy(c.wire[1:65], kf.b)
	case 4:
		c.class = "envelope-format-byte"
		c.wire = eciesSeal(rng, srvPub, c.plain, nil)
		c.wire[0] = []byte{0, 1, 2, 3, 5, 6, 7, 0xff}[rng.Intn(8)]
	case 5:
		c.class = "envelope-bit-flip"
		c.wire = eciesSeal(rng, srvPub, c.plain, nil)
		c.wire[65+rng.Intn(len(c.wire)-65)] ^= 1 << uint(rng.Intn(8))
	case 6:
		c.class = "encrypted-to-another-key"
		c.wire = eciesSeal(rng, &detKey(rng).PublicKey, c.plain, nil)
	case 7:
		c.class = "random-bytes"
		c.wire = make([]byte, aEncAuth)
		rng.Read(c.wire)
		if rng.Intn(2) == 0 {
			c.wire[0] = 4
		}
	case 8:
		c.class = "cut-short"
		c.wire = eciesSeal(rng, srvPub, c.plain, nil)[:[]int{0, 1, 65, 97, 98, 306}[rng.Intn(6)]]
		c.closeW = true
	default: // EIP-8 format
		version := []interface{}{uint64(4), uint64(0), uint64(5), uint64(1 << 32), ^uint64(0), new(big.Int).Lsh(big.NewInt(1), 80), []byte{0, 4}, []interface{}{}}
		fields := []interface{}{sig, c.kf.b, c.nonce, uint64(4)}
		var trailing []byte
		var prefix func(int) uint16
		pad := 100 + rng.Intn(200)
		c.class = "eip8"
		switch k {
		case 9:
		case 10:
			c.class = "eip8-version"
			fields[3] = version[rng.Intn(len(version))]
		case 11:
			c.class = "eip8-additional-elements"
			for i := 0; i < 1+rng.Intn(5); i++ {
				fields = append(fields, hostilePayload(rng, discover.NodeID{}).b)
			}
		case 12:
			c.class = "eip8-trailing-rlp"
			trailing = hostilePayload(rng, discover.NodeID{}).b
			if len(trailing) > 4096 {
				trailing = trailing[:4096]
			}
		case 13:
			c.class = "eip8-size-prefix"
			prefix = func(n int) uint16 {
				return []uint16{0, 1, uint16(n - 1), uint16(n + 1), uint16(aEncAuth - 2), 0x0400 | uint16(n&0xff), 0xffff}[rng.Intn(7)]
			}
		default:
			c.class = "eip8-hostile-key"
			kf := hostileKeyField(rng, own, rng.Intn(nKeyClasses))
			fields[1] = kf.b
			if rng.Intn(3) == 0 {
				fields[1] = kf.b[:rng.Intn(64)]
			}
			if rng.Intn(3) == 0 {
				fields[0] = sig[:rng.Intn(65)]
			}
		}
		c.plain = nil
		c.wire = eip8Packet(rng, srvPub, fields, trailing, pad, prefix)
		if len(c.wire) < aEncAuth {
			c.closeW = true
		}
	}
	if len(c.wire) < aEncAuth {
		c.closeW = true
	}
	return c
}

// what the model needs to know about an auth message on the wire (the crypto is an oracle of the model)
type authFacts struct {
	got                           int
	decOK, keyValid, sigOK, knows bool
}

func (c *authCase) facts(srv *ecdsa.PrivateKey) authFacts {
	f := authFacts{got: len(c.wire)}
	if f.got > aEncAuth {
		f.got = aEncAuth
	}
	if f.got < aEncAuth {
		return f
	}
	plain, ok := opens(srv, c.wire[:aEncAuth])
	if !ok || len(plain) != aAuthLen {
		return f
	}
	f.decOK = true
	key := plain[aSig+aSha : aSig+aSha+aPub]
	nonce := plain[aSig+aSha+aPub : aSig+aSha+aPub+aSha]
	f.keyValid = validPoint(key)
	if !f.keyValid {
		return f
	}
	rec, err := secp256k1.RecoverPubkey(xorb(ecdhX(srv, pointOf(key)), nonce), plain[:aSig])
	f.sigOK = err == nil
	// the remote side knows the session secrets: it can open the response and holds the ephemeral key the node recovered,
	// under the nonce the node read
	f.knows = f.sigOK && c.kf.prv != nil && bytes.Equal(rec[1:], pub64(&c.eph.PublicKey)) && bytes.Equal(nonce, c.nonce)
	return f
}

// a hello (first frame) of the remote side
type helloCase struct {
	class   string
	code    uint64
	b       []byte
	idMatch bool
}

func hostileHello(rng *rand.Rand, id discover.NodeID, onlyID bool) helloCase {
	h := helloCase{class: "hello-valid", code: hsCode, idMatch: true}
	good := &p2p.VerifProtoHandshake{Version: p2p.VerifBaseProtocolVersion, Name: "c15-auth", Caps: []p2p.Cap{{Name: "eth", Version: 61}}, ID: id}
	k := rng.Intn(20)
	if onlyID && k >= 3 {
		k = 19
	}
	switch {
	case k == 0:
		other := *good
		rng.Read(other.ID[:])
		h.class, h.b, h.idMatch = "hello-foreign-id", enc(&other), false
	case k == 1:
		other := *good
		other.ID = discover.NodeID{}
		h.class, h.b, h.idMatch = "hello-zero-id", enc(&other), false
	case k == 2:
		other := *good
		other.ID[rng.Intn(64)] ^= 1 << uint(rng.Intn(8))
		h.class, h.b, h.idMatch = "hello-id-one-bit", enc(&other), false
	case k < 7:
		v := hostileHandshake(rng, id)
		h.class, h.b, h.idMatch = "hello-"+v.class, v.b, v.idMatch
	case k == 7:
		h.class, h.b = "hello-wrong-code", enc(good)
		h.code = []uint64{pingCode, pongCode, 4, 15, baseLen, baseLen + 1, 1 << 32, ^uint64(0)}[rng.Intn(8)]
	case k == 8:
		x := hostilePayload(rng, id)
		h.class, h.code, h.b = "hello-is-disconnect", discCode, x.b
	case k == 9:
		other := *good
		other.Name = string(make([]byte, []int{1900, 1960, 2048, 4096, 70000}[rng.Intn(5)]))
		h.class, h.b = "hello-size", enc(&other)
	case k == 10:
		other := *good
		other.Caps = nil
		h.class, h.b = "hello-no-caps", enc(&other)
	}
	if h.b == nil {
		h.b = enc(good)
	}
	return h
}

// accepted by readProtocolHandshake + the identity comparison of setupConn (rlp decoding is an oracle of the model)
type helloFacts struct {
	size, code, version  uint64
	dec, idZero, idMatch bool
}

func (h helloCase) facts() helloFacts {
	f := helloFacts{size: uint64(len(h.b)), code: h.code, idMatch: h.idMatch}
	if h.code == hsCode {
		f.dec, f.version, f.idZero = decodeHandshake(h.b, uint32(len(h.b)), true)
	}
	return f
}
func (f helloFacts) ok() bool {
	return f.size <= p2p.VerifBaseProtocolMaxMsgSize && f.code == hsCode && f.dec && f.version == p2p.VerifBaseProtocolVersion && !f.idZero && f.idMatch
}

type countConn struct {
	net.Conn
	mu sync.Mutex
	n  int
}

func (c *countConn) Read(p []byte) (int, error) {
	n, err := c.Conn.Read(p)
	c.mu.Lock()
	c.n += n
	c.mu.Unlock()
	return n, err
}
func (c *countConn) got() int { c.mu.Lock(); defer c.mu.Unlock(); return c.n }

func writeMsg(rw p2p.MsgReadWriter, code uint64, b []byte) error {
	return rw.WriteMsg(p2p.Msg{Code: code, Size: uint32(len(b)), Payload: bytes.NewReader(b)})
}

// after the hello: is the remote side a peer? (a ping is answered; pings of the node are answered on the way)
func isServed(rw p2p.MsgReadWriter) bool {
	if writeMsg(rw, pingCode, []byte{0xC0}) != nil {
		return false
	}
	for i := 0; i < 64; i++ {
		m, err := rw.ReadMsg()
		if err != nil {
			return false
		}
		m.Discard()
		switch m.Code {
		case pongCode:
			return true
		case pingCode:
			writeMsg(rw, pongCode, []byte{0xC0})
		case discCode:
			return false
		}
	}
	return false
}

type initiatorSaw struct {
	answered  bool // a complete auth response arrived
	respBytes int
	hello     bool // the node's protocol handshake arrived and verified under the session secrets
	served    bool // (wire) a ping was answered afterwards
	rw        p2p.MsgReadWriter
}

// play the initiator on fd: send the auth message, read the response, continue with the hello
func playInitiator(rng *rand.Rand, fd net.Conn, c *authCase, h helloCase, probe bool) initiatorSaw {
	var saw initiatorSaw
	fd.SetDeadline(time.Now().Add(30 * time.Second))
	wdone := make(chan struct{})
	go func() {
		defer close(wdone)
		fd.Write(c.wire)
		if c.closeW {
			if t, ok := fd.(*net.TCPConn); ok {
				t.CloseWrite()
			}
		}
	}()
	resp := make([]byte, aEncResp)
	saw.respBytes, _ = io.ReadFull(fd, resp)
	saw.answered = saw.respBytes == aEncResp
	if !saw.answered {
		<-wdone
		return saw
	}
	keys := guessKeys(rng)
	if c.kf.prv != nil {
		if rp, ok := opens(c.kf.prv, resp); ok && len(rp) == aRespLen && validPoint(rp[:aPub]) {
			keys = deriveKeys(true, c.eph, pointOf(rp[:aPub]), c.nonce, rp[aPub:aPub+aSha], c.wire[:aEncAuth], resp)
		}
	}
	<-wdone
	rw := p2p.VerifNewFrameRW(fd, keys.aes, keys.mac, keys.egress, keys.ingress)
	if writeMsg(rw, h.code, h.b) != nil {
		return saw
	}
	m, err := rw.ReadMsg()
	if err != nil {
		return saw
	}
	m.Discard()
	saw.hello = m.Code == hsCode
	if probe && saw.hello {
		saw.served = isServed(rw)
		saw.rw = rw
	}
	return saw
}

// ---------------------------------------------------------------- the remote responder (against a dialing node)

type respCase struct {
	class  string
	plain  []byte
	wire   []byte
	closeW bool
	ef     keyField // the ephemeral key field
	nonce  []byte
	extra  int
}

func hostileResp(rng *rand.Rand, dialerPub *ecdsa.PublicKey) *respCase {
	eph := detKey(rng)
	c := &respCase{nonce: make([]byte, aSha), ef: hostileKeyField(rng, eph, -1)}
	rng.Read(c.nonce)
	flag := byte(0)
	group := rng.Intn(100)
	switch {
	case group < 10:
		c.class = "honest"
	case group < 60:
		c.ef = hostileKeyField(rng, eph, rng.Intn(nKeyClasses))
		c.class = "resp-" + c.ef.class
	case group < 68:
		c.class = "resp-nonce"
		switch rng.Intn(3) {
		case 0:
			c.nonce = make([]byte, aSha)
		case 1:
			c.nonce = bytes.Repeat([]byte{0xff}, aSha)
		}
	case group < 74:
		c.class = "resp-token-flag"
		flag = []byte{1, 2, 0x7f, 0x80, 0xff}[rng.Intn(5)]
	}
	c.plain = append(append(append([]byte{}, c.ef.b...), c.nonce...), flag)
	if c.class != "" {
		c.wire = eciesSeal(rng, dialerPub, c.plain, nil)
		return c
	}
	switch rng.Intn(10) {
	case 0:
		c.class = "resp-plain-truncated"
		c.plain = c.plain[:[]int{1, 32, 63, 64, 65, 95, 96}[rng.Intn(7)]]
		c.wire = eciesSeal(rng, dialerPub, c.plain, nil)
		if rng.Intn(2) == 0 {
			c.closeW = true
		} else {
			c.class = "resp-plain-truncated-padded"
			pad := make([]byte, aEncResp-len(c.wire))
			rng.Read(pad)
			c.wire = append(c.wire, pad...)
		}
	case 1:
		c.class = "resp-plain-extended"
		ext := make([]byte, []int{1, 2, 16, 97, 1000, 70000}[rng.Intn(6)])
		rng.Read(ext)
		c.plain = append(c.plain, ext...)
		c.wire = eciesSeal(rng, dialerPub, c.plain, nil)
	case 2:
		c.class = "resp-then-trailing-bytes"
		c.wire = eciesSeal(rng, dialerPub, c.plain, nil)
		tr := make([]byte, []int{1, 16, 32, 33, 500}[rng.Intn(5)])
		rng.Read(tr)
		c.wire = append(c.wire, tr...)
		c.extra = len(tr)
	case 3:
		c.class = "resp-envelope-point-off-curve"
		c.wire = eciesSeal(rng, dialerPub, c.plain, nil)
		copy(c.wire[1:65], hostileKeyField(rng, eph, rng.Intn(5)).b)
	case 4:
		c.class = "resp-envelope-format-byte"
		c.wire = eciesSeal(rng, dialerPub, c.plain, nil)
		c.wire[0] = []byte{0, 1, 2, 3, 5, 6, 7, 0xff}[rng.Intn(8)]
	case 5:
		c.class = "resp-envelope-bit-flip"
		c.wire = eciesSeal(rng, dialerPub, c.plain, nil)
		c.wire[65+rng.Intn(len(c.wire)-65)] ^= 1 << uint(rng.Intn(8))
	case 6:
		c.class = "resp-encrypted-to-another-key"
		c.wire = eciesSeal(rng, &detKey(rng).PublicKey, c.plain, nil)
	case 7:
		c.class = "resp-random-bytes"
		c.wire = make([]byte, aEncResp)
		rng.Read(c.wire)
		if rng.Intn(2) == 0 {
			c.wire[0] = 4
		}
	case 8:
		c.class = "resp-cut-short"
		c.wire = eciesSeal(rng, dialerPub, c.plain, nil)[:[]int{0, 1, 65, 97, 98, 209}[rng.Intn(6)]]
		c.closeW = true
	default: // EIP-8 response: size || ecies(rlp([ephemeral pubkey, nonce, version, ...]) || padding)
		c.class = "resp-eip8"
		kf := hostileKeyField(rng, eph, rng.Intn(nKeyClasses+3))
		version := []interface{}{uint64(4), uint64(0), ^uint64(0), new(big.Int).Lsh(big.NewInt(1), 80)}[rng.Intn(4)]
		fields := []interface{}{kf.b, c.nonce, version}
		if rng.Intn(3) == 0 {
			fields = append(fields, hostilePayload(rng, discover.NodeID{}).b)
		}
		c.plain = nil
		c.wire = eip8Packet(rng, dialerPub, fields, nil, 100+rng.Intn(200), nil)
	}
	if len(c.wire) < aEncResp {
		c.closeW = true
	}
	return c
}

type respFacts struct {
	got                    int
	decOK, ephValid, knows bool
}

func (c *respCase) facts(dialer *ecdsa.PrivateKey) respFacts {
	f := respFacts{got: len(c.wire)}
	if f.got > aEncResp {
		f.got = aEncResp
	}
	if f.got < aEncResp {
		return f
	}
	plain, ok := opens(dialer, c.wire[:aEncResp])
	if !ok || len(plain) != aRespLen {
		return f
	}
	f.decOK = true
	f.ephValid = validPoint(plain[:aPub])
	f.knows = f.ephValid && c.ef.prv != nil && bytes.Equal(plain[:aPub], c.ef.b) && bytes.Equal(plain[aPub:aPub+aSha], c.nonce)
	return f
}

type responderSaw struct {
	authOK    bool // the dialer's auth message arrived and opened under the responder's key
	proceeded bool // the dialer sent something after the response (its protocol handshake)
	hello     bool
	served    bool
	notForUs  bool
}

// play the responder on fd: read the dialer's auth message, answer with the response, continue with the hello
func playResponder(rng *rand.Rand, fd net.Conn, key *ecdsa.PrivateKey, c *respCase, mkHello func() helloCase, probe bool) responderSaw {
	var saw responderSaw
	fd.SetDeadline(time.Now().Add(30 * time.Second))
	auth := make([]byte, aEncAuth)
	if _, err := io.ReadFull(fd, auth); err != nil {
		saw.notForUs = true // a connection of an earlier dial that has timed out meanwhile
		return saw
	}
	plain, ok := opens(key, auth)
	if !ok || len(plain) != aAuthLen {
		saw.notForUs = true
		return saw
	}
	initKey := plain[aSig+aSha : aSig+aSha+aPub]
	initNonce := plain[aSig+aSha+aPub : aSig+aSha+aPub+aSha]
	if !validPoint(initKey) {
		return saw
	}
	rec, err := secp256k1.RecoverPubkey(xorb(ecdhX(key, pointOf(initKey)), initNonce), plain[:aSig])
	if err != nil {
		return saw
	}
	saw.authOK = true
	cc := &countConn{Conn: fd}
	wdone := make(chan struct{})
	go func() {
		defer close(wdone)
		fd.Write(c.wire)
		if c.closeW {
			if t, ok := fd.(*net.TCPConn); ok {
				t.CloseWrite()
			}
		}
	}()
	keys := guessKeys(rng)
	if c.ef.prv != nil && len(c.wire) >= aEncResp {
		keys = deriveKeys(false, c.ef.prv, pointOf(rec[1:]), initNonce, c.nonce, auth, c.wire[:aEncResp])
	}
	<-wdone
	rw := p2p.VerifNewFrameRW(cc, keys.aes, keys.mac, keys.egress, keys.ingress)
	h := mkHello()
	werr := make(chan error, 1)
	go func() { werr <- writeMsg(rw, h.code, h.b) }()
	m, rerr := rw.ReadMsg()
	saw.proceeded = cc.got() > 0
	<-werr
	if rerr != nil {
		return saw
	}
	m.Discard()
	saw.hello = m.Code == hsCode
	if probe && saw.hello {
		saw.served = isServed(rw)
	}
	return saw
}

// ---------------------------------------------------------------- victims

type victimRes struct {
	pn       interface{}
	encErr   error
	protoErr error
	idMatch  bool
	took     time.Duration
}

// what Server.setupConn does with an accepted (dial == nil) or dialed connection, without the server's peer-set
// checkpoints: newTransport, doEncHandshake, (identity of the dialed node), doProtoHandshake, identity of the hello
func setupConnDirect(fd net.Conn, key *ecdsa.PrivateKey, dial *discover.Node, our *p2p.VerifProtoHandshake) (r victimRes) {
	t0 := time.Now()
	r.pn = guard(func() {
		t := p2p.VerifNewRLPX(fd)
		id, err := t.DoEncHandshake(key, dial)
		r.encErr = err
		if err != nil {
			t.Close(err)
			return
		}
		if dial != nil && id != dial.ID {
			r.encErr = p2p.DiscUnexpectedIdentity
			t.Close(r.encErr)
			return
		}
		phs, err := t.DoProtoHandshake(our)
		r.protoErr = err
		if err != nil {
			t.Close(err)
			return
		}
		r.idMatch = phs.ID == id
		if !r.idMatch {
			t.Close(p2p.DiscUnexpectedIdentity)
			return
		}
		t.Close(p2p.DiscQuitting)
	})
	if r.pn != nil {
		fd.Close()
	}
	r.took = time.Since(t0)
	return r
}

func (r victimRes) peer() bool {
	return r.pn == nil && r.encErr == nil && r.protoErr == nil && r.idMatch
}

type authWorld struct {
	rng     *rand.Rand
	out     *Out
	ln      net.Listener // the harness's listener: victims of the direct level are accepted here, the server dials it
	nodeKey *ecdsa.PrivateKey
	our     *p2p.VerifProtoHandshake
	// wire
	srv      *p2p.Server
	honestRW p2p.MsgReadWriter
	honestFd net.Conn
}

func (w *authWorld) pair() (remote, victim net.Conn, err error) {
	type acc struct {
		c   net.Conn
		err error
	}
	ch := make(chan acc, 1)
	go func() { c, err := w.ln.Accept(); ch <- acc{c, err} }()
	remote, err = net.DialTimeout("tcp", w.ln.Addr().String(), 20*time.Second)
	if err != nil {
		return nil, nil, err
	}
	a := <-ch
	if a.err != nil {
		remote.Close()
		return nil, nil, a.err
	}
	return remote, a.c, nil
}

// the model reads the payload of the first frame only when it is a disconnect message
func modelPayload(code uint64, b []byte) []byte {
	if code == discCode {
		return b
	}
	return nil
}

// coarse: the level at which only peer / not a peer is observed (by the remote side)
func listenTerm(coarse bool, f authFacts, extra int, h helloFacts, payload []byte) M {
	return Tup(coarse, I64(int64(f.got)), f.decOK, f.keyValid, f.sigOK, f.knows && extra == 0,
		U64(h.size), U64(h.code), Byt(modelPayload(h.code, payload)), h.dec, U64(h.version), h.idZero, h.idMatch)
}
func dialTerm(coarse bool, f respFacts, extra int, h helloFacts, payload []byte) M {
	return Tup(coarse, I64(int64(f.got)), f.decOK, f.ephValid, f.knows && extra == 0,
		U64(h.size), U64(h.code), Byt(modelPayload(h.code, payload)), h.dec, U64(h.version), h.idZero, h.idMatch)
}

func clipN(b []byte, n int) []byte {
	if len(b) > n {
		return b[:n]
	}
	return b
}

// a hostile (or honest) initiator against the listening side
func (w *authWorld) listenCase(wire bool) {
	rng, out := w.rng, w.out
	c := hostileAuth(rng, &w.nodeKey.PublicKey)
	var claimed discover.NodeID
	copy(claimed[:], c.kf.b)
	h := hostileHello(rng, claimed, wire)
	f, hf := c.facts(w.nodeKey), h.facts()
	level := "direct"
	if wire {
		level = "wire"
	}
	input := Tup("listening-side", level, c.class, "auth-plaintext", Byt(c.plain), "on-the-wire", Byt(clipN(c.wire, 400)), I64(int64(len(c.wire))), h.class, U64(h.code), Byt(clip(h.b)))
	progress(out, input)
	mustReject := !(f.decOK && f.keyValid && f.sigOK && f.knows && c.extra == 0 && hf.ok())
	var res int64
	var took time.Duration
	if !wire {
		remote, victim, err := w.pair()
		if err != nil {
			out.Count("auth:no-socket")
			return
		}
		vr := make(chan victimRes, 1)
		go func() { vr <- setupConnDirect(victim, w.nodeKey, nil, w.our) }()
		saw := playInitiator(rng, remote, c, h, false)
		r := <-vr
		remote.Close()
		took = r.took
		switch {
		case r.pn != nil:
			res = 9
			out.Oracle(false, oracleReject, Tup("the handshake goroutine of an accepted connection panics", fmt.Sprint(r.pn), input))
		case r.peer():
			res = 0
		case r.encErr == nil: // the response has been written
			res = 2
		default:
			res = 1
		}
		if r.pn == nil {
			out.Oracle(!(r.peer() && mustReject), oracleReject, Tup("accepted as an authenticated peer", input))
			// a response is seen by the remote side only if the node's encryption handshake went through
			out.Oracle(!saw.answered || r.encErr == nil, "handshake-stage-visible", Tup(saw.answered, fmt.Sprint(r.encErr), input))
		}
	} else {
		t0 := time.Now()
		remote, err := net.DialTimeout("tcp", w.srv.ListenAddr, 20*time.Second)
		if err != nil {
			out.Oracle(false, "server-accepts-connections", Tup(err.Error()))
			return
		}
		saw := playInitiator(rng, remote, c, h, true)
		took = time.Since(t0)
		switch {
		case saw.served:
			res = 0
			writeMsg(saw.rw, discCode, enc([]uint64{uint64(p2p.DiscQuitting)}))
		default:
			res = 1
		}
		remote.Close()
		out.Oracle(!(saw.served && mustReject), oracleReject, Tup("accepted as an authenticated peer", input))
		w.probeHonest(input)
	}
	// a handshake has handshakeTimeout in all: a slower one (machine load) says nothing
	if took > time.Duration(p2p.VerifHandshakeTimeout)*3/5 {
		out.Count("auth:slow-not-counted")
		return
	}
	if !mustReject {
		out.Oracle(res == 0, oracleHonest, Tup("refused", I64(res), input))
	}
	if len(modelPayload(h.code, h.b)) <= maxModelPayload {
		out.Case("auth_listen", listenTerm(wire, f, c.extra, hf, h.b), I64(res), level+":"+c.class+":"+h.class)
	}
}

// a hostile (or honest) responder against the dialing side
func (w *authWorld) dialCase(wire bool) {
	rng, out := w.rng, w.out
	respKey := detKey(rng)
	respID := discover.PubkeyID(&respKey.PublicKey)
	c := hostileResp(rng, &w.nodeKey.PublicKey)
	h := hostileHello(rng, respID, wire)
	f, hf := c.facts(w.nodeKey), h.facts()
	level := "direct"
	if wire {
		level = "wire"
	}
	input := Tup("dialing-side", level, c.class, "response-plaintext", Byt(c.plain), "on-the-wire", Byt(clipN(c.wire, 400)), I64(int64(len(c.wire))), h.class, U64(h.code), Byt(clip(h.b)))
	progress(out, input)
	mustReject := !(f.decOK && f.ephValid && f.knows && c.extra == 0 && hf.ok())
	addr := w.ln.Addr().(*net.TCPAddr)
	node := &discover.Node{ID: respID, IP: addr.IP, UDP: uint16(addr.Port), TCP: uint16(addr.Port)}
	var res int64
	var took time.Duration
	if !wire {
		vr := make(chan victimRes, 1)
		accepted := make(chan net.Conn, 1)
		go func() { fd, _ := w.ln.Accept(); accepted <- fd }()
		go func() {
			fd, err := net.DialTimeout("tcp", addr.String(), 20*time.Second)
			if err != nil {
				vr <- victimRes{encErr: err}
				return
			}
			vr <- setupConnDirect(fd, w.nodeKey, node, w.our)
		}()
		remote := <-accepted
		if remote == nil {
			<-vr
			out.Count("auth:no-socket")
			return
		}
		saw := playResponder(rng, remote, respKey, c, func() helloCase { return h }, false)
		r := <-vr
		remote.Close()
		took = r.took
		if !saw.authOK {
			out.Oracle(r.pn == nil, oracleReject, Tup("the dialing goroutine panics", fmt.Sprint(r.pn), input))
			out.Oracle(false, oracleHonest, Tup("the auth message of the dialing node does not open", input))
			return
		}
		switch {
		case r.pn != nil:
			res = 9
			out.Oracle(false, oracleReject, Tup("the goroutine of a dialed connection panics", fmt.Sprint(r.pn), input))
		case r.peer():
			res = 0
		case r.encErr == nil:
			res = 2
		default:
			res = 1
		}
		if r.pn == nil {
			out.Oracle(!(r.peer() && mustReject), oracleReject, Tup("accepted as an authenticated peer", input))
			// what the remote side sees agrees with the stage the node reports
			out.Oracle(!saw.proceeded || r.encErr == nil, "handshake-stage-visible", Tup(saw.proceeded, fmt.Sprint(r.encErr), input))
		}
	} else {
		t0 := time.Now()
		w.srv.AddPeer(node)
		var saw responderSaw
		for {
			w.ln.(*net.TCPListener).SetDeadline(time.Now().Add(20 * time.Second))
			remote, err := w.ln.Accept()
			if err != nil {
				out.Oracle(false, "server-dials-static-node", Tup(err.Error(), input))
				return
			}
			saw = playResponder(rng, remote, respKey, c, func() helloCase { return h }, true)
			remote.Close()
			if !saw.notForUs { // a repeated dial of an earlier node
				break
			}
		}
		took = time.Since(t0)
		if !saw.authOK {
			out.Oracle(false, oracleHonest, Tup("the auth message of the dialing node does not open", input))
			return
		}
		switch {
		case saw.served:
			res = 0
		default:
			res = 1
		}
		out.Oracle(!(saw.served && mustReject), oracleReject, Tup("accepted as an authenticated peer", input))
		w.probeHonest(input)
	}
	if took > time.Duration(p2p.VerifHandshakeTimeout)*3/5 {
		out.Count("auth:slow-not-counted")
		return
	}
	if !mustReject {
		out.Oracle(res == 0, oracleHonest, Tup("refused", I64(res), input))
	}
	if len(modelPayload(h.code, h.b)) <= maxModelPayload {
		out.Case("auth_dial", dialTerm(wire, f, c.extra, hf, h.b), I64(res), level+":"+c.class+":"+h.class)
	}
}

// the honest peer of the server is still served
func (w *authWorld) probeHonest(after interface{}) bool {
	w.honestFd.SetDeadline(time.Now().Add(60 * time.Second))
	ok := isServed(w.honestRW)
	w.out.Oracle(ok, "only-the-offending-peer-is-dropped", Tup("honest peer not served", after))
	return ok
}

func runAuthChild(rng *rand.Rand, n int, out *Out, _ []string) {
	ln, err := net.Listen("tcp", "127.0.0.1:0")
	if err != nil {
		out.Count("auth:listen-unavailable")
		return
	}
	defer ln.Close()
	w := &authWorld{rng: rng, out: out, ln: ln, nodeKey: detKey(rng)}
	w.our = &p2p.VerifProtoHandshake{Version: p2p.VerifBaseProtocolVersion, Name: "c15-node", Caps: []p2p.Cap{{Name: "eth", Version: 61}}, ID: discover.PubkeyID(&w.nodeKey.PublicKey)}

	// ---- direct
	for i := 0; i < n; i++ {
		if i%5 < 3 {
			w.listenCase(false)
		} else {
			w.dialCase(false)
		}
		if i%50 == 49 {
			out.W.Flush()
		}
	}
	out.W.Flush()

	// ---- wire: the real server, listening and dialing
	idle := p2p.Protocol{Name: "eth", Version: 61, Length: 4, Run: func(p *p2p.Peer, rw p2p.MsgReadWriter) error {
		for {
			m, err := rw.ReadMsg()
			if err != nil {
				return err
			}
			m.Discard()
		}
	}}
	w.srv = &p2p.Server{PrivateKey: w.nodeKey, MaxPeers: 50, MaxPendingPeers: 100, Name: "c15-node", Protocols: []p2p.Protocol{idle}, ListenAddr: "127.0.0.1:0"}
	if err := w.srv.Start(); err != nil {
		out.Count("auth:listen-unavailable")
		return
	}
	defer w.srv.Stop()
	hc := &authCase{class: "honest", eph: detKey(rng), nonce: make([]byte, aSha), kf: hostileKeyField(rng, detKey(rng), -1)}
	rng.Read(hc.nonce)
	sig, _ := crypto.Sign(xorb(ecdhX(hc.kf.prv, &w.nodeKey.PublicKey), hc.nonce), hc.eph)
	hc.plain = authPlain(sig, crypto.Keccak256(pub64(&hc.eph.PublicKey)), hc.kf.b, hc.nonce, 0)
	hc.wire = eciesSeal(rng, &w.nodeKey.PublicKey, hc.plain, nil)
	var hid discover.NodeID
	copy(hid[:], hc.kf.b)
	fd, err := net.DialTimeout("tcp", w.srv.ListenAddr, 20*time.Second)
	if err != nil {
		out.Oracle(false, "server-accepts-connections", Tup(err.Error()))
		return
	}
	defer fd.Close()
	saw := playInitiator(rng, fd, hc, helloCase{class: "hello-valid", code: hsCode, b: enc(&p2p.VerifProtoHandshake{Version: p2p.VerifBaseProtocolVersion, Name: "c15-honest", Caps: []p2p.Cap{{Name: "eth", Version: 61}}, ID: hid}), idMatch: true}, true)
	if !saw.served {
		out.Oracle(false, oracleHonest, Tup("the honest peer of the wire level is not added", saw.answered, saw.hello))
		return
	}
	w.honestFd, w.honestRW = fd, saw.rw
	k := n / 12
	if k < 6 {
		k = 6
	}
	for i := 0; i < k; i++ {
		if i%2 == 0 {
			w.listenCase(true)
		} else {
			w.dialCase(true)
		}
		out.W.Flush()
	}
	// every remote side of a session is gone: the honest peer is the server's only peer
	left := -1
	for i := 0; i < 100; i++ {
		if left = w.srv.PeerCount(); left == 1 {
			break
		}
		time.Sleep(50 * time.Millisecond)
	}
	out.Oracle(left == 1, "only-the-offending-peer-is-dropped", Tup("peers of the server at the end", I64(int64(left))))
}
