package main

// peers: two / three remote peers on ONE node. The node (real ProtocolManager + downloader + fetcher over the real chain
// bridge of a bare node) is behind; peer A is honest and ahead (its replies are those of a real ProtocolManager on the
// longer chain of a mock node, relayed with small delays); peer B misbehaves in every way a remote peer can - unsolicited
// BlockHashes / Blocks (empty, random, genuine but unrequested, copies and corrupted copies of the reply A is about to
// give), announcements, junk of every code, protocol violations, and - when the downloader asks B for blocks - silence,
// empty / junk / lying replies. B acts inside the windows in which the node waits for A (the relay holds A's reply while B
// writes) and at random moments. An optional peer C is honest and idle. Every peer is a p2p.Peer as the server builds it
// (run loop, Disconnect closes the connection), connected by a MsgPipe. Oracles: A is never dropped (B's messages are
// B's), the node ends up on A's chain, a protocol violation of B ends B's session, A and C are still served afterwards,
// the process survives (child).
import (
	"bytes"
	"fmt"
	"math/big"
	"math/rand"
	"os"
	"runtime"
	"sync"
	"sync/atomic"
	"time"

	"github.com/ethereum/go-ethereum/rlp"
	"github.com/inconshreveable/log15"

	"github.com/zenon-network/go-zenon/chain"
	g "github.com/zenon-network/go-zenon/chain/genesis/mock"
	"github.com/zenon-network/go-zenon/chain/nom"
	"github.com/zenon-network/go-zenon/common"
	"github.com/zenon-network/go-zenon/common/types"
	"github.com/zenon-network/go-zenon/p2p"
	"github.com/zenon-network/go-zenon/p2p/discover"
	"github.com/zenon-network/go-zenon/protocol"
	"github.com/zenon-network/go-zenon/wallet"
	"github.com/zenon-network/go-zenon/zenon/mock"
	. "zharness/hz"
)

func runPeersParent(rng *rand.Rand, n int, out *Out, _ []string) {
	chunk := (n + 5) / 6
	if chunk > 25 {
		chunk = 25
	}
	if chunk < 1 {
		chunk = 1
	}
	runChildren(rng, n, out, "peers-child", chunk, 6, 1500*time.Second)
}

var syncUsers = []*wallet.KeyPair{g.User1, g.User2, g.User3, g.User4, g.User5}

// k momentums on nd with random ZNN sends as content and slot gaps
func growChain(nd *Node, rng *rand.Rand, k int) {
	for i := 0; i < k; i++ {
		for s := 0; s < rng.Intn(3); s++ {
			from, to := syncUsers[rng.Intn(len(syncUsers))], syncUsers[rng.Intn(len(syncUsers))]
			bal, _ := nd.Ch.GetFrontierAccountStore(from.Address).GetBalance(types.ZnnTokenStandard)
			if bal.Cmp(big.NewInt(1000)) > 0 {
				nd.Z.InsertSendBlock(&nom.AccountBlock{Address: from.Address, ToAddress: to.Address,
					TokenStandard: types.ZnnTokenStandard, Amount: big.NewInt(int64(1 + rng.Intn(999)))}, nil, mock.SkipVmChanges)
			}
		}
		if err := ProduceAt(nd, []int64{10, 10, 10, 20, 30}[rng.Intn(5)]); err != nil {
			panic(err)
		}
	}
}

func chainHashes(ch chain.Chain) []types.Hash {
	ms := ch.GetFrontierMomentumStore()
	H := ms.Identifier().Height
	hashAt := make([]types.Hash, H+1)
	for h := uint64(1); h <= H; h++ {
		m, _ := ms.GetMomentumByHeight(h)
		hashAt[h] = m.Hash
	}
	return hashAt
}

// remote end of one connection to the node
type remote struct {
	name    string
	app     *p2p.MsgPipeRW
	peer    *p2p.Peer
	wmu     sync.Mutex
	closed  chan struct{} // the node closed the connection
	reason  error
	runEnd  chan p2p.DiscReason
	in      chan inMsg
	stuck   int32
	status  statusData // the node's status
	writes  int64
	dropped int32
}

func (r *remote) isClosed() bool {
	select {
	case <-r.closed:
		return true
	default:
		return false
	}
}

// write with a bound: a message the node does not take within d is given up (the pipe stays usable)
func (r *remote) sendRaw(code uint64, payload []byte, d time.Duration) bool {
	if r.isClosed() || atomic.LoadInt32(&r.stuck) > 0 {
		return false
	}
	done := make(chan error, 1)
	go func() {
		r.wmu.Lock()
		defer r.wmu.Unlock()
		done <- r.app.WriteMsg(p2p.Msg{Code: code, Size: uint32(len(payload)), Payload: bytes.NewReader(payload)})
	}()
	select {
	case err := <-done:
		atomic.AddInt64(&r.writes, 1)
		return err == nil
	case <-r.closed:
		return false
	case <-time.After(d):
		atomic.StoreInt32(&r.stuck, 1) // the writer goroutine still holds the pipe
		return false
	}
}
func (r *remote) send(code uint64, v interface{}, d time.Duration) bool {
	return r.sendRaw(baseLen+code, enc(v), d)
}

type world struct {
	rng   *rand.Rand
	out   *Out
	a     *Node
	hashA []types.Hash
	// the honest peers' replies come from a real protocol manager on a's chain
	backA  *session
	backMu sync.Mutex
	lag    *lagMeter
	dirs   []string
	omu    sync.Mutex // output records written by goroutines other than the scenario's own
}

// the reply a real node with that chain gives to a request
func (w *world) honestReply(back *session, code uint64, payload []byte) (uint64, []byte, bool) {
	w.backMu.Lock()
	defer w.backMu.Unlock()
	var want uint64
	switch code {
	case protocol.GetBlockHashesMsg, protocol.GetBlockHashesFromNumberMsg:
		want = protocol.BlockHashesMsg
	case protocol.GetBlocksMsg:
		want = protocol.BlocksMsg
	default:
		return 0, nil, false
	}
	if !back.sendRaw(code, uint32(len(payload)), payload) {
		return 0, nil, false
	}
	m, _ := back.await(want, 60*time.Second)
	if m == nil {
		return 0, nil, false
	}
	return want, m.payload, true
}

type scenario struct {
	w           *world
	rng         *rand.Rand
	out         *Out
	l           *BareNode
	pm          *protocol.ProtocolManager
	la          uint64 // height of the node at the start
	A, B        *remote
	C           *remote
	bMode       string
	bTD         uint64
	desc        []interface{}
	mu          sync.Mutex
	bActs       []string // what B did (in order)
	bViol       int32    // B sent something the handler answers with an error
	winN        int
	done        chan struct{}
	aReqs       int64
	aWorst      time.Duration
	honestDelay bool // honest peers answer after a network delay also outside the windows
	over        bool // (under w.omu) the scenario's goroutine is writing its verdicts: no more records from others
}

// a progress record from one of the peers' goroutines
func (s *scenario) progressFromPeer(what interface{}) {
	s.w.omu.Lock()
	defer s.w.omu.Unlock()
	if !s.over {
		progress(s.out, what)
	}
}

func (s *scenario) note(act string) {
	s.mu.Lock()
	s.bActs = append(s.bActs, act)
	s.mu.Unlock()
}

func (s *scenario) connect(name string, td uint64, head types.Hash) *remote {
	var id discover.NodeID
	s.rng.Read(id[:])
	app, netw := p2p.MsgPipe()
	r := &remote{name: name, app: app, closed: make(chan struct{}), runEnd: make(chan p2p.DiscReason, 1), in: make(chan inMsg, 4096)}
	r.peer = p2p.VerifNewPeer(id, "c15-"+name, []p2p.Cap{{Name: "eth", Version: 61}}, s.pm.SubProtocols, netw, func(err error) {
		r.reason = err
		close(r.closed)
		netw.Close()
	})
	go func() { r.runEnd <- p2p.VerifPeerRun(r.peer) }()
	// the node's status first
	m, err := app.ReadMsg()
	if err != nil || m.Code != baseLen+protocol.StatusMsg {
		s.out.Oracle(false, "node-sends-status", Tup(name, fmt.Sprint(err)))
		return nil
	}
	if err := m.Decode(&r.status); err != nil {
		s.out.Oracle(false, "node-sends-status", Tup(name, err.Error()))
		return nil
	}
	mine := r.status
	mine.TD, mine.CurrentBlock = td, head
	if !r.send(protocol.StatusMsg, &mine, 30*time.Second) {
		s.out.Oracle(false, "node-sends-status", Tup(name, "status not taken"))
		return nil
	}
	go func() {
		for {
			m, err := app.ReadMsg()
			if err != nil {
				close(r.in)
				return
			}
			var b bytes.Buffer
			b.ReadFrom(m.Payload)
			if m.Code == pingCode {
				go r.sendRaw(pongCode, []byte{0xC0}, 10*time.Second)
				continue
			}
			if m.Code < baseLen {
				continue
			}
			r.in <- inMsg{m.Code - baseLen, m.Size, b.Bytes()}
		}
	}()
	return r
}

// an honest peer: every request of the node is answered as a real node with that chain answers it.
// windows: the peer is A, B acts while the node waits for the reply. Returns when stop is closed or the connection ends.
func (s *scenario) serveHonest(r *remote, back *session, windows bool, stop chan struct{}) {
	for {
		var m inMsg
		var ok bool
		select {
		case <-stop:
			return
		case m, ok = <-r.in:
			if !ok {
				return
			}
		}
		switch m.code {
		case protocol.GetBlockHashesMsg, protocol.GetBlockHashesFromNumberMsg, protocol.GetBlocksMsg:
			t0 := time.Now()
			if os.Getenv("C15_TRACE") != "" {
				fmt.Fprintf(os.Stderr, "c15 trace %s %s request code=%d len=%d\n", time.Now().Format("05.000"), r.name, m.code, len(m.payload))
			}
			code, payload, ok := s.w.honestReply(back, m.code, m.payload)
			if !ok {
				s.out.Oracle(false, "honest-backend-answers", Tup(r.name, U64(m.code)))
				continue
			}
			if windows {
				atomic.AddInt64(&s.aReqs, 1)
				s.window(m.code, code, payload)
				time.Sleep(time.Duration(s.delay()) * time.Millisecond)
				if d := time.Since(t0); d > s.aWorst {
					s.aWorst = d
				}
			}
			if !windows && s.honestDelay {
				time.Sleep(time.Duration(s.delay()) * time.Millisecond)
			}
			r.sendRaw(baseLen+code, payload, 60*time.Second)
		default:
			// announcements, transactions, replies to nothing: an honest peer ignores them
		}
	}
}

// network delay of the honest peer in ms (far below the node's 5 s request timeout)
func (s *scenario) delay() int {
	s.mu.Lock()
	defer s.mu.Unlock()
	return []int{0, 0, 1, 2, 5, 10, 20, 40}[s.rng.Intn(8)]
}

// the node waits for A's reply to (reqCode, req): B acts now
func (s *scenario) window(reqCode uint64, replyCode uint64, reply []byte) {
	s.mu.Lock()
	s.winN++
	n := s.winN
	act := s.rng.Intn(100) < 70 || n <= 2
	k := 1 + s.rng.Intn(3)
	s.mu.Unlock()
	if !act || s.B == nil || s.B.isClosed() {
		return
	}
	for i := 0; i < k; i++ {
		s.bInject(reqCode, replyCode, reply, false)
	}
	time.Sleep(15 * time.Millisecond) // let B's messages reach the downloader before A's reply
}

func randHashes(rng *rand.Rand, n int) []types.Hash {
	hs := make([]types.Hash, n)
	for i := range hs {
		rng.Read(hs[i][:])
	}
	return hs
}

func (s *scenario) genuineBlocks(lo, n uint64) []*nom.DetailedMomentum {
	hi := lo + n - 1
	if top := uint64(len(s.w.hashA) - 1); hi > top {
		hi = top
	}
	return WireCopyAll(DetailedRange(s.w.a.Ch, lo, hi))
}

// a momentum that belongs to no chain; forged: the stated hash is not the hash of its fields
func junkDetailed(rng *rand.Rand, height uint64, prev types.Hash, forged bool) *nom.DetailedMomentum {
	m := &nom.Momentum{Version: 1, ChainIdentifier: uint64(rng.Intn(3)), Height: height, PreviousHash: prev,
		TimestampUnix: rng.Uint64() >> uint(rng.Intn(64)), Data: []byte{}, Content: nom.MomentumContent{}}
	if height == 1 {
		m.Height = 2 // (a momentum of height 1 is the genesis momentum or forged)
	}
	m.PublicKey = g.Pillar1.Public
	if rng.Intn(3) == 0 {
		m.PublicKey = make([]byte, []int{0, 1, 31, 32, 33}[rng.Intn(5)])
	}
	m.Signature = make([]byte, []int{0, 64, 65}[rng.Intn(3)])
	m.Hash = m.ComputeHash()
	if forged {
		switch rng.Intn(3) {
		case 0:
			rng.Read(m.Hash[:])
		case 1: // another height under the hash of this one (the replacement may be the height it has: then the next)
			if h := []uint64{0, 1, m.Height + 1, 1 << 63, ^uint64(0)}[rng.Intn(5)]; h != m.Height {
				m.Height = h
			} else {
				m.Height++
			}
		default:
			m.Hash = prev
		}
	}
	return &nom.DetailedMomentum{Momentum: m, AccountBlocks: []*nom.AccountBlock{}}
}

// the handler's check of a delivered momentum, stated by the harness: it hashes to the hash it states (height 1: it
// states the genesis hash)
func statesOwnHash(m *nom.Momentum, genesis types.Hash) bool {
	if m.Height == 1 {
		return m.Hash == genesis
	}
	return m.ComputeHash() == m.Hash
}

// does the handler take (code, payload) WITHOUT an error? Evaluated by the harness with the rlp library on the types
// the handler decodes into (first value of the payload, as Stream.Decode does). A message for which this holds is not
// a protocol violation, whatever it was meant to be: the oracle offending-peer-is-dropped must not be armed by it.
func handlerTakes(code uint64, payload []byte, genesis types.Hash) (takes bool) {
	dec := func(v interface{}) bool {
		return rlp.NewStream(bytes.NewReader(payload), uint64(len(payload))).Decode(v) == nil
	}
	if uint64(len(payload)) > protocol.ProtocolMaxMsgSize || code >= protocol.ProtocolLengths[0] {
		return false
	}
	defer func() {
		if recover() != nil {
			takes = true // (nothing is claimed about a payload the harness cannot even look at)
		}
	}()
	switch code {
	case protocol.StatusMsg:
		return false
	case protocol.BlockHashesMsg, protocol.NewBlockHashesMsg:
		return true // an undecodable hashes message is dropped silently
	case protocol.GetBlockHashesMsg:
		var r getBlockHashesData
		return dec(&r)
	case protocol.GetBlockHashesFromNumberMsg:
		var r getBlockHashesFromNumberData
		return dec(&r)
	case protocol.GetBlocksMsg:
		var hs []types.Hash
		return dec(&hs)
	case protocol.BlocksMsg:
		var l []*nom.DetailedMomentum
		if !dec(&l) {
			return false
		}
		for _, dm := range l {
			if !statesOwnHash(dm.Momentum, genesis) {
				return false
			}
		}
		return true
	case protocol.NewBlockMsg:
		var dm *nom.DetailedMomentum
		return dec(&dm)
	case protocol.TxMsg:
		var txs []*nom.AccountBlock
		if !dec(&txs) {
			return false
		}
		for _, tx := range txs {
			if tx == nil {
				return false
			}
		}
		return true
	}
	return false
}

// one message of B. reqCode/reply: what A was asked and is about to answer (zero outside a window)
func (s *scenario) bInject(reqCode, replyCode uint64, reply []byte, violation bool) {
	s.mu.Lock()
	rng := rand.New(rand.NewSource(s.rng.Int63()))
	s.mu.Unlock()
	B := s.B
	topA := uint64(len(s.w.hashA) - 1)
	// a write the node does not take at once means B's own handler is blocked (its earlier delivery waits for the
	// downloader): B is mute from then on; A's reply must not be held back for long (the node gives A 5 s)
	d := 400 * time.Millisecond
	k := rng.Intn(18)
	if violation {
		k = 19
	} else if rng.Intn(150) == 0 {
		k = 19 // rarely in the middle of the synchronisation (a dropped peer's pending block request costs the node 9 s)
	}
	switch {
	case k < 3:
		s.note("hashes:empty")
		B.send(protocol.BlockHashesMsg, []types.Hash{}, d)
	case k < 5:
		n := []int{1, 2, 3, 512, 600}[rng.Intn(5)]
		s.note(fmt.Sprintf("hashes:random-%d", n))
		B.send(protocol.BlockHashesMsg, randHashes(rng, n), d)
	case k < 7: // genuine hashes of A's chain, unrequested
		lo := 1 + uint64(rng.Int63n(int64(topA)))
		n := uint64([]int{1, 2, 5, 100, 512}[rng.Intn(5)])
		if lo+n-1 > topA {
			n = topA - lo + 1
		}
		s.note(fmt.Sprintf("hashes:genuine-%d-from-%d", n, lo))
		B.send(protocol.BlockHashesMsg, s.w.hashA[lo:lo+n], d)
	case k < 10: // the very reply A is about to give, or a corrupted copy of it
		if reply == nil {
			s.note("hashes:empty")
			B.send(protocol.BlockHashesMsg, []types.Hash{}, d)
			return
		}
		if replyCode == protocol.BlockHashesMsg {
			var hs []types.Hash
			rlp.DecodeBytes(reply, &hs)
			switch rng.Intn(4) {
			case 0:
				s.note("hashes:copy-of-A's-reply")
			case 1:
				s.note("hashes:A's-reply-truncated")
				if len(hs) > 0 {
					hs = hs[:rng.Intn(len(hs))]
				}
			case 2:
				s.note("hashes:A's-reply-reversed")
				for i := 0; i < len(hs)/2; i++ {
					hs[i], hs[len(hs)-1-i] = hs[len(hs)-1-i], hs[i]
				}
			default:
				s.note("hashes:A's-reply-with-a-foreign-hash")
				hs = append(hs, randHashes(rng, 1)...)
			}
			B.send(protocol.BlockHashesMsg, hs, d)
			return
		}
		s.note("blocks:copy-of-A's-reply")
		B.sendRaw(baseLen+protocol.BlocksMsg, reply, d)
	case k < 11:
		s.note("blocks:empty")
		B.send(protocol.BlocksMsg, []*nom.DetailedMomentum{}, d)
	case k < 12:
		n := 1 + rng.Intn(4)
		l := make([]*nom.DetailedMomentum, n)
		for i := range l {
			l[i] = junkDetailed(rng, []uint64{0, 2, s.la, s.la + 1, topA, topA + 1, 1 << 63, ^uint64(0)}[rng.Intn(8)], s.w.hashA[1+rng.Intn(int(topA))], false)
		}
		s.note(fmt.Sprintf("blocks:junk-%d", n))
		B.send(protocol.BlocksMsg, l, d)
	case k < 14: // genuine blocks of A's chain, unrequested
		lo := 2 + uint64(rng.Int63n(int64(topA-1)))
		l := s.genuineBlocks(lo, uint64(1+rng.Intn(20)))
		s.note(fmt.Sprintf("blocks:genuine-%d-from-%d", len(l), lo))
		B.send(protocol.BlocksMsg, l, d)
	case k < 15:
		s.note("new-block-hashes")
		hs := randHashes(rng, 1+rng.Intn(5))
		if rng.Intn(2) == 0 {
			hs = append(hs, s.w.hashA[1+rng.Intn(int(topA))])
		}
		B.send(protocol.NewBlockHashesMsg, hs, d)
	case k < 16:
		s.note("new-block")
		var dm *nom.DetailedMomentum
		if rng.Intn(2) == 0 {
			dm = junkDetailed(rng, []uint64{s.la + 1, topA + 1, topA + 100, 1 << 63}[rng.Intn(4)], s.w.hashA[topA], rng.Intn(2) == 0)
		} else {
			dm = s.genuineBlocks(2+uint64(rng.Int63n(int64(topA-1))), 1)[0]
		}
		B.send(protocol.NewBlockMsg, dm, d)
	case k < 17:
		s.note("transactions:junk")
		l := make([]*nom.AccountBlock, rng.Intn(4))
		for i := range l {
			l[i] = junkBlock(rng)
		}
		B.send(protocol.TxMsg, l, d)
	case k < 18: // well-formed requests of B's own
		s.note("request")
		switch rng.Intn(3) {
		case 0:
			B.send(protocol.GetBlockHashesFromNumberMsg, &getBlockHashesFromNumberData{uint64(rng.Intn(int(topA) + 3)), uint64(rng.Intn(600))}, d)
		case 1:
			B.send(protocol.GetBlockHashesMsg, &getBlockHashesData{s.w.hashA[1+rng.Intn(int(topA))], uint64(rng.Intn(600))}, d)
		default:
			B.send(protocol.GetBlocksMsg, s.w.hashA[1:1+rng.Intn(int(topA))], d)
		}
	default: // a protocol violation: the handler returns an error for it and B has to go
		var code uint64
		var payload []byte
		var what string
		switch rng.Intn(7) {
		case 5: // momentums that do not hash to the hash they state
			l := make([]*nom.DetailedMomentum, 1+rng.Intn(3))
			for i := range l {
				l[i] = junkDetailed(rng, []uint64{0, 2, s.la + 1, topA + 1, 1 << 63}[rng.Intn(5)], s.w.hashA[1+rng.Intn(int(topA))], true)
			}
			code, payload, what = protocol.BlocksMsg, enc(l), "forged-blocks"
		case 6: // genuine momentums of A's chain with another height under the genuine hash
			l := s.genuineBlocks(2+uint64(rng.Int63n(int64(topA-1))), uint64(1+rng.Intn(10)))
			for _, dm := range l {
				dm.Momentum.Height = []uint64{0, 1, dm.Momentum.Height + 1, dm.Momentum.Height + 5000, 1 << 63, ^uint64(0)}[rng.Intn(6)]
			}
			code, payload, what = protocol.BlocksMsg, enc(l), "lying-height-blocks"
		case 0:
			code, payload, what = protocol.StatusMsg, enc(&B.status), "second-status"
		case 1:
			code, payload, what = uint64(9+rng.Intn(3)), []byte{0xC0}, "unknown-code"
		case 2:
			code = []uint64{protocol.GetBlockHashesMsg, protocol.GetBlockHashesFromNumberMsg, protocol.GetBlocksMsg, protocol.BlocksMsg, protocol.NewBlockMsg, protocol.TxMsg}[rng.Intn(6)]
			payload, what = [][]byte{{0x80}, {0x01}, {0x83, 1, 2, 3}}[rng.Intn(3)], "undecodable"
		case 3:
			code, payload, what = uint64(rng.Intn(9)), make([]byte, protocol.ProtocolMaxMsgSize+1), "oversized"
		default:
			code, what = uint64(1+rng.Intn(8)), "random-bytes"
			payload = make([]byte, 1+rng.Intn(100))
			rng.Read(payload)
			if code == protocol.BlockHashesMsg || code == protocol.NewBlockHashesMsg {
				code = protocol.TxMsg // (an undecodable hashes message is swallowed by the handler)
			}
			if handlerTakes(code, payload, s.w.hashA[1]) { // random bytes that decode: a string where a list is expected
				payload = []byte{0x80}
			}
		}
		// armed only by a message the handler answers with an error by the harness's own reading of it
		if handlerTakes(code, payload, s.w.hashA[1]) {
			s.note(fmt.Sprintf("not-a-violation:%s-code-%d", what, code))
			B.sendRaw(baseLen+code, payload, d)
			return
		}
		s.note(fmt.Sprintf("violation:%s-code-%d", what, code))
		if B.sendRaw(baseLen+code, payload, 10*time.Second) {
			atomic.StoreInt32(&s.bViol, 1)
		}
	}
}

// what B does with the requests the node addresses to it
func (s *scenario) serveB() {
	B := s.B
	rng := rand.New(rand.NewSource(s.rng.Int63()))
	topA := uint64(len(s.w.hashA) - 1)
	heightOf := map[types.Hash]uint64{}
	for h := uint64(1); h <= topA; h++ {
		heightOf[s.w.hashA[h]] = h
	}
	for m := range B.in {
		switch m.code {
		case protocol.GetBlocksMsg:
			var hs []types.Hash
			rlp.DecodeBytes(m.payload, &hs)
			mode := s.bMode
			if mode == "mixed" {
				mode = []string{"junk", "relay"}[rng.Intn(2)]
			}
			s.note(fmt.Sprintf("asked-for-%d-blocks:%s", len(hs), mode))
			switch mode {
			case "stall":
			case "empty":
				B.send(protocol.BlocksMsg, []*nom.DetailedMomentum{}, 400*time.Millisecond)
			case "junk":
				l := []*nom.DetailedMomentum{}
				for range hs {
					l = append(l, junkDetailed(rng, s.la+1+uint64(rng.Intn(5)), s.w.hashA[1+rng.Intn(int(topA))], false))
				}
				B.send(protocol.BlocksMsg, l, 400*time.Millisecond)
			case "lying-height", "relay":
				l := []*nom.DetailedMomentum{}
				for _, h := range hs {
					if ht, ok := heightOf[h]; ok && ht >= 2 {
						dm := s.genuineBlocks(ht, 1)[0]
						if mode == "lying-height" {
							dm.Momentum.Height = []uint64{0, 1, ht + 1, ht - 1, ht + 5000, 1 << 62, 1 << 63, ^uint64(0)}[rng.Intn(8)]
						}
						l = append(l, dm)
					}
				}
				B.send(protocol.BlocksMsg, l, 400*time.Millisecond)
			}
		case protocol.GetBlockHashesMsg, protocol.GetBlockHashesFromNumberMsg:
			// the node synchronises with B (B announced the higher TD)
			s.note("asked-for-hashes:" + s.bMode)
			switch s.bMode {
			case "stall":
			case "empty":
				B.send(protocol.BlockHashesMsg, []types.Hash{}, 400*time.Millisecond)
			default:
				B.send(protocol.BlockHashesMsg, randHashes(rng, 1+rng.Intn(3)), 400*time.Millisecond)
			}
		}
	}
}

func (s *scenario) frontier() types.HashHeight { return FrontierOf(s.l.Ch).Identifier() }

// an honest peer asks the node for hashes and gets the right ones
func (s *scenario) served(r *remote) (bool, string) {
	if r.isClosed() {
		return false, "connection closed: " + fmt.Sprint(r.reason)
	}
	hashL := chainHashes(s.l.Ch)
	top := uint64(len(hashL) - 1)
	k := uint64(1)
	if top > 3 {
		k = 1 + uint64(s.rng.Int63n(int64(top-2)))
	}
	n := uint64(3)
	if k+n-1 > top {
		n = top - k + 1
	}
	if !r.send(protocol.GetBlockHashesFromNumberMsg, &getBlockHashesFromNumberData{k, n}, 30*time.Second) {
		return false, "request not taken"
	}
	deadline := time.After(60 * time.Second)
	for {
		select {
		case m, ok := <-r.in:
			if !ok {
				return false, "connection closed: " + fmt.Sprint(r.reason)
			}
			if m.code != protocol.BlockHashesMsg {
				continue
			}
			var hs []types.Hash
			if rlp.DecodeBytes(m.payload, &hs) != nil || uint64(len(hs)) != n {
				continue
			}
			up, down := true, true
			for i, h := range hs {
				up = up && h == hashL[k+uint64(i)]
				down = down && h == hashL[k+n-1-uint64(i)]
			}
			if up || down {
				return true, ""
			}
		case <-deadline:
			return false, "no reply"
		}
	}
}

func runScenario(w *world, idx int) {
	rng, out := w.rng, w.out
	s := &scenario{w: w, rng: rng, out: out, done: make(chan struct{})}
	topA := uint64(len(w.hashA) - 1)
	// where the node starts: on a prefix of A's chain. (NOT on a fork of it: with own momentums above the common ancestor
	// the downloader, whoever the peers are, may import a first batch that is not longer than the own branch - process()
	// runs after every delivery -, InsertChain refuses it ("won't insert side-chain which is not longer") and the node drops
	// the honest peer that delivered the first block. That is a defect of the synchronisation as such (property C16), seen
	// here with honest peers only; it is not caused by a message of another peer.)
	src := w.a
	s.la = 1 + uint64(rng.Int63n(int64(topA-3)))
	if rng.Intn(4) == 0 {
		s.la = 1
	}
	s.l = OpenBare("")
	w.dirs = append(w.dirs, s.l.Dir)
	if os.Getenv("C15_TRACE") != "" {
		common.DownloaderLogger.SetHandler(log15.StreamHandler(os.Stderr, log15.LogfmtFormat()))
	}
	if s.la >= 2 {
		if _, err := s.l.Br.InsertChain(WireCopyAll(DetailedRange(src.Ch, 2, s.la))); err != nil {
			panic(fmt.Sprint("local chain not accepted: ", err))
		}
	}
	s.pm = protocol.NewProtocolManager(1, networkId, s.l.Br)
	s.pm.Start()

	// B's behaviour
	// (a request that is pending with a peer that stalls or is dropped costs the node blockHardTTL = 9 s: the slow modes are rarer)
	modes := []string{"junk", "junk", "junk", "relay", "relay", "relay", "mixed", "mixed", "mixed", "empty", "lying-height", "stall"}
	s.bMode = modes[rng.Intn(len(modes))]
	s.bTD = uint64(rng.Int63n(int64(s.la) + 1))
	bHead := chainHashes(s.l.Ch)[1+rng.Intn(int(s.la))]
	switch rng.Intn(10) {
	case 0: // B claims more than A has: the node synchronises with B first
		s.bTD = topA + 1 + uint64(rng.Intn(1000))
		rng.Read(bHead[:])
	case 1: // ahead of the node, behind A
		s.bTD = s.la + 1
		if s.bTD >= topA {
			s.bTD = s.la
		}
	}
	withC := rng.Intn(2) == 0
	s.desc = []interface{}{"scenario", I64(int64(idx)), "node-height", U64(s.la), "A-height", U64(topA), "B-mode", s.bMode, "B-td", U64(s.bTD), "C", withC}
	progress(out, Tup(s.desc...))
	w.lag.reset()
	t0 := time.Now()

	// B and C first, A last: a new peer makes the syncer pick the best peer at once (otherwise the 4 s cycle does)
	if s.B = s.connect("B", s.bTD, bHead); s.B == nil {
		return
	}
	go s.serveB()
	stop := make(chan struct{})
	var served sync.WaitGroup
	if withC {
		// an honest peer of A's chain at the node's height
		hc := s.la
		if s.C = s.connect("C", hc, w.hashA[hc]); s.C == nil {
			return
		}
		served.Add(1)
		go func() { s.serveHonest(s.C, w.backA, false, stop); served.Done() }()
	}
	if s.A = s.connect("A", topA, w.hashA[topA]); s.A == nil {
		return
	}
	served.Add(1)
	go func() { s.serveHonest(s.A, w.backA, true, stop); served.Done() }()
	// a late-comer makes the syncer look at its peers right away (honest; its status is the genesis, it serves A's chain:
	// an empty blocks reply never reaches the downloader, a peer without the blocks costs the node 9 s)
	time.Sleep(5 * time.Millisecond)
	if late := s.connect("D", 1, w.hashA[1]); late != nil {
		served.Add(1)
		go func() { s.serveHonest(late, w.backA, false, stop); served.Done() }()
		defer late.app.Close()
	}
	// B at random moments as well
	go func() {
		r := rand.New(rand.NewSource(int64(idx) + 7))
		for {
			select {
			case <-s.done:
				return
			case <-time.After(time.Duration(20+r.Intn(300)) * time.Millisecond):
				if !s.B.isClosed() {
					s.bInject(0, 0, nil, false)
				}
			}
		}
	}()

	// until the node is on A's chain (or A is gone)
	want := types.HashHeight{Height: topA, Hash: w.hashA[topA]}
	synced, aDropped := false, false
	limit := time.After(240 * time.Second)
wait:
	for {
		if s.frontier() == want {
			synced = true
			break
		}
		select {
		case <-s.A.closed:
			aDropped = true
			break wait
		case <-limit:
			break wait
		case <-time.After(20 * time.Millisecond):
		}
	}
	close(s.done)
	took := time.Since(t0)
	s.mu.Lock()
	acts := append([]string{}, s.bActs...)
	s.mu.Unlock()
	if len(acts) > 40 {
		acts = append(acts[:20], acts[len(acts)-20:]...)
	}
	detail := Tup(append(append([]interface{}{}, s.desc...), "B-did", fmt.Sprint(acts), "A-closed-with", fmt.Sprint(s.A.reason), "node-at", U64(s.frontier().Height),
		"took", took.String(), "worst-scheduling-lag", w.lag.worst().String(), "A-requests", I64(atomic.LoadInt64(&s.aReqs)), "A-slowest-reply", s.aWorst.String())...)
	fmt.Fprintf(os.Stderr, "c15 peers scenario: %v\n", detail)
	// a machine that stalls the harness for seconds makes the node's own request timers (5 s / 9 s) fire against A
	loaded := w.lag.worst() > 1500*time.Millisecond || s.aWorst > 2500*time.Millisecond
	out.Count("peers:B-mode=" + s.bMode)
	out.Count(fmt.Sprintf("peers:B-claims-more-than-A=%v", s.bTD > topA))
	for _, a := range acts {
		out.Count("peers:B-act:" + actClass(a))
	}
	if aDropped && (loaded || len(acts) == 0) {
		out.Count("peers:inconclusive-A-dropped-under-load-or-without-B")
	} else {
		out.Oracle(!aDropped, "honest-peer-not-dropped-for-others-messages", detail)
	}
	if !aDropped {
		if !synced && loaded {
			out.Count("peers:inconclusive-not-synced-under-load")
		} else {
			out.Oracle(synced, "node-syncs-to-honest-peers-chain", detail)
		}
	}
	// B goes on after the synchronisation (announcements of higher blocks make the node synchronise with B, deliveries meet
	// no request); the honest peers are probed afterwards
	if synced && !s.B.isClosed() {
		for i := 0; i < 5; i++ {
			s.bInject(0, 0, nil, false)
		}
		time.Sleep(30 * time.Millisecond)
	}
	// a protocol violation of B ends B's session (at the latest now: B sends one)
	if !s.B.isClosed() && atomic.LoadInt32(&s.B.stuck) == 0 {
		s.bInject(0, 0, nil, true)
	}
	if atomic.LoadInt32(&s.bViol) == 1 {
		gone := false
		select {
		case <-s.B.closed:
			gone = true
		case <-time.After(60 * time.Second):
		}
		if !gone { // what the node's goroutines of B's connection are doing (stderr: the driver's log)
			buf := make([]byte, 8<<20)
			fmt.Fprintf(os.Stderr, "c15 peers: B not dropped 60 s after its violation; goroutines:\n%s\n", buf[:runtime.Stack(buf, true)])
		}
		s.mu.Lock()
		last := append([]string{}, s.bActs...)
		s.mu.Unlock()
		if len(last) > 6 {
			last = last[len(last)-6:]
		}
		out.Oracle(gone, "offending-peer-is-dropped", Tup("B's-last-acts", fmt.Sprint(last), "B-stuck", I64(int64(atomic.LoadInt32(&s.B.stuck))), detail))
	}
	// the node keeps serving the others
	close(stop)
	served.Wait()
	if !aDropped {
		ok, why := s.served(s.A)
		out.Oracle(ok, "node-keeps-serving-the-others", Tup("A", why, detail))
	}
	if s.C != nil {
		// C was idle and honest all along
		out.Oracle(!s.C.isClosed(), "honest-peer-not-dropped-for-others-messages", Tup("C", fmt.Sprint(s.C.reason), detail))
		if !s.C.isClosed() {
			ok, why := s.served(s.C)
			out.Oracle(ok, "node-keeps-serving-the-others", Tup("C", why, detail))
		}
	}
	// shutdown: connections first, then the manager (the chain stays open: import goroutines may still run)
	for _, r := range []*remote{s.A, s.B, s.C} {
		if r != nil {
			r.app.Close()
		}
	}
	stopped := make(chan struct{})
	go func() { s.pm.Stop(); close(stopped) }()
	select {
	case <-stopped:
	case <-time.After(20 * time.Second):
		out.Count("peers:pm-stop-timeout")
	}
}

func actClass(a string) string {
	for i := 0; i < len(a); i++ {
		if a[i] >= '0' && a[i] <= '9' {
			j := i
			for j > 0 && (a[j-1] == '-') {
				j--
			}
			return a[:j]
		}
	}
	return a
}

func runPeersChild(rng *rand.Rand, n int, out *Out, _ []string) {
	a := NewNode()
	FreezeClock()
	w := &world{rng: rng, out: out, a: a, lag: newLagMeter()}
	if os.Getenv("C15_TRACE") != "" {
		common.DownloaderLogger.SetHandler(log15.StreamHandler(os.Stderr, log15.LogfmtFormat()))
	}
	defer func() {
		if p := recover(); p != nil {
			panic(p)
		}
		out.Close()
		for _, d := range w.dirs {
			os.RemoveAll(d)
		}
		a.T.Cleanup()
		fmt.Printf("suite=peers-child cases=%d oracle_fails=%d\n", out.Cases, out.Fails)
		os.Exit(0)
	}()
	// a: A's chain
	growChain(a, rng, 35+rng.Intn(60))
	w.hashA = chainHashes(a.Ch)
	w.backA = newSession(a, out, rng, w.hashA)
	if !w.backA.handshake("ok") {
		panic("backend A")
	}
	for i := 0; i < n; i++ {
		runScenario(w, i)
		out.W.Flush()
	}
}
