package main

import (
	"bytes"
	"fmt"
	"io"
	"math/big"
	"math/rand"
	"os"
	"strings"
	"time"

	"github.com/ethereum/go-ethereum/rlp"

	g "github.com/zenon-network/go-zenon/chain/genesis/mock"
	"github.com/zenon-network/go-zenon/chain/nom"
	"github.com/zenon-network/go-zenon/common/types"
	"github.com/zenon-network/go-zenon/p2p"
	"github.com/zenon-network/go-zenon/p2p/discover"
	"github.com/zenon-network/go-zenon/protocol"
	"github.com/zenon-network/go-zenon/protocol/downloader"
	"github.com/zenon-network/go-zenon/verifier"
	"github.com/zenon-network/go-zenon/vm/constants"
	"github.com/zenon-network/go-zenon/wallet"
	"github.com/zenon-network/go-zenon/zenon/mock"
	. "zharness/hz"
)

const networkId = 321

// same RLP shape as the unexported protocol.statusData / getBlockHashesData / getBlockHashesFromNumberData
type statusData struct {
	ProtocolVersion uint32
	NetworkId       uint32
	TD              uint64
	CurrentBlock    types.Hash
	GenesisBlock    types.Hash
}
type getBlockHashesData struct {
	Hash   types.Hash
	Amount uint64
}
type getBlockHashesFromNumberData struct {
	Number uint64
	Amount uint64
}

type inMsg struct {
	code    uint64
	size    uint32
	payload []byte
}
type runResult struct {
	err      error
	panicked interface{}
}

type session struct {
	heavy  int
	sizes  map[uint64]uint64
	bridge protocol.ChainBridge
	nd     *Node
	pm     *protocol.ProtocolManager
	app    *p2p.MsgPipeRW
	inbox  chan inMsg
	done   chan runResult
	ended  *runResult
	H      uint64
	height map[types.Hash]uint64
	hashAt []types.Hash
	out    *Out
	rng    *rand.Rand
}

func errClassOf(err error) int64 {
	if err == nil {
		return -1
	}
	s := err.Error()
	for i, p := range []string{"Message too long", "Invalid message", "Invalid message code", "Protocol version mismatch", "NetworkId mismatch",
		"Genesis block mismatch", "No status message", "Extra status message", "Suspended peer"} {
		if strings.HasPrefix(s, p+" - ") {
			return int64(i)
		}
	}
	return 99
}

func newSession(nd *Node, out *Out, rng *rand.Rand, hashAt []types.Hash) *session {
	s := &session{nd: nd, out: out, rng: rng, hashAt: hashAt, H: uint64(len(hashAt) - 1), height: map[types.Hash]uint64{}}
	for h := 1; h < len(hashAt); h++ {
		s.height[hashAt[h]] = uint64(h)
	}
	bridge := protocol.NewChainBridge(nd.Ch, nd.Cs, verifier.NewVerifier(nd.Ch, nd.Cs), nd.Sv)
	s.bridge = bridge
	s.sizes = map[uint64]uint64{}
	s.pm = protocol.NewProtocolManager(1, networkId, bridge)
	s.pm.Start()
	app, net := p2p.MsgPipe()
	s.app = app
	s.inbox = make(chan inMsg, 4096)
	s.done = make(chan runResult, 1)
	var id discover.NodeID
	rng.Read(id[:])
	peer := p2p.NewPeer(id, "c15-peer", nil)
	go func() {
		// in the node this is the p2p peer's protocol goroutine, which has NO recover: a panic here kills the process.
		// The harness observes it instead of dying, so that the failing request can be reported.
		var r runResult
		defer func() {
			if p := recover(); p != nil {
				r.panicked = p
			}
			net.Close()
			s.done <- r
		}()
		r.err = s.pm.SubProtocols[0].Run(peer, net)
	}()
	go func() {
		for {
			m, err := app.ReadMsg()
			if err != nil {
				close(s.inbox)
				return
			}
			b, _ := io.ReadAll(m.Payload)
			s.inbox <- inMsg{m.Code, m.Size, b}
		}
	}()
	return s
}

func (s *session) close() {
	s.app.Close()
	if s.ended == nil {
		select {
		case r := <-s.done:
			s.ended = &r
		case <-time.After(5 * time.Second):
			s.out.Oracle(false, "run-returns-after-close", nil)
		}
	}
	stopped := make(chan struct{})
	go func() { s.pm.Stop(); close(stopped) }()
	select {
	case <-stopped:
	case <-time.After(10 * time.Second):
		s.out.Count("pm-stop-timeout")
	}
}

// wait for a message with the wanted code, or the end of Run
func (s *session) await(code uint64, d time.Duration) (*inMsg, *runResult) {
	deadline := time.After(d)
	for {
		if s.ended != nil {
			return nil, s.ended
		}
		select {
		case m, ok := <-s.inbox:
			if !ok {
				r := <-s.done
				s.ended = &r
				return nil, s.ended
			}
			if m.code == code {
				return &m, nil
			}
			s.out.Count(fmt.Sprintf("unsolicited-msg:code=%d", m.code))
		case r := <-s.done:
			s.ended = &r
			return nil, s.ended
		case <-deadline:
			return nil, nil
		}
	}
}

func (s *session) sendRaw(code uint64, size uint32, payload []byte) bool {
	errc := make(chan error, 1)
	go func() { errc <- s.app.WriteMsg(p2p.Msg{Code: code, Size: size, Payload: bytes.NewReader(payload)}) }()
	select {
	case err := <-errc:
		return err == nil
	case <-time.After(10 * time.Second):
		s.out.Oracle(false, "message-accepted-in-time", Tup(U64(code), U64(uint64(size))))
		return false
	}
}
func (s *session) send(code uint64, v interface{}) bool {
	b, err := rlp.EncodeToBytes(v)
	if err != nil {
		panic(err)
	}
	return s.sendRaw(code, uint32(len(b)), b)
}

// handshake variants; returns true if the session is established
func (s *session) handshake(mode string) bool {
	out := s.out
	st, end := s.await(protocol.StatusMsg, 5*time.Second)
	if st == nil {
		out.Oracle(false, "node-sends-status", Tup(mode, fmt.Sprint(end)))
		return false
	}
	var theirs statusData
	if err := rlp.DecodeBytes(st.payload, &theirs); err != nil {
		out.Oracle(false, "node-sends-status", Tup(mode, err.Error()))
		return false
	}
	out.Oracle(theirs.TD == s.H && theirs.CurrentBlock == s.hashAt[s.H] && theirs.GenesisBlock == s.hashAt[1], "status-matches-chain", Tup(U64(theirs.TD), U64(s.H)))
	mine := statusData{ProtocolVersion: theirs.ProtocolVersion, NetworkId: networkId, TD: 0, CurrentBlock: theirs.CurrentBlock, GenesisBlock: theirs.GenesisBlock}
	// model input: (code, size, decodes, genesisOk, networkOk, versionOk)
	code, size, decodes, gOk, nOk, vOk := uint64(protocol.StatusMsg), uint64(0), true, true, true, true
	var payload []byte
	switch mode {
	case "ok":
	case "wrong-genesis":
		mine.GenesisBlock[3] ^= 1
		gOk = false
	case "wrong-network":
		mine.NetworkId++
		nOk = false
	case "wrong-version":
		mine.ProtocolVersion += uint32(1 + s.rng.Intn(5))
		vOk = false
	case "not-status-first":
		code = uint64(1 + s.rng.Intn(12))
	case "garbage-status":
		payload = make([]byte, s.rng.Intn(60))
		s.rng.Read(payload)
		decodes = false
		var probe statusData
		if rlp.DecodeBytes(payload, &probe) == nil {
			return false
		}
	case "oversized-status":
		payload = make([]byte, protocol.ProtocolMaxMsgSize+1+s.rng.Intn(3))
	}
	if payload == nil {
		payload, _ = rlp.EncodeToBytes(&mine)
	}
	size = uint64(len(payload))
	if !s.sendRaw(code, uint32(size), payload) {
		out.Oracle(false, "handshake-message-accepted", Tup(mode))
		return false
	}
	if mode == "ok" {
		// established: Run keeps running
		select {
		case r := <-s.done:
			s.ended = &r
			out.Oracle(false, "valid-handshake-accepted", Tup(fmt.Sprint(r.err), fmt.Sprint(r.panicked)))
			return false
		case <-time.After(30 * time.Millisecond):
		}
		out.Case("handshake", Tup(U64(code), U64(size), decodes, gOk, nOk, vOk), I64(-1), mode)
		return true
	}
	_, end = s.await(^uint64(0), 5*time.Second)
	if end == nil {
		out.Oracle(false, "bad-handshake-rejected", Tup(mode))
		return false
	}
	out.Oracle(end.panicked == nil, "handler-no-panic", Tup("handshake", mode, fmt.Sprint(end.panicked)))
	if end.panicked == nil {
		out.Oracle(end.err != nil, "bad-handshake-rejected", Tup(mode))
		out.Case("handshake", Tup(U64(code), U64(size), decodes, gOk, nOk, vOk), I64(errClassOf(end.err)), mode)
	}
	return false
}

func (s *session) amounts() []uint64 {
	return []uint64{0, 1, 2, 3, 511, 512, 513, s.H - 1, s.H, s.H + 1, 1 << 32, 1 << 63, ^uint64(0), ^uint64(0) - 1, uint64(s.rng.Intn(700)), BoundaryU64(s.rng)}
}
func (s *session) numbers() []uint64 {
	return []uint64{0, 1, 2, s.H - 1, s.H, s.H + 1, s.H + 2, 1 << 63, ^uint64(0), ^uint64(0) - 1, ^uint64(0) - 511, ^uint64(0) - 512, 1 + uint64(s.rng.Int63n(int64(s.H))), 1 + uint64(s.rng.Int63n(int64(s.H))), BoundaryU64(s.rng)}
}

func lstU(a []uint64) []interface{} {
	r := Lst()
	for _, x := range a {
		r = append(r, U64(x))
	}
	return r
}

// outcome of one request as a term of the model's `outcome` type + bookkeeping for the oracles
func (s *session) outcomeHashes(req interface{}, reqTerm M, size uint64, tag string, code uint64) bool {
	out := s.out
	if !s.send(code, req) {
		return false
	}
	m, end := s.await(protocol.BlockHashesMsg, 20*time.Second)
	in := Tup(U64(s.H), U64(size), reqTerm)
	if end != nil {
		out.Oracle(end.panicked == nil, "handler-no-panic", Tup(reqTerm, U64(s.H), fmt.Sprint(end.panicked)))
		if end.panicked != nil {
			out.Case("handle", in, Con("OPanic"), tag)
		} else {
			out.Case("handle", in, Con("OErr", I64(errClassOf(end.err))), tag)
		}
		return false
	}
	if m == nil {
		out.Oracle(false, "request-answered-in-time", Tup(reqTerm, U64(s.H)))
		return false
	}
	var hashes []types.Hash
	if err := rlp.DecodeBytes(m.payload, &hashes); err != nil {
		out.Oracle(false, "reply-well-formed", Tup(reqTerm, err.Error()))
		return true
	}
	hts := make([]uint64, len(hashes))
	known := true
	for i, h := range hashes {
		hts[i] = s.height[h]
		known = known && hts[i] != 0
	}
	out.Oracle(known, "reply-hashes-are-chain-hashes", Tup(reqTerm))
	out.Oracle(len(hashes) <= downloader.MaxHashFetch, "reply-hashes-within-MaxHashFetch", Tup(reqTerm, U64(s.H), I64(int64(len(hashes)))))
	out.Oracle(m.size <= protocol.ProtocolMaxMsgSize, "reply-size-within-ProtocolMaxMsgSize", Tup(reqTerm, U64(uint64(m.size))))
	out.Case("handle", in, Con("OHashes", lstU(hts)), tag)
	return true
}

// size of the momentum at height h inside a BlocksMsg (peer.SendBlocks strips the content of the genesis momentum)
func (s *session) msize(h uint64) uint64 {
	if v, ok := s.sizes[h]; ok {
		return v
	}
	d := s.bridge.GetBlock(s.hashAt[h])
	if h == 1 {
		m := *d.Momentum
		m.Content = nil
		d = &nom.DetailedMomentum{Momentum: &m}
	}
	d.Momentum.EnsureCache()
	n, _, err := rlp.EncodeToReader(d)
	if err != nil {
		panic(err)
	}
	s.sizes[h] = uint64(n)
	return uint64(n)
}

func (s *session) item(kind int) (types.Hash, M) {
	switch kind {
	case 0:
		h := 1 + uint64(s.rng.Int63n(int64(s.H)))
		if s.heavy > 0 && s.rng.Intn(2) == 0 {
			h = s.H - uint64(s.rng.Intn(s.heavy))
		}
		return s.hashAt[h], Con("IKnown", U64(h), U64(s.msize(h)))
	default:
		var x types.Hash
		s.rng.Read(x[:])
		return x, Con("IUnknown")
	}
}

func (s *session) request() bool {
	out, rng := s.out, s.rng
	switch k := rng.Intn(24); {
	case k < 5: // GetBlockHashesMsg
		var hash types.Hash
		var ht interface{}
		switch rng.Intn(5) {
		case 0:
			rng.Read(hash[:])
			ht = None()
		case 1:
			ht = None() // zero hash
		case 2:
			hash, ht = s.hashAt[s.H], Some(U64(s.H))
		case 3:
			hash, ht = s.hashAt[1], Some(U64(1))
		default:
			h := 1 + uint64(rng.Int63n(int64(s.H)))
			hash, ht = s.hashAt[h], Some(U64(h))
		}
		am := s.amounts()
		a := am[rng.Intn(len(am))]
		req := &getBlockHashesData{hash, a}
		b, _ := rlp.EncodeToBytes(req)
		tag := "gethashes-known"
		if hash == types.ZeroHash || s.height[hash] == 0 {
			tag = "gethashes-unknown-hash"
		}
		return s.outcomeHashes(req, Con("RGetHashes", ht, U64(a)), uint64(len(b)), tag, protocol.GetBlockHashesMsg)
	case k < 11: // GetBlockHashesFromNumberMsg
		nu, am := s.numbers(), s.amounts()
		num, a := nu[rng.Intn(len(nu))], am[rng.Intn(len(am))]
		if rng.Intn(4) == 0 {
			num, a = uint64(rng.Intn(3)), uint64(rng.Intn(3))
		}
		req := &getBlockHashesFromNumberData{num, a}
		b, _ := rlp.EncodeToBytes(req)
		tag := "fromnumber"
		if a == 0 || num == 0 {
			tag = "fromnumber-zero"
		} else if num > s.H {
			tag = "fromnumber-beyond-frontier"
		}
		return s.outcomeHashes(req, Con("RGetHashesFromNumber", U64(num), U64(a)), uint64(len(b)), tag, protocol.GetBlockHashesFromNumberMsg)
	case k < 14: // GetBlocksMsg
		n := []int{0, 1, 2, 5, 127, 128, 129, 130, 300, 1000}[rng.Intn(10)]
		hashes := make([]types.Hash, n)
		items := Lst()
		pk := rng.Intn(4) // mostly known .. mostly unknown
		for i := range hashes {
			kind := 0
			if rng.Intn(4) < pk {
				kind = 1
			}
			var it M
			hashes[i], it = s.item(kind)
			items = append(items, it)
		}
		b, _ := rlp.EncodeToBytes(hashes)
		reqTerm := Con("RGetBlocks", items)
		in := Tup(U64(s.H), U64(uint64(len(b))), reqTerm)
		if !s.sendRaw(protocol.GetBlocksMsg, uint32(len(b)), b) {
			return false
		}
		m, end := s.await(protocol.BlocksMsg, 30*time.Second)
		if end != nil {
			out.Oracle(end.panicked == nil, "handler-no-panic", Tup("GetBlocks", I64(int64(n)), fmt.Sprint(end.panicked)))
			if end.panicked != nil {
				out.Case("handle", in, Con("OPanic"), "getblocks")
			} else {
				out.Case("handle", in, Con("OErr", I64(errClassOf(end.err))), "getblocks")
			}
			return false
		}
		if m == nil {
			out.Oracle(false, "request-answered-in-time", Tup("GetBlocks", I64(int64(n))))
			return false
		}
		var blocks []*nom.DetailedMomentum
		if err := rlp.DecodeBytes(m.payload, &blocks); err != nil {
			out.Oracle(false, "reply-well-formed", Tup("GetBlocks", err.Error()))
			return true
		}
		hts := make([]uint64, len(blocks))
		good := true
		for i, bl := range blocks {
			hts[i] = s.height[bl.Momentum.Hash]
			// (the genesis momentum is sent without its content by peer.SendBlocks)
			good = good && hts[i] != 0 && len(bl.AccountBlocks) == len(bl.Momentum.Content) && (hts[i] == 1 || bl.Momentum.ComputeHash() == bl.Momentum.Hash)
		}
		out.Oracle(good, "reply-blocks-are-chain-blocks", Tup(I64(int64(n))))
		out.Oracle(len(blocks) <= downloader.MaxBlockFetch, "reply-blocks-within-MaxBlockFetch", Tup(I64(int64(n)), I64(int64(len(blocks)))))
		out.Oracle(m.size <= protocol.ProtocolMaxMsgSize, "reply-size-within-ProtocolMaxMsgSize", Tup("GetBlocks", I64(int64(n)), I64(int64(len(blocks))), U64(uint64(m.size))))
		out.Count(fmt.Sprintf("blocks-reply-bytes<=2^%d", bitlen(uint64(m.size))))
		var sum uint64
		for _, h := range hts {
			if h != 0 {
				sum += s.msize(h)
			}
		}
		// the message is the RLP list of the momentums: payload sum + list header
		hdr := uint64(1)
		if sum > 55 {
			hdr = 1 + uint64((bitlen(sum)+7)/8)
		}
		out.Oracle(uint64(m.size) == sum+hdr, "reply-size-is-sum-of-momentum-sizes", Tup(U64(uint64(m.size)), U64(sum)))
		tag := fmt.Sprintf("getblocks-n=%d", n)
		if sum > 4<<20 {
			tag += "-heavy"
		}
		out.Case("handle", in, Con("OBlocks", lstU(hts), U64(sum)), tag)
		return true
	case k < 15: // status after the handshake / unknown codes / oversized
		var code uint64
		var reqTerm M
		payload := []byte{0xc0}
		switch rng.Intn(3) {
		case 0:
			code, reqTerm = protocol.StatusMsg, Con("RStatus")
		case 1:
			code = []uint64{9, 10, 16, 255, 1 << 32, 1 << 63, ^uint64(0)}[rng.Intn(7)]
			reqTerm = Con("RUnknown", U64(code))
		default:
			code = uint64(rng.Intn(9))
			reqTerm = Con("RUndecodable", U64(code))
			payload = make([]byte, protocol.ProtocolMaxMsgSize+1+rng.Intn(2))
		}
		if !s.sendRaw(code, uint32(len(payload)), payload) {
			return false
		}
		_, end := s.await(^uint64(0), 10*time.Second)
		in := Tup(U64(s.H), U64(uint64(len(payload))), reqTerm)
		if end == nil {
			out.Oracle(false, "protocol-violation-drops-peer", Tup(reqTerm))
			return false
		}
		out.Oracle(end.panicked == nil, "handler-no-panic", Tup(reqTerm, fmt.Sprint(end.panicked)))
		if end.panicked == nil {
			tag := "status-unknown-code"
			if len(payload) > 100 {
				tag = "oversized"
			}
			out.Case("handle", in, Con("OErr", I64(errClassOf(end.err))), tag)
		}
		return false
	case k < 17: // payload that is not the RLP form of the request
		code := []uint64{protocol.GetBlockHashesMsg, protocol.GetBlockHashesFromNumberMsg, protocol.TxMsg, protocol.NewBlockMsg, protocol.GetBlocksMsg, protocol.BlocksMsg,
			protocol.BlockHashesMsg, protocol.NewBlockHashesMsg}[rng.Intn(8)]
		payload := [][]byte{{0x80}, {0x01}, {0x83, 1, 2, 3}, {0xc1, 0x80}, {0xc3, 0x80, 0x80, 0x80}}[rng.Intn(5)]
		if code == protocol.GetBlocksMsg || code == protocol.BlocksMsg || code == protocol.BlockHashesMsg || code == protocol.NewBlockHashesMsg || code == protocol.TxMsg {
			payload = [][]byte{{0x80}, {0x01}, {0x83, 1, 2, 3}}[rng.Intn(3)] // not a list
		}
		reqTerm := Con("RUndecodable", U64(code))
		in := Tup(U64(s.H), U64(uint64(len(payload))), reqTerm)
		if !s.sendRaw(code, uint32(len(payload)), payload) {
			return false
		}
		if code == protocol.BlockHashesMsg || code == protocol.NewBlockHashesMsg {
			// decode failure is swallowed (`break`): no reply, session continues
			alive := s.probe()
			if alive {
				out.Case("handle", in, Con("ONoReply"), "undecodable-swallowed")
			}
			return alive
		}
		_, end := s.await(^uint64(0), 10*time.Second)
		if end == nil {
			out.Oracle(false, "protocol-violation-drops-peer", Tup(reqTerm))
			return false
		}
		out.Oracle(end.panicked == nil, "handler-no-panic", Tup(reqTerm, fmt.Sprint(end.panicked)))
		if end.panicked == nil {
			out.Case("handle", in, Con("OErr", I64(errClassOf(end.err))), "undecodable")
		}
		return false
	case k < 23: // well-formed messages without a reply (delivered to downloader / fetcher / pool): explored, then probed
		return s.noReply()
	default: // random bytes / random RLP for a random code: no model, only survival
		code := uint64(rng.Intn(10))
		var payload []byte
		switch rng.Intn(3) {
		case 0:
			payload = make([]byte, rng.Intn(300))
			rng.Read(payload)
		case 1:
			payload = randomRLP(rng, 0)
		default: // truncated valid request
			b, _ := rlp.EncodeToBytes(&getBlockHashesFromNumberData{rng.Uint64(), rng.Uint64()})
			payload = b[:rng.Intn(len(b))]
		}
		out.Count(fmt.Sprintf("fuzz:code=%d", code))
		if !s.sendRaw(code, uint32(len(payload)), payload) {
			return false
		}
		return s.probe()
	}
}

func bitlen(x uint64) int {
	n := 0
	for x > 0 {
		n++
		x >>= 1
	}
	return n
}

func randomRLP(rng *rand.Rand, depth int) []byte {
	var v interface{}
	var gen func(d int) interface{}
	gen = func(d int) interface{} {
		switch rng.Intn(4) {
		case 0:
			b := make([]byte, rng.Intn(40))
			rng.Read(b)
			return b
		case 1:
			return rng.Uint64() >> uint(rng.Intn(64))
		default:
			if d > 6 {
				return []byte{}
			}
			n := rng.Intn(6)
			l := make([]interface{}, n)
			for i := range l {
				l[i] = gen(d + 1)
			}
			return l
		}
	}
	v = gen(depth)
	b, err := rlp.EncodeToBytes(v)
	if err != nil {
		return []byte{0xc0}
	}
	return b
}

// the message loop still serves: a probe request is answered (or the session was closed with an error, not a panic).
// The junk sent before the probe may itself have decoded as a request (random RLP does, now and then) and been answered;
// replies arrive in order, so every hashes message before the probe's own reply is consumed here and the next request
// cannot be paired with a stale reply (seen once in 105 000 thorough cases: `handle` mismatch with the reply of a probe).
// The probe asks for three hashes from a random height, a reply the junk cannot produce by accident.
func (s *session) probe() bool {
	out := s.out
	k := uint64(1)
	if s.H > 4 {
		k = 1 + uint64(s.rng.Int63n(int64(s.H-3)))
	}
	n := uint64(3)
	if k+n-1 > s.H {
		n = s.H - k + 1
	}
	if !s.send(protocol.GetBlockHashesFromNumberMsg, &getBlockHashesFromNumberData{k, n}) {
		if s.ended == nil {
			_, _ = s.await(^uint64(0), 2*time.Second)
		}
		if s.ended != nil {
			out.Oracle(s.ended.panicked == nil, "handler-no-panic", Tup("probe", fmt.Sprint(s.ended.panicked)))
		}
		return false
	}
	for tries := 0; tries < 4; tries++ {
		m, end := s.await(protocol.BlockHashesMsg, 20*time.Second)
		if end != nil {
			out.Oracle(end.panicked == nil, "handler-no-panic", Tup("before-probe", fmt.Sprint(end.panicked)))
			out.Count("fuzz:session-closed-with-error")
			return false
		}
		if m == nil {
			break
		}
		var hashes []types.Hash
		if err := rlp.DecodeBytes(m.payload, &hashes); err == nil && uint64(len(hashes)) == n {
			up, down := true, true
			for i, h := range hashes {
				up = up && h == s.hashAt[k+uint64(i)]
				down = down && h == s.hashAt[k+n-1-uint64(i)]
			}
			if up || down {
				out.Oracle(true, "message-loop-not-blocked", nil)
				out.Count("fuzz:session-continues")
				return true
			}
		}
		out.Count("fuzz:junk-decoded-as-a-request-and-was-answered")
	}
	out.Oracle(false, "message-loop-not-blocked", nil)
	return false
}

func junkMomentum(rng *rand.Rand, s *session) *nom.DetailedMomentum {
	m := &nom.Momentum{Version: 1, ChainIdentifier: uint64(rng.Intn(3)), Height: []uint64{0, 1, s.H, s.H + 1, s.H + 2, s.H + 100, 1 << 63, ^uint64(0)}[rng.Intn(8)],
		TimestampUnix: rng.Uint64() >> uint(rng.Intn(64)), Data: []byte{}, Content: nom.MomentumContent{}}
	if rng.Intn(2) == 0 {
		m.PreviousHash = s.hashAt[s.H]
	}
	if rng.Intn(2) == 0 {
		m.PublicKey = make([]byte, []int{0, 1, 31, 32, 33, 64}[rng.Intn(6)])
		rng.Read(m.PublicKey)
		m.Signature = make([]byte, []int{0, 1, 63, 64, 65}[rng.Intn(5)])
	} else {
		m.PublicKey = g.Pillar1.Public
	}
	for i := rng.Intn(3); i > 0; i-- {
		var a types.AccountHeader
		rng.Read(a.Address[:])
		rng.Read(a.Hash[:])
		a.Height = rng.Uint64()
		m.Content = append(m.Content, &a)
	}
	m.Hash = m.ComputeHash()
	if rng.Intn(4) == 0 {
		rng.Read(m.Hash[:])
	}
	d := &nom.DetailedMomentum{Momentum: m, AccountBlocks: []*nom.AccountBlock{}}
	for i := rng.Intn(3); i > 0; i-- {
		d.AccountBlocks = append(d.AccountBlocks, junkBlock(rng))
	}
	return d
}
func junkBlock(rng *rand.Rand) *nom.AccountBlock {
	b := &nom.AccountBlock{Version: uint64(rng.Intn(3)), ChainIdentifier: uint64(rng.Intn(3)), BlockType: uint64(rng.Intn(8)), Height: rng.Uint64() >> uint(rng.Intn(64)),
		Amount: big.NewInt(rng.Int63()), Data: []byte{}, Nonce: nom.Nonce{}, Signature: []byte{}, PublicKey: []byte{}}
	rng.Read(b.Address[:])
	if rng.Intn(2) == 0 {
		b.Address = g.User1.Address
	}
	rng.Read(b.ToAddress[:])
	if rng.Intn(3) == 0 {
		b.Amount = new(big.Int).Lsh(big.NewInt(1), uint(rng.Intn(300)))
	}
	if rng.Intn(3) == 0 {
		b.PublicKey = g.User1.Public
		b.Signature = make([]byte, 64)
	}
	b.Hash = b.ComputeHash()
	return b
}

// a momentum that extends the frontier and is well-formed except for exactly one thing (so it must never be adopted)
func (s *session) almostValidMomentum() *nom.DetailedMomentum {
	rng := s.rng
	fm, _ := s.nd.Ch.GetFrontierMomentumStore().GetFrontierMomentum()
	m := &nom.Momentum{Version: fm.Version, ChainIdentifier: fm.ChainIdentifier, Height: fm.Height + 1, PreviousHash: fm.Hash,
		TimestampUnix: fm.TimestampUnix + 10, Data: []byte{}, Content: nom.MomentumContent{}}
	kp := g.PillarKeys[rng.Intn(len(g.PillarKeys))]
	d := &nom.DetailedMomentum{Momentum: m, AccountBlocks: []*nom.AccountBlock{}}
	defect := rng.Intn(9)
	switch defect {
	case 0: // signed by a key that is no pillar
		kp = g.User1
	case 1:
		rng.Read(m.ChangesHash[:])
	case 2:
		m.TimestampUnix = fm.TimestampUnix + uint64(86400*365*(1+rng.Intn(50)))
	case 3: // content names blocks that do not exist
		for i := 1 + rng.Intn(150); i > 0; i-- {
			var a types.AccountHeader
			a.Address = g.User1.Address
			rng.Read(a.Hash[:])
			a.Height = uint64(1 + rng.Intn(5))
			m.Content = append(m.Content, &a)
		}
	case 4: // account blocks that are not in the content
		for i := 1 + rng.Intn(4); i > 0; i-- {
			d.AccountBlocks = append(d.AccountBlocks, s.almostValidBlock())
		}
	case 5: // gap above the frontier
		m.Height = fm.Height + uint64(2+rng.Intn(40))
	case 6: // side chain below the frontier with an unknown parent
		m.Height = fm.Height - uint64(rng.Intn(int(fm.Height)-1))
		rng.Read(m.PreviousHash[:])
	case 7:
		m.Data = make([]byte, 1+rng.Intn(2000))
	case 8:
		m.ChainIdentifier += uint64(1 + rng.Intn(3))
	}
	m.Hash = m.ComputeHash()
	m.PublicKey = kp.Public
	m.Signature = kp.Sign(m.Hash.Bytes())
	if defect == 0 && rng.Intn(2) == 0 {
		m.Signature[rng.Intn(len(m.Signature))] ^= 1
	}
	s.out.Count(fmt.Sprintf("hostile-momentum:defect=%d", defect))
	return d
}

// an account block generated by the real supervisor for a real user, then broken in one aspect (or not at all)
func (s *session) almostValidBlock() *nom.AccountBlock {
	rng := s.rng
	u := []*wallet.KeyPair{g.User1, g.User2, g.User3}[rng.Intn(3)]
	tpl := &nom.AccountBlock{BlockType: nom.BlockTypeUserSend, Address: u.Address, ToAddress: g.User2.Address, TokenStandard: types.ZnnTokenStandard, Amount: big.NewInt(int64(1 + rng.Intn(100)))}
	tx, err := s.nd.Sv.GenerateFromTemplate(tpl, u.Signer)
	if err != nil {
		return junkBlock(rng)
	}
	b := tx.Block
	defect := rng.Intn(11)
	resign := true
	switch defect {
	case 0: // valid: ends up in the pool (the chain does not change)
	case 1:
		b.Height += uint64(1 + rng.Intn(5))
	case 2:
		rng.Read(b.PreviousHash[:])
	case 3:
		b.Amount = new(big.Int).Lsh(big.NewInt(1), uint(64+rng.Intn(200)))
	case 4:
		b.Signature[rng.Intn(len(b.Signature))] ^= 1
		resign = false
	case 5:
		b.Data = make([]byte, constants.MaxDataLength+1+rng.Intn(100))
	case 6:
		b.BlockType = []uint64{0, nom.BlockTypeGenesisReceive, nom.BlockTypeContractSend, nom.BlockTypeContractReceive, 6, ^uint64(0)}[rng.Intn(6)]
	case 7:
		b.Address = types.TokenContract
	case 8:
		b.Difficulty = BoundaryU64(rng)
		rng.Read(b.Nonce.Data[:])
	case 9:
		rng.Read(b.TokenStandard[:])
	case 10: // descendant blocks nested inside a user block
		depth := []int{1, 3, 50, 2000}[rng.Intn(4)]
		cur := b
		for i := 0; i < depth; i++ {
			c := junkBlock(rng)
			cur.DescendantBlocks = []*nom.AccountBlock{c}
			cur = c
		}
	}
	if resign {
		b.Hash = b.ComputeHash()
		b.Signature = u.Sign(b.Hash.Bytes())
	}
	s.out.Count(fmt.Sprintf("hostile-block:defect=%d", defect))
	return b
}

func (s *session) noReply() bool {
	rng, out := s.rng, s.out
	var code uint64
	var v interface{}
	switch rng.Intn(8) {
	case 0:
		code = protocol.BlockHashesMsg
		hs := make([]types.Hash, rng.Intn(600))
		for i := range hs {
			rng.Read(hs[i][:])
		}
		v = hs
	case 1:
		code = protocol.NewBlockHashesMsg
		hs := make([]types.Hash, rng.Intn(40))
		for i := range hs {
			if rng.Intn(3) == 0 {
				hs[i] = s.hashAt[1+rng.Intn(int(s.H))]
			} else {
				rng.Read(hs[i][:])
			}
		}
		v = hs
	case 2:
		code = protocol.BlocksMsg
		l := make([]*nom.DetailedMomentum, rng.Intn(5))
		for i := range l {
			if rng.Intn(2) == 0 {
				l[i] = s.almostValidMomentum()
			} else {
				l[i] = junkMomentum(rng, s)
			}
		}
		v = l
	case 3:
		code = protocol.NewBlockMsg
		if rng.Intn(3) > 0 {
			v = s.almostValidMomentum()
		} else {
			v = junkMomentum(rng, s)
		}
	default:
		code = protocol.TxMsg
		l := make([]*nom.AccountBlock, rng.Intn(5))
		for i := range l {
			if rng.Intn(3) > 0 {
				l[i] = s.almostValidBlock()
			} else {
				l[i] = junkBlock(rng)
			}
		}
		v = l
	}
	out.Count(fmt.Sprintf("noreply:code=%d", code))
	b, err := rlp.EncodeToBytes(v)
	if err != nil {
		out.Count("noreply:unencodable")
		return true
	}
	if !s.sendRaw(code, uint32(len(b)), b) {
		return false
	}
	alive := s.probe()
	if code == protocol.BlocksMsg {
		// per momentum: does it hash to the hash it states (height 1: is it the genesis hash)
		own := Lst()
		forged := false
		for _, d := range v.([]*nom.DetailedMomentum) {
			ok := d.Momentum.ComputeHash() == d.Momentum.Hash
			if d.Momentum.Height == 1 {
				ok = d.Momentum.Hash == s.hashAt[1]
			}
			own = append(own, ok)
			forged = forged || !ok
		}
		in := Tup(U64(s.H), U64(uint64(len(b))), Con("RBlocks", own))
		tag := map[bool]string{false: "blocks-delivered", true: "blocks-forged-hash"}[forged]
		if alive {
			out.Case("handle", in, Con("ONoReply"), tag)
		} else if s.ended != nil && s.ended.panicked == nil {
			out.Case("handle", in, Con("OErr", I64(errClassOf(s.ended.err))), tag)
		}
		return alive
	}
	if alive {
		out.Case("handle", Tup(U64(s.H), U64(uint64(len(b))), Con("RNoReply", U64(code))), Con("ONoReply"), "noreply")
	}
	return alive
}

func runHandlerChild(rng *rand.Rand, n int, out *Out, _ []string) {
	nd := NewNode()
	// no nd.Stop(): sync goroutines started on behalf of the peer (downloader) may still run; stopping the chain
	// under them is a shutdown artefact of the harness, not peer-induced. The child exits right after its last session.
	defer func() {
		if p := recover(); p != nil {
			panic(p)
		}
		out.Close()
		nd.T.Cleanup()
		fmt.Printf("suite=handler-child cases=%d oracle_fails=%d\n", out.Cases, out.Fails)
		os.Exit(0)
	}()
	// chain: long enough to exceed MaxHashFetch in 2 of 3 children
	target := 20 + rng.Intn(40)
	if rng.Intn(3) > 0 {
		target = downloader.MaxHashFetch + 10 + rng.Intn(150)
	}
	users := []types.Address{g.User1.Address, g.User2.Address, g.User3.Address}
	for nd.FrontierHeight() < uint64(target) {
		if rng.Intn(4) == 0 {
			u := []int{0, 1, 2}[rng.Intn(3)]
			nd.Z.InsertSendBlock(&nom.AccountBlock{Address: users[u], ToAddress: users[rng.Intn(3)], TokenStandard: types.ZnnTokenStandard, Amount: big.NewInt(int64(1 + rng.Intn(100)))}, nil, mock.SkipVmChanges)
		}
		nd.Momentum()
	}
	// in one child of three: momentums filled with 100 account blocks of MaxDataLength bytes (1.6 MB each as RLP)
	heavy := 0
	if rng.Intn(3) == 0 {
		heavy = 7 + rng.Intn(6)
		for m := 0; m < heavy; m++ {
			cnt := 0
			for _, u := range g.AllKeyPairs {
				for k := 0; k < 13 && cnt < 100; k++ {
					b := &nom.AccountBlock{BlockType: nom.BlockTypeUserSend, Address: u.Address, ToAddress: users[rng.Intn(3)], TokenStandard: types.ZnnTokenStandard,
						Amount: big.NewInt(0), Data: make([]byte, constants.MaxDataLength)}
					tx, err := nd.Sv.GenerateFromTemplate(b, u.Signer)
					if err != nil || nd.Insert(tx) != nil {
						break
					}
					cnt++
				}
			}
			nd.Momentum()
		}
		out.Count("chain-height-class:heavy-tail")
	}
	ms := nd.Ch.GetFrontierMomentumStore()
	H := ms.Identifier().Height
	hashAt := make([]types.Hash, H+1)
	for h := uint64(1); h <= H; h++ {
		m, _ := ms.GetMomentumByHeight(h)
		hashAt[h] = m.Hash
	}
	out.Count(fmt.Sprintf("chain-height-class:%s", map[bool]string{true: ">MaxHashFetch", false: "short"}[H > uint64(downloader.MaxHashFetch)]))
	modes := []string{"ok", "ok", "ok", "ok", "ok", "ok", "ok", "wrong-genesis", "wrong-network", "wrong-version", "not-status-first", "garbage-status", "oversized-status"}
	for i := 0; i < n; i++ {
		mode := modes[rng.Intn(len(modes))]
		out.Emit(M{"k": "progress", "session": fmt.Sprintf("%d:%s", i, mode)})
		out.W.Flush()
		s := newSession(nd, out, rng, hashAt)
		s.heavy = heavy
		out.Count("session:" + mode)
		if s.handshake(mode) {
			for r := 0; r < 25; r++ {
				if !s.request() {
					break
				}
				out.W.Flush()
			}
		}
		s.close()
		out.W.Flush()
		// the chain did not change under the peer's messages
		out.Oracle(nd.FrontierHeight() == H, "junk-from-peer-does-not-change-chain", Tup(U64(nd.FrontierHeight()), U64(H)))
	}
}
