package main

// syncpeer: peer B plays COMPLETE synchronisation sessions with the node (same world as suite peers: a real
// ProtocolManager with downloader and fetcher on the chain bridge of a bare node that sits on a prefix of A's chain; honest
// peer A, optional idle honest peer C, all of them p2p.Peers over MsgPipes; the whole thing in a CHILD process, where a
// panic on one of the node's goroutines - findAncestor / fetchHashes / fetchBlocks / process have no recover - ends the
// process and is reported by the parent with the last input).
//
// B is honest up to a chosen step and hostile from there. Honest = the reply of a real ProtocolManager on A's chain.
//   status    the total difficulty B announces: above A / far above / 2^63 / 2^64-1 / between node and A / the node's own /
//             below / 0 (B is the peer the node synchronises with, or only one of the peers that are asked for blocks)
//   ancestor  the reply to the head batch of findAncestor: hashes of another chain, more than MaxHashFetch, none, one,
//             reversed, shuffled, shifted, silence
//   search    the replies to the binary search: none, two, an unknown hash, a known hash of another height, always
//             unknown (drives the ancestor to 0), silence
//   hashes    the reply to the hash requests above the ancestor: hashes of SELF-MADE momentums - each hashes to the hash
//             it states, they link to each other and the first links to A's chain - whose HEIGHTS are below the ancestor,
//             the ancestor, 0, 1, 2, contiguous, with gaps, repeated, descending, above the announced difficulty, at the
//             edge of the download window, 2^63-1, 2^63, 2^63+1, 2^63+offset, 2^64-1, or genuine hashes of A's chain from
//             below the ancestor; optionally behind some genuine hashes
//   blocks    the replies to the block requests: as asked, duplicated, reordered, split over several messages, with
//             unrequested momentums, only unrequested momentums, an unrequested delivery first, empty, silence
// After its hostile step (or at the end of an honest session) B leaves, unless the node has dropped it before.
// Oracles: the process survives (parent), A and C are never dropped, with B gone the node synchronises to A's chain,
// A and C are still served, a momentum outside the download window / a malformed ancestor reply costs B its session.

import (
	"fmt"
	"math/rand"
	"os"
	"runtime"
	"strconv"
	"sync"
	"sync/atomic"
	"time"

	"github.com/ethereum/go-ethereum/rlp"
	"github.com/inconshreveable/log15"

	g "github.com/zenon-network/go-zenon/chain/genesis/mock"
	"github.com/zenon-network/go-zenon/chain/nom"
	"github.com/zenon-network/go-zenon/common"
	"github.com/zenon-network/go-zenon/common/types"
	"github.com/zenon-network/go-zenon/protocol"
	"github.com/zenon-network/go-zenon/protocol/downloader"
	. "zharness/hz"
)

func runSyncParent(rng *rand.Rand, n int, out *Out, _ []string) {
	// most sessions take a fraction of a second; those in which the node has to wait for its own timers (5 s hash request,
	// 9 s block request, 4 s synchronisation cycle) take 10-15 s of waiting: many children, few sessions each
	par := 36
	chunk := (n + par - 1) / par
	if chunk > 20 {
		chunk = 20
	}
	if chunk < 1 {
		chunk = 1
	}
	offset := rng.Intn(1 << 16)
	runChildrenArgs(rng, n, out, "syncpeer-child", chunk, par, 1500*time.Second, func(first, k int) []string {
		// (short runs: no hash lists of fewer self-made momentums than there are peers - see planFor)
		return []string{fmt.Sprint(offset + first), fmt.Sprint(n >= 100)}
	})
}

type syncPlan struct {
	Step    string // where B turns hostile
	TD      string // what B announces
	Variant string // of the hostile step ancestor / search
	Then    string // after a hostile ancestor / search step that the node survives: "honest" or "hashes"
	Heights string // heights of the self-made momentums
	Genuine int    // genuine hashes listed before the self-made ones
	L       int    // number of self-made momentums
	Deliver string // how B answers block requests
	Link    string // what the self-made momentums name as their previous momentum
	Returns int    // how often B, dropped by the node, comes back under a new identity and plays the same session again
}

func (p syncPlan) term() []interface{} {
	return []interface{}{"B-hostile-from", p.Step, "B-td", p.TD, "variant", p.Variant, "then", p.Then, "heights", p.Heights,
		"genuine-first", I64(int64(p.Genuine)), "self-made", I64(int64(p.L)), "linked-to", p.Link, "delivery", p.Deliver, "B-returns-after-a-drop", I64(int64(p.Returns))}
}

// the schedule: consecutive scenario numbers walk through the steps and, for the hashes step, through the height classes,
// so that a run of a dozen scenarios covers every step and a spread of heights whatever the seed
var syncSteps = []string{"hashes", "blocks", "on-top", "ancestor", "hashes", "search", "on-top", "status", "hashes", "none", "hashes", "ancestor"}
var heightClasses = []string{"below-ancestor", "contiguous", "zero", "above-td", "max", "gaps", "genuine-below", "window-edge",
	"2^63+offset", "repeated", "ancestor", "2^63", "two", "descending", "mixed", "2^63-1", "one", "2^63+1", "after-genuine"}
var tdClasses = []string{"above-A", "far-above", "2^63", "max", "between", "node", "below", "zero"}
var ancestorVariants = []string{"other-chain", "too-many", "empty", "one", "reversed", "shuffled", "shifted", "silence"}
var searchVariants = []string{"none", "two", "unknown", "wrong-height", "always-unknown", "silence"}

func pickDelivery(rng *rand.Rand) string {
	switch k := rng.Intn(20); {
	case k < 8:
		return "as-asked"
	case k < 10:
		return "duplicated"
	case k < 12:
		return "reordered"
	case k < 14:
		return "split"
	case k < 16:
		return "plus-unrequested"
	case k < 17:
		return "unrequested-first"
	case k < 18:
		return "others-only"
	case k < 19:
		return "empty"
	}
	return "silence"
}

// shortLists: hash lists of 1, 2, 4 self-made momentums as well. With fewer hashes than peers B may not be among the peers
// that are asked first; every honest peer that is asked for a momentum only B has costs the node its 9 s block request
// timeout, one after the other (a session of 20-30 s, all of it waiting): long runs only.
func planFor(i int, rng *rand.Rand, shortLists bool) syncPlan {
	p := syncPlan{Step: syncSteps[i%len(syncSteps)], Then: "honest", Variant: "-"}
	// the hashes sessions walk through the height classes: 4 per round of the schedule
	walk := 0
	for j := 0; j < i%len(syncSteps); j++ {
		if syncSteps[j] == "hashes" {
			walk++
		}
	}
	p.Heights = heightClasses[((i/len(syncSteps))*4+walk)%len(heightClasses)]
	p.Deliver = pickDelivery(rng)
	p.L = []int{1, 2, 4, 8, 16, 24}[rng.Intn(6)]
	if !shortLists && p.L < 8 {
		p.L = 8
	}
	if rng.Intn(3) == 0 {
		p.Genuine = []int{1, 1, 1, 2, 3, 4, 5, 6}[rng.Intn(8)]
	}
	if p.Heights == "after-genuine" { // on top of the genuine momentums listed before them (often just the node's own head)
		p.Genuine = []int{1, 1, 1, 2, 3, 6}[rng.Intn(6)]
	}
	p.Link = []string{"each-other", "each-other", "each-other", "by-height", "random", "random"}[rng.Intn(6)]
	// a B that the node drops comes back (a new identity costs a peer nothing) and plays its session again: what the
	// fetchers of the downloader do to each other while a synchronisation is being aborted is a matter of microseconds
	p.Returns = []int{8, 16, 32, 64, 96}[rng.Intn(5)]
	if p.Step == "on-top" {
		// B's momentums in ONE import batch with momentums that honest peers deliver: B lists the node's own head (which
		// the downloader always asks for first; an honest peer delivers it, after a network delay) and puts its own
		// momentums on top - linked to it, or to the genuine momentum of the height below, or to nothing the node knows
		p.Step, p.Heights = "hashes", "after-genuine"
		p.Genuine = []int{1, 1, 2, 3}[rng.Intn(4)]
		p.Link = []string{"random", "each-other", "by-height"}[(i/len(syncSteps)+i%len(syncSteps)/4)%3]
		p.Deliver = []string{"as-asked", "as-asked", "reordered", "duplicated"}[rng.Intn(4)]
		if (i/len(syncSteps)+i%len(syncSteps)/4)%2 == 0 {
			// ... or B makes the node look for the common ancestor far below (the head batch of the ancestor search answered
			// with hashes of another chain: ancestor 0), lists ALL the momentums the node already has (Genuine < 0), which the
			// honest peers deliver, and puts its own on top
			p.Step, p.Variant, p.Then, p.Genuine = "ancestor", "other-chain", "hashes", -1
		}
	}
	// B is the peer the node synchronises with
	p.TD = []string{"above-A", "above-A", "above-A", "far-above", "2^63", "max"}[rng.Intn(6)]
	switch p.Step {
	case "status":
		p.TD = tdClasses[(i/len(syncSteps))%len(tdClasses)]
		if rng.Intn(2) == 0 {
			p.Then = "hashes"
		}
	case "ancestor":
		if p.Genuine >= 0 {
			p.Variant = ancestorVariants[rng.Intn(len(ancestorVariants))]
			if rng.Intn(2) == 0 {
				p.Then = "hashes"
			}
		}
	case "search":
		p.Variant = searchVariants[rng.Intn(len(searchVariants))]
		if rng.Intn(2) == 0 {
			p.Then = "hashes"
		}
	case "blocks":
		if rng.Intn(3) == 0 { // B is just one of the peers that are asked for blocks
			p.TD = []string{"between", "node", "below", "zero"}[rng.Intn(4)]
		}
		for p.Deliver == "as-asked" {
			p.Deliver = pickDelivery(rng)
		}
	case "none":
		p.Deliver = "as-asked"
	}
	if p.Variant == "silence" || p.Deliver == "silence" || p.Deliver == "empty" || p.Deliver == "others-only" {
		p.Returns = 0 // (each of these sessions is 5-9 s of the node's timers)
	}
	if p.Step != "hashes" && p.Then != "hashes" {
		p.Heights, p.L, p.Genuine, p.Link = "-", 0, 0, "-"
	} else if (p.Deliver == "empty" || p.Deliver == "silence" || p.Deliver == "others-only") && p.L < 8 {
		// hashes nobody delivers: enough of them for every peer to be asked at once (each peer that is asked costs the node
		// its 9 s block request timeout; one hash would make the round of the peers one after the other)
		p.L = 8
	}
	return p
}

type syncB struct {
	s           *scenario
	r           *remote // B's connection (B returns under new identities: one syncB per connection)
	plan        syncPlan
	rng         *rand.Rand
	td          uint64
	made        map[types.Hash]*nom.DetailedMomentum
	deliveredSM map[types.Hash]bool
	order       []types.Hash // self-made, in the order listed
	height      map[types.Hash]uint64

	mu        sync.Mutex
	stage     string // "", ancestor, search, hashes
	nextFrom  uint64
	winFrom   uint64 // number of the first hashes request of the running session = offset of the download window
	sessions  int
	listed    bool  // the hostile hash list was sent
	hostile   int32 // B has done its hostile act
	hostileAt int64 // when (unix nano)
	outOfWin  int32 // B delivered, on request, a momentum whose height is outside the download window
	malformed int32 // B answered the ancestor search with something findAncestor must refuse
	left      int32
	lastAct   int64 // unix nano
	pendingSM int32 // self-made momentums listed and not yet delivered by B
	curG      int   // genuine hashes at the head of the list that is out
}

func (b *syncB) setHostile() {
	if atomic.CompareAndSwapInt32(&b.hostile, 0, 1) {
		atomic.StoreInt64(&b.hostileAt, time.Now().UnixNano())
	}
}
func (b *syncB) touch() { atomic.StoreInt64(&b.lastAct, time.Now().UnixNano()) }

// a momentum of B's own making: it hashes to the hash it states
func (b *syncB) mk(height uint64, prev types.Hash) *nom.DetailedMomentum {
	m := &nom.Momentum{Version: 1, ChainIdentifier: 100, Height: height, PreviousHash: prev,
		TimestampUnix: uint64(1_000_000_000 + b.rng.Intn(1_000_000_000)), Data: []byte{}, Content: nom.MomentumContent{}}
	m.PublicKey = g.Pillar1.Public
	m.Signature = make([]byte, 64)
	b.rng.Read(m.Signature)
	m.Hash = m.ComputeHash()
	return &nom.DetailedMomentum{Momentum: m, AccountBlocks: []*nom.AccountBlock{}}
}

func (b *syncB) heightsOf(class string, from uint64, n int) []uint64 {
	rng := b.rng
	hs := make([]uint64, n)
	below := func() uint64 {
		if from <= 2 {
			return 0
		}
		return 2 + uint64(rng.Int63n(int64(from-2)))
	}
	for i := range hs {
		u := uint64(i)
		switch class {
		case "below-ancestor":
			hs[i] = below()
		case "ancestor":
			hs[i] = from - 1
		case "contiguous":
			hs[i] = from + u
		case "zero":
			hs[i] = 0
		case "one":
			hs[i] = 1
		case "two":
			hs[i] = 2
		case "above-td":
			hs[i] = b.td + 1 + u
		case "max":
			hs[i] = ^uint64(0) - u
		case "2^63-1":
			hs[i] = 1<<63 - 1 - u
		case "2^63":
			hs[i] = 1<<63 + u
		case "2^63+1":
			hs[i] = 1<<63 + 1 + u
		case "2^63+offset":
			hs[i] = 1<<63 + from + u
		case "window-edge":
			hs[i] = from + 4094 + u
		case "gaps":
			hs[i] = from + 1 + 3*u + uint64(rng.Intn(3))
		case "repeated":
			hs[i] = from + 1
		case "descending":
			hs[i] = from + uint64(n-1-i)
		case "after-genuine":
			hs[i] = from + uint64(b.curG) + u
		default: // mixed
			hs[i] = []uint64{below(), from - 1, from, from + u, 0, 2, b.td + 1, 1<<63 - 1, 1 << 63, 1<<63 + from, ^uint64(0), from + 4095, from + 4096}[rng.Intn(13)]
		}
	}
	return hs
}

// the hostile hash list for a request of hashes from number `from` on
func (b *syncB) hostileHashes(from uint64) []types.Hash {
	s := b.s
	topA := uint64(len(s.w.hashA) - 1)
	var list []types.Hash
	b.curG = b.plan.Genuine
	if b.curG < 0 { // all that the node has from there on
		b.curG = 1
		if from <= s.la {
			b.curG = int(s.la - from + 1)
		}
	}
	for i := 0; i < b.curG && from+uint64(i) <= topA; i++ {
		list = append(list, s.w.hashA[from+uint64(i)])
	}
	if b.plan.Heights == "genuine-below" {
		// genuine momentums of A's chain from below the ancestor (every honest peer has and delivers them)
		for i := 0; i < b.plan.L; i++ {
			h := uint64(1)
			if from > 1 {
				h = 1 + uint64(b.rng.Int63n(int64(from-1)))
			}
			dup := false
			for _, x := range list {
				dup = dup || x == s.w.hashA[h]
			}
			if !dup {
				list = append(list, s.w.hashA[h])
			}
		}
		return list
	}
	prev := types.Hash{}
	if from >= 2 && from-1 <= topA {
		prev = s.w.hashA[from-1]
	}
	if n := len(list); n > 0 {
		prev = list[n-1]
	}
	for _, h := range b.heightsOf(b.plan.Heights, from, b.plan.L) {
		switch b.plan.Link {
		case "by-height": // the genuine momentum below its height, where there is one
			if h >= 2 && h-1 <= topA {
				prev = s.w.hashA[h-1]
			}
		case "random":
			b.rng.Read(prev[:])
		}
		dm := b.mk(h, prev)
		hash := dm.Momentum.Hash
		if _, seen := b.made[hash]; seen {
			continue
		}
		b.made[hash] = dm
		b.order = append(b.order, hash)
		list = append(list, hash)
		prev = hash
	}
	return list
}

func (b *syncB) honest(m inMsg) {
	code, payload, ok := b.s.w.honestReply(b.s.w.backA, m.code, m.payload)
	if !ok {
		b.s.out.Oracle(false, "honest-backend-answers", Tup("B", U64(m.code)))
		return
	}
	b.r.sendRaw(baseLen+code, payload, 2*time.Second)
}

func (b *syncB) sendHashes(hs []types.Hash) {
	b.r.send(protocol.BlockHashesMsg, hs, 2*time.Second)
}

// is B hostile at this step?
func (b *syncB) at(step string) bool { return b.plan.Step == step }

func (b *syncB) serve() {
	s := b.s
	B := b.r
	topA := uint64(len(s.w.hashA) - 1)
	searchN := 0
	// B's replies to the hash fetcher and to the block fetcher of the node are made to arrive TOGETHER where it can: when
	// its hash list is out, B holds the reply to the next hash request ("no more hashes") until it is asked for one of its own
	// momentums (1.5 s at most: the node waits 5 s for hashes), and sends that delivery and the held reply back to back, in
	// either order - the two fetchers of the downloader talk to each other over channels, and what one of them does while
	// the other is ending is part of what a peer controls
	var noMoreDue time.Time // a "no more hashes" is held back until then
	var noMoreFor uint64
	sendNoMore := func() {
		s.note(fmt.Sprintf("hashes-from-%d:no-more", noMoreFor))
		noMoreDue = time.Time{}
		b.sendHashes([]types.Hash{})
	}
	for {
		var m inMsg
		var ok bool
		if noMoreDue.IsZero() {
			if m, ok = <-B.in; !ok {
				return
			}
		} else {
			wait := time.Until(noMoreDue)
			if wait < 0 {
				wait = 0
			}
			select {
			case m, ok = <-B.in:
				if !ok {
					return
				}
			case <-time.After(wait):
				sendNoMore()
				continue
			}
		}
		b.touch()
		switch m.code {
		case protocol.GetBlockHashesFromNumberMsg:
			var r getBlockHashesFromNumberData
			if rlp.DecodeBytes(m.payload, &r) != nil {
				continue
			}
			b.mu.Lock()
			stage := "hashes"
			switch {
			case r.Amount == 1:
				stage = "search"
			case b.stage == "" || (b.stage == "hashes" && r.Number != b.nextFrom):
				stage = "ancestor"
				b.sessions++
				b.listed = false
				b.winFrom = 0
			}
			if stage == "hashes" && b.winFrom == 0 {
				b.winFrom = r.Number
			}
			b.stage = stage
			b.mu.Unlock()
			switch stage {
			case "ancestor":
				if !b.at("ancestor") {
					s.note(fmt.Sprintf("ancestor-from-%d:honest", r.Number))
					b.honest(m)
					continue
				}
				s.note(fmt.Sprintf("ancestor-from-%d:%s", r.Number, b.plan.Variant))
				b.setHostile()
				var hs []types.Hash
				rlpHonest := func() []types.Hash {
					_, payload, ok := s.w.honestReply(s.w.backA, m.code, m.payload)
					var l []types.Hash
					if ok {
						rlp.DecodeBytes(payload, &l)
					}
					return l
				}
				switch b.plan.Variant {
				case "other-chain":
					hs = randHashes(b.rng, downloader.MaxHashFetch)
				case "too-many":
					hs = append(rlpHonest(), randHashes(b.rng, downloader.MaxHashFetch+1+b.rng.Intn(200))...)
				case "empty":
					hs = []types.Hash{}
					atomic.StoreInt32(&b.malformed, 1)
				case "one":
					if hs = rlpHonest(); len(hs) > 1 {
						hs = hs[:1]
					}
				case "reversed":
					hs = rlpHonest()
					for i := 0; i < len(hs)/2; i++ {
						hs[i], hs[len(hs)-1-i] = hs[len(hs)-1-i], hs[i]
					}
				case "shuffled":
					hs = rlpHonest()
					b.rng.Shuffle(len(hs), func(i, j int) { hs[i], hs[j] = hs[j], hs[i] })
				case "shifted":
					if hs = rlpHonest(); len(hs) > 3 {
						hs = hs[3:]
					}
				case "silence":
					atomic.StoreInt32(&b.malformed, 1)
					continue
				}
				b.sendHashes(hs)
			case "search":
				searchN++
				if !b.at("search") {
					b.honest(m)
					continue
				}
				v := b.plan.Variant
				s.note(fmt.Sprintf("search-%d:%s", r.Number, v))
				b.setHostile()
				switch v {
				case "none":
					atomic.StoreInt32(&b.malformed, 1)
					b.sendHashes([]types.Hash{})
				case "two":
					atomic.StoreInt32(&b.malformed, 1)
					b.sendHashes(randHashes(b.rng, 2))
				case "unknown", "always-unknown":
					if v == "unknown" && searchN > 1 {
						b.honest(m)
						continue
					}
					b.sendHashes(randHashes(b.rng, 1))
				case "wrong-height":
					h := r.Number + 1
					if h > s.la || h < 1 {
						h = 1
					}
					if h != r.Number {
						atomic.StoreInt32(&b.malformed, 1)
					}
					b.sendHashes([]types.Hash{s.w.hashA[h]})
				case "silence":
					atomic.StoreInt32(&b.malformed, 1)
				}
			default: // hashes above the ancestor
				hostileHere := b.at("hashes") || (b.plan.Then == "hashes" && (b.at("status") || b.at("ancestor") || b.at("search")))
				b.mu.Lock()
				listed := b.listed
				b.mu.Unlock()
				if !hostileHere {
					// (an honest node answers with what it has: nothing above its own top)
					_, payload, ok := s.w.honestReply(s.w.backA, m.code, m.payload)
					var l []types.Hash
					if ok {
						rlp.DecodeBytes(payload, &l)
					}
					s.note(fmt.Sprintf("hashes-from-%d:honest-%d", r.Number, len(l)))
					b.mu.Lock()
					b.nextFrom = r.Number + uint64(len(l))
					b.mu.Unlock()
					B.sendRaw(baseLen+protocol.BlockHashesMsg, payload, 2*time.Second)
					continue
				}
				if listed { // the hash list is out: no more hashes (held back, see above)
					if !noMoreDue.IsZero() {
						sendNoMore()
					}
					noMoreDue, noMoreFor = time.Now().Add(1500*time.Millisecond), r.Number
					continue
				}
				list := b.hostileHashes(r.Number)
				hts := []uint64{}
				for _, h := range list {
					if dm, ok := b.made[h]; ok {
						hts = append(hts, dm.Momentum.Height)
					}
				}
				s.note(fmt.Sprintf("hashes-from-%d:%d-genuine+self-made-heights-%v", r.Number, len(list)-len(hts), hts))
				s.progressFromPeer(Tup(append(append([]interface{}{}, s.desc...), "B-lists-after-request-from", U64(r.Number), "self-made-heights", fmt.Sprint(hts), "B-did", fmt.Sprint(s.acts()))...))
				b.mu.Lock()
				b.listed = true
				b.nextFrom = r.Number + uint64(len(list))
				b.mu.Unlock()
				atomic.AddInt32(&b.pendingSM, int32(len(hts)))
				b.setHostile()
				b.sendHashes(list)
			}
		case protocol.GetBlockHashesMsg:
			b.honest(m)
		case protocol.GetBlocksMsg:
			var asked []types.Hash
			rlp.DecodeBytes(m.payload, &asked)
			own := false
			for _, h := range asked {
				_, mine := b.made[h]
				own = own || mine
			}
			if own && !noMoreDue.IsZero() {
				if b.rng.Intn(2) == 0 {
					sendNoMore()
					b.deliver(asked, topA)
				} else {
					b.deliver(asked, topA)
					sendNoMore()
				}
				continue
			}
			b.deliver(asked, topA)
		}
	}
}

// the downloader is (or within d becomes) idle
func (s *scenario) idleSoon(d time.Duration) bool {
	for t0 := time.Now(); ; {
		if !s.pm.VerifSynchronising() {
			return true
		}
		if time.Since(t0) > d {
			return false
		}
		time.Sleep(5 * time.Millisecond)
	}
}

func (s *scenario) acts() []string {
	s.mu.Lock()
	defer s.mu.Unlock()
	a := append([]string{}, s.bActs...)
	if len(a) > 40 {
		a = append(a[:20], a[len(a)-20:]...)
	}
	return a
}

// B is asked for blocks
func (b *syncB) deliver(asked []types.Hash, topA uint64) {
	s := b.s
	B := b.r
	style := "as-asked"
	selfMade := false
	for _, h := range asked {
		_, ok := b.made[h]
		selfMade = selfMade || ok
	}
	if b.at("blocks") || selfMade || atomic.LoadInt32(&b.hostile) == 1 {
		style = b.plan.Deliver
	}
	var l []*nom.DetailedMomentum
	var hts []uint64
	offset := b.offsetGuess()
	for _, h := range asked {
		if dm, ok := b.made[h]; ok {
			l = append(l, dm)
			hts = append(hts, dm.Momentum.Height)
		} else if ht, ok := b.height[h]; ok && ht >= 1 {
			if ht == 1 {
				l = append(l, WireCopy(DetailedAt(s.w.a.Ch, 1)))
			} else {
				l = append(l, s.genuineBlocks(ht, 1)...)
			}
			hts = append(hts, ht)
		}
	}
	others := func(n int) []*nom.DetailedMomentum {
		var o []*nom.DetailedMomentum
		for i := 0; i < n; i++ {
			if len(b.order) > 0 && b.rng.Intn(2) == 0 {
				o = append(o, b.made[b.order[b.rng.Intn(len(b.order))]])
			} else if b.rng.Intn(2) == 0 {
				o = append(o, s.genuineBlocks(2+uint64(b.rng.Int63n(int64(topA-1))), 1)...)
			} else {
				o = append(o, b.mk([]uint64{0, 2, s.la, s.la + 1, topA + 1, 1 << 63, ^uint64(0)}[b.rng.Intn(7)], s.w.hashA[1+b.rng.Intn(int(topA))]))
			}
		}
		return o
	}
	note := fmt.Sprintf("asked-for-%d-blocks:%s:heights-%v", len(asked), style, hts)
	s.note(note)
	if style != "as-asked" || selfMade {
		b.setHostile()
	}
	s.progressFromPeer(Tup(append(append([]interface{}{}, s.desc...), "B-delivers", note, "B-did", fmt.Sprint(s.acts()))...))
	// first: the message the downloader files under its request (queue.Deliver looks at ONE message per request: whatever
	// comes afterwards meets no pending request)
	var first []*nom.DetailedMomentum
	d := 2 * time.Second
	switch style {
	case "as-asked":
		first = l
		B.send(protocol.BlocksMsg, l, d)
	case "duplicated":
		first = append(append([]*nom.DetailedMomentum{}, l...), l...)
		B.send(protocol.BlocksMsg, first, d)
	case "reordered":
		first = append([]*nom.DetailedMomentum{}, l...)
		b.rng.Shuffle(len(first), func(i, j int) { first[i], first[j] = first[j], first[i] })
		B.send(protocol.BlocksMsg, first, d)
	case "split":
		if len(l) < 2 {
			first = l
			B.send(protocol.BlocksMsg, l, d)
			B.send(protocol.BlocksMsg, l, d)
		} else {
			k := 1 + b.rng.Intn(len(l)-1)
			first = l[:k]
			B.send(protocol.BlocksMsg, l[:k], d)
			B.send(protocol.BlocksMsg, l[k:], d)
		}
	case "plus-unrequested":
		first = append(others(1+b.rng.Intn(3)), l...)
		if b.rng.Intn(2) == 0 {
			first = append(first, others(1+b.rng.Intn(3))...)
		}
		B.send(protocol.BlocksMsg, first, d)
	case "unrequested-first":
		B.send(protocol.BlocksMsg, others(1+b.rng.Intn(3)), d)
		B.send(protocol.BlocksMsg, l, d)
	case "others-only":
		B.send(protocol.BlocksMsg, others(1+b.rng.Intn(4)), d)
	case "empty":
		B.send(protocol.BlocksMsg, []*nom.DetailedMomentum{}, d)
	default: // silence
	}
	wasAsked := map[types.Hash]bool{}
	for _, h := range asked {
		wasAsked[h] = true
	}
	for _, dm := range first {
		h := dm.Momentum.Hash
		if !wasAsked[h] {
			continue
		}
		if _, own := b.made[h]; own && !b.deliveredSM[h] {
			b.deliveredSM[h] = true
			atomic.AddInt32(&b.pendingSM, -1)
		}
		// outside the download window (which moves up by what has been imported meanwhile: the upper side with a margin)
		if ht := dm.Momentum.Height; offset > 0 && (ht < offset || ht-offset >= 8192) {
			atomic.StoreInt32(&b.outOfWin, 1)
		}
	}
}

// the offset of the download window of the running synchronisation as far as B can tell: the number of the first hashes
// request after the ancestor search (0: unknown)
func (b *syncB) offsetGuess() uint64 {
	b.mu.Lock()
	defer b.mu.Unlock()
	return b.winFrom
}

func runSyncScenario(w *world, idx int, planNo int, shortLists bool) {
	rng, out := w.rng, w.out
	s := &scenario{w: w, rng: rng, out: out, done: make(chan struct{}), honestDelay: true}
	topA := uint64(len(w.hashA) - 1)
	plan := planFor(planNo, rng, shortLists)
	// the node: on a prefix of A's chain
	switch rng.Intn(6) {
	case 0:
		s.la = 1
	case 1:
		s.la = 2 + uint64(rng.Intn(2))
	default:
		s.la = 4 + uint64(rng.Int63n(int64(topA-6)))
	}
	s.l = OpenBare("")
	w.dirs = append(w.dirs, s.l.Dir)
	if os.Getenv("C15_TRACE") != "" {
		common.DownloaderLogger.SetHandler(log15.StreamHandler(os.Stderr, log15.LogfmtFormat()))
	}
	if s.la >= 2 {
		if _, err := s.l.Br.InsertChain(WireCopyAll(DetailedRange(w.a.Ch, 2, s.la))); err != nil {
			panic(fmt.Sprint("local chain not accepted: ", err))
		}
	}
	s.pm = protocol.NewProtocolManager(1, networkId, s.l.Br)
	s.pm.Start()

	heightOf := map[types.Hash]uint64{}
	for h := uint64(1); h <= topA; h++ {
		heightOf[w.hashA[h]] = h
	}
	b := &syncB{s: s, plan: plan, rng: rand.New(rand.NewSource(rng.Int63())), made: map[types.Hash]*nom.DetailedMomentum{}, deliveredSM: map[types.Hash]bool{}, height: heightOf}
	bHead := w.hashA[topA]
	if rng.Intn(2) == 0 {
		rng.Read(bHead[:])
	}
	switch plan.TD {
	case "above-A":
		b.td = topA + 1 + uint64(rng.Intn(50))
	case "far-above":
		b.td = topA + 1_000_000 + uint64(rng.Intn(1_000_000))
	case "2^63":
		b.td = 1<<63 - 1 + uint64(rng.Intn(3))
	case "max":
		b.td = ^uint64(0) - uint64(rng.Intn(2))
	case "between":
		b.td = s.la + 1
	case "node":
		b.td = s.la
	case "below":
		b.td = uint64(rng.Int63n(int64(s.la)))
	default:
		b.td = 0
	}
	s.bTD, s.bMode = b.td, "sync-session"
	syncPeer := b.td > topA
	withC := rng.Intn(3) == 0
	aLate := syncPeer && plan.Step != "none" && rng.Intn(3) > 0
	s.desc = append([]interface{}{"sync-session", I64(int64(idx)), "plan", I64(int64(planNo)), "node-height", U64(s.la), "A-height", U64(topA), "B-announces", U64(b.td), "C", withC, "A-joins-after-B", aLate}, plan.term()...)
	progress(out, Tup(s.desc...))
	w.lag.reset()
	t0 := time.Now()

	if s.B = s.connect("B", b.td, bHead); s.B == nil {
		return
	}
	b.r = s.B
	b.touch()
	go b.serve()
	allB := []*syncB{b}
	stop := make(chan struct{})
	var served sync.WaitGroup
	if withC {
		if s.C = s.connect("C", s.la, w.hashA[s.la]); s.C == nil {
			return
		}
		served.Add(1)
		go func() { s.serveHonest(s.C, w.backA, false, stop); served.Done() }()
	}
	// A is there from the start, or joins when B's sessions are over (then B has the node to itself and to the other
	// honest peers, which serve A's chain but announce no more than the node has: D, C)
	joinA := func() bool {
		if s.A = s.connect("A", topA, w.hashA[topA]); s.A == nil {
			return false
		}
		served.Add(1)
		go func() { s.serveHonest(s.A, w.backA, false, stop); served.Done() }()
		return true
	}
	if !aLate && !joinA() {
		return
	}
	// (the syncer is told of a new peer BEFORE that peer's status handshake, so it looks at the peers it had before; a
	// peer that connects next - and may leave at once - makes it look again, now with the new peer among them. Without
	// it the 4 s cycle of the syncer does)
	poke := func() {
		time.Sleep(10 * time.Millisecond)
		if r := s.connect("passer-by", 1, w.hashA[1]); r != nil {
			time.Sleep(10 * time.Millisecond)
			r.app.Close()
		}
	}
	var lates []*remote
	late := func(name string) {
		// a late-comer makes the syncer look at its peers right away (honest, at the genesis, serves A's chain)
		if r := s.connect(name, 1, w.hashA[1]); r != nil {
			lates = append(lates, r)
			served.Add(1)
			go func() { s.serveHonest(r, w.backA, false, stop); served.Done() }()
		}
	}
	time.Sleep(5 * time.Millisecond)
	late("D")

	// B leaves after its hostile act (or after an honest session), unless the node drops it first
	linger := time.Duration(200+rng.Intn(1300)) * time.Millisecond
	want := types.HashHeight{Height: topA, Hash: w.hashA[topA]}
	synced, aDropped, bGone := false, false, false
	var bGoneAt time.Time
	bFate := "left"
	limitD := 150 * time.Second
	if v, err := strconv.Atoi(os.Getenv("C15_SYNC_LIMIT")); err == nil && v > 0 {
		limitD = time.Duration(v) * time.Second
	}
	limit := time.After(limitD)
	nLate := 0
wait:
	for {
		if s.frontier() == want {
			synced = true
			break
		}
		select {
		case <-limit:
			break wait
		case <-time.After(20 * time.Millisecond):
		}
		if s.A != nil && s.A.isClosed() {
			aDropped = true
			break
		}
		if s.A == nil && bGone && !s.pm.VerifSynchronising() {
			if !joinA() {
				return
			}
			poke()
			continue
		}
		if !bGone {
			idle := time.Since(time.Unix(0, atomic.LoadInt64(&b.lastAct)))
			since := time.Duration(0) // since B turned hostile
			if atomic.LoadInt32(&b.hostile) == 1 {
				since = time.Since(time.Unix(0, atomic.LoadInt64(&b.hostileAt)))
			}
			// (where the node has to drop B, B waits for it: the hash request timeout is 5 s)
			expectDrop := atomic.LoadInt32(&b.outOfWin)+atomic.LoadInt32(&b.malformed) > 0
			switch {
			case s.B.isClosed() && len(allB) <= plan.Returns && time.Since(t0) < 8*time.Second && s.idleSoon(300*time.Millisecond):
				// dropped, and the synchronisation with it is over (a B that the message handler drops in the middle of a
				// synchronisation leaves hashes behind that nobody can deliver: every new peer is asked for them and costs
				// the node its 9 s block request timeout): B comes back under a new identity and plays the same session again
				// (for 8 s: a session in which an honest peer is asked for one of B's momentums takes 9 s, not 50 ms; once an honest
				// peer has delivered something its reputation puts it first in line and it is asked for the head of the list)
				time.Sleep(time.Duration(rng.Intn(40)) * time.Millisecond)
				nb := &syncB{s: s, plan: plan, rng: rand.New(rand.NewSource(rng.Int63())), td: b.td, made: map[types.Hash]*nom.DetailedMomentum{}, deliveredSM: map[types.Hash]bool{}, height: heightOf}
				s.note(fmt.Sprintf("dropped;returns-as-B%d", len(allB)+1))
				if nb.r = s.connect(fmt.Sprintf("B%d", len(allB)+1), b.td, bHead); nb.r == nil {
					bGone, bFate = true, "dropped"
					break
				}
				nb.touch()
				go nb.serve()
				allB = append(allB, nb)
				s.B, b = nb.r, nb
				poke()
			case s.B.isClosed():
				bGone, bFate = true, "dropped"
			// (and while self-made momentums that B has listed are still to be delivered B stays for the node's block request
			// timeout: a request for them that went to another peer comes back to B after 9 s; with B gone the node would ask
			// one honest peer after the other, 9 s each)
			case since > linger && (!expectDrop || since > 9*time.Second) && (atomic.LoadInt32(&b.pendingSM) <= 0 || since > 10500*time.Millisecond),
				idle > 12*time.Second: // (hash request 5 s, block request 9 s: nothing is pending with B any more)
				atomic.StoreInt32(&b.left, 1)
				s.note("leaves")
				s.B.app.Close()
				bGone = true
			}
			if bGone {
				bGoneAt = time.Now()
			}
		} else if nLate < 2 && time.Since(bGoneAt) > time.Duration(60+400*nLate)*time.Millisecond && !s.pm.VerifSynchronising() {
			// (B is gone and no synchronisation is running: a new peer makes the syncer look at its peers at once. While a
			// synchronisation that B left behind is still running a new peer would only be asked for B's hashes)
			nLate++
			bGoneAt = time.Now()
			late(fmt.Sprintf("E%d", nLate))
		}
	}
	close(s.done)
	w.omu.Lock()
	s.over = true
	w.omu.Unlock()
	took := time.Since(t0)
	if s.A == nil && !joinA() { // (the node has synchronised through B)
		return
	}
	if !bGone && s.B.isClosed() {
		bFate = "dropped"
	}
	acts := s.acts()
	detail := Tup(append(append([]interface{}{}, s.desc...), "B-did", fmt.Sprint(acts), "B-fate", bFate, "A-closed-with", fmt.Sprint(s.A.reason), "node-at", U64(s.frontier().Height),
		"took", took.String(), "worst-scheduling-lag", w.lag.worst().String())...)
	fmt.Fprintf(os.Stderr, "c15 syncpeer scenario: %v\n", detail)
	loaded := w.lag.worst() > 1500*time.Millisecond
	out.Count("syncpeer:B-hostile-from=" + plan.Step)
	out.Count("syncpeer:B-td=" + plan.TD)
	out.Count(fmt.Sprintf("syncpeer:B-is-the-sync-peer=%v", syncPeer))
	if plan.Variant != "-" {
		out.Count("syncpeer:" + plan.Step + "-variant=" + plan.Variant)
	}
	if plan.Heights != "-" {
		out.Count("syncpeer:self-made-heights=" + plan.Heights)
	}
	out.Count("syncpeer:delivery=" + plan.Deliver)
	out.Count("syncpeer:B-fate=" + bFate)
	out.Count(fmt.Sprintf("syncpeer:B-delivered-outside-the-window=%v", atomic.LoadInt32(&b.outOfWin) == 1))
	out.Count(fmt.Sprintf("syncpeer:B-sessions=%d", len(allB)))
	out.Count("syncpeer:self-made-linked-to=" + plan.Link)
	for _, a := range acts {
		out.Count("syncpeer:B-act:" + actClass(a))
	}
	if aDropped && loaded {
		out.Count("syncpeer:inconclusive-A-dropped-under-load")
	} else {
		out.Oracle(!aDropped, "honest-peer-not-dropped-for-others-messages", detail)
	}
	if !aDropped {
		if !synced { // what the node's goroutines are doing (stderr: the driver's log)
			buf := make([]byte, 16<<20)
			fmt.Fprintf(os.Stderr, "c15 syncpeer: node not on A's chain after %v; goroutines:\n%s\n", took, buf[:runtime.Stack(buf, true)])
		}
		if !synced && loaded {
			out.Count("syncpeer:inconclusive-not-synced-under-load")
		} else {
			out.Oracle(synced, "node-syncs-to-honest-peers-chain", detail)
		}
	}
	// a delivery outside the download window / a malformed answer of the ancestor search ends B's session
	if (atomic.LoadInt32(&b.outOfWin) == 1 || atomic.LoadInt32(&b.malformed) == 1) && syncPeer {
		if bFate != "dropped" && loaded {
			out.Count("syncpeer:inconclusive-B-fate-under-load")
		} else {
			out.Oracle(bFate == "dropped", "offending-peer-is-dropped", detail)
		}
	}
	close(stop)
	served.Wait()
	if !aDropped {
		ok, why := s.served(s.A)
		out.Oracle(ok, "node-keeps-serving-the-others", Tup("A", why, detail))
	}
	for i, r := range lates { // the other honest peers (they joined late and serve A's chain)
		if r.isClosed() {
			out.Oracle(false, "honest-peer-not-dropped-for-others-messages", Tup(fmt.Sprintf("late-comer-%d", i), fmt.Sprint(r.reason), detail))
		}
	}
	if s.C != nil {
		out.Oracle(!s.C.isClosed(), "honest-peer-not-dropped-for-others-messages", Tup("C", fmt.Sprint(s.C.reason), detail))
		if !s.C.isClosed() {
			ok, why := s.served(s.C)
			out.Oracle(ok, "node-keeps-serving-the-others", Tup("C", why, detail))
		}
	}
	for _, x := range allB {
		lates = append(lates, x.r)
	}
	for _, r := range append([]*remote{s.A, s.B, s.C}, lates...) {
		if r != nil {
			r.app.Close()
		}
	}
	stopped := make(chan struct{})
	go func() { s.pm.Stop(); close(stopped) }()
	select {
	case <-stopped:
	case <-time.After(20 * time.Second):
		out.Count("syncpeer:pm-stop-timeout")
	}
}

func runSyncChild(rng *rand.Rand, n int, out *Out, args []string) {
	base := 0
	if len(args) > 0 {
		base, _ = strconv.Atoi(args[0])
	}
	shortLists := len(args) > 1 && args[1] == "true"
	fmt.Fprintf(os.Stderr, "c15 syncpeer child: %v\n", os.Args[1:])
	a := NewNode()
	FreezeClock()
	w := &world{rng: rng, out: out, a: a, lag: newLagMeter()}
	defer func() {
		if p := recover(); p != nil {
			panic(p)
		}
		out.Close()
		for _, d := range w.dirs {
			os.RemoveAll(d)
		}
		a.T.Cleanup()
		fmt.Printf("suite=syncpeer-child cases=%d oracle_fails=%d\n", out.Cases, out.Fails)
		os.Exit(0)
	}()
	growChain(a, rng, 25+rng.Intn(40))
	w.hashA = chainHashes(a.Ch)
	w.backA = newSession(a, out, rng, w.hashA)
	if !w.backA.handshake("ok") {
		panic("backend A")
	}
	for i := 0; i < n; i++ {
		runSyncScenario(w, i, base+i, shortLists)
		out.W.Flush()
	}
}
