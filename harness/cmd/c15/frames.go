package main

import (
	"bytes"
	"crypto/ecdsa"
	"fmt"
	"io"
	"math/rand"
	"strings"
	"time"

	"github.com/ethereum/go-ethereum/crypto"
	"golang.org/x/crypto/sha3"

	"github.com/zenon-network/go-zenon/p2p"
	"github.com/zenon-network/go-zenon/p2p/discover"
	. "zharness/hz"
)

type frameMsg struct {
	code    uint64
	payload []byte
}

type rwBuf struct {
	r *bytes.Reader
	w *bytes.Buffer
}

func (b *rwBuf) Read(p []byte) (int, error)  { return b.r.Read(p) }
func (b *rwBuf) Write(p []byte) (int, error) { return b.w.Write(p) }

func frameClass(err error) int64 {
	switch {
	case err == nil:
		return 0
	case err == io.EOF || err == io.ErrUnexpectedEOF:
		return 1 // FShort
	case err.Error() == "bad header MAC":
		return 2
	case err.Error() == "bad frame MAC":
		return 3
	}
	return 4 // FBadCode (rlp)
}

func rlpUintLen(x uint64) int {
	if x < 128 {
		return 1
	}
	n := 0
	for y := x; y > 0; y >>= 8 {
		n++
	}
	return 1 + n
}

// valid frames from the real writer, then bit flips / truncation / reordering into the real ReadMsg
func runFrames(rng *rand.Rand, n int, out *Out, _ []string) {
	for it := 0; it < n; it++ {
		aesKey, macKey := make([]byte, 32), make([]byte, 32)
		rng.Read(aesKey)
		rng.Read(macKey)
		seed := make([]byte, 16)
		rng.Read(seed)
		mkHash := func() interface {
			io.Writer
			Sum([]byte) []byte
			Reset()
			Size() int
			BlockSize() int
		} {
			h := sha3.NewLegacyKeccak256()
			h.Write(seed)
			return h
		}
		// writer
		wbuf := &rwBuf{r: bytes.NewReader(nil), w: new(bytes.Buffer)}
		w := p2p.VerifNewFrameRW(wbuf, aesKey, macKey, mkHash(), mkHash())
		nm := 1 + rng.Intn(4)
		msgs := make([]frameMsg, nm)
		bounds := []int{0}
		for i := range msgs {
			sz := []int{0, 1, 15, 16, 17, 31, 32, 33, 100, 1000, rng.Intn(5000)}[rng.Intn(11)]
			if it%50 == 0 && i == 0 {
				sz = 1<<16 + rng.Intn(100)
			}
			msgs[i] = frameMsg{[]uint64{0, 1, 8, 16, 127, 128, 255, 256, 1 << 32, ^uint64(0)}[rng.Intn(10)], make([]byte, sz)}
			rng.Read(msgs[i].payload)
			if err := w.WriteMsg(p2p.Msg{Code: msgs[i].code, Size: uint32(sz), Payload: bytes.NewReader(msgs[i].payload)}); err != nil {
				out.Oracle(false, "writer-accepts-valid-message", Tup(err.Error()))
				return
			}
			bounds = append(bounds, wbuf.w.Len())
		}
		stream := append([]byte{}, wbuf.w.Bytes()...)
		// mutation
		mut := append([]byte{}, stream...)
		kind := []string{"none", "flip", "flip", "flip", "truncate", "truncate", "swap-frames", "flip-header", "flip-mac"}[rng.Intn(9)]
		victim := rng.Intn(nm) // frame hit by the mutation
		fstart, fend := bounds[victim], bounds[victim+1]
		hmacOk, fmacOk := true, true
		avail := int64(fend - fstart)
		switch kind {
		case "flip":
			pos := fstart + rng.Intn(fend-fstart)
			mut[pos] ^= 1 << uint(rng.Intn(8))
			if pos-fstart < 32 {
				hmacOk = false
			} else {
				fmacOk = false
			}
		case "flip-header":
			mut[fstart+rng.Intn(32)] ^= 1 << uint(rng.Intn(8))
			hmacOk = false
		case "flip-mac":
			mut[fend-1-rng.Intn(16)] ^= 1 << uint(rng.Intn(8))
			fmacOk = false
		case "truncate":
			cut := fstart + rng.Intn(fend-fstart)
			mut = mut[:cut]
			avail = int64(cut - fstart)
		case "swap-frames":
			if nm < 2 || victim == nm-1 {
				kind = "none"
			} else {
				a := append([]byte{}, mut[bounds[victim]:bounds[victim+1]]...)
				b := append([]byte{}, mut[bounds[victim+1]:bounds[victim+2]]...)
				copy(mut[bounds[victim]:], b)
				copy(mut[bounds[victim]+len(b):], a)
				// the first swapped-in frame was MACed against a different chain state; its header MAC no longer matches
				hmacOk = false
				avail = int64(len(b))
			}
		}
		out.Count("frames:" + kind)
		rbuf := &rwBuf{r: bytes.NewReader(mut), w: new(bytes.Buffer)}
		r := p2p.VerifNewFrameRW(rbuf, aesKey, macKey, mkHash(), mkHash())
		for i := 0; i < nm; i++ {
			var m p2p.Msg
			var err error
			p := protect(func() { m, err = r.ReadMsg() })
			out.Oracle(p == nil, "readmsg-no-panic", Tup(kind, I64(int64(i)), fmt.Sprint(p)))
			if p != nil {
				break
			}
			hit := kind != "none" && i == victim
			fsize := int64(rlpUintLen(msgs[i].code) + len(msgs[i].payload))
			hdr := make([]byte, 16)
			hdr[0], hdr[1], hdr[2] = byte(fsize>>16), byte(fsize>>8), byte(fsize)
			copy(hdr[3:], []byte{0xC2, 0x80, 0x80})
			if !hit {
				var got []byte
				if err == nil {
					got, _ = io.ReadAll(m.Payload)
				}
				out.Oracle(err == nil && m.Code == msgs[i].code && bytes.Equal(got, msgs[i].payload) && int(m.Size) == len(msgs[i].payload),
					"frames-before-corruption-intact", Tup(kind, I64(int64(i)), fmt.Sprint(err)))
				out.Case("read_msg", Tup(I64(int64(bounds[i+1]-bounds[i])), true, Byt(hdr), true, true), Tup(I64(frameClass(err)), I64(fsize)), "valid")
				continue
			}
			out.Oracle(err != nil, "corrupted-frame-rejected", Tup(kind, I64(int64(i)), I64(int64(len(msgs[i].payload)))))
			if kind == "swap-frames" {
				// header of the frame now in this position
				f2 := int64(rlpUintLen(msgs[i+1].code) + len(msgs[i+1].payload))
				hdr[0], hdr[1], hdr[2] = byte(f2>>16), byte(f2>>8), byte(f2)
			}
			out.Case("read_msg", Tup(I64(avail), hmacOk, Byt(hdr), fmacOk, true), Tup(I64(frameClass(err)), I64(0)), kind)
			break // the connection is dropped after the first error
		}
		// readInt24 on arbitrary bytes
		b3 := make([]byte, 3+rng.Intn(3))
		rng.Read(b3)
		if rng.Intn(4) == 0 {
			b3[0], b3[1], b3[2] = 0xff, 0xff, byte(0xfd+rng.Intn(3))
		}
		out.Case("readInt24", Byt(b3), U64(uint64(p2p.VerifReadInt24(b3))), "bytes")
	}
	// the writer refuses sizes above 2^24-1 (so a well-behaved peer never emits them); the reader cannot receive one: 3 size bytes
	wbuf := &rwBuf{r: bytes.NewReader(nil), w: new(bytes.Buffer)}
	k := make([]byte, 32)
	w := p2p.VerifNewFrameRW(wbuf, k, k, sha3.NewLegacyKeccak256(), sha3.NewLegacyKeccak256())
	err := w.WriteMsg(p2p.Msg{Code: 1, Size: p2p.VerifMaxUint24, Payload: bytes.NewReader(nil)})
	out.Oracle(err != nil && strings.Contains(err.Error(), "overflows uint24"), "writer-refuses-over-uint24", Tup(fmt.Sprint(err)))
}

func protect(f func()) (p interface{}) {
	defer func() { p = recover() }()
	f()
	return nil
}

func packetClass(kind int, err error) int64 {
	switch {
	case err == discover.VerifErrPacketTooSmall:
		return 1
	case err == discover.VerifErrBadHash:
		return 2
	case err != nil && strings.HasPrefix(err.Error(), "unknown type"):
		return 4
	case err == nil && kind != 0:
		return 6
	}
	return -1 // bad signature or bad rlp: told apart by the independent signature check
}

func seal(priv *ecdsa.PrivateKey, sigdata []byte, goodSig, goodHash bool, rng *rand.Rand) []byte {
	buf := make([]byte, discover.VerifHeadSize+len(sigdata))
	copy(buf[discover.VerifHeadSize:], sigdata)
	sig, err := crypto.Sign(crypto.Keccak256(sigdata), priv)
	if err != nil {
		panic(err)
	}
	if !goodSig {
		switch rng.Intn(3) {
		case 0:
			sig[64] = byte(4 + rng.Intn(250)) // invalid recovery id
		case 1:
			for i := 0; i < 32; i++ {
				sig[i] = 0xff // r out of range
			}
		default:
			sig[rng.Intn(64)] ^= 1 << uint(rng.Intn(8)) // recovers some other key (or fails)
		}
	}
	copy(buf[discover.VerifMacSize:], sig)
	copy(buf, crypto.Keccak256(buf[discover.VerifMacSize:]))
	if !goodHash {
		buf[rng.Intn(discover.VerifMacSize)] ^= 1 << uint(rng.Intn(8))
	}
	return buf
}

// discovery packets: valid ones from the real encoder, then corruption; crafted packets with every check's outcome chosen
func runPackets(rng *rand.Rand, n int, out *Out, _ []string) {
	priv, err := ecdsa.GenerateKey(crypto.S256(), rng)
	if err != nil {
		panic(err)
	}
	self := discover.PubkeyID(&priv.PublicKey)
	for it := 0; it < n; it++ {
		var target discover.NodeID
		rng.Read(target[:])
		exp := uint64(time.Now().Add(time.Hour).Unix())
		if rng.Intn(4) == 0 {
			exp = uint64(rng.Int63n(time.Now().Unix() - 10))
		}
		valid, err := discover.VerifSamplePackets(priv, exp, target, rng.Intn(12))
		if err != nil {
			out.Oracle(false, "encoder-produces-packets", Tup(err.Error()))
			return
		}
		base := valid[rng.Intn(len(valid))]
		var buf []byte
		kind := []string{"valid", "flip", "flip", "truncate", "truncate-short", "crafted", "crafted", "crafted", "random"}[rng.Intn(9)]
		switch kind {
		case "valid":
			buf = base
		case "flip":
			buf = append([]byte{}, base...)
			buf[rng.Intn(len(buf))] ^= 1 << uint(rng.Intn(8))
		case "truncate":
			buf = base[:rng.Intn(len(base))]
		case "truncate-short":
			buf = base[:[]int{0, 1, 31, 32, 33, 96, 97, 98}[rng.Intn(8)]]
		case "random":
			buf = make([]byte, rng.Intn(300))
			rng.Read(buf)
		case "crafted":
			sigdata := append([]byte{}, base[discover.VerifHeadSize:]...)
			switch rng.Intn(6) {
			case 5:
				sigdata = nil // correctly hashed and signed packet of exactly headSize bytes: no type byte
			case 0:
				sigdata[0] = byte(rng.Intn(256)) // any packet type over a valid body
			case 1:
				sigdata = sigdata[:1+rng.Intn(len(sigdata))] // truncated body
			case 2:
				sigdata = append([]byte{byte(1 + rng.Intn(4))}, randomRLP(rng, 0)...)
			case 3:
				sigdata = []byte{byte(rng.Intn(7))}
			}
			buf = seal(priv, sigdata, rng.Intn(4) > 0, rng.Intn(5) > 0, rng)
		}
		out.Count("packets:" + kind)
		var pk int
		var from discover.NodeID
		var hash []byte
		var pexp uint64
		var derr error
		p := protect(func() { pk, from, hash, pexp, derr = discover.VerifDecodePacket(buf) })
		out.Oracle(p == nil, "decodepacket-no-panic", Tup(kind, Byt(buf), fmt.Sprint(p)))
		if p != nil {
			continue
		}
		// independent evaluation of the oracles of the model
		hashOk, sigOk := false, false
		ptype := int64(0)
		if len(buf) >= discover.VerifHeadSize+1 {
			hashOk = bytes.Equal(buf[:discover.VerifMacSize], crypto.Keccak256(buf[discover.VerifMacSize:]))
			_, serr := crypto.Ecrecover(crypto.Keccak256(buf[discover.VerifHeadSize:]), buf[discover.VerifMacSize:discover.VerifHeadSize])
			sigOk = serr == nil
			ptype = int64(buf[discover.VerifHeadSize])
		}
		cls := packetClass(pk, derr)
		if cls == -1 {
			if !sigOk {
				cls = 3
			} else {
				cls = 5
			}
		}
		rlpOk := cls == 6
		out.Case("decode_packet", Tup(I64(int64(len(buf))), hashOk, sigOk, I64(ptype), rlpOk), I64(cls), kind)
		switch kind {
		case "valid":
			out.Oracle(derr == nil && pk != 0 && from == self && bytes.Equal(hash, buf[:discover.VerifMacSize]) && pexp == exp, "valid-packet-accepted", Tup(fmt.Sprint(derr)))
			out.Oracle(discover.VerifExpired(exp) == (exp < uint64(time.Now().Unix())), "expired-packet-detected", Tup(U64(exp)))
		case "flip", "truncate", "truncate-short":
			out.Oracle(derr != nil, "corrupted-packet-rejected", Tup(kind, I64(int64(len(buf)))))
		default:
			// accepted only if hash and signature verify; the sender identity is the signer's
			out.Oracle(derr != nil || (hashOk && sigOk), "accepted-packet-has-valid-hash-and-signature", Tup(kind))
		}
	}
}
