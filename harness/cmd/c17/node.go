package main

import (
	"bytes"
	"fmt"
	"math/big"
	"math/rand"
	"os"
	"os/exec"
	"sort"
	"strconv"
	"strings"
	. "zharness/hz"

	"github.com/zenon-network/go-zenon/chain"
	"github.com/zenon-network/go-zenon/chain/genesis"
	g "github.com/zenon-network/go-zenon/chain/genesis/mock"
	"github.com/zenon-network/go-zenon/chain/nom"
	"github.com/zenon-network/go-zenon/chain/store"
	"github.com/zenon-network/go-zenon/common/types"
	"github.com/zenon-network/go-zenon/vm"
	"github.com/zenon-network/go-zenon/vm/constants"
	"github.com/zenon-network/go-zenon/vm/embedded"
	"github.com/zenon-network/go-zenon/vm/embedded/definition"
	"github.com/zenon-network/go-zenon/vm/vm_context"
	"github.com/zenon-network/go-zenon/wallet"
	"github.com/zenon-network/go-zenon/zenon/mock"
)

// ---- probes: one (contract, method) pair per spork, plus an ungated one
type probe struct {
	name     string
	contract types.Address
	data     []byte
	guard    int // 0 ungated, 1 accelerator, 2 htlc, 3 bridge-and-liquidity
}

func sel(abiData []byte) []byte { return append(append([]byte{}, abiData[:4]...), 0, 0, 0, 0) }

func methodId(c types.Address, name string) []byte {
	// the selector is a fact of the ABI, not of one table: look in every table, newest first (a change that drops
	// the method from one table must show up as an oracle failure of the history, not as a crash of the harness)
	tabs := embedded.VerifMethodTables()
	for t := len(tabs) - 1; t >= 0; t-- {
		for _, e := range tabs[t] {
			if e.Contract == c && e.Name == name && e.Selector != nil {
				return append(append([]byte{}, e.Selector...), 0, 0, 0, 0)
			}
		}
	}
	panic("probe method in no method table: " + name)
}

func probes() []probe {
	return []probe{
		{"Plasma.Fuse", types.PlasmaContract, methodId(types.PlasmaContract, definition.FuseMethodName), 0},
		{"Accelerator.CreateProject", types.AcceleratorContract, methodId(types.AcceleratorContract, definition.CreateProjectMethodName), 1},
		{"Liquidity.Fund", types.LiquidityContract, methodId(types.LiquidityContract, definition.FundMethodName), 1},
		{"Htlc.Create", types.HtlcContract, methodId(types.HtlcContract, definition.CreateHtlcMethodName), 2},
		{"Bridge.WrapToken", types.BridgeContract, methodId(types.BridgeContract, definition.WrapTokenMethodName), 3},
		{"Liquidity.LiquidityStake", types.LiquidityContract, methodId(types.LiquidityContract, definition.LiquidityStakeMethodName), 3},
	}
}

type sporkRec struct {
	id        types.Hash
	createdAt uint64
	activated bool   // an activation was observed (or the genesis configuration ships it activated)
	enf       uint64 // expected enforcement height: from the observed activation, or from the genesis configuration (any value, also 0)
	attempts  int
	genesis   bool // defined by the genesis configuration
}

type sporkHist struct {
	nd     *Node
	rng    *rand.Rand
	out    *Out
	ids    *sporkIds
	sporks []*sporkRec
	gen    []*sporkRec                // sporks defined by the genesis configuration (created only / already activated)
	role   [4]*types.ImplementedSpork // index by guard number
	pr     []probe
	known  map[types.Hash]bool // activation already observed
	fol    *BareNode           // follower: fed the producer's momentums through ChainBridge.InsertChain
	fed    uint64              // height up to which the follower has been fed
	htlcs  []types.Hash        // inserted Htlc.Create sends (executed or refunded), compared on the follower
	effs   []effCall           // inserted calls of gated methods whose EFFECT is observable in the receive block (descendants)
	funded bool                // the liquidity contract was given ZNN and QSR to spend

	savedCfg *genesis.SporkConfig
}

func (h *sporkHist) send(kp *wallet.KeyPair, to types.Address, zts types.ZenonTokenStandard, amount *big.Int, data []byte) (*nom.AccountBlock, error) {
	if amount == nil {
		amount = big.NewInt(0)
	}
	tpl := &nom.AccountBlock{BlockType: nom.BlockTypeUserSend, Address: kp.Address, ToAddress: to, TokenStandard: zts, Amount: amount, Data: data}
	tx, err := h.nd.Sv.GenerateFromTemplate(tpl, kp.Signer)
	if err != nil {
		return nil, err
	}
	if err := h.nd.Insert(tx); err != nil {
		return nil, err
	}
	return tx.Block, nil
}

func (h *sporkHist) all() []*sporkRec { return append(append([]*sporkRec{}, h.gen...), h.sporks...) }

func roleIds(ids *sporkIds) interface{} {
	return Tup(I64(int64(ids.idx(types.AcceleratorSpork.SporkId))), I64(int64(ids.idx(types.HtlcSpork.SporkId))), I64(int64(ids.idx(types.BridgeAndLiquiditySpork.SporkId))))
}

func setRoles(acc, htlc, bridge types.Hash) {
	types.AcceleratorSpork.SporkId, types.HtlcSpork.SporkId, types.BridgeAndLiquiditySpork.SporkId = acc, htlc, bridge
	for _, x := range []types.Hash{acc, htlc, bridge} {
		types.ImplementedSporksMap[x] = true
	}
}

// evaluate everything the property talks about against the store of the momentum at `height`
func (h *sporkHist) checkStore(ch chain.Chain, ms store.Momentum, tagExtra string) {
	fm, err := ms.GetFrontierMomentum()
	if err != nil {
		panic(err)
	}
	height := fm.Height
	var stored []*definition.Spork
	scanPanicked := false
	func() {
		defer func() {
			if r := recover(); r != nil {
				scanPanicked = true
			}
		}()
		stored, err = ms.GetAllDefinedSporks()
	}()
	// (a scan of a historical view once listed keys created later with a nil value and GetAllSporks panicked on them:
	// regression of a versioned-store fix, repaired in /repo e23e211; a block acknowledging such a momentum would be
	// rejected with ErrVmRunPanic on some nodes, so this is checked on every historical store)
	h.out.Oracle(!scanPanicked, "spork-scan-of-historical-store-panics", M{"height": U64(height)})
	if scanPanicked {
		return
	}
	if err != nil {
		panic(err)
	}
	st := sporkTerm(h.ids, stored)
	// one entry per id
	seen := map[types.Hash]bool{}
	wf := true
	for _, s := range stored {
		if seen[s.Id] {
			wf = false
		}
		seen[s.Id] = true
	}
	h.out.Oracle(wf, "spork-storage-one-entry-per-id", nil)

	var act [4]bool
	act[0] = true
	for gi, sp := range h.role {
		if gi == 0 {
			continue
		}
		real, err := ms.IsSporkActive(sp)
		if err != nil {
			panic(err)
		}
		act[gi] = real
		tag := "inactive"
		if real {
			tag = "active"
		}
		// own statement: active iff an activation of that id was observed with ack + delay <= this height (and height > 1)
		want, activated := false, false
		var enf uint64
		for _, r := range h.all() {
			if r.id == sp.SporkId && r.activated {
				enf, activated = r.enf, true
				want = r.enf <= height && height != 1
			}
		}
		if activated {
			switch {
			case height+1 == enf:
				tag += "-just-below-enforcement"
			case height == enf:
				tag += "-at-enforcement"
			case height == enf+1:
				tag += "-just-above-enforcement"
			}
		}
		h.out.Case("is_active", Tup(U64(height), st, I64(int64(h.ids.idx(sp.SporkId)))), real, tag+tagExtra)
		h.out.Oracle(real == want, "active-iff-enforcement-height-reached",
			M{"height": U64(height), "enforcement": U64(enf), "active": real, "where": tagExtra})
	}
	nesting := (!act[2] || act[3]) && (!act[3] || act[1])
	ctx := vm_context.NewAccountContext(ms, ch.GetFrontierAccountStore(g.User1.Address), nil)
	for _, p := range h.pr {
		_, err := embedded.GetEmbeddedMethod(ctx, p.contract, p.data)
		code := lookupCode(err)
		tag := []string{"found", "method-not-found", "contract-doesnt-exist", "not-contract-address"}[code%4]
		h.out.Case("lookup", Tup(U64(height), st, roleIds(h.ids), true, I64(contractIndex(p.contract)), I64(selectorZ(p.data))), I64(code), "node-"+tag+tagExtra)
		available := code == 0
		// the property: a spork-gated feature is available only where its own spork is enforced ...
		if available && p.guard != 0 {
			detail := M{"method": p.name, "height": U64(height), "accelerator_active": act[1], "htlc_active": act[2], "bridge_active": act[3], "where": tagExtra}
			// the known finding F12 is exactly: enabled by a spork whose table is built on top of the method's own one
			// (htlc on bridge-and-liquidity on accelerator); anything else is not covered by it
			nestedAbove := (p.guard == 1 && (act[3] || act[2])) || (p.guard == 3 && act[2])
			if act[p.guard] || nestedAbove {
				h.out.Oracle(act[p.guard], "method-available-without-its-own-spork", detail)
			} else {
				h.out.Oracle(false, "gated-method-available-below-every-enforcement-height", detail)
			}
		}
		// ... and available from that height on (with the sporks enforced in nesting order both directions hold)
		if nesting {
			h.out.Oracle(available == act[p.guard], "gated-method-follows-its-spork",
				M{"method": p.name, "height": U64(height), "available": available, "spork_active": act[p.guard], "where": tagExtra})
		} else {
			h.out.Count("node:store-not-in-nesting-order")
		}
		if p.guard != 0 && act[p.guard] {
			h.out.Oracle(available, "method-unavailable-although-its-spork-is-enforced", M{"method": p.name, "height": U64(height), "where": tagExtra})
		}
	}
}

// full path (verifier + vm) for a user send acknowledging the frontier: rejected with "method not found /
// contract doesn't exist" exactly when the table of the acknowledged store lacks the method
func (h *sporkHist) applyProbes(ch chain.Chain, sv *vm.Supervisor, where string) {
	fr := ch.GetFrontierMomentumStore()
	height := fr.Identifier().Height
	ctx := vm_context.NewAccountContext(fr, ch.GetFrontierAccountStore(g.User2.Address), nil)
	for _, p := range h.pr {
		b := &nom.AccountBlock{BlockType: nom.BlockTypeUserSend, Address: g.User2.Address, ToAddress: p.contract, TokenStandard: types.ZnnTokenStandard, Amount: big.NewInt(0), Data: p.data}
		_, err := sv.GenerateFromTemplate(b, g.User2.Signer)
		_, terr := embedded.GetEmbeddedMethod(ctx, p.contract, p.data)
		rejectedForMethod := err == constants.ErrContractMethodNotFound || err == constants.ErrContractDoesntExist
		h.out.Oracle(rejectedForMethod == (terr != nil), "send-validation-uses-the-acknowledged-store",
			M{"method": p.name, "height": U64(height), "apply_error": fmt.Sprint(err), "table_error": fmt.Sprint(terr), "where": where})
		// the property's own statement on the full path (verifier + vm of a send acknowledging this frontier): with the
		// sporks enforced in nesting order the gated call is refused for its method exactly below its spork's enforcement height
		if p.guard != 0 {
			act := [4]bool{}
			for gi := 1; gi <= 3; gi++ {
				act[gi] = h.wantActive(h.role[gi].SporkId, height)
			}
			if (!act[2] || act[3]) && (!act[3] || act[1]) {
				h.out.Oracle(rejectedForMethod == !act[p.guard], "gated-send-refused-iff-below-enforcement-height",
					M{"method": p.name, "height": U64(height), "apply_error": fmt.Sprint(err), "spork_enforced": act[p.guard], "where": where})
			}
		}
		if rejectedForMethod {
			h.out.Count("node:apply" + where + ":rejected:" + p.name)
		} else {
			h.out.Count("node:apply" + where + ":reached-method:" + p.name)
		}
	}
}

// the statement's rule from what the history did (observed activations, genesis configuration): enforced for a block
// evaluated against the momentum at `height` (momentum 1, the genesis itself, has no spork: the unchanged rule of IsSporkActive)
func (h *sporkHist) wantActive(id types.Hash, height uint64) bool {
	for _, r := range h.all() {
		if r.id == id && r.activated {
			return r.enf <= height && height != 1
		}
	}
	return false
}

func (h *sporkHist) observeSporks() {
	fr := h.nd.Ch.GetFrontierMomentumStore()
	stored, _ := fr.GetAllDefinedSporks()
	for _, s := range stored {
		if !s.Activated || h.known[s.Id] {
			continue
		}
		h.known[s.Id] = true
		// the receive block that activated it: the latest block of the spork contract whose send carries this id
		ackHeight := uint64(0)
		frontierBlock, _ := fr.GetFrontierAccountBlock(types.SporkContract)
		for b := frontierBlock; b != nil && b.Height > 0; {
			if b.BlockType == nom.BlockTypeContractReceive {
				sb, _ := fr.GetAccountBlockByHash(b.FromBlockHash)
				if sb != nil && bytes.Equal(sb.Data, definition.ABISpork.PackMethodPanic(definition.SporkActivateMethodName, s.Id)) {
					ackHeight = b.MomentumAcknowledged.Height
					// receive-time evaluation happens against the momentum that confirmed the send
					conf, _ := fr.GetBlockConfirmationHeight(sb.Hash)
					h.out.Oracle(conf == ackHeight, "receive-acknowledges-the-momentum-confirming-the-send", M{"confirmation": U64(conf), "acknowledged": U64(ackHeight)})
					if sb.Address != g.Spork.Address {
						h.out.Oracle(false, "activate-requires-designated-key", M{"sender": sb.Address.String()})
					}
					break
				}
			}
			if b.Height == 1 {
				break
			}
			b, _ = fr.GetAccountBlockByHeight(types.SporkContract, b.Height-1)
		}
		h.out.Oracle(ackHeight != 0 && s.EnforcementHeight == ackHeight+constants.SporkMinHeightDelay, "enforcement-height-is-ack-height-plus-delay",
			M{"ack_height": U64(ackHeight), "enforcement": U64(s.EnforcementHeight)})
		for _, r := range h.all() {
			if r.id == s.Id {
				h.out.Oracle(!r.activated, "activate-only-once", M{"id": I64(int64(h.ids.idx(s.Id)))})
				r.activated, r.enf = true, s.EnforcementHeight
			}
		}
	}
	// enforcement heights never change afterwards (also those the genesis configuration came with), nothing disappears
	for _, r := range h.all() {
		found := false
		for _, s := range stored {
			if r.id != s.Id {
				continue
			}
			found = true
			if r.activated {
				h.out.Oracle(s.Activated && s.EnforcementHeight == r.enf, "activate-only-once", M{"stored": U64(s.EnforcementHeight), "first": U64(r.enf)})
			}
		}
		// (a creation by transaction is in the contract state two momentums later: send confirmed, then received)
		if !r.id.IsZero() && (r.genesis || fr.Identifier().Height >= r.createdAt+3) {
			h.out.Oracle(found, "defined-spork-stays-defined", M{"id": I64(int64(h.ids.idx(r.id))), "created_at": U64(r.createdAt), "height": U64(fr.Identifier().Height)})
		}
	}
}

// a call of a gated method whose effect shows in its receive block: Liquidity.Fund (donates the contract's ZNN and QSR
// to the accelerator: two descendant sends) and Liquidity.BurnZnn (one descendant Burn call), both gated by the
// accelerator spork and reachable through the tables that are built on top of the accelerator table
type effCall struct {
	hash  types.Hash
	guard int
	name  string
}

func (h *sporkHist) effectCall() {
	if !h.funded {
		// Donate is in the origin table of the liquidity contract: the treasury can be filled in every regime
		h.send(g.User1, types.LiquidityContract, types.ZnnTokenStandard, big.NewInt(50), definition.ABICommon.PackMethodPanic(definition.DonateMethodName))
		h.send(g.User1, types.LiquidityContract, types.QsrTokenStandard, big.NewInt(50), definition.ABICommon.PackMethodPanic(definition.DonateMethodName))
		h.funded = true
		return
	}
	var data []byte
	name := "Liquidity.Fund"
	if h.rng.Intn(2) == 0 {
		data = definition.ABILiquidity.PackMethodPanic(definition.FundMethodName, big.NewInt(1), big.NewInt(1))
	} else {
		name = "Liquidity.BurnZnn"
		data = definition.ABILiquidity.PackMethodPanic(definition.BurnZnnMethodName, big.NewInt(1))
	}
	if b, err := h.send(g.Spork, types.LiquidityContract, types.ZnnTokenStandard, nil, data); err == nil {
		h.effs = append(h.effs, effCall{b.Hash, 1, name})
		h.out.Count("node:act:effect-call:" + name)
	} else {
		h.out.Count("node:act:effect-call-refused:" + name)
	}
}

// the property on the EFFECT of a gated method: a call received where the method's own spork is not enforced (the method
// can be reachable there through a table built on top of its own one) has no effect beyond being consumed
func (h *sporkHist) checkEffects() {
	pf := h.nd.Ch.GetFrontierMomentumStore()
	for _, e := range h.effs {
		rb, _ := pf.GetBlockWhichReceives(e.hash)
		if rb == nil {
			continue
		}
		act := h.wantActive(h.role[e.guard].SporkId, rb.MomentumAcknowledged.Height)
		if act {
			h.out.Count("node:effect-call-received:own-spork-enforced:descendants=" + fmt.Sprint(len(rb.DescendantBlocks)))
			continue
		}
		h.out.Count("node:effect-call-received:own-spork-not-enforced")
		h.out.Oracle(len(rb.DescendantBlocks) == 0, "gated-effect-only-where-its-own-spork-is-enforced",
			M{"method": e.name, "send": e.hash.String(), "received_with_momentum": U64(rb.MomentumAcknowledged.Height), "descendants": I64(int64(len(rb.DescendantBlocks)))})
	}
}

func (h *sporkHist) step() {
	if h.rng.Intn(6) == 0 {
		h.htlcCall()
	}
	if h.rng.Intn(4) == 0 {
		h.effectCall()
	}
	h.nd.Momentum()
	h.syncFollower(false)
	h.observeSporks()
	h.checkFrontier()
	// historical stores: around every enforcement height already passed, and a random older one
	fh := h.nd.FrontierHeight()
	var hs []uint64
	for _, r := range h.all() {
		if r.activated {
			for d := uint64(0); d < 3; d++ {
				if x := r.enf + d - 1; x < fh && x >= 1 {
					hs = append(hs, x)
				}
			}
		}
	}
	if fh > 2 {
		hs = append(hs, 1+uint64(h.rng.Intn(int(fh-1))))
	}
	if len(hs) > 3 {
		h.rng.Shuffle(len(hs), func(i, j int) { hs[i], hs[j] = hs[j], hs[i] })
		hs = hs[:3]
	}
	fr := h.nd.Ch.GetFrontierMomentumStore()
	for _, x := range hs {
		m, err := fr.GetMomentumByHeight(x)
		if err != nil || m == nil {
			continue
		}
		ms := h.nd.Ch.GetMomentumStore(m.Identifier())
		if ms == nil {
			h.out.Oracle(false, "harness-historical-store-unavailable", M{"height": U64(x)})
			continue
		}
		h.checkStore(h.nd.Ch, ms, "-historical-store")
	}
}

// everything about blocks evaluated against the producer's frontier momentum
func (h *sporkHist) checkFrontier() {
	h.checkStore(h.nd.Ch, h.nd.Ch.GetFrontierMomentumStore(), "")
	h.applyProbes(h.nd.Ch, h.nd.Sv, "")
}

// genesisSporks: what GenesisConfig.SporkConfig ships (nil = the mock genesis as it is, no SporkConfig at all). The mock
// genesis configuration is one object shared by every node of the process: producer and follower are created from it
// while it carries the sporks, close() puts the previous value back.
func newSporkHist(rng *rand.Rand, out *Out, genesisSporks []*definition.Spork) *sporkHist {
	h := &sporkHist{rng: rng, out: out, ids: &sporkIds{m: map[types.Hash]int{}}, pr: probes(), known: map[types.Hash]bool{}}
	h.savedCfg = g.EmbeddedGenesis.SporkConfig
	if genesisSporks != nil {
		g.EmbeddedGenesis.SporkConfig = &genesis.SporkConfig{Sporks: genesisSporks}
		for _, s := range genesisSporks {
			types.ImplementedSporksMap[s.Id] = true // the binary "knows" them; the halt suite covers unknown ones
			h.ids.idx(s.Id)
			h.gen = append(h.gen, &sporkRec{id: s.Id, createdAt: 1, activated: s.Activated, enf: s.EnforcementHeight, genesis: true})
			if s.Activated {
				h.known[s.Id] = true
			}
		}
	}
	h.nd = NewNode()
	h.role = [4]*types.ImplementedSpork{nil, types.AcceleratorSpork, types.HtlcSpork, types.BridgeAndLiquiditySpork}
	h.fol = OpenBare("")
	h.fed = 1
	// the genesis configuration reached the spork contract of both nodes
	for _, ch := range []chain.Chain{h.nd.Ch, h.fol.Ch} {
		stored, _ := ch.GetFrontierMomentumStore().GetAllDefinedSporks()
		ok := len(stored) == len(genesisSporks)
		for _, s := range genesisSporks {
			hit := false
			for _, t := range stored {
				hit = hit || (t.Id == s.Id && t.Activated == s.Activated && t.EnforcementHeight == s.EnforcementHeight)
			}
			ok = ok && hit
		}
		out.Oracle(ok, "genesis-sporks-are-in-the-spork-contract", M{"configured": I64(int64(len(genesisSporks))), "stored": I64(int64(len(stored)))})
	}
	pg, fg := h.nd.Ch.GetGenesisMomentum(), h.fol.Ch.GetGenesisMomentum()
	out.Oracle(pg.Hash == fg.Hash, "follower-accepts-the-producers-chain", M{"height": U64(1), "what": "genesis momentum differs"})
	return h
}

func (h *sporkHist) close() {
	h.fol.Destroy()
	h.nd.Stop()
	g.EmbeddedGenesis.SporkConfig = h.savedCfg
}

// what a block evaluated against the store of momentum `height` sees, as a comparable string
func (h *sporkHist) view(ms store.Momentum) string {
	var b strings.Builder
	sp, _ := ms.GetAllDefinedSporks()
	fmt.Fprintf(&b, "sporks=%v|", sporkTerm(h.ids, sp))
	for gi := 1; gi <= 3; gi++ {
		a, err := ms.IsSporkActive(h.role[gi])
		fmt.Fprintf(&b, "active%d=%v/%v|", gi, a, err)
	}
	ctx := vm_context.NewAccountContext(ms, h.nd.Ch.GetFrontierAccountStore(g.User1.Address), nil)
	for _, p := range h.pr {
		_, err := embedded.GetEmbeddedMethod(ctx, p.contract, p.data)
		fmt.Fprintf(&b, "%s=%d|", p.name, lookupCode(err))
	}
	return b.String()
}

// feed the follower (random batch sizes, so batches start and end just below / at / above enforcement heights) and
// compare, for every height it received, what blocks acknowledging that height see on the two nodes
func (h *sporkHist) syncFollower(force bool) {
	top := h.nd.FrontierHeight()
	if !force && h.rng.Intn(3) != 0 {
		return
	}
	if top <= h.fed {
		return
	}
	ds := WireCopyAll(DetailedRange(h.nd.Ch, h.fed+1, top))
	if _, err := h.fol.Br.InsertChain(ds); err != nil {
		h.out.Oracle(false, "follower-accepts-the-producers-chain", M{"from": U64(h.fed + 1), "to": U64(top), "error": err.Error()})
		h.fed = top
		return
	}
	h.out.Count(fmt.Sprintf("node:follower-batch-size=%d", min(int(top-h.fed), 6)))
	pf, ff := h.nd.Ch.GetFrontierMomentumStore(), h.fol.Ch.GetFrontierMomentumStore()
	for x := h.fed + 1; x <= top; x++ {
		m, _ := pf.GetMomentumByHeight(x)
		fm, _ := ff.GetMomentumByHeight(x)
		if m == nil || fm == nil || m.Hash != fm.Hash {
			h.out.Oracle(false, "follower-accepts-the-producers-chain", M{"height": U64(x)})
			continue
		}
		fms := h.fol.Ch.GetMomentumStore(m.Identifier())
		pv := h.view(h.nd.Ch.GetMomentumStore(m.Identifier()))
		fv := h.view(fms)
		h.out.Oracle(pv == fv, "follower-sees-the-same-sporks-and-methods-at-every-height", M{"height": U64(x), "producer": pv, "follower": fv})
		// the statement itself on the syncing node (not only "same as the producer"): every early momentum, the momentums
		// around the enforcement heights, the end of the batch, a sample of the rest
		near := x <= constants.SporkMinHeightDelay+3 || x == top
		for _, r := range h.all() {
			near = near || (r.activated && x+1 >= r.enf && x <= r.enf+1)
		}
		if near || h.rng.Intn(8) == 0 {
			h.checkStore(h.fol.Ch, fms, "-follower")
		}
	}
	h.fed = top
	h.applyProbes(h.fol.Ch, h.fol.Sv, "-follower")
	// executed / refunded gated calls: the same receive block on both nodes
	for _, sh := range h.htlcs {
		a, _ := pf.GetBlockWhichReceives(sh)
		b, _ := ff.GetBlockWhichReceives(sh)
		if a == nil && b == nil {
			continue
		}
		same := a != nil && b != nil && a.Hash == b.Hash && len(a.DescendantBlocks) == len(b.DescendantBlocks) &&
			a.MomentumAcknowledged == b.MomentumAcknowledged
		h.out.Oracle(same, "follower-executes-or-refunds-like-the-producer", M{"send": sh.String()})
	}
}

// a gated call that is executed (valid) or refunded (already expired) at receive time
func (h *sporkHist) htlcCall() {
	if act, _ := h.nd.Ch.GetFrontierMomentumStore().IsSporkActive(types.HtlcSpork); !act {
		return
	}
	fm, _ := h.nd.Ch.GetFrontierMomentumStore().GetFrontierMomentum()
	lock := make([]byte, 32)
	h.rng.Read(lock)
	exp := fm.Timestamp.Unix() + 3600
	kind := "valid"
	if h.rng.Intn(2) == 0 {
		exp = fm.Timestamp.Unix() - 100 // accepted at send time, refused (refunded) at receive time
		kind = "expired"
	}
	data := definition.ABIHtlc.PackMethodPanic(definition.CreateHtlcMethodName, g.User2.Address, exp, uint8(0), uint8(32), lock)
	if b, err := h.send(g.User1, types.HtlcContract, types.ZnnTokenStandard, big.NewInt(1000), data); err == nil {
		h.htlcs = append(h.htlcs, b.Hash)
		h.out.Count("node:act:htlc-create-" + kind)
	}
}

func (h *sporkHist) create(kp *wallet.KeyPair, name string) *sporkRec {
	b, err := h.send(kp, types.SporkContract, types.ZnnTokenStandard, nil, definition.ABISpork.PackMethodPanic(definition.SporkCreateMethodName, name, "created by the harness"))
	if kp.Address != g.Spork.Address {
		h.out.Oracle(err == constants.ErrPermissionDenied, "create-requires-designated-key", M{"error": fmt.Sprint(err)})
		return nil
	}
	if err != nil {
		h.out.Oracle(false, "harness-create-failed", M{"error": fmt.Sprint(err)})
		return nil
	}
	r := &sporkRec{id: b.Hash, createdAt: h.nd.FrontierHeight()}
	types.ImplementedSporksMap[r.id] = true // no role or a role: the binary "knows" it, the halt suite covers unknown ones
	h.ids.idx(r.id)
	h.sporks = append(h.sporks, r)
	return r
}

func nodeHistory(rng *rand.Rand, out *Out) {
	// the genesis configuration the chain starts from: no SporkConfig (the mock genesis as it is), an empty one, or
	// sporks in every state: created only, activated with an enforcement height of 0, 1, 2, ... around
	// SporkMinHeightDelay (below what an activation by transaction can reach), later, far in the future
	var gsp []*definition.Spork
	if rng.Intn(3) != 0 {
		gsp = randomGenesisSporks(rng, rng.Intn(4), func(int) types.Hash {
			var id types.Hash
			rng.Read(id[:])
			return id
		})
		if gsp == nil {
			gsp = []*definition.Spork{}
		}
	}
	h := newSporkHist(rng, out, gsp)
	defer h.close()
	// ids that are never created stand for "spork not defined on this chain"
	var none [3]types.Hash
	for i := range none {
		rng.Read(none[i][:])
	}
	setRoles(none[0], none[1], none[2])
	nSporks := 3 + rng.Intn(3)
	length := 45 + rng.Intn(30)
	type ev struct {
		at   int
		kind int // 0 create, 1 activate, 2 activate by wrong key, 3 activate unknown id, 4 create by wrong key, 5 activate a genesis spork
		idx  int
	}
	var evs []ev
	for i := range h.gen {
		// created only: first activation by transaction; already activated: must be refused, at any time (also before its enforcement height)
		if rng.Intn(3) != 0 {
			evs = append(evs, ev{1 + rng.Intn(length/2), 5, i})
		}
	}
	for i := 0; i < nSporks; i++ {
		c := 1 + rng.Intn(length/3)
		evs = append(evs, ev{c, 0, i})
		if rng.Intn(6) != 0 {
			a := c + 2 + rng.Intn(length/2)
			evs = append(evs, ev{a, 1, i})
			if rng.Intn(2) == 0 {
				evs = append(evs, ev{a + rng.Intn(12), 1, i}) // second activation (also in the same momentum)
			}
		}
		if rng.Intn(3) == 0 {
			evs = append(evs, ev{c + 1 + rng.Intn(10), 2, i})
		}
	}
	evs = append(evs, ev{2 + rng.Intn(20), 3, 0}, ev{2 + rng.Intn(20), 4, 0})
	// roles: which created spork plays which implemented spork (or none)
	perm := rng.Perm(nSporks)
	gperm := rng.Perm(len(h.gen))
	roleOf := map[int]int{} // spork index -> guard number
	gRoles := 0
	for gi := 1; gi <= 3; gi++ {
		switch {
		case rng.Intn(5) == 0:
		case gRoles < len(gperm) && rng.Intn(2) == 0: // played by a spork of the genesis configuration, from momentum 1 on
			h.role[gi].SporkId = h.gen[gperm[gRoles]].id
			gRoles++
		case gi-1 < len(perm):
			roleOf[perm[gi-1]] = gi
		}
	}
	out.Count(fmt.Sprintf("node:history:sporks=%d:roles=%d:genesis-sporks=%d:genesis-roles=%d", nSporks, len(roleOf), len(h.gen), gRoles))
	if gsp == nil {
		out.Count("node:history:genesis-without-spork-config")
	}
	for _, r := range h.gen {
		switch {
		case !r.activated:
			out.Count("node:genesis-spork:created-only")
		case r.enf <= 1:
			out.Count("node:genesis-spork:enforcement<=1")
		case r.enf <= constants.SporkMinHeightDelay:
			out.Count("node:genesis-spork:enforcement-within-min-delay")
		case r.enf < 100:
			out.Count("node:genesis-spork:enforcement-later")
		default:
			out.Count("node:genesis-spork:enforcement-far-future")
		}
	}
	// blocks evaluated against the genesis momentum itself
	h.checkFrontier()
	for t := 1; t <= length; t++ {
		for _, e := range evs {
			if e.at != t {
				continue
			}
			switch e.kind {
			case 0:
				r := h.create(g.Spork, fmt.Sprintf("spork-%d-%d", e.idx, t))
				if r != nil {
					if gi, ok := roleOf[e.idx]; ok {
						h.role[gi].SporkId = r.id
					}
				}
				for len(h.sporks) <= e.idx { // keep indices aligned if a creation failed
					h.sporks = append(h.sporks, &sporkRec{})
				}
			case 1, 2:
				if e.idx >= len(h.sporks) || h.sporks[e.idx].id.IsZero() {
					continue
				}
				kp := g.Spork
				if e.kind == 2 {
					kp = []*wallet.KeyPair{g.User1, g.Pillar1, g.User3}[rng.Intn(3)]
				}
				_, err := h.send(kp, types.SporkContract, types.ZnnTokenStandard, nil, definition.ABISpork.PackMethodPanic(definition.SporkActivateMethodName, h.sporks[e.idx].id))
				if e.kind == 2 {
					h.out.Oracle(err == constants.ErrPermissionDenied, "activate-requires-designated-key", M{"error": fmt.Sprint(err)})
					out.Count("node:act:activate-wrong-key")
				} else {
					h.sporks[e.idx].attempts++
					out.Count(fmt.Sprintf("node:act:activate-attempt-%d", min(h.sporks[e.idx].attempts, 3)))
				}
			case 3:
				var id types.Hash
				rng.Read(id[:])
				h.send(g.Spork, types.SporkContract, types.ZnnTokenStandard, nil, definition.ABISpork.PackMethodPanic(definition.SporkActivateMethodName, id))
				out.Count("node:act:activate-unknown-id")
			case 4:
				h.create(g.User1, "spork-by-user")
				out.Count("node:act:create-wrong-key")
			case 5:
				r := h.gen[e.idx]
				h.send(g.Spork, types.SporkContract, types.ZnnTokenStandard, nil, definition.ABISpork.PackMethodPanic(definition.SporkActivateMethodName, r.id))
				if r.activated {
					out.Count("node:act:activate-genesis-spork-already-activated")
				} else {
					out.Count("node:act:activate-genesis-spork-created-only")
				}
			}
		}
		h.step()
	}
	// sends that reached their method are executed at the momentum that confirms them (gated: HTLC create)
	if act, _ := h.nd.Ch.GetFrontierMomentumStore().IsSporkActive(types.HtlcSpork); act {
		h.htlcRoundTrip()
	}
	for i := 0; i < 3; i++ {
		h.step()
	}
	h.syncFollower(true)
	h.checkEffects()
	// the refund path really occurred and really differs from the executed one
	pf := h.nd.Ch.GetFrontierMomentumStore()
	for _, sh := range h.htlcs {
		if rb, _ := pf.GetBlockWhichReceives(sh); rb != nil {
			if len(rb.DescendantBlocks) > 0 {
				out.Count("node:htlc-receive-refunded")
			} else {
				out.Count("node:htlc-receive-executed")
			}
		}
	}
}

func min(a, b int) int {
	if a < b {
		return a
	}
	return b
}

func (h *sporkHist) htlcRoundTrip() {
	fm, _ := h.nd.Ch.GetFrontierMomentumStore().GetFrontierMomentum()
	lock := make([]byte, 32)
	h.rng.Read(lock)
	data := definition.ABIHtlc.PackMethodPanic(definition.CreateHtlcMethodName, g.User2.Address, fm.Timestamp.Unix()+3600, uint8(0), uint8(32), lock)
	b, err := h.send(g.User1, types.HtlcContract, types.ZnnTokenStandard, big.NewInt(1000), data)
	if err != nil {
		h.out.Oracle(false, "method-unavailable-although-its-spork-is-enforced", M{"method": "Htlc.Create (inserted)", "error": err.Error()})
		return
	}
	for i := 0; i < 3; i++ {
		h.step()
	}
	fr := h.nd.Ch.GetFrontierMomentumStore()
	rb, _ := fr.GetBlockWhichReceives(b.Hash)
	conf, _ := fr.GetBlockConfirmationHeight(b.Hash)
	ok := rb != nil && rb.MomentumAcknowledged.Height == conf && len(rb.DescendantBlocks) == 0
	var info *definition.HtlcInfo
	if ok {
		st := h.nd.Ch.GetFrontierAccountStore(types.HtlcContract)
		info, _ = definition.GetHtlcInfo(st.Storage(), b.Hash)
	}
	h.out.Oracle(ok && info != nil, "accepted-send-is-executed-at-the-confirming-momentum", M{"received": rb != nil, "confirmation": U64(conf)})
	h.out.Count("node:htlc-round-trip")
}

// every run: the genesis configuration ships the three implemented sporks already activated, in nesting order
// (accelerator <= bridge-and-liquidity <= htlc), at enforcement heights from 0 to just above SporkMinHeightDelay, plus a
// created-only one and one far in the future; every early momentum is a frontier once, on the producer and on the follower.
func genesisLadder(rng *rand.Rand, out *Out) {
	top := int(constants.SporkMinHeightDelay) + 3
	e := []int{rng.Intn(top), rng.Intn(top), rng.Intn(top)}
	sort.Ints(e)
	var ids [5]types.Hash
	for i := range ids {
		rng.Read(ids[i][:])
	}
	mk := func(i int, act bool, enf uint64) *definition.Spork {
		return &definition.Spork{Id: ids[i], Name: fmt.Sprintf("spork-genesis-%d", i), Description: "shipped with the genesis configuration", Activated: act, EnforcementHeight: enf}
	}
	gsp := []*definition.Spork{mk(0, true, uint64(e[0])), mk(1, true, uint64(e[1])), mk(2, true, uint64(e[2])), mk(3, false, 0), mk(4, true, 1<<40)}
	rng.Shuffle(len(gsp), func(i, j int) { gsp[i], gsp[j] = gsp[j], gsp[i] })
	h := newSporkHist(rng, out, gsp)
	defer h.close()
	setRoles(ids[0], ids[2], ids[1])
	out.Count(fmt.Sprintf("node:genesis-ladder:accelerator=%d:bridge=%d:htlc=%d", e[0], e[1], e[2]))
	h.checkFrontier()
	for i := 0; i < top+3; i++ {
		if i == 2 {
			h.send(g.Spork, types.SporkContract, types.ZnnTokenStandard, nil, definition.ABISpork.PackMethodPanic(definition.SporkActivateMethodName, ids[3]))
			h.send(g.Spork, types.SporkContract, types.ZnnTokenStandard, nil, definition.ABISpork.PackMethodPanic(definition.SporkActivateMethodName, ids[4]))
		}
		h.step()
		h.syncFollower(i%2 == 0)
	}
	h.htlcRoundTrip()
	h.syncFollower(true)
}

// deterministic reproduction of F12 on the real node, every run: only the HTLC spork is created and activated
func f12Repro(out *Out) {
	rng := rand.New(rand.NewSource(17))
	h := newSporkHist(rng, out, nil)
	defer h.close()
	var none [3]types.Hash
	for i := range none {
		rng.Read(none[i][:])
	}
	setRoles(none[0], none[1], none[2])
	h.step()
	r := h.create(g.Spork, "spork-htlc-only")
	h.role[2].SporkId = r.id
	h.step()
	h.step()
	h.send(g.Spork, types.SporkContract, types.ZnnTokenStandard, nil, definition.ABISpork.PackMethodPanic(definition.SporkActivateMethodName, r.id))
	for i := 0; i < 12; i++ {
		h.step()
	}
	h.htlcRoundTrip()
	h.syncFollower(true)
	out.Count("node:repro:f12-htlc-spork-only")
}

func runNode(rng *rand.Rand, n int, out *Out, args []string) {
	Quiet()
	f12Repro(out)
	genesisLadder(rng, out)
	for i := 0; i < n; i++ {
		nodeHistory(rng, out)
	}
}

// ---- halt on an unknown enforced spork: observed in child processes (the node calls os.Exit(2))
type fixedT struct{ dir string }

func (t *fixedT) Fatalf(format string, args ...interface{}) { panic(fmt.Sprintf(format, args...)) }
func (t *fixedT) TempDir() string                           { return t.dir }

// haltchild <mode> <dir> <progress-file>;  mode: unknown | known | reopen
func runHaltChild(rng *rand.Rand, n int, out *Out, args []string) {
	mode, dir, progress := args[0], args[1], args[2]
	pf, err := os.OpenFile(progress, os.O_APPEND|os.O_CREATE|os.O_WRONLY, 0644)
	if err != nil {
		panic(err)
	}
	say := func(s string) { pf.WriteString(s + "\n"); pf.Sync() }
	z := mock.NewMockZenon(&fixedT{dir})
	Quiet()
	if mode == "reopen" {
		say("started")
		return
	}
	ch := z.Chain()
	say("started")
	send := func(data []byte) *nom.AccountBlock {
		return z.InsertSendBlock(&nom.AccountBlock{Address: g.Spork.Address, ToAddress: types.SporkContract, Data: data}, nil, mock.SkipVmChanges)
	}
	z.InsertNewMomentum()
	b := send(definition.ABISpork.PackMethodPanic(definition.SporkCreateMethodName, "spork-unknown-to-the-binary", "halt test"))
	if mode == "known" {
		types.ImplementedSporksMap[b.Hash] = true
	}
	z.InsertNewMomentum()
	z.InsertNewMomentum()
	send(definition.ABISpork.PackMethodPanic(definition.SporkActivateMethodName, b.Hash))
	for i := 0; i < 14; i++ {
		z.InsertNewMomentum()
		fr := ch.GetFrontierMomentumStore()
		say(fmt.Sprintf("height=%d", fr.Identifier().Height))
		sp, _ := fr.GetAllDefinedSporks()
		for _, s := range sp {
			if s.Activated {
				say(fmt.Sprintf("enf=%d", s.EnforcementHeight))
			}
		}
		_, un, _ := chain.GotAllActiveSporksImplemented(fr)
		if len(un) > 0 {
			say("continued-with-unknown-enforced-spork")
		}
	}
	say("done")
	z.StopPanic()
}

func lastInt(lines []string, prefix string) int64 {
	v := int64(-1)
	for _, l := range lines {
		if strings.HasPrefix(l, prefix) {
			x, _ := strconv.ParseInt(l[len(prefix):], 10, 64)
			v = x
		}
	}
	return v
}

func runHalt(rng *rand.Rand, n int, out *Out, args []string) {
	exe, err := os.Executable()
	if err != nil {
		panic(err)
	}
	child := func(mode, dir, progress string) int {
		cmd := exec.Command(exe, "haltchild", "-seed", "1", "-n", "0", "-out", os.DevNull, mode, dir, progress)
		var buf bytes.Buffer
		cmd.Stdout, cmd.Stderr = &buf, &buf
		err := cmd.Run()
		if err == nil {
			return 0
		}
		if ee, ok := err.(*exec.ExitError); ok {
			return ee.ExitCode()
		}
		return -1
	}
	for i := 0; i < n; i++ {
		for _, mode := range []string{"unknown", "known"} {
			dir, _ := os.MkdirTemp("", "c17halt")
			progress := dir + ".progress"
			code := child(mode, dir, progress)
			raw, _ := os.ReadFile(progress)
			lines := strings.Split(strings.TrimSpace(string(raw)), "\n")
			last, enf := lastInt(lines, "height="), lastInt(lines, "enf=")
			done := strings.Contains(string(raw), "done")
			continued := strings.Contains(string(raw), "continued-with-unknown-enforced-spork")
			if mode == "unknown" {
				// the momentum at the enforcement height is stored, then the process exits: the last completed insert is enf-1
				out.Oracle(code == 2 && !done && !continued && enf > 0 && last == enf-1, "halts-at-enforcement-height-of-unknown-spork",
					M{"exit_code": I64(int64(code)), "last_completed_height": I64(last), "enforcement": I64(enf)})
				os.Remove(progress)
				code2 := child("reopen", dir, progress)
				raw2, _ := os.ReadFile(progress)
				out.Oracle(code2 == 2 && !strings.Contains(string(raw2), "started"), "refuses-to-start-with-unknown-enforced-spork", M{"exit_code": I64(int64(code2))})
				out.Count("halt:unknown-spork")
			} else {
				out.Oracle(code == 0 && done && enf > 0 && last > enf, "implemented-spork-does-not-halt", M{"exit_code": I64(int64(code)), "last": I64(last), "enforcement": I64(enf)})
				out.Count("halt:known-spork-control")
			}
			os.RemoveAll(dir)
			os.Remove(progress)
		}
	}
}
