package main

import (
	"encoding/binary"
	"math/big"
	"math/rand"
	"sort"
	"strings"
	"time"
	. "zharness/hz"

	"github.com/zenon-network/go-zenon/chain"
	"github.com/zenon-network/go-zenon/chain/account"
	"github.com/zenon-network/go-zenon/chain/genesis"
	g "github.com/zenon-network/go-zenon/chain/genesis/mock"
	"github.com/zenon-network/go-zenon/chain/momentum"
	"github.com/zenon-network/go-zenon/chain/nom"
	"github.com/zenon-network/go-zenon/chain/store"
	"github.com/zenon-network/go-zenon/common/db"
	"github.com/zenon-network/go-zenon/common/types"
	"github.com/zenon-network/go-zenon/vm/constants"
	"github.com/zenon-network/go-zenon/vm/embedded"
	"github.com/zenon-network/go-zenon/vm/embedded/definition"
	"github.com/zenon-network/go-zenon/vm/embedded/implementation"
	"github.com/zenon-network/go-zenon/vm/vm_context"
)

// ---- synthetic momentum store: height, spork list and spork activity supplied
type fakeMS struct {
	store.Momentum
	m      *nom.Momentum
	sporks []*definition.Spork
	active map[*types.ImplementedSpork]bool
}

func (f *fakeMS) GetFrontierMomentum() (*nom.Momentum, error)           { return f.m, nil }
func (f *fakeMS) GetAllDefinedSporks() ([]*definition.Spork, error)     { return f.sporks, nil }
func (f *fakeMS) IsSporkActive(s *types.ImplementedSpork) (bool, error) { return f.active[s], nil }

func momentumAt(h uint64) *nom.Momentum {
	ts := time.Unix(1000000000+int64(h)*10, 0)
	return &nom.Momentum{Height: h, Timestamp: &ts}
}

func errCode(err error) int64 {
	switch err {
	case nil:
		return 0
	case constants.ErrPermissionDenied:
		return 1
	case constants.ErrInvalidTokenOrAmount:
		return 2
	case constants.ErrForbiddenParam:
		return 3
	case constants.ErrUnpackError:
		return 4
	case constants.ErrDataNonExistent:
		return 5
	case constants.ErrAlreadyActivated:
		return 6
	}
	return 99
}

func lookupCode(err error) int64 {
	switch err {
	case nil:
		return 0
	case constants.ErrContractMethodNotFound:
		return 1
	case constants.ErrContractDoesntExist:
		return 2
	case constants.ErrNotContractAddress:
		return 3
	}
	return 99
}

type sporkIds struct {
	m map[types.Hash]int
}

func (s *sporkIds) idx(h types.Hash) int {
	if i, ok := s.m[h]; ok {
		return i
	}
	i := len(s.m) + 1
	s.m[h] = i
	return i
}

func sporkTerm(ids *sporkIds, l []*definition.Spork) []interface{} {
	type e struct {
		i   int
		act bool
		enf uint64
	}
	es := make([]e, 0, len(l))
	for _, s := range l {
		es = append(es, e{ids.idx(s.Id), s.Activated, s.EnforcementHeight})
	}
	sort.Slice(es, func(i, j int) bool { return es[i].i < es[j].i })
	r := Lst()
	for _, x := range es {
		r = append(r, Tup(I64(int64(x.i)), x.act, U64(x.enf)))
	}
	return r
}

func selectorZ(data []byte) int64 {
	if len(data) < 4 {
		return -1
	}
	return int64(binary.BigEndian.Uint32(data[:4]))
}

func contractIndex(a types.Address) int64 {
	for i, c := range types.EmbeddedContracts {
		if c == a {
			return int64(i)
		}
	}
	return 77
}

func hashN(n int) types.Hash {
	var h types.Hash
	h[0] = 0xC1
	h[1] = 0x70
	binary.BigEndian.PutUint32(h[28:], uint32(n))
	return h
}

func runOps(rng *rand.Rand, n int, out *Out, _ []string) {
	Quiet()
	spAddr := g.Spork.Address
	types.SporkAddress = &spAddr
	lookupSweep(rng, out)
	for i := 0; i < n; i++ {
		opsCreate(rng, out)
		opsActivate(rng, out)
		opsUnimplemented(rng, out)
		if i%4 == 0 {
			opsGenesisStore(rng, out)
		}
	}
}

// ---- the real momentum store (chain/momentum IsSporkActive, GetAllDefinedSporks) over the state that the real genesis
// code builds from a GenesisConfig.SporkConfig (the way devnets / testnets ship their sporks: created only, or already
// activated with any enforcement height), viewed at every early height and at heights around the enforcement heights;
// the real GetEmbeddedMethod on a context over that store
func genesisSporkEnforcement(rng *rand.Rand) uint64 {
	switch rng.Intn(5) {
	case 0:
		return uint64(rng.Intn(3)) // 0, 1, 2
	case 1, 2:
		return uint64(rng.Intn(int(constants.SporkMinHeightDelay) + 4)) // everything up to just above the minimum delay
	case 3:
		return uint64(rng.Intn(45))
	}
	return []uint64{1000, 1 << 40, ^uint64(0)}[rng.Intn(3)] // far in the future
}

func randomGenesisSporks(rng *rand.Rand, n int, id func(i int) types.Hash) []*definition.Spork {
	var l []*definition.Spork
	for i := 0; i < n; i++ {
		sp := &definition.Spork{Id: id(i), Name: "spork-genesis", Description: "shipped with the genesis configuration"}
		if rng.Intn(4) != 0 {
			sp.Activated = true
			sp.EnforcementHeight = genesisSporkEnforcement(rng)
		}
		l = append(l, sp)
	}
	return l
}

func opsGenesisStore(rng *rand.Rand, out *Out) {
	ids := &sporkIds{m: map[types.Hash]int{}}
	for i := 1; i <= 6; i++ {
		ids.idx(hashN(i))
	}
	cfg := *g.EmbeddedGenesis
	sporks := randomGenesisSporks(rng, rng.Intn(6), func(i int) types.Hash { return hashN(i + 1) })
	if len(sporks) > 0 || rng.Intn(2) == 0 {
		cfg.SporkConfig = &genesis.SporkConfig{Sporks: sporks}
	}
	gen := genesis.NewGenesis(&cfg)
	mem := db.NewMemDB()
	if err := mem.Apply(gen.GetGenesisTransaction().Changes); err != nil {
		panic(err)
	}
	ms := momentum.NewStore(gen, mem)
	// which of the six ids the binary's three implemented sporks are (or ids that are not defined on this chain)
	savedIds := [3]types.Hash{types.AcceleratorSpork.SporkId, types.HtlcSpork.SporkId, types.BridgeAndLiquiditySpork.SporkId}
	defer func() {
		types.AcceleratorSpork.SporkId, types.HtlcSpork.SporkId, types.BridgeAndLiquiditySpork.SporkId = savedIds[0], savedIds[1], savedIds[2]
	}()
	perm := rng.Perm(6)
	types.AcceleratorSpork.SporkId, types.HtlcSpork.SporkId, types.BridgeAndLiquiditySpork.SporkId = hashN(perm[0]+1), hashN(perm[1]+1), hashN(perm[2]+1)
	role := [4]*types.ImplementedSpork{nil, types.AcceleratorSpork, types.HtlcSpork, types.BridgeAndLiquiditySpork}
	roles := Tup(I64(int64(ids.idx(role[1].SporkId))), I64(int64(ids.idx(role[2].SporkId))), I64(int64(ids.idx(role[3].SporkId))))

	hs := map[uint64]bool{}
	for x := uint64(1); x <= constants.SporkMinHeightDelay+3; x++ {
		hs[x] = true
	}
	for _, sp := range sporks {
		for d := uint64(0); d < 3; d++ {
			if x := sp.EnforcementHeight + d - 1; x >= 1 && x < 1<<62 {
				hs[x] = true
			}
		}
	}
	hs[uint64(10+rng.Intn(40))] = true
	var heights []uint64
	for x := range hs {
		heights = append(heights, x)
	}
	sort.Slice(heights, func(i, j int) bool { return heights[i] < heights[j] })
	pr := probes()
	for _, x := range heights {
		{
			m := gen.GetGenesisMomentum() // height 1 is the genesis momentum itself (the versioned store sets the frontier on commit)
			if x != 1 {
				m = momentumAt(x)
				m.TimestampUnix = uint64(m.Timestamp.Unix())
				m.Hash = hashN(int(1000 + x%100000))
			}
			data, err := m.Serialize()
			if err != nil {
				panic(err)
			}
			if err := db.SetFrontier(mem, m.Identifier(), data); err != nil {
				panic(err)
			}
		}
		fm, err := ms.GetFrontierMomentum()
		if err != nil || fm.Height != x {
			panic("synthetic frontier not stored")
		}
		stored, err := ms.GetAllDefinedSporks()
		if err != nil {
			panic(err)
		}
		out.Oracle(len(stored) == len(sporks), "genesis-sporks-are-in-the-spork-contract", M{"configured": I64(int64(len(sporks))), "stored": I64(int64(len(stored)))})
		st := sporkTerm(ids, stored)
		var act [4]bool
		act[0] = true
		for gi := 1; gi <= 3; gi++ {
			real, err := ms.IsSporkActive(role[gi])
			if err != nil {
				panic(err)
			}
			act[gi] = real
			want, tag := false, "genesis-store:undefined"
			for _, sp := range sporks {
				if sp.Id != role[gi].SporkId {
					continue
				}
				switch {
				case !sp.Activated:
					tag = "genesis-store:created-only"
				case x == 1:
					tag = "genesis-store:height-1"
				case sp.EnforcementHeight > x:
					tag = "genesis-store:below-enforcement"
				case sp.EnforcementHeight <= constants.SporkMinHeightDelay:
					tag = "genesis-store:enforced-within-min-delay"
				default:
					tag = "genesis-store:enforced"
				}
				want = sp.Activated && sp.EnforcementHeight <= x && x != 1
			}
			out.Case("is_active", Tup(U64(x), st, I64(int64(ids.idx(role[gi].SporkId)))), real, tag)
			out.Oracle(real == want, "active-iff-enforcement-height-reached",
				M{"height": U64(x), "sporks": st, "id": I64(int64(ids.idx(role[gi].SporkId))), "active": real, "where": "genesis-configured sporks, real momentum store"})
		}
		nesting := (!act[2] || act[3]) && (!act[3] || act[1])
		ctx := vm_context.NewAccountContext(ms, account.NewAccountStore(g.User1.Address, db.NewMemDB()), nil)
		for _, p := range pr {
			_, err := embedded.GetEmbeddedMethod(ctx, p.contract, p.data)
			code := lookupCode(err)
			tag := []string{"found", "method-not-found", "contract-doesnt-exist", "not-contract-address"}[code%4]
			out.Case("lookup", Tup(U64(x), st, roles, true, I64(contractIndex(p.contract)), I64(selectorZ(p.data))), I64(code), "genesis-store-"+tag)
			if nesting {
				out.Oracle((code == 0) == act[p.guard], "gated-method-follows-its-spork",
					M{"method": p.name, "height": U64(x), "available": code == 0, "spork_active": act[p.guard], "where": "genesis-configured sporks"})
			}
			if p.guard != 0 && act[p.guard] {
				out.Oracle(code == 0, "method-unavailable-although-its-spork-is-enforced", M{"method": p.name, "height": U64(x)})
			}
		}
	}
}

// ---- GetEmbeddedMethod over all 8 combinations of the three activity bits x all contracts x all selectors
func lookupSweep(rng *rand.Rand, out *Out) {
	sels := embedded.VerifAbiSelectors()
	var all [][]byte
	for _, l := range sels {
		all = append(all, l...)
	}
	sort.Slice(all, func(i, j int) bool { return string(all[i]) < string(all[j]) })
	var unknownContract types.Address
	unknownContract[0] = types.ContractAddrByte
	unknownContract[19] = 0x99
	targets := append([]types.Address{}, types.EmbeddedContracts...)
	targets = append(targets, unknownContract, g.User1.Address)
	for bits := 0; bits < 8; bits++ {
		acc, htlc, bridge := bits&1 != 0, bits&2 != 0, bits&4 != 0
		ms := &fakeMS{m: momentumAt(10), active: map[*types.ImplementedSpork]bool{
			types.AcceleratorSpork: acc, types.HtlcSpork: htlc, types.BridgeAndLiquiditySpork: bridge}}
		ctx := vm_context.NewAccountContext(ms, account.NewAccountStore(g.User1.Address, db.NewMemDB()), nil)
		sp := Lst()
		if acc {
			sp = append(sp, Tup(I64(1), true, I64(5)))
		}
		if htlc {
			sp = append(sp, Tup(I64(2), true, I64(5)))
		}
		if bridge {
			sp = append(sp, Tup(I64(3), true, I64(5)))
		}
		for _, t := range targets {
			var cand [][]byte
			cand = append(cand, sels[t]...)
			for k := 0; k < 6 && len(all) > 0; k++ {
				cand = append(cand, all[rng.Intn(len(all))])
			}
			rnd := make([]byte, 4)
			rng.Read(rnd)
			cand = append(cand, rnd, []byte{1, 2}, []byte{})
			for _, sel := range cand {
				data := append(append([]byte{}, sel...), 0, 0, 0)
				if len(sel) < 4 {
					data = sel
				}
				_, err := embedded.GetEmbeddedMethod(ctx, t, data)
				code := lookupCode(err)
				tag := []string{"found", "method-not-found", "contract-doesnt-exist", "not-contract-address"}[code%4]
				tag += map[bool]string{true: "", false: ""}[true]
				bitsTag := ""
				for _, b := range []bool{acc, htlc, bridge} {
					if b {
						bitsTag += "1"
					} else {
						bitsTag += "0"
					}
				}
				out.Case("lookup", Tup(I64(10), sp, Tup(I64(1), I64(2), I64(3)), types.IsEmbeddedAddress(t), I64(contractIndex(t)), I64(selectorZ(data))),
					I64(code), tag+":bits(acc,htlc,bridge)="+bitsTag)
			}
		}
	}
}

// ---- the spork contract on real storage
type synthSporks struct {
	ctx  vm_context.AccountVmContext
	ms   *fakeMS
	ids  *sporkIds
	list []*definition.Spork
}

func newSynthSporks(rng *rand.Rand, h uint64) *synthSporks {
	ms := &fakeMS{m: momentumAt(h)}
	s := &synthSporks{ms: ms, ids: &sporkIds{m: map[types.Hash]int{}}}
	s.ctx = vm_context.NewAccountContext(ms, account.NewAccountStore(types.SporkContract, db.NewMemDB()), nil)
	n := rng.Intn(5)
	for i := 0; i < n; i++ {
		sp := &definition.Spork{Id: hashN(i + 1), Name: "spork-x", Description: "d"}
		s.ids.idx(sp.Id)
		if rng.Intn(2) == 0 {
			sp.Activated = true
			sp.EnforcementHeight = uint64(rng.Intn(40))
			if rng.Intn(2) == 0 && h < 1<<62 { // at the boundary of the store's height
				sp.EnforcementHeight = h + uint64(rng.Intn(3)) - 1
			}
		}
		sp.Save(s.ctx.Storage())
		s.list = append(s.list, sp)
	}
	return s
}
func (s *synthSporks) stored() []*definition.Spork { return definition.GetAllSporks(s.ctx.Storage()) }

func pickSender(rng *rand.Rand) (types.Address, int64) {
	switch rng.Intn(4) {
	case 0:
		return types.CommunitySporkAddress, 1
	case 1:
		return g.User1.Address, 2
	default:
		return g.Spork.Address, 0
	}
}

func setWindow(rng *rand.Rand, h uint64) (uint64, uint64) {
	var start, end uint64
	switch rng.Intn(6) {
	case 0:
		start, end = h, h+1
	case 1:
		start, end = h+1, h+10
	case 2:
		start, end = 0, h
	case 3:
		start, end = 0, h+1
	default:
		start, end = uint64(rng.Intn(30)), uint64(rng.Intn(60))
	}
	definition.CommunitySporkAddressStartHeight, definition.CommunitySporkAddressEndHeight = start, end
	return start, end
}

func opsCreate(rng *rand.Rand, out *Out) {
	h := uint64(2 + rng.Intn(40))
	s := newSynthSporks(rng, h)
	start, end := setWindow(rng, h)
	from, k := pickSender(rng)
	nl := []int{0, 4, 5, 6, 20, 40, 41, 60}[rng.Intn(8)]
	dl := []int{0, 1, 100, 400, 401, 500}[rng.Intn(6)]
	amount := big.NewInt(0)
	if rng.Intn(8) == 0 {
		amount = big.NewInt(1)
	}
	data := definition.ABISpork.PackMethodPanic(definition.SporkCreateMethodName, strings.Repeat("n", nl), strings.Repeat("d", dl))
	dterm := Some(Tup(I64(int64(nl)), I64(int64(dl))))
	if rng.Intn(10) == 0 {
		data = data[:4+rng.Intn(20)]
		dterm = None()
	}
	var hash types.Hash
	rng.Read(hash[:])
	send := &nom.AccountBlock{Address: from, ToAddress: types.SporkContract, Amount: amount, TokenStandard: types.ZnnTokenStandard, Data: data, Hash: hash}
	m := &implementation.CreateSporkMethod{MethodName: definition.SporkCreateMethodName}
	vcopy := *send
	vcopy.Data = append([]byte{}, data...)
	verr := m.ValidateSendBlock(&vcopy)
	out.Case("create_validate", Tup(I64(k), amount.Sign() == 0, dterm), I64(errCode(verr)), []string{"ok", "permission", "amount", "forbidden-param"}[errCode(verr)%4])
	before := sporkTerm(s.ids, s.stored())
	_, rerr := m.ReceiveBlock(s.ctx, send)
	code := errCode(rerr)
	after := Lst()
	if code == 0 {
		after = sporkTerm(s.ids, s.stored())
	}
	tag := map[int64]string{0: "created", 1: "permission", 2: "amount", 3: "forbidden-param"}[code]
	if k == 1 {
		tag += "-community-key"
	}
	out.Case("create_receive", Tup(I64(k), amount.Sign() == 0, dterm, U64(h), U64(start), U64(end), I64(int64(s.ids.idx(hash))), before),
		Tup(I64(code), after), tag)
	// property: only the designated keys create; the community key only inside its window
	if code == 0 {
		okKey := k == 0 || (k == 1 && h >= start && h < end)
		out.Oracle(okKey, "create-requires-designated-key", M{"sender": I64(k), "height": U64(h), "window": Tup(U64(start), U64(end))})
		var created *definition.Spork
		for _, sp := range s.stored() {
			if sp.Id == hash {
				created = sp
			}
		}
		out.Oracle(created != nil && !created.Activated && created.EnforcementHeight == 0, "created-spork-is-not-activated", nil)
	}
}

func opsActivate(rng *rand.Rand, out *Out) {
	h := uint64(2 + rng.Intn(40))
	if rng.Intn(30) == 0 {
		h = ^uint64(0) - uint64(rng.Intn(8)) // enforcement height wraps in uint64
	}
	s := newSynthSporks(rng, h)
	start, end := setWindow(rng, h)
	from, k := pickSender(rng)
	id := hashN(1 + rng.Intn(6))
	amount := big.NewInt(0)
	if rng.Intn(8) == 0 {
		amount = big.NewInt(1)
	}
	data := definition.ABISpork.PackMethodPanic(definition.SporkActivateMethodName, id)
	unpackOk := true
	if rng.Intn(10) == 0 {
		data = data[:4+rng.Intn(20)]
		unpackOk = false
	}
	send := &nom.AccountBlock{Address: from, ToAddress: types.SporkContract, Amount: amount, TokenStandard: types.ZnnTokenStandard, Data: data}
	m := &implementation.ActivateSporkMethod{MethodName: definition.SporkActivateMethodName}
	vcopy := *send
	vcopy.Data = append([]byte{}, data...)
	verr := m.ValidateSendBlock(&vcopy)
	out.Case("activate_validate", Tup(I64(k), amount.Sign() == 0, unpackOk), I64(errCode(verr)), map[int64]string{0: "ok", 1: "permission", 2: "amount", 4: "unpack"}[errCode(verr)])
	var prev *definition.Spork
	for _, sp := range s.stored() {
		if sp.Id == id {
			prev = sp
		}
	}
	before := sporkTerm(s.ids, s.stored())
	_, rerr := m.ReceiveBlock(s.ctx, send)
	code := errCode(rerr)
	after := Lst()
	if code == 0 {
		after = sporkTerm(s.ids, s.stored())
	}
	tag := map[int64]string{0: "activated", 1: "permission", 2: "amount", 4: "unpack", 5: "non-existent", 6: "already-activated"}[code]
	if k == 1 {
		tag += "-community-key"
	}
	out.Case("activate_receive", Tup(I64(k), amount.Sign() == 0, unpackOk, U64(h), U64(start), U64(end), I64(int64(s.ids.idx(id))), before),
		Tup(I64(code), after), tag)
	// the property's own statement on the real method
	if code == 0 {
		okKey := k == 0 || (k == 1 && h >= start && h < end)
		out.Oracle(okKey, "activate-requires-designated-key", M{"sender": I64(k), "height": U64(h), "window": Tup(U64(start), U64(end))})
		out.Oracle(prev != nil && !prev.Activated, "activate-only-once", M{"id": I64(int64(s.ids.idx(id)))})
		var now *definition.Spork
		for _, sp := range s.stored() {
			if sp.Id == id {
				now = sp
			}
		}
		out.Oracle(now != nil && now.Activated && now.EnforcementHeight == h+constants.SporkMinHeightDelay, "enforcement-height-is-ack-height-plus-delay",
			M{"ack_height": U64(h), "enforcement": U64(now.EnforcementHeight)})
		// second activation must fail and change nothing
		_, rerr2 := m.ReceiveBlock(s.ctx, send)
		out.Oracle(rerr2 == constants.ErrAlreadyActivated, "activate-only-once", M{"second": "accepted"})
	} else if prev != nil && prev.Activated && k != 2 && unpackOk && amount.Sign() == 0 && (k == 0 || (h >= start && h < end)) {
		out.Oracle(code == 6, "activate-only-once", M{"code": I64(code)})
	}
}

func opsUnimplemented(rng *rand.Rand, out *Out) {
	h := uint64(1 + rng.Intn(40))
	s := newSynthSporks(rng, h)
	s.ms.sporks = s.stored()
	saved := types.ImplementedSporksMap
	defer func() { types.ImplementedSporksMap = saved }()
	types.ImplementedSporksMap = map[types.Hash]bool{}
	im := Lst()
	for i := 1; i <= 6; i++ {
		if rng.Intn(2) == 0 {
			types.ImplementedSporksMap[hashN(i)] = true
			im = append(im, I64(int64(s.ids.idx(hashN(i)))))
		}
	}
	_, un, err := chain.GotAllActiveSporksImplemented(s.ms)
	if err != nil {
		panic(err)
	}
	idl := make([]int, 0)
	for _, sp := range un {
		idl = append(idl, s.ids.idx(sp.Id))
	}
	sort.Ints(idl)
	ut := Lst()
	for _, i := range idl {
		ut = append(ut, I64(int64(i)))
	}
	tag := "all-implemented"
	if len(un) > 0 {
		tag = "unimplemented"
	}
	out.Case("unimplemented", Tup(U64(h), sporkTerm(s.ids, s.ms.sporks), im), ut, tag)
	// own statement: reported iff some activated spork with enforcement <= height is unknown
	want := false
	for _, sp := range s.ms.sporks {
		if sp.Activated && sp.EnforcementHeight <= h && !types.ImplementedSporksMap[sp.Id] {
			want = true
		}
	}
	out.Oracle(want == (len(un) > 0), "unknown-enforced-spork-is-reported", M{"height": U64(h)})
}
