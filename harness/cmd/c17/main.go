package main

import . "zharness/hz"

// c17: sporks. "ops": the real spork contract methods, GetEmbeddedMethod and GotAllActiveSporksImplemented over
// synthetic contexts; "node": real node histories with sporks created/activated in all orders and gated calls
// at every height around the enforcement heights; "halt": child processes that must exit on an unknown spork.
func main() {
	Main(map[string]Runner{"ops": runOps, "node": runNode, "halt": runHalt, "haltchild": runHaltChild})
}
