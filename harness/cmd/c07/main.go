package main

// c07: versioned store (common/db). Random operation sequences on a real LevelDB manager; every answer is
// logged for the Coq model, and a map-per-version reference (the property's own statement) is the oracle.
import (
	"bytes"
	"encoding/binary"
	"fmt"
	"math/rand"
	"os"
	"runtime/debug"
	"sort"

	"github.com/syndtr/goleveldb/leveldb"

	"github.com/zenon-network/go-zenon/common/db"
	"github.com/zenon-network/go-zenon/common/types"
	. "zharness/hz"
)

func main() {
	Main(map[string]Runner{"store": runStore, "reorg": runReorg, "crash": runCrash, "mem": runMem, "deep": runDeep, "concurrent": runConcurrent})
}

// ---- commits / transactions
type commit struct {
	id, prev types.HashHeight
	data     []byte
}

func (c *commit) Identifier() types.HashHeight { return c.id }
func (c *commit) Previous() types.HashHeight   { return c.prev }
func (c *commit) Serialize() ([]byte, error)   { return c.data, nil }

type tx struct {
	c *commit
	p db.Patch
}

func (t *tx) GetCommits() []db.Commit { return []db.Commit{t.c} }
func (t *tx) StealChanges() db.Patch  { p := t.p; t.p = nil; return p }

type pop struct {
	del  bool
	k, v []byte
}

func mkPatch(ops []pop) db.Patch {
	p := db.NewPatch()
	for _, o := range ops {
		if o.del {
			p.Delete(o.k)
		} else {
			p.Put(o.k, o.v)
		}
	}
	return p
}

type rec struct{ ops []pop }

func (r *rec) Put(k, v []byte) {
	r.ops = append(r.ops, pop{false, append([]byte{}, k...), append([]byte{}, v...)})
}
func (r *rec) Delete(k []byte) { r.ops = append(r.ops, pop{true, append([]byte{}, k...), nil}) }

func patchOps(p db.Patch) []pop {
	r := &rec{}
	if p != nil {
		p.Replay(r)
	}
	return r.ops
}

// ---- terms
func idT(id types.HashHeight) interface{} { return Tup(Byt(id.Hash[:]), U64(id.Height)) }

// value under the frontier-identifier key is compared as (height, hash): be64(height) ++ hash
func canonVal(k, v []byte) []byte {
	if len(k) == 1 && k[0] == 0 && v != nil {
		hh, err := types.DeserializeHashHeight(v)
		if err == nil {
			var b [8]byte
			binary.BigEndian.PutUint64(b[:], hh.Height)
			return append(b[:], hh.Hash[:]...)
		}
	}
	return v
}
func popT(o pop) interface{} {
	if o.del {
		return Con("PDel", Byt(o.k))
	}
	return Con("PPut", Byt(o.k), Byt(canonVal(o.k, o.v)))
}
func patchT(ops []pop) interface{} {
	l := Lst()
	for _, o := range ops {
		l = append(l, popT(o))
	}
	return l
}

// ---- reference: content of the store after each commit of the current chain
type ref struct {
	chain  []types.HashHeight // current chain, oldest first (index 0 = zero id)
	states map[types.HashHeight]map[string][]byte
	patch  map[types.HashHeight][]pop
}

func newRef() *ref {
	r := &ref{states: map[types.HashHeight]map[string][]byte{}, patch: map[types.HashHeight][]pop{}}
	r.chain = []types.HashHeight{types.ZeroHashHeight}
	r.states[types.ZeroHashHeight] = map[string][]byte{}
	return r
}
func (r *ref) frontier() types.HashHeight { return r.chain[len(r.chain)-1] }
func (r *ref) onChain(id types.HashHeight) bool {
	for _, c := range r.chain {
		if c == id {
			return true
		}
	}
	return false
}
func frontierOps(c *commit) []pop {
	h := make([]byte, 8)
	binary.BigEndian.PutUint64(h, c.id.Height)
	return []pop{
		{false, []byte{0}, c.id.Serialize()},
		{false, append([]byte{1}, c.id.Hash[:]...), h},
		{false, append([]byte{2}, h...), c.data},
	}
}
func applyOps(m map[string][]byte, ops []pop) map[string][]byte {
	n := make(map[string][]byte, len(m)+len(ops))
	for k, v := range m {
		n[k] = v
	}
	for _, o := range ops {
		if o.del {
			delete(n, string(o.k))
		} else {
			n[string(o.k)] = o.v
		}
	}
	return n
}
func (r *ref) add(c *commit, ops []pop) {
	all := append(append([]pop{}, ops...), frontierOps(c)...)
	r.states[c.id] = applyOps(r.states[r.frontier()], all)
	r.patch[c.id] = all
	r.chain = append(r.chain, c.id)
}
func (r *ref) pop() {
	f := r.frontier()
	delete(r.states, f)
	delete(r.patch, f)
	r.chain = r.chain[:len(r.chain)-1]
}

// a view as the reference sees it: base content + local writes (nil = deleted)
type rview struct {
	v             db.DB
	base          map[string][]byte
	parent        *rview            // a snapshot reads through its (live) parent: writes are visible to descendants
	local         map[string][]byte // value nil => deleted locally
	sub           []byte            // non-nil: this view is parent.Subset(sub): a window, writes go to the parent
	frontierBased bool              // opened at the frontier (or zero): deleted keys of the frontier may surface with a nil value
}

// own writes of the view as its Changes() must report them
func (rv *rview) writes() map[string][]byte {
	if rv.sub != nil {
		m := map[string][]byte{}
		for k, v := range rv.parent.writes() {
			if bytes.HasPrefix([]byte(k), rv.sub) {
				m[k[len(rv.sub):]] = v
			}
		}
		return m
	}
	return rv.local
}

// may the iterator legitimately yield nil-valued entries (the store's convention for deleted keys)?
func (rv *rview) nilAllowed() bool {
	if rv.frontierBased {
		return true
	}
	for _, v := range rv.local {
		if v == nil {
			return true
		}
	}
	if rv.parent != nil {
		return rv.parent.nilAllowed()
	}
	return false
}

func (rv *rview) write(k []byte, v []byte) {
	if rv.sub != nil {
		rv.parent.write(append(append([]byte{}, rv.sub...), k...), v)
		return
	}
	rv.local[string(k)] = v
}

func (rv *rview) content() map[string][]byte {
	if rv.sub != nil {
		m := map[string][]byte{}
		for k, v := range rv.parent.content() {
			if bytes.HasPrefix([]byte(k), rv.sub) {
				m[k[len(rv.sub):]] = v
			}
		}
		return m
	}
	m := map[string][]byte{}
	if rv.parent != nil {
		m = rv.parent.content()
	}
	for k, v := range rv.base {
		m[k] = v
	}
	for k, v := range rv.local {
		if v == nil {
			delete(m, k)
		} else {
			m[k] = v
		}
	}
	return m
}

// underSubset: the keys of this view are relative to a Subset prefix (which never starts with a frontier-key byte)
func (rv *rview) underSubset() bool {
	for v := rv; v != nil; v = v.parent {
		if v.sub != nil {
			return true
		}
	}
	return false
}

func sortedKeys(m map[string][]byte) []string {
	ks := make([]string, 0, len(m))
	for k := range m {
		ks = append(ks, k)
	}
	sort.Strings(ks)
	return ks
}

// ---- generators
var alphabet = []byte{3, 4, 5, 9}

func genKey(rng *rand.Rand) []byte {
	n := 1 + rng.Intn(3)
	k := make([]byte, n)
	for i := range k {
		k[i] = alphabet[rng.Intn(len(alphabet))]
	}
	return k
}

// genKeyE: keys for WRITES (commit patches, writes through views): now and then the zero-length key, which is a key like
// any other for the store (at top level it sorts before everything; inside a Subset it is the key equal to the prefix)
func genKeyE(rng *rand.Rand) []byte {
	if rng.Intn(10) == 0 {
		return []byte{}
	}
	return genKey(rng)
}
func genVal(rng *rand.Rand) []byte {
	switch rng.Intn(5) {
	case 0:
		return []byte{}
	case 1:
		return []byte{0}
	}
	v := make([]byte, 1+rng.Intn(3))
	rng.Read(v)
	return v
}

// user keys never collide with the manager's own frontier keys (first byte 0, 1, 2)
func userKeys(ks []string) []string {
	var r []string
	for _, k := range ks {
		if len(k) > 0 && k[0] >= 3 {
			r = append(r, k)
		}
	}
	return r
}

func genPatch(rng *rand.Rand, existing []string) []pop {
	existing = userKeys(existing)
	n := rng.Intn(5)
	var ops []pop
	for i := 0; i < n; i++ {
		var k []byte
		if len(existing) > 0 && rng.Intn(2) == 0 {
			k = []byte(existing[rng.Intn(len(existing))])
		} else {
			k = genKeyE(rng)
		}
		if rng.Intn(3) == 0 {
			ops = append(ops, pop{true, k, nil})
		} else {
			ops = append(ops, pop{false, k, genVal(rng)})
		}
	}
	return ops
}

var hashCounter uint32

func freshHash(rng *rand.Rand) types.Hash {
	var h types.Hash
	hashCounter++
	binary.BigEndian.PutUint32(h[:4], hashCounter)
	h[31] = byte(rng.Intn(256))
	return h
}

// ---- one sequence
type seqRun struct {
	rng        *rand.Rand
	out        *Out
	m          db.Manager
	r          *ref
	views      map[int]*rview
	ops        []interface{}
	ans        []interface{}
	tag        map[string]bool
	nonTrivial bool
	past       []types.HashHeight // every id ever committed (also abandoned ones)
	nview      int                // views are numbered in order of creation, numbers are never reused
	memMode    bool
	deep       bool
	made       map[types.HashHeight]madeCommit // every commit made on the frontier, with its patch
	popped     *madeCommit                     // the commit the last Pop took off (re-delivered now and then)
}

type madeCommit struct {
	c   *commit
	ops []pop
}

func (s *seqRun) op(o interface{}, a interface{}) {
	if s.memMode {
		if c, ok := o.(M); ok {
			if name, _ := c["c"].(string); len(name) > 2 && name[:2] == "OV" {
				o = Con("MView", o)
			}
		}
	}
	s.ops = append(s.ops, o)
	s.ans = append(s.ans, a)
}

func valOpt(v []byte, found bool) interface{} {
	if !found {
		return None()
	}
	return Some(Byt(v))
}

func (s *seqRun) doAdd(stale bool) {
	prev := s.r.frontier()
	if stale {
		// a parent that is not the frontier: an older id of the chain, an abandoned id, or the zero id
		cands := append([]types.HashHeight{}, s.r.chain[:len(s.r.chain)-1]...)
		cands = append(cands, s.past...)
		if len(cands) == 0 {
			return
		}
		prev = cands[s.rng.Intn(len(cands))]
		if prev == s.r.frontier() {
			return
		}
		s.tag["stale-parent"] = true
	}
	c := &commit{prev: prev, id: types.HashHeight{Hash: freshHash(s.rng), Height: prev.Height + 1}, data: genVal(s.rng)}
	base := s.r.states[s.r.frontier()]
	ops := genPatch(s.rng, sortedKeys(base))
	before := s.snapshotAll()
	err := s.m.Add(&tx{c: c, p: mkPatch(ops)})
	s.op(Con("OAdd", idT(prev), idT(c.id), Byt(c.data), patchT(ops)), Con("ABool", err == nil))
	if !stale {
		if err != nil {
			s.out.Oracle(false, "add-on-frontier-failed", M{"err": err.Error()})
			return
		}
		s.r.add(c, ops)
		s.past = append(s.past, c.id)
		if s.made == nil {
			s.made = map[types.HashHeight]madeCommit{}
		}
		s.made[c.id] = madeCommit{c, ops}
		s.popped = nil
		s.checkFrontier("add-applies-patch")
	} else {
		// property: any other parent is refused without changing the store
		after := s.snapshotAll()
		s.out.Oracle(before == after, "stale-parent-changed-store", M{"prev": fmt.Sprint(prev), "frontier": fmt.Sprint(s.r.frontier())})
	}
}

// full dump of the frontier as seen through the API (nil values skipped)
func dump(d db.DB) string {
	var sb bytes.Buffer
	it := d.NewIterator(nil)
	defer it.Release()
	for it.Next() {
		if it.Value() == nil {
			continue
		}
		fmt.Fprintf(&sb, "%x=%x;", it.Key(), it.Value())
	}
	return sb.String()
}
func (s *seqRun) snapshotAll() string {
	f := s.m.Frontier()
	return dump(f) + "|" + fmt.Sprint(db.GetFrontierIdentifier(f))
}
func refDump(m map[string][]byte) string {
	var sb bytes.Buffer
	for _, k := range sortedKeys(m) {
		fmt.Fprintf(&sb, "%x=%x;", k, m[k])
	}
	return sb.String()
}
func (s *seqRun) checkFrontier(key string) {
	got := dump(s.m.Frontier())
	want := refDump(s.r.states[s.r.frontier()])
	s.out.Oracle(got == want, key, M{"got": got, "want": want})
}

func (s *seqRun) doPop() {
	if len(s.r.chain) <= 1 {
		return
	}
	err := s.m.Pop()
	s.op(Con("OPop"), Con("ABool", err == nil))
	if err != nil {
		s.out.Oracle(false, "pop-failed", M{"err": err.Error()})
		return
	}
	top := s.r.frontier()
	s.r.pop()
	s.tag["pop"] = true
	s.checkFrontier("pop-restores-previous-state")
	s.popped = nil
	if mc, ok := s.made[top]; ok {
		s.popped = &mc
	}
}

// doReAdd: the commit that was just rolled back is delivered again — the same identifier, the same patch (what a node
// does that abandoned a branch and then meets it again, or that was interrupted in a reorganisation): it applies again
// and the store is what it was before the rollback
func (s *seqRun) doReAdd() {
	if s.popped == nil || s.popped.c.prev != s.r.frontier() {
		return
	}
	mc := *s.popped
	s.popped = nil
	err := s.m.Add(&tx{c: mc.c, p: mkPatch(mc.ops)})
	s.op(Con("OAdd", idT(mc.c.prev), idT(mc.c.id), Byt(mc.c.data), patchT(mc.ops)), Con("ABool", err == nil))
	if err != nil {
		s.out.Oracle(false, "re-delivered-commit-refused", M{"err": err.Error(), "id": fmt.Sprint(mc.c.id)})
		return
	}
	s.r.add(mc.c, mc.ops)
	s.tag["re-add-after-pop"] = true
	s.checkFrontier("re-delivered-commit-applies-again")
}

func (s *seqRun) doGet(slot int) {
	// any id: on chain (any depth), abandoned, unknown, zero, frontier
	var id types.HashHeight
	switch s.rng.Intn(10) {
	case 0:
		id = types.ZeroHashHeight
	case 1:
		id = types.HashHeight{Hash: freshHash(s.rng), Height: uint64(1 + s.rng.Intn(5))}
	case 2:
		if len(s.past) > 0 {
			id = s.past[s.rng.Intn(len(s.past))]
		}
	case 3:
		id = s.r.frontier()
	case 4: // right hash, wrong height
		id = s.r.chain[s.rng.Intn(len(s.r.chain))]
		id.Height += 1
	default:
		id = s.r.chain[s.rng.Intn(len(s.r.chain))]
	}
	if s.deep && s.rng.Intn(2) == 0 && len(s.r.chain) > 6 {
		id = s.r.chain[1+s.rng.Intn(5)]
	}
	v := s.m.Get(id)
	kind := int64(1)
	if v == nil {
		kind = 0
	}
	s.op(Con("OGet", I64(int64(slot)), idT(id)), Con("AKind", I64(kind)))
	exp := s.r.onChain(id)
	s.out.Oracle((v != nil) == exp, "get-availability", M{"id": fmt.Sprint(id), "on_chain": exp, "got_view": v != nil})
	if v == nil {
		delete(s.views, slot)
		return
	}
	if id != s.r.frontier() && !id.IsZero() {
		s.tag["historical-view"] = true
	}
	s.views[slot] = &rview{v: v, base: s.r.states[id], local: map[string][]byte{}, frontierBased: id == s.r.frontier() || id.IsZero()}
}

// open a view at id and scan it completely
func (s *seqRun) scanAt(id types.HashHeight) {
	s.nview++
	v := s.m.Get(id)
	kind := int64(1)
	if v == nil {
		kind = 0
	}
	s.op(Con("OGet", I64(int64(s.nview)), idT(id)), Con("AKind", I64(kind)))
	s.out.Oracle((v != nil) == s.r.onChain(id), "get-availability", M{"id": fmt.Sprint(id)})
	if v == nil {
		return
	}
	rv := &rview{v: v, base: s.r.states[id], local: map[string][]byte{}}
	s.views[s.nview] = rv
	rv.frontierBased = id == s.r.frontier() || id.IsZero()
	it := v.NewIterator(nil)
	l := Lst()
	var got bytes.Buffer
	for it.Next() {
		if it.Value() == nil {
			if !rv.nilAllowed() {
				s.out.Oracle(false, "historical-scan-lists-absent-key", M{"key": fmt.Sprintf("%x", it.Key())})
			}
			continue
		}
		l = append(l, Tup(Byt(it.Key()), Byt(canonVal(it.Key(), it.Value()))))
		fmt.Fprintf(&got, "%x=%x;", it.Key(), it.Value())
	}
	it.Release()
	s.op(Con("OVScan", I64(int64(s.nview)), Byt(nil)), Con("AScan", l))
	s.out.Oracle(got.String() == refDump(rv.content()), "view-scan-exact", M{"id": fmt.Sprint(id), "got": got.String(), "want": refDump(rv.content())})
}

func (s *seqRun) pickSlot() (int, *rview) {
	if len(s.views) == 0 {
		return 0, nil
	}
	ks := make([]int, 0, len(s.views))
	for k := range s.views {
		ks = append(ks, k)
	}
	sort.Ints(ks)
	if len(ks) > 6 && s.rng.Intn(3) != 0 {
		ks = ks[len(ks)-6:]
	}
	k := ks[s.rng.Intn(len(ks))]
	return k, s.views[k]
}

func (s *seqRun) someKey(rv *rview) []byte {
	c := rv.content()
	ks := sortedKeys(c)
	// keys of the whole history are interesting too (created after / deleted before the view's commit)
	for _, st := range s.r.states {
		for k := range st {
			ks = append(ks, k)
		}
	}
	sort.Strings(ks)
	if len(ks) > 0 && s.rng.Intn(4) != 0 {
		return []byte(ks[s.rng.Intn(len(ks))])
	}
	return genKey(s.rng)
}

func (s *seqRun) doRead(slot int, rv *rview) {
	c := rv.content()
	switch s.rng.Intn(3) {
	case 0:
		k := s.someKey(rv)
		v, err := rv.v.Get(k)
		found := err == nil
		if err != nil && err != leveldb.ErrNotFound {
			s.out.Oracle(false, "view-get-error", M{"err": err.Error()})
		}
		s.op(Con("OVGet", I64(int64(slot)), Byt(k)), Con("AOpt", valOpt(canonVal(k, v), found)))
		want, ok := c[string(k)]
		s.out.Oracle(found == ok && (!ok || bytes.Equal(v, want)), "view-get-exact",
			M{"key": fmt.Sprintf("%x", k), "got_found": found, "got": fmt.Sprintf("%x", v), "want_found": ok, "want": fmt.Sprintf("%x", want)})
	case 1:
		k := s.someKey(rv)
		h, _ := rv.v.Has(k)
		s.op(Con("OVHas", I64(int64(slot)), Byt(k)), Con("ABool", h))
		_, ok := c[string(k)]
		s.out.Oracle(h == ok, "view-has-exact", M{"key": fmt.Sprintf("%x", k), "got": h, "want": ok})
	case 2:
		var p []byte
		if s.rng.Intn(2) == 0 {
			p = genKey(s.rng)[:1]
		}
		it := rv.v.NewIterator(p)
		l := Lst()
		var got bytes.Buffer
		for it.Next() {
			if it.Value() == nil {
				// a historical view must not list keys that were absent at its commit, not even with a nil value
				if !rv.nilAllowed() {
					s.out.Oracle(false, "historical-scan-lists-absent-key", M{"key": fmt.Sprintf("%x", it.Key())})
				}
				continue
			}
			l = append(l, Tup(Byt(it.Key()), Byt(canonVal(it.Key(), it.Value()))))
			fmt.Fprintf(&got, "%x=%x;", it.Key(), it.Value())
		}
		it.Release()
		s.op(Con("OVScan", I64(int64(slot)), Byt(p)), Con("AScan", l))
		var want bytes.Buffer
		for _, k := range sortedKeys(c) {
			if bytes.HasPrefix([]byte(k), p) {
				fmt.Fprintf(&want, "%x=%x;", k, c[k])
			}
		}
		s.out.Oracle(got.String() == want.String(), "view-scan-exact", M{"prefix": fmt.Sprintf("%x", p), "got": got.String(), "want": want.String()})
	}
}

func (s *seqRun) doWrite(slot int, rv *rview) {
	k := s.someKey(rv)
	if len(k) > 0 && k[0] < 3 {
		k = genKey(s.rng) // never the manager's own frontier keys (canonVal reads their values as hash-heights)
	}
	if s.rng.Intn(8) == 0 {
		k = []byte{} // the zero-length key (inside a Subset: the key equal to the prefix)
		s.tag["view-write-empty-key"] = true
	}
	switch s.rng.Intn(4) {
	case 0:
		rv.v.Delete(k)
		rv.write(k, nil)
		s.op(Con("OVDel", I64(int64(slot)), Byt(k)), Con("AUnit"))
	case 1: // Apply(patch): several writes at once
		ops := genPatch(s.rng, sortedKeys(rv.content()))
		if err := rv.v.Apply(mkPatch(ops)); err != nil {
			s.out.Oracle(false, "view-apply-error", M{"err": err.Error()})
		}
		for _, o := range ops {
			if o.del {
				rv.write(o.k, nil)
			} else {
				rv.write(o.k, o.v)
			}
		}
		s.op(Con("OVApply", I64(int64(slot)), patchT(ops)), Con("AUnit"))
		s.tag["view-apply"] = true
	default:
		v := genVal(s.rng)
		rv.v.Put(k, v)
		rv.write(k, v)
		s.op(Con("OVPut", I64(int64(slot)), Byt(k), Byt(v)), Con("AUnit"))
	}
	s.tag["view-write"] = true
}

// doShadow: a Delete of a key that exists in NONE of the view's layers, through a descendant view, then the same key
// written through the view it descends from: the delete is a write of the descendant like any other — it stays in its
// change set and keeps hiding the key from the descendant whatever the ancestors get later
func (s *seqRun) doShadow(slot int, rv *rview) bool {
	if rv.parent == nil || rv.sub != nil || rv.parent.sub != nil {
		return false
	}
	pslot := -1
	for sl, v := range s.views {
		if v == rv.parent {
			pslot = sl
		}
	}
	if pslot < 0 {
		return false
	}
	c := rv.content()
	var k []byte
	for try := 0; try < 20; try++ {
		k = genKey(s.rng)
		if _, ok := c[string(k)]; !ok {
			break
		}
		k = nil
	}
	if k == nil {
		return false
	}
	rv.v.Delete(k)
	rv.write(k, nil)
	s.op(Con("OVDel", I64(int64(slot)), Byt(k)), Con("AUnit"))
	if s.rng.Intn(3) != 0 {
		v := genVal(s.rng)
		rv.parent.v.Put(k, v)
		rv.parent.write(k, v)
		s.op(Con("OVPut", I64(int64(pslot)), Byt(k), Byt(v)), Con("AUnit"))
	}
	// the descendant: lookup, presence, scan, change set
	cc := rv.content()
	got, err := rv.v.Get(k)
	found := err == nil
	s.op(Con("OVGet", I64(int64(slot)), Byt(k)), Con("AOpt", valOpt(canonVal(k, got), found)))
	_, want := cc[string(k)]
	s.out.Oracle(found == want, "view-get-exact", M{"key": fmt.Sprintf("%x", k), "got_found": found, "want_found": want, "after": "delete of an absent key through this view, then a write of it through its ancestor"})
	h, _ := rv.v.Has(k)
	s.op(Con("OVHas", I64(int64(slot)), Byt(k)), Con("ABool", h))
	s.out.Oracle(h == want, "view-has-exact", M{"key": fmt.Sprintf("%x", k), "got": h, "want": want, "after": "delete of an absent key through this view"})
	s.doChanges(slot, rv)
	// the change set holds the delete: replayed on a state that HAS the key it removes it
	p, perr := rv.v.Changes()
	if perr == nil && p != nil {
		inSet := false
		for _, o := range patchOps(p) {
			inSet = inSet || (bytes.Equal(o.k, k) && o.del)
		}
		s.out.Oracle(inSet, "changes-hold-every-write-of-the-view", M{"key": fmt.Sprintf("%x", k), "write": "delete of a key absent below"})
	}
	s.tag["delete-of-absent-key"] = true
	return true
}

func (s *seqRun) doSub(slot int, rv *rview, nslot int) {
	c := rv.content()
	var p []byte
	ks := userKeys(sortedKeys(c))
	if len(ks) > 0 && s.rng.Intn(3) != 0 {
		k := ks[s.rng.Intn(len(ks))]
		p = []byte(k[:1+s.rng.Intn(len(k))])
	} else {
		p = genKey(s.rng)[:1]
	}
	sn := rv.v.Subset(p)
	s.views[nslot] = &rview{v: sn, parent: rv, sub: append([]byte{}, p...)}
	s.op(Con("OVSub", I64(int64(slot)), I64(int64(nslot)), Byt(p)), Con("AUnit"))
	s.tag["subset"] = true
}

func (s *seqRun) doSnap(slot int, rv *rview, nslot int) {
	sn := rv.v.Snapshot()
	s.views[nslot] = &rview{v: sn, parent: rv, local: map[string][]byte{}}
	s.op(Con("OVSnap", I64(int64(slot)), I64(int64(nslot))), Con("AUnit"))
	s.tag["snapshot"] = true
}

func (s *seqRun) doChanges(slot int, rv *rview) {
	p, err := rv.v.Changes()
	if err != nil {
		s.out.Oracle(false, "changes-error", M{"err": err.Error()})
		return
	}
	ops := patchOps(p)
	s.op(Con("OVChanges", I64(int64(slot))), Con("APatch", patchT(ops)))
	// property: the change set replays to exactly the view's writes
	// what the view shows without its own writes
	below := map[string][]byte{}
	cont := rv.content()
	for k, v := range cont {
		below[k] = v
	}
	var withoutOwn func(r *rview) map[string][]byte
	withoutOwn = func(r *rview) map[string][]byte {
		if r.sub != nil {
			m := map[string][]byte{}
			for k, v := range withoutOwn(r.parent) {
				if bytes.HasPrefix([]byte(k), r.sub) {
					m[k[len(r.sub):]] = v
				}
			}
			return m
		}
		m := map[string][]byte{}
		if r.parent != nil {
			m = r.parent.content()
		}
		for k, v := range r.base {
			m[k] = v
		}
		return m
	}
	below = withoutOwn(rv)
	replayed := applyOps(below, ops)
	s.out.Oracle(refDump(replayed) == refDump(rv.content()), "changes-replay-exact", M{"got": refDump(replayed), "want": refDump(rv.content())})
	sorted := true
	for i := 1; i < len(ops); i++ {
		if bytes.Compare(ops[i-1].k, ops[i].k) >= 0 {
			sorted = false
		}
	}
	s.out.Oracle(sorted, "changes-sorted", M{})
}

func runSeq(rng *rand.Rand, out *Out, steps int, mode string) {
	dir, _ := os.MkdirTemp("", "c07")
	defer os.RemoveAll(dir)
	m := db.NewLevelDBManager(dir)
	defer m.Stop()
	s := &seqRun{rng: rng, out: out, m: m, r: newRef(), views: map[int]*rview{}, tag: map[string]bool{}}
	defer func() {
		// a panic inside the store is a failure of the property (an operation must answer or refuse)
		if r := recover(); r != nil {
			st := string(debug.Stack())
			if len(st) > 2500 {
				st = st[:2500]
			}
			out.Oracle(false, "store-panic", M{"panic": fmt.Sprint(r), "ops_so_far": len(s.ops), "stack": st})
		}
	}()
	if mode == "deep" {
		// a chain longer than the cache-distance threshold (360): views of the oldest commits go to the second cache
		s.deep = true
		for i := 0; i < 368+rng.Intn(8); i++ {
			s.doAdd(false)
		}
		s.tag["deep-chain"] = true
	}
	for i := 0; i < steps; i++ {
		x := rng.Intn(100)
		switch {
		case x < 18:
			s.doAdd(false)
		case x < 22:
			s.doAdd(true)
		case x < 30:
			if mode == "reorg" || rng.Intn(2) == 0 {
				s.doPop()
				if s.rng.Intn(3) == 0 {
					s.doReAdd()
				}
			}
		case x < 45:
			s.nview++
			s.doGet(s.nview)
		case x < 48:
			db.VerifEvictCaches(m)
			s.op(Con("OEvict"), Con("AUnit"))
			s.tag["evict"] = true
		case x < 52:
			if sl, rv := s.pickSlot(); rv != nil {
				s.nview++
				s.doSnap(sl, rv, s.nview)
			}
		case x < 55:
			if sl, rv := s.pickSlot(); rv != nil {
				s.nview++
				s.doSub(sl, rv, s.nview)
			}
		case x < 62:
			if sl, rv := s.pickSlot(); rv != nil {
				if rng.Intn(4) != 0 || !s.doShadow(sl, rv) {
					s.doWrite(sl, rv)
				}
			}
		case x < 68:
			if sl, rv := s.pickSlot(); rv != nil {
				s.doChanges(sl, rv)
			}
		case x < 70:
			id := s.r.chain[rng.Intn(len(s.r.chain))]
			p := m.GetPatch(id)
			if p == nil {
				s.op(Con("OGetPatch", idT(id)), Con("AOptPatch", None()))
			} else {
				s.op(Con("OGetPatch", idT(id)), Con("AOptPatch", Some(patchT(patchOps(p)))))
			}
		default:
			if sl, rv := s.pickSlot(); rv != nil {
				s.doRead(sl, rv)
			}
		}
	}
	if mode == "deep" {
		// view of an old commit, a switch of the top of the chain, the same view again: full scans
		for round := 0; round < 3 && len(s.r.chain) > 8; round++ {
			id := s.r.chain[1+rng.Intn(5)]
			s.scanAt(id)
			k := 1 + rng.Intn(3)
			for j := 0; j < k; j++ {
				s.doPop()
				if s.rng.Intn(3) == 0 {
					s.doReAdd()
				}
			}
			for j := 0; j < k+1; j++ {
				s.doAdd(false)
			}
			s.scanAt(id)
		}
	}
	tags := make([]string, 0, len(s.tag))
	for t := range s.tag {
		tags = append(tags, t)
	}
	sort.Strings(tags)
	tg := "plain"
	if len(tags) > 0 {
		tg = fmt.Sprint(tags)
	}
	out.Case("store_run", Lst(s.ops...), Lst(s.ans...), tg)
	for _, t := range tags {
		out.Count("seq-with:" + t)
	}
}

func runStore(rng *rand.Rand, n int, out *Out, _ []string) {
	for i := 0; i < n; i++ {
		runSeq(rng, out, 40+rng.Intn(40), "store")
	}
}
func runDeep(rng *rand.Rand, n int, out *Out, _ []string) {
	for i := 0; i < n; i++ {
		runSeq(rng, out, 40+rng.Intn(30), "deep")
	}
}
func runReorg(rng *rand.Rand, n int, out *Out, _ []string) {
	for i := 0; i < n; i++ {
		runSeq(rng, out, 60+rng.Intn(40), "reorg")
	}
}
