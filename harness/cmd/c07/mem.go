package main

// mem suite: the in-memory versioned store (memdbManager) with multi-commit transactions.
import (
	"fmt"
	"math/rand"
	"sort"

	"github.com/zenon-network/go-zenon/common/db"
	"github.com/zenon-network/go-zenon/common/types"
	. "zharness/hz"
)

type mtx struct {
	cs []*commit
	p  db.Patch
}

func (t *mtx) GetCommits() []db.Commit {
	l := make([]db.Commit, len(t.cs))
	for i, c := range t.cs {
		l[i] = c
	}
	return l
}
func (t *mtx) StealChanges() db.Patch { p := t.p; t.p = nil; return p }

type memRef struct {
	frontier types.HashHeight
	prev     map[types.HashHeight]types.HashHeight   // only for heads
	states   map[types.HashHeight]map[string][]byte  // every id the manager may serve exactly (live chain)
	live     []types.HashHeight                      // heads, oldest first
	inter    map[types.HashHeight][]types.HashHeight // head -> its intermediate commits
}

func runMem(rng *rand.Rand, n int, out *Out, _ []string) {
	for i := 0; i < n; i++ {
		memSeq(rng, out, 40+rng.Intn(40))
	}
}

func memSeq(rng *rand.Rand, out *Out, steps int) {
	m := db.NewMemDBManager(db.NewMemDB())
	s := &seqRun{rng: rng, out: out, m: m, r: newRef(), views: map[int]*rview{}, tag: map[string]bool{}, memMode: true}
	r := &memRef{frontier: types.ZeroHashHeight, prev: map[types.HashHeight]types.HashHeight{},
		states: map[types.HashHeight]map[string][]byte{types.ZeroHashHeight: {}}, inter: map[types.HashHeight][]types.HashHeight{}}
	var past []types.HashHeight
	defer func() {
		if rec := recover(); rec != nil {
			out.Oracle(false, "memstore-panic", M{"panic": fmt.Sprint(rec), "ops_so_far": len(s.ops)})
		}
	}()
	for i := 0; i < steps; i++ {
		x := rng.Intn(100)
		switch {
		case x < 22: // add (on frontier or stale), 1..3 commits
			prev := r.frontier
			stale := rng.Intn(5) == 0 && len(past) > 0
			if stale {
				prev = past[rng.Intn(len(past))]
				if rng.Intn(3) == 0 {
					prev = types.ZeroHashHeight
				}
				if prev == r.frontier {
					stale = false
				}
			}
			nc := 1 + rng.Intn(3)
			var cs []*commit
			p := prev
			cl := Lst()
			var headT interface{}
			for j := 0; j < nc; j++ {
				c := &commit{prev: p, id: types.HashHeight{Hash: freshHash(rng), Height: p.Height + 1}, data: genVal(rng)}
				cs = append(cs, c)
				if j < nc-1 {
					cl = append(cl, Tup(idT(c.id), Byt(c.data)))
				} else {
					headT = Tup(idT(c.id), Byt(c.data))
				}
				p = c.id
			}
			ops := genPatch(rng, sortedKeys(r.states[r.frontier]))
			before := memDump(m)
			err := m.Add(&mtx{cs: cs, p: mkPatch(ops)})
			s.ops = append(s.ops, Con("MAdd", idT(prev), cl, headT, patchT(ops)))
			s.ans = append(s.ans, Con("ABool", err == nil))
			if stale {
				s.tag["stale-parent"] = true
				out.Oracle(err != nil && memDump(m) == before, "mem-stale-parent-changed-store", M{"err": fmt.Sprint(err)})
			} else {
				if err != nil {
					out.Oracle(false, "mem-add-on-frontier-failed", M{"err": err.Error()})
					continue
				}
				all := append([]pop{}, ops...)
				for _, c := range cs {
					all = append(all, frontierOps(c)...)
				}
				st := applyOps(r.states[r.frontier], all)
				head := cs[len(cs)-1].id
				r.states[head] = st
				r.prev[head] = prev
				for _, c := range cs[:len(cs)-1] {
					r.states[c.id] = st
					r.inter[head] = append(r.inter[head], c.id)
				}
				r.live = append(r.live, head)
				r.frontier = head
				for _, c := range cs {
					past = append(past, c.id)
				}
				if nc > 1 {
					s.tag["multi-commit"] = true
				}
				out.Oracle(memDump(m) == refDump(st), "mem-add-applies-patch", M{})
			}
		case x < 30:
			if len(r.live) == 0 {
				err := m.Pop()
				s.ops = append(s.ops, Con("MPop"))
				s.ans = append(s.ans, Con("ABool", err == nil))
				out.Oracle(err != nil, "mem-pop-of-stable-accepted", M{})
				continue
			}
			err := m.Pop()
			s.ops = append(s.ops, Con("MPop"))
			s.ans = append(s.ans, Con("ABool", err == nil))
			if err != nil {
				out.Oracle(false, "mem-pop-failed", M{"err": err.Error()})
				continue
			}
			head := r.live[len(r.live)-1]
			r.live = r.live[:len(r.live)-1]
			delete(r.states, head)
			for _, c := range r.inter[head] {
				delete(r.states, c)
			}
			delete(r.inter, head)
			r.frontier = r.prev[head]
			delete(r.prev, head)
			s.tag["pop"] = true
			out.Oracle(memDump(m) == refDump(r.states[r.frontier]), "mem-pop-restores-previous-state", M{})
		case x < 45:
			var id types.HashHeight
			switch rng.Intn(6) {
			case 0:
				id = types.ZeroHashHeight
			case 1:
				id = types.HashHeight{Hash: freshHash(rng), Height: uint64(1 + rng.Intn(5))}
			case 2:
				if len(past) > 0 {
					id = past[rng.Intn(len(past))]
				}
			default:
				ks := make([]types.HashHeight, 0, len(r.states))
				for k := range r.states {
					ks = append(ks, k)
				}
				sort.Slice(ks, func(a, b int) bool {
					return ks[a].Height < ks[b].Height || (ks[a].Height == ks[b].Height && string(ks[a].Hash[:]) < string(ks[b].Hash[:]))
				})
				id = ks[rng.Intn(len(ks))]
			}
			s.nview++
			v := m.Get(id)
			kind := int64(1)
			if v == nil {
				kind = 0
			}
			s.ops = append(s.ops, Con("MGet", I64(int64(s.nview)), idT(id)))
			s.ans = append(s.ans, Con("AKind", I64(kind)))
			if st, ok := r.states[id]; ok {
				out.Oracle(v != nil, "mem-get-availability", M{"id": fmt.Sprint(id)})
				if v != nil {
					// versions of the in-memory manager keep the tombstones of their own deletions: nil-valued entries are the store's convention there
					s.views[s.nview] = &rview{v: v, base: st, local: map[string][]byte{}, frontierBased: true}
				}
			} else {
				// an abandoned identifier: nothing is promised; do not track the view in the reference
				delete(s.views, s.nview)
			}
		case x < 50:
			s.nview++
			v := m.Frontier()
			s.ops = append(s.ops, Con("MFrontier", I64(int64(s.nview))))
			kind := int64(1)
			if v == nil {
				kind = 0
			}
			s.ans = append(s.ans, Con("AKind", I64(kind)))
			if v != nil {
				s.views[s.nview] = &rview{v: v, base: r.states[r.frontier], local: map[string][]byte{}, frontierBased: true}
			}
		case x < 55:
			if sl, rv := s.pickSlot(); rv != nil {
				s.nview++
				s.doSnap(sl, rv, s.nview)
			}
		case x < 60:
			if sl, rv := s.pickSlot(); rv != nil {
				s.nview++
				s.doSub(sl, rv, s.nview)
			}
		case x < 70:
			if sl, rv := s.pickSlot(); rv != nil {
				s.doWrite(sl, rv)
			}
		case x < 76:
			if sl, rv := s.pickSlot(); rv != nil {
				s.doChanges(sl, rv)
			}
		case x < 79:
			if len(past) > 0 {
				id := past[rng.Intn(len(past))]
				p := m.GetPatch(id)
				s.ops = append(s.ops, Con("MGetPatch", idT(id)))
				if p == nil {
					s.ans = append(s.ans, Con("AOptPatch", None()))
				} else {
					s.ans = append(s.ans, Con("AOptPatch", Some(patchT(patchOps(p)))))
				}
			}
		default:
			if sl, rv := s.pickSlot(); rv != nil {
				s.doRead(sl, rv)
			}
		}
	}
	tags := make([]string, 0, len(s.tag))
	for t := range s.tag {
		tags = append(tags, t)
	}
	sort.Strings(tags)
	tg := "plain"
	if len(tags) > 0 {
		tg = fmt.Sprint(tags)
	}
	out.Case("mem_run", Lst(s.ops...), Lst(s.ans...), tg)
	for _, t := range tags {
		out.Count("memseq-with:" + t)
	}
}

func memDump(m db.Manager) string { return dump(m.Frontier()) }
