package main

// crash suite, LARGE operations (C08): commits and rollbacks whose one database write is megabytes, not bytes -
// redo patch + undo patch + keys of 1..2 MiB, 2..4 MiB (still one journal record, written by goleveldb in 32 KiB
// blocks = dozens of file writes, with and without a memtable rotation in the middle of the process's life) and above
// 4 MiB (goleveldb's large-batch transaction mode: no journal record at all, table files + one manifest record),
// made of thousands of small keys, of a few dozen values of 4..64 KiB, or both; large rollbacks (a commit that
// deleted / overwrote megabytes is popped). A few per run.
//
// The crash points are the storage WRITES of the dying process, every file type (journal, table, manifest): the
// eventStorage below serialises and numbers them, lets k through, tears or refuses the next one and from then on
// refuses every mutation of the directory (write, sync, create, remove, rename, CURRENT switch): the directory is frozen at
// the instant of the crash, whatever background compaction was doing. The image is reopened by the product's constructor
// and compared - every key of the API, the frontier pointer, and the STORED redo and undo patches of every height,
// byte for byte (digests) - with the store before / after the operation; then the operation is delivered again and
// compared with the crash-free node, and a commit is rolled back and compared with the store before it.
//
// What the model says about such an operation (Crash.v: ONE database write) is compared too: the journal files are
// decoded as they are written (chunk headers: a record is complete with its FULL or LAST chunk); the tie gets
// (journal records of the whole operation, records complete at the crash point, a partial record on disk?).

import (
	"crypto/sha256"
	"fmt"
	"math/rand"
	"os"
	"sort"
	"sync"

	"github.com/syndtr/goleveldb/leveldb/storage"

	"github.com/zenon-network/go-zenon/common/db"
	"github.com/zenon-network/go-zenon/common/types"
	. "zharness/hz"
)

type event struct {
	ft        storage.FileType
	num       int64
	n         int
	completes int  // journal records completed by this write (journal files only)
	partial   bool // a journal record is incomplete on disk after this write
}

type eventStorage struct {
	storage.Storage
	mu      sync.Mutex
	crashAt int64 // the write with this index (0-based) and everything after it is refused; < 0: never
	tear    bool  // ... but half of its bytes reach the disk
	dead    bool
	log     []event
}

type eventWriter struct {
	storage.Writer
	es *eventStorage
	fd storage.FileDesc
	// decoder of the journal format (journal files only): unparsed bytes, offset inside the 32 KiB block, inside a record?
	buf      []byte
	blockOff int
	inRecord bool
}

const journalBlock = 32 * 1024

// feed parses the chunk headers of what is appended to a journal file; returns the number of records completed
func (w *eventWriter) feed(p []byte) int {
	w.buf = append(w.buf, p...)
	done := 0
	for {
		if journalBlock-w.blockOff < 7 { // block trailer: padding
			pad := journalBlock - w.blockOff
			if len(w.buf) < pad {
				return done
			}
			w.buf, w.blockOff = w.buf[pad:], 0
			continue
		}
		if len(w.buf) < 7 {
			return done
		}
		length := int(w.buf[4]) | int(w.buf[5])<<8
		typ := w.buf[6]
		if len(w.buf) < 7+length {
			return done
		}
		w.buf = w.buf[7+length:]
		w.blockOff += 7 + length
		if w.blockOff == journalBlock {
			w.blockOff = 0
		}
		switch typ {
		case 1, 4: // full, last
			done++
			w.inRecord = false
		default: // first, middle
			w.inRecord = true
		}
	}
}

func (w *eventWriter) Write(p []byte) (int, error) {
	es := w.es
	es.mu.Lock()
	defer es.mu.Unlock()
	if es.dead {
		return 0, errInjected
	}
	if es.crashAt >= 0 && int64(len(es.log)) == es.crashAt {
		es.dead = true
		if es.tear && len(p) > 1 {
			w.Writer.Write(p[:len(p)/2])
		}
		return 0, errInjected
	}
	ev := event{ft: w.fd.Type, num: w.fd.Num, n: len(p)}
	if w.fd.Type == storage.TypeJournal {
		ev.completes = w.feed(p)
		ev.partial = w.inRecord || len(w.buf) > 0
	}
	es.log = append(es.log, ev)
	return w.Writer.Write(p)
}
func (w *eventWriter) Sync() error {
	w.es.mu.Lock()
	defer w.es.mu.Unlock()
	if w.es.dead {
		return errInjected
	}
	return w.Writer.Sync()
}
func (s *eventStorage) isDead() bool {
	s.mu.Lock()
	defer s.mu.Unlock()
	return s.dead
}
func (s *eventStorage) Create(fd storage.FileDesc) (storage.Writer, error) {
	s.mu.Lock()
	defer s.mu.Unlock()
	if s.dead {
		return nil, errInjected
	}
	w, err := s.Storage.Create(fd)
	if err != nil {
		return nil, err
	}
	return &eventWriter{Writer: w, es: s, fd: fd}, nil
}
func (s *eventStorage) Remove(fd storage.FileDesc) error {
	s.mu.Lock()
	defer s.mu.Unlock()
	if s.dead {
		return errInjected
	}
	return s.Storage.Remove(fd)
}
func (s *eventStorage) Rename(a, b storage.FileDesc) error {
	s.mu.Lock()
	defer s.mu.Unlock()
	if s.dead {
		return errInjected
	}
	return s.Storage.Rename(a, b)
}
func (s *eventStorage) SetMeta(fd storage.FileDesc) error {
	s.mu.Lock()
	defer s.mu.Unlock()
	if s.dead {
		return errInjected
	}
	return s.Storage.SetMeta(fd)
}

// events so far, journal records completed so far, partial journal record on disk
func (s *eventStorage) mark() (int, int, bool) {
	s.mu.Lock()
	defer s.mu.Unlock()
	recs, partial := 0, false
	for _, e := range s.log {
		recs += e.completes
		if e.ft == storage.TypeJournal {
			partial = e.partial
		}
	}
	return len(s.log), recs, partial
}

type eventNode struct {
	es *eventStorage
	m  db.Manager
}

func openEventNode(dir string) *eventNode {
	st, err := storage.OpenFile(dir, false)
	if err != nil {
		panic(err)
	}
	es := &eventStorage{Storage: st, crashAt: -1}
	m, err := db.NewLevelDBManagerOnStorage(es)
	if err != nil {
		panic(err)
	}
	return &eventNode{es: es, m: m}
}
func (n *eventNode) close() {
	safe(func() error { n.m.Stop(); return nil })
	n.es.Storage.Close()
}

// what a restarted node can observe, compact: frontier id, number of keys and digest of the full API dump, and for every
// stored redo / undo patch its raw key and the digest of its value
func observeDigest(m db.Manager) string {
	f := m.Frontier()
	id := db.GetFrontierIdentifier(f)
	h := sha256.New()
	keys := 0
	it := f.NewIterator(nil)
	for it.Next() {
		if it.Value() == nil {
			continue
		}
		fmt.Fprintf(h, "%d:%d:", len(it.Key()), len(it.Value()))
		h.Write(it.Key())
		h.Write(it.Value())
		keys++
	}
	it.Release()
	s := fmt.Sprintf("frontier=%v|keys=%d|api=%x|", id, keys, h.Sum(nil)[:12])
	for _, kv := range db.VerifRawDump(m) {
		if len(kv[0]) > 0 && (kv[0][0] == 102 || kv[0][0] == 119) {
			d := sha256.Sum256(kv[1])
			s += fmt.Sprintf("%x:%d:%x;", kv[0], len(kv[1]), d[:8])
		}
	}
	return s
}

// ---- generators of large patches
func bigKey(rng *rand.Rand, tag byte, i int) []byte {
	k := []byte{alphabet[rng.Intn(len(alphabet))], tag, byte(i >> 16), byte(i >> 8), byte(i)}
	for n := rng.Intn(12); n > 0; n-- {
		k = append(k, byte(rng.Intn(256)))
	}
	return k
}
func bigVal(rng *rand.Rand, n int) []byte {
	v := make([]byte, n)
	rng.Read(v)
	return v
}

// insertsOf: new keys worth about `bytes` of key + value: "many-keys" (values of 0..200 bytes), "large-values" (4..64 KiB)
// or "mixed"
func insertsOf(rng *rand.Rand, tag byte, bytes int, style string) []pop {
	var ops []pop
	for got, i := 0, 0; got < bytes; i++ {
		n := rng.Intn(200)
		if style == "large-values" || (style == "mixed" && rng.Intn(40) == 0) {
			n = 4096 + rng.Intn(60*1024)
		}
		k := bigKey(rng, tag, i)
		ops = append(ops, pop{false, k, bigVal(rng, n)})
		got += len(k) + n + 8
	}
	return ops
}
func opsBytes(ops []pop) int {
	n := 0
	for _, o := range ops {
		n += len(o.k) + len(o.v) + 8
	}
	return n
}

var largeShapes = []string{"commit-1to2MiB", "commit-above-4MiB", "rollback-large", "commit-2to4MiB"}

// crashLarge: one large operation with its crash points. `points` bounds the number of crash points that are tried.
func crashLarge(rng *rand.Rand, out *Out, shape string, points int) {
	dir, _ := os.MkdirTemp("", "c08L")
	defer os.RemoveAll(dir)
	nd := openCrashNode(dir)
	r := newRef()
	add := func(m db.Manager, ops []pop) *commit {
		prev := r.frontier()
		c := &commit{prev: prev, id: types.HashHeight{Hash: freshHash(rng), Height: prev.Height + 1}, data: genVal(rng)}
		if err := m.Add(&tx{c: c, p: mkPatch(ops)}); err != nil {
			panic(err)
		}
		r.add(c, ops)
		return c
	}
	for i := rng.Intn(4); i > 0; i-- {
		add(nd.m, genPatch(rng, sortedKeys(r.states[r.frontier()])))
	}
	style := []string{"many-keys", "large-values", "mixed"}[rng.Intn(3)]
	mib := func(lo, hi float64) int { return int((lo + rng.Float64()*(hi-lo)) * (1 << 20)) }
	isPop := false
	var ops []pop  // of the commit under test
	var warm []pop // a commit the dying process makes first (the memtable is not empty when the operation starts)
	target := 0    // intended size of the one database write
	switch shape {
	case "commit-1to2MiB":
		target = mib(1.05, 1.95)
	case "commit-2to4MiB":
		target = mib(2.1, 3.9)
		if rng.Intn(2) == 0 {
			// the process has written 1.6..3 MiB before: the operation does not fit into the memtable, goleveldb rotates
			// it (new journal file, the full one is written out as a table in the background) in the middle of the operation
			warm = insertsOf(rng, 0x77, mib(0.8, 1.5), style)
			shape += "(memtable-rotation)"
		}
	case "commit-above-4MiB":
		target = mib(4.3, 5.6)
	case "rollback-large":
		isPop = true
		target = []int{mib(1.05, 1.9), mib(1.05, 1.9), mib(2.1, 3.2), mib(4.3, 5)}[rng.Intn(4)]
	}
	if isPop {
		// a commit that put megabytes, a commit that deletes / overwrites them: its rollback restores them in one write
		big := insertsOf(rng, 0x11, target, style)
		add(nd.m, big)
		var kill []pop
		for _, o := range big {
			switch rng.Intn(8) {
			case 0: // survives
			case 1, 2:
				kill = append(kill, pop{false, o.k, genVal(rng)})
			default:
				kill = append(kill, pop{true, o.k, nil})
			}
		}
		kill = append(kill, genPatch(rng, sortedKeys(r.states[r.frontier()]))...)
		add(nd.m, kill)
	} else {
		// redo + undo + keys: twice the patch plus the old values of what it overwrites
		ops = insertsOf(rng, 0x22, target*10/21, style)
		// ... and some keys of the history overwritten / deleted
		ops = append(ops, genPatch(rng, sortedKeys(r.states[r.frontier()]))...)
		rng.Shuffle(len(ops), func(i, j int) { ops[i], ops[j] = ops[j], ops[i] })
	}
	prev := r.frontier()
	c := &commit{prev: prev, id: types.HashHeight{Hash: freshHash(rng), Height: prev.Height + 1}, data: genVal(rng)}
	nd.close()

	// the disk image of a running node (opened by the product's constructor, copied while open)
	var live db.Manager
	if e := safe(func() error { live = db.NewLevelDBManager(dir); return nil }); e != nil || live == nil {
		out.Oracle(false, "crash-image-reopens", M{"what": "cleanly stopped store does not open", "shape": shape, "err": fmt.Sprint(e)})
		return
	}
	base := copyDir(dir)
	defer os.RemoveAll(base)
	live.Stop()

	kind := "commit"
	if isPop {
		kind = "rollback"
	}
	// what the process does: (warm-up commit), then the operation under test. `before` is observed after the warm-up.
	var warmC *commit
	if warm != nil {
		wp := r.frontier()
		warmC = &commit{prev: wp, id: types.HashHeight{Hash: freshHash(rng), Height: wp.Height + 1}, data: genVal(rng)}
		c.prev, c.id.Height = warmC.id, warmC.id.Height+1
	}
	prepare := func(m db.Manager) {
		if warmC != nil {
			if err := m.Add(&tx{c: warmC, p: mkPatch(warm)}); err != nil {
				panic(err)
			}
		}
	}
	operate := func(m db.Manager) error {
		if isPop {
			return safe(func() error { return m.Pop() })
		}
		return safe(func() error { return m.Add(&tx{c: c, p: mkPatch(ops)}) })
	}

	// crash-free run: the writes of the operation, the state before and after
	d0 := copyDir(base)
	n0 := openEventNode(d0)
	prepare(n0.m)
	before := observeDigest(n0.m)
	ev0, rec0, _ := n0.es.mark()
	if err := operate(n0.m); err != nil {
		out.Oracle(false, "crash-free-op-failed", M{"shape": shape, "err": err.Error()})
	}
	ev1, rec1, _ := n0.es.mark()
	after := observeDigest(n0.m)
	opLog := append([]event{}, n0.es.log[ev0:ev1]...)
	n0.close()
	os.RemoveAll(d0)
	total := ev1 - ev0
	records := rec1 - rec0
	written, byType := 0, map[storage.FileType]int{}
	for _, e := range opLog {
		written += e.n
		byType[e.ft]++
	}
	mode := "journal"
	if records == 0 {
		mode = "tables+manifest"
	}
	out.Count("crash:large:" + shape + ":" + style)
	out.Count(fmt.Sprintf("crash:large:%s:mode=%s", kind, mode))
	out.Count(fmt.Sprintf("crash:large:%s:MiB-written=%d", kind, written>>20))
	out.Count(fmt.Sprintf("crash:large:%s:journal-records=%d", kind, records))
	out.Count(fmt.Sprintf("crash:large:%s:file-writes>=%d", kind, total/16*16))
	if before == after {
		out.Oracle(false, "crash-free-op-failed", M{"shape": shape, "what": "the operation changed nothing"})
		return
	}

	// the crash points: every write when there are few; otherwise the first and last ones, the writes that complete a
	// journal / manifest record and their neighbours, the first and last write of every file, and a random sample
	pick := map[int]bool{}
	if total+1 <= points {
		for k := 0; k <= total; k++ {
			pick[k] = true
		}
	} else {
		for _, k := range []int{0, 1, 2, total - 2, total - 1, total} {
			if k >= 0 && k <= total {
				pick[k] = true
			}
		}
		for i, e := range opLog {
			boundary := e.completes > 0 || e.ft == storage.TypeManifest ||
				i == 0 || i+1 == len(opLog) || opLog[i-1].num != e.num || opLog[i+1].num != e.num
			if boundary && len(pick) < points*2/3 {
				pick[i], pick[i+1] = true, true
			}
		}
		for len(pick) < points {
			pick[rng.Intn(total+1)] = true
		}
	}
	var ks []int
	for k := range pick {
		ks = append(ks, k)
	}
	sort.Ints(ks)
	for _, k := range ks {
		torn := k < total && rng.Intn(3) == 0
		d := copyDir(base)
		nk := openEventNode(d)
		prepare(nk.m)
		s0, r0, _ := nk.es.mark()
		nk.es.mu.Lock()
		nk.es.crashAt, nk.es.tear = int64(s0+k), torn
		nk.es.mu.Unlock()
		opErr := operate(nk.m)
		s1, r1, partial := nk.es.mark()
		nk.es.mu.Lock()
		nk.es.dead = true // the process is gone: nothing reaches the directory any more, it IS the disk image at the crash
		nk.es.mu.Unlock()
		nk.close()
		os.Remove(d + "/LOCK")
		img := d

		detail := M{"shape": shape, "style": style, "mode": mode, "file_writes_total": total, "crash_after_file_writes": s1 - s0, "next_write_torn": torn,
			"journal_records_total": records, "journal_records_complete_at_crash": r1 - r0, "partial_journal_record_on_disk": partial,
			"bytes_of_the_operation": written, "before": before, "after": after}
		var rem db.Manager
		if e := safe(func() error { rem = db.NewLevelDBManager(img); return nil }); e != nil || rem == nil {
			detail["err"] = fmt.Sprint(e)
			out.Oracle(false, "crash-image-reopens", detail)
			os.RemoveAll(img)
			continue
		}
		got := observeDigest(rem)
		detail["got"] = got
		which := int64(-1)
		if got == before {
			which = 0
		} else if got == after {
			which = 1
		}
		tag := "mid"
		switch {
		case k == 0:
			tag = "first"
		case opErr == nil:
			tag = "complete"
		}
		if torn {
			tag += "-torn"
		}
		if mode == "journal" {
			// the model: one database write. Its journal record is complete or it is not.
			out.Case("crash_point", Tup(I64(int64(records)), I64(int64(r1-r0)), partial), I64(which), "large-"+kind+"-"+tag)
		}
		out.Count("crash:large:" + kind + ":point:" + tag)
		out.Oracle(which >= 0, "crash-atomic-"+kind, detail)
		// continue from the reopened store (at the first and the last crash point, after a completed operation and at every
		// third point in between: the operation is megabytes)
		if which >= 0 && (k == ks[0] || k == ks[len(ks)-1] || opErr == nil || rng.Intn(3) == 0) {
			out.Count("crash:large:" + kind + ":continued-after-restart")
			var e error
			if which == 0 {
				e = operate(rem)
			}
			cont := observeDigest(rem)
			out.Oracle(e == nil && cont == after, "crash-continue-equiv-"+kind, M{"shape": shape, "crash_after_file_writes": s1 - s0, "got": cont, "want": after, "err": fmt.Sprint(e)})
			if !isPop && e == nil {
				e2 := safe(func() error { return rem.Pop() })
				back := observeDigest(rem)
				out.Oracle(e2 == nil && back == before, "crash-then-rollback-restores", M{"shape": shape, "crash_after_file_writes": s1 - s0, "got": back, "want": before})
			}
		}
		safe(func() error { rem.Stop(); return nil })
		os.RemoveAll(img)
	}
}
