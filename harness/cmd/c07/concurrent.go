package main

// concurrent suite (supporting exploration for the concurrency clause of C07): reader goroutines open views at
// identifiers of the chain and dump them while one writer commits and rolls back. A view that is handed out for
// identifier X must show exactly the content as of X, whatever the writer does meanwhile.
import (
	"fmt"
	"math/rand"
	"os"
	"sync"
	"sync/atomic"

	"github.com/zenon-network/go-zenon/common/db"
	"github.com/zenon-network/go-zenon/common/types"
	. "zharness/hz"
)

func runConcurrent(rng *rand.Rand, n int, out *Out, _ []string) {
	for i := 0; i < n; i++ {
		concurrentHistory(rng.Int63(), out)
	}
}

func concurrentHistory(seed int64, out *Out) {
	dir, _ := os.MkdirTemp("", "c07c")
	defer os.RemoveAll(dir)
	m := db.NewLevelDBManager(dir)
	defer m.Stop()
	var mu sync.Mutex
	r := newRef()
	content := map[types.HashHeight]string{} // id -> expected dump; an id maps to one content for ever (fresh hashes)
	var known []types.HashHeight
	stop := int32(0)
	var checked, fails int64
	var wg sync.WaitGroup
	for rd := 0; rd < 4; rd++ {
		wg.Add(1)
		go func(rd int) {
			defer wg.Done()
			rr := rand.New(rand.NewSource(seed + int64(rd) + 1))
			for atomic.LoadInt32(&stop) == 0 {
				mu.Lock()
				if len(known) == 0 {
					mu.Unlock()
					continue
				}
				id := known[rr.Intn(len(known))]
				want := content[id]
				mu.Unlock()
				v := m.Get(id)
				if v == nil {
					continue // rolled back meanwhile (or not yet committed): nothing is promised
				}
				got := dump(v)
				atomic.AddInt64(&checked, 1)
				if got != want {
					// the identifier may have been rolled back and its height re-used: then the manager must
					// have answered nil, never another content
					atomic.AddInt64(&fails, 1)
				}
			}
		}(rd)
	}
	wr := rand.New(rand.NewSource(seed))
	for step := 0; step < 400; step++ {
		if wr.Intn(4) == 0 && len(r.chain) > 1 {
			mu.Lock()
			r.pop()
			mu.Unlock()
			if err := m.Pop(); err != nil {
				out.Oracle(false, "concurrent-pop-failed", M{"err": err.Error()})
				break
			}
			continue
		}
		prev := r.frontier()
		c := &commit{prev: prev, id: types.HashHeight{Hash: freshHash(wr), Height: prev.Height + 1}, data: genVal(wr)}
		ops := genPatch(wr, sortedKeys(r.states[prev]))
		if err := m.Add(&tx{c: c, p: mkPatch(ops)}); err != nil {
			out.Oracle(false, "concurrent-add-failed", M{"err": err.Error()})
			break
		}
		mu.Lock()
		r.add(c, ops)
		content[c.id] = refDump(r.states[c.id])
		known = append(known, c.id)
		mu.Unlock()
	}
	atomic.StoreInt32(&stop, 1)
	wg.Wait()
	out.Oracle(fails == 0, "concurrent-view-exact", M{"views_checked": checked, "wrong": fails})
	out.Count(fmt.Sprintf("concurrent:views-checked>=%d", checked/100*100))
	out.Case("concurrent_views", I64(1), fails == 0, "readers-vs-writer")
}
