package main

// crash suite (C08): the process dies between two successive writes to the underlying database while a
// commit or a rollback is in progress. A fault-injecting goleveldb storage lets the first k journal writes
// of the operation through and fails the rest; the directory is then copied (= the disk image at the
// crash) and reopened with a fresh manager.
import (
	"errors"
	"fmt"
	"io"
	"math/rand"
	"os"
	"os/exec"
	"sync/atomic"

	"github.com/syndtr/goleveldb/leveldb/storage"

	"github.com/zenon-network/go-zenon/common/db"
	"github.com/zenon-network/go-zenon/common/types"
	. "zharness/hz"
)

type faultStorage struct {
	storage.Storage
	budget *int64 // remaining journal writes; < 0 = unlimited
	used   *int64
	tear   bool // the first refused write still puts half of its bytes on disk (torn journal record)
	torn   bool
}

var errInjected = errors.New("injected crash: write refused")

type faultWriter struct {
	storage.Writer
	fs      *faultStorage
	journal bool
}

func (w *faultWriter) Write(p []byte) (int, error) {
	if w.journal {
		if b := atomic.LoadInt64(w.fs.budget); b == 0 {
			if w.fs.tear && !w.fs.torn && len(p) > 1 {
				w.fs.torn = true
				w.Writer.Write(p[:len(p)/2])
			}
			return 0, errInjected
		} else if b > 0 {
			atomic.AddInt64(w.fs.budget, -1)
		}
		atomic.AddInt64(w.fs.used, 1)
	}
	return w.Writer.Write(p)
}
func (s *faultStorage) Create(fd storage.FileDesc) (storage.Writer, error) {
	w, err := s.Storage.Create(fd)
	if err != nil {
		return nil, err
	}
	return &faultWriter{Writer: w, fs: s, journal: fd.Type == storage.TypeJournal}, nil
}

var _ io.Writer = (*faultWriter)(nil)

type crashNode struct {
	dir    string
	fs     *faultStorage
	m      db.Manager
	budget int64
	used   int64
}

func openCrashNode(dir string) *crashNode {
	st, err := storage.OpenFile(dir, false)
	if err != nil {
		panic(err)
	}
	n := &crashNode{dir: dir, budget: -1}
	n.fs = &faultStorage{Storage: st, budget: &n.budget, used: &n.used}
	m, err := db.NewLevelDBManagerOnStorage(n.fs)
	if err != nil {
		panic(err)
	}
	n.m = m
	return n
}
func (n *crashNode) close() {
	n.m.Stop()
	if n.fs != nil {
		n.fs.Storage.Close()
	}
}

func copyDir(src string) string {
	dst, _ := os.MkdirTemp("", "c08img")
	os.RemoveAll(dst)
	if out, err := exec.Command("cp", "-r", src, dst).CombinedOutput(); err != nil {
		panic(fmt.Sprint(err, string(out)))
	}
	os.Remove(dst + "/LOCK")
	return dst
}

// everything a restarted node can observe of the store: frontier id, API dump, redo/undo presence per height
func observe(m db.Manager, maxH uint64) string {
	f := m.Frontier()
	id := db.GetFrontierIdentifier(f)
	s := fmt.Sprintf("frontier=%v|%s|", id, dump(f))
	raw := db.VerifRawDump(m)
	for _, kv := range raw {
		if len(kv[0]) > 0 && (kv[0][0] == 102 || kv[0][0] == 119) {
			s += fmt.Sprintf("%x;", kv[0])
		}
	}
	return s
}

func safe(f func() error) (err error) {
	defer func() {
		if r := recover(); r != nil {
			err = fmt.Errorf("panic: %v", r)
		}
	}()
	return f()
}

func runCrash(rng *rand.Rand, n int, out *Out, _ []string) {
	// a few LARGE operations per run (crash_large.go): every 30th history is followed by one, the shapes in rotation
	// (the seed decides where the rotation starts), at most 4 + n/100 of them
	large, first := 0, rng.Intn(len(largeShapes))
	for i := 0; i < n; i++ {
		crashHistory(rng, out)
		if i%30 == 11 && large < 4+n/100 {
			crashLarge(rng, out, largeShapes[(first+large)%len(largeShapes)], 28)
			large++
		}
	}
}

func crashHistory(rng *rand.Rand, out *Out) {
	dir, _ := os.MkdirTemp("", "c08")
	defer os.RemoveAll(dir)
	nd := openCrashNode(dir)
	r := newRef()
	// prefix history
	// 0 steps: the operation under test is the very FIRST commit of an empty store (what chain.Init does with the
	// genesis momentum)
	steps := rng.Intn(8)
	var lastC *commit // the top commit of the prefix (what a rollback takes off)
	var lastOps []pop
	for i := 0; i < steps; i++ {
		prev := r.frontier()
		c := &commit{prev: prev, id: types.HashHeight{Hash: freshHash(rng), Height: prev.Height + 1}, data: genVal(rng)}
		ops := genPatch(rng, sortedKeys(r.states[prev]))
		if err := nd.m.Add(&tx{c: c, p: mkPatch(ops)}); err != nil {
			panic(err)
		}
		r.add(c, ops)
		lastC, lastOps = c, ops
	}
	// the operation under test
	isPop := rng.Intn(3) == 0 && steps > 0
	if steps == 0 {
		out.Count("crash:first-commit-of-an-empty-store")
	}
	prev := r.frontier()
	c := &commit{prev: prev, id: types.HashHeight{Hash: freshHash(rng), Height: prev.Height + 1}, data: genVal(rng)}
	ops := genPatch(rng, sortedKeys(r.states[prev]))
	for len(ops) < 2 {
		ops = append(ops, genPatch(rng, sortedKeys(r.states[prev]))...)
	}
	maxH := prev.Height + 1
	// now and then the process that crashes has, just before, been handed a commit on a STALE parent (the pillar's own
	// momentum that lost the race for a height): it must be refused without a trace, in memory too
	var stale *tx
	if steps >= 2 && rng.Intn(3) == 0 {
		sp := r.chain[len(r.chain)-2]
		sc := &commit{prev: sp, id: types.HashHeight{Hash: freshHash(rng), Height: sp.Height + 1}, data: genVal(rng)}
		stale = &tx{c: sc, p: mkPatch(genPatch(rng, sortedKeys(r.states[sp])))}
		out.Count("crash:stale-parent-commit-offered-first")
	}
	offerStale := func(m db.Manager) {
		if stale != nil {
			safe(func() error { return m.Add(stale) })
		}
	}
	before := observe(nd.m, maxH)
	nd.close()
	// the disk image of a RUNNING node: the store is opened by the product's own constructor (whatever it reads, writes
	// or repairs when it opens a store happens here) and copied while it is open; the crashing nodes below start from
	// this image. The fault-injecting constructor of the hook builds the manager itself and would skip that.
	{
		var live db.Manager
		if e := safe(func() error { live = db.NewLevelDBManager(dir); return nil }); e != nil || live == nil {
			out.Oracle(false, "crash-image-reopens", M{"what": "cleanly stopped store does not open", "err": fmt.Sprint(e)})
			return
		}
		running := copyDir(dir)
		got := observe(live, maxH)
		out.Oracle(got == before, "clean-restart-keeps-state", M{"got": got, "want": before})
		live.Stop()
		defer os.RemoveAll(running)
		dir = running
	}

	// crash-free run on a copy: number of writes and the state after
	d0 := copyDir(dir)
	n0 := openCrashNode(d0)
	offerStale(n0.m)
	var opErr error
	if isPop {
		opErr = safe(func() error { return n0.m.Pop() })
	} else {
		opErr = safe(func() error { return n0.m.Add(&tx{c: c, p: mkPatch(ops)}) })
	}
	if opErr != nil {
		out.Oracle(false, "crash-free-op-failed", M{"err": opErr.Error()})
	}
	total := n0.used
	after := observe(n0.m, maxH)
	n0.close()
	os.RemoveAll(d0)
	kind := "commit"
	if isPop {
		kind = "rollback"
	}
	out.Count(fmt.Sprintf("crash:%s:writes=%d", kind, total))

	for kk := int64(0); kk <= 2*total; kk++ {
		// even kk: crash exactly between two writes; odd kk: the next write is torn (half of its bytes reach the disk)
		k := kk / 2
		d := copyDir(dir)
		nk := openCrashNode(d)
		offerStale(nk.m)
		nk.used = 0
		nk.budget = k
		nk.fs.tear = kk%2 == 1
		if isPop {
			safe(func() error { return nk.m.Pop() })
		} else {
			safe(func() error { return nk.m.Add(&tx{c: c, p: mkPatch(ops)}) })
		}
		// the disk image at the crash
		img := copyDir(d)
		nk.budget = 0
		// the image is taken: release the dead node's database (table readers, journal, goroutines); whatever it
		// still tries to write is refused and the directory is dropped anyway
		nk.fs.tear = false
		safe(func() error { nk.m.Stop(); return nil })
		nk.fs.Storage.Close()
		os.RemoveAll(d)

		// the restart: the store is opened the way a node opens it (db.NewLevelDBManager, the product's own options); a
		// store that cannot be opened after a crash is neither "before" nor "after"
		var rem db.Manager
		if e := safe(func() error { rem = db.NewLevelDBManager(img); return nil }); e != nil || rem == nil {
			out.Case("crash_point", Tup(I64(total), I64(k), kk%2 == 1), I64(-1), kind+"-unopenable")
			out.Oracle(false, "crash-image-reopens", M{"writes_total": total, "crash_after": k, "torn": kk%2 == 1, "err": fmt.Sprint(e)})
			os.RemoveAll(img)
			continue
		}
		re := &crashNode{dir: img, m: rem}
		got := observe(re.m, maxH)
		which := int64(-1)
		if got == before {
			which = 0
		} else if got == after {
			which = 1
		}
		tag := "mid"
		if k == 0 {
			tag = "first"
		} else if k == total {
			tag = "complete"
		}
		if kk%2 == 1 {
			tag += "-torn"
		}
		out.Case("crash_point", Tup(I64(total), I64(k), kk%2 == 1), I64(which), kind+"-"+tag)
		out.Oracle(which >= 0, "crash-atomic-"+kind, M{"writes_total": total, "crash_after": k, "got": got, "before": before, "after": after})

		// continue from the reopened store: finish / redo the operation, then compare with the crash-free node
		if which >= 0 {
			var e error
			if which == 0 {
				if isPop {
					e = safe(func() error { return re.m.Pop() })
				} else {
					e = safe(func() error { return re.m.Add(&tx{c: c, p: mkPatch(ops)}) })
				}
			}
			cont := observe(re.m, maxH)
			out.Oracle(e == nil && cont == after, "crash-continue-equiv-"+kind, M{"crash_after": k, "got": cont, "want": after, "err": fmt.Sprint(e)})
			// and a rollback of a commit restores the state before it
			if !isPop && e == nil {
				e2 := safe(func() error { return re.m.Pop() })
				back := observe(re.m, maxH)
				out.Oracle(e2 == nil && back == before, "crash-then-rollback-restores", M{"crash_after": k, "got": back, "want": before})
				// ... and the rolled-back commit delivered AGAIN (same identifier, same patch; now and then after another
				// restart) applies again: the node that met the crash and the reorganisation ends where the others are
				if e2 == nil && kk%3 == 0 {
					if kk%2 == 0 {
						re.m.Stop()
						if e := safe(func() error { rem = db.NewLevelDBManager(img); return nil }); e == nil && rem != nil {
							re.m = rem
						}
					}
					e3 := safe(func() error { return re.m.Add(&tx{c: c, p: mkPatch(ops)}) })
					again := observe(re.m, maxH)
					out.Oracle(e3 == nil && again == after, "redelivery-after-rollback-applies-again", M{"crash_after": k, "restart_between": kk%2 == 0, "got": again, "want": after, "err": fmt.Sprint(e3)})
				}
			}
			if isPop && e == nil && lastC != nil && kk%3 == 0 {
				// the commit the rollback took off, delivered again
				e3 := safe(func() error { return re.m.Add(&tx{c: lastC, p: mkPatch(lastOps)}) })
				again := observe(re.m, maxH)
				out.Oracle(e3 == nil && again == before, "redelivery-after-rollback-applies-again", M{"crash_after": k, "rolled_back_by": "the operation under test", "got": again, "want": before, "err": fmt.Sprint(e3)})
			}
		}
		re.close()
		os.RemoveAll(img)
	}
}
