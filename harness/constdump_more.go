package main

// further constants, grouped per property; extended as the models grow
func collectMoreConsts() {
}
