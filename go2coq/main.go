// go2coq: Tier-A translator. Translates a pure, machine-integer / big.Int subset of Go functions,
// read from /repo's current source, into Gallina definitions (coq/gen/Pure.v). Anything outside the
// subset makes the translation of that function fail loudly (non-zero exit): never a silent fallback.
//
// Semantics emitted:
//   - every arithmetic result of machine-integer type is wrapped to its declared type (wrapU n / wrapS n)
//   - / and % are Go's truncated division (Z.quot / Z.rem); a non-constant divisor and every slice index
//     produce a guard: the function then returns `res T` (Ok v | Panic)
//   - *big.Int is an unbounded Z; big.Int methods are translated for fresh receivers / statement-level updates
//   - constant expressions are folded by go/types (exactly the compiler's value)
//   - scalar leaves hanging off struct/pointer parameters (x.F, x.F.G(), len(x.F)) become extra inputs
//   - package-level variables refer to Consts.<Name> (dumped by execution) — Coq fails if it is missing
//   - spec field "opaque": {"callee": "args"}: a function whose every return is `return callee(e1, .., en)` is translated
//     to the tuple (e1, .., en) of the callee's arguments (the range/argument computation is translated, the callee is not)
//   - spec field "oracles": ["bytes.Compare"]: a call of a listed external function becomes an extra input (its result)
//   - b[i] on a []byte / [N]byte parameter with a constant index becomes the leaf input b_i (a byte, 0..255) guarded by
//     i < len_b (leaf input), so an out-of-range index is a Panic of the translated function
package main

import (
	"encoding/json"
	"flag"
	"fmt"
	"go/ast"
	"go/constant"
	"go/token"
	"go/types"
	"os"
	"path/filepath"
	"sort"
	"strings"

	"golang.org/x/tools/go/packages"
)

type SpecFn struct {
	Pkg    string            `json:"pkg"`
	Func   string            `json:"func"`             // "Name" or "Recv.Name"
	Coq    string            `json:"coq"`              // Coq name
	Opaque map[string]string `json:"opaque,omitempty"` // callee name -> "args" (function returns the callee's argument tuple)
	// Oracles: calls of the listed external functions ("pkgname.Func", e.g. "bytes.Compare") whose result is a machine
	// integer or bool become extra inputs of the translated function (named after the call expression): the callee is
	// not translated, its result is a free input of its declared type
	Oracles []string `json:"oracles,omitempty"`
	// An entry ".Method" makes every call of a method of that name an oracle (any receiver, any arguments; the
	// arguments are not translated), an entry "Func" a call of the same-package function of that name; such calls may
	// return several values (`v, err := oracle(..)`): one input per result, named <name>_<k-th call>_<result index>.
	// OutFields ("block.TotalPlasma:u64"): fields written through a pointer parameter; their final values are appended
	// to every returned tuple (the initial value is an input).
	OutFields []string `json:"out_fields,omitempty"`
	// DropResults: indices of results of a type outside the subset that are left out of the translation (e.g. the
	// generated block of (block, methodErr, err)); whatever is returned there is not looked at.
	DropResults []int `json:"drop_results,omitempty"`
	// NilGuard: every *big.Int input x that hangs off a parameter gets a companion input x_nonnil : bool; calling a
	// method on x is guarded by it (nil dereference = Panic), `x != nil` / `x == nil` read it.
	// Group: the generated file the definition goes to: "" = Pure.v, "X" = PureX.v (which imports Pure and the groups
	// listed for X in the spec's "groups"). A function that cannot be translated is left out of its file (and so are its
	// callers): only the proofs that mention it stop compiling, the other properties are not affected.
	Group string `json:"group,omitempty"`
	// Captures (".SetBalance:1"): argument 1 of every call of a method SetBalance is an OUTPUT of the translation
	// (`option` of its value: None on the paths that do not reach the call), appended to every returned tuple; the
	// call's own result is an oracle input as usual. A function without results can be translated for its captures.
	Captures []string `json:"captures,omitempty"`
	// Fragment: translate ONE statement of the function instead of its body: the statement whose source text starts
	// with this string. The variables it uses that are declared before it are its parameters (scalars) or roots of
	// inputs (anything else); falling off its end returns the values of Fallthrough (Coq terms, one per result).
	Fragment    string   `json:"fragment,omitempty"`
	Fallthrough []string `json:"fallthrough,omitempty"`
	NilGuard    bool     `json:"nil_guard,omitempty"`
	// VarInputs: package-level variables that the translated function takes as inputs instead of the dumped value
	VarInputs []string `json:"var_inputs,omitempty"`
}
type Spec struct {
	Functions []SpecFn `json:"functions"`
	// Errors fixes the numbering of error values (name as emitted, e.g. "Err_constants_ErrForbiddenParam"): position + 1.
	// Errors that are not listed get the following numbers in alphabetical order. Harnesses rely on listed numbers.
	Errors []string `json:"errors,omitempty"`
	// Groups: group name -> names of the groups its file imports (besides Pure)
	Groups map[string][]string `json:"groups,omitempty"`
}

type fail struct{ msg string }

func bad(pos token.Pos, format string, a ...interface{}) {
	panic(fail{fmt.Sprintf("%s: %s", fset.Position(pos), fmt.Sprintf(format, a...))})
}

var fset *token.FileSet

var partialFns = map[string]bool{}

// inputs of an already translated function that hang off its parameters: a caller supplies them by substituting its
// own argument expressions for the parameter
type leafInfo struct {
	coqTy string
	name  string
	expr  ast.Expr // nil: cannot be supplied by a caller (oracle result, slice element, list)
	typ   types.Type
	pre   string
}
type fnInfoT struct {
	recv   string
	params []string // Coq-visible parameter names in Go order ("" = outside the subset)
	pnames []string // Go names
	leaves []leafInfo
}

var fnInfo = map[string]*fnInfoT{}

type ctx struct {
	info        *types.Info
	pkg         *types.Package
	spec        SpecFn
	locals      map[string]types.Type // declared locals + params (scalar)
	leaves      []string              // extra inputs in order of first appearance
	leafTy      map[string]string
	partial     bool
	params      map[string]bool // names of Go parameters (any type)
	known       map[string]*SpecFn
	results     *types.Tuple
	errs        map[string]bool
	pending     []pend
	nbind       int
	opaqueK     []string                     // kinds of the opaque callee's arguments (result type of the translated function)
	loopVal     map[string]string            // loop variables of loops being unrolled -> current constant value
	iters       map[*ast.EmptyStmt]*iterInfo // continuation markers of unrolled loops
	contCode    map[*ast.EmptyStmt]string    // continuation markers of range loops -> code of "next element"
	nrange      int
	leafSrc     map[string]leafInfo
	alias       map[string]ast.Expr // opaque local -> the parameter-rooted expression it was defined as
	oracleN     map[string]int      // per oracle name: calls seen so far
	oracleSite  map[token.Pos]int
	opaqueL     map[string]bool // locals of unsupported type (usable only as arguments of oracle calls)
	blocksL     map[string]bool // locals holding a list of descendant blocks
	rangePrefix string          // inside the body of a range loop: the prefix that makes an input a field of the element
	blockL      map[string]bool // locals holding ONE descendant block (&nom.AccountBlock{..}), bound to its (to, amount, token)
	outF        []string        // Coq names of the out fields
}

// one unrolled `for i := c0; i <cmp> c1; i++/i--` loop: after the body of iteration idx comes the marker, which starts
// iteration idx+1 (or, after the last one, the statements that follow the loop)
type iterInfo struct {
	name string
	vals []int64
	idx  int
	body []ast.Stmt
	rest []ast.Stmt
}

func main() {
	repo := flag.String("repo", "/repo", "repository root")
	specp := flag.String("spec", "spec.json", "functions to translate")
	outp := flag.String("out", "Pure.v", "output")
	flag.Parse()
	var spec Spec
	b, err := os.ReadFile(*specp)
	if err != nil {
		fmt.Println(err)
		os.Exit(2)
	}
	if err := json.Unmarshal(b, &spec); err != nil {
		fmt.Println(err)
		os.Exit(2)
	}
	pkgset := map[string]bool{}
	for _, f := range spec.Functions {
		pkgset[f.Pkg] = true
	}
	var pats []string
	for p := range pkgset {
		pats = append(pats, p)
	}
	sort.Strings(pats)
	cfg := &packages.Config{
		Mode: packages.NeedName | packages.NeedFiles | packages.NeedSyntax | packages.NeedTypes | packages.NeedTypesInfo | packages.NeedImports | packages.NeedDeps,
		Dir:  *repo,
		Env:  append(os.Environ(), "GOFLAGS=-mod=mod", "GOPROXY=off", "GOSUMDB=off", "GOTOOLCHAIN=local"),
	}
	pkgs, err := packages.Load(cfg, pats...)
	if err != nil {
		fmt.Println("load:", err)
		os.Exit(2)
	}
	byPath := map[string]*packages.Package{}
	for _, p := range pkgs {
		if len(p.Errors) > 0 {
			fmt.Println("package errors:", p.PkgPath, p.Errors)
			os.Exit(2)
		}
		byPath[p.PkgPath] = p
		fset = p.Fset
	}
	known := map[string]*SpecFn{}
	for i := range spec.Functions {
		f := &spec.Functions[i]
		known[f.Pkg+"."+f.Func] = f
	}
	var sb strings.Builder
	sb.WriteString("(* GENERATED by go2coq from /repo's source on every run. Do not edit. *)\n")
	sb.WriteString("From ZV Require Import Prelude GoSem.\nFrom ZV.gen Require Consts.\nOpen Scope Z_scope.\n\n")
	errs := map[string]bool{}
	var bodies []string
	var groupOf []string
	failed := false
	for i := range spec.Functions {
		f := spec.Functions[i]
		p := byPath[f.Pkg]
		if p == nil {
			fmt.Printf("go2coq: package %s not loaded\n", f.Pkg)
			failed = true
			continue
		}
		func() {
			defer func() {
				if r := recover(); r != nil {
					if fl, ok := r.(fail); ok {
						fmt.Printf("go2coq: cannot translate %s.%s: %s\n", f.Pkg, f.Func, fl.msg)
						failed = true
						return
					}
					panic(r)
				}
			}()
			b := translate(p, f, known, errs)
			bodies = append(bodies, b)
			groupOf = append(groupOf, f.Group)
		}()
	}
	// error table
	var en []string
	for e := range errs {
		en = append(en, e)
	}
	sort.Strings(en)
	num := map[string]int{}
	for i, e := range spec.Errors {
		num[e] = i + 1
	}
	next := len(spec.Errors) + 1
	for _, e := range en {
		if _, ok := num[e]; !ok {
			num[e] = next
			next++
		}
	}
	for _, e := range en {
		fmt.Fprintf(&sb, "Definition %s : Z := %d.\n", e, num[e])
	}
	sb.WriteString("\n")
	for i, b := range bodies {
		if groupOf[i] == "" {
			sb.WriteString(b)
			sb.WriteString("\n")
		}
	}
	if err := os.WriteFile(*outp, []byte(sb.String()), 0o644); err != nil {
		fmt.Println(err)
		os.Exit(2)
	}
	// one file per group (written even when empty, so that a stale definition never survives)
	if spec.Groups == nil {
		spec.Groups = map[string][]string{}
	}
	var gnames []string
	for g := range spec.Groups {
		gnames = append(gnames, g)
	}
	for _, g := range groupOf {
		if g != "" {
			if _, ok := spec.Groups[g]; !ok {
				spec.Groups[g] = nil
				gnames = append(gnames, g)
			}
		}
	}
	sort.Strings(gnames)
	dir := filepath.Dir(*outp)
	for _, g := range gnames {
		var gb strings.Builder
		gb.WriteString("(* GENERATED by go2coq from /repo's source on every run. Do not edit. *)\n")
		gb.WriteString("From ZV Require Import Prelude GoSem.\nFrom ZV.gen Require Consts.\nFrom ZV.gen Require Export Pure.\n")
		for _, dep := range spec.Groups[g] {
			fmt.Fprintf(&gb, "From ZV.gen Require Export Pure%s.\n", dep)
		}
		gb.WriteString("Open Scope Z_scope.\n\n")
		for i, b := range bodies {
			if groupOf[i] == g {
				gb.WriteString(b)
				gb.WriteString("\n")
			}
		}
		if err := os.WriteFile(filepath.Join(dir, "Pure"+g+".v"), []byte(gb.String()), 0o644); err != nil {
			fmt.Println(err)
			os.Exit(2)
		}
	}
	fmt.Printf("go2coq: %d functions translated\n", len(bodies))
	if failed {
		fmt.Println("go2coq: some functions could not be translated (left out of their files, see above)")
	}
}

// stmtSource: the source text of a statement (first 200 bytes), for matching spec fragments
func stmtSource(p *packages.Package, st ast.Stmt) string {
	pos, end := fset.Position(st.Pos()), fset.Position(st.End())
	b, err := os.ReadFile(pos.Filename)
	if err != nil || pos.Offset >= len(b) {
		return ""
	}
	e := end.Offset
	if e > len(b) {
		e = len(b)
	}
	if e > pos.Offset+200 {
		e = pos.Offset + 200
	}
	return string(b[pos.Offset:e])
}

func findFunc(p *packages.Package, name string) *ast.FuncDecl {
	recv, fn := "", name
	if i := strings.Index(name, "."); i >= 0 {
		recv, fn = name[:i], name[i+1:]
	}
	for _, file := range p.Syntax {
		for _, d := range file.Decls {
			fd, ok := d.(*ast.FuncDecl)
			if !ok || fd.Name.Name != fn {
				continue
			}
			if recv == "" && fd.Recv == nil {
				return fd
			}
			if recv != "" && fd.Recv != nil && len(fd.Recv.List) == 1 {
				t := fd.Recv.List[0].Type
				if st, ok := t.(*ast.StarExpr); ok {
					t = st.X
				}
				if id, ok := t.(*ast.Ident); ok && id.Name == recv {
					return fd
				}
			}
		}
	}
	return nil
}

// ---- types

func isBig(t types.Type) bool {
	if p, ok := t.(*types.Pointer); ok {
		if n, ok := p.Elem().(*types.Named); ok {
			return n.Obj().Pkg() != nil && n.Obj().Pkg().Path() == "math/big" && n.Obj().Name() == "Int"
		}
	}
	return false
}
func isErr(t types.Type) bool { return types.Identical(t, types.Universe.Lookup("error").Type()) }

// kind: "u8","u16","u32","u64","s8".. "s64", "bool", "big", "err", "" (unsupported)
func kindOf(t types.Type) string {
	if isBig(t) {
		return "big"
	}
	if isErr(t) {
		return "err"
	}
	if isBlockSlice(t) {
		return "blocks"
	}
	if a, ok := t.Underlying().(*types.Array); ok && a.Len() == 8 {
		if e, ok := a.Elem().Underlying().(*types.Basic); ok && e.Kind() == types.Uint8 {
			return "le64" // [8]byte holding a little-endian uint64 (binary.LittleEndian.PutUint64): modelled as that number
		}
	}
	b, ok := t.Underlying().(*types.Basic)
	if !ok {
		return ""
	}
	switch b.Kind() {
	case types.Bool, types.UntypedBool:
		return "bool"
	case types.Uint8:
		return "u8"
	case types.Uint16:
		return "u16"
	case types.Uint32:
		return "u32"
	case types.Uint64, types.Uint, types.Uintptr:
		return "u64"
	case types.Int8:
		return "s8"
	case types.Int16:
		return "s16"
	case types.Int32:
		return "s32"
	case types.Int64, types.Int:
		return "s64"
	case types.UntypedInt, types.UntypedRune:
		return "big" // only reachable for constants, which are folded
	}
	return ""
}
func coqTy(k string) string {
	if k == "bool" {
		return "bool"
	}
	if k == "blocks" {
		return "list (Z * Z * Z)" // descendant blocks a contract method returns: (ToAddress, Amount, TokenStandard) each
	}
	return "Z"
}

// isBlockSlice: []*nom.AccountBlock (what an embedded method's ReceiveBlock returns)
func isBlockSlice(t types.Type) bool {
	sl, ok := t.Underlying().(*types.Slice)
	if !ok {
		return false
	}
	p, ok := sl.Elem().(*types.Pointer)
	if !ok {
		return false
	}
	n, ok := p.Elem().(*types.Named)
	return ok && n.Obj().Name() == "AccountBlock" && n.Obj().Pkg() != nil && strings.HasSuffix(n.Obj().Pkg().Path(), "chain/nom")
}
func wrap(k, e string) string {
	switch k {
	case "le64":
		return "(wrapU 64 " + e + ")"
	case "u8":
		return "(wrapU 8 " + e + ")"
	case "u16":
		return "(wrapU 16 " + e + ")"
	case "u32":
		return "(wrapU 32 " + e + ")"
	case "u64":
		return "(wrapU 64 " + e + ")"
	case "s8":
		return "(wrapS 8 " + e + ")"
	case "s16":
		return "(wrapS 16 " + e + ")"
	case "s32":
		return "(wrapS 32 " + e + ")"
	case "s64":
		return "(wrapS 64 " + e + ")"
	}
	return e
}

var coqKeywords = map[string]bool{"end": true, "in": true, "as": true, "at": true, "let": true, "match": true, "return": true, "fun": true,
	"forall": true, "exists": true, "if": true, "then": true, "else": true, "with": true, "fix": true, "Type": true, "Set": true, "Prop": true,
	"where": true, "for": true, "using": true, "cofix": true, "struct": true, "guard": true, "bind": true, "res": true, "Ok": true, "Panic": true,
	"nth": true, "length": true, "tmp": true}

// cn: Go identifier -> Coq identifier
func cn(name string) string {
	if coqKeywords[name] {
		return name + "_"
	}
	return name
}

func zlit(s string) string {
	if strings.HasPrefix(s, "-") {
		return "(" + s + ")"
	}
	return s
}

// ---- expressions. Returns (coq term, guards)
type gexp struct {
	e string
	g []string // boolean guards that must hold for e not to panic
}

func (c *ctx) constVal(e ast.Expr) (string, bool) {
	if id, ok := e.(*ast.Ident); ok && c.loopVal != nil {
		if v, ok := c.loopVal[id.Name]; ok {
			return v, true
		}
	}
	tv, ok := c.info.Types[e]
	if !ok || tv.Value == nil {
		return "", false
	}
	switch tv.Value.Kind() {
	case constant.Int:
		return zlit(tv.Value.ExactString()), true
	case constant.Bool:
		if constant.BoolVal(tv.Value) {
			return "true", true
		}
		return "false", true
	case constant.Float:
		// a float constant used where an integer is expected (e.g. 2.5 * 21000): only if integral
		if v, ok := constant.Val(constant.ToInt(tv.Value)).(interface{ String() string }); ok && constant.ToInt(tv.Value).Kind() == constant.Int {
			return zlit(v.String()), true
		}
	}
	return "", false
}

func sanitize(s string) string {
	r := strings.NewReplacer(".", "_", "(", "", ")", "", "[", "_", "]", "", ":", "", " ", "", "*", "", "&", "", ",", "__")
	return r.Replace(s)
}

func exprString(e ast.Expr) string {
	switch x := e.(type) {
	case *ast.Ident:
		return x.Name
	case *ast.SelectorExpr:
		return exprString(x.X) + "." + x.Sel.Name
	case *ast.CallExpr:
		if len(x.Args) == 0 {
			return exprString(x.Fun) + "()"
		}
		var as []string
		for _, a := range x.Args {
			as = append(as, exprString(a))
		}
		return exprString(x.Fun) + "(" + strings.Join(as, ",") + ")"
	case *ast.StarExpr:
		return exprString(x.X)
	case *ast.ParenExpr:
		return exprString(x.X)
	case *ast.SliceExpr:
		return exprString(x.X)
	case *ast.BasicLit:
		return x.Value
	}
	return "?"
}

// rootParam: is e a selector/zero-arg-call chain rooted at a Go parameter (or receiver)?
func (c *ctx) rootParam(e ast.Expr) bool {
	switch x := e.(type) {
	case *ast.Ident:
		return c.params[x.Name] && c.locals[x.Name] == nil
	case *ast.SelectorExpr:
		return c.rootParam(x.X)
	case *ast.CallExpr:
		if len(x.Args) != 0 {
			return false
		}
		return c.rootParam(x.Fun)
	case *ast.StarExpr:
		return c.rootParam(x.X)
	case *ast.ParenExpr:
		return c.rootParam(x.X)
	}
	return false
}

// oracleName: "" unless x is a call of a new-style oracle (".Method" or same-package "Func") of the spec
func (c *ctx) oracleName(x *ast.CallExpr) string {
	switch f := x.Fun.(type) {
	case *ast.Ident:
		for _, o := range c.spec.Oracles {
			if o == f.Name {
				return f.Name
			}
		}
	case *ast.SelectorExpr:
		for _, o := range c.spec.Oracles {
			if o == "."+f.Sel.Name {
				if id, ok := f.X.(*ast.Ident); ok {
					if _, isPkg := c.info.Uses[id].(*types.PkgName); isPkg {
						continue
					}
				}
				return f.Sel.Name
			}
		}
	}
	return ""
}

// oracleResults: one fresh input per result of the oracle call x
func (c *ctx) oracleResults(x *ast.CallExpr, name string) []string {
	if c.oracleN == nil {
		c.oracleN = map[string]int{}
	}
	// one number per call SITE: the continuation of a branch is translated once per branch, the same call must keep
	// its inputs
	if c.oracleSite == nil {
		c.oracleSite = map[token.Pos]int{}
	}
	n, seen := c.oracleSite[x.Pos()]
	if !seen {
		c.oracleN[name]++
		n = c.oracleN[name]
		c.oracleSite[x.Pos()] = n
	}
	var kinds []string
	switch t := c.info.Types[x].Type.(type) {
	case *types.Tuple:
		for i := 0; i < t.Len(); i++ {
			kinds = append(kinds, kindOf(t.At(i).Type()))
		}
	default:
		kinds = []string{kindOf(t)}
	}
	var names []string
	for i, k := range kinds {
		if k == "" {
			names = append(names, "") // outside the subset: may only be dropped or kept as an opaque local
			continue
		}
		nm := fmt.Sprintf("%s%s_%d_%d", c.rangePrefix, name, n, i) // inside a range body: a field of the element
		if _, ok := c.leafTy[nm]; !ok {
			c.leafTy[nm] = coqTy(k)
			c.leaves = append(c.leaves, nm)
		}
		names = append(names, nm)
	}
	return names
}

// fieldName: Coq name of a field written / read through a pointer parameter
func (c *ctx) fieldName(e ast.Expr) (string, bool) {
	if sel, ok := e.(*ast.SelectorExpr); ok && c.rootParam(sel) {
		return sanitize(exprString(sel)), true
	}
	return "", false
}

func (c *ctx) leaf(e ast.Expr, k string, prefix string) gexp {
	if len(c.alias) > 0 {
		t := c.info.Types[e]
		e = substParams(e, c.alias)
		if _, ok := c.info.Types[e]; !ok {
			c.info.Types[e] = t
		}
	}
	name := prefix + sanitize(exprString(e))
	if _, ok := c.leafTy[name]; !ok {
		c.leafTy[name] = coqTy(k)
		c.leaves = append(c.leaves, name)
		if c.leafSrc == nil {
			c.leafSrc = map[string]leafInfo{}
		}
		c.leafSrc[name] = leafInfo{name: name, expr: e, typ: c.info.Types[e].Type, pre: prefix}
	}
	return gexp{e: name}
}

// nonnil: the companion input of a *big.Int input (spec nil_guard)
func (c *ctx) nonnil(e ast.Expr) string {
	if len(c.alias) > 0 {
		e = substParams(e, c.alias)
	}
	name := sanitize(exprString(e)) + "_nonnil"
	if _, ok := c.leafTy[name]; !ok {
		c.leafTy[name] = "bool"
		c.leaves = append(c.leaves, name)
		if c.leafSrc == nil {
			c.leafSrc = map[string]leafInfo{}
		}
		c.leafSrc[name] = leafInfo{name: name, expr: e, pre: "nonnil:"}
	}
	return name
}

// substParams: copy of e with the identifiers named in repl (parameters of a callee) replaced
func substParams(e ast.Expr, repl map[string]ast.Expr) ast.Expr {
	switch x := e.(type) {
	case *ast.Ident:
		if r, ok := repl[x.Name]; ok {
			return r
		}
		return x
	case *ast.SelectorExpr:
		return &ast.SelectorExpr{X: substParams(x.X, repl), Sel: x.Sel}
	case *ast.CallExpr:
		n := &ast.CallExpr{Fun: substParams(x.Fun, repl), Lparen: x.Lparen, Rparen: x.Rparen}
		for _, a := range x.Args {
			n.Args = append(n.Args, substParams(a, repl))
		}
		return n
	case *ast.StarExpr:
		return &ast.StarExpr{X: substParams(x.X, repl)}
	case *ast.ParenExpr:
		return &ast.ParenExpr{X: substParams(x.X, repl)}
	case *ast.UnaryExpr:
		return &ast.UnaryExpr{Op: x.Op, X: substParams(x.X, repl)}
	}
	return e
}

// rootsAreParams: every identifier at the root of a selector chain in e (incl. call arguments) is a parameter / opaque
// local of the function being translated, or a package name
func (c *ctx) rootsAreParams(e ast.Expr) bool {
	switch x := e.(type) {
	case *ast.Ident:
		if c.params[x.Name] && c.locals[x.Name] == nil {
			return true
		}
		if _, isPkg := c.info.Uses[x].(*types.PkgName); isPkg {
			return true
		}
		return x.Obj == nil && c.locals[x.Name] == nil && !c.params[x.Name] && x.Name != "" && isPkgLike(x.Name)
	case *ast.SelectorExpr:
		return c.rootsAreParams(x.X)
	case *ast.CallExpr:
		if !c.rootsAreParams(x.Fun) {
			return false
		}
		for _, a := range x.Args {
			if !c.rootsAreParams(a) {
				return false
			}
		}
		return true
	case *ast.StarExpr:
		return c.rootsAreParams(x.X)
	case *ast.ParenExpr:
		return c.rootsAreParams(x.X)
	case *ast.UnaryExpr:
		return c.rootsAreParams(x.X)
	}
	return false
}

// a package identifier coming from another package's syntax tree (no entry in this package's Uses)
func isPkgLike(name string) bool {
	switch name {
	case "types", "bytes", "nom", "definition", "constants", "common":
		return true
	}
	return false
}

// oraclePkg: name of a package-qualified oracle ("pkg.Func" in the spec) called by call, "" otherwise
func (c *ctx) oraclePkg(call *ast.CallExpr) string {
	if sel, ok := call.Fun.(*ast.SelectorExpr); ok {
		if id, ok := sel.X.(*ast.Ident); ok {
			if _, isPkg := c.info.Uses[id].(*types.PkgName); isPkg {
				for _, o := range c.spec.Oracles {
					if o == id.Name+"."+sel.Sel.Name {
						return sel.Sel.Name
					}
				}
			}
		}
	}
	return ""
}

func call2name(c *ctx, call *ast.CallExpr) string {
	if c.oracleN == nil {
		c.oracleN = map[string]int{}
	}
	return c.oracleName(call)
}

// idExpr: a fixed-size byte value (address, token standard, hash) as a number: a package variable (dumped constant)
// or an input hanging off a parameter
func (c *ctx) idExpr(e ast.Expr) gexp {
	if sel, ok := e.(*ast.SelectorExpr); ok {
		if id, ok := sel.X.(*ast.Ident); ok {
			if _, isPkg := c.info.Uses[id].(*types.PkgName); isPkg {
				if v, ok := c.info.Uses[sel.Sel].(*types.Var); ok {
					return gexp{e: "Consts." + v.Name()}
				}
			}
		}
	}
	if st, ok := e.(*ast.StarExpr); ok {
		return c.idExpr(st.X)
	}
	if c.rootParam(e) {
		return c.leaf(e, "big", "")
	}
	bad(e.Pos(), "byte value %s is neither a package variable nor hangs off a parameter", exprString(e))
	return gexp{}
}

// blocksExpr: nil or a literal []*nom.AccountBlock{ {ToAddress: .., Amount: .., TokenStandard: ..}, .. } as the list of
// (ToAddress, Amount, TokenStandard); the other fields of a descendant block (Address, BlockType, Data) are not part of it
func (c *ctx) blocksExpr(e ast.Expr) gexp {
	if id, ok := e.(*ast.Ident); ok && id.Name == "nil" {
		return gexp{e: "nil"}
	}
	if id, ok := e.(*ast.Ident); ok && c.blocksL[id.Name] {
		return gexp{e: cn(id.Name)}
	}
	lit, ok := e.(*ast.CompositeLit)
	if !ok {
		bad(e.Pos(), "descendant blocks must be nil, a literal or a local list of blocks")
	}
	var items []string
	var g []string
	for _, el := range lit.Elts {
		if u, ok := el.(*ast.UnaryExpr); ok && u.Op == token.AND {
			el = u.X
		}
		if id, ok := el.(*ast.Ident); ok && c.blockL[id.Name] {
			items = append(items, cn(id.Name))
			continue
		}
		bl, ok := el.(*ast.CompositeLit)
		if !ok {
			bad(el.Pos(), "descendant block must be a literal")
		}
		to, amt, zts := "0", "0", "0"
		for _, kv := range bl.Elts {
			p, ok := kv.(*ast.KeyValueExpr)
			if !ok {
				bad(kv.Pos(), "descendant block literal without field names")
			}
			switch p.Key.(*ast.Ident).Name {
			case "ToAddress":
				v := c.idExpr(p.Value)
				to, g = v.e, merge(g, v.g)
			case "TokenStandard":
				v := c.idExpr(p.Value)
				zts, g = v.e, merge(g, v.g)
			case "Amount":
				v := c.expr(p.Value)
				amt, g = v.e, merge(g, v.g)
			}
		}
		items = append(items, "("+to+", "+amt+", "+zts+")")
	}
	if len(items) == 0 {
		return gexp{e: "nil", g: g}
	}
	return gexp{e: "(" + strings.Join(items, " :: ") + " :: nil)", g: g}
}

func rootIdent(e ast.Expr) *ast.Ident {
	switch x := e.(type) {
	case *ast.Ident:
		return x
	case *ast.SelectorExpr:
		return rootIdent(x.X)
	case *ast.CallExpr:
		return rootIdent(x.Fun)
	case *ast.StarExpr:
		return rootIdent(x.X)
	case *ast.ParenExpr:
		return rootIdent(x.X)
	}
	return nil
}

// substRoot: copy of the selector / zero-argument call chain e with its root identifier replaced by repl
func substRoot(e ast.Expr, repl ast.Expr) ast.Expr {
	switch x := e.(type) {
	case *ast.Ident:
		return repl
	case *ast.SelectorExpr:
		return &ast.SelectorExpr{X: substRoot(x.X, repl), Sel: x.Sel}
	case *ast.CallExpr:
		return &ast.CallExpr{Fun: substRoot(x.Fun, repl), Lparen: x.Lparen, Rparen: x.Rparen}
	case *ast.StarExpr:
		return &ast.StarExpr{X: substRoot(x.X, repl)}
	case *ast.ParenExpr:
		return &ast.ParenExpr{X: substRoot(x.X, repl)}
	}
	return e
}

func merge(a, b []string) []string { return append(append([]string{}, a...), b...) }

func (c *ctx) expr(e ast.Expr) gexp {
	if v, ok := c.constVal(e); ok {
		return gexp{e: v}
	}
	tv := c.info.Types[e]
	k := ""
	if tv.Type != nil {
		k = kindOf(tv.Type)
	}
	switch x := e.(type) {
	case *ast.ParenExpr:
		return c.expr(x.X)
	case *ast.Ident:
		if x.Name == "nil" {
			if k == "err" || isErr(tv.Type) || tv.IsNil() {
				return gexp{e: "0"}
			}
		}
		if _, ok := c.locals[x.Name]; ok {
			return gexp{e: cn(x.Name)}
		}
		obj := c.info.Uses[x]
		if v, ok := obj.(*types.Var); ok && v.Parent() == v.Pkg().Scope() {
			return c.pkgVar(v, x.Pos())
		}
		bad(x.Pos(), "unsupported identifier %s", x.Name)
	case *ast.SelectorExpr:
		// package-level var of another package
		if id, ok := x.X.(*ast.Ident); ok {
			if _, isPkg := c.info.Uses[id].(*types.PkgName); isPkg {
				if v, ok := c.info.Uses[x.Sel].(*types.Var); ok {
					return c.pkgVar(v, x.Pos())
				}
			}
		}
		if c.rootParam(x) && k != "" {
			return c.leaf(x, k, "")
		}
		bad(x.Pos(), "unsupported selector %s", exprString(x))
	case *ast.StarExpr:
		return c.expr(x.X)
	case *ast.UnaryExpr:
		a := c.expr(x.X)
		switch x.Op {
		case token.SUB:
			return gexp{wrap(k, "(- "+a.e+")"), a.g}
		case token.NOT:
			return gexp{"(negb " + a.e + ")", a.g}
		case token.XOR:
			return gexp{wrap(k, "(- "+a.e+" - 1)"), a.g}
		case token.ADD:
			return a
		}
		bad(x.Pos(), "unsupported unary %s", x.Op)
	case *ast.BinaryExpr:
		return c.binary(x, k)
	case *ast.CallExpr:
		return c.call(x, k)
	case *ast.CompositeLit:
		if k == "le64" && len(x.Elts) == 0 {
			return gexp{e: "0"}
		}
		bad(x.Pos(), "unsupported composite literal")
	case *ast.IndexExpr:
		// byte slice / array parameter with a constant index: leaf input b_i, guarded by i < len_b
		if id, ok := x.X.(*ast.Ident); ok && c.params[id.Name] && c.locals[id.Name] == nil {
			var elem types.Type
			switch t := c.info.Types[x.X].Type.Underlying().(type) {
			case *types.Slice:
				elem = t.Elem()
			case *types.Array:
				elem = t.Elem()
			}
			if iv, isConst := c.constVal(x.Index); isConst && elem != nil && kindOf(elem) == "u8" {
				ln := c.leaf(x.X, "s64", "len_")
				c.partial = true
				name := sanitize(id.Name) + "_" + strings.Trim(iv, "()")
				if _, ok := c.leafTy[name]; !ok {
					c.leafTy[name] = "Z"
					c.leaves = append(c.leaves, name)
				}
				return gexp{name, []string{fmt.Sprintf("((0 <=? %s) && (%s <? %s))", iv, iv, ln.e)}}
			}
		}
		// package-level slice of integers indexed by an integer
		base := c.expr(x.X)
		idx := c.expr(x.Index)
		c.partial = true
		g := merge(merge(base.g, idx.g), []string{fmt.Sprintf("((0 <=? %s) && (%s <? Z.of_nat (length %s)))", idx.e, idx.e, base.e)})
		return gexp{fmt.Sprintf("(nth (Z.to_nat %s) %s 0)", idx.e, base.e), g}
	}
	bad(e.Pos(), "unsupported expression %T %s", e, exprString(e))
	return gexp{}
}

func (c *ctx) pkgVar(v *types.Var, pos token.Pos) gexp {
	t := v.Type()
	for _, vi := range c.spec.VarInputs {
		if vi == v.Name() && kindOf(t) != "" {
			nm := "var_" + v.Name()
			if _, ok := c.leafTy[nm]; !ok {
				c.leafTy[nm] = coqTy(kindOf(t))
				c.leaves = append(c.leaves, nm)
			}
			return gexp{e: nm}
		}
	}
	ok := kindOf(t) != ""
	if s, isS := t.Underlying().(*types.Slice); isS && kindOf(s.Elem()) != "" {
		ok = true
	}
	if isErr(t) {
		name := "Err_" + v.Pkg().Name() + "_" + v.Name()
		c.errs[name] = true
		return gexp{e: name}
	}
	if !ok {
		bad(pos, "package variable %s.%s of unsupported type %s", v.Pkg().Name(), v.Name(), t)
	}
	return gexp{e: "Consts." + v.Name()}
}

func isByteArray(t types.Type) bool {
	if t == nil {
		return false
	}
	if _, ok := t.Underlying().(*types.Struct); ok && types.Comparable(t) && !isBig(t) {
		return true // a comparable struct (HashHeight, AccountHeader): compared as one abstract number
	}
	a, ok := t.Underlying().(*types.Array)
	if !ok {
		return false
	}
	e, ok := a.Elem().Underlying().(*types.Basic)
	return ok && e.Kind() == types.Uint8
}

func (c *ctx) binary(x *ast.BinaryExpr, k string) gexp {
	// == / != of fixed-size byte arrays (hashes, addresses, token standards) hanging off parameters: each side is an
	// input holding the bytes as one big-endian number (injective for a fixed length)
	if (x.Op == token.EQL || x.Op == token.NEQ) && isByteArray(c.info.Types[x.X].Type) && isByteArray(c.info.Types[x.Y].Type) &&
		kindOf(c.info.Types[x.X].Type) != "le64" {
		side := func(e ast.Expr) gexp {
			if sel, ok := e.(*ast.SelectorExpr); ok {
				if id, ok := sel.X.(*ast.Ident); ok {
					if _, isPkg := c.info.Uses[id].(*types.PkgName); isPkg {
						if v, ok := c.info.Uses[sel.Sel].(*types.Var); ok {
							return gexp{e: "Consts." + v.Name()}
						}
					}
				}
			}
			if !c.rootParam(e) {
				bad(e.Pos(), "byte-array comparison of %s which does not hang off a parameter", exprString(e))
			}
			return c.leaf(e, "big", "")
		}
		a, b := side(x.X), side(x.Y)
		if x.Op == token.EQL {
			return gexp{e: "(" + a.e + " =? " + b.e + ")"}
		}
		return gexp{e: "(negb (" + a.e + " =? " + b.e + "))"}
	}
	if x.Op == token.EQL || x.Op == token.NEQ {
		isNil := func(e ast.Expr) bool { id, ok := e.(*ast.Ident); return ok && id.Name == "nil" }
		isPtr := func(e ast.Expr) bool {
			t := c.info.Types[e].Type
			if t == nil || isBig(t) {
				return false
			}
			_, ok := t.Underlying().(*types.Pointer)
			return ok
		}
		var ptr ast.Expr
		if isNil(x.Y) && isPtr(x.X) && c.rootParam(x.X) {
			ptr = x.X
		} else if isNil(x.X) && isPtr(x.Y) && c.rootParam(x.Y) {
			ptr = x.Y
		}
		if ptr != nil {
			nn := c.nonnil(ptr)
			if x.Op == token.NEQ {
				return gexp{e: nn}
			}
			return gexp{e: "(negb " + nn + ")"}
		}
	}
	if (x.Op == token.EQL || x.Op == token.NEQ) && c.spec.NilGuard {
		isNil := func(e ast.Expr) bool { id, ok := e.(*ast.Ident); return ok && id.Name == "nil" }
		var ptr ast.Expr
		if isNil(x.Y) && isBig(c.info.Types[x.X].Type) && c.rootParam(x.X) {
			ptr = x.X
		} else if isNil(x.X) && isBig(c.info.Types[x.Y].Type) && c.rootParam(x.Y) {
			ptr = x.Y
		}
		if ptr != nil {
			nn := c.nonnil(ptr)
			if x.Op == token.NEQ {
				return gexp{e: nn}
			}
			return gexp{e: "(negb " + nn + ")"}
		}
	}
	a := c.expr(x.X)
	b := c.expr(x.Y)
	ka := kindOf(c.info.Types[x.X].Type)
	cmp := func(op string) gexp { return gexp{"(" + a.e + " " + op + " " + b.e + ")", merge(a.g, b.g)} }
	switch x.Op {
	case token.LAND:
		noBind(b.g, x.Pos())
		var g []string
		g = append(g, a.g...)
		for _, gb := range b.g {
			g = append(g, "(negb "+a.e+" || "+gb+")")
		}
		return gexp{"(" + a.e + " && " + b.e + ")", g}
	case token.LOR:
		noBind(b.g, x.Pos())
		var g []string
		g = append(g, a.g...)
		for _, gb := range b.g {
			g = append(g, "("+a.e+" || "+gb+")")
		}
		return gexp{"(" + a.e + " || " + b.e + ")", g}
	case token.EQL:
		if ka == "bool" {
			return gexp{"(Bool.eqb " + a.e + " " + b.e + ")", merge(a.g, b.g)}
		}
		return cmp("=?")
	case token.NEQ:
		if ka == "bool" {
			return gexp{"(negb (Bool.eqb " + a.e + " " + b.e + "))", merge(a.g, b.g)}
		}
		return gexp{"(negb (" + a.e + " =? " + b.e + "))", merge(a.g, b.g)}
	case token.LSS:
		return cmp("<?")
	case token.LEQ:
		return cmp("<=?")
	case token.GTR:
		return gexp{"(" + b.e + " <? " + a.e + ")", merge(a.g, b.g)}
	case token.GEQ:
		return gexp{"(" + b.e + " <=? " + a.e + ")", merge(a.g, b.g)}
	case token.ADD:
		return gexp{wrap(k, "("+a.e+" + "+b.e+")"), merge(a.g, b.g)}
	case token.SUB:
		return gexp{wrap(k, "("+a.e+" - "+b.e+")"), merge(a.g, b.g)}
	case token.MUL:
		return gexp{wrap(k, "("+a.e+" * "+b.e+")"), merge(a.g, b.g)}
	case token.QUO, token.REM:
		g := merge(a.g, b.g)
		if _, isConst := c.constVal(x.Y); !isConst {
			c.partial = true
			g = append(g, "(negb ("+b.e+" =? 0))")
		} else if b.e == "0" {
			bad(x.Pos(), "division by constant zero")
		}
		op := "Z.quot"
		if x.Op == token.REM {
			op = "Z.rem"
		}
		return gexp{wrap(k, "("+op+" "+a.e+" "+b.e+")"), g}
	case token.AND:
		return gexp{wrap(k, "(Z.land "+a.e+" "+b.e+")"), merge(a.g, b.g)}
	case token.OR:
		return gexp{wrap(k, "(Z.lor "+a.e+" "+b.e+")"), merge(a.g, b.g)}
	case token.XOR:
		return gexp{wrap(k, "(Z.lxor "+a.e+" "+b.e+")"), merge(a.g, b.g)}
	case token.SHL:
		return gexp{wrap(k, "(Z.shiftl "+a.e+" "+b.e+")"), merge(a.g, b.g)}
	case token.SHR:
		return gexp{wrap(k, "(Z.shiftr "+a.e+" "+b.e+")"), merge(a.g, b.g)}
	}
	bad(x.Pos(), "unsupported binary operator %s", x.Op)
	return gexp{}
}

// fresh big.Int receiver: new(big.Int), big.NewInt(c), &big.Int{}
func (c *ctx) freshBig(e ast.Expr) (gexp, bool) {
	call, ok := e.(*ast.CallExpr)
	if !ok {
		return gexp{}, false
	}
	if id, ok := call.Fun.(*ast.Ident); ok && id.Name == "new" && len(call.Args) == 1 {
		return gexp{e: "0"}, true
	}
	if sel, ok := call.Fun.(*ast.SelectorExpr); ok {
		if id, ok := sel.X.(*ast.Ident); ok {
			if pn, isPkg := c.info.Uses[id].(*types.PkgName); isPkg && pn.Imported().Path() == "math/big" && sel.Sel.Name == "NewInt" {
				return c.expr(call.Args[0]), true
			}
		}
		// chained fresh: new(big.Int).Set(x) etc. handled by call()
	}
	return gexp{}, false
}

var bigBin = map[string]string{"Add": "(%s + %s)", "Sub": "(%s - %s)", "Mul": "(%s * %s)", "Quo": "(Z.quot %s %s)", "Rem": "(Z.rem %s %s)", "Div": "(bigDiv %s %s)", "Mod": "(bigMod %s %s)"}

// bigMethod: value of recv.M(args) as a pure expression (the receiver's old value is irrelevant for setters)
func (c *ctx) bigMethod(recv ast.Expr, m string, args []ast.Expr, pos token.Pos) (gexp, bool) {
	if f, ok := bigBin[m]; ok && len(args) == 2 {
		a, b := c.expr(args[0]), c.expr(args[1])
		g := merge(a.g, b.g)
		if m == "Quo" || m == "Rem" || m == "Div" || m == "Mod" {
			if _, isConst := c.constVal(args[1]); !isConst {
				c.partial = true
				g = append(g, "(negb ("+b.e+" =? 0))")
			}
		}
		return gexp{fmt.Sprintf(f, a.e, b.e), g}, true
	}
	switch m {
	case "Set", "SetUint64", "SetInt64":
		if len(args) == 1 {
			return c.expr(args[0]), true
		}
	case "Exp":
		if len(args) == 3 {
			if id, ok := args[2].(*ast.Ident); ok && id.Name == "nil" {
				a, b := c.expr(args[0]), c.expr(args[1])
				return gexp{"(Z.pow " + a.e + " " + b.e + ")", merge(a.g, b.g)}, true
			}
		}
	case "Neg":
		a := c.expr(args[0])
		return gexp{"(- " + a.e + ")", a.g}, true
	case "Abs":
		a := c.expr(args[0])
		return gexp{"(Z.abs " + a.e + ")", a.g}, true
	}
	return gexp{}, false
}

func (c *ctx) call(x *ast.CallExpr, k string) gexp {
	// conversions
	if tv, ok := c.info.Types[x.Fun]; ok && tv.IsType() && len(x.Args) == 1 {
		a := c.expr(x.Args[0])
		from := kindOf(c.info.Types[x.Args[0]].Type)
		to := kindOf(tv.Type)
		if to == "" || to == "bool" || from == "" || from == "bool" {
			bad(x.Pos(), "unsupported conversion %s", exprString(x))
		}
		return gexp{wrap(to, a.e), a.g}
	}
	if sel, ok := x.Fun.(*ast.SelectorExpr); ok {
		for _, cp := range c.spec.Captures {
			parts := strings.SplitN(cp, ":", 3)
			if parts[0] == "."+sel.Sel.Name && len(parts) >= 2 && (len(parts) == 2 || parts[2] == exprString(sel.X)) {
				if parts[1] == "called" {
					// the effect is the call itself, on THIS receiver: eff_<receiver>_<Method> := Some 1
					name := c.oracleName(x)
					if name == "" {
						bad(x.Pos(), "captured call %s must also be listed as an oracle", cp)
					}
					rs := c.oracleResults(x, name)
					if len(rs) != 1 || rs[0] == "" {
						bad(x.Pos(), "captured call %s: single scalar result expected", cp)
					}
					eff := "eff_" + sanitize(exprString(sel.X)) + "_" + sel.Sel.Name
					found := false
					for _, o := range c.outF {
						found = found || o == eff
					}
					if !found {
						bad(x.Pos(), "capture %s: receiver %s is not declared in the spec (captures entry \".%s:called:%s\")", cp, exprString(sel.X), sel.Sel.Name, exprString(sel.X))
					}
					return gexp{rs[0], []string{"LET " + eff + " := (Some 1)"}}
				}
				idx := 0
				fmt.Sscanf(parts[1], "%d", &idx)
				if idx >= len(x.Args) {
					bad(x.Pos(), "capture %s: no such argument", cp)
				}
				ae := c.expr(x.Args[idx])
				name := c.oracleName(x)
				if name == "" {
					bad(x.Pos(), "captured call %s must also be listed as an oracle", cp)
				}
				rs := c.oracleResults(x, name)
				if len(rs) != 1 || rs[0] == "" {
					bad(x.Pos(), "captured call %s: single scalar result expected", cp)
				}
				eff := "eff_" + sel.Sel.Name + "_" + parts[1]
				return gexp{rs[0], append(append([]string{}, ae.g...), "LET "+eff+" := (Some "+ae.e+")")}
			}
		}
	}
	if name := c.oracleName(x); name != "" {
		rs := c.oracleResults(x, name)
		if len(rs) != 1 || rs[0] == "" {
			bad(x.Pos(), "oracle %s used as a single value: several results or a result outside the subset", name)
		}
		return gexp{e: rs[0]}
	}
	if sel, ok := x.Fun.(*ast.SelectorExpr); ok && k == "err" {
		if id, ok := sel.X.(*ast.Ident); ok {
			if pn, isPkg := c.info.Uses[id].(*types.PkgName); isPkg && (pn.Imported().Path() == "github.com/pkg/errors" || pn.Imported().Path() == "errors" || pn.Imported().Path() == "fmt") &&
				(sel.Sel.Name == "Errorf" || sel.Sel.Name == "New") && len(x.Args) >= 1 {
				if lit, ok := x.Args[0].(*ast.BasicLit); ok && lit.Kind == token.STRING && strings.HasPrefix(strings.Trim(lit.Value, "\"`"), "%w") && len(x.Args) >= 2 {
					return c.expr(x.Args[1]) // the wrapped sentinel is the identity of the error (errors.Is)
				}
				if lit, ok := x.Args[0].(*ast.BasicLit); ok && lit.Kind == token.STRING {
					msg := strings.Map(func(r rune) rune {
						if (r >= 'a' && r <= 'z') || (r >= 'A' && r <= 'Z') || (r >= '0' && r <= '9') {
							return r
						}
						return '_'
					}, strings.Trim(lit.Value, "\"`"))
					if len(msg) > 48 {
						msg = msg[:48]
					}
					name := "Err_new_" + msg
					c.errs[name] = true
					return gexp{e: name}
				}
			}
		}
	}
	switch f := x.Fun.(type) {
	case *ast.Ident:
		if f.Name == "len" && len(x.Args) == 1 {
			arg := x.Args[0]
			if c.rootParam(arg) {
				return c.leaf(arg, "s64", "len_")
			}
			a := c.expr(arg)
			return gexp{"(Z.of_nat (length " + a.e + "))", a.g}
		}
		if f.Name == "new" {
			return gexp{e: "0"}
		}
		// same-package translated function
		if obj, ok := c.info.Uses[f].(*types.Func); ok {
			return c.knownCall(obj, x)
		}
	case *ast.SelectorExpr:
		// pkg.Func(...)
		if id, ok := f.X.(*ast.Ident); ok {
			if pn, isPkg := c.info.Uses[id].(*types.PkgName); isPkg {
				if pn.Imported().Path() == "math/big" && f.Sel.Name == "NewInt" {
					return c.expr(x.Args[0])
				}
				for _, o := range c.spec.Oracles {
					if o == id.Name+"."+f.Sel.Name && k != "" && k != "err" && k != "big" {
						return c.leaf(x, k, "")
					}
				}
				if obj, ok := c.info.Uses[f.Sel].(*types.Func); ok {
					return c.knownCall(obj, x)
				}
			}
		}
		recvT := c.info.Types[f.X].Type
		if recvT != nil && isBig(recvT) && c.spec.NilGuard && c.rootParam(f.X) {
			switch f.Sel.Name {
			case "Sign", "Cmp", "Uint64", "Int64", "BitLen", "IsUint64":
				nn := c.nonnil(f.X)
				c.partial = true
				cp := *c
				_ = cp
				sub := c.spec.NilGuard
				c.spec.NilGuard = false
				r := c.call(x, k)
				c.spec.NilGuard = sub
				return gexp{r.e, append([]string{nn}, r.g...)}
			}
		}
		if recvT != nil && isBig(recvT) {
			// observers
			switch f.Sel.Name {
			case "Sign":
				a := c.expr(f.X)
				return gexp{"(Z.sgn " + a.e + ")", a.g}
			case "Cmp":
				a, b := c.expr(f.X), c.expr(x.Args[0])
				return gexp{"(zcmp " + a.e + " " + b.e + ")", merge(a.g, b.g)}
			case "Uint64":
				a := c.expr(f.X)
				return gexp{"(big_uint64 " + a.e + ")", a.g}
			case "Int64":
				a := c.expr(f.X)
				return gexp{"(wrapS 64 (big_uint64s " + a.e + "))", a.g}
			case "BitLen":
				a := c.expr(f.X)
				return gexp{"(bitlen " + a.e + ")", a.g}
			case "IsUint64":
				a := c.expr(f.X)
				return gexp{"((0 <=? " + a.e + ") && (" + a.e + " <? two64))", a.g}
			}
			// setters on a fresh receiver are pure
			if _, fresh := c.freshBig(f.X); fresh || c.isFreshChain(f.X) {
				if r, ok := c.bigMethod(f.X, f.Sel.Name, x.Args, x.Pos()); ok {
					return r
				}
			}
			bad(x.Pos(), "big.Int method %s on a non-fresh receiver used as a value (aliasing not modelled)", f.Sel.Name)
		}
		// a method that is itself in the translation spec
		if obj, ok := c.info.Uses[f.Sel].(*types.Func); ok && obj.Pkg() != nil {
			if _, isKnown := c.known[funcKey(obj)]; isKnown {
				return c.knownCall(obj, x)
			}
		}
		// zero-arg method chain on a parameter: leaf
		if len(x.Args) == 0 && c.rootParam(x) && k != "" {
			return c.leaf(x, k, "")
		}
		// method of the same receiver type translated separately
		if obj, ok := c.info.Uses[f.Sel].(*types.Func); ok {
			return c.knownCall(obj, x)
		}
	}
	bad(x.Pos(), "unsupported call %s", exprString(x))
	return gexp{}
}

func (c *ctx) isFreshChain(e ast.Expr) bool {
	if _, ok := c.freshBig(e); ok {
		return true
	}
	if call, ok := e.(*ast.CallExpr); ok {
		if sel, ok := call.Fun.(*ast.SelectorExpr); ok {
			if t := c.info.Types[sel.X].Type; t != nil && isBig(t) {
				return c.isFreshChain(sel.X)
			}
		}
	}
	return false
}

func funcKey(obj *types.Func) string {
	sig := obj.Type().(*types.Signature)
	if r := sig.Recv(); r != nil {
		t := r.Type()
		if p, ok := t.(*types.Pointer); ok {
			t = p.Elem()
		}
		if n, ok := t.(*types.Named); ok {
			return obj.Pkg().Path() + "." + n.Obj().Name() + "." + obj.Name()
		}
	}
	return obj.Pkg().Path() + "." + obj.Name()
}

func (c *ctx) knownCall(obj *types.Func, x *ast.CallExpr) gexp {
	if obj.Pkg() == nil {
		bad(x.Pos(), "unsupported builtin call %s", exprString(x))
	}
	f, ok := c.known[funcKey(obj)]
	if !ok {
		bad(x.Pos(), "call to %s which is not in the translation spec", funcKey(obj))
	}
	var g []string
	s := "(" + f.Coq
	fi := fnInfo[f.Coq]
	for i, a := range x.Args {
		if fi != nil && i < len(fi.params) && fi.params[i] == "" {
			continue // a parameter outside the subset: only its leaves are passed
		}
		ae := c.expr(a)
		g = merge(g, ae.g)
		s += " " + ae.e
	}
	if fi != nil {
		repl := map[string]ast.Expr{}
		if sel, ok := x.Fun.(*ast.SelectorExpr); ok && fi.recv != "" {
			repl[fi.recv] = sel.X
		}
		for i, pn := range fi.pnames {
			if i < len(x.Args) && pn != "" && pn != "_" {
				repl[pn] = x.Args[i]
			}
		}
		for _, lf := range fi.leaves {
			adopt := lf.expr == nil
			if lf.expr != nil {
				// inputs hanging off a local of the callee (an oracle result kept as an opaque local) cannot be expressed
				// in the caller's terms either
				if r := rootIdent(lf.expr); r != nil && !isPkgLike(r.Name) {
					if _, ok := repl[r.Name]; !ok {
						adopt = true
					}
				}
			}
			if adopt && lf.coqTy != "" {
				// an oracle result / variable input of the callee: the caller takes it over as its own input
				nm := f.Coq + "__" + lf.name
				if _, ok := c.leafTy[nm]; !ok {
					c.leafTy[nm] = lf.coqTy
					c.leaves = append(c.leaves, nm)
				}
				s += " " + nm
				continue
			}
			if lf.expr == nil || (lf.pre != "" && lf.pre != "nonnil:" && lf.pre != "len_") {
				bad(x.Pos(), "callee %s has the input %s which a caller cannot supply", f.Coq, lf.name)
			}
			ne := substParams(lf.expr, repl)
			if !c.rootsAreParams(ne) {
				bad(x.Pos(), "callee %s: its input %s becomes %s here, which does not hang off parameters", f.Coq, lf.name, exprString(ne))
			}
			c.info.Types[ne] = types.TypeAndValue{Type: lf.typ}
			if lf.pre == "nonnil:" {
				s += " " + c.nonnil(ne)
				continue
			}
			if lf.pre == "len_" {
				s += " " + c.leaf(ne, "s64", "len_").e
				continue
			}
			k := "big"
			if lf.coqTy == "bool" {
				k = "bool"
			}
			s += " " + c.leaf(ne, k, "").e
		}
	}
	s += ")"
	part, done := partialFns[f.Coq]
	if !done {
		bad(x.Pos(), "callee %s must precede its caller in the translation spec", f.Coq)
	}
	if part {
		c.partial = true
		c.nbind++
		v := fmt.Sprintf("call%d", c.nbind)
		g = append(g, "BIND "+v+" := "+s)
		return gexp{v, g}
	}
	return gexp{s, g}
}

// ---- statements (continuation style with duplication of the continuation at branches)

func guardWrap(g []string, body string) string {
	for i := len(g) - 1; i >= 0; i-- {
		if strings.HasPrefix(g[i], "BIND ") {
			parts := strings.SplitN(strings.TrimPrefix(g[i], "BIND "), " := ", 2)
			body = "(bind " + parts[1] + " (fun " + parts[0] + " => " + body + "))"
			continue
		}
		if strings.HasPrefix(g[i], "LET ") {
			parts := strings.SplitN(strings.TrimPrefix(g[i], "LET "), " := ", 2)
			body = "(let " + parts[0] + " := " + parts[1] + " in " + body + ")"
			continue
		}
		body = "(guard " + g[i] + " " + body + ")"
	}
	return body
}

func noBind(g []string, pos token.Pos) {
	for _, x := range g {
		if strings.HasPrefix(x, "BIND ") || strings.HasPrefix(x, "LET ") {
			bad(pos, "call to a partial function / a captured call on the right of && / || is not supported")
		}
	}
}

func (c *ctx) dropped(i int) bool {
	for _, d := range c.spec.DropResults {
		if d == i {
			return true
		}
	}
	return false
}

// captureArgs: the "let eff_.. := Some arg in" prefixes of the argument captures (".Method:idx" / ".Method:idx:blocks")
// of the oracle call x used in return position
func (c *ctx) captureArgs(x *ast.CallExpr) (lets []string, g []string) {
	sel, ok := x.Fun.(*ast.SelectorExpr)
	if !ok {
		return nil, nil
	}
	for _, cp := range c.spec.Captures {
		parts := strings.SplitN(cp, ":", 3)
		if parts[0] != "."+sel.Sel.Name || len(parts) < 2 || parts[1] == "called" {
			continue
		}
		if len(parts) == 3 && parts[2] != "blocks" {
			continue
		}
		idx := 0
		fmt.Sscanf(parts[1], "%d", &idx)
		if idx >= len(x.Args) {
			bad(x.Pos(), "capture %s: no such argument", cp)
		}
		var ae gexp
		if len(parts) == 3 {
			ae = c.blocksExpr(x.Args[idx])
		} else {
			ae = c.expr(x.Args[idx])
		}
		g = merge(g, ae.g)
		lets = append(lets, "(let eff_"+sel.Sel.Name+"_"+parts[1]+" := (Some "+ae.e+") in ")
	}
	return lets, g
}

func (c *ctx) ret(vals []string) string {
	vals = append(append([]string{}, vals...), c.outF...)
	if len(vals) == 0 {
		return "(RET tt)"
	}
	s := vals[0]
	if len(vals) > 1 {
		s = "(" + strings.Join(vals, ", ") + ")"
	}
	return "(RET " + s + ")"
}

func (c *ctx) stmts(list []ast.Stmt) string {
	if len(list) == 0 {
		return "FALLTHROUGH"
	}
	s, rest := list[0], list[1:]
	switch x := s.(type) {
	case *ast.ReturnStmt:
		var vals []string
		var g []string
		if len(c.spec.Opaque) > 0 {
			if len(x.Results) == 1 {
				if call, ok := x.Results[0].(*ast.CallExpr); ok {
					name := ""
					switch f := call.Fun.(type) {
					case *ast.Ident:
						name = f.Name
					case *ast.SelectorExpr:
						name = f.Sel.Name
					}
					if c.spec.Opaque[name] == "args" && len(call.Args) > 0 {
						var kinds []string
						for _, a := range call.Args {
							k := kindOf(c.info.Types[a].Type)
							if k == "" || k == "err" {
								bad(a.Pos(), "argument %s of opaque callee %s has unsupported type", exprString(a), name)
							}
							ge := c.expr(a)
							g = merge(g, ge.g)
							vals = append(vals, ge.e)
							kinds = append(kinds, k)
						}
						if c.opaqueK != nil && strings.Join(c.opaqueK, ",") != strings.Join(kinds, ",") {
							bad(x.Pos(), "opaque callees with different argument types")
						}
						c.opaqueK = kinds
						return guardWrap(g, c.ret(vals))
					}
				}
			}
			bad(x.Pos(), "a function with opaque callees must return the opaque call on every path")
		}
		if len(x.Results) == 1 && c.results.Len() > 1 {
			// return oracle(..): the results of the oracle call are the results of the function
			if call, ok := x.Results[0].(*ast.CallExpr); ok {
				if on := c.oracleName(call); on != "" {
					names := c.oracleResults(call, on)
					if len(names) != c.results.Len() {
						bad(x.Pos(), "return of oracle call %s: %d results expected", on, c.results.Len())
					}
					for i, nm := range names {
						if c.dropped(i) {
							continue
						}
						if nm == "" || kindOf(c.results.At(i).Type()) == "blocks" {
							bad(x.Pos(), "return of oracle call %s: result %d is outside the subset", on, i)
						}
						vals = append(vals, nm)
					}
					lets, cg := c.captureArgs(call)
					return guardWrap(merge(g, cg), strings.Join(lets, "")+c.ret(vals)+strings.Repeat(")", len(lets)))
				}
			}
			bad(x.Pos(), "return of a multi-value call is not supported")
		}
		for i, r := range x.Results {
			if len(x.Results) == c.results.Len() && c.dropped(i) {
				continue
			}
			if i < c.results.Len() && kindOf(c.results.At(i).Type()) == "blocks" {
				ge := c.blocksExpr(r)
				g = merge(g, ge.g)
				vals = append(vals, ge.e)
				continue
			}
			// big.Int results are values; error results nil/var
			ge := c.expr(r)
			g = merge(g, ge.g)
			vals = append(vals, ge.e)
		}
		if len(vals) == 0 && c.results.Len() > 0 {
			bad(x.Pos(), "bare return")
		}
		return guardWrap(g, c.ret(vals))
	case *ast.BlockStmt:
		return c.stmts(append(append([]ast.Stmt{}, x.List...), rest...))
	case *ast.IfStmt:
		var pre []ast.Stmt
		if x.Init != nil {
			pre = append(pre, x.Init)
		}
		if len(pre) > 0 {
			cp := *x
			cp.Init = nil
			return c.stmts(append(append(pre, &cp), rest...))
		}
		cond := c.expr(x.Cond)
		thenS := c.stmts(append(append([]ast.Stmt{}, x.Body.List...), rest...))
		var elseS string
		if x.Else != nil {
			elseS = c.stmts(append([]ast.Stmt{x.Else}, rest...))
		} else {
			elseS = c.stmts(rest)
		}
		return guardWrap(cond.g, "(if "+cond.e+" then "+thenS+" else "+elseS+")")
	case *ast.DeclStmt:
		gd, ok := x.Decl.(*ast.GenDecl)
		if !ok || gd.Tok != token.VAR {
			bad(x.Pos(), "unsupported declaration")
		}
		return c.declThen(gd, rest)
	case *ast.AssignStmt:
		return c.assign(x, rest)
	case *ast.IncDecStmt:
		id, ok := x.X.(*ast.Ident)
		if !ok {
			bad(x.Pos(), "unsupported inc/dec target")
		}
		k := kindOf(c.info.Types[x.X].Type)
		op := "+"
		if x.Tok == token.DEC {
			op = "-"
		}
		return "(let " + cn(id.Name) + " := " + wrap(k, "("+cn(id.Name)+" "+op+" 1)") + " in " + c.stmts(rest) + ")"
	case *ast.ExprStmt:
		// statement-level big.Int update: z.Op(a, b)  ==> z := op(a,b)
		if call, ok := x.X.(*ast.CallExpr); ok {
			if sel, ok := call.Fun.(*ast.SelectorExpr); ok {
				if id, ok := sel.X.(*ast.Ident); ok && c.locals[id.Name] != nil && isBig(c.locals[id.Name]) {
					if r, ok := c.bigMethod(sel.X, sel.Sel.Name, call.Args, x.Pos()); ok {
						return guardWrap(r.g, "(let "+cn(id.Name)+" := "+r.e+" in "+c.stmts(rest)+")")
					}
				}
			}
		}
		if call, ok := x.X.(*ast.CallExpr); ok {
			if sel, ok := call.Fun.(*ast.SelectorExpr); ok {
				if fsel, ok := sel.X.(*ast.SelectorExpr); ok && c.rootParam(fsel) && isBig(c.info.Types[fsel].Type) {
					switch sel.Sel.Name {
					case "Add", "Sub", "Mul", "Set":
						if r, ok := c.bigMethod(sel.X, sel.Sel.Name, call.Args, x.Pos()); ok {
							fn, _ := c.fieldName(fsel)
							c.leaf(fsel, "big", "")
							return guardWrap(r.g, "(let "+fn+" := "+r.e+" in "+c.stmts(rest)+")")
						}
					}
				}
			}
		}
		// binary.LittleEndian.PutUint64(arr[:], e) on a local [8]byte: arr := e
		if call, ok := x.X.(*ast.CallExpr); ok && len(call.Args) == 2 {
			if sel, ok := call.Fun.(*ast.SelectorExpr); ok && sel.Sel.Name == "PutUint64" {
				if in, ok := sel.X.(*ast.SelectorExpr); ok && in.Sel.Name == "LittleEndian" {
					if sl, ok := call.Args[0].(*ast.SliceExpr); ok && sl.Low == nil && sl.High == nil {
						if id, ok := sl.X.(*ast.Ident); ok && c.locals[id.Name] != nil && kindOf(c.locals[id.Name]) == "le64" {
							v := c.expr(call.Args[1])
							return guardWrap(v.g, "(let "+cn(id.Name)+" := (wrapU 64 "+v.e+") in "+c.stmts(rest)+")")
						}
					}
				}
			}
		}
		// an oracle call whose result is ignored: only its captured effect (if any) remains
		if call, ok := x.X.(*ast.CallExpr); ok && c.oracleName(call) != "" {
			k := ""
			if t := c.info.Types[call].Type; t != nil {
				k = kindOf(t)
			}
			if k != "" {
				ge := c.call(call, k)
				return guardWrap(ge.g, c.stmts(rest))
			}
			// a call without result (e.g. a Save that panics by itself): only a ":called" capture is left of it
			if sel, ok := call.Fun.(*ast.SelectorExpr); ok {
				for _, cp := range c.spec.Captures {
					parts := strings.SplitN(cp, ":", 3)
					if len(parts) == 3 && parts[0] == "."+sel.Sel.Name && parts[1] == "called" && parts[2] == exprString(sel.X) {
						eff := "eff_" + sanitize(parts[2]) + "_" + sel.Sel.Name
						return "(let " + eff + " := (Some 1) in " + c.stmts(rest) + ")"
					}
					if len(parts) == 2 && parts[0] == "."+sel.Sel.Name && parts[1] != "called" {
						idx := 0
						fmt.Sscanf(parts[1], "%d", &idx)
						if idx >= len(call.Args) {
							bad(x.Pos(), "capture %s: no such argument", cp)
						}
						ae := c.expr(call.Args[idx])
						eff := "eff_" + sel.Sel.Name + "_" + parts[1]
						return guardWrap(ae.g, "(let "+eff+" := (Some "+ae.e+") in "+c.stmts(rest)+")")
					}
				}
				return c.stmts(rest)
			}
		}
		// panic(..)
		if call, ok := x.X.(*ast.CallExpr); ok {
			if id, ok := call.Fun.(*ast.Ident); ok && id.Name == "panic" {
				c.partial = true
				return "Panic"
			}
		}
		// logging has no effect on the result
		if call, ok := x.X.(*ast.CallExpr); ok {
			if sel, ok := call.Fun.(*ast.SelectorExpr); ok {
				switch sel.Sel.Name {
				case "Info", "Debug", "Error", "Warn", "Crit":
					if rid := rootIdent(sel.X); rid != nil && (rid.Name == "log" || strings.HasSuffix(strings.ToLower(rid.Name), "log") || strings.HasSuffix(rid.Name, "Logger")) {
						return c.stmts(rest)
					}
					if inner, ok := sel.X.(*ast.SelectorExpr); ok && (strings.HasSuffix(inner.Sel.Name, "Logger") || inner.Sel.Name == "log") {
						return c.stmts(rest)
					}
				}
			}
		}
		// common.DealWithErr(err): panics unless err is nil
		if call, ok := x.X.(*ast.CallExpr); ok && len(call.Args) == 1 {
			if sel, ok := call.Fun.(*ast.SelectorExpr); ok && sel.Sel.Name == "DealWithErr" {
				v := c.expr(call.Args[0])
				c.partial = true
				return guardWrap(append(v.g, "("+v.e+" =? 0)"), c.stmts(rest))
			}
		}
		bad(x.Pos(), "unsupported expression statement %s", exprString(x.X))
	case *ast.SwitchStmt:
		return c.switchStmt(x, rest)
	case *ast.EmptyStmt:
		if code, ok := c.contCode[x]; ok {
			return code
		}
		if it, ok := c.iters[x]; ok {
			return c.iterate(it)
		}
		return c.stmts(rest)
	case *ast.ForStmt:
		return c.forStmt(x, rest)
	case *ast.RangeStmt:
		return c.rangeStmt(x, rest)
	}
	bad(s.Pos(), "unsupported statement %T", s)
	return ""
}

// forStmt unrolls `for i := c0; i <cmp> c1; i++ | i--` with constant bounds (at most 256 iterations). A trailing
// `if cond { continue }` of the body is a no-op and dropped; any other continue/break is outside the subset.
func (c *ctx) forStmt(x *ast.ForStmt, rest []ast.Stmt) string {
	as, ok := x.Init.(*ast.AssignStmt)
	if !ok || as.Tok != token.DEFINE || len(as.Lhs) != 1 || len(as.Rhs) != 1 {
		bad(x.Pos(), "unsupported for loop (init)")
	}
	id, ok := as.Lhs[0].(*ast.Ident)
	if !ok {
		bad(x.Pos(), "unsupported for loop (init)")
	}
	tv0 := c.info.Types[as.Rhs[0]]
	if tv0.Value == nil || tv0.Value.Kind() != constant.Int {
		bad(x.Pos(), "for loop: start is not a constant")
	}
	v0, _ := constant.Int64Val(tv0.Value)
	cond, ok := x.Cond.(*ast.BinaryExpr)
	if !ok {
		bad(x.Pos(), "unsupported for loop (condition)")
	}
	ci, ok := cond.X.(*ast.Ident)
	tv1 := c.info.Types[cond.Y]
	if !ok || ci.Name != id.Name || tv1.Value == nil || tv1.Value.Kind() != constant.Int {
		bad(x.Pos(), "for loop: bound is not a constant")
	}
	v1, _ := constant.Int64Val(tv1.Value)
	post, ok := x.Post.(*ast.IncDecStmt)
	if !ok {
		bad(x.Pos(), "unsupported for loop (post)")
	}
	pi, ok := post.X.(*ast.Ident)
	if !ok || pi.Name != id.Name {
		bad(x.Pos(), "unsupported for loop (post)")
	}
	step := int64(1)
	if post.Tok == token.DEC {
		step = -1
	}
	holds := func(v int64) bool {
		switch cond.Op {
		case token.LSS:
			return v < v1
		case token.LEQ:
			return v <= v1
		case token.GTR:
			return v > v1
		case token.GEQ:
			return v >= v1
		}
		bad(x.Pos(), "unsupported for loop (comparison)")
		return false
	}
	var vals []int64
	for v := v0; holds(v); v += step {
		vals = append(vals, v)
		if len(vals) > 256 {
			bad(x.Pos(), "for loop with more than 256 iterations")
		}
	}
	body := append([]ast.Stmt{}, x.Body.List...)
	if n := len(body); n > 0 {
		if is, ok := body[n-1].(*ast.IfStmt); ok && is.Else == nil && is.Init == nil && len(is.Body.List) == 1 {
			if br, ok := is.Body.List[0].(*ast.BranchStmt); ok && br.Tok == token.CONTINUE && br.Label == nil {
				body = body[:n-1]
			}
		}
	}
	return c.iterate(&iterInfo{name: id.Name, vals: vals, idx: 0, body: body, rest: rest})
}

// rangeStmt: `for _, v := range L { body }` over a slice L that hangs off a parameter / an opaque local (e.g. an oracle
// result). L becomes the input L_items : list (tuple of the scalar leaves of v the body reads); the loop becomes a
// structural fixpoint over that list; an early `return` in the body returns, falling off the body goes on with the
// next element, after the last element the statements after the loop run. The body may not assign variables declared
// outside it (no loop-carried state), nor break / continue.
func (c *ctx) rangeStmt(x *ast.RangeStmt, rest []ast.Stmt) string {
	if x.Tok != token.DEFINE || x.Value == nil {
		bad(x.Pos(), "unsupported range loop (needs `for _, v := range`)")
	}
	if k, ok := x.Key.(*ast.Ident); !ok || k.Name != "_" {
		bad(x.Pos(), "unsupported range loop (index is used)")
	}
	v, ok := x.Value.(*ast.Ident)
	isBlocksLocal := false
	if id, isId := x.X.(*ast.Ident); isId && c.blocksL[id.Name] {
		// a local list of descendant blocks: the loop runs over the parallel input <name>_items that holds, per block,
		// what the body reads of it and the results of the oracle calls made for it
		isBlocksLocal = true
	}
	if !ok || (!c.rootParam(x.X) && !isBlocksLocal) {
		bad(x.Pos(), "unsupported range loop (the slice %s does not hang off a parameter)", exprString(x.X))
	}
	ast.Inspect(x.Body, func(n ast.Node) bool {
		check := func(e ast.Expr) {
			if id, ok := e.(*ast.Ident); ok {
				if obj := c.info.Uses[id]; obj != nil && (obj.Pos() < x.Body.Pos() || obj.Pos() > x.Body.End()) {
					bad(e.Pos(), "range loop assigns %s declared outside the loop (loop-carried state is not supported)", id.Name)
				}
			} else if _, ok := c.fieldName(e); ok {
				bad(e.Pos(), "range loop assigns a field of a parameter")
			}
		}
		switch st := n.(type) {
		case *ast.AssignStmt:
			for _, l := range st.Lhs {
				check(l)
			}
		case *ast.IncDecStmt:
			check(st.X)
		}
		return true
	})
	c.nrange++
	n := c.nrange
	lname := sanitize(exprString(x.X)) + "_items"
	prefix := sanitize(v.Name) + "_"
	if c.contCode == nil {
		c.contCode = map[*ast.EmptyStmt]string{}
	}
	marker := &ast.EmptyStmt{}
	c.contCode[marker] = fmt.Sprintf("(loop_%d tl_%d)", n, n)
	hadP := c.params[v.Name]
	c.params[v.Name] = true
	before := len(c.leaves)
	oldRP := c.rangePrefix
	c.rangePrefix = prefix
	body := c.stmts(append(append([]ast.Stmt{}, x.Body.List...), marker))
	c.rangePrefix = oldRP
	c.params[v.Name] = hadP
	// the element's fields = the inputs first seen inside the body whose name starts with the element's name
	var fields, ftys, keep []string
	keep = append(keep, c.leaves[:before]...)
	for _, l := range c.leaves[before:] {
		if strings.HasPrefix(l, prefix) {
			fields = append(fields, l)
			ftys = append(ftys, c.leafTy[l])
			delete(c.leafTy, l)
		} else {
			keep = append(keep, l)
		}
	}
	c.leaves = keep
	for _, l := range c.leaves[:before] {
		if strings.HasPrefix(l, prefix) {
			bad(x.Pos(), "input %s clashes with the element variable of the range loop", l)
		}
	}
	ety, pat := "unit", "_"
	if len(fields) > 0 {
		ety = strings.Join(ftys, " * ")
		pat = "'(" + strings.Join(fields, ", ") + ")"
	}
	if _, ok := c.leafTy[lname]; ok {
		bad(x.Pos(), "two range loops over %s", lname)
	}
	c.leafTy[lname] = "list (" + ety + ")"
	c.leaves = append(c.leaves, lname)
	after := c.stmts(rest)
	return fmt.Sprintf("((fix loop_%d (l_%d : list (%s)) := match l_%d with nil => %s | cons hd_%d tl_%d => let %s := hd_%d in %s end) %s)",
		n, n, ety, n, after, n, n, pat, n, body, lname)
}

func (c *ctx) iterate(it *iterInfo) string {
	if c.loopVal == nil {
		c.loopVal = map[string]string{}
		c.iters = map[*ast.EmptyStmt]*iterInfo{}
	}
	old, had := c.loopVal[it.name]
	defer func() {
		if had {
			c.loopVal[it.name] = old
		} else {
			delete(c.loopVal, it.name)
		}
	}()
	if it.idx >= len(it.vals) {
		delete(c.loopVal, it.name)
		return c.stmts(it.rest)
	}
	c.loopVal[it.name] = zlit(fmt.Sprint(it.vals[it.idx]))
	marker := &ast.EmptyStmt{}
	next := *it
	next.idx = it.idx + 1
	c.iters[marker] = &next
	return c.stmts(append(append([]ast.Stmt{}, it.body...), marker))
}

func (c *ctx) declThen(gd *ast.GenDecl, rest []ast.Stmt) string {
	type b struct {
		name, val string
		g         []string
	}
	var binds []b
	for _, sp := range gd.Specs {
		vs := sp.(*ast.ValueSpec)
		for j, n := range vs.Names {
			if c.shadows(n) {
				bad(n.Pos(), "declaration of %s shadows an outer variable (not supported)", n.Name)
			}
			t := c.info.Defs[n].Type()
			k := kindOf(t)
			if k == "" {
				if len(vs.Values) > j {
					bad(n.Pos(), "local %s of unsupported type %s", n.Name, t)
				}
				// declared only: an opaque local that oracle calls fill in and read
				if c.opaqueL == nil {
					c.opaqueL = map[string]bool{}
				}
				c.opaqueL[n.Name] = true
				c.params[n.Name] = true
				continue
			}
			init := "0"
			if k == "bool" {
				init = "false"
			}
			var g []string
			if len(vs.Values) > j {
				ge := c.expr(vs.Values[j])
				init, g = ge.e, ge.g
			}
			c.locals[n.Name] = t
			binds = append(binds, b{cn(n.Name), init, g})
		}
	}
	body := c.stmts(rest)
	for i := len(binds) - 1; i >= 0; i-- {
		body = guardWrap(binds[i].g, "(let "+binds[i].name+" := "+binds[i].val+" in "+body+")")
	}
	return body
}

func (c *ctx) assign(x *ast.AssignStmt, rest []ast.Stmt) string {
	if len(x.Lhs) > 1 && len(x.Rhs) == 1 {
		if call, ok := x.Rhs[0].(*ast.CallExpr); ok {
			name := c.oracleName(call)
			if sel, ok := call.Fun.(*ast.SelectorExpr); ok && name == "" {
				if id, ok := sel.X.(*ast.Ident); ok {
					if _, isPkg := c.info.Uses[id].(*types.PkgName); isPkg {
						for _, o := range c.spec.Oracles {
							if o == id.Name+"."+sel.Sel.Name {
								name = sel.Sel.Name
							}
						}
					}
				}
			}
			if name != "" && (x.Tok == token.DEFINE || x.Tok == token.ASSIGN) {
				rs := c.oracleResults(call, name)
				if len(rs) != len(x.Lhs) {
					bad(x.Pos(), "oracle %s: %d results for %d targets", name, len(rs), len(x.Lhs))
				}
				var names []string
				for i, l := range x.Lhs {
					if fn, ok := c.fieldName(l); ok {
						if rs[i] == "" {
							bad(l.Pos(), "oracle result %d outside the subset assigned to %s", i, fn)
						}
						c.leaf(l, kindOf(c.info.Types[l].Type), "")
						names = append(names, fn)
						continue
					}
					id, ok := l.(*ast.Ident)
					if !ok {
						bad(l.Pos(), "assignment to %s", exprString(l))
					}
					if id.Name == "_" {
						names = append(names, "")
						continue
					}
					var t types.Type
					if d := c.info.Defs[id]; d != nil {
						if c.shadows(id) {
							bad(id.Pos(), "declaration of %s shadows an outer variable (not supported)", id.Name)
						}
						t = d.Type()
					} else {
						t = c.info.Uses[id].Type()
					}
					if kindOf(t) == "" {
						// an opaque local: zero-argument selector / method chains hanging off it become inputs (like
						// those of a parameter); it can also be passed on to other oracle calls
						if c.info.Defs[id] == nil && c.opaqueL[id.Name] {
							names = append(names, "")
							continue
						}
						if c.info.Defs[id] == nil {
							bad(l.Pos(), "re-assignment of %s of unsupported type %s", id.Name, t)
						}
						if c.opaqueL == nil {
							c.opaqueL = map[string]bool{}
						}
						c.opaqueL[id.Name] = true
						c.params[id.Name] = true
						names = append(names, "")
						continue
					}
					if rs[i] == "" {
						bad(l.Pos(), "oracle result %d outside the subset assigned to %s", i, id.Name)
					}
					c.locals[id.Name] = t
					if kindOf(t) == "blocks" {
						if c.blocksL == nil {
							c.blocksL = map[string]bool{}
						}
						c.blocksL[id.Name] = true
					}
					names = append(names, cn(id.Name))
				}
				body := c.stmts(rest)
				for i := len(names) - 1; i >= 0; i-- {
					if names[i] != "" {
						body = "(let " + names[i] + " := " + rs[i] + " in " + body + ")"
					}
				}
				return body
			}
		}
	}
	if len(x.Lhs) != len(x.Rhs) {
		bad(x.Pos(), "multi-value assignment from a call is not supported")
	}
	// local lists of descendant blocks: x := make([]*nom.AccountBlock, ..) ; d := &nom.AccountBlock{..} ; x = append(x, d)
	if len(x.Lhs) == 1 {
		if id, ok := x.Lhs[0].(*ast.Ident); ok {
			var t types.Type
			if d := c.info.Defs[id]; d != nil {
				t = d.Type()
			} else if u := c.info.Uses[id]; u != nil {
				t = u.Type()
			}
			if t != nil && kindOf(t) == "blocks" {
				if call, ok := x.Rhs[0].(*ast.CallExpr); ok {
					if fn, ok := call.Fun.(*ast.Ident); ok && fn.Name == "make" && x.Tok == token.DEFINE {
						if c.shadows(id) {
							bad(id.Pos(), "declaration of %s shadows an outer variable (not supported)", id.Name)
						}
						if len(call.Args) >= 2 {
							if lit, ok := call.Args[1].(*ast.BasicLit); !ok || lit.Value != "0" {
								bad(x.Pos(), "make of a block list with a length other than 0")
							}
						}
						if c.blocksL == nil {
							c.blocksL = map[string]bool{}
						}
						c.blocksL[id.Name] = true
						return "(let " + cn(id.Name) + " := (@nil (Z * Z * Z)) in " + c.stmts(rest) + ")"
					}
					if fn, ok := call.Fun.(*ast.Ident); ok && fn.Name == "append" && x.Tok == token.ASSIGN && c.blocksL[id.Name] && len(call.Args) == 2 {
						if a0, ok := call.Args[0].(*ast.Ident); ok && a0.Name == id.Name {
							if a1, ok := call.Args[1].(*ast.Ident); ok && c.blockL[a1.Name] {
								return "(let " + cn(id.Name) + " := (" + cn(id.Name) + " ++ (" + cn(a1.Name) + " :: nil)) in " + c.stmts(rest) + ")"
							}
						}
					}
				}
				bad(x.Pos(), "unsupported operation on the block list %s", id.Name)
			}
			if u, ok := x.Rhs[0].(*ast.UnaryExpr); ok && u.Op == token.AND && x.Tok == token.DEFINE {
				if bl, ok := u.X.(*ast.CompositeLit); ok && strings.HasSuffix(c.info.Types[bl].Type.String(), "nom.AccountBlock") {
					if c.shadows(id) {
						bad(id.Pos(), "declaration of %s shadows an outer variable (not supported)", id.Name)
					}
					one := c.blocksExpr(&ast.CompositeLit{Elts: []ast.Expr{bl}})
					tup := strings.TrimSuffix(strings.TrimPrefix(one.e, "("), " :: nil)")
					if c.blockL == nil {
						c.blockL = map[string]bool{}
					}
					c.blockL[id.Name] = true
					if c.opaqueL == nil {
						c.opaqueL = map[string]bool{}
					}
					c.opaqueL[id.Name] = true // may be handed to oracle calls
					c.params[id.Name] = true
					return guardWrap(one.g, "(let "+cn(id.Name)+" := "+tup+" in "+c.stmts(rest)+")")
				}
			}
		}
	}
	if len(x.Lhs) == 1 && x.Tok == token.ASSIGN {
		if id, ok := x.Lhs[0].(*ast.Ident); ok && c.opaqueL[id.Name] {
			if call, isCall := x.Rhs[0].(*ast.CallExpr); isCall && (c.oracleName(call) != "" || c.oraclePkg(call) != "") {
				return c.stmts(rest) // the opaque local now holds that oracle's result; only oracles read it
			}
			bad(x.Pos(), "assignment to the opaque local %s from something that is not an oracle call", id.Name)
		}
	}
	if len(x.Lhs) == 1 && x.Tok != token.DEFINE {
		if fn, ok := c.fieldName(x.Lhs[0]); ok {
			k := kindOf(c.info.Types[x.Lhs[0]].Type)
			if k == "" {
				bad(x.Pos(), "assignment to field %s of unsupported type", fn)
			}
			c.leaf(x.Lhs[0], k, "") // its initial value is an input
			var v gexp
			if x.Tok == token.ASSIGN {
				v = c.expr(x.Rhs[0])
			} else {
				opmap := map[token.Token]token.Token{token.ADD_ASSIGN: token.ADD, token.SUB_ASSIGN: token.SUB, token.MUL_ASSIGN: token.MUL}
				op, ok := opmap[x.Tok]
				if !ok {
					bad(x.Pos(), "unsupported assignment operator %s on a field", x.Tok)
				}
				be := &ast.BinaryExpr{X: x.Lhs[0], Op: op, Y: x.Rhs[0], OpPos: x.Pos()}
				c.info.Types[be] = types.TypeAndValue{Type: c.info.Types[x.Lhs[0]].Type}
				v = c.binary(be, k)
			}
			return guardWrap(v.g, "(let "+fn+" := "+v.e+" in "+c.stmts(rest)+")")
		}
	}
	if len(x.Lhs) == 1 && x.Tok == token.DEFINE {
		if id, ok := x.Lhs[0].(*ast.Ident); ok {
			if d := c.info.Defs[id]; d != nil && kindOf(d.Type()) == "" {
				if c.shadows(id) {
					bad(id.Pos(), "declaration of %s shadows an outer variable (not supported)", id.Name)
				}
				call, isCall := x.Rhs[0].(*ast.CallExpr)
				isOracle := isCall && (c.oracleName(call) != "" || c.oraclePkg(call) != "")
				if !isOracle && c.rootParam(x.Rhs[0]) {
					if c.alias == nil {
						c.alias = map[string]ast.Expr{}
					}
					c.alias[id.Name] = substParams(x.Rhs[0], c.alias)
				} else if isOracle {
					// a distinct result per call: the local's own name identifies it
				} else if isCall && func() bool { id, ok := call.Fun.(*ast.Ident); return ok && id.Name == "new" }() {
					// a fresh zero value that only oracle calls fill in and read
				} else {
					bad(x.Pos(), "local %s of a type outside the subset is neither an oracle result nor hangs off a parameter", id.Name)
				}
				// a local of a type outside the subset: may only be passed on to oracle calls (whose arguments are not translated)
				if c.opaqueL == nil {
					c.opaqueL = map[string]bool{}
				}
				c.opaqueL[id.Name] = true
				c.params[id.Name] = true
				return c.stmts(rest)
			}
		}
	}
	type b struct {
		name, val string
		g         []string
	}
	var binds []b
	for i, l := range x.Lhs {
		id, ok := l.(*ast.Ident)
		if !ok {
			bad(l.Pos(), "assignment to non-identifier %s", exprString(l))
		}
		var t types.Type
		if x.Tok == token.DEFINE {
			if c.shadows(id) {
				bad(id.Pos(), "declaration of %s shadows an outer variable (not supported)", id.Name)
			}
			if d := c.info.Defs[id]; d != nil {
				t = d.Type()
			} else {
				t = c.info.Uses[id].Type()
			}
		} else {
			if id.Name == "_" {
				continue
			}
			t = c.locals[id.Name]
			if t == nil {
				bad(l.Pos(), "assignment to %s which is not a scalar local", id.Name)
			}
		}
		k := kindOf(t)
		if k == "" {
			bad(l.Pos(), "variable %s of unsupported type %s", id.Name, t)
		}
		r := x.Rhs[i]
		// aliasing of big.Int pointers
		if k == "big" {
			if rid, ok := r.(*ast.Ident); ok && c.locals[rid.Name] != nil {
				bad(r.Pos(), "big.Int pointer copy %s = %s (aliasing not modelled)", id.Name, rid.Name)
			}
		}
		var ge gexp
		switch x.Tok {
		case token.ASSIGN, token.DEFINE:
			ge = c.rhs(r, id.Name)
		default:
			opmap := map[token.Token]token.Token{token.ADD_ASSIGN: token.ADD, token.SUB_ASSIGN: token.SUB, token.MUL_ASSIGN: token.MUL, token.QUO_ASSIGN: token.QUO, token.REM_ASSIGN: token.REM}
			op, ok := opmap[x.Tok]
			if !ok {
				bad(x.Pos(), "unsupported assignment operator %s", x.Tok)
			}
			be := &ast.BinaryExpr{X: l, Op: op, Y: r, OpPos: x.Pos()}
			c.info.Types[be] = types.TypeAndValue{Type: t}
			ge = c.binary(be, k)
		}
		binds = append(binds, b{cn(id.Name), ge.e, ge.g})
		c.pending = append(c.pending, pend{id.Name, t})
	}
	for _, p := range c.pending {
		c.locals[p.n] = p.t
	}
	c.pending = nil
	if len(binds) > 1 {
		// simultaneous assignment: bind to temporaries first
		body := c.stmts(rest)
		for i := len(binds) - 1; i >= 0; i-- {
			body = "(let " + binds[i].name + " := tmp_" + binds[i].name + " in " + body + ")"
		}
		for i := len(binds) - 1; i >= 0; i-- {
			body = guardWrap(binds[i].g, "(let tmp_"+binds[i].name+" := "+binds[i].val+" in "+body+")")
		}
		return body
	}
	body := c.stmts(rest)
	if len(binds) == 0 {
		return body
	}
	return guardWrap(binds[0].g, "(let "+binds[0].name+" := "+binds[0].val+" in "+body+")")
}

// rhs of an assignment to name: allows  z = z.Op(a,b) / z := new(big.Int).Op(a,b)
func (c *ctx) rhs(r ast.Expr, name string) gexp {
	if call, ok := r.(*ast.CallExpr); ok {
		if sel, ok := call.Fun.(*ast.SelectorExpr); ok {
			if id, ok := sel.X.(*ast.Ident); ok && id.Name == name && c.locals[name] != nil && isBig(c.locals[name]) {
				if ge, ok := c.bigMethod(sel.X, sel.Sel.Name, call.Args, r.Pos()); ok {
					return ge
				}
			}
		}
	}
	return c.expr(r)
}

func (c *ctx) switchStmt(x *ast.SwitchStmt, rest []ast.Stmt) string {
	if x.Init != nil {
		cp := *x
		cp.Init = nil
		return c.stmts(append([]ast.Stmt{x.Init, &cp}, rest...))
	}
	var tag *gexp
	var g []string
	if x.Tag != nil {
		t := c.expr(x.Tag)
		tag = &t
		g = t.g
	}
	var def *ast.CaseClause
	var clauses []*ast.CaseClause
	for _, s := range x.Body.List {
		cc := s.(*ast.CaseClause)
		for _, b := range cc.Body {
			if br, ok := b.(*ast.BranchStmt); ok {
				bad(br.Pos(), "branch statement inside switch not supported")
			}
		}
		if cc.List == nil {
			def = cc
		} else {
			clauses = append(clauses, cc)
		}
	}
	var out string
	if def != nil {
		out = c.stmts(append(append([]ast.Stmt{}, def.Body...), rest...))
	} else {
		out = c.stmts(rest)
	}
	for i := len(clauses) - 1; i >= 0; i-- {
		cc := clauses[i]
		var conds []string
		for _, e := range cc.List {
			ge := c.expr(e)
			if len(ge.g) > 0 {
				bad(e.Pos(), "guarded expression in case label")
			}
			if tag != nil {
				conds = append(conds, "("+tag.e+" =? "+ge.e+")")
			} else {
				conds = append(conds, ge.e)
			}
		}
		body := c.stmts(append(append([]ast.Stmt{}, cc.Body...), rest...))
		out = "(if " + strings.Join(conds, " || ") + " then " + body + " else " + out + ")"
	}
	return guardWrap(g, out)
}

// shadows: does the variable defined by id hide a function-level variable of an enclosing scope?
func (c *ctx) shadows(id *ast.Ident) bool {
	obj := c.info.Defs[id]
	if obj == nil || obj.Parent() == nil || obj.Parent().Parent() == nil {
		return false
	}
	_, outer := obj.Parent().Parent().LookupParent(id.Name, id.Pos())
	if v, ok := outer.(*types.Var); ok && v.Pkg() != nil && v.Parent() != v.Pkg().Scope() {
		// harmless when the outer variable is dead after the scope of the inner one: no later use refers to it
		end := obj.Parent().End()
		for uid, uobj := range c.info.Uses {
			if uobj == outer && uid.Pos() > end {
				return true
			}
		}
		return false
	}
	return false
}

type pend struct {
	n string
	t types.Type
}

func translate(p *packages.Package, f SpecFn, known map[string]*SpecFn, errs map[string]bool) string {
	fd := findFunc(p, f.Func)
	if fd == nil {
		panic(fail{"function not found"})
	}
	if fd.Body == nil {
		panic(fail{"function has no body"})
	}
	obj := p.TypesInfo.Defs[fd.Name].(*types.Func)
	sig := obj.Type().(*types.Signature)
	c := &ctx{info: p.TypesInfo, pkg: p.Types, spec: f, locals: map[string]types.Type{}, leafTy: map[string]string{},
		params: map[string]bool{}, known: known, results: sig.Results(), errs: errs}
	var coqParams []string
	addParam := func(v *types.Var) {
		if v.Name() == "" || v.Name() == "_" {
			return
		}
		c.params[v.Name()] = true
		if k := kindOf(v.Type()); k != "" {
			c.locals[v.Name()] = v.Type()
			coqParams = append(coqParams, "("+cn(v.Name())+" : "+coqTy(k)+")")
		}
	}
	if sig.Recv() != nil {
		addParam(sig.Recv())
	}
	for i := 0; i < sig.Params().Len(); i++ {
		addParam(sig.Params().At(i))
	}
	if sig.Results().Len() == 0 && len(f.Captures) == 0 {
		panic(fail{"function returns nothing"})
	}
	var rts []string
	if len(f.Opaque) == 0 {
		for i := 0; i < sig.Results().Len(); i++ {
			if c.dropped(i) {
				continue
			}
			k := kindOf(sig.Results().At(i).Type())
			if k == "" {
				panic(fail{fmt.Sprintf("result %d of unsupported type %s", i, sig.Results().At(i).Type())})
			}
			rts = append(rts, coqTy(k))
		}
	}
	for _, of := range f.OutFields {
		parts := strings.SplitN(of, ":", 2)
		nm := sanitize(parts[0])
		c.leafTy[nm] = coqTy(parts[1])
		c.leaves = append(c.leaves, nm)
		c.outF = append(c.outF, nm)
		rts = append(rts, coqTy(parts[1]))
	}
	var effNames []string
	effTy := map[string]string{}
	for _, cp := range f.Captures {
		parts := strings.SplitN(cp, ":", 3)
		nm := "eff_" + strings.TrimPrefix(parts[0], ".") + "_" + parts[1]
		if len(parts) == 3 && parts[1] == "called" {
			nm = "eff_" + sanitize(parts[2]) + "_" + strings.TrimPrefix(parts[0], ".")
		}
		effNames = append(effNames, nm)
		c.outF = append(c.outF, nm)
		if len(parts) == 3 && parts[2] == "blocks" {
			rts = append(rts, "option (list (Z * Z * Z))")
			effTy[nm] = "(list (Z * Z * Z))"
		} else {
			rts = append(rts, "option Z")
		}
	}
	bodyStmts := fd.Body.List
	if f.Fragment != "" {
		var frag ast.Stmt
		ast.Inspect(fd.Body, func(n ast.Node) bool {
			if st, ok := n.(ast.Stmt); ok && frag == nil {
				if _, isBlock := st.(*ast.BlockStmt); !isBlock && strings.HasPrefix(stmtSource(p, st), f.Fragment) {
					frag = st
					return false
				}
			}
			return frag == nil
		})
		if frag == nil {
			panic(fail{"fragment not found: " + f.Fragment})
		}
		// free variables of the fragment
		seen := map[string]bool{}
		ast.Inspect(frag, func(n ast.Node) bool {
			id, ok := n.(*ast.Ident)
			if !ok {
				return true
			}
			v, ok := c.info.Uses[id].(*types.Var)
			if !ok || v.IsField() || v.Pkg() == nil || v.Parent() == v.Pkg().Scope() || seen[id.Name] {
				return true
			}
			if v.Pos() >= frag.Pos() && v.Pos() <= frag.End() {
				return true
			}
			seen[id.Name] = true
			if !c.params[id.Name] {
				addParam(v)
			}
			return true
		})
		bodyStmts = []ast.Stmt{frag}
	}
	body := c.stmts(bodyStmts)
	if f.Fragment != "" && strings.Contains(body, "FALLTHROUGH") {
		if len(f.Fallthrough) != sig.Results().Len() {
			panic(fail{"fragment: fallthrough needs one Coq term per result"})
		}
		body = strings.ReplaceAll(body, "FALLTHROUGH", c.ret(f.Fallthrough))
	}
	if sig.Results().Len() == 0 && strings.Contains(body, "FALLTHROUGH") {
		body = strings.ReplaceAll(body, "FALLTHROUGH", c.ret(nil))
	}
	for i := len(effNames) - 1; i >= 0; i-- {
		ty := "Z"
		if t, ok := effTy[effNames[i]]; ok {
			ty = t
		}
		body = "(let " + effNames[i] + " := (@None " + ty + ") in " + body + ")"
	}
	if len(f.Opaque) > 0 {
		if c.opaqueK == nil {
			panic(fail{"no return of an opaque callee found"})
		}
		for _, k := range c.opaqueK {
			rts = append(rts, coqTy(k))
		}
	}
	rt := strings.Join(rts, " * ")
	if strings.Contains(body, "FALLTHROUGH") {
		panic(fail{"a path reaches the end of the function without return"})
	}
	for _, l := range c.leaves {
		coqParams = append(coqParams, "("+l+" : "+c.leafTy[l]+")")
	}
	var sb strings.Builder
	pos := fset.Position(fd.Pos())
	fmt.Fprintf(&sb, "(* %s.%s  —  %s:%d *)\n", f.Pkg, f.Func, strings.TrimPrefix(pos.Filename, "/repo/"), pos.Line)
	partialFns[f.Coq] = c.partial
	fi := &fnInfoT{}
	if sig.Recv() != nil {
		fi.recv = sig.Recv().Name()
	}
	for i := 0; i < sig.Params().Len(); i++ {
		v := sig.Params().At(i)
		fi.pnames = append(fi.pnames, v.Name())
		if k := kindOf(v.Type()); k != "" {
			fi.params = append(fi.params, v.Name())
		} else {
			fi.params = append(fi.params, "")
		}
	}
	for _, l := range c.leaves {
		if li, ok := c.leafSrc[l]; ok {
			li.coqTy = c.leafTy[l]
			fi.leaves = append(fi.leaves, li)
		} else {
			fi.leaves = append(fi.leaves, leafInfo{name: l, coqTy: c.leafTy[l]})
		}
	}
	fnInfo[f.Coq] = fi
	if c.partial {
		body = strings.ReplaceAll(body, "(RET ", "(Ok ")
		fmt.Fprintf(&sb, "Definition %s %s : res (%s) :=\n  %s.\n", f.Coq, strings.Join(coqParams, " "), rt, body)
	} else {
		body = strings.ReplaceAll(body, "(RET ", "(")
		fmt.Fprintf(&sb, "Definition %s %s : %s :=\n  %s.\n", f.Coq, strings.Join(coqParams, " "), rt, body)
	}
	return sb.String()
}
