(* Concrete models of embedded-contract methods (vm/embedded/implementation/{common,plasma,stake,htlc,token}.go),
   as methods of the vm model of VmReceive.v.  For each method: [*_validate] = ValidateSendBlock (ABI decoding by
   the decoder model of Abi.v with the selectors dumped from /repo) and [*_receive] = ReceiveBlock, which starts
   with ValidateSendBlock again.  [MPanic] stands at every place where the Go code can panic: common.DealWithErr
   of a second unpack, SubBalance below zero, impossible shapes of decoded values.
   Storage is a typed table per contract (key = the byte string the Go code uses as leveldb key, without prefix);
   amounts go through [u256] where the Go code stores them as ABI uint256.
   Inputs that are not modelled and enter as observed values: the frontier momentum (time, height), the protocol
   constants (the harness shortens lock times, so they are inputs and the theorems hold for all values), hash
   functions (section variable), regexp verdicts and the derived token standard of IssueToken. *)
From ZV Require Import Prelude GoSem Abi VmReceive.
From ZV.gen Require Import Consts.
Open Scope Z_scope.

(* error codes, compared with the implementation by sentinel identity *)
Definition E_unpack := 1.            (* constants.ErrUnpackError *)
Definition E_token_or_amount := 2.   (* ErrInvalidTokenOrAmount *)
Definition E_nonexistent := 3.       (* ErrDataNonExistent *)
Definition E_revoke_not_due := 4.    (* RevokeNotDue *)
Definition E_nothing_to_withdraw := 5.
Definition E_permission := 6.        (* ErrPermissionDenied *)
Definition E_staking_period := 7.
Definition E_hash_type := 8.
Definition E_hash_digest := 9.
Definition E_expiration_time := 10.
Definition E_reclaim_not_due := 11.
Definition E_expired := 12.
Definition E_preimage := 13.
Definition E_token_text := 14.
Definition E_token_amount := 15.
Definition E_id_not_unique := 16.
Definition E_forbidden := 17.

Definition two256 : Z := 2 ^ 256.
Definition u256 (x : Z) : Z := x mod two256.

(* ---- tables *)
Definition tab (V : Type) := list (bytes * V).
Fixpoint tget {V} (t : tab V) (k : bytes) : option V :=
  match t with [] => None | (k', v) :: r => if bytes_eqb k' k then Some v else tget r k end.
Fixpoint tdel {V} (t : tab V) (k : bytes) : tab V :=
  match t with [] => [] | (k', v) :: r => if bytes_eqb k' k then tdel r k else (k', v) :: tdel r k end.
Definition tput {V} (t : tab V) (k : bytes) (v : V) : tab V := (k, v) :: tdel t k.

(* frontier momentum of the receive context + protocol constants *)
Record env := {
  e_now : Z; e_height : Z;
  c_FuseMinAmount : Z; c_CostPerFusionUnit : Z; c_FuseExpiration : Z;
  c_StakeMinAmount : Z; c_StakeTimeMin : Z; c_StakeTimeMax : Z; c_StakeTimeUnit : Z;
  c_TokenIssueAmount : Z
}.

Inductive vres (A : Type) := VOk (a : A) | VErr (c : Z) | VPanic.
Arguments VOk {A} a. Arguments VErr {A} c. Arguments VPanic {A}.

(* UnpackMethod / UnpackEmptyMethod as ValidateSendBlock uses them: any error is ErrUnpackError *)
Definition unpack_args (sel : bytes) (tys : list ty) (data : bytes) : vres (list val) :=
  match unpack_method sel tys data with UOk vs => VOk vs | UErr _ => VErr E_unpack | UPanic => VPanic end.
Definition unpack_empty (sel : bytes) (data : bytes) : vres unit :=
  match unpack_empty_method sel data with UOk _ => VOk tt | UErr _ => VErr E_unpack | UPanic => VPanic end.

Definition is_embedded (a : bytes) : bool := match a with b :: _ => b =? ContractAddrByte | [] => false end.

(* ================================================================ common.go *)
Section Common.
  (* storage of the common part of a contract: QSR deposits and reward deposits per address *)
  Record cstore := { q_dep : tab Z; r_dep : tab (Z * Z) }.
  Notation acct := (cacct cstore).
  Notation send := VmReceive.send.
  Definition with_store {S} (a : cacct S) (s : S) : cacct S := {| a_bal := a_bal a; a_store := s; a_cursor := a_cursor a |}.

  Definition deposit_qsr_validate (s : send) : vres unit :=
    match unpack_empty Sel_common_DepositQsr (s_data s) with
    | VOk _ => if negb (bytes_eqb (s_zts s) ZtsQsr) || negb (0 <? s_amount s) then VErr E_token_or_amount else VOk tt
    | VErr c => VErr c | VPanic => VPanic
    end.
  Definition deposit_qsr_receive (a : acct) (s : send) : mres cstore :=
    match deposit_qsr_validate s with
    | VErr c => MErr c | VPanic => MPanic
    | VOk _ =>
      let st := a_store a in
      let cur := match tget (q_dep st) (s_from s) with Some v => v | None => 0 end in
      MOk (with_store a {| q_dep := tput (q_dep st) (s_from s) (u256 (cur + s_amount s)); r_dep := r_dep st |}) []
    end.

  Definition withdraw_qsr_validate (s : send) : vres unit :=
    match unpack_empty Sel_common_WithdrawQsr (s_data s) with
    | VOk _ => if negb (s_amount s =? 0) then VErr E_token_or_amount else VOk tt
    | VErr c => VErr c | VPanic => VPanic
    end.
  Definition withdraw_qsr_receive (self : bytes) (a : acct) (s : send) : mres cstore :=
    match withdraw_qsr_validate s with
    | VErr c => MErr c | VPanic => MPanic
    | VOk _ =>
      let st := a_store a in
      let cur := match tget (q_dep st) (s_from s) with Some v => v | None => 0 end in
      if cur =? 0 then MErr E_nothing_to_withdraw else
      MOk (with_store a {| q_dep := tdel (q_dep st) (s_from s); r_dep := r_dep st |})
          [{| d_to := s_from s; d_amount := cur; d_zts := ZtsQsr; d_data := [] |}]
    end.

  Definition donate_validate (s : send) : vres unit :=
    match unpack_empty Sel_common_Donate (s_data s) with
    | VOk _ => if s_amount s =? 0 then VErr E_token_or_amount else VOk tt
    | VErr c => VErr c | VPanic => VPanic
    end.
  Definition donate_receive {S} (a : cacct S) (s : send) : mres S :=
    match donate_validate s with VErr c => MErr c | VPanic => MPanic | VOk _ => MOk a [] end.

  Definition collect_validate (s : send) : vres unit :=
    match unpack_empty Sel_common_CollectReward (s_data s) with
    | VOk _ => if negb (s_amount s =? 0) then VErr E_token_or_amount else VOk tt
    | VErr c => VErr c | VPanic => VPanic
    end.
  (* the two descendants are Mint calls to the token contract carrying amount 0 (the minted amount is in the call
     data, modelled as the marker [1; zts-kind] ++ 32 bytes of the amount) *)
  Definition mint_call (znn : bool) (amt : Z) : dsend :=
    {| d_to := AddrTokenContract; d_amount := 0; d_zts := ZtsZnn; d_data := (if znn then 1 else 2) :: be_bytes 32 amt |}.
  Definition collect_receive (a : acct) (s : send) : mres cstore :=
    match collect_validate s with
    | VErr c => MErr c | VPanic => MPanic
    | VOk _ =>
      let st := a_store a in
      let '(znn, qsr) := match tget (r_dep st) (s_from s) with Some v => v | None => (0, 0) end in
      if (znn =? 0) && (qsr =? 0) then MErr E_nothing_to_withdraw else
      MOk (with_store a {| q_dep := q_dep st; r_dep := tdel (r_dep st) (s_from s) |})
          ((if 0 <? znn then [mint_call true znn] else []) ++ (if 0 <? qsr then [mint_call false qsr] else []))
    end.
End Common.

(* ================================================================ plasma.go *)
Section PlasmaC.
  Record fusion := { f_amount : Z; f_exp : Z; f_ben : bytes }.
  (* key of a fusion entry = owner ++ id; key of a fused amount = beneficiary *)
  Record pstore := { p_fusions : tab fusion; p_fused : tab Z }.
  Notation acct := (cacct pstore).
  Notation send := VmReceive.send.

  Definition fuse_validate (e : env) (s : send) : vres bytes :=
    match unpack_args Sel_plasma_Fuse [TAddress] (s_data s) with
    | VOk [VBytes ben] =>
      if negb (bytes_eqb (s_zts s) ZtsQsr) || (s_amount s <? c_FuseMinAmount e) then VErr E_token_or_amount else
      if negb (bigMod (s_amount s) (c_CostPerFusionUnit e) =? 0) then VErr E_token_or_amount else VOk ben
    | VOk _ => VPanic
    | VErr c => VErr c | VPanic => VPanic
    end.
  Definition fuse_receive (e : env) (a : acct) (s : send) : mres pstore :=
    match fuse_validate e s with
    | VErr c => MErr c | VPanic => MPanic
    | VOk _ =>
      match fuse_validate e s with                      (* DealWithErr(UnpackMethod) on the same (canonical) data *)
      | VOk ben =>
        let st := a_store a in
        let ent := {| f_amount := u256 (s_amount s); f_exp := u64 (e_height e + c_FuseExpiration e); f_ben := ben |} in
        let fused := match tget (p_fused st) ben with Some v => v | None => 0 end in
        MOk (with_store a {| p_fusions := tput (p_fusions st) (s_from s ++ s_hash s) ent;
                             p_fused := tput (p_fused st) ben (u256 (fused + s_amount s)) |}) []
      | _ => MPanic
      end
    end.

  Definition cancel_fuse_validate (s : send) : vres bytes :=
    match unpack_args Sel_plasma_CancelFuse [THash] (s_data s) with
    | VOk [VBytes id] => if 0 <? s_amount s then VErr E_token_or_amount else VOk id
    | VOk _ => VPanic
    | VErr c => VErr c | VPanic => VPanic
    end.
  Definition cancel_fuse_receive (e : env) (a : acct) (s : send) : mres pstore :=
    match cancel_fuse_validate s with
    | VErr c => MErr c | VPanic => MPanic
    | VOk _ =>
      match cancel_fuse_validate s with
      | VOk id =>
        let st := a_store a in
        match tget (p_fusions st) (s_from s ++ id) with
        | None => MErr E_nonexistent
        | Some ent =>
          if e_height e <? f_exp ent then MErr E_revoke_not_due else
          let fused := match tget (p_fused st) (f_ben ent) with Some v => v | None => 0 end in
          let rest := fused - f_amount ent in
          let fused' := if rest =? 0 then tdel (p_fused st) (f_ben ent) else tput (p_fused st) (f_ben ent) (u256 rest) in
          MOk (with_store a {| p_fusions := tdel (p_fusions st) (s_from s ++ id); p_fused := fused' |})
              [{| d_to := s_from s; d_amount := f_amount ent; d_zts := ZtsQsr; d_data := [] |}]
        end
      | _ => MPanic
      end
    end.
End PlasmaC.

(* ================================================================ stake.go *)
Section StakeC.
  Record stake := { k_amount : Z; k_weighted : Z; k_start : Z; k_revoke : Z; k_exp : Z }.
  (* key = stake address ++ id *)
  Definition sstore := tab stake.
  Notation acct := (cacct sstore).
  Notation send := VmReceive.send.

  Definition stake_validate (e : env) (s : send) : vres Z :=
    match unpack_args Sel_stake_Stake [TInt 64] (s_data s) with
    | VOk [VInt t] =>
      if (s_amount s <? c_StakeMinAmount e) || negb (bytes_eqb (s_zts s) ZtsZnn) then VErr E_token_or_amount else
      if (t <? c_StakeTimeMin e) || (c_StakeTimeMax e <? t) then VErr E_staking_period else
      if c_StakeTimeUnit e =? 0 then VPanic                      (* integer division by zero *)
      else if negb (Z.rem t (c_StakeTimeUnit e) =? 0) then VErr E_staking_period else VOk t
    | VOk _ => VPanic
    | VErr c => VErr c | VPanic => VPanic
    end.
  (* getWeightedStakeAmount: big.NewInt(9 + stakingTime/StakeTimeUnitSec) * amount / 10 *)
  Definition weighted_amount (e : env) (amount t : Z) : Z :=
    bigDiv (wrapS 64 (9 + Z.quot t (c_StakeTimeUnit e)) * amount) 10.
  Definition stake_receive (e : env) (a : acct) (s : send) : mres sstore :=
    match stake_validate e s with
    | VErr c => MErr c | VPanic => MPanic
    | VOk _ =>
      match stake_validate e s with
      | VOk t =>
        let ent := {| k_amount := u256 (s_amount s); k_weighted := u256 (weighted_amount e (s_amount s) t);
                      k_start := e_now e; k_revoke := 0; k_exp := wrapS 64 (e_now e + t) |} in
        MOk (with_store a (tput (a_store a) (s_from s ++ s_hash s) ent)) []
      | _ => MPanic
      end
    end.

  Definition cancel_stake_validate (s : send) : vres bytes :=
    match unpack_args Sel_stake_Cancel [THash] (s_data s) with
    | VOk [VBytes id] => if negb (s_amount s =? 0) then VErr E_token_or_amount else VOk id
    | VOk _ => VPanic
    | VErr c => VErr c | VPanic => VPanic
    end.
  Definition cancel_stake_receive (e : env) (a : acct) (s : send) : mres sstore :=
    match cancel_stake_validate s with
    | VErr c => MErr c | VPanic => MPanic
    | VOk _ =>
      match cancel_stake_validate s with
      | VOk id =>
        match tget (a_store a) (s_from s ++ id) with
        | None => MErr E_nonexistent
        | Some ent =>
          if e_now e <? k_exp ent then MErr E_revoke_not_due else
          let ent' := {| k_amount := 0; k_weighted := k_weighted ent; k_start := k_start ent; k_revoke := e_now e; k_exp := k_exp ent |} in
          MOk (with_store a (tput (a_store a) (s_from s ++ id) ent'))
              [{| d_to := s_from s; d_amount := k_amount ent; d_zts := ZtsZnn; d_data := [] |}]
        end
      | _ => MPanic
      end
    end.
End StakeC.

(* ================================================================ htlc.go *)
Section HtlcC.
  Variable H : Z -> bytes -> bytes.     (* crypto.Hash (SHA3-256) for type 0, crypto.HashSHA256 for type 1 *)

  Record htlc := { h_timelocked : bytes; h_hashlocked : bytes; h_zts : bytes; h_amount : Z; h_exp : Z;
                   h_type : Z; h_keymax : Z; h_lock : bytes }.
  (* entries by id; proxy-unlock flag by address (absent = allowed) *)
  Record hstore := { h_entries : tab htlc; h_proxy : tab bool }.
  Notation acct := (cacct hstore).
  Notation send := VmReceive.send.

  Definition create_validate (s : send) : vres (bytes * Z * Z * Z * bytes) :=
    match unpack_args Sel_htlc_Create [TAddress; TInt 64; TUint 8; TUint 8; TBytes] (s_data s) with
    | VOk [VBytes hl; VInt exp; VInt ty; VInt kmax; VBytes lock] =>
      if negb (ty =? HashTypeSHA3) && negb (ty =? HashTypeSHA256) then VErr E_hash_type else
      if negb (len lock =? (if ty =? HashTypeSHA3 then HashDigestSizeSHA3 else HashDigestSizeSHA256)) then VErr E_hash_digest else
      if s_amount s =? 0 then VErr E_token_or_amount else VOk (hl, exp, ty, kmax, lock)
    | VOk _ => VPanic
    | VErr c => VErr c | VPanic => VPanic
    end.
  Definition create_receive (e : env) (a : acct) (s : send) : mres hstore :=
    match create_validate s with
    | VErr c => MErr c | VPanic => MPanic
    | VOk _ =>
      match create_validate s with
      | VOk (hl, exp, ty, kmax, lock) =>
        if exp <=? e_now e then MErr E_expiration_time else
        let ent := {| h_timelocked := s_from s; h_hashlocked := hl; h_zts := s_zts s; h_amount := u256 (s_amount s);
                      h_exp := exp; h_type := ty; h_keymax := kmax; h_lock := lock |} in
        let st := a_store a in
        MOk (with_store a {| h_entries := tput (h_entries st) (s_hash s) ent; h_proxy := h_proxy st |}) []
      | _ => MPanic
      end
    end.

  Definition reclaim_validate (s : send) : vres bytes :=
    match unpack_args Sel_htlc_Reclaim [THash] (s_data s) with
    | VOk [VBytes id] => if 0 <? s_amount s then VErr E_token_or_amount else VOk id
    | VOk _ => VPanic
    | VErr c => VErr c | VPanic => VPanic
    end.
  Definition reclaim_receive (e : env) (a : acct) (s : send) : mres hstore :=
    match reclaim_validate s with
    | VErr c => MErr c | VPanic => MPanic
    | VOk _ =>
      match reclaim_validate s with
      | VOk id =>
        let st := a_store a in
        match tget (h_entries st) id with
        | None => MErr E_nonexistent
        | Some ent =>
          if negb (bytes_eqb (h_timelocked ent) (s_from s)) then MErr E_permission else
          if e_now e <? h_exp ent then MErr E_reclaim_not_due else
          MOk (with_store a {| h_entries := tdel (h_entries st) id; h_proxy := h_proxy st |})
              [{| d_to := h_timelocked ent; d_amount := h_amount ent; d_zts := h_zts ent; d_data := [] |}]
        end
      | _ => MPanic
      end
    end.

  Definition unlock_validate (s : send) : vres (bytes * bytes) :=
    match unpack_args Sel_htlc_Unlock [THash; TBytes] (s_data s) with
    | VOk [VBytes id; VBytes pre] => if 0 <? s_amount s then VErr E_token_or_amount else VOk (id, pre)
    | VOk _ => VPanic
    | VErr c => VErr c | VPanic => VPanic
    end.
  Definition proxy_allowed (st : hstore) (addr : bytes) : bool :=
    match tget (h_proxy st) addr with Some b => b | None => true end.
  Definition unlock_receive (e : env) (a : acct) (s : send) : mres hstore :=
    match unlock_validate s with
    | VErr c => MErr c | VPanic => MPanic
    | VOk _ =>
      match unlock_validate s with
      | VOk (id, pre) =>
        let st := a_store a in
        match tget (h_entries st) id with
        | None => MErr E_nonexistent
        | Some ent =>
          if negb (proxy_allowed st (h_hashlocked ent)) && negb (bytes_eqb (s_from s) (h_hashlocked ent)) then MErr E_permission else
          if h_exp ent <=? e_now e then MErr E_expired else
          if h_keymax ent <? len pre then MErr E_preimage else
          if negb (bytes_eqb (H (h_type ent) pre) (h_lock ent)) then MErr E_preimage else
          MOk (with_store a {| h_entries := tdel (h_entries st) id; h_proxy := h_proxy st |})
              [{| d_to := h_hashlocked ent; d_amount := h_amount ent; d_zts := h_zts ent; d_data := [] |}]
        end
      | _ => MPanic
      end
    end.

  Definition proxy_validate (sel : bytes) (s : send) : vres unit :=
    match unpack_empty sel (s_data s) with
    | VOk _ => if negb (s_amount s =? 0) then VErr E_token_or_amount else VOk tt
    | VErr c => VErr c | VPanic => VPanic
    end.
  Definition proxy_receive (allow : bool) (a : acct) (s : send) : mres hstore :=
    match proxy_validate (if allow then Sel_htlc_AllowProxyUnlock else Sel_htlc_DenyProxyUnlock) s with
    | VErr c => MErr c | VPanic => MPanic
    | VOk _ =>
      let st := a_store a in
      MOk (with_store a {| h_entries := h_entries st; h_proxy := tput (h_proxy st) (s_from s) allow |}) []
    end.
End HtlcC.

(* ================================================================ token.go *)
Section TokenC.
  Record token := { t_owner : bytes; t_name : bytes; t_symbol : bytes; t_domain : bytes; t_total : Z; t_max : Z;
                    t_decimals : Z; t_mintable : bool; t_burnable : bool; t_utility : bool }.
  Definition tstore := tab token.      (* key = token standard *)
  Notation acct := (cacct tstore).
  Notation send := VmReceive.send.

  Definition mint_validate (s : send) : vres (bytes * Z * bytes) :=
    match unpack_args Sel_token_Mint [TZts; TUint 256; TAddress] (s_data s) with
    | VOk [VBytes z; VInt amt; VBytes recv] =>
      if amt <=? 0 then VErr E_token_or_amount else
      if negb (s_amount s =? 0) then VErr E_token_or_amount else VOk (z, amt, recv)
    | VOk _ => VPanic
    | VErr c => VErr c | VPanic => VPanic
    end.
  Definition mint_receive (a : acct) (s : send) : mres tstore :=
    match mint_validate s with
    | VErr c => MErr c | VPanic => MPanic
    | VOk _ =>
      match mint_validate s with
      | VOk (z, amt, recv) =>
        match tget (a_store a) z with
        | None => MErr E_nonexistent
        | Some tk =>
          if negb (t_mintable tk) then MErr E_permission else
          if t_max tk - t_total tk <? amt then MErr E_token_amount else
          if (bytes_eqb z ZtsZnn || bytes_eqb z ZtsQsr) && negb (s_from_embedded s) then MErr E_permission else
          if negb (bytes_eqb z ZtsZnn || bytes_eqb z ZtsQsr) && negb (bytes_eqb (t_owner tk) (s_from s)) then MErr E_permission else
          let tk' := {| t_owner := t_owner tk; t_name := t_name tk; t_symbol := t_symbol tk; t_domain := t_domain tk;
                        t_total := u256 (t_total tk + amt); t_max := t_max tk; t_decimals := t_decimals tk;
                        t_mintable := t_mintable tk; t_burnable := t_burnable tk; t_utility := t_utility tk |} in
          let a1 := add_balance tstore (with_store a (tput (a_store a) z tk')) z amt in
          MOk a1 [{| d_to := recv; d_amount := amt; d_zts := z;
                     d_data := if is_embedded recv then Sel_common_Donate else [] |}]
        end
      | _ => MPanic
      end
    end.

  Definition burn_validate (s : send) : vres unit :=
    match unpack_empty Sel_token_Burn (s_data s) with
    | VOk _ => if negb (0 <? s_amount s) then VErr E_token_or_amount else VOk tt
    | VErr c => VErr c | VPanic => VPanic
    end.
  Definition burn_receive (a : acct) (s : send) : mres tstore :=
    match burn_validate s with
    | VErr c => MErr c | VPanic => MPanic
    | VOk _ =>
      match tget (a_store a) (s_zts s) with
      | None => MErr E_nonexistent
      | Some tk =>
        if negb (t_burnable tk) && negb (bytes_eqb (t_owner tk) (s_from s)) then MErr E_permission else
        let mx := if t_mintable tk then t_max tk else u256 (t_max tk - s_amount s) in
        let tk' := {| t_owner := t_owner tk; t_name := t_name tk; t_symbol := t_symbol tk; t_domain := t_domain tk;
                      t_total := u256 (t_total tk - s_amount s); t_max := mx; t_decimals := t_decimals tk;
                      t_mintable := t_mintable tk; t_burnable := t_burnable tk; t_utility := t_utility tk |} in
        match sub_balance tstore (with_store a (tput (a_store a) (s_zts s) tk')) (s_zts s) (s_amount s) with
        | ASOk a1 => MOk a1 []
        | _ => MPanic                                            (* "negative balance after sub" *)
        end
      end
    end.

  Definition update_token_validate (s : send) : vres (bytes * bytes * bool * bool) :=
    match unpack_args Sel_token_UpdateToken [TZts; TAddress; TBool; TBool] (s_data s) with
    | VOk [VBytes z; VBytes owner; VBool mintable; VBool burnable] =>
      if 0 <? s_amount s then VErr E_token_or_amount else VOk (z, owner, mintable, burnable)
    | VOk _ => VPanic
    | VErr c => VErr c | VPanic => VPanic
    end.
  Definition update_token_receive (a : acct) (s : send) : mres tstore :=
    match update_token_validate s with
    | VErr c => MErr c | VPanic => MPanic
    | VOk _ =>
      match update_token_validate s with
      | VOk (z, owner, mintable, burnable) =>
        match tget (a_store a) z with
        | None => MErr E_nonexistent
        | Some tk =>
          if negb (bytes_eqb (t_owner tk) (s_from s)) then MErr E_permission else
          if negb (Bool.eqb (t_mintable tk) mintable) && negb (t_mintable tk) then MErr E_forbidden else
          let changed := negb (Bool.eqb (t_mintable tk) mintable) in
          let tk' := {| t_owner := owner; t_name := t_name tk; t_symbol := t_symbol tk; t_domain := t_domain tk;
                        t_total := t_total tk; t_max := if changed then t_total tk else t_max tk; t_decimals := t_decimals tk;
                        t_mintable := if changed then mintable else t_mintable tk; t_burnable := burnable; t_utility := t_utility tk |} in
          MOk (with_store a (tput (a_store a) z tk')) []
        end
      | _ => MPanic
      end
    end.
End TokenC.
