(* C11 — model of the reward computations of the embedded contracts.
   Mirrors (names of the Go functions in comments):
     vm/embedded/implementation/pillars.go   computePillarRewardForEpoch, computePillarsRewardForEpoch,
                                             computeDetailedPillarReward, updatePillarRewards
     vm/embedded/implementation/stake.go     computeStakeRewardsForEpoch, updateStakeRewards
     vm/embedded/implementation/sentinel.go  computeSentinelRewardsForEpoch, updateSentinelRewards
     vm/embedded/implementation/liquidity.go computeLiquidityRewardsForEpoch, updateLiquidityRewards,
                                             updateLiquidityStakeRewards (cursor part)
     vm/embedded/implementation/common.go    CanPerformEpochUpdate, checkAndPerformUpdateEpoch, addReward,
                                             CollectRewardMethod.ReceiveBlock
   The per-epoch amounts, percentages, tables and the weight functions (getWeightedStake, getWeightedSentinel,
   ...) are NOT written here: they are the go2coq translations in gen/Pure.v over gen/Consts.v, regenerated
   from /repo on every run.  big.Int is Z; Quo is Z.quot; uint64/int64 arithmetic is wrapped explicitly.
   Pillar names and addresses are abstract identifiers (Z); the harness numbers them. *)
From ZV Require Import Prelude GoSem.
From ZV.gen Require Import Consts Pure.
Open Scope Z_scope.

Definition zsum (l : list Z) : Z := fold_right Z.add 0 l.

Definition lookup {A} (k : Z) (l : list (Z * A)) : option A :=
  match find (fun kv => fst kv =? k) l with Some kv => Some (snd kv) | None => None end.

(* outcome of a contract routine: result, returned error (the receive block is rolled back and the
   call refunded), or a Go panic *)
Inductive outcome (A : Type) := Done (a : A) | Failed | Crash.
Arguments Done {A} a.
Arguments Failed {A}.
Arguments Crash {A}.

(* ------------------------------------------------------------------ pillars *)

(* api.EpochPillarStats / api.EpochStats *)
Record pstat := mkPstat { ps_name : Z; ps_produced : Z; ps_expected : Z; ps_weight : Z }.
Record estats := mkEstats { es_epoch : Z; es_total_weight : Z; es_pillars : list pstat }.

(* totalExpectedBlockNum: a uint64 accumulated with += over the map (order-independent modulo 2^64) *)
Definition total_expected (st : estats) : Z := u64 (zsum (map ps_expected (es_pillars st))).

(* pillarEpochReward *)
Record preward := mkPreward { pr_deleg : Z; pr_block : Z; pr_total : Z }.

(* computePillarRewardForEpoch *)
Definition pillar_reward (st : estats) (p : pstat) : res preward :=
  if ps_expected p =? 0 then Ok (mkPreward 0 0 0) else
  bind (PillarRewardPerMomentum (es_epoch st)) (fun db =>
    let T := total_expected st in
    let deleg := if Z.sgn (es_total_weight st) =? 0 then 0
                 else Z.quot (Z.quot (fst db * ps_produced p * ps_weight p * T) (ps_expected p))
                             (es_total_weight st) in
    let block := snd db * ps_produced p in
    Ok (mkPreward deleg block (block + deleg))).

(* computePillarsRewardForEpoch: name -> reward for every pillar of the epoch statistics *)
Fixpoint pillar_rewards_of (st : estats) (ps : list pstat) : res (list (Z * preward)) :=
  match ps with
  | [] => Ok []
  | p :: r => bind (pillar_reward st p) (fun x => bind (pillar_rewards_of st r) (fun l => Ok ((ps_name p, x) :: l)))
  end.
Definition pillar_rewards (st : estats) : res (list (Z * preward)) := pillar_rewards_of st (es_pillars st).

(* definition.PillarInfo (the fields used) and types.PillarDelegationDetail *)
Record pinfo := mkPinfo { pi_name : Z; pi_give_block : Z; pi_give_deleg : Z; pi_addr : Z }.
Record pdetail := mkPdetail { pd_name : Z; pd_backers : list (Z * Z) }.

(* toGive = (GiveBlockRewardPercentage * BlockReward + GiveDelegateRewardPercentage * DelegationReward) / 100 *)
Definition to_give (i : pinfo) (r : preward) : Z :=
  Z.quot (pi_give_block i * pr_block r + pi_give_deleg i * pr_deleg r) Big100.

(* second loop over pillarInfos: rewards to the pillar (total - toGive) and the toGive map.
   GetPillarsList returns one entry per name (the name is the storage key). *)
Definition credits_a (rs : list (Z * preward)) (infos : list pinfo) : list (Z * Z) :=
  flat_map (fun i => match lookup (pi_name i) rs with
                     | Some r => [(pi_addr i, pr_total r - to_give i r)]
                     | None => [] end) infos.
Definition togive_map (rs : list (Z * preward)) (infos : list pinfo) : list (Z * Z) :=
  flat_map (fun i => match lookup (pi_name i) rs with
                     | Some r => [(pi_name i, to_give i r)]
                     | None => [] end) infos.

(* one iteration of "add rewards to backers" *)
Definition credits_detail (tgs : list (Z * Z)) (infos : list pinfo) (d : pdetail) : option (list (Z * Z)) :=
  match lookup (pd_name d) tgs with
  | None => None                                   (* "can't find amount to backers for pillar" *)
  | Some tb =>
    let total := zsum (map snd (pd_backers d)) in
    if total =? 0 then
      match find (fun i => pi_name i =? pd_name d) infos with
      | Some i => Some [(pi_addr i, tb)]
      | None => Some []
      end
    else Some (map (fun ba => (fst ba, Z.quot (tb * snd ba) total)) (pd_backers d))
  end.
Fixpoint credits_b (tgs : list (Z * Z)) (infos : list pinfo) (ds : list pdetail) : option (list (Z * Z)) :=
  match ds with
  | [] => Some []
  | d :: r => match credits_detail tgs infos d, credits_b tgs infos r with
              | Some a, Some b => Some (a ++ b)
              | _, _ => None
              end
  end.

(* computeDetailedPillarReward: the list of addReward calls (address, znn) of one epoch *)
Definition detailed_pillar_reward (st : estats) (infos : list pinfo) (ds : list pdetail) : outcome (list (Z * Z)) :=
  match pillar_rewards st with
  | Panic => Crash
  | Ok rs =>
    let tgs := togive_map rs infos in
    if negb (Z.of_nat (length tgs) =? Z.of_nat (length rs)) then Failed   (* "some pillar rewards were not distributed" *)
    else match credits_b tgs infos ds with
         | None => Failed
         | Some cb => Done (credits_a rs infos ++ cb)
         end
  end.

(* ------------------------------------------------------------------ stake *)

Record sentry := mkSentry { se_start : Z; se_revoke : Z; se_wamount : Z; se_addr : Z }.
Definition stake_w (s e : Z) (x : sentry) : Z := getWeightedStake s e (se_start x) (se_revoke x) (se_wamount x).

(* computeStakeRewardsForEpoch: (address, qsr) credits and the entries that remain stored *)
Definition stake_rewards (epoch s e : Z) (l : list sentry) : res (list (Z * Z) * list sentry) :=
  bind (StakeQsrRewardPerEpoch epoch) (fun total =>
    let cum := zsum (map (stake_w s e) l) in
    if Z.sgn cum =? 0 then Ok ([], l)
    else Ok (map (fun x => (se_addr x, Z.quot (total * stake_w s e x) cum)) l,
             filter (fun x => negb (negb (se_revoke x =? 0) && (se_revoke x <? e))) l)).

(* ------------------------------------------------------------------ sentinel *)

Record sent := mkSent { sn_reg : Z; sn_revoke : Z; sn_addr : Z }.
Definition sentinel_w (s e : Z) (x : sent) : Z := getWeightedSentinel s e (sn_reg x) (sn_revoke x).

(* computeSentinelRewardsForEpoch: (address, znn, qsr) credits *)
Definition sentinel_rewards (epoch s e : Z) (l : list sent) : res (list (Z * (Z * Z))) :=
  bind (SentinelRewardForEpoch epoch) (fun t =>
    let cum := zsum (map (sentinel_w s e) l) in
    if Z.sgn cum =? 0 then Ok []
    else Ok (flat_map (fun x => let w := sentinel_w s e x in
                                if Z.sgn w =? 0 then []
                                else [(sn_addr x, (Z.quot (fst t * w) cum, Z.quot (snd t * w) cum))]) l)).

(* ------------------------------------------------------------------ generic pro-rata split *)

(* reward_i = total * w_i / W with W = sum of the weights (stake, sentinel, backers, liquidity stake) *)
Definition split (total : Z) (ws : list Z) : list Z := map (fun w => Z.quot (total * w) (zsum ws)) ws.

(* ------------------------------------------------------------------ epoch cursor *)

(* common.Ticker.ToTime for the epoch ticker (genesis time g, epoch duration dur, in seconds): end of epoch e *)
Definition epoch_start (g dur e : Z) : Z := g + dur * e.
Definition epoch_end (g dur e : Z) : Z := g + dur * (e + 1).

(* CanPerformEpochUpdate = nil:  not (frontier.Timestamp < end(LastEpoch+1) + RewardTimeLimit), int64 arithmetic *)
Definition update_due (g dur now last : Z) : bool :=
  negb (now <? wrapS 64 (epoch_end g dur (wrapS 64 (last + 1)) + RewardTimeLimit)).

(* updatePillarRewards / updateStakeRewards / updateSentinelRewards: `for { checkAndPerformUpdateEpoch; compute }`.
   Returns the epochs for which rewards were computed (in order) and the stored LastEpoch. None = out of fuel. *)
Fixpoint update_loop (fuel : nat) (g dur now last : Z) : option (list Z * Z) :=
  match fuel with
  | O => None
  | S k =>
    if update_due g dur now last then
      match update_loop k g dur now (wrapS 64 (last + 1)) with
      | Some (es, l') => Some (wrapS 64 (last + 1) :: es, l')
      | None => None
      end
    else Some ([], last)
  end.

(* updateLiquidityRewards (method table before the bridge-and-liquidity spork), after fix a732e8e:
     for { if len(result) >= MaxEpochsPerUpdate { return result }
           if err := checkAndPerformUpdateEpoch(..); err == TooRecent { return result } ... }
   nres = len(result) (two mint blocks per rewarded epoch). *)
Fixpoint liquidity_loop (fuel : nat) (g dur now last nres : Z) : option (list Z * Z) :=
  match fuel with
  | O => None
  | S k =>
    if MaxEpochsPerUpdate <=? nres then Some ([], last)
    else if negb (update_due g dur now last) then Some ([], last)
    else match liquidity_loop k g dur now (wrapS 64 (last + 1)) (nres + 2) with
         | Some (es, l') => Some (wrapS 64 (last + 1) :: es, l')
         | None => None
         end
  end.

(* updateLiquidityRewards together with WHAT it issues. Every pass of the loop, after checkAndPerformUpdateEpoch has
   stored LastEpoch+1, calls computeLiquidityRewardsForEpoch(context, uint64(lastEpoch.LastEpoch)), and that routine
   looks the emission up for the epoch it is handed (constants.LiquidityRewardForEpoch(epoch), the go2coq translation)
   and returns two Mint blocks (ZNN, QSR) to the liquidity contract. Result: the issued (epoch, (znn, qsr)) in the
   order of the descendant blocks and the stored LastEpoch; Crash = the emission lookup panics. *)
Fixpoint liquidity_issue (fuel : nat) (g dur now last nres : Z) : option (outcome (list (Z * (Z * Z)) * Z)) :=
  match fuel with
  | O => None
  | S k =>
    if MaxEpochsPerUpdate <=? nres then Some (Done ([], last))
    else if negb (update_due g dur now last) then Some (Done ([], last))
    else let e := wrapS 64 (last + 1) in
         match LiquidityRewardForEpoch (u64 e) with
         | Panic => Some Crash
         | Ok t =>
           match liquidity_issue k g dur now e (nres + 2) with
           | Some (Done (ms, l')) => Some (Done ((e, t) :: ms, l'))
           | r => r
           end
         end
  end.

(* the loop before the fix, kept as a record of the finding:
     if err := checkAndPerformUpdateEpoch(..); err == TooRecent || len(result) >= MaxEpochsPerUpdate { return result }
   checkAndPerformUpdateEpoch had already stored LastEpoch+1 when the second disjunct was evaluated. *)
Fixpoint liquidity_loop_old (fuel : nat) (g dur now last nres : Z) : option (list Z * Z) :=
  match fuel with
  | O => None
  | S k =>
    if negb (update_due g dur now last) then Some ([], last)
    else if MaxEpochsPerUpdate <=? nres then Some ([], wrapS 64 (last + 1))
    else match liquidity_loop_old k g dur now (wrapS 64 (last + 1)) (nres + 2) with
         | Some (es, l') => Some (wrapS 64 (last + 1) :: es, l')
         | None => None
         end
  end.

(* updateLiquidityStakeRewards (after the spork): at most one epoch per call *)
Definition liquidity_stake_step (g dur now last : Z) : list Z * Z :=
  if update_due g dur now last then ([wrapS 64 (last + 1)], wrapS 64 (last + 1)) else ([], last).

(* a history of Update calls at momentum times `nows`: all rewarded epochs, in order of computation *)
Fixpoint run_updates (fuel : nat) (g dur : Z) (nows : list Z) (last : Z) : option (list Z * Z) :=
  match nows with
  | [] => Some ([], last)
  | now :: r =>
    match update_loop fuel g dur now last with
    | None => None
    | Some (es, l') =>
      match run_updates fuel g dur r l' with
      | Some (es', l'') => Some (es ++ es', l'')
      | None => None
      end
    end
  end.

(* ------------------------------------------------------------------ deposits: addReward / CollectReward *)

Definition deposits := list (Z * (Z * Z)).          (* address -> (znn, qsr); absent = (0,0) *)
Definition dep_get (a : Z) (ds : deposits) : Z * Z := match lookup a ds with Some d => d | None => (0, 0) end.
Definition dep_del (a : Z) (ds : deposits) : deposits := filter (fun kv => negb (fst kv =? a)) ds.
Definition dep_set (a : Z) (d : Z * Z) (ds : deposits) : deposits := (a, d) :: dep_del a ds.

(* addReward (the RewardDeposit part; RewardDepositHistory is the per-epoch log of the same amounts) *)
Definition add_reward (ds : deposits) (a z q : Z) : deposits :=
  let d := dep_get a ds in dep_set a (fst d + z, snd d + q) ds.

(* CollectRewardMethod.ReceiveBlock: None = ErrNothingToWithdraw; Some mints = descendant Mint calls
   (token 0 = ZNN, 1 = QSR; amount; beneficiary = the caller) and the deposit is deleted *)
Definition collect (ds : deposits) (a : Z) : option (list (Z * Z)) * deposits :=
  let d := dep_get a ds in
  if (Z.sgn (fst d) =? 0) && (Z.sgn (snd d) =? 0) then (None, ds)
  else (Some ((if Z.sgn (fst d) =? 1 then [(0, fst d)] else []) ++
              (if Z.sgn (snd d) =? 1 then [(1, snd d)] else [])),
        dep_del a ds).

Inductive rop := Credit (a z q : Z) | Collect (a : Z).

(* state: deposits and the log of mints (address, token, amount) *)
Fixpoint run_rops (ops : list rop) (ds : deposits) (minted : list (Z * (Z * Z))) : deposits * list (Z * (Z * Z)) :=
  match ops with
  | [] => (ds, minted)
  | Credit a z q :: r => run_rops r (add_reward ds a z q) minted
  | Collect a :: r =>
    match collect ds a with
    | (None, ds') => run_rops r ds' minted
    | (Some ms, ds') => run_rops r ds' (minted ++ map (fun m => (a, m)) ms)
    end
  end.

Definition credited (tok a : Z) (ops : list rop) : Z :=
  zsum (map (fun o => match o with
                      | Credit b z q => if b =? a then (if tok =? 0 then z else q) else 0
                      | Collect _ => 0 end) ops).
Definition minted_of (tok a : Z) (ms : list (Z * (Z * Z))) : Z :=
  zsum (map (fun m => if (fst m =? a) && (fst (snd m) =? tok) then snd (snd m) else 0) ms).

(* ------------------------------------------------------------------ liquidity stake rewards (after the bridge-and-liquidity spork)
   computeLiquidityStakeRewardsForEpoch. Token standards are abstract identifiers. *)

Record ltuple := mkLtuple { lt_token : Z; lt_znn_pct : Z; lt_qsr_pct : Z }.                 (* definition.TokenTuple *)
Record lentry := mkLentry { le_token : Z; le_start : Z; le_revoke : Z; le_wamount : Z; le_addr : Z }.  (* LiquidityStakeEntry *)
Definition lentry_w (s e : Z) (x : lentry) : Z := getWeightedLiquidityStake s e (le_start x) (le_revoke x) (le_wamount x).

(* znnRewards / qsrRewards: maps filled in the order of TokenTuples, a later tuple of the same token overrides *)
Definition tuple_of (tok : Z) (ts : list ltuple) : option ltuple := find (fun t => lt_token t =? tok) (rev ts).
(* cumulatedStake[token] *)
Definition cum_of (s e tok : Z) (l : list lentry) : Z :=
  zsum (map (lentry_w s e) (filter (fun x => le_token x =? tok) l)).

Record liq_result := mkLiqResult {
  lq_credits : list (Z * (Z * Z));     (* addReward calls: address, znn, qsr *)
  lq_burn : Z * Z;                     (* additional reward taken from the contract's balance and burned *)
  lq_mint : Z * Z;                     (* minted to the liquidity contract itself *)
  lq_left : list lentry                (* stake entries that remain stored *)
}.

(* does this entry take part in the distribution (none of the `continue`s) *)
Definition lentry_pays (s e : Z) (ts : list ltuple) (l : list lentry) (x : lentry) : bool :=
  match tuple_of (le_token x) ts with
  | None => false
  | Some _ => negb (Z.sgn (cum_of s e (le_token x) l) =? 0)
  end.

Definition liq_stake_rewards (epoch s e : Z) (halted : bool) (bal_z bal_q extra_z extra_q : Z)
           (ts : list ltuple) (l : list lentry) : res (outcome liq_result) :=
  bind (LiquidityRewardForEpoch epoch) (fun t =>
    if halted then Ok (Done (mkLiqResult [] (0, 0) t l))
    else
      let take := negb (bal_z <? extra_z) && negb (bal_q <? extra_q) in
      let bz := if take && (0 <? extra_z) then extra_z else 0 in
      let bq := if take && (0 <? extra_q) then extra_q else 0 in
      let tz := fst t + bz in
      let tq := snd t + bq in
      let credits := flat_map (fun x =>
            match tuple_of (le_token x) ts with
            | None => []
            | Some tu =>
              let cum := cum_of s e (le_token x) l in
              if Z.sgn cum =? 0 then []
              else let w := lentry_w s e x in
                   [(le_addr x, (Z.quot (bigDiv (tz * lt_znn_pct tu) LiquidityZnnTotalPercentages * w) cum,
                                 Z.quot (bigDiv (tq * lt_qsr_pct tu) LiquidityQsrTotalPercentages * w) cum))]
            end) l in
      let fz := zsum (map (fun c => fst (snd c)) credits) in
      let fq := zsum (map (fun c => snd (snd c)) credits) in
      if (tz <? fz) || (tq <? fq) then Ok Failed                    (* ErrInvalidRewards *)
      else Ok (Done (mkLiqResult credits (bz, bq)
                       ((if fz <? tz then tz - fz else 0), (if fq <? tq then tq - fq else 0))
                       (filter (fun x => negb (lentry_pays s e ts l x && negb (le_revoke x =? 0) && (le_revoke x <? e))) l)))).
