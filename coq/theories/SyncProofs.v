(* Proofs about the InsertChain model (C16). *)
From ZV Require Import Prelude GoSem Sync.
Open Scope Z_scope.
Ltac Zify.zify_post_hook ::= Z.div_mod_to_equations.

(* ------------------------------------------------------------------ basic facts *)
Lemma frontier_app c d : frontier (c ++ [d]) = Some d.
Proof.
  unfold frontier. rewrite map_app. cbn. induction (map Some c) as [|x l IH]; cbn; [reflexivity|].
  destruct (l ++ [Some d]) eqn:E; [destruct l; discriminate|]. exact IH.
Qed.
Lemma frontier_some_in c f : frontier c = Some f -> In f c.
Proof.
  unfold frontier. induction c as [|x r IH]; cbn; [discriminate|].
  destruct r as [|y r']; cbn in *; [intros H; inversion H; auto|]. intros H. right. apply IH. exact H.
Qed.
Lemma frontier_nonempty c : c <> [] -> exists f, frontier c = Some f.
Proof.
  intros H. destruct (@exists_last _ c H) as (l & a & ->). exists a. apply frontier_app.
Qed.

Lemma by_height_in c h m : by_height c h = Some m -> In m c /\ s_height m = h.
Proof.
  induction c as [|x r IH]; cbn; [discriminate|].
  destruct (s_height x =? h) eqn:E.
  - intros H. inversion H; subst. apply Z.eqb_eq in E. auto.
  - intros H. destruct (IH H). auto.
Qed.

(* the rollback keeps a prefix of the chain, ending with the first momentum at the target height *)
Lemma rollback_prefix c h : exists rest, c = rollback_to c h ++ rest.
Proof.
  induction c as [|x r IH]; cbn; [exists []; reflexivity|].
  destruct (s_height x =? h); [exists r; reflexivity|].
  destruct IH as (rest & E). exists rest. cbn. f_equal. exact E.
Qed.
Lemma rollback_frontier c h m : by_height c h = Some m -> frontier (rollback_to c h) = Some m.
Proof.
  induction c as [|x r IH]; cbn; [discriminate|].
  destruct (s_height x =? h) eqn:E; [intros H; inversion H; reflexivity|].
  intros H. specialize (IH H). unfold frontier in *. cbn.
  destruct (rollback_to r h) eqn:R; [cbn in IH; discriminate|]. exact IH.
Qed.

Definition is_prefix (p c : list smom) : Prop := exists rest, c = p ++ rest.

(* ------------------------------------------------------------------ what the apply loop can build *)
Section Proofs.
  Variable valid : list smom -> smom -> bool.

  (* c' is c extended by momentums each of which, at the moment it was appended, had a known previous momentum,
     passed full verification, and extended the frontier *)
  Inductive grown : list smom -> list smom -> Prop :=
  | g_refl c : grown c c
  | g_step c d c' : known_prev c d = true -> valid c d = true -> extends c d = true ->
                    grown (c ++ [d]) c' -> grown c c'.

  Lemma grown_prefix c c' : grown c c' -> is_prefix c c'.
  Proof.
    induction 1 as [c|c d c' _ _ _ _ IH]; [exists []; rewrite app_nil_r; reflexivity|].
    destruct IH as (rest & E). exists (d :: rest). rewrite E, <- app_assoc. reflexivity.
  Qed.

  Lemma apply_all_grown ds : forall c i r c', apply_all valid c ds i = (r, c') -> grown c c'.
  Proof.
    induction ds as [|d ds IH]; cbn; intros c i r c' H.
    - inversion H; subst. constructor.
    - destruct (known_prev c d && valid c d) eqn:E.
      + apply andb_true_iff in E. destruct E as [K V].
        destruct (extends c d) eqn:X.
        * eapply g_step; eauto.
        * eapply IH; eauto.
      + inversion H; subst. constructor.
  Qed.

  Lemma apply_all_result ds : forall c i r c', apply_all valid c ds i = (r, c') ->
    r = ICOk \/
    exists pre d post, ds = pre ++ d :: post /\ r = ICErr (i + Z.of_nat (length pre)) EInvalid /\
                       known_prev c' d && valid c' d = false.
  Proof.
    induction ds as [|d ds IH]; cbn; intros c i r c' H.
    - inversion H. auto.
    - destruct (known_prev c d && valid c d) eqn:E.
      + destruct (IH _ _ _ _ H) as [->|(pre & x & post & -> & -> & F)]; [auto|].
        right. exists (d :: pre), x, post. repeat split; auto. cbn [length]. f_equal. lia.
      + inversion H; subst. right. exists [], d, ds. repeat split; auto. cbn. f_equal. lia.
  Qed.

  Lemma skip_known_split c ds : forall s s' rest, skip_known c ds s = (s', rest) ->
    exists pre, ds = pre ++ rest /\ s' = s + Z.of_nat (length pre) /\
      Forall (fun d => exists our, by_height c (s_height d) = Some our /\ s_hash our = s_hash d) pre.
  Proof.
    induction ds as [|d ds IH]; cbn; intros s s' rest H.
    - inversion H; subst. exists []. repeat split; [cbn [length]; lia|constructor].
    - destruct (by_height c (s_height d)) as [our|] eqn:B.
      + destruct (s_hash our =? s_hash d) eqn:E.
        * destruct (IH _ _ _ H) as (pre & -> & -> & F). exists (d :: pre). repeat split; [cbn [length]; lia|].
          constructor; [|exact F]. exists our. apply Z.eqb_eq in E. auto.
        * inversion H; subst. exists []. repeat split; [cbn [length]; lia|constructor].
      + inversion H; subst. exists []. repeat split; [cbn [length]; lia|constructor].
  Qed.

  (* ---------------------------------------------------------------- C16_only_verified *)
  Theorem only_verified fixed c ds r c' :
    insert_chain valid fixed c ds = (r, c') ->
    exists kept, is_prefix kept c /\ grown kept c'.
  Proof.
    unfold insert_chain. destruct ds as [|d0 ds0].
    - intros H. inversion H; subst. exists c'. split; [exists []; rewrite app_nil_r; reflexivity|constructor].
    - destruct (skip_known c (d0 :: ds0) 0) as [start rest] eqn:SK.
      destruct rest as [|head rest'].
      + intros H. inversion H; subst. exists c'. split; [exists []; rewrite app_nil_r; reflexivity|constructor].
      + destruct (frontier c) as [fr|];
          [|intros H; inversion H; subst; exists c'; split; [exists []; rewrite app_nil_r; reflexivity|constructor]].
        destruct (prev_is head fr).
        * intros H. exists c. split; [exists []; rewrite app_nil_r; reflexivity|]. eapply apply_all_grown; eauto.
        * destruct (by_height c (u64 (s_height head - 1))) as [target|];
            [|intros H; inversion H; subst; exists c'; split; [exists []; rewrite app_nil_r; reflexivity|constructor]].
          destruct (negb (prev_is head target));
            [intros H; inversion H; subst; exists c'; split; [exists []; rewrite app_nil_r; reflexivity|constructor]|].
          destruct (30 <? u64 (s_height fr - s_height target));
            [intros H; inversion H; subst; exists c'; split; [exists []; rewrite app_nil_r; reflexivity|constructor]|].
          destruct (s_height (last (head :: rest') head) <=? s_height fr);
            [intros H; inversion H; subst; exists c'; split; [exists []; rewrite app_nil_r; reflexivity|constructor]|].
          intros H. exists (rollback_to c (s_height target)). split; [apply rollback_prefix|].
          eapply apply_all_grown; eauto.
  Qed.

  (* ---------------------------------------------------------------- C16_failure_index *)
  Theorem failure_index fixed c ds i c' :
    insert_chain valid fixed c ds = (ICErr i EInvalid, c') ->
    exists pre d post, ds = pre ++ d :: post /\ i = Z.of_nat (length pre) /\
                       known_prev c' d && valid c' d = false.
  Proof.
    unfold insert_chain. destruct ds as [|d0 ds0]; [destruct fixed; discriminate|].
    destruct (skip_known c (d0 :: ds0) 0) as [start rest] eqn:SK.
    destruct (skip_known_split _ _ _ _ _ SK) as (known & E & S & _).
    assert (A : forall c0, apply_all valid c0 rest start = (ICErr i EInvalid, c') ->
                exists pre d post, d0 :: ds0 = pre ++ d :: post /\ i = Z.of_nat (length pre) /\
                                   known_prev c' d && valid c' d = false).
    { intros c0 H. destruct (apply_all_result _ _ _ _ _ H) as [C|(pre & d & post & -> & R & F)]; [discriminate|].
      inversion R. exists (known ++ pre), d, post. rewrite E, <- app_assoc. repeat split; auto.
      rewrite app_length. lia. }
    destruct rest as [|head rest']; [discriminate|].
    destruct (frontier c) as [fr|]; [|discriminate].
    destruct (prev_is head fr); [apply A|].
    destruct (by_height c (u64 (s_height head - 1))) as [target|]; [|destruct fixed; discriminate].
    destruct (negb (prev_is head target)); [discriminate|].
    destruct (30 <? u64 (s_height fr - s_height target)); [discriminate|].
    destruct (s_height (last (head :: rest') head) <=? s_height fr); [discriminate|].
    apply A.
  Qed.

  (* ---------------------------------------------------------------- C16_idempotent *)
  Lemma skip_known_all c ds : forall s,
    Forall (fun d => exists our, by_height c (s_height d) = Some our /\ s_hash our = s_hash d) ds ->
    snd (skip_known c ds s) = [].
  Proof.
    induction ds as [|d ds IH]; cbn; intros s F; [reflexivity|].
    inversion F as [|? ? (our & B & E) F']; subst. rewrite B, E, Z.eqb_refl. apply IH, F'.
  Qed.

  Theorem idempotent fixed c ds : ds <> [] ->
    Forall (fun d => exists our, by_height c (s_height d) = Some our /\ s_hash our = s_hash d) ds ->
    insert_chain valid fixed c ds = (ICOk, c).
  Proof.
    intros NE F. unfold insert_chain. destruct ds as [|d0 ds0]; [congruence|].
    pose proof (skip_known_all c (d0 :: ds0) 0 F) as S.
    destruct (skip_known c (d0 :: ds0) 0) as [start rest]. cbn in S. subst rest. reflexivity.
  Qed.

  (* ---------------------------------------------------------------- C16_leave_implies *)
  Theorem leave_implies fixed c ds r c' :
    insert_chain valid fixed c ds = (r, c') -> ~ is_prefix c c' ->
    exists start head rest' fr target,
      skip_known c ds 0 = (start, head :: rest') /\ frontier c = Some fr /\
      by_height c (u64 (s_height head - 1)) = Some target /\ prev_is head target = true /\
      u64 (s_height fr - s_height target) <= 30 /\
      s_height fr < s_height (last (head :: rest') head).
  Proof.
    unfold insert_chain. intros H NP.
    assert (Same : c' = c -> False) by (intros ->; apply NP; exists []; rewrite app_nil_r; reflexivity).
    destruct ds as [|d0 ds0]; [inversion H; subst; exfalso; auto|].
    destruct (skip_known c (d0 :: ds0) 0) as [start rest] eqn:SK.
    destruct rest as [|head rest']; [inversion H; subst; exfalso; auto|].
    destruct (frontier c) as [fr|] eqn:FR; [|inversion H; subst; exfalso; auto].
    destruct (prev_is head fr).
    - exfalso. apply NP. eapply grown_prefix, apply_all_grown; eauto.
    - destruct (by_height c (u64 (s_height head - 1))) as [target|] eqn:T; [|inversion H; subst; exfalso; auto].
      destruct (negb (prev_is head target)) eqn:L; [inversion H; subst; exfalso; auto|].
      destruct (30 <? u64 (s_height fr - s_height target)) eqn:D; [inversion H; subst; exfalso; auto|].
      destruct (s_height (last (head :: rest') head) <=? s_height fr) eqn:G; [inversion H; subst; exfalso; auto|].
      exists start, head, rest', fr, target. apply negb_false_iff in L. apply Z.ltb_ge in D. apply Z.leb_gt in G.
      repeat split; auto.
  Qed.

  (* ---------------------------------------------------------------- C16_no_panic *)
  Lemma apply_all_no_panic ds : forall c i, fst (apply_all valid c ds i) <> ICPanic.
  Proof.
    induction ds as [|d ds IH]; cbn; intros c i; [discriminate|].
    destruct (known_prev c d && valid c d); [apply IH|cbn; discriminate].
  Qed.
  Theorem no_panic c ds : fst (insert_chain valid true c ds) <> ICPanic.
  Proof.
    unfold insert_chain. destruct ds as [|d0 ds0]; [cbn; discriminate|].
    destruct (skip_known c (d0 :: ds0) 0) as [start rest].
    destruct rest as [|head rest']; [cbn; discriminate|].
    destruct (frontier c) as [fr|]; [|cbn; discriminate].
    destruct (prev_is head fr); [apply apply_all_no_panic|].
    destruct (by_height c (u64 (s_height head - 1))) as [target|]; [|cbn; discriminate].
    destruct (negb (prev_is head target)); [cbn; discriminate|].
    destruct (30 <? u64 (s_height fr - s_height target)); [cbn; discriminate|].
    destruct (s_height (last (head :: rest') head) <=? s_height fr); [cbn; discriminate|].
    apply apply_all_no_panic.
  Qed.
End Proofs.

(* ------------------------------------------------------------------ F9: the code before fix 777dfea panics *)
Definition ex_local : list smom := [mkS 1 0 1; mkS 2 1 2; mkS 3 2 3; mkS 4 3 4; mkS 5 4 5].
Lemma ex_local_wf : wf_chain ex_local.
Proof.
  unfold wf_chain, ex_local. split; [discriminate|]. split.
  - cbn. repeat split; reflexivity.
  - repeat constructor; cbn; unfold two64; lia.
Qed.
Theorem panic_before_fix :
  (exists c ds, wf_chain c /\ ds <> [] /\ fst (insert_chain (fun _ _ => true) false c ds) = ICPanic) /\
  (exists c, wf_chain c /\ fst (insert_chain (fun _ _ => true) false c []) = ICPanic).
Proof.
  split.
  - exists ex_local, [mkS 9 8 8]. split; [exact ex_local_wf|]. split; [discriminate|]. vm_compute. reflexivity.
  - exists ex_local. split; [exact ex_local_wf|]. reflexivity.
Qed.

(* ------------------------------------------------------------------ F11: rollback before verification *)
(* a side chain forking below the frontier, longer than the own chain, whose second momentum is invalid *)
Definition ex_side : list smom := [mkS 13 2 3; mkS 14 13 4; mkS 15 14 5; mkS 16 15 6].
Definition ex_valid (_ : list smom) (d : smom) : bool := negb (s_hash d =? 14).

Theorem leave_only_for_valid_refuted :
  exists valid c ds r c',
    wf_chain c /\ insert_chain valid true c ds = (r, c') /\
    ~ is_prefix c c' /\                                  (* own momentums were abandoned ... *)
    (exists i, r = ICErr i EInvalid) /\                  (* ... for a delivered chain that failed verification ... *)
    (length c' < length c)%nat.                          (* ... and the node ends up with a shorter chain *)
Proof.
  exists ex_valid, ex_local, ex_side, (ICErr 1 EInvalid), [mkS 1 0 1; mkS 2 1 2; mkS 13 2 3].
  split; [exact ex_local_wf|]. split; [vm_compute; reflexivity|]. split.
  - intros (rest & E). apply (f_equal (@length smom)) in E. rewrite app_length in E. cbn in E. lia.
  - split; [exists 1; reflexivity|cbn; lia].
Qed.

(* ---- partial: when the delivered chain is linked and passes verification in order, leaving is justified *)
Lemma linked_tail m l : linked (m :: l) -> linked l.
Proof. cbn. intros [_ H]. exact H. Qed.
Lemma linked_app_r a : forall b, linked (a ++ b) -> linked b.
Proof. induction a as [|x a IH]; intros b H; [exact H|]. apply IH. eapply linked_tail. exact H. Qed.
Lemma last_cons_default {A} (l : list A) : forall a d, last (a :: l) d = last l a.
Proof.
  induction l as [|x l IH]; intros a d; [reflexivity|].
  change (last (a :: x :: l) d) with (last (x :: l) d). rewrite (IH x d), (IH x a). reflexivity.
Qed.
Lemma last_app_cons {A} (a : list A) : forall m l d, last (a ++ m :: l) d = last l m.
Proof.
  induction a as [|x a IH]; intros m l d; cbn [app]; [apply last_cons_default|].
  rewrite last_cons_default. apply IH.
Qed.
Lemma linked_height_last l : forall m, linked (m :: l) ->
  s_height (last l m) = s_height m + Z.of_nat (length l).
Proof.
  induction l as [|n l IH]; intros m H; [cbn; lia|].
  destruct H as [[_ Hh] Hl]. specialize (IH n Hl).
  rewrite last_cons_default. cbn [length]. rewrite Nat2Z.inj_succ. lia.
Qed.
Lemma frontier_last c d : c <> [] -> frontier c = Some (last c d).
Proof.
  intros H. destruct (@exists_last _ c H) as (l & a & ->). rewrite frontier_app, last_last. reflexivity.
Qed.

Section Partial.
  Variable valid : list smom -> smom -> bool.
  Inductive valid_in_order : list smom -> list smom -> Prop :=
  | vio_nil c : valid_in_order c []
  | vio_cons c d r : valid c d = true -> valid_in_order (c ++ [d]) r -> valid_in_order c (d :: r).

  Definition in_range (m : smom) : Prop := 1 <= s_height m < two64.

  Lemma prev_is_of_link d m : s_prev d = s_hash m -> s_height d = s_height m + 1 -> in_range m -> prev_is d m = true.
  Proof.
    intros P H R. unfold prev_is, in_range in *. rewrite P, Z.eqb_refl. cbn.
    apply Z.eqb_eq. unfold u64. rewrite H. replace (s_height m + 1 - 1) with (s_height m) by lia.
    apply Z.mod_small. lia.
  Qed.

  Lemma apply_all_valid rest : forall kept prev i,
    frontier kept = Some prev -> in_range prev -> linked (prev :: rest) -> Forall in_range rest ->
    valid_in_order kept rest ->
    apply_all valid kept rest i = (ICOk, kept ++ rest).
  Proof.
    induction rest as [|d r IH]; intros kept prev i F R L RR V; cbn.
    - rewrite app_nil_r. reflexivity.
    - inversion V as [|? ? ? Vd Vr]; subst. inversion RR as [|? ? Rd Rr]; subst.
      destruct L as [[Lp Lh] Lr].
      pose proof (prev_is_of_link d prev Lp Lh R) as P.
      assert (K : known_prev kept d = true).
      { unfold known_prev. apply existsb_exists. exists prev. split; [apply frontier_some_in, F|exact P]. }
      assert (X : extends kept d = true) by (unfold extends; rewrite F; exact P).
      rewrite K, Vd, X. cbn [andb].
      rewrite (IH (kept ++ [d]) d (i + 1)); auto.
      + rewrite <- app_assoc. reflexivity.
      + apply frontier_app.
  Qed.

  Theorem leave_only_for_valid_partial c ds r c' :
    wf_chain c ->
    insert_chain valid true c ds = (r, c') -> ~ is_prefix c c' ->
    forall start head rest', skip_known c ds 0 = (start, head :: rest') ->
    linked (head :: rest') -> Forall in_range (head :: rest') ->
    (forall target, by_height c (u64 (s_height head - 1)) = Some target ->
                    valid_in_order (rollback_to c (s_height target)) (head :: rest')) ->
    exists target,
      by_height c (u64 (s_height head - 1)) = Some target /\
      r = ICOk /\ c' = rollback_to c (s_height target) ++ head :: rest' /\ (length c < length c')%nat.
  Proof.
    intros (NE & LK & RG) H NP start head rest' SK LD RD VD.
    destruct (leave_implies valid true c ds r c' H NP) as (start' & head' & rest'' & fr & target & SK' & FR & T & P & D & G).
    rewrite SK in SK'. inversion SK'; subst start' head' rest''. clear SK'.
    exists target. split; [exact T|].
    unfold insert_chain in H. destruct ds as [|d0 ds0]; [cbn in SK; discriminate|].
    rewrite SK, FR in H.
    destruct (prev_is head fr) eqn:PF.
    { exfalso. apply NP. eapply grown_prefix, apply_all_grown; eauto. }
    rewrite T, P in H. cbn [negb] in H.
    destruct (30 <? u64 (s_height fr - s_height target)) eqn:E1; [apply Z.ltb_lt in E1; lia|].
    destruct (s_height (last (head :: rest') head) <=? s_height fr) eqn:E2; [apply Z.leb_le in E2; lia|].
    pose proof T as T0. destruct (by_height_in _ _ _ T) as [Tin Th].
    assert (Rt : in_range target) by (rewrite Forall_forall in RG; apply RG, Tin).
    assert (Hh : s_height head = s_height target + 1).
    { inversion RD as [|? ? Rh _]; subst. unfold prev_is in P. apply andb_true_iff in P. destruct P as [_ P].
      apply Z.eqb_eq in P. unfold in_range, u64, two64 in *. rewrite Z.mod_small in P; lia. }
    assert (Lt : linked (target :: head :: rest')).
    { cbn [linked]. split; [|exact LD]. split; [|exact Hh].
      unfold prev_is in P. apply andb_true_iff in P. destruct P as [P _]. apply Z.eqb_eq in P. exact P. }
    rewrite (apply_all_valid (head :: rest') (rollback_to c (s_height target)) target start) in H; auto.
    2: { apply rollback_frontier. rewrite Th. exact T. }
    inversion H; subst r c'. split; [reflexivity|]. split; [reflexivity|].
    (* lengths: the dropped part has fr.height - target.height momentums, the delivered part more *)
    destruct (rollback_prefix c (s_height target)) as (dropped & Ec).
    assert (T1 : by_height c (s_height target) = Some target) by (rewrite Th; exact T).
    pose proof (rollback_frontier c _ _ T1) as FK.
    assert (KNE : rollback_to c (s_height target) <> []) by (intros C; rewrite C in FK; discriminate).
    destruct (@exists_last _ _ KNE) as (k0 & tg & Ek).
    rewrite Ek, frontier_app in FK. inversion FK; subst tg.
    assert (Ld : linked (target :: dropped)).
    { rewrite Ec, Ek, <- app_assoc in LK. cbn in LK. eapply linked_app_r. exact LK. }
    pose proof (linked_height_last dropped target Ld) as Hd.
    assert (Hfr : fr = last dropped target).
    { rewrite (frontier_last c target NE) in FR. inversion FR as [Efr].
      rewrite Ec at 1. rewrite Ek, <- app_assoc. cbn [app]. apply last_app_cons. }
    pose proof (linked_height_last rest' head LD) as Hr.
    rewrite Ec at 1. rewrite !app_length. cbn [length].
    assert (s_height fr = s_height target + Z.of_nat (length dropped)) by (rewrite Hfr; exact Hd).
    rewrite last_cons_default in G. lia.
  Qed.
End Partial.
