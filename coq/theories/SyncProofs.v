(* Proofs about the InsertChain model (C16). *)
From ZV Require Import Prelude GoSem Sync.
Open Scope Z_scope.
Ltac Zify.zify_post_hook ::= Z.div_mod_to_equations.

(* ------------------------------------------------------------------ basic facts *)
Lemma frontier_app c d : frontier (c ++ [d]) = Some d.
Proof.
  unfold frontier. rewrite map_app. cbn. induction (map Some c) as [|x l IH]; cbn; [reflexivity|].
  destruct (l ++ [Some d]) eqn:E; [destruct l; discriminate|]. exact IH.
Qed.
Lemma frontier_some_in c f : frontier c = Some f -> In f c.
Proof.
  unfold frontier. induction c as [|x r IH]; cbn; [discriminate|].
  destruct r as [|y r']; cbn in *; [intros H; inversion H; auto|]. intros H. right. apply IH. exact H.
Qed.
Lemma frontier_nonempty c : c <> [] -> exists f, frontier c = Some f.
Proof.
  intros H. destruct (@exists_last _ c H) as (l & a & ->). exists a. apply frontier_app.
Qed.

Lemma by_height_in c h m : by_height c h = Some m -> In m c /\ s_height m = h.
Proof.
  induction c as [|x r IH]; cbn; [discriminate|].
  destruct (s_height x =? h) eqn:E.
  - intros H. inversion H; subst. apply Z.eqb_eq in E. auto.
  - intros H. destruct (IH H). auto.
Qed.

(* the rollback keeps a prefix of the chain, ending with the first momentum at the target height *)
Lemma rollback_prefix c h : exists rest, c = rollback_to c h ++ rest.
Proof.
  induction c as [|x r IH]; cbn; [exists []; reflexivity|].
  destruct (s_height x =? h); [exists r; reflexivity|].
  destruct IH as (rest & E). exists rest. cbn. f_equal. exact E.
Qed.
Lemma rollback_frontier c h m : by_height c h = Some m -> frontier (rollback_to c h) = Some m.
Proof.
  induction c as [|x r IH]; cbn; [discriminate|].
  destruct (s_height x =? h) eqn:E; [intros H; inversion H; reflexivity|].
  intros H. specialize (IH H). unfold frontier in *. cbn.
  destruct (rollback_to r h) eqn:R; [cbn in IH; discriminate|]. exact IH.
Qed.

Definition is_prefix (p c : list smom) : Prop := exists rest, c = p ++ rest.

Lemma is_prefix_refl c : is_prefix c c.
Proof. exists []. rewrite app_nil_r. reflexivity. Qed.
Lemma is_prefix_trans a b c : is_prefix a b -> is_prefix b c -> is_prefix a c.
Proof. intros (x & ->) (y & ->). exists (x ++ y). rewrite app_assoc. reflexivity. Qed.
Lemma is_prefix_app c x : is_prefix c (c ++ x).
Proof. exists x. reflexivity. Qed.

Lemma blk_eqb_eq a b : blk_eqb a b = true -> a = b.
Proof.
  destruct a, b. unfold blk_eqb. cbn. intros H. apply andb_true_iff in H. destruct H as [H H3].
  apply andb_true_iff in H. destruct H as [H1 H2]. apply Z.eqb_eq in H1, H2, H3. subst. reflexivity.
Qed.
Lemma pooled_in b p : pooled b p = true -> In b p.
Proof.
  unfold pooled. intros H. apply existsb_exists in H. destruct H as (x & I & E). apply blk_eqb_eq in E. subst. exact I.
Qed.

(* ------------------------------------------------------------------ what the apply loop can build *)
Section Proofs.
  Variable bvalid : list smom -> list blk -> blk -> bool.
  Variable mvalid : list smom -> list blk -> dmom -> bool.

  (* the account block passed full verification on the chain the node holds or on an earlier state of it that the
     chain still extends (no own momentum of that state was abandoned since) *)
  Definition verified_on (c : list smom) (b : blk) : Prop :=
    exists c0 p0, is_prefix c0 c /\ bvalid c0 p0 b = true.
  (* the invariant of the unconfirmed pool *)
  Definition pool_verified (c : list smom) (p : list blk) : Prop := Forall (verified_on c) p.

  Lemma verified_on_mono c c2 b : is_prefix c c2 -> verified_on c b -> verified_on c2 b.
  Proof. intros P (c0 & p0 & P0 & V). exists c0, p0. split; [eapply is_prefix_trans; eauto|exact V]. Qed.
  Lemma pool_verified_mono c c2 p : is_prefix c c2 -> pool_verified c p -> pool_verified c2 p.
  Proof. intros P. apply Forall_impl. intros b. apply verified_on_mono, P. Qed.
  Lemma pool_verified_confirm c bs p : pool_verified c p -> pool_verified c (confirm bs p).
  Proof.
    unfold pool_verified, confirm. rewrite !Forall_forall. intros H x I. apply filter_In in I. apply H, I.
  Qed.

  Lemma pool_verified_force_add c b p : pool_verified c p -> verified_on c b -> pool_verified c (force_add b p).
  Proof.
    unfold pool_verified, force_add. intros H V. apply Forall_app. split; [|constructor; [exact V|constructor]].
    rewrite !Forall_forall in *. intros x I. apply filter_In in I. apply H, I.
  Qed.

  (* c' is c extended by momentums each of which, at the moment it was appended, had a known previous momentum,
     had every account block verified (just now, or earlier on a state the chain still extends), passed full
     verification itself, and extended the frontier *)
  Inductive grown : list smom -> list smom -> Prop :=
  | g_refl c : grown c c
  | g_step c d c' : known_prev c (d_mom d) = true -> Forall (verified_on c) (d_blocks d) ->
                    (exists p1, pool_verified c p1 /\ mvalid c p1 d = true) ->
                    extends c (d_mom d) = true -> grown (c ++ [d_mom d]) c' -> grown c c'.

  Lemma grown_prefix c c' : grown c c' -> is_prefix c c'.
  Proof.
    induction 1 as [c|c d c' _ _ _ _ _ IH]; [apply is_prefix_refl|].
    destruct IH as (rest & E). exists (d_mom d :: rest). rewrite E, <- app_assoc. reflexivity.
  Qed.

  Lemma apply_blocks_inv c bs : forall p ok p1,
    pool_verified c p -> apply_blocks bvalid c p bs = (ok, p1) ->
    pool_verified c p1 /\ (ok = true -> Forall (verified_on c) bs).
  Proof.
    induction bs as [|b r IH]; cbn; intros p ok p1 PV H.
    - inversion H; subst. split; [exact PV|constructor].
    - destruct (pooled b p) eqn:Pb.
      + destruct (IH _ _ _ PV H) as [A B]. split; [exact A|]. intros O. constructor; [|apply B, O].
        unfold pool_verified in PV. rewrite Forall_forall in PV. apply PV, pooled_in, Pb.
      + destruct (bvalid c p b) eqn:Vb.
        * assert (Vo : verified_on c b) by (exists c, p; split; [apply is_prefix_refl|exact Vb]).
          assert (PV' : pool_verified c (force_add b p)).
          { apply pool_verified_force_add; assumption. }
          destruct (IH _ _ _ PV' H) as [A B]. split; [exact A|]. intros O. constructor; [exact Vo|apply B, O].
        * inversion H; subst. split; [exact PV|discriminate].
  Qed.

  (* a failing block loop stopped at a block without a patch in the pool that did not verify *)
  Lemma apply_blocks_false c bs : forall p p1, apply_blocks bvalid c p bs = (false, p1) ->
    exists b, In b bs /\ pooled b p1 = false /\ bvalid c p1 b = false.
  Proof.
    induction bs as [|b r IH]; cbn; intros p p1 H; [discriminate|].
    destruct (pooled b p) eqn:Pb.
    - destruct (IH _ _ H) as (x & I & A). exists x. auto.
    - destruct (bvalid c p b) eqn:Vb.
      + destruct (IH _ _ H) as (x & I & A). exists x. auto.
      + inversion H; subst. exists b. auto.
  Qed.

  Lemma apply_all_grown ds : forall c p i r c' p',
    pool_verified c p -> apply_all bvalid mvalid c p ds i = (r, (c', p')) -> grown c c' /\ pool_verified c' p'.
  Proof.
    induction ds as [|d ds IH]; cbn; intros c p i r c' p' PV H.
    - inversion H; subst. split; [constructor|exact PV].
    - destruct (apply_blocks bvalid c p (d_blocks d)) as [okb p1] eqn:AB.
      destruct (apply_blocks_inv _ _ _ _ _ PV AB) as [PV1 FB].
      destruct (okb && (known_prev c (d_mom d) && mvalid c p1 d)) eqn:E.
      + apply andb_true_iff in E. destruct E as [O E]. apply andb_true_iff in E. destruct E as [K V].
        destruct (extends c (d_mom d)) eqn:X.
        * assert (PV2 : pool_verified (c ++ [d_mom d]) (confirm (d_blocks d) p1)).
          { apply pool_verified_confirm. eapply pool_verified_mono; [apply is_prefix_app|exact PV1]. }
          destruct (IH _ _ _ _ _ _ PV2 H) as [G P]. split; [|exact P]. eapply g_step; eauto.
        * eapply IH; eauto.
      + inversion H; subst. split; [constructor|exact PV1].
  Qed.

  (* the element at which the loop stopped: one of its not yet pooled account blocks, or the momentum itself, does
     not verify on the chain and with the pool the node holds afterwards *)
  Definition elem_fails (c : list smom) (p : list blk) (d : dmom) : Prop :=
    (exists b, In b (d_blocks d) /\ pooled b p = false /\ bvalid c p b = false) \/
    known_prev c (d_mom d) && mvalid c p d = false.

  Lemma apply_all_result ds : forall c p i r c' p', apply_all bvalid mvalid c p ds i = (r, (c', p')) ->
    r = ICOk \/
    exists pre d post, ds = pre ++ d :: post /\ r = ICErr (i + Z.of_nat (length pre)) EInvalid /\ elem_fails c' p' d.
  Proof.
    induction ds as [|d ds IH]; cbn; intros c p i r c' p' H.
    - inversion H. auto.
    - destruct (apply_blocks bvalid c p (d_blocks d)) as [okb p1] eqn:AB.
      destruct (okb && (known_prev c (d_mom d) && mvalid c p1 d)) eqn:E.
      + assert (R : forall c0 p0, apply_all bvalid mvalid c0 p0 ds (i + 1) = (r, (c', p')) ->
                    r = ICOk \/ exists pre x post, d :: ds = pre ++ x :: post /\
                      r = ICErr (i + Z.of_nat (length pre)) EInvalid /\ elem_fails c' p' x).
        { intros c0 p0 H0. destruct (IH _ _ _ _ _ _ H0) as [->|(pre & x & post & -> & -> & F)]; [auto|].
          right. exists (d :: pre), x, post. repeat split; auto. cbn [length]. f_equal. lia. }
        destruct (extends c (d_mom d)); eapply R; eauto.
      + inversion H; subst. right. exists [], d, ds. split; [reflexivity|]. split; [cbn; f_equal; lia|].
        destruct okb.
        * right. exact E.
        * left. eapply apply_blocks_false. exact AB.
  Qed.

  Lemma skip_known_split c ds : forall s s' rest, skip_known c ds s = (s', rest) ->
    exists pre, ds = pre ++ rest /\ s' = s + Z.of_nat (length pre) /\
      Forall (fun d => exists our, by_height c (s_height (d_mom d)) = Some our /\ s_hash our = s_hash (d_mom d)) pre.
  Proof.
    induction ds as [|d ds IH]; cbn; intros s s' rest H.
    - inversion H; subst. exists []. repeat split; [cbn [length]; lia|constructor].
    - destruct (by_height c (s_height (d_mom d))) as [our|] eqn:B.
      + destruct (s_hash our =? s_hash (d_mom d)) eqn:E.
        * destruct (IH _ _ _ H) as (pre & -> & -> & F). exists (d :: pre). repeat split; [cbn [length]; lia|].
          constructor; [|exact F]. exists our. apply Z.eqb_eq in E. auto.
        * inversion H; subst. exists []. repeat split; [cbn [length]; lia|constructor].
      + inversion H; subst. exists []. repeat split; [cbn [length]; lia|constructor].
  Qed.

  (* every way out of insert_chain that is not the apply loop leaves chain and pool as they were *)
  Ltac same_state H c p :=
    inversion H; subst; exists c; split; [apply is_prefix_refl|split; [constructor|assumption]].

  (* ---------------------------------------------------------------- C16_only_verified *)
  Theorem only_verified fixed c p ds r c' p' :
    pool_verified c p ->
    insert_chain bvalid mvalid fixed true c p ds = (r, (c', p')) ->
    exists kept, is_prefix kept c /\ grown kept c' /\ pool_verified c' p'.
  Proof.
    intros PV. unfold insert_chain. destruct ds as [|d0 ds0].
    - intros H. same_state H c' p'.
    - destruct (skip_known c (d0 :: ds0) 0) as [start rest] eqn:SK.
      destruct rest as [|head rest'].
      + intros H. same_state H c' p'.
      + destruct (frontier c) as [fr|]; [|intros H; same_state H c' p'].
        destruct (prev_is (d_mom head) fr).
        * intros H. exists c. split; [apply is_prefix_refl|]. eapply apply_all_grown; eauto.
        * destruct (by_height c (u64 (s_height (d_mom head) - 1))) as [target|]; [|intros H; same_state H c' p'].
          destruct (negb (prev_is (d_mom head) target)); [intros H; same_state H c' p'|].
          destruct (30 <? u64 (s_height fr - s_height target)); [intros H; same_state H c' p'|].
          destruct (s_height (d_mom (last (head :: rest') head)) <=? s_height fr); [intros H; same_state H c' p'|].
          intros H. exists (rollback_to c (s_height target)). split; [apply rollback_prefix|].
          eapply apply_all_grown; [|exact H]. constructor.
  Qed.

  (* ---------------------------------------------------------------- C16_failure_index *)
  Theorem failure_index fixed clears c p ds i c' p' :
    insert_chain bvalid mvalid fixed clears c p ds = (ICErr i EInvalid, (c', p')) ->
    exists pre d post, ds = pre ++ d :: post /\ i = Z.of_nat (length pre) /\ elem_fails c' p' d.
  Proof.
    unfold insert_chain. destruct ds as [|d0 ds0]; [destruct fixed; discriminate|].
    destruct (skip_known c (d0 :: ds0) 0) as [start rest] eqn:SK.
    destruct (skip_known_split _ _ _ _ _ SK) as (known & E & S & _).
    assert (A : forall c0 p0, apply_all bvalid mvalid c0 p0 rest start = (ICErr i EInvalid, (c', p')) ->
                exists pre d post, d0 :: ds0 = pre ++ d :: post /\ i = Z.of_nat (length pre) /\ elem_fails c' p' d).
    { intros c0 p0 H. destruct (apply_all_result _ _ _ _ _ _ _ H) as [C|(pre & d & post & -> & R & F)]; [discriminate|].
      inversion R. exists (known ++ pre), d, post. rewrite E, <- app_assoc. repeat split; auto.
      rewrite app_length. lia. }
    destruct rest as [|head rest']; [discriminate|].
    destruct (frontier c) as [fr|]; [|discriminate].
    destruct (prev_is (d_mom head) fr); [apply A|].
    destruct (by_height c (u64 (s_height (d_mom head) - 1))) as [target|]; [|destruct fixed; discriminate].
    destruct (negb (prev_is (d_mom head) target)); [discriminate|].
    destruct (30 <? u64 (s_height fr - s_height target)); [discriminate|].
    destruct (s_height (d_mom (last (head :: rest') head)) <=? s_height fr); [discriminate|].
    apply A.
  Qed.

  (* ---------------------------------------------------------------- C16_idempotent *)
  Lemma skip_known_all c ds : forall s,
    Forall (fun d => exists our, by_height c (s_height (d_mom d)) = Some our /\ s_hash our = s_hash (d_mom d)) ds ->
    snd (skip_known c ds s) = [].
  Proof.
    induction ds as [|d ds IH]; cbn; intros s F; [reflexivity|].
    inversion F as [|? ? (our & B & E) F']; subst. rewrite B, E, Z.eqb_refl. apply IH, F'.
  Qed.

  Theorem idempotent fixed clears c p ds : ds <> [] ->
    Forall (fun d => exists our, by_height c (s_height (d_mom d)) = Some our /\ s_hash our = s_hash (d_mom d)) ds ->
    insert_chain bvalid mvalid fixed clears c p ds = (ICOk, (c, p)).
  Proof.
    intros NE F. unfold insert_chain. destruct ds as [|d0 ds0]; [congruence|].
    pose proof (skip_known_all c (d0 :: ds0) 0 F) as S.
    destruct (skip_known c (d0 :: ds0) 0) as [start rest]. cbn in S. subst rest. reflexivity.
  Qed.

  (* ---------------------------------------------------------------- C16_leave_implies *)
  Lemma apply_all_prefix ds c p i r c' p' : apply_all bvalid mvalid c p ds i = (r, (c', p')) -> is_prefix c c'.
  Proof.
    revert c p i. induction ds as [|d ds IH]; cbn; intros c p i H.
    - inversion H; subst. apply is_prefix_refl.
    - destruct (apply_blocks bvalid c p (d_blocks d)) as [okb p1].
      destruct (okb && (known_prev c (d_mom d) && mvalid c p1 d)).
      + destruct (extends c (d_mom d)).
        * eapply is_prefix_trans; [apply is_prefix_app|]. eapply IH, H.
        * eapply IH, H.
      + inversion H; subst. apply is_prefix_refl.
  Qed.

  Theorem leave_implies fixed clears c p ds r c' p' :
    insert_chain bvalid mvalid fixed clears c p ds = (r, (c', p')) -> ~ is_prefix c c' ->
    exists start head rest' fr target,
      skip_known c ds 0 = (start, head :: rest') /\ frontier c = Some fr /\
      by_height c (u64 (s_height (d_mom head) - 1)) = Some target /\ prev_is (d_mom head) target = true /\
      u64 (s_height fr - s_height target) <= 30 /\
      s_height fr < s_height (d_mom (last (head :: rest') head)).
  Proof.
    unfold insert_chain. intros H NP.
    assert (Same : c' = c -> False) by (intros ->; apply NP, is_prefix_refl).
    destruct ds as [|d0 ds0]; [inversion H; subst; exfalso; auto|].
    destruct (skip_known c (d0 :: ds0) 0) as [start rest] eqn:SK.
    destruct rest as [|head rest']; [inversion H; subst; exfalso; auto|].
    destruct (frontier c) as [fr|] eqn:FR; [|inversion H; subst; exfalso; auto].
    destruct (prev_is (d_mom head) fr).
    - exfalso. apply NP. eapply apply_all_prefix; eauto.
    - destruct (by_height c (u64 (s_height (d_mom head) - 1))) as [target|] eqn:T; [|inversion H; subst; exfalso; auto].
      destruct (negb (prev_is (d_mom head) target)) eqn:L; [inversion H; subst; exfalso; auto|].
      destruct (30 <? u64 (s_height fr - s_height target)) eqn:D; [inversion H; subst; exfalso; auto|].
      destruct (s_height (d_mom (last (head :: rest') head)) <=? s_height fr) eqn:G; [inversion H; subst; exfalso; auto|].
      exists start, head, rest', fr, target. apply negb_false_iff in L. apply Z.ltb_ge in D. apply Z.leb_gt in G.
      repeat split; auto.
  Qed.

  (* the pool a rollback leaves behind: nothing (DeleteMomentum), whatever was pooled *)
  Theorem rollback_empties_pool fixed c p ds r c' p' :
    insert_chain bvalid mvalid fixed true c p ds = (r, (c', p')) -> ~ is_prefix c c' ->
    exists target start rest,
      skip_known c ds 0 = (start, rest) /\ rest <> [] /\
      apply_all bvalid mvalid (rollback_to c (s_height target)) [] rest start = (r, (c', p')).
  Proof.
    unfold insert_chain. intros H NP.
    assert (Same : c' = c -> False) by (intros ->; apply NP, is_prefix_refl).
    destruct ds as [|d0 ds0]; [inversion H; subst; exfalso; auto|].
    destruct (skip_known c (d0 :: ds0) 0) as [start rest] eqn:SK.
    destruct rest as [|head rest']; [inversion H; subst; exfalso; auto|].
    destruct (frontier c) as [fr|] eqn:FR; [|inversion H; subst; exfalso; auto].
    destruct (prev_is (d_mom head) fr).
    - exfalso. apply NP. eapply apply_all_prefix; eauto.
    - destruct (by_height c (u64 (s_height (d_mom head) - 1))) as [target|] eqn:T; [|inversion H; subst; exfalso; auto].
      destruct (negb (prev_is (d_mom head) target)) eqn:L; [inversion H; subst; exfalso; auto|].
      destruct (30 <? u64 (s_height fr - s_height target)) eqn:D; [inversion H; subst; exfalso; auto|].
      destruct (s_height (d_mom (last (head :: rest') head)) <=? s_height fr) eqn:G; [inversion H; subst; exfalso; auto|].
      exists target, start, (head :: rest'). split; [reflexivity|]. split; [discriminate|exact H].
  Qed.

  (* ---------------------------------------------------------------- C16_no_panic *)
  Lemma apply_all_no_panic ds : forall c p i, fst (apply_all bvalid mvalid c p ds i) <> ICPanic.
  Proof.
    induction ds as [|d ds IH]; cbn; intros c p i; [discriminate|].
    destruct (apply_blocks bvalid c p (d_blocks d)) as [okb p1].
    destruct (okb && (known_prev c (d_mom d) && mvalid c p1 d)); [|cbn; discriminate].
    destruct (extends c (d_mom d)); apply IH.
  Qed.
  Theorem no_panic clears c p ds : fst (insert_chain bvalid mvalid true clears c p ds) <> ICPanic.
  Proof.
    unfold insert_chain. destruct ds as [|d0 ds0]; [cbn; discriminate|].
    destruct (skip_known c (d0 :: ds0) 0) as [start rest].
    destruct rest as [|head rest']; [cbn; discriminate|].
    destruct (frontier c) as [fr|]; [|cbn; discriminate].
    destruct (prev_is (d_mom head) fr); [apply apply_all_no_panic|].
    destruct (by_height c (u64 (s_height (d_mom head) - 1))) as [target|]; [|cbn; discriminate].
    destruct (negb (prev_is (d_mom head) target)); [cbn; discriminate|].
    destruct (30 <? u64 (s_height fr - s_height target)); [cbn; discriminate|].
    destruct (s_height (d_mom (last (head :: rest') head)) <=? s_height fr); [cbn; discriminate|].
    apply apply_all_no_panic.
  Qed.

  (* ---------------------------------------------------------------- histories: deliveries and received blocks *)
  (* what a node without pillars does between two restarts: InsertChain of a delivered batch, AddAccountBlocks of a
     broadcast account block (verified on the frontier, then pooled) *)
  Inductive op := Deliver (ds : list dmom) | Receive (b : blk).
  Definition step (s : nstate) (o : op) : nstate :=
    match o with
    | Deliver ds => snd (insert_chain bvalid mvalid true true (fst s) (snd s) ds)
    | Receive b => if pooled b (snd s) then s
                   else if bvalid (fst s) (snd s) b then (fst s, force_add b (snd s)) else s
    end.
  Definition run (s : nstate) (ops : list op) : nstate := fold_left step ops s.

  (* a momentum of the chain is either one the node started with or was adopted after full verification *)
  Definition justified (c0 : list smom) (m : smom) : Prop :=
    In m c0 \/ exists cur d, d_mom d = m /\ known_prev cur m = true /\ Forall (verified_on cur) (d_blocks d) /\
                             (exists p1, pool_verified cur p1 /\ mvalid cur p1 d = true) /\ extends cur m = true.

  Lemma grown_justified c0 c c' : grown c c' -> Forall (justified c0) c -> Forall (justified c0) c'.
  Proof.
    induction 1 as [c|c d c' K B V X _ IH]; intros F; [exact F|]. apply IH. apply Forall_app. split; [exact F|].
    constructor; [|constructor]. right. exists c, d. auto.
  Qed.
  Lemma prefix_forall {A} (P : A -> Prop) k c : (exists rest, c = k ++ rest) -> Forall P c -> Forall P k.
  Proof. intros (rest & ->) F. apply Forall_app in F. apply F. Qed.

  Definition inv (c0 : list smom) (s : nstate) : Prop :=
    Forall (justified c0) (fst s) /\ pool_verified (fst s) (snd s).

  Lemma step_inv c0 s o : inv c0 s -> inv c0 (step s o).
  Proof.
    destruct s as [c p]. intros [J PV]. cbn [fst snd] in *. destruct o as [ds|b]; cbn [step fst snd].
    - destruct (insert_chain bvalid mvalid true true c p ds) as [r [c' p']] eqn:H.
      destruct (only_verified _ _ _ _ _ _ _ PV H) as (kept & KP & G & PV'). cbn [snd fst]. split; [|exact PV'].
      eapply grown_justified; [exact G|]. eapply prefix_forall; [exact KP|exact J].
    - destruct (pooled b p); [split; assumption|].
      destruct (bvalid c p b) eqn:V; [|split; assumption]. cbn [fst snd]. split; [exact J|].
      apply pool_verified_force_add; [exact PV|]. exists c, p. split; [apply is_prefix_refl|exact V].
  Qed.

  Theorem history_only_verified c0 ops :
    Forall (justified c0) (fst (run (c0, []) ops)) /\ pool_verified (fst (run (c0, []) ops)) (snd (run (c0, []) ops)).
  Proof.
    assert (G : forall ops s, inv c0 s -> inv c0 (run s ops)).
    { induction ops0 as [|o r IH]; intros s I; [exact I|]. cbn [run fold_left]. apply IH, step_inv, I. }
    apply (G ops (c0, [])). split; cbn [fst snd].
    - apply Forall_forall. intros m I. left. exact I.
    - constructor.
  Qed.
End Proofs.

(* ------------------------------------------------------------------ F9: the code before fix 777dfea panics *)
Definition ex_local : list smom := [mkS 1 0 1; mkS 2 1 2; mkS 3 2 3; mkS 4 3 4; mkS 5 4 5].
Lemma ex_local_wf : wf_chain ex_local.
Proof.
  unfold wf_chain, ex_local. split; [discriminate|]. split.
  - cbn. repeat split; reflexivity.
  - repeat constructor; cbn; unfold two64; lia.
Qed.
Definition all_b (_ : list smom) (_ : list blk) (_ : blk) : bool := true.
Definition all_m (_ : list smom) (_ : list blk) (_ : dmom) : bool := true.
Theorem panic_before_fix :
  (exists c ds, wf_chain c /\ ds <> [] /\ fst (insert_chain all_b all_m false true c [] ds) = ICPanic) /\
  (exists c, wf_chain c /\ fst (insert_chain all_b all_m false true c [] []) = ICPanic).
Proof.
  split.
  - exists ex_local, [mkD (mkS 9 8 8) [] []]. split; [exact ex_local_wf|]. split; [discriminate|]. vm_compute. reflexivity.
  - exists ex_local. split; [exact ex_local_wf|]. reflexivity.
Qed.

(* ------------------------------------------------------------------ F11: rollback before verification *)
(* a side chain forking below the frontier, longer than the own chain, whose second momentum is invalid *)
Definition ex_side : list dmom :=
  [mkD (mkS 13 2 3) [] []; mkD (mkS 14 13 4) [] []; mkD (mkS 15 14 5) [] []; mkD (mkS 16 15 6) [] []].
Definition ex_valid (_ : list smom) (_ : list blk) (d : dmom) : bool := negb (s_hash (d_mom d) =? 14).

Theorem leave_only_for_valid_refuted :
  exists bvalid mvalid c ds r c' p',
    wf_chain c /\ insert_chain bvalid mvalid true true c [] ds = (r, (c', p')) /\
    ~ is_prefix c c' /\                                  (* own momentums were abandoned ... *)
    (exists i, r = ICErr i EInvalid) /\                  (* ... for a delivered chain that failed verification ... *)
    (length c' < length c)%nat.                          (* ... and the node ends up with a shorter chain *)
Proof.
  exists all_b, ex_valid, ex_local, ex_side, (ICErr 1 EInvalid), [mkS 1 0 1; mkS 2 1 2; mkS 13 2 3], [].
  split; [exact ex_local_wf|]. split; [vm_compute; reflexivity|]. split.
  - intros (rest & E). apply (f_equal (@length smom)) in E. rewrite app_length in E. cbn in E. lia.
  - split; [exists 1; reflexivity|cbn; lia].
Qed.

(* ------------------------------------------------------------------ why DeleteMomentum has to drop the pool *)
Definition b77 : blk := mkB 77 1 4.
(* account block 77 acknowledges own momentum 5: it verifies exactly on chains that contain that momentum. The node
   holds it unconfirmed; a longer side chain forking below momentum 5 carries it in its second momentum. *)
Definition ex_ack5 (c : list smom) (_ : list blk) (_ : blk) : bool := existsb (fun m => s_hash m =? 5) c.
Definition ex_side77 : list dmom :=
  [mkD (mkS 13 2 3) [] []; mkD (mkS 14 13 4) [b77] [b77]; mkD (mkS 15 14 5) [] []; mkD (mkS 16 15 6) [] []].
Definition ex_adopted : list smom := [mkS 1 0 1; mkS 2 1 2; mkS 13 2 3; mkS 14 13 4; mkS 15 14 5; mkS 16 15 6].

Lemma ex_pool_verified : pool_verified ex_ack5 ex_local [b77].
Proof. constructor; [|constructor]. exists ex_local, []. split; [apply is_prefix_refl|reflexivity]. Qed.

(* with the pool kept across the rollback the side chain is adopted whole, block 77 unverified ... *)
Theorem pool_kept_refuted :
  exists bvalid mvalid c p ds c' p',
    wf_chain c /\ pool_verified bvalid c p /\
    insert_chain bvalid mvalid true false c p ds = (ICOk, (c', p')) /\
    exists d b, In d ds /\ In (d_mom d) c' /\ In b (d_blocks d) /\ ~ verified_on bvalid c' b.
Proof.
  exists ex_ack5, all_m, ex_local, [b77], ex_side77, ex_adopted, [].
  split; [exact ex_local_wf|]. split; [exact ex_pool_verified|]. split; [vm_compute; reflexivity|].
  exists (mkD (mkS 14 13 4) [b77] [b77]), b77. split; [cbn; auto|]. split; [cbn; auto 10|]. split; [cbn; auto|].
  intros (c0 & p0 & (rest & E) & V). unfold ex_ack5 in V.
  assert (F : existsb (fun m => s_hash m =? 5) ex_adopted = false) by reflexivity.
  rewrite E, existsb_app, V in F. discriminate.
Qed.
(* ... and with the pool dropped (the code) the same delivery stops in front of that momentum, index 1 *)
Example pool_dropped_example :
  insert_chain ex_ack5 all_m true true ex_local [b77] ex_side77 = (ICErr 1 EInvalid, ([mkS 1 0 1; mkS 2 1 2; mkS 13 2 3], [])).
Proof. vm_compute. reflexivity. Qed.

(* ---- partial: when the delivered chain is linked and passes verification in order, leaving is justified *)
Lemma linked_tail m l : linked (m :: l) -> linked l.
Proof. cbn. intros [_ H]. exact H. Qed.
Lemma linked_app_r a : forall b, linked (a ++ b) -> linked b.
Proof. induction a as [|x a IH]; intros b H; [exact H|]. apply IH. eapply linked_tail. exact H. Qed.
Lemma last_cons_default {A} (l : list A) : forall a d, last (a :: l) d = last l a.
Proof.
  induction l as [|x l IH]; intros a d; [reflexivity|].
  change (last (a :: x :: l) d) with (last (x :: l) d). rewrite (IH x d), (IH x a). reflexivity.
Qed.
Lemma last_app_cons {A} (a : list A) : forall m l d, last (a ++ m :: l) d = last l m.
Proof.
  induction a as [|x a IH]; intros m l d; cbn [app]; [apply last_cons_default|].
  rewrite last_cons_default. apply IH.
Qed.
Lemma linked_height_last l : forall m, linked (m :: l) ->
  s_height (last l m) = s_height m + Z.of_nat (length l).
Proof.
  induction l as [|n l IH]; intros m H; [cbn; lia|].
  destruct H as [[_ Hh] Hl]. specialize (IH n Hl).
  rewrite last_cons_default. cbn [length]. rewrite Nat2Z.inj_succ. lia.
Qed.
Lemma frontier_last c d : c <> [] -> frontier c = Some (last c d).
Proof.
  intros H. destruct (@exists_last _ c H) as (l & a & ->). rewrite frontier_app, last_last. reflexivity.
Qed.
Lemma last_map {A B} (f : A -> B) l : forall a, last (map f l) (f a) = f (last l a).
Proof. induction l as [|x l IH]; intros a; [reflexivity|]. cbn [map]. rewrite !last_cons_default. apply IH. Qed.

Section Partial.
  Variable bvalid : list smom -> list blk -> blk -> bool.
  Variable mvalid : list smom -> list blk -> dmom -> bool.
  (* every account block (not pooled at that moment) and every momentum of the delivered chain verifies, in order *)
  Inductive valid_in_order : list smom -> list blk -> list dmom -> Prop :=
  | vio_nil c p : valid_in_order c p []
  | vio_cons c p d r p1 : apply_blocks bvalid c p (d_blocks d) = (true, p1) -> mvalid c p1 d = true ->
                          valid_in_order (c ++ [d_mom d]) (confirm (d_blocks d) p1) r -> valid_in_order c p (d :: r).

  Definition in_range (m : smom) : Prop := 1 <= s_height m < two64.

  Lemma prev_is_of_link d m : s_prev d = s_hash m -> s_height d = s_height m + 1 -> in_range m -> prev_is d m = true.
  Proof.
    intros P H R. unfold prev_is, in_range in *. rewrite P, Z.eqb_refl. cbn.
    apply Z.eqb_eq. unfold u64. rewrite H. replace (s_height m + 1 - 1) with (s_height m) by lia.
    apply Z.mod_small. lia.
  Qed.

  Lemma apply_all_valid rest : forall kept p prev i,
    frontier kept = Some prev -> in_range prev -> linked (prev :: map d_mom rest) -> Forall in_range (map d_mom rest) ->
    valid_in_order kept p rest ->
    exists p', apply_all bvalid mvalid kept p rest i = (ICOk, (kept ++ map d_mom rest, p')).
  Proof.
    induction rest as [|d r IH]; intros kept p prev i F R L RR V; cbn [apply_all map].
    - rewrite app_nil_r. exists p. reflexivity.
    - inversion V as [|? ? ? ? p1 AB Vd Vr]; subst. cbn [map] in RR, L. inversion RR as [|? ? Rd Rr]; subst.
      destruct L as [[Lp Lh] Lr].
      pose proof (prev_is_of_link (d_mom d) prev Lp Lh R) as P.
      assert (K : known_prev kept (d_mom d) = true).
      { unfold known_prev. apply existsb_exists. exists prev. split; [apply frontier_some_in, F|exact P]. }
      assert (X : extends kept (d_mom d) = true) by (unfold extends; rewrite F; exact P).
      rewrite AB, K, Vd, X. cbn [andb].
      destruct (IH (kept ++ [d_mom d]) (confirm (d_blocks d) p1) (d_mom d) (i + 1)) as (p' & E); auto.
      + apply frontier_app.
      + exists p'. rewrite E, <- app_assoc. reflexivity.
  Qed.

  Theorem leave_only_for_valid_partial c p ds r c' p' :
    wf_chain c ->
    insert_chain bvalid mvalid true true c p ds = (r, (c', p')) -> ~ is_prefix c c' ->
    forall start head rest', skip_known c ds 0 = (start, head :: rest') ->
    linked (map d_mom (head :: rest')) -> Forall in_range (map d_mom (head :: rest')) ->
    (forall target, by_height c (u64 (s_height (d_mom head) - 1)) = Some target ->
                    valid_in_order (rollback_to c (s_height target)) [] (head :: rest')) ->
    exists target,
      by_height c (u64 (s_height (d_mom head) - 1)) = Some target /\
      r = ICOk /\ c' = rollback_to c (s_height target) ++ map d_mom (head :: rest') /\ (length c < length c')%nat.
  Proof.
    intros (NE & LK & RG) H NP start head rest' SK LD RD VD.
    destruct (leave_implies bvalid mvalid true true c p ds r c' p' H NP)
      as (start' & head' & rest'' & fr & target & SK' & FR & T & P & D & G).
    rewrite SK in SK'. inversion SK'; subst start' head' rest''. clear SK'.
    exists target. split; [exact T|].
    unfold insert_chain in H. destruct ds as [|d0 ds0]; [cbn in SK; discriminate|].
    rewrite SK, FR in H.
    destruct (prev_is (d_mom head) fr) eqn:PF.
    { exfalso. apply NP. eapply apply_all_prefix; eauto. }
    rewrite T, P in H. cbn [negb] in H.
    destruct (30 <? u64 (s_height fr - s_height target)) eqn:E1; [apply Z.ltb_lt in E1; lia|].
    destruct (s_height (d_mom (last (head :: rest') head)) <=? s_height fr) eqn:E2; [apply Z.leb_le in E2; lia|].
    pose proof T as T0. destruct (by_height_in _ _ _ T) as [Tin Th].
    assert (Rt : in_range target) by (rewrite Forall_forall in RG; apply RG, Tin).
    cbn [map] in LD, RD.
    assert (Hh : s_height (d_mom head) = s_height target + 1).
    { inversion RD as [|? ? Rh _]; subst. unfold prev_is in P. apply andb_true_iff in P. destruct P as [_ P].
      apply Z.eqb_eq in P. unfold in_range, u64, two64 in *. rewrite Z.mod_small in P; lia. }
    assert (Lt : linked (target :: map d_mom (head :: rest'))).
    { cbn [linked map]. split; [|exact LD]. split; [|exact Hh].
      unfold prev_is in P. apply andb_true_iff in P. destruct P as [P _]. apply Z.eqb_eq in P. exact P. }
    destruct (apply_all_valid (head :: rest') (rollback_to c (s_height target)) [] target start) as (pf & AV); auto.
    { apply rollback_frontier. rewrite Th. exact T. }
    rewrite AV in H.
    inversion H; subst r c' p'. split; [reflexivity|]. split; [reflexivity|].
    (* lengths: the dropped part has fr.height - target.height momentums, the delivered part more *)
    destruct (rollback_prefix c (s_height target)) as (dropped & Ec).
    assert (T1 : by_height c (s_height target) = Some target) by (rewrite Th; exact T).
    pose proof (rollback_frontier c _ _ T1) as FK.
    assert (KNE : rollback_to c (s_height target) <> []) by (intros C; rewrite C in FK; discriminate).
    destruct (@exists_last _ _ KNE) as (k0 & tg & Ek).
    rewrite Ek, frontier_app in FK. inversion FK; subst tg.
    assert (Ld : linked (target :: dropped)).
    { rewrite Ec, Ek, <- app_assoc in LK. cbn in LK. eapply linked_app_r. exact LK. }
    pose proof (linked_height_last dropped target Ld) as Hd.
    assert (Hfr : fr = last dropped target).
    { rewrite (frontier_last c target NE) in FR. inversion FR as [Efr].
      rewrite Ec at 1. rewrite Ek, <- app_assoc. cbn [app]. apply last_app_cons. }
    pose proof (linked_height_last (map d_mom rest') (d_mom head) LD) as Hr.
    rewrite Ec at 1. rewrite !app_length. cbn [length map]. rewrite map_length in *.
    assert (s_height fr = s_height target + Z.of_nat (length dropped)) by (rewrite Hfr; exact Hd).
    rewrite last_cons_default in G. rewrite last_map in Hr. lia.
  Qed.
End Partial.

(* ------------------------------------------------------------------ the insert lock: decisions on the state under the lock *)
Lemma produce_all_chain own : forall st, fst (produce_all own st) = fst st ++ map d_mom own.
Proof.
  unfold produce_all. induction own as [|d r IH]; intros st; cbn [fold_left map].
  - rewrite app_nil_r. reflexivity.
  - rewrite IH. unfold produce. cbn [fst]. rewrite <- app_assoc. reflexivity.
Qed.

(* whoever was served first on the lock: own momentums (those of the state under the lock, the other writer's included)
   are abandoned only for a batch that links at most 30 below the frontier UNDER THE LOCK and ends above it *)
Theorem decides_under_lock bvalid mvalid fixed clears (w : nstate -> nstate) st ds st1 r c' p' :
  insert_chain_locked bvalid mvalid fixed clears w st ds = (st1, (r, (c', p'))) ->
  st1 = w st /\
  (~ is_prefix (fst st1) c' ->
   exists start head rest' fr target,
     skip_known (fst st1) ds 0 = (start, head :: rest') /\ frontier (fst st1) = Some fr /\
     by_height (fst st1) (u64 (s_height (d_mom head) - 1)) = Some target /\ prev_is (d_mom head) target = true /\
     u64 (s_height fr - s_height target) <= 30 /\
     s_height fr < s_height (d_mom (last (head :: rest') head))).
Proof.
  unfold insert_chain_locked. intros H. inversion H as [[E1 E2]]. split; [reflexivity|].
  intros NP. eapply leave_implies; eauto.
Qed.

(* the own pillar served first: the delivered chain has to end above the momentum the pillar has just produced *)
Theorem longer_than_own_production bvalid mvalid fixed clears c p own d ds st1 r c' p' :
  insert_chain_locked bvalid mvalid fixed clears (produce_all (own ++ [d])) (c, p) ds = (st1, (r, (c', p'))) ->
  ~ is_prefix (c ++ map d_mom (own ++ [d])) c' ->
  exists head rest', s_height (d_mom d) < s_height (d_mom (last (head :: rest') head)) /\
                     exists start, skip_known (c ++ map d_mom (own ++ [d])) ds 0 = (start, head :: rest').
Proof.
  intros H NP. destruct (decides_under_lock _ _ _ _ _ _ _ _ _ _ _ H) as [E L]. subst st1.
  rewrite produce_all_chain in L. cbn [fst] in L.
  destruct (L NP) as (start & head & rest' & fr & target & SK & FR & _ & _ & _ & G).
  rewrite map_app in FR. cbn [map] in FR. rewrite app_assoc, frontier_app in FR. inversion FR; subst fr.
  exists head, rest'. split; [exact G|]. exists start. exact SK.
Qed.

(* reading before locking: the own pillar produces momentum 6 while the batch waits; the side chain 3'..6' from momentum 2
   is as long as the own chain now, and the node leaves its chain for it all the same *)
Definition ex_own : list dmom := [mkD (mkS 6 5 6) [] []].
Theorem stale_snapshot_refuted :
  exists bvalid mvalid c own ds c' p',
    wf_chain c /\ own <> [] /\
    insert_chain_stale bvalid mvalid true c (fst (produce_all own (c, []))) [] ds = (ICOk, (c', p')) /\
    ~ is_prefix (fst (produce_all own (c, []))) c' /\
    length c' = length (fst (produce_all own (c, []))).
Proof.
  exists all_b, all_m, ex_local, ex_own, ex_side, ex_adopted, [].
  split; [exact ex_local_wf|]. split; [discriminate|]. split; [vm_compute; reflexivity|]. split; [|reflexivity].
  intros (rest & E). vm_compute in E. discriminate.
Qed.
Example locked_example :
  insert_chain_locked all_b all_m true true (produce_all ex_own) (ex_local, []) ex_side =
  ((ex_local ++ [mkS 6 5 6], []), (ICErr 0 ENotLonger, (ex_local ++ [mkS 6 5 6], []))).
Proof. vm_compute. reflexivity. Qed.

(* ------------------------------------------------------------------ what an adopted momentum LISTS *)
(* Supervisor.ApplyMomentum with its pool part explicit (Sync.apply_momentum, guard = false: the code): a momentum is
   applied only if the pool holds a patch for every header of its content. Under the pool invariant this means: every
   block an adopted momentum lists passed verification (when it was delivered with it, or earlier on a state the chain
   still extends) - also the ones the sync loop never looks at (delivered BlockTypeContractSend blocks, headers
   without any delivered block). *)
Section Content.
  Variable bvalid : list smom -> list blk -> blk -> bool.
  Variable rest : list smom -> dmom -> bool.

  Inductive grown_listed : list smom -> list smom -> Prop :=
  | gl_refl c : grown_listed c c
  | gl_step c d c' : Forall (verified_on bvalid c) (d_content d) -> rest c d = true -> extends c (d_mom d) = true ->
                     grown_listed (c ++ [d_mom d]) c' -> grown_listed c c'.

  Lemma held_verified c p d : pool_verified bvalid c p -> content_held p d = true -> Forall (verified_on bvalid c) (d_content d).
  Proof.
    unfold content_held, pool_verified. intros PV H. rewrite forallb_forall in H. rewrite Forall_forall in *.
    intros h I. apply PV, pooled_in, H, I.
  Qed.

  Lemma grown_listed_of c c' : grown bvalid (apply_momentum false rest) c c' -> grown_listed c c'.
  Proof.
    induction 1 as [c|c d c' _ _ (p1 & PV & V) X _ IH]; [constructor|].
    unfold apply_momentum in V. cbn [orb] in V. apply andb_true_iff in V. destruct V as [Hh Hr].
    eapply gl_step; eauto. eapply held_verified; eauto.
  Qed.

  Theorem adopted_content_verified fixed c p ds r c' p' :
    pool_verified bvalid c p ->
    insert_chain bvalid (apply_momentum false rest) fixed true c p ds = (r, (c', p')) ->
    exists kept, is_prefix kept c /\ grown_listed kept c' /\ pool_verified bvalid c' p'.
  Proof.
    intros PV H. destruct (only_verified _ _ _ _ _ _ _ _ _ PV H) as (kept & KP & G & PV').
    exists kept. split; [exact KP|]. split; [apply grown_listed_of, G|exact PV'].
  Qed.
End Content.

(* a momentum on top of the frontier whose content lists block 77; the block is delivered as a bare contract send (the
   loop skips it: d_blocks = []), no contract receive carries it, nothing ever verified it *)
Definition none_b (_ : list smom) (_ : list blk) (_ : blk) : bool := false.
Definition all_r (_ : list smom) (_ : dmom) : bool := true.
Definition ex_listing : list dmom := [mkD (mkS 6 5 6) [] [b77]].

(* with the nil patch skipped the momentum is adopted: the node holds a momentum listing a block that never verified *)
Theorem unheld_header_skipped_refuted :
  exists bvalid rest c ds c' p',
    wf_chain c /\ pool_verified bvalid c [] /\
    insert_chain bvalid (apply_momentum true rest) true true c [] ds = (ICOk, (c', p')) /\
    exists d h, In d ds /\ In (d_mom d) c' /\ In h (d_content d) /\ forall c0 p0, bvalid c0 p0 h = false.
Proof.
  exists none_b, all_r, ex_local, ex_listing, (ex_local ++ [mkS 6 5 6]), [].
  split; [exact ex_local_wf|]. split; [constructor|]. split; [vm_compute; reflexivity|].
  exists (mkD (mkS 6 5 6) [] [b77]), b77. split; [cbn; auto|]. split; [cbn; auto 10|]. split; [cbn; auto|].
  reflexivity.
Qed.
(* the code: refused at index 0, nothing changes *)
Example unheld_header_example :
  insert_chain none_b (apply_momentum false all_r) true true ex_local [] ex_listing = (ICErr 0 EInvalid, (ex_local, [])).
Proof. vm_compute. reflexivity. Qed.
