(* Executable entry points compared with the implementation by ./check C04.
   c04_check: the facts the verifier reads for one receive candidate |-> verdict class of fromHash() + sequencer()
   c04_hist : a whole event history on a node (candidates with and without insertion, block replacement, momentums,
              rollbacks, restarts) |-> verdict class of every event, and at the end the receive sequence of every
              listed account and the confirmation-order inbox of every listed account *)
From ZV Require Import Prelude Ledger Mailbox.
Open Scope Z_scope.

(* (enforcement height, height of the frontier momentum) : the two numbers fromHash() compares *)
Definition c04_check_run (i : (Z * Z) * Z * Z * option Z * bool * option Z) : Z :=
  let '(reg, a, h, sendto, received, next) := i in recv_check (fst reg <=? snd reg) a h sendto received next.
Definition c04_check_eqb : Z -> Z -> bool := Z.eqb.

Definition c04_out := (list Z * list (list Z) * list (list Z))%type.
Definition c04_hist_run (i : Z * list event * list Z) : c04_out :=
  let '(enf, es, accts) := i in
  let '(codes, n) := run_codes enf genesis_node es in
  (codes, map (fun a => recvs_of a (blocks_of n)) accts, map (fun a => inbox_at a (chain n)) accts).
Definition c04_hist_eqb (a b : c04_out) : bool :=
  let '(c1, r1, i1) := a in let '(c2, r2, i2) := b in
  list_eqb Z.eqb c1 c2 && list_eqb (list_eqb Z.eqb) r1 r2 && list_eqb (list_eqb Z.eqb) i1 i2.
