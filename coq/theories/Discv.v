(* C15 — the LIVE discovery endpoint: what the node does with a datagram AFTER decodePacket accepted it.
   Mirrors p2p/discover/udp.go: expired, the handle methods of ping / pong / findnode / neighbors, the chunking loop of the
   findnode answer, nodeFromRPC on the BYTES of the peer-supplied address (net.IP is a byte string of any length: the
   std-lib predicates IsMulticast / IsUnspecified / To4 / Equal are modelled with every index and slice expression as an
   explicit bounds check), the reply callback of udp.findnode (nreceived) and the pending-reply queue of udp.loop
   (gotreply / timeout cases).
   The constants are compared with the implementation's on every run (tie dv_consts). *)
From ZV Require Import Prelude GoSem.
Open Scope Z_scope.

Definition dvVersion : Z := 4.
Definition dvBucketSize : Z := 16.
Definition dvMaxNeighbors : Z := 12.         (* computed by udp.go init: entries of maximal size below 1280 bytes *)
Definition dvMaxBondingPingPongs : Z := 16.
Definition dvRespTimeoutMs : Z := 500.
Definition dvPing : Z := 1.
Definition dvPong : Z := 2.
Definition dvFindnode : Z := 3.
Definition dvNeighbors : Z := 4.
Definition dv_consts : list Z := [dvVersion; dvBucketSize; dvMaxNeighbors; dvMaxBondingPingPongs; dvRespTimeoutMs; dvPing; dvPong; dvFindnode; dvNeighbors].

(* ---- expired(ts) = time.Unix(int64(ts), 0).Before(time.Now()): the conversion to int64, the internal seconds
   (Unix seconds + unixToInternal, int64 addition that wraps) and the comparison of seconds; `now` in Unix seconds,
   with a non-zero nanosecond part (so equal seconds are "before") *)
Definition unixToInternal : Z := 62135596800.
Definition expired (ts now : Z) : bool :=
  wrapS 64 (to_int64 ts + unixToInternal) <=? now + unixToInternal.

(* ---- the findnode answer: for i, n := range closest { p.Nodes = append(p.Nodes, n); if len(p.Nodes) == maxNeighbors ||
   i == len(closest)-1 { send; p.Nodes = p.Nodes[:0] } }.  Result: the number of entries of each datagram sent. *)
Fixpoint fn_loop (fuel : nat) (i c cur m : Z) (acc : list Z) : list Z :=
  match fuel with
  | O => rev acc
  | S k =>
      if i <? c then
        let cur' := cur + 1 in
        if (cur' =? m) || (i =? c - 1) then fn_loop k (i + 1) c 0 m (cur' :: acc)
        else fn_loop k (i + 1) c cur' m acc
      else rev acc
  end.
Definition findnode_answer (c m : Z) : list Z := fn_loop (Z.to_nat c) 0 c 0 m [].
Definition zsum (l : list Z) : Z := fold_right Z.add 0 l.

(* ---- the per-packet decision. kind: packet type; decodes: rlp decoding into the packet struct succeeded; ts: its
   expiration; version: ping only; known: the node database has a record of the sender (a bond exists); closest: number of
   table entries handed out by Table.closest(target, bucketSize).
   Result: (pongs sent, neighbors datagrams sent, entries in them) - everything the handler writes to the socket. *)
Definition disc_handle (kind : Z) (decodes : bool) (ts now version : Z) (known : bool) (closest : Z) : Z * Z * Z :=
  if negb decodes then (0, 0, 0)
  else if expired ts now then (0, 0, 0)
  else if kind =? dvPing then (if version =? dvVersion then (1, 0, 0) else (0, 0, 0))
  else if kind =? dvFindnode then
    (if known then let l := findnode_answer closest dvMaxNeighbors in (0, Z.of_nat (length l), zsum l) else (0, 0, 0))
  else (0, 0, 0).

(* does the packet start a bonding process (go t.bond(true, ...))? only a served ping that no waitping was waiting for *)
Definition disc_starts_bond (kind : Z) (decodes : bool) (ts now version : Z) (waited_for : bool) : bool :=
  decodes && negb (expired ts now) && (kind =? dvPing) && (version =? dvVersion) && negb waited_for.

(* a reply (pong, neighbors) is handed to a callback iff it decodes, is not expired and a pending entry of the same
   sender and type exists; the reply token of a pong is not compared *)
Definition disc_reply (decodes exp same_sender_pending : bool) : bool := decodes && negb exp && same_sender_pending.

(* ---- nodeFromRPC on the bytes of the address *)
Definition ip_len (ip : bytes) : Z := Z.of_nat (length ip).
Definition at_res (l : bytes) (i : nat) : res Z :=
  match nth_error l i with Some v => Ok v | None => Panic end.              (* l[i] *)
Definition slice_res (l : bytes) (a b : nat) : res bytes :=
  if (a <=? b)%nat && (b <=? length l)%nat then Ok (firstn (b - a) (skipn a l)) else Panic.   (* l[a:b] *)
Definition is_zeros (l : bytes) : bool := forallb (Z.eqb 0) l.
Definition v4InV6Prefix : bytes := [0;0;0;0;0;0;0;0;0;0;255;255].
Definition IPv4zero : bytes := v4InV6Prefix ++ [0;0;0;0].                   (* net.IPv4(0,0,0,0): the 16-byte form *)
Definition IPv6unspecified : bytes := repeat 0 16.

(* net.IP.To4 *)
Definition to4 (ip : bytes) : res (option bytes) :=
  if ip_len ip =? 4 then Ok (Some ip)
  else if ip_len ip =? 16 then
    bind (slice_res ip 0 10) (fun z =>
    if negb (is_zeros z) then Ok None else
    bind (at_res ip 10) (fun a =>
    if negb (a =? 255) then Ok None else
    bind (at_res ip 11) (fun b =>
    if negb (b =? 255) then Ok None else
    bind (slice_res ip 12 16) (fun s => Ok (Some s)))))
  else Ok None.

(* net.IP.IsMulticast *)
Definition is_multicast (ip : bytes) : res bool :=
  bind (to4 ip) (fun o =>
  match o with
  | Some ip4 => bind (at_res ip4 0) (fun b => Ok (Z.land b 240 =? 224))
  | None => if ip_len ip =? 16 then bind (at_res ip 0) (fun b => Ok (b =? 255)) else Ok false
  end).

(* net.IP.Equal *)
Definition ip_equal (ip x : bytes) : res bool :=
  if ip_len ip =? ip_len x then Ok (bytes_eqb ip x)
  else if (ip_len ip =? 4) && (ip_len x =? 16) then
    bind (slice_res x 0 12) (fun p => if negb (bytes_eqb p v4InV6Prefix) then Ok false else
    bind (slice_res x 12 (length x)) (fun t => Ok (bytes_eqb ip t)))
  else if (ip_len ip =? 16) && (ip_len x =? 4) then
    bind (slice_res ip 0 12) (fun p => if negb (bytes_eqb p v4InV6Prefix) then Ok false else
    bind (slice_res ip 12 (length ip)) (fun t => Ok (bytes_eqb t x)))
  else Ok false.

(* net.IP.IsUnspecified *)
Definition is_unspecified (ip : bytes) : res bool :=
  bind (ip_equal ip IPv4zero) (fun a => if a then Ok true else ip_equal ip IPv6unspecified).

(* nodeFromRPC: is the entry turned into a node (which the lookup then bonds with)? *)
Definition node_from_rpc (ip : bytes) (udp : Z) : res bool :=
  bind (is_multicast ip) (fun m => if m then Ok false else
  bind (is_unspecified ip) (fun u => if u then Ok false else Ok (negb (udp =? 0)))).

(* newNode: the address of the node = the 4-byte form when there is one *)
Definition node_ip (ip : bytes) : res bytes :=
  bind (to4 ip) (fun o => match o with Some v => Ok v | None => Ok ip end).

(* for the record: a test of the first byte without a length check (the shape of `ip[0]&0xfe == 0xfc`) *)
Definition first_byte_test (ip : bytes) : res bool := bind (at_res ip 0) (fun b => Ok (Z.land b 254 =? 252)).

(* ---- the reply callback of udp.findnode: replies = entry counts of the neighbors datagrams that reach the pending
   entry, in order. A datagram is handed to the callback while the entry is still pending, i.e. while fewer than
   bucketSize entries were received; result: per datagram, whether its entries were looked at. *)
Fixpoint collect (nrecv : Z) (replies : list Z) : list bool :=
  match replies with
  | [] => []
  | n :: r => if nrecv <? dvBucketSize then true :: collect (nrecv + n) r else false :: collect nrecv r
  end.
Definition findnode_collect (replies : list Z) : list bool := collect 0 replies.
Fixpoint looked_at (nrecv : Z) (replies : list Z) : Z :=
  match replies with
  | [] => 0
  | n :: r => if nrecv <? dvBucketSize then n + looked_at (nrecv + n) r else looked_at nrecv r
  end.

(* ---- the pending-reply queue of udp.loop *)
Record pend := mkPend { p_from : Z; p_type : Z; p_deadline : Z; p_nrecv : Z }.
(* the callback: ping / pong waiters are done with the first reply; the findnode waiter counts entries *)
Definition callback (p : pend) (n : Z) : pend * bool :=
  if p_type p =? dvNeighbors then
    let r := p_nrecv p + n in (mkPend (p_from p) (p_type p) (p_deadline p) r, dvBucketSize <=? r)
  else (p, true).
(* case r := <-t.gotreply *)
Fixpoint got_reply (q : list pend) (from ptype n : Z) : list pend * bool :=
  match q with
  | [] => ([], false)
  | p :: r =>
      let '(r', m) := got_reply r from ptype n in
      if (p_from p =? from) && (p_type p =? ptype) then
        let '(p', done) := callback p n in
        (if done then r' else p' :: r', true)
      else (p :: r', m)
  end.
(* case now := <-timeout.C: the entries at the head whose deadline is in the past *)
Fixpoint time_out (q : list pend) (now : Z) : list pend :=
  match q with
  | [] => []
  | p :: r => if p_deadline p <? now then time_out r now else q
  end.
