(* Proofs about the mailbox model: at-most-once, only the addressee, strict FIFO of contract inboxes (C04),
   across block replacement, reorganisation and restart. *)
From ZV Require Import Prelude Ledger LedgerProofs Mailbox.
Open Scope Z_scope.
Ltac Zify.zify_post_hook ::= Z.div_mod_to_equations.

(* ================================================================ prefixes *)
Definition prefix {A} (l1 l2 : list A) : Prop := exists r, l2 = l1 ++ r.

Lemma prefix_refl {A} (l : list A) : prefix l l.
Proof. exists []. symmetry; apply app_nil_r. Qed.
Lemma prefix_trans {A} (a b c : list A) : prefix a b -> prefix b c -> prefix a c.
Proof. intros [r1 ->] [r2 ->]. exists (r1 ++ r2). symmetry; apply app_assoc. Qed.
Lemma prefix_app_r {A} (a b : list A) : prefix a (a ++ b).
Proof. exists b; reflexivity. Qed.
Lemma prefix_app {A} (a b c : list A) : prefix b c -> prefix (a ++ b) (a ++ c).
Proof. intros [r ->]. exists r. apply app_assoc. Qed.
Lemma prefix_nodup {A} (a b : list A) : prefix a b -> NoDup b -> NoDup a.
Proof. intros [r ->] H. eapply NoDup_app_remove_r; eauto. Qed.
Lemma prefix_firstn {A} (a b : list A) : prefix a b -> a = firstn (length a) b.
Proof.
  intros [r ->]. rewrite firstn_app, Nat.sub_diag, firstn_all. cbn [firstn]. symmetry; apply app_nil_r.
Qed.
Lemma prefix_length {A} (a b : list A) : prefix a b -> (length a <= length b)%nat.
Proof. intros [r ->]. rewrite app_length. lia. Qed.
Lemma prefix_nth {A} (a b : list A) i x : prefix a b -> nth_error a i = Some x -> nth_error b i = Some x.
Proof.
  intros [r ->] H. rewrite nth_error_app1; [exact H|]. apply nth_error_Some. congruence.
Qed.
(* a duplicate-free prefix of q ++ x whose elements all lie in q is a prefix of q *)
Lemma prefix_cut {A} (p q x : list A) :
  prefix p (q ++ x) -> incl p q -> NoDup (q ++ x) -> prefix p q.
Proof.
  revert q. induction p as [|a p IH]; intros q [r E] I N.
  - exists q; reflexivity.
  - destruct q as [|b q].
    + exfalso. apply (I a). left; reflexivity.
    + cbn [app] in E. inversion E; subst b. cbn [app] in N. inversion N as [|? ? Hn Hr]; subst.
      destruct (IH q) as [r' Hr'].
      * exists r. assumption.
      * intros y Hy. destruct (I y (or_intror Hy)) as [X|X]; [|exact X].
        subst y. exfalso. apply Hn. rewrite H1. apply in_or_app. left. exact Hy.
      * exact Hr.
      * exists r'. cbn [app]. f_equal. exact Hr'.
Qed.

(* ================================================================ structure of the observables *)
Lemma sends_of_app l1 l2 : sends_of (l1 ++ l2) = sends_of l1 ++ sends_of l2.
Proof. unfold sends_of. apply flat_map_app. Qed.
Lemma conf_sends_app c1 c2 : conf_sends (c1 ++ c2) = conf_sends c1 ++ conf_sends c2.
Proof. unfold conf_sends. rewrite concat_app. apply sends_of_app. Qed.
Lemma conf_sends_snoc c m : conf_sends (c ++ [m]) = conf_sends c ++ sends_of m.
Proof. rewrite conf_sends_app. unfold conf_sends at 2. cbn [concat]. rewrite app_nil_r. reflexivity. Qed.

Lemma find_csend_app h l1 l2 x : find_csend h l1 = Some x -> find_csend h (l1 ++ l2) = Some x.
Proof.
  induction l1 as [|[[h' f] t] r IH]; cbn [find_csend app]; [discriminate|].
  destruct (h' =? h); [auto | exact IH].
Qed.
Lemma find_csend_to h l f t : find_csend h l = Some (f, t) -> In h (to_hashes t l).
Proof.
  induction l as [|[[h' f'] t'] r IH]; cbn [find_csend to_hashes]; [discriminate|].
  destruct (h' =? h) eqn:E.
  - intros X; inversion X; subst. rewrite Z.eqb_refl. left. apply Z.eqb_eq; exact E.
  - intros X. specialize (IH X). destruct (t' =? t); [right|]; exact IH.
Qed.

Lemma to_hashes_app c l1 l2 : to_hashes c (l1 ++ l2) = to_hashes c l1 ++ to_hashes c l2.
Proof.
  induction l1 as [|[[h f] t] r IH]; cbn [to_hashes app]; [reflexivity|].
  destruct (t =? c); [cbn [app]; f_equal|]; exact IH.
Qed.
Lemma to_hashes_incl c l : incl (to_hashes c l) (map (fun s : hash * addr * addr => fst (fst s)) l).
Proof.
  induction l as [|[[h f] t] r IH]; cbn [to_hashes map fst]; [intros x []|].
  destruct (t =? c); intros x Hx.
  - destruct Hx as [->|Hx]; [left; reflexivity | right; apply IH; exact Hx].
  - right; apply IH; exact Hx.
Qed.
Lemma to_hashes_nodup c l : NoDup (map (fun s : hash * addr * addr => fst (fst s)) l) -> NoDup (to_hashes c l).
Proof.
  induction l as [|[[h f] t] r IH]; cbn [to_hashes map fst]; [constructor|].
  intros H; inversion H as [|? ? Hn Hr]; subst. destruct (t =? c); [|auto].
  constructor; [|auto]. intros X. apply Hn. apply (to_hashes_incl c r). exact X.
Qed.
Lemma inbox_at_app c v w : inbox_at c (v ++ w) = inbox_at c v ++ inbox_at c w.
Proof. unfold inbox_at. rewrite conf_sends_app. apply to_hashes_app. Qed.

Lemma recvs_of_app a l1 l2 : recvs_of a (l1 ++ l2) = recvs_of a l1 ++ recvs_of a l2.
Proof.
  induction l1 as [|b r IH]; cbn [recvs_of app]; [reflexivity|].
  destruct (b_kind b); [exact IH|]. destruct (b_addr b =? a); [cbn [app]; f_equal|]; exact IH.
Qed.
Lemma recvs_of_absent a l : (forall b, In b l -> b_addr b <> a) -> recvs_of a l = [].
Proof.
  induction l as [|b r IH]; cbn [recvs_of]; [reflexivity|]. intros H.
  assert (b_addr b =? a = false) as E by (apply Z.eqb_neq; apply H; left; reflexivity).
  rewrite E. destruct (b_kind b); apply IH; intros x Hx; apply H; right; exact Hx.
Qed.
Lemma recvs_of_in a h l : In h (recvs_of a l) -> exists b, In b l /\ b_kind b = BRecv h /\ b_addr b = a.
Proof.
  induction l as [|b r IH]; cbn [recvs_of]; [intros []|].
  destruct (b_kind b) eqn:K.
  - intros X. destruct (IH X) as [x [A B]]. exists x. split; [right; exact A | exact B].
  - destruct (b_addr b =? a) eqn:E.
    + intros [X|X].
      * subst. exists b. split; [left; reflexivity|]. split; [exact K | apply Z.eqb_eq; exact E].
      * destruct (IH X) as [x [A B]]. exists x. split; [right; exact A | exact B].
    + intros X. destruct (IH X) as [x [A B]]. exists x. split; [right; exact A | exact B].
Qed.

Lemma mem_hash_in h l : mem_hash h l = true <-> In h l.
Proof.
  unfold mem_hash. rewrite existsb_exists. split.
  - intros [x [Hx E]]. apply Z.eqb_eq in E; subst; exact Hx.
  - intros H. exists h. split; [exact H | apply Z.eqb_refl].
Qed.
Lemma nodup_b_sound l : nodup_b l = true -> NoDup l.
Proof.
  induction l as [|h r IH]; cbn [nodup_b]; [constructor|].
  rewrite andb_true_iff, negb_true_iff. intros [A B]. constructor; [|auto].
  intros X. apply mem_hash_in in X. congruence.
Qed.
Lemma hashes_eqb_eq a b : hashes_eqb a b = true -> a = b.
Proof. apply list_eqb_spec. intros; apply Z.eqb_eq. Qed.

(* keep_first only drops blocks of account a, from the end of a's blocks *)
Lemma keep_first_in m a l b : In b (keep_first m a l) -> In b l.
Proof.
  revert m. induction l as [|x r IH]; intros m; cbn [keep_first]; [intros []|].
  destruct (b_addr x =? a).
  - destruct m; [intros H; right; eapply IH; exact H | intros [H|H]; [left; exact H | right; eapply IH; exact H]].
  - intros [H|H]; [left; exact H | right; eapply IH; exact H].
Qed.
Lemma keep_first_recvs_other m a a' l : a' <> a -> recvs_of a' (keep_first m a l) = recvs_of a' l.
Proof.
  intros N. revert m. induction l as [|x r IH]; intros m; cbn [keep_first recvs_of]; [reflexivity|].
  destruct (b_addr x =? a) eqn:E.
  - apply Z.eqb_eq in E. assert (b_addr x =? a' = false) as E' by (apply Z.eqb_neq; congruence).
    destruct m; cbn [recvs_of]; rewrite ?E'; destruct (b_kind x); apply IH.
  - cbn [recvs_of]. destruct (b_kind x); [apply IH|]. destruct (b_addr x =? a'); [f_equal|]; apply IH.
Qed.
Lemma keep_first_recvs_same m a l : prefix (recvs_of a (keep_first m a l)) (recvs_of a l).
Proof.
  revert m. induction l as [|x r IH]; intros m; cbn [keep_first recvs_of]; [apply prefix_refl|].
  destruct (b_addr x =? a) eqn:E.
  - destruct m.
    + eapply prefix_trans; [apply (IH O)|]. destruct (b_kind x); [apply prefix_refl|].
      exists []. symmetry; apply app_nil_r || idtac. 
      destruct (IH O) as [q Hq]. clear. exists []; rewrite app_nil_r; reflexivity.
    + cbn [recvs_of]. rewrite E. destruct (b_kind x); [apply IH|].
      destruct (IH m) as [q Hq]. exists q. cbn [app]. f_equal. exact Hq.
  - cbn [recvs_of]. rewrite E. destruct (b_kind x); apply IH.
Qed.
