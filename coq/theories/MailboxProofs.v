(* Proofs about the mailbox model: at-most-once, only the addressee, strict FIFO of contract inboxes (C04),
   across block replacement, reorganisation and restart. *)
From ZV Require Import Prelude Ledger LedgerProofs Mailbox.
Open Scope Z_scope.
Ltac Zify.zify_post_hook ::= Z.div_mod_to_equations.

(* ================================================================ prefixes *)
Definition prefix {A} (l1 l2 : list A) : Prop := exists r, l2 = l1 ++ r.

Lemma prefix_refl {A} (l : list A) : prefix l l.
Proof. exists []. symmetry; apply app_nil_r. Qed.
Lemma prefix_trans {A} (a b c : list A) : prefix a b -> prefix b c -> prefix a c.
Proof. intros [r1 ->] [r2 ->]. exists (r1 ++ r2). symmetry; apply app_assoc. Qed.
Lemma prefix_app_r {A} (a b : list A) : prefix a (a ++ b).
Proof. exists b; reflexivity. Qed.
Lemma prefix_app {A} (a b c : list A) : prefix b c -> prefix (a ++ b) (a ++ c).
Proof. intros [r ->]. exists r. apply app_assoc. Qed.
Lemma NoDup_app_l {A} (a r : list A) : NoDup (a ++ r) -> NoDup a.
Proof.
  induction a as [|x a IH]; cbn [app]; intros H; [constructor|].
  inversion H as [|? ? Hn Hr]; subst. constructor; [|auto].
  intros X. apply Hn. apply in_or_app. left; exact X.
Qed.
Lemma prefix_nodup {A} (a b : list A) : prefix a b -> NoDup b -> NoDup a.
Proof. intros [r ->] H. eapply NoDup_app_l; eauto. Qed.
Lemma prefix_firstn {A} (a b : list A) : prefix a b -> a = firstn (length a) b.
Proof.
  intros [r ->]. rewrite firstn_app, Nat.sub_diag, firstn_all. cbn [firstn]. symmetry; apply app_nil_r.
Qed.
Lemma prefix_length {A} (a b : list A) : prefix a b -> (length a <= length b)%nat.
Proof. intros [r ->]. rewrite app_length. lia. Qed.
Lemma prefix_nth {A} (a b : list A) i x : prefix a b -> nth_error a i = Some x -> nth_error b i = Some x.
Proof.
  intros [r ->] H. rewrite nth_error_app1; [exact H|]. apply nth_error_Some. congruence.
Qed.
(* a duplicate-free prefix of q ++ x whose elements all lie in q is a prefix of q *)
Lemma prefix_cut {A} (p q x : list A) :
  prefix p (q ++ x) -> incl p q -> NoDup (q ++ x) -> prefix p q.
Proof.
  revert q. induction p as [|a p IH]; intros q [r E] I N.
  - exists q; reflexivity.
  - destruct q as [|b q].
    + exfalso. apply (I a). left; reflexivity.
    + cbn [app] in E. inversion E; subst b. cbn [app] in N. inversion N as [|? ? Hn Hr]; subst.
      destruct (IH q) as [r' Hr'].
      * exists r. assumption.
      * intros y Hy. destruct (I y (or_intror Hy)) as [X|X]; [|exact X].
        subst y. exfalso. apply Hn. rewrite H1. apply in_or_app. left. exact Hy.
      * exact Hr.
      * exists r'. cbn [app]. f_equal. exact Hr'.
Qed.

(* ================================================================ structure of the observables *)
Lemma sends_of_app l1 l2 : sends_of (l1 ++ l2) = sends_of l1 ++ sends_of l2.
Proof. unfold sends_of. apply flat_map_app. Qed.
Lemma conf_sends_app c1 c2 : conf_sends (c1 ++ c2) = conf_sends c1 ++ conf_sends c2.
Proof. unfold conf_sends. rewrite concat_app. apply sends_of_app. Qed.
Lemma conf_sends_snoc c m : conf_sends (c ++ [m]) = conf_sends c ++ sends_of m.
Proof. rewrite conf_sends_app. unfold conf_sends at 2. cbn [concat]. rewrite app_nil_r. reflexivity. Qed.

Lemma find_csend_app h l1 l2 x : find_csend h l1 = Some x -> find_csend h (l1 ++ l2) = Some x.
Proof.
  induction l1 as [|[[h' f] t] r IH]; cbn [find_csend app]; [discriminate|].
  destruct (h' =? h); [auto | exact IH].
Qed.
Lemma find_csend_to h l f t : find_csend h l = Some (f, t) -> In h (to_hashes t l).
Proof.
  induction l as [|[[h' f'] t'] r IH]; cbn [find_csend to_hashes]; [discriminate|].
  destruct (h' =? h) eqn:E.
  - intros X; inversion X; subst. rewrite Z.eqb_refl. left. apply Z.eqb_eq; exact E.
  - intros X. specialize (IH X). destruct (t' =? t); [right|]; exact IH.
Qed.

Lemma to_hashes_app c l1 l2 : to_hashes c (l1 ++ l2) = to_hashes c l1 ++ to_hashes c l2.
Proof.
  induction l1 as [|[[h f] t] r IH]; cbn [to_hashes app]; [reflexivity|].
  destruct (t =? c); [cbn [app]; f_equal|]; exact IH.
Qed.
Lemma to_hashes_incl c l : incl (to_hashes c l) (map (fun s : hash * addr * addr => fst (fst s)) l).
Proof.
  induction l as [|[[h f] t] r IH]; cbn [to_hashes map fst]; [intros x []|].
  destruct (t =? c); intros x Hx.
  - destruct Hx as [->|Hx]; [left; reflexivity | right; apply IH; exact Hx].
  - right; apply IH; exact Hx.
Qed.
Lemma to_hashes_nodup c l : NoDup (map (fun s : hash * addr * addr => fst (fst s)) l) -> NoDup (to_hashes c l).
Proof.
  induction l as [|[[h f] t] r IH]; cbn [to_hashes map fst]; [constructor|].
  intros H; inversion H as [|? ? Hn Hr]; subst. destruct (t =? c); [|auto].
  constructor; [|auto]. intros X. apply Hn. apply (to_hashes_incl c r). exact X.
Qed.
(* with unique send ids, an entry of the mailbox of c is a confirmed send addressed to c *)
Lemma to_hashes_find a h l :
  NoDup (map (fun s : hash * addr * addr => fst (fst s)) l) -> In h (to_hashes a l) -> exists f, find_csend h l = Some (f, a).
Proof.
  induction l as [|[[h' f'] t'] r IH]; cbn [to_hashes find_csend map fst]; [intros _ []|].
  intros ND H. inversion ND as [|? ? Hn Hr]; subst.
  destruct (h' =? h) eqn:E.
  - apply Z.eqb_eq in E; subst h'. destruct (t' =? a) eqn:T.
    + apply Z.eqb_eq in T; subst. eexists; reflexivity.
    + exfalso. apply Hn. apply (to_hashes_incl a r). exact H.
  - destruct (t' =? a) eqn:T.
    + destruct H as [H|H]; [apply Z.eqb_neq in E; congruence | apply IH; assumption].
    + apply IH; assumption.
Qed.
Lemma inbox_at_app c v w : inbox_at c (v ++ w) = inbox_at c v ++ inbox_at c w.
Proof. unfold inbox_at. rewrite conf_sends_app. apply to_hashes_app. Qed.

Lemma recvs_of_app a l1 l2 : recvs_of a (l1 ++ l2) = recvs_of a l1 ++ recvs_of a l2.
Proof.
  induction l1 as [|b r IH]; cbn [recvs_of app]; [reflexivity|].
  destruct (b_kind b); [exact IH|]. destruct (b_addr b =? a); [cbn [app]; f_equal|]; exact IH.
Qed.
Lemma recvs_of_absent a l : (forall b, In b l -> b_addr b <> a) -> recvs_of a l = [].
Proof.
  induction l as [|b r IH]; cbn [recvs_of]; [reflexivity|]. intros H.
  assert (b_addr b =? a = false) as E by (apply Z.eqb_neq; apply H; left; reflexivity).
  rewrite E. destruct (b_kind b); apply IH; intros x Hx; apply H; right; exact Hx.
Qed.
Lemma recvs_of_in a h l : In h (recvs_of a l) -> exists b, In b l /\ b_kind b = BRecv h /\ b_addr b = a.
Proof.
  induction l as [|b r IH]; cbn [recvs_of]; [intros []|].
  destruct (b_kind b) eqn:K.
  - intros X. destruct (IH X) as [x [A B]]. exists x. split; [right; exact A | exact B].
  - destruct (b_addr b =? a) eqn:E.
    + intros [X|X].
      * subst. exists b. split; [left; reflexivity|]. split; [exact K | apply Z.eqb_eq; exact E].
      * destruct (IH X) as [x [A B]]. exists x. split; [right; exact A | exact B].
    + intros X. destruct (IH X) as [x [A B]]. exists x. split; [right; exact A | exact B].
Qed.

Lemma mem_hash_in h l : mem_hash h l = true <-> In h l.
Proof.
  unfold mem_hash. rewrite existsb_exists. split.
  - intros [x [Hx E]]. apply Z.eqb_eq in E; subst; exact Hx.
  - intros H. exists h. split; [exact H | apply Z.eqb_refl].
Qed.
Lemma nodup_b_sound l : nodup_b l = true -> NoDup l.
Proof.
  induction l as [|h r IH]; cbn [nodup_b]; [constructor|].
  rewrite andb_true_iff, negb_true_iff. intros [A B]. constructor; [|auto].
  intros X. apply mem_hash_in in X. congruence.
Qed.
Lemma hashes_eqb_eq a b : hashes_eqb a b = true -> a = b.
Proof. apply list_eqb_spec. intros; apply Z.eqb_eq. Qed.

(* keep_first only drops blocks of account a, from the end of a's blocks *)
Lemma keep_first_in m a l b : In b (keep_first m a l) -> In b l.
Proof.
  revert m. induction l as [|x r IH]; intros m; cbn [keep_first]; [intros []|].
  destruct (b_addr x =? a).
  - destruct m; [intros H; right; eapply IH; exact H | intros [H|H]; [left; exact H | right; eapply IH; exact H]].
  - intros [H|H]; [left; exact H | right; eapply IH; exact H].
Qed.
Lemma keep_first_recvs_other m a a' l : a' <> a -> recvs_of a' (keep_first m a l) = recvs_of a' l.
Proof.
  intros N. revert m. induction l as [|x r IH]; intros m; cbn [keep_first recvs_of]; [reflexivity|].
  destruct (b_addr x =? a) eqn:E.
  - apply Z.eqb_eq in E. assert (b_addr x =? a' = false) as E' by (apply Z.eqb_neq; congruence).
    destruct m; cbn [recvs_of]; rewrite ?E'; destruct (b_kind x); apply IH.
  - cbn [recvs_of]. destruct (b_kind x); [apply IH|]. destruct (b_addr x =? a'); [f_equal|]; apply IH.
Qed.
Lemma keep_first_zero a l : recvs_of a (keep_first O a l) = [].
Proof.
  induction l as [|x r IH]; cbn [keep_first recvs_of]; [reflexivity|].
  destruct (b_addr x =? a) eqn:E; [exact IH|]. cbn [recvs_of]. rewrite E. destruct (b_kind x); exact IH.
Qed.
Lemma keep_first_recvs_same m a l : prefix (recvs_of a (keep_first m a l)) (recvs_of a l).
Proof.
  revert m. induction l as [|x r IH]; intros m; cbn [keep_first recvs_of]; [apply prefix_refl|].
  destruct (b_addr x =? a) eqn:E.
  - destruct m.
    + rewrite keep_first_zero. eexists; reflexivity.
    + cbn [recvs_of]. rewrite E. destruct (b_kind x); [apply IH|].
      destruct (IH m) as [q Hq]. exists q. cbn [app]. f_equal. exact Hq.
  - cbn [recvs_of]. rewrite E. destruct (b_kind x); apply IH.
Qed.

(* ================================================================ the invariant *)
(* the send a receive block refers to is confirmed in the given chain prefix and addressed to the receiver, or the
   receiver is a user account and the block acknowledges a momentum below the enforcement height E (it was verified
   while the frontier was below E: legacy regime) *)
Definition recv_ok (E : Z) (view : list (list blk)) (b : blk) : Prop :=
  match b_kind b with
  | BSend _ => True
  | BRecv h => exists from to, find_csend h (conf_sends view) = Some (from, to) /\
                 (to = b_addr b \/ (is_emb (b_addr b) = false /\ 1 <= b_ma b < E))
  end.

Record WFN (E : Z) (n : node) : Prop := mkWFN {
  wn_chain : forall i m b, nth_error (chain n) i = Some m -> In b m -> recv_ok E (firstn i (chain n)) b;
  wn_pool : forall b, In b (pool n) -> recv_ok E (chain n) b;
  wn_nodup : forall a, NoDup (recvs_of a (blocks_of n));
  wn_fifo : forall c, is_emb c = true -> prefix (recvs_of c (blocks_of n)) (inbox_at c (chain n));
  wn_sends : NoDup (map (fun s : hash * addr * addr => fst (fst s)) (conf_sends (chain n)))
}.

Lemma recv_ok_app E v w b : recv_ok E v b -> recv_ok E (v ++ w) b.
Proof.
  unfold recv_ok. destruct (b_kind b); [auto|]. intros [f [t [H X]]]. exists f, t. split; [|exact X].
  rewrite conf_sends_app. apply find_csend_app. exact H.
Qed.
Lemma recv_ok_firstn E i c b : recv_ok E (firstn i c) b -> recv_ok E c b.
Proof. intros H. rewrite <- (firstn_skipn i c). apply recv_ok_app. exact H. Qed.

Lemma inbox_nodup E c n : WFN E n -> NoDup (inbox_at c (chain n)).
Proof. intros W. apply to_hashes_nodup. apply (wn_sends _ _ W). Qed.

Lemma WFN_genesis E : WFN E genesis_node.
Proof.
  constructor; unfold genesis_node, blocks_of; cbn [chain pool concat app].
  - intros [|[|i]] m b H; cbn in H; try discriminate. inversion H; subst. intros [].
  - intros b [].
  - intros a. constructor.
  - intros c _. exists (inbox_at c [[]]). reflexivity.
  - cbn. constructor.
Qed.

(* dropping the unconfirmed tail of one account *)
Lemma WFN_keep_first E n m a : WFN E n -> WFN E (mkNode (chain n) (keep_first m a (pool n))).
Proof.
  intros W. pose proof W as W0. destruct W. constructor; unfold blocks_of in *; cbn [chain pool] in *.
  - exact wn_chain0.
  - intros b H. apply wn_pool0. eapply keep_first_in; exact H.
  - intros x. specialize (wn_nodup0 x). rewrite recvs_of_app in *.
    destruct (Z.eq_dec x a) as [->|N].
    + eapply prefix_nodup; [|exact wn_nodup0]. apply prefix_app. apply keep_first_recvs_same.
    + rewrite keep_first_recvs_other by exact N. exact wn_nodup0.
  - intros c Hc. specialize (wn_fifo0 c Hc). rewrite recvs_of_app in *.
    destruct (Z.eq_dec c a) as [->|N].
    + eapply prefix_trans; [|exact wn_fifo0]. apply prefix_app. apply keep_first_recvs_same.
    + rewrite keep_first_recvs_other by exact N. exact wn_fifo0.
  - exact wn_sends0.
Qed.

Lemma recvs_of_snoc a l b :
  recvs_of a (l ++ [b]) = recvs_of a l ++
    match b_kind b with BRecv h => if b_addr b =? a then [h] else [] | BSend _ => [] end.
Proof. rewrite recvs_of_app. cbn [recvs_of]. destruct (b_kind b); [reflexivity|]. destruct (b_addr b =? a); reflexivity. Qed.

(* a verified block on top of the pool *)
Lemma WFN_add E n b : WFN E n -> check_blk E n b = 0 -> WFN E (mkNode (chain n) (pool n ++ [b])).
Proof.
  intros W C. pose proof W as W0. destruct W.
  unfold check_blk in C.
  destruct ((b_ma b <? 1) || (Z.of_nat (length (chain n)) <? b_ma b)) eqn:EM; [unfold E_MA_MISSING in C; discriminate|].
  set (view := firstn (Z.to_nat (b_ma b)) (chain n)) in *.
  assert (BL : blocks_of (mkNode (chain n) (pool n ++ [b])) = blocks_of n ++ [b])
    by (unfold blocks_of; cbn [chain pool]; apply app_assoc).
  destruct (b_kind b) as [to|h] eqn:K.
  - (* a send block: no receive sequence changes *)
    constructor; cbn [chain pool]; try rewrite BL; auto.
    + intros x Hx. apply in_app_iff in Hx. destruct Hx as [Hx|[<-|[]]]; [auto|]. unfold recv_ok. rewrite K. exact I.
    + intros a. rewrite recvs_of_snoc, K, app_nil_r. apply wn_nodup0.
    + intros c Hc. rewrite recvs_of_snoc, K, app_nil_r. apply wn_fifo0; exact Hc.
  - set (a := b_addr b) in *. set (mine := recvs_of a (blocks_of n)) in *.
    unfold recv_check in C.
    destruct (find_csend h (conf_sends view)) as [[from to]|] eqn:F; [|unfold E_FROM_MISSING in C; discriminate].
    destruct (enforced E n && negb (to =? a)) eqn:MM; [unfold E_MISMATCH in C; discriminate|].
    assert (Fc : find_csend h (conf_sends (chain n)) = Some (from, to)).
    { rewrite <- (firstn_skipn (Z.to_nat (b_ma b)) (chain n)). rewrite conf_sends_app. apply find_csend_app. exact F. }
    (* the addressee, or a user account verified below the enforcement height *)
    assert (TO : to = a \/ (is_emb a = false /\ 1 <= b_ma b < E)).
    { destruct (to =? a) eqn:T; [left; apply Z.eqb_eq; exact T|]. cbn [negb] in MM. rewrite andb_true_r in MM.
      destruct (is_emb a) eqn:Ea.
      - exfalso. (* a contract takes the next entry of its own mailbox, which is addressed to it *)
        destruct (nth_error (inbox_at a view) (length mine)) as [h'|] eqn:Q; [|unfold E_SEQ_NOTHING in C; discriminate].
        destruct (h' =? h) eqn:E1; [|unfold E_SEQ_NOT_NEXT in C; discriminate]. apply Z.eqb_eq in E1; subst h'.
        apply nth_error_In in Q. unfold inbox_at in Q.
        assert (NDv : NoDup (map (fun s : hash * addr * addr => fst (fst s)) (conf_sends view))).
        { pose proof wn_sends0 as ND. rewrite <- (firstn_skipn (Z.to_nat (b_ma b)) (chain n)) in ND.
          rewrite conf_sends_app, map_app in ND. eapply NoDup_app_l; exact ND. }
        destruct (to_hashes_find a h _ NDv Q) as [f' F']. rewrite F in F'. inversion F'; subst.
        rewrite Z.eqb_refl in T. discriminate.
      - right. split; [reflexivity|]. unfold enforced in MM. apply Z.leb_gt in MM.
        apply orb_false_iff in EM. destruct EM as [M1 M2]. apply Z.ltb_ge in M1, M2. lia. }
    assert (NEW : ~ In h mine).
    { destruct (is_emb a) eqn:Ea.
      - destruct (nth_error (inbox_at a view) (length mine)) as [h'|] eqn:Q; [|unfold E_SEQ_NOTHING in C; discriminate].
        destruct (h' =? h) eqn:E2; [|unfold E_SEQ_NOT_NEXT in C; discriminate]. apply Z.eqb_eq in E2; subst h'.
        assert (Q' : nth_error (inbox_at a (chain n)) (length mine) = Some h).
        { eapply prefix_nth; [|exact Q]. rewrite <- (firstn_skipn (Z.to_nat (b_ma b)) (chain n)).
          rewrite inbox_at_app. apply prefix_app_r. }
        assert (EQ : mine = firstn (length mine) (inbox_at a (chain n))) by (apply prefix_firstn; apply wn_fifo0; exact Ea).
        rewrite EQ. apply NoDup_nth_not_firstn; [apply (inbox_nodup E); exact W0 | exact Q'].
      - destruct (mem_hash h mine) eqn:M; [unfold E_ALREADY in C; discriminate|].
        intros X. apply mem_hash_in in X. congruence. }
    constructor; cbn [chain pool]; try rewrite BL; auto.
    + intros x Hx. apply in_app_iff in Hx. destruct Hx as [Hx|[<-|[]]]; [auto|].
      unfold recv_ok. rewrite K. exists from, to. split; [exact Fc | exact TO].
    + intros x. rewrite recvs_of_snoc, K. fold a. destruct (a =? x) eqn:E2.
      * apply Z.eqb_eq in E2; subst x. apply NoDup_app_snoc; [apply wn_nodup0 | exact NEW].
      * rewrite app_nil_r. apply wn_nodup0.
    + intros c Hc. rewrite recvs_of_snoc, K. fold a. destruct (a =? c) eqn:E2.
      * apply Z.eqb_eq in E2; subst c. rewrite Hc in C.
        destruct (nth_error (inbox_at a view) (length mine)) as [h'|] eqn:Q; [|unfold E_SEQ_NOTHING in C; discriminate].
        destruct (h' =? h) eqn:E3; [|unfold E_SEQ_NOT_NEXT in C; discriminate]. apply Z.eqb_eq in E3; subst h'.
        assert (Q' : nth_error (inbox_at a (chain n)) (length mine) = Some h).
        { eapply prefix_nth; [|exact Q]. rewrite <- (firstn_skipn (Z.to_nat (b_ma b)) (chain n)).
          rewrite inbox_at_app. apply prefix_app_r. }
        fold mine.
        assert (EQ : mine = firstn (length mine) (inbox_at a (chain n))) by (apply prefix_firstn; apply wn_fifo0; exact Hc).
        rewrite EQ at 1. rewrite <- (firstn_snoc_nth _ _ _ Q').
        rewrite <- (firstn_skipn (S (length mine)) (inbox_at a (chain n))) at 2. apply prefix_app_r.
      * rewrite app_nil_r. apply wn_fifo0; exact Hc.
Qed.

(* ================================================================ momentum *)
Lemma find_blk_in h l b : find_blk h l = Some b -> In b l.
Proof.
  induction l as [|x r IH]; cbn [find_blk]; [discriminate|].
  destruct (b_hash x =? h); [intros X; inversion X; left; reflexivity | right; auto].
Qed.
Lemma pick_in sel l : forall mom, pick sel l = Some mom -> forall b, In b mom -> In b l.
Proof.
  induction sel as [|h r IH]; cbn [pick]; intros mom H b Hb.
  - inversion H; subst. destruct Hb.
  - destruct (find_blk h l) as [x|] eqn:F; [|discriminate]. destruct (pick r l) as [bs|]; [|discriminate].
    inversion H; subst. destruct Hb as [<-|Hb]; [eapply find_blk_in; eauto | eapply IH; eauto].
Qed.

Lemma momentum_recvs n mom rest a :
  (forall b, In b mom -> In b (pool n)) -> (forall b, In b rest -> In b (pool n)) ->
  momentum_ok n mom rest = true ->
  recvs_of a mom ++ recvs_of a rest = recvs_of a (pool n).
Proof.
  intros Hm Hr OK. unfold momentum_ok in OK. apply andb_true_iff in OK. destruct OK as [OK _].
  rewrite forallb_forall in OK.
  destruct (existsb (fun b => b_addr b =? a) (pool n)) eqn:EX.
  - apply existsb_exists in EX. destruct EX as [b [Hb E]]. apply Z.eqb_eq in E.
    specialize (OK b Hb). rewrite E in OK. apply andb_true_iff in OK. destruct OK as [_ OK].
    apply hashes_eqb_eq. exact OK.
  - assert (A : forall b, In b (pool n) -> b_addr b <> a).
    { intros b Hb E. assert (existsb (fun b => b_addr b =? a) (pool n) = true); [|congruence].
      apply existsb_exists. exists b. split; [exact Hb | apply Z.eqb_eq; exact E]. }
    rewrite !recvs_of_absent; auto.
Qed.

Lemma nth_error_snoc {A} (l : list A) x i y :
  nth_error (l ++ [x]) i = Some y -> (nth_error l i = Some y /\ (i < length l)%nat) \/ (i = length l /\ y = x).
Proof.
  intros H. destruct (Nat.lt_ge_cases i (length l)) as [L|G].
  - left. rewrite nth_error_app1 in H by exact L. auto.
  - right. rewrite nth_error_app2 in H by exact G. destruct (i - length l)%nat as [|k] eqn:E.
    + cbn in H. inversion H. split; [lia | reflexivity].
    + cbn in H. destruct k; discriminate.
Qed.

Lemma WFN_momentum E n sel mom :
  WFN E n -> pick sel (pool n) = Some mom ->
  let rest := filter (fun b => negb (mem_hash (b_hash b) sel)) (pool n) in
  momentum_ok n mom rest = true -> WFN E (mkNode (chain n ++ [mom]) rest).
Proof.
  intros W P rest OK. pose proof W as W0. destruct W.
  assert (Hm : forall b, In b mom -> In b (pool n)) by (eapply pick_in; eauto).
  assert (Hr : forall b, In b rest -> In b (pool n)) by (intros b Hb; apply filter_In in Hb; tauto).
  assert (RE : forall a, recvs_of a (blocks_of (mkNode (chain n ++ [mom]) rest)) = recvs_of a (blocks_of n)).
  { intros a. unfold blocks_of; cbn [chain pool]. rewrite concat_app. cbn [concat]. rewrite app_nil_r.
    rewrite !recvs_of_app, <- app_assoc. f_equal. eapply momentum_recvs; eauto. }
  constructor; cbn [chain pool].
  - intros i m b Hn Hb. destruct (nth_error_snoc _ _ _ _ Hn) as [[Hn' L]|[-> ->]].
    + rewrite firstn_app_le by lia. eapply wn_chain0; eauto.
    + rewrite firstn_app, Nat.sub_diag, firstn_all. cbn [firstn]. rewrite app_nil_r. apply wn_pool0. auto.
  - intros b Hb. apply recv_ok_app. apply wn_pool0. auto.
  - intros a. rewrite RE. apply wn_nodup0.
  - intros c Hc. rewrite RE. eapply prefix_trans; [apply wn_fifo0; exact Hc|]. rewrite inbox_at_app. apply prefix_app_r.
  - unfold momentum_ok in OK. apply andb_true_iff in OK. destruct OK as [_ OK]. apply nodup_b_sound. exact OK.
Qed.

(* ================================================================ reorganisation, restart *)
Lemma removelast_snoc {A} (l : list A) x : removelast (l ++ [x]) = l.
Proof. apply removelast_last. Qed.

Lemma recvs_in_chain c (ch : list (list blk)) h :
  In h (recvs_of c (concat ch)) ->
  exists i m b, nth_error ch i = Some m /\ In b m /\ b_kind b = BRecv h /\ b_addr b = c.
Proof.
  intros H. apply recvs_of_in in H. destruct H as [b [Hb [K A]]].
  apply in_concat in Hb. destruct Hb as [m [Hm Hbm]]. apply In_nth_error in Hm. destruct Hm as [i Hi].
  exists i, m, b. auto.
Qed.

Lemma WFN_truncate E n c' last :
  WFN E n -> chain n = c' ++ [last] -> WFN E (mkNode c' []).
Proof.
  intros W EC. pose proof W as W0. destruct W. rewrite EC in *.
  assert (PL : forall a, prefix (recvs_of a (concat c')) (recvs_of a (blocks_of n))).
  { intros a. unfold blocks_of. rewrite EC, concat_app, !recvs_of_app, <- app_assoc. apply prefix_app_r. }
  assert (CH : forall i m b, nth_error c' i = Some m -> In b m -> recv_ok E (firstn i c') b).
  { intros i m b Hn Hb. assert (L : (i < length c')%nat) by (apply nth_error_Some; congruence).
    specialize (wn_chain0 i m b). rewrite nth_error_app1 in wn_chain0 by exact L.
    rewrite firstn_app_le in wn_chain0 by lia. auto. }
  constructor; unfold blocks_of; cbn [chain pool]; rewrite ?app_nil_r.
  - exact CH.
  - intros b [].
  - intros a. eapply prefix_nodup; [apply PL | apply wn_nodup0].
  - intros c Hc.
    assert (P1 : prefix (recvs_of c (concat c')) (inbox_at c c' ++ inbox_at c [last])).
    { rewrite <- inbox_at_app. eapply prefix_trans; [apply PL | apply wn_fifo0; exact Hc]. }
    eapply prefix_cut; [exact P1 | | rewrite <- inbox_at_app; apply to_hashes_nodup; exact wn_sends0].
    intros h Hh. destruct (recvs_in_chain _ _ _ Hh) as [i [m [b [Hn [Hb [K A]]]]]].
    specialize (CH i m b Hn Hb). unfold recv_ok in CH. rewrite K in CH. destruct CH as [f [t [F [X|[X _]]]]]; [|congruence].
    subst t. rewrite A in F. apply find_csend_to in F. unfold inbox_at. rewrite <- (firstn_skipn i c'), conf_sends_app, to_hashes_app.
    apply in_or_app. left. exact F.
  - rewrite conf_sends_app, map_app in wn_sends0. eapply NoDup_app_l; exact wn_sends0.
Qed.

Lemma WFN_drop_pool E n : WFN E n -> WFN E (mkNode (chain n) []).
Proof.
  intros W. pose proof W as W0. destruct W.
  assert (PL : forall a, prefix (recvs_of a (concat (chain n))) (recvs_of a (blocks_of n))).
  { intros a. unfold blocks_of. rewrite recvs_of_app. apply prefix_app_r. }
  constructor; unfold blocks_of; cbn [chain pool]; rewrite ?app_nil_r; auto.
  - intros b [].
  - intros a. eapply prefix_nodup; [apply PL | apply wn_nodup0].
  - intros c Hc. eapply prefix_trans; [apply PL | apply wn_fifo0; exact Hc].
Qed.

Lemma exists_last' {A} (l : list A) : l <> [] -> exists l' x, l = l' ++ [x].
Proof. intros H. destruct (exists_last H) as [l' [x E]]. eauto. Qed.

(* ================================================================ every event preserves the invariant *)
Theorem step_node_wf E n e n' c : WFN E n -> step_node E n e = (n', c) -> WFN E n'.
Proof.
  intros W H. destruct e; cbn [step_node] in H.
  - set (n1 := mkNode (chain n) (keep_first (Z.to_nat keep) (b_addr b) (pool n))) in *.
    assert (W1 : WFN E n1) by (apply WFN_keep_first; exact W).
    destruct (check_blk E n1 b =? 0) eqn:C; cbn [andb] in H.
    + destruct commit; inversion H; subst; [|exact W].
      apply Z.eqb_eq in C. apply (WFN_add E n1 b W1 C).
    + inversion H; subst; exact W.
  - destruct (pick sel (pool n)) as [mom|] eqn:P; [|inversion H; subst; exact W].
    destruct (momentum_ok n mom _) eqn:OK; inversion H; subst; [|exact W].
    eapply WFN_momentum; eauto.
  - destruct (chain n) as [|m0 [|m1 r]] eqn:EC; try (inversion H; subst; exact W).
    destruct (exists_last' (m0 :: m1 :: r)) as [c' [x Ex]]; [discriminate|].
    assert (RL : removelast (m0 :: m1 :: r) = c') by (rewrite Ex; apply removelast_snoc).
    rewrite RL in H. injection H as <- <-. eapply WFN_truncate; [exact W | rewrite EC; exact Ex].
  - inversion H; subst. apply WFN_drop_pool; exact W.
Qed.

Theorem run_node_wf E es : forall n, WFN E n -> WFN E (run_node E n es).
Proof.
  induction es as [|e r IH]; intros n W; cbn [run_node]; [exact W|].
  apply IH. destruct (step_node E n e) as [n' c] eqn:EQ. cbn [fst]. eapply step_node_wf; eauto.
Qed.

(* ================================================================ the statements *)
Lemma all_recv_ok E n b : WFN E n -> In b (blocks_of n) -> recv_ok E (chain n) b.
Proof.
  intros W H. unfold blocks_of in H. apply in_app_iff in H. destruct H as [H|H]; [|apply (wn_pool _ _ W); exact H].
  apply in_concat in H. destruct H as [m [Hm Hb]]. apply In_nth_error in Hm. destruct Hm as [i Hi].
  eapply recv_ok_firstn. eapply (wn_chain _ _ W); eauto.
Qed.

(* both regimes: a receiving block refers to a confirmed send and belongs to the send's addressee, or to a user account
   and acknowledges a momentum below the enforcement height *)
Theorem receiver_rule E n b h :
  WFN E n -> In b (blocks_of n) -> b_kind b = BRecv h ->
  exists from to, find_csend h (conf_sends (chain n)) = Some (from, to) /\
                  (to = b_addr b \/ (is_emb (b_addr b) = false /\ 1 <= b_ma b < E)).
Proof. intros W H K. pose proof (all_recv_ok _ _ _ W H) as R. unfold recv_ok in R. rewrite K in R. exact R. Qed.

(* enforced from the genesis momentum on: only the account the send is addressed to receives it, and the send is confirmed *)
Theorem only_addressee E n b h :
  E <= 1 -> WFN E n -> In b (blocks_of n) -> b_kind b = BRecv h ->
  exists from, find_csend h (conf_sends (chain n)) = Some (from, b_addr b).
Proof.
  intros LE W H K. destruct (receiver_rule _ _ _ _ W H K) as [f [t [F [X|[_ X]]]]]; [|lia].
  subst t. exists f. exact F.
Qed.

Lemma receivers_in h l b : In b (receivers h l) -> In b l /\ b_kind b = BRecv h.
Proof.
  induction l as [|x r IH]; cbn [receivers]; [intros []|].
  destruct (b_kind x) as [t|fh] eqn:K.
  - intros H; destruct (IH H) as [A B]; split; [right; exact A | exact B].
  - destruct (fh =? h) eqn:E.
    + intros [<-|H]; [apply Z.eqb_eq in E; subst; split; [left; reflexivity | exact K] |
                       destruct (IH H) as [A B]; split; [right; exact A | exact B]].
    + intros H; destruct (IH H) as [A B]; split; [right; exact A | exact B].
Qed.
Lemma receivers_count h a l :
  (forall b, In b l -> b_kind b = BRecv h -> b_addr b = a) ->
  length (receivers h l) = count_occ Z.eq_dec (recvs_of a l) h.
Proof.
  induction l as [|x r IH]; cbn [receivers recvs_of]; [reflexivity|]. intros H.
  assert (IH' := IH (fun b Hb => H b (or_intror Hb))).
  destruct (b_kind x) as [t|fh] eqn:K; [exact IH'|].
  destruct (fh =? h) eqn:E.
  - apply Z.eqb_eq in E; subst fh. rewrite (H x (or_introl eq_refl) K), Z.eqb_refl.
    cbn [length count_occ]. destruct (Z.eq_dec h h); [|congruence]. f_equal. exact IH'.
  - apply Z.eqb_neq in E. destruct (b_addr x =? a); [|exact IH'].
    cbn [count_occ]. destruct (Z.eq_dec fh h); [congruence | exact IH'].
Qed.

(* every send is received at most once over the whole chain + pool (enforced from the genesis momentum on) *)
Theorem at_most_once E n h : E <= 1 -> WFN E n -> (length (receivers h (blocks_of n)) <= 1)%nat.
Proof.
  intros LE W. destruct (find_csend h (conf_sends (chain n))) as [[from to]|] eqn:F.
  - rewrite (receivers_count h to).
    + pose proof (wn_nodup _ _ W to) as ND. rewrite (NoDup_count_occ Z.eq_dec) in ND. apply ND.
    + intros b Hb K. destruct (only_addressee _ _ _ _ LE W Hb K) as [f G]. congruence.
  - destruct (receivers h (blocks_of n)) as [|b r] eqn:R; [cbn; lia|]. exfalso.
    assert (Hb : In b (receivers h (blocks_of n))) by (rewrite R; left; reflexivity).
    apply receivers_in in Hb. destruct Hb as [Hb K]. destruct (only_addressee _ _ _ _ LE W Hb K) as [f G]. congruence.
Qed.

(* both regimes: one account never has two blocks that receive the same send (the marker is the account's own) *)
Lemma receivers_by_count a h l : length (receivers_by a h l) = count_occ Z.eq_dec (recvs_of a l) h.
Proof.
  unfold receivers_by. induction l as [|x r IH]; cbn [receivers recvs_of filter]; [reflexivity|].
  destruct (b_kind x) as [t|fh] eqn:K; [exact IH|].
  destruct (fh =? h) eqn:E1.
  - apply Z.eqb_eq in E1; subst fh. cbn [filter]. destruct (b_addr x =? a) eqn:A.
    + cbn [length count_occ]. destruct (Z.eq_dec h h); [|congruence]. f_equal. exact IH.
    + exact IH.
  - apply Z.eqb_neq in E1. destruct (b_addr x =? a); [|exact IH].
    cbn [count_occ]. destruct (Z.eq_dec fh h); [congruence | exact IH].
Qed.
Theorem once_per_account E n a h : WFN E n -> (length (receivers_by a h (blocks_of n)) <= 1)%nat.
Proof.
  intros W. rewrite receivers_by_count. pose proof (wn_nodup _ _ W a) as ND.
  rewrite (NoDup_count_occ Z.eq_dec) in ND. apply ND.
Qed.

(* both regimes: among the blocks that acknowledge a momentum at or above the enforcement height at most one receives
   a given send, and it belongs to the addressee *)
Lemma filter_length_le {A} (p q : A -> bool) l :
  (forall x, In x l -> p x = true -> q x = true) -> (length (filter p l) <= length (filter q l))%nat.
Proof.
  induction l as [|x r IH]; cbn [filter]; intros H; [lia|].
  assert (IH' := IH (fun y Hy => H y (or_intror Hy))).
  destruct (p x) eqn:P.
  - rewrite (H x (or_introl eq_refl) P). cbn [length]. lia.
  - destruct (q x); cbn [length]; lia.
Qed.
Theorem at_most_once_from_enforcement E n h : WFN E n -> (length (receivers_from E h (blocks_of n)) <= 1)%nat.
Proof.
  intros W. destruct (find_csend h (conf_sends (chain n))) as [[from to]|] eqn:F.
  - eapply Nat.le_trans; [|apply (once_per_account E n to h W)].
    unfold receivers_from, receivers_by. apply filter_length_le. intros b Hb P.
    apply receivers_in in Hb. destruct Hb as [Hb K].
    destruct (receiver_rule _ _ _ _ W Hb K) as [f [t [G [X|[_ X]]]]].
    + rewrite F in G. inversion G; subst. apply Z.eqb_refl.
    + apply Z.leb_le in P. lia.
  - destruct (receivers_from E h (blocks_of n)) as [|b r] eqn:R; [cbn; lia|]. exfalso.
    assert (Hb : In b (receivers_from E h (blocks_of n))) by (rewrite R; left; reflexivity).
    unfold receivers_from in Hb. apply filter_In in Hb. destruct Hb as [Hb _].
    apply receivers_in in Hb. destruct Hb as [Hb K]. destruct (receiver_rule _ _ _ _ W Hb K) as [f [t [G _]]]. congruence.
Qed.

(* contract inboxes are strict FIFO: the sequence of received sends is a duplicate-free prefix of the confirmation order *)
Theorem fifo E n c :
  WFN E n -> is_emb c = true ->
  prefix (recvs_of c (blocks_of n)) (inbox_at c (chain n)) /\ NoDup (recvs_of c (blocks_of n)).
Proof. intros W Hc. split; [apply (wn_fifo _ _ W); exact Hc | apply (wn_nodup _ _ W)]. Qed.

(* ================================================================ a contract receive is accepted iff it is for the head of the line *)
(* The verdict of the verifier on a contract receive for send h (acknowledging a momentum of the chain), on ANY reachable
   node and on top of ANY kept unconfirmed prefix: accepted exactly when h is the entry of the contract's inbox (as of the
   acknowledged momentum) at position "number of receives the contract has made" - the head of its line.  Nothing else
   about h matters: a send the contract has already received, the second in line, a send addressed to somebody else, an
   unknown hash are all refused, and the head is never refused. *)
Lemma sends_nodup_firstn E n i : WFN E n ->
  NoDup (map (fun s : hash * addr * addr => fst (fst s)) (conf_sends (firstn i (chain n)))).
Proof.
  intros W. pose proof (wn_sends _ _ W) as ND.
  rewrite <- (firstn_skipn i (chain n)) in ND. rewrite conf_sends_app, map_app in ND.
  exact (NoDup_app_l _ _ ND).
Qed.

Theorem contract_receive_iff_head E n b h :
  WFN E n -> b_kind b = BRecv h -> is_emb (b_addr b) = true ->
  1 <= b_ma b <= Z.of_nat (length (chain n)) ->
  (check_blk E n b = 0 <->
   nth_error (inbox_at (b_addr b) (firstn (Z.to_nat (b_ma b)) (chain n)))
             (length (recvs_of (b_addr b) (blocks_of n))) = Some h).
Proof.
  intros W Hk Hemb Hma. unfold check_blk.
  assert (M1 : (b_ma b <? 1) = false) by (apply Z.ltb_ge; lia).
  assert (M2 : (Z.of_nat (length (chain n)) <? b_ma b) = false) by (apply Z.ltb_ge; lia).
  rewrite M1, M2. cbn [orb]. rewrite Hk. unfold recv_check. rewrite Hemb.
  set (view := firstn (Z.to_nat (b_ma b)) (chain n)).
  set (k := length (recvs_of (b_addr b) (blocks_of n))).
  split.
  - destruct (find_csend h (conf_sends view)) as [[f t]|]; [|unfold E_FROM_MISSING; discriminate].
    destruct (enforced E n && negb (t =? b_addr b)); [unfold E_MISMATCH; discriminate|].
    destruct (nth_error (inbox_at (b_addr b) view) k) as [h'|]; [|unfold E_SEQ_NOTHING; discriminate].
    destruct (h' =? h) eqn:Eh; [|unfold E_SEQ_NOT_NEXT; discriminate].
    apply Z.eqb_eq in Eh. subst h'. reflexivity.
  - intros Hn. pose proof (nth_error_In _ _ Hn) as Hin. unfold inbox_at in Hin.
    destruct (to_hashes_find (b_addr b) h (conf_sends view) (sends_nodup_firstn E n _ W) Hin) as [f Hf].
    rewrite Hf. rewrite Z.eqb_refl. cbn [negb]. rewrite andb_false_r.
    rewrite Hn. rewrite Z.eqb_refl. reflexivity.
Qed.

(* ... and then h is the first send of the contract's WHOLE inbox that it has not received *)
Theorem contract_receive_takes_head E n b h :
  WFN E n -> b_kind b = BRecv h -> is_emb (b_addr b) = true ->
  check_blk E n b = 0 ->
  nth_error (inbox_at (b_addr b) (chain n)) (length (recvs_of (b_addr b) (blocks_of n))) = Some h /\
  ~ In h (recvs_of (b_addr b) (blocks_of n)).
Proof.
  intros W Hk Hemb Hc.
  assert (Hma : 1 <= b_ma b <= Z.of_nat (length (chain n))).
  { unfold check_blk in Hc.
    destruct ((b_ma b <? 1) || (Z.of_nat (length (chain n)) <? b_ma b)) eqn:M; [unfold E_MA_MISSING in Hc; discriminate|].
    apply orb_false_iff in M. destruct M as [A B]. apply Z.ltb_ge in A. apply Z.ltb_ge in B. lia. }
  apply (contract_receive_iff_head E n b h W Hk Hemb Hma) in Hc.
  assert (Hfull : nth_error (inbox_at (b_addr b) (chain n)) (length (recvs_of (b_addr b) (blocks_of n))) = Some h).
  { apply (prefix_nth (inbox_at (b_addr b) (firstn (Z.to_nat (b_ma b)) (chain n)))); [|exact Hc].
    exists (inbox_at (b_addr b) (skipn (Z.to_nat (b_ma b)) (chain n))).
    rewrite <- inbox_at_app, firstn_skipn. reflexivity. }
  split; [exact Hfull|].
  intros Hin. destruct (wn_fifo _ _ W (b_addr b) Hemb) as [r Hr].
  pose proof (inbox_nodup E (b_addr b) n W) as ND. rewrite Hr in ND, Hfull.
  rewrite nth_error_app2 in Hfull by lia. rewrite Nat.sub_diag in Hfull.
  destruct r as [|x r]; [discriminate|]. cbn [nth_error] in Hfull. injection Hfull as ->.
  apply NoDup_remove_2 in ND. apply ND. apply in_or_app. left. exact Hin.
Qed.

(* ================================================================ before the enforcement height *)
Definition pre_enf_events : list event :=
  [ EBlock 0 true (mkBlk 1000 100 (BSend 101) 1 []); EMomentum [1000];
    EBlock 0 true (mkBlk 1001 102 (BRecv 1000) 2 []); EBlock 0 true (mkBlk 1002 101 (BRecv 1000) 2 []) ].
Theorem pre_enforcement_two_receivers :
  length (receivers 1000 (blocks_of (run_node 100 genesis_node pre_enf_events))) = 2%nat.
Proof. vm_compute. reflexivity. Qed.
