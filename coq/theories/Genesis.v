(* Model of chain/genesis: construction of the genesis momentum from a configuration
   (account_block.go, momentum.go, nom.NewMomentumContent), the validators of shared_tests.go
   (CheckGenesis and its five parts, as written), and chain.checkGenesisCompatibility (chain/chain.go).

   Construction level: every configuration entry is represented by the storage writes its Save method
   performs (the harness obtains them by running the real Save on a scratch store); an account's patch is
   what vm_context.Changes() returns: the final contents of the store in bytewise key order, last write
   of a key wins. The momentum content is the list of block headers sorted by header bytes.
   Validator level: the amounts and identities the validators read. *)
From ZV Require Import Prelude Block.
From ZV.gen Require Consts.
Open Scope Z_scope.

(* ---------------------------------------------------------------- construction *)
Definition kv := (bytes * bytes)%type.

(* memdb Put: replace or insert, keys kept in bytewise order *)
Fixpoint put (k v : bytes) (m : list kv) : list kv :=
  match m with
  | [] => [(k, v)]
  | (k', v') :: r =>
    if bytes_eqb k k' then (k, v) :: r
    else if bytes_leb k k' then (k, v) :: m
    else (k', v') :: put k v r
  end.
(* all writes of one account in program order -> its patch *)
Definition norm (w : list kv) : list kv := fold_left (fun m e => put (fst e) (snd e) m) w [].

(* an account of the genesis: address, hash of its genesis block, the writes of its entries *)
Record GAccount := mkGA { ga_addr : bytes; ga_hash : bytes; ga_entries : list (list kv) }.
Definition ga_header (a : GAccount) : AHeader := mkAHeader (ga_addr a) (ga_hash a) 1.
Definition ga_patch (a : GAccount) : list kv := norm (concat (ga_entries a)).

(* the pool keeps the first block of an address (a second block with the same identifier is "already inserted") *)
Fixpoint dedup_addr (seen : list bytes) (l : list GAccount) : list GAccount :=
  match l with
  | [] => []
  | a :: r => if existsb (bytes_eqb (ga_addr a)) seen then dedup_addr seen r
              else a :: dedup_addr (ga_addr a :: seen) r
  end.

(* content (sorted headers) with each block's patch, in content order: this list, the chain identifier,
   the timestamp and the extra data are all the genesis momentum and its state are computed from *)
Definition genesis_blocks (accounts : list GAccount) : list (AHeader * list kv) :=
  sort_by (fun hp => aheader_bytes (fst hp)) (map (fun a => (ga_header a, ga_patch a)) (dedup_addr [] accounts)).

Record GenesisOut := mkGO { go_chain : Z; go_timestamp : Z; go_extra : bytes; go_blocks : list (AHeader * list kv) }.
Definition genesis (chain timestamp : Z) (extra : bytes) (accounts : list GAccount) : GenesisOut :=
  mkGO chain timestamp extra (genesis_blocks accounts).
(* hash and state are functions of GenesisOut (SHA3 / the momentum store applied to it) *)

(* ---------------------------------------------------------------- validators *)
Record GBlock := mkGB { gb_addr : bytes; gb_bal : list (bytes * Z) }.   (* BalanceList: zts -> amount, keys distinct *)
Record Config := mkCfg {
  c_spork_addr : bool;                         (* SporkAddress != nil *)
  c_pillars : option (list Z);                 (* PillarConfig: stake amount of each pillar *)
  c_tokens : option (list (bytes * Z));        (* TokenConfig: (token standard, total supply) *)
  c_fusions : option (list (option Z));        (* PlasmaConfig: amount of each fusion; None = nil entry *)
  c_swap : option (list (bool * bool));        (* SwapConfig: (Znn != nil, Qsr != nil) per entry *)
  c_blocks : option (list GBlock)              (* GenesisBlocks *)
}.
(* addresses / token standards: dumped from /repo (gen/Consts.v) *)
Definition plasma_addr : bytes := Consts.PlasmaContractAddr.
Definition pillar_addr : bytes := Consts.PillarContractAddr.
Definition swap_addr : bytes := Consts.SwapContractAddr.
Definition znn_zts : bytes := Consts.ZnnZts.
Definition qsr_zts : bytes := Consts.QsrZts.

Fixpoint lookup (k : bytes) (l : list (bytes * Z)) : option Z :=
  match l with [] => None | (k', v) :: r => if bytes_eqb k k' then Some v else lookup k r end.
Definition is_nil_b {A} (l : list A) : bool := match l with [] => true | _ => false end.

(* checkAccountBalance, per block entry of that address: every listed token is required with exactly that
   amount; every required non-zero token is listed. strict = the code after fix 47865a2: an account
   without any entry has to require nothing (before the fix: no entry = pass). *)
Definition entry_ok (required : list (bytes * Z)) (bal : list (bytes * Z)) : bool :=
  forallb (fun e => match lookup (fst e) required with Some r => r =? snd e | None => false end) bal &&
  forallb (fun r => match lookup (fst r) bal with Some _ => true | None => snd r =? 0 end) required.
Definition check_account_balance (strict : bool) (blocks : list GBlock) (addr : bytes) (required : list (bytes * Z)) : bool :=
  let mine := filter (fun b => bytes_eqb (gb_addr b) addr) blocks in
  forallb (fun b => entry_ok required (gb_bal b)) mine &&
  (negb strict || negb (is_nil_b mine) || forallb (fun r => snd r =? 0) required).

Definition sumZ (l : list Z) : Z := fold_right Z.add 0 l.
Definition check_plasma (strict : bool) (blocks : list GBlock) (fusions : list (option Z)) : bool :=
  forallb (fun f => match f with Some _ => true | None => false end) fusions &&
  check_account_balance strict blocks plasma_addr [(qsr_zts, sumZ (map (fun f => match f with Some a => a | None => 0 end) fusions))].
Definition check_swap (strict : bool) (blocks : list GBlock) (entries : list (bool * bool)) : bool :=
  forallb (fun e => fst e && snd e) entries &&
  check_account_balance strict blocks swap_addr [(znn_zts, 0); (qsr_zts, 0)].
Definition check_pillar (strict : bool) (blocks : list GBlock) (pillars : list Z) : bool :=
  check_account_balance strict blocks pillar_addr [(znn_zts, sumZ pillars)].

(* CheckTokenTotalSupply. nodup = the code after fix 6ab94f1 refuses a second entry for an address *)
Fixpoint nodup_b (l : list bytes) : bool :=
  match l with [] => true | x :: r => negb (existsb (bytes_eqb x) r) && nodup_b r end.
Definition bal_of (z : bytes) (b : GBlock) : Z := match lookup z (gb_bal b) with Some v => v | None => 0 end.
Definition given_total (blocks : list GBlock) (z : bytes) : Z := sumZ (map (bal_of z) blocks).
Definition given_has (blocks : list GBlock) (z : bytes) : bool :=
  existsb (fun b => match lookup z (gb_bal b) with Some _ => true | None => false end) blocks.
Definition check_supply (nodup : bool) (blocks : list GBlock) (tokens : list (bytes * Z)) : bool :=
  (negb nodup || nodup_b (map gb_addr blocks)) &&
  forallb (fun t => given_has blocks (fst t) && (snd t =? given_total blocks (fst t))) tokens &&
  forallb (fun b => forallb (fun e => existsb (fun t => bytes_eqb (fst t) (fst e)) tokens) (gb_bal b)) blocks.

(* CheckGenesis: CheckFieldsExist, CheckPlasmaInfo, CheckSwapAccount, CheckPillarBalance, CheckTokenTotalSupply *)
Definition check_genesis_gen (fixed : bool) (c : Config) : bool :=
  match c_blocks c, c_tokens c, c_pillars c, c_fusions c, c_swap c with
  | Some blocks, Some tokens, Some pillars, Some fusions, Some swap =>
    c_spork_addr c && check_plasma fixed blocks fusions && check_swap fixed blocks swap &&
    check_pillar fixed blocks pillars && check_supply fixed blocks tokens
  | _, _, _, _, _ => false
  end.
Definition check_genesis := check_genesis_gen true.
Definition check_genesis_old := check_genesis_gen false.

(* the balance the genesis state gives (wrap: every entry of the address, in order, SetBalance per token) *)
Definition state_balance (blocks : list GBlock) (addr z : bytes) : Z :=
  fold_left (fun acc b => if bytes_eqb (gb_addr b) addr
                          then match lookup z (gb_bal b) with Some v => v | None => acc end
                          else acc) blocks 0.

(* ---------------------------------------------------------------- chain.checkGenesisCompatibility *)
(* db: None = no momentum stored; Some h = hash of the stored momentum of height 1.
   Result: None = Init refuses; Some h' = the hash stored at height 1 afterwards. *)
Definition init_db (db : option bytes) (genesis_hash : bytes) : option bytes :=
  match db with
  | None => Some genesis_hash
  | Some h => if bytes_eqb h genesis_hash then Some h else None
  end.
