(* C14 — "the winner is chosen by the same antisymmetric rule on every node": competitors for ONE height of an account,
   all on the same parent, offered one after the other WITHOUT force (pool call, rpc publish, gossip: every entry ends in
   addAccountBlockTransaction(forceAdd = false)). Whatever the order in which a node receives them, the block of that
   height afterwards is the same one: the one the rule names among the pooled block and all the competitors. *)
From ZV Require Import Prelude GoSem Pool PoolProofs.
From ZV.gen Require Import Consts.
From Coq Require Import Permutation.
Open Scope Z_scope.
Ltac Zify.zify_post_hook ::= Z.div_mod_to_equations.

(* user blocks: base plasma is positive (at least AccountBlockBasePlasma), total and base under the per-block cap.
   (The rule is NOT transitive when blocks with base plasma 0 are mixed with others: 1/1, 0/0, 2/1 with hashes in that
   order beat each other in a cycle. Contract receives are all 0/0 - there the hash alone decides - and user blocks
   never are.) *)
Definition capped (b : block) : Prop :=
  0 <= btotal b <= MaxPlasmaForAccountBlock /\ 0 < bbase b <= MaxPlasmaForAccountBlock.

Lemma wins_trans a b c : capped a -> capped b -> capped c -> wins a b -> wins b c -> wins a c.
Proof.
  intros [Ha1 Ha2] [Hb1 Hb2] [Hc1 Hc2] Hab Hbc.
  apply priority_no_overflow in Hab; [|lia..]. apply priority_no_overflow in Hbc; [|lia..].
  apply priority_no_overflow; [lia..|].
  set (ta := btotal a) in *. set (ba := bbase a) in *. set (tb := btotal b) in *. set (bb := bbase b) in *.
  set (tc := btotal c) in *. set (bc := bbase c) in *.
  destruct Hab as [Hab|[Hab Hha]]; destruct Hbc as [Hbc|[Hbc Hhb]].
  - left. assert (H1 : tb * ba * bc < ta * bb * bc) by nia. assert (H2 : tc * bb * ba < tb * bc * ba) by nia.
    assert (H3 : (tc * ba) * bb < (ta * bc) * bb) by nia. nia.
  - left. assert (H1 : tb * ba * bc < ta * bb * bc) by nia. assert (H2 : tb * bc * ba = tc * bb * ba) by nia.
    assert (H3 : (tc * ba) * bb < (ta * bc) * bb) by nia. nia.
  - left. assert (H1 : ta * bb * bc = tb * ba * bc) by nia. assert (H2 : tc * bb * ba < tb * bc * ba) by nia.
    assert (H3 : (tc * ba) * bb < (ta * bc) * bb) by nia. nia.
  - right. split; [|lia]. assert (H1 : ta * bb * bc = tb * ba * bc) by nia. assert (H2 : tb * bc * ba = tc * bb * ba) by nia.
    assert (H3 : (ta * bc) * bb = (tc * ba) * bb) by nia. nia.
Qed.

(* what a node keeps: the pooled block, replaced by every arriving competitor that wins against what is kept *)
Definition champion (cur : block) (cs : list block) : block :=
  fold_left (fun cur c => if higher_priority c cur =? 0 then c else cur) cs cur.

Lemma nodup_hash_inj (l : list block) x y : NoDup (map bhash l) -> In x l -> In y l -> bhash x = bhash y -> x = y.
Proof.
  induction l as [|z l IH]; intros Hnd Hx Hy E; [contradiction|].
  cbn [map] in Hnd. inversion Hnd as [|? ? Hnin Hnd']; subst.
  destruct Hx as [->|Hx]; destruct Hy as [->|Hy]; [reflexivity| | |apply IH; assumption].
  - exfalso. apply Hnin. rewrite E. apply in_map. exact Hy.
  - exfalso. apply Hnin. rewrite <- E. apply in_map. exact Hx.
Qed.

(* the champion is one of the candidates and wins against every other one *)
Lemma champion_best cs : forall cur, Forall capped (cur :: cs) -> NoDup (map bhash (cur :: cs)) ->
  In (champion cur cs) (cur :: cs) /\ forall y, In y (cur :: cs) -> bhash y <> bhash (champion cur cs) -> wins (champion cur cs) y.
Proof.
  induction cs as [|c cs IH]; intros cur Hcap Hnd.
  - cbn [champion fold_left]. split; [left; reflexivity|]. intros y [<-|[]] Hne. congruence.
  - cbn [champion fold_left]. fold (champion (if higher_priority c cur =? 0 then c else cur) cs).
    set (cur' := if higher_priority c cur =? 0 then c else cur).
    inversion Hcap as [|? ? Hccur Hcap1]; subst. inversion Hcap1 as [|? ? Hcc Hcap2]; subst.
    cbn [map] in Hnd. inversion Hnd as [|? ? Hn1 Hnd1]; subst. inversion Hnd1 as [|? ? Hn2 Hnd2]; subst.
    assert (Hne : bhash c <> bhash cur) by (intros E; apply Hn1; left; exact E).
    (* the one of the two that is kept, and the other one, which it beats *)
    assert (Hk : exists z, (cur' = c /\ z = cur \/ cur' = cur /\ z = c) /\ wins cur' z).
    { unfold cur'. destruct (higher_priority c cur =? 0) eqn:E.
      - exists cur. split; [left; split; reflexivity|]. unfold wins. lia.
      - exists c. split; [right; split; reflexivity|]. destruct (priority_total c cur Hne) as [H|H]; [unfold wins in H; lia|exact H]. }
    destruct Hk as [z [Hz Hwz]].
    assert (Hcap' : Forall capped (cur' :: cs)) by (constructor; [destruct Hz as [[-> _]|[-> _]]; assumption|exact Hcap2]).
    assert (Hnd' : NoDup (map bhash (cur' :: cs))).
    { cbn [map]. constructor; [|exact Hnd2]. destruct Hz as [[-> _]|[-> _]]; [exact Hn2|]. intros H. apply Hn1. right. exact H. }
    destruct (IH cur' Hcap' Hnd') as [Hin Hbest]. set (w := champion cur' cs) in *.
    assert (Hcapw : capped w) by (rewrite Forall_forall in Hcap'; apply Hcap'; exact Hin).
    assert (Hcapz : capped z) by (destruct Hz as [[_ ->]|[_ ->]]; assumption).
    assert (Hcapc' : capped cur') by (inversion Hcap'; assumption).
    split.
    + destruct Hin as [<-|Hin]; [destruct Hz as [[-> _]|[-> _]]; [right; left; reflexivity|left; reflexivity]|right; right; exact Hin].
    + intros y Hy Hyw.
      assert (Hy' : y = z \/ In y (cur' :: cs)).
      { destruct Hz as [[-> ->]|[-> ->]]; destruct Hy as [<-|[<-|Hy]]; auto; right; [left|right|left|right]; auto. }
      destruct Hy' as [->|Hy']; [|apply Hbest; assumption].
      (* z lost against cur'; w is cur' or beats it *)
      destruct (Z.eq_dec (bhash w) (bhash cur')) as [E|N].
      * assert (w = cur') by (apply (nodup_hash_inj (cur' :: cs)); [exact Hnd'|exact Hin|left; reflexivity|exact E]). congruence.
      * apply (wins_trans w cur' z); try assumption. apply Hbest; [left; reflexivity|congruence].
Qed.

(* ... and there is only one such candidate: the arrival order does not matter *)
Lemma champion_perm cur cs cs' : Forall capped (cur :: cs) -> NoDup (map bhash (cur :: cs)) -> Permutation cs cs' ->
  champion cur cs' = champion cur cs.
Proof.
  intros Hcap Hnd Hp.
  assert (Hp' : Permutation (cur :: cs) (cur :: cs')) by (constructor; exact Hp).
  assert (Hcap' : Forall capped (cur :: cs')) by (eapply Permutation_Forall; eassumption).
  assert (Hnd' : NoDup (map bhash (cur :: cs'))) by (eapply Permutation_NoDup; [apply Permutation_map; exact Hp'|exact Hnd]).
  destruct (champion_best cs cur Hcap Hnd) as [Hin Hb]. destruct (champion_best cs' cur Hcap' Hnd') as [Hin' Hb'].
  set (w := champion cur cs) in *. set (w' := champion cur cs') in *.
  assert (Hin2 : In w' (cur :: cs)) by (eapply Permutation_in; [apply Permutation_sym; exact Hp'|exact Hin']).
  destruct (Z.eq_dec (bhash w') (bhash w)) as [E|N].
  - apply (nodup_hash_inj (cur :: cs)); assumption.
  - exfalso. apply (priority_antisym w w'). split; [apply Hb; assumption|].
    apply Hb'; [eapply Permutation_in; [exact Hp'|exact Hin]|congruence].
Qed.

(* ------------------------------------------------------------ one competitor arrives *)
Lemma find_skip (above l : list block) h : Forall (fun b => h < bheight b) above ->
  find (fun b => bheight b =? h) (above ++ l) = find (fun b => bheight b =? h) l.
Proof. induction 1 as [|x ab Hx _ IH]; [reflexivity|]. cbn [app find]. replace (bheight x =? h) with false by lia. exact IH. Qed.

Lemma app_same_length_r {A} (l1 : list A) : forall l2 r1 r2, l1 ++ r1 = l2 ++ r2 -> length r1 = length r2 -> r1 = r2.
Proof.
  induction l1 as [|x l1 IH]; intros l2 r1 r2 E L.
  - destruct l2 as [|y l2]; [exact E|]. exfalso. apply (f_equal (@length A)) in E. cbn [app length] in E. rewrite app_length in E. lia.
  - destruct l2 as [|y l2].
    + exfalso. apply (f_equal (@length A)) in E. cbn [app length] in E. rewrite app_length in E. lia.
    + cbn [app] in E. inversion E. eapply IH; eassumption.
Qed.

(* the account has t pooled at the contested height, on `below`; c is another block for that height on the same parent *)
Lemma add_competitor a above t below c : wf a -> no_sends a -> rchain a = above ++ t :: below -> (sh a <= length below)%nat ->
  Z.of_nat (length (rchain a)) < two63 ->
  prev_of c = frontier_id below -> bheight c = bheight t -> bhash c <> bhash t ->
  add false a c = if higher_priority c t =? 0 then (mkAcct (c :: below) (sh a), ROk)
                  else (a, if higher_priority c t =? 1 then RErrRatio else RErrTieBreak).
Proof.
  intros Hwf Hns Hrc Hsh Hlen Hprev Hh Hne. pose proof Hwf as [Hl Hs].
  pose proof (stable_height_is_sh a Hwf) as Hst.
  pose proof Hl as Hl0. rewrite Hrc in Hl.
  pose proof (linked_app _ _ Hl) as Hl2.
  pose proof (linked_height _ Hl2) as Hht. cbn [frontier_id id_of snd length] in Hht.
  assert (Hlb : linked below) by (destruct Hl2 as [_ [_ H]]; exact H).
  pose proof (linked_height _ Hlb) as Hhb.
  pose proof (linked_heights_gt above (t :: below) Hl) as Hgt. cbn [length] in Hgt.
  assert (Hgt1 : Forall (fun b => bheight t < bheight b) above) by (eapply Forall_impl; [|exact Hgt]; cbn; intros; lia).
  assert (Hgt2 : Forall (fun b => bheight t - 1 < bheight b) above) by (eapply Forall_impl; [|exact Hgt]; cbn; intros; lia).
  rewrite Hrc, app_length in Hlen. cbn [length] in Hlen.
  unfold add, add_tx, add_tx_with. cbn [tx_first rev app]. rewrite Hprev, Hst.
  rewrite Hrc at 1.
  replace (ident_eqb (frontier_id below) (frontier_id (above ++ t :: below))) with false.
  2:{ symmetry. destruct (ident_eqb (frontier_id below) (frontier_id (above ++ t :: below))) eqn:E; [|reflexivity].
      apply ident_eqb_eq in E. pose proof (linked_height _ Hl) as Hx. rewrite <- E, Hhb, app_length in Hx. cbn [length] in Hx. lia. }
  rewrite Hh. rewrite Hrc at 1. unfold by_height at 1. rewrite (find_skip above (t :: below) (bheight t) Hgt1). cbn [find]. rewrite Z.eqb_refl.
  replace (ident_eqb (id_of t) (id_of c)) with false.
  2:{ symmetry. destruct (ident_eqb (id_of t) (id_of c)) eqn:E; [|reflexivity]. apply ident_eqb_eq in E. inversion E. congruence. }
  replace (bheight t <=? Z.of_nat (sh a)) with false by lia.
  cbn [negb andb].
  assert (Hchk : prev_check (rchain a) c (frontier_id below) = ROk /\ pop_until (rchain a) (sh a) (frontier_id below) false = Some below).
  { unfold prev_check. rewrite Hh. destruct (bheight t =? 1) eqn:E1.
    - destruct below as [|p bl]; [|cbn [length] in Hht; lia]. cbn [frontier_id]. split; [reflexivity|].
      cbn [length] in Hsh. replace (sh a) with 0%nat by lia. apply pop_until_all. exact Hl0.
    - destruct below as [|p bl]; [cbn [length] in Hht; lia|].
      pose proof (linked_height _ Hlb) as Hhp. cbn [frontier_id id_of snd] in Hhp.
      assert (Hu : u64 (bheight t - 1) = bheight t - 1) by (unfold u64; apply Z.mod_small; unfold two63, two64 in *; lia).
      assert (Ep : by_height (rchain a) (u64 (bheight t - 1)) = Some p).
      { rewrite Hu, Hrc. unfold by_height. rewrite (find_skip above (t :: p :: bl) (bheight t - 1) Hgt2). cbn [find].
        replace (bheight t =? bheight t - 1) with false by lia. replace (bheight p =? bheight t - 1) with true by lia. reflexivity. }
      rewrite Ep. cbn [frontier_id]. replace (ident_eqb (id_of p) (id_of p)) with true by (symmetry; apply ident_eqb_eq; reflexivity).
      split; [reflexivity|].
      assert (Hps : bsend p = false).
      { unfold no_sends in Hns. rewrite Forall_forall in Hns. apply Hns. rewrite Hrc. apply in_or_app. right. right. left. reflexivity. }
      assert (Hn : (sh a <= Z.to_nat (u64 (bheight t - 1)))%nat) by (rewrite Hu; cbn [length] in Hsh, Hht; lia).
      destruct (pop_until_reach (rchain a) (sh a) (u64 (bheight t - 1)) p false Hl0 Ep Hn ltac:(left; exact Hps))
        as [pre [r' [E1' [E2 [E3 E4]]]]].
      rewrite E2. f_equal. rewrite Hrc in E1'.
      change (above ++ t :: p :: bl) with (above ++ [t] ++ p :: bl) in E1'. rewrite app_assoc in E1'.
      symmetry. eapply app_same_length_r; [exact E1'|]. cbn [length] in *. lia. }
  destruct Hchk as [Hc Hpop]. rewrite Hc.
  destruct (higher_priority c t =? 0) eqn:Ew; cbn [negb].
  - rewrite Hpop. reflexivity.
  - reflexivity.
Qed.

(* ------------------------------------------------------------ all of them, in any order *)
Definition competitor_of (below : list block) (t c : block) : Prop :=
  prev_of c = frontier_id below /\ bheight c = bheight t /\ bsend c = false.

Lemma run_competitors cs : forall a above t below, wf a -> no_sends a -> rchain a = above ++ t :: below -> (sh a <= length below)%nat ->
  Z.of_nat (length (rchain a)) < two63 ->
  Forall (competitor_of below t) cs -> NoDup (map bhash (t :: cs)) ->
  let a' := run a (map (OAdd false) cs) in
  let w := champion t cs in
  sh a' = sh a /\
  exists above', rchain a' = above' ++ w :: below /\ (bhash w = bhash t -> above' = above /\ w = t) /\ (bhash w <> bhash t -> above' = []).
Proof.
  induction cs as [|c cs IH]; intros a above t below Hwf Hns Hrc Hsh Hlen Hcs Hnd; cbn zeta.
  - cbn [map run champion fold_left]. split; [reflexivity|]. exists above. split; [exact Hrc|]. split; [auto|congruence].
  - inversion Hcs as [|? ? [Hc1 [Hc2 Hc3]] Hcs']; subst.
    cbn [map] in Hnd. inversion Hnd as [|? ? Hn1 Hnd1]; subst. inversion Hnd1 as [|? ? Hn2 Hnd2]; subst.
    assert (Hne : bhash c <> bhash t) by (intros E; apply Hn1; left; exact E).
    cbn [map run step champion fold_left].
    rewrite (add_competitor a above t below c Hwf Hns Hrc Hsh Hlen Hc1 Hc2 Hne).
    destruct (higher_priority c t =? 0) eqn:Ew; cbn [fst].
    + (* c replaces t and what was built on it *)
      set (a1 := mkAcct (c :: below) (sh a)).
      pose proof Hwf as [Hl Hs]. rewrite Hrc in Hl.
      pose proof (linked_app _ _ Hl) as Hl2. destruct Hl2 as [Hp2 [Hh2 Hlb]].
      assert (Hwf1 : wf a1).
      { split; cbn [a1 rchain sh length]; [|lia]. cbn [linked]. split; [exact Hc1|]. split; [|exact Hlb].
        rewrite Hc2. exact Hh2. }
      assert (Hns1 : no_sends a1).
      { unfold no_sends in *. cbn [a1 rchain]. constructor; [exact Hc3|]. rewrite Hrc in Hns. apply Forall_app in Hns. destruct Hns as [_ Hns].
        inversion Hns; assumption. }
      assert (Hlen1 : Z.of_nat (length (rchain a1)) < two63).
      { cbn [a1 rchain length]. rewrite Hrc, app_length in Hlen. cbn [length] in Hlen. lia. }
      assert (Hcs1 : Forall (competitor_of below c) cs).
      { eapply Forall_impl; [|exact Hcs']. intros x [H1 [H2 H3]]. split; [exact H1|]. split; [congruence|exact H3]. }
      assert (Hnd' : NoDup (map bhash (c :: cs))) by (cbn [map]; constructor; assumption).
      destruct (IH a1 [] c below Hwf1 Hns1 eq_refl ltac:(cbn [a1 sh]; lia) Hlen1 Hcs1 Hnd') as [Hsh1 [above' [E1 [E2 E3]]]].
      split; [exact Hsh1|]. exists above'. split; [exact E1|]. split.
      * (* the champion among c :: cs is not t: t is not one of them *)
        intros E. exfalso.
        assert (Hcapless : In (champion c cs) (c :: cs)).
        { clear. revert c. induction cs as [|x cs IH]; intros c; [left; reflexivity|].
          cbn [champion fold_left]. destruct (higher_priority x c =? 0).
          - destruct (IH x) as [H|H]; [right; left; exact H|right; right; exact H].
          - destruct (IH c) as [H|H]; [left; exact H|right; right; exact H]. }
        apply Hn1. rewrite <- E. change (bhash c :: map bhash cs) with (map bhash (c :: cs)). apply in_map. exact Hcapless.
      * intros N. destruct (Z.eq_dec (bhash (champion c cs)) (bhash c)) as [E|N2]; [destruct (E2 E) as [-> _]; reflexivity|exact (E3 N2)].
    + (* t stays *)
      assert (Hnd' : NoDup (map bhash (t :: cs))) by (cbn [map]; constructor; [intros H; apply Hn1; right; exact H|exact Hnd2]).
      exact (IH a above t below Hwf Hns Hrc Hsh Hlen Hcs' Hnd').
Qed.

(* the statement: two nodes (or one node, replayed) that hold the same pooled chain and receive the same competitors
   for one of its heights in different orders end with the same pooled chain, and the block of the contested height is
   the candidate that wins against every other one *)
Lemma competitors_order_independent a above t below cs cs' : wf a -> no_sends a -> rchain a = above ++ t :: below -> (sh a <= length below)%nat ->
  Z.of_nat (length (rchain a)) < two63 ->
  Forall (competitor_of below t) cs -> Forall capped (t :: cs) -> NoDup (map bhash (t :: cs)) -> Permutation cs cs' ->
  let w := champion t cs in
  run a (map (OAdd false) cs') = run a (map (OAdd false) cs) /\
  In w (t :: cs) /\ (forall y, In y (t :: cs) -> bhash y <> bhash w -> wins w y) /\
  exists above', rchain (run a (map (OAdd false) cs)) = above' ++ w :: below /\
                 (bhash w = bhash t -> above' = above /\ w = t) /\ (bhash w <> bhash t -> above' = []).
Proof.
  intros Hwf Hns Hrc Hsh Hlen Hcs Hcap Hnd Hp. cbn zeta.
  assert (Hp' : Permutation (t :: cs) (t :: cs')) by (constructor; exact Hp).
  assert (Hcs2 : Forall (competitor_of below t) cs') by (eapply Permutation_Forall; eassumption).
  assert (Hnd2 : NoDup (map bhash (t :: cs'))) by (eapply Permutation_NoDup; [apply Permutation_map; exact Hp'|exact Hnd]).
  destruct (run_competitors cs a above t below Hwf Hns Hrc Hsh Hlen Hcs Hnd) as [S1 [ab1 [E1 [F1 G1]]]].
  destruct (run_competitors cs' a above t below Hwf Hns Hrc Hsh Hlen Hcs2 Hnd2) as [S2 [ab2 [E2 [F2 G2]]]].
  rewrite (champion_perm t cs cs' Hcap Hnd Hp) in E2, F2, G2.
  destruct (champion_best cs t Hcap Hnd) as [Hin Hbest].
  split; [|split; [exact Hin|split; [exact Hbest|exists ab1; auto]]].
  assert (Eab : ab2 = ab1).
  { destruct (Z.eq_dec (bhash (champion t cs)) (bhash t)) as [E|N].
    - destruct (F1 E) as [-> _]. destruct (F2 E) as [-> _]. reflexivity.
    - rewrite (G1 N), (G2 N). reflexivity. }
  destruct (run a (map (OAdd false) cs')) as [rc2 s2]. destruct (run a (map (OAdd false) cs)) as [rc1 s1].
  cbn [rchain sh] in *. subst. reflexivity.
Qed.
