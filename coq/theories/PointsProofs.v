(* Proofs about Points.v: every answer of the points module — after any interleaving of momentum insertions,
   rollbacks, restarts and queries, with whatever the consensus DB has stored on abandoned branches — is the answer of
   a node that computes it from the current chain with an empty DB. *)
From ZV Require Import Prelude GoSem Points.
Open Scope Z_scope.

(* ---------------------------------------------------------------- lists *)
Lemma last_opt_app {A} (l : list A) (x : A) : last_opt (l ++ [x]) = Some x.
Proof.
  induction l as [|a l IH]; [reflexivity|].
  cbn [app]. destruct (l ++ [x]) as [|b r] eqn:E; [destruct l; discriminate|]. exact IH.
Qed.
Lemma last_opt_cons {A} (a : A) (l : list A) : l <> [] -> last_opt (a :: l) = last_opt l.
Proof. destruct l; [congruence|reflexivity]. Qed.
Lemma last_opt_none {A} (l : list A) : last_opt l = None -> l = [].
Proof. induction l as [|a l IH]; [reflexivity|]. destruct l; [discriminate|]. intros H. cbn [last_opt] in H. specialize (IH H). discriminate. Qed.
Lemma last_opt_skipn {A} (l : list A) (k : nat) : skipn k l <> [] -> last_opt (skipn k l) = last_opt l.
Proof.
  revert l; induction k as [|k IH]; intros l H; [reflexivity|].
  destruct l as [|a l]; [reflexivity|]. cbn [skipn] in *. rewrite (IH l H).
  symmetry. apply last_opt_cons. intros ->. destruct k; apply H; reflexivity.
Qed.
Lemma last_opt_tl {A} (l : list A) : tl l <> [] -> last_opt (tl l) = last_opt l.
Proof. destruct l as [|a l]; [reflexivity|]. cbn [tl]. intros H. symmetry. apply last_opt_cons. exact H. Qed.
Lemma exists_last' {A} (l : list A) : l <> [] -> exists l' x, l = l' ++ [x].
Proof. intros H. destruct (exists_last H) as (l' & x & E). exists l', x. exact E. Qed.

(* ---------------------------------------------------------------- caches *)
Lemma c_get_del c t t' : c_get (c_del c t) t' = if t =? t' then None else c_get c t'.
Proof.
  induction c as [|[t0 p] c IH]; cbn [c_del c_get]; [destruct (t =? t'); reflexivity|].
  destruct (t0 =? t) eqn:E1.
  - rewrite IH. destruct (t =? t') eqn:E2; [reflexivity|]. destruct (t0 =? t') eqn:E3; [lia|reflexivity].
  - cbn [c_get]. destruct (t0 =? t') eqn:E3; [destruct (t =? t') eqn:E2; [lia|reflexivity]|]. exact IH.
Qed.
Lemma c_get_put c t p t' : c_get (c_put c t p) t' = if t =? t' then Some p else c_get c t'.
Proof. unfold c_put. cbn [c_get]. destruct (t =? t') eqn:E; [reflexivity|]. rewrite c_get_del, E. reflexivity. Qed.

Section Proofs.
  Variables (gts dur mult : Z) (election : list mom -> Z -> option elect).
  Variable Hf : Z -> Z -> Z -> Z.
  Variable gen : mom.                                       (* the genesis momentum *)
  Hypothesis Hf_inj : forall a b c a' b' c', Hf a b c = Hf a' b' c' -> a = a' /\ b = b' /\ c = c'.
  Hypothesis Hf_gen : forall a b c, Hf a b c <> m_hash gen.
  Hypothesis gen_ts : m_ts gen = gts.
  Hypothesis dur_pos : 0 < dur.
  Hypothesis mult_pos : 0 < mult.

  Notation upto := (upto).
  Notation end_block := (end_block gts).
  Notation has_started := (has_started gts).
  Notation is_finished := (is_finished gts).
  Notation gen_period := (gen_period gts dur election).
  Notation get_period := (get_period gts dur election).
  Notation fresh_period := (fresh_period gts dur election).
  Notation get_epoch := (get_epoch gts dur mult election).
  Notation fresh_epoch := (fresh_epoch gts dur mult election).
  Notation gather := (gather gts dur election).
  Notation gen_epoch := (gen_epoch gts dur mult election).
  Notation edur := (edur dur mult).
  Notation t_end := (t_end gts).
  Notation t_start := (t_start gts).

  (* a chain: the genesis momentum followed by momentums each of which names its predecessor's hash and whose own
     hash is the hash of (previous hash, timestamp, producer) *)
  Inductive valid : list mom -> Prop :=
  | v_gen : valid [gen]
  | v_snoc c m l : valid c -> last_opt c = Some l -> m_prev m = m_hash l ->
                   m_hash m = Hf (m_prev m) (m_ts m) (m_prod m) -> valid (c ++ [m]).

  Lemma valid_nonempty c : valid c -> c <> [].
  Proof. intros V; inversion V; [discriminate|]. destruct c0; discriminate. Qed.
  Lemma valid_hd c : valid c -> exists r, c = gen :: r.
  Proof.
    induction 1 as [|c m l V IH]; [exists []; reflexivity|].
    destruct IH as (r & ->). exists (r ++ [m]). reflexivity.
  Qed.

  (* the hash of the last momentum pins the whole chain *)
  Lemma hash_pins c1 : valid c1 -> forall c2, valid c2 ->
    option_map m_hash (last_opt c1) = option_map m_hash (last_opt c2) -> c1 = c2.
  Proof.
    induction 1 as [|c1 m1 l1 V1 IH L1 P1 H1]; intros c2 V2 E.
    - inversion V2 as [|c2' m2 l2 V2' L2 P2 H2]; [reflexivity|]. subst.
      rewrite last_opt_app in E. cbn in E. injection E as E. rewrite H2 in E. symmetry in E. apply Hf_gen in E. contradiction.
    - inversion V2 as [|c2' m2 l2 V2' L2 P2 H2]; subst.
      + rewrite last_opt_app in E. cbn in E. injection E as E. rewrite H1 in E. apply Hf_gen in E. contradiction.
      + rewrite !last_opt_app in E. cbn in E. injection E as E.
        assert (E' := E). rewrite H1, H2 in E'. apply Hf_inj in E' as (Ea & Eb & Ec).
        assert (c1 = c2') as ->.
        { apply IH; [exact V2'|]. rewrite L1, L2. cbn. rewrite <- P1, <- P2. f_equal. exact Ea. }
        rewrite L1 in L2. injection L2 as <-.
        f_equal. f_equal. destruct m1, m2; cbn in *; subst; reflexivity.
  Qed.

  (* prefixes *)
  Lemma valid_firstn c : valid c -> forall k, (1 <= k)%nat -> valid (firstn k c).
  Proof.
    induction 1 as [|c m l V IH L P H]; intros k K.
    - destruct k; [lia|]. cbn. rewrite firstn_nil. constructor.
    - destruct (Nat.le_gt_cases k (length c)) as [Le|Gt].
      + rewrite firstn_app. replace (k - length c)%nat with 0%nat by lia. cbn. rewrite app_nil_r. apply IH; exact K.
      + rewrite firstn_all2 by (rewrite app_length; cbn; lia). econstructor; eassumption.
  Qed.
  Lemma upto_firstn c time : exists k, upto c time = firstn k c.
  Proof.
    induction c as [|m c (k & IH)]; [exists 0%nat; reflexivity|].
    cbn [Points.upto]. destruct (m_ts m <? time); [exists (S k); cbn; rewrite IH; reflexivity|exists 0%nat; reflexivity].
  Qed.
  Lemma valid_upto c time : valid c -> upto c time <> [] -> valid (upto c time).
  Proof.
    intros V N. destruct (upto_firstn c time) as (k & E). rewrite E in *.
    apply valid_firstn; [exact V|]. destruct k; [contradiction N; reflexivity|lia].
  Qed.
  Lemma upto_upto c t1 t2 : t1 <= t2 -> upto (upto c t2) t1 = upto c t1.
  Proof.
    intros Le. induction c as [|m c IH]; [reflexivity|]. cbn [Points.upto].
    destruct (m_ts m <? t2) eqn:E2.
    - cbn [Points.upto]. destruct (m_ts m <? t1) eqn:E1; [rewrite IH; reflexivity|reflexivity].
    - destruct (m_ts m <? t1) eqn:E1; [lia|reflexivity].
  Qed.
  Lemma upto_idem c t : upto (upto c t) t = upto c t.
  Proof. apply upto_upto. lia. Qed.

  (* ---------------------------------------------------------------- period points *)
  Lemma gen_period_end c t p : gen_period c t = PSome p ->
    exists eb, end_block c dur t = Some eb /\ p_end p = m_hash eb.
  Proof.
    unfold Points.gen_period, gen_period_pre, Points.end_block.
    set (pre := upto c (t_end dur t)).
    destruct (election pre t) as [el|]; [|discriminate].
    destruct (last_opt pre) as [eb|] eqn:L; [|discriminate].
    intros E. injection E as <-. exists eb. split; [reflexivity|]. cbn [p_end].
    destruct (content_pre gts dur pre t) as [|b bl] eqn:C; [reflexivity|]. cbn [p_end].
    assert (last_opt (b :: bl) = last_opt pre) as ->; [|rewrite L; reflexivity].
    rewrite <- C. unfold content_pre in *.
    set (sk := skipn _ pre) in *.
    assert (S1 : sk <> [] -> last_opt sk = last_opt pre) by (apply last_opt_skipn).
    destruct (t =? 0).
    - assert (N : tl sk <> []) by (rewrite C; discriminate).
      rewrite last_opt_tl by exact N. apply S1. intros Z. rewrite Z in N. apply N. reflexivity.
    - apply S1. rewrite C. discriminate.
  Qed.

  (* fresh answer, unfolded *)
  Lemma fresh_period_eq c t :
    fresh_period c t = if negb (has_started c dur t) then PNone else
                       match end_block c dur t with None => PErr | Some _ => gen_period c t end.
  Proof.
    unfold Points.fresh_period, Points.get_period.
    destruct (negb (has_started c dur t)); [reflexivity|].
    destruct (end_block c dur t); [|reflexivity]. cbn [c_get].
    destruct (gen_period c t); reflexivity.
  Qed.

  Definition pc_ok (pc : cache) : Prop :=
    forall t p, c_get pc t = Some p -> exists c0, valid c0 /\ gen_period c0 t = PSome p.

  Lemma pc_ok_nil : pc_ok [].
  Proof. intros t p H. discriminate. Qed.
  Lemma pc_ok_del pc t : pc_ok pc -> pc_ok (c_del pc t).
  Proof. intros O t' p H. rewrite c_get_del in H. destruct (t =? t'); [discriminate|]. exact (O _ _ H). Qed.
  Lemma pc_ok_put pc t p c : pc_ok pc -> valid c -> gen_period c t = PSome p -> pc_ok (c_put pc t p).
  Proof.
    intros O V G t' p' H. rewrite c_get_put in H. destruct (t =? t') eqn:E.
    - injection H as <-. assert (t = t') as <- by lia. exists c. split; assumption.
    - exact (O _ _ H).
  Qed.

  (* a stored point whose end hash is the current end block's hash is the current point *)
  Lemma stored_is_current c c0 t p eb : valid c -> valid c0 ->
    gen_period c0 t = PSome p -> end_block c dur t = Some eb -> p_end p = m_hash eb -> gen_period c t = PSome p.
  Proof.
    intros V V0 G EB PE. destruct (gen_period_end _ _ _ G) as (eb0 & EB0 & PE0).
    unfold Points.gen_period in *. unfold Points.end_block in *.
    assert (upto c0 (t_end dur t) = upto c (t_end dur t)) as <-; [|exact G].
    apply hash_pins.
    - apply valid_upto; [exact V0|]. intros Z. rewrite Z in EB0. discriminate.
    - apply valid_upto; [exact V|]. intros Z. rewrite Z in EB. discriminate.
    - rewrite EB0, EB. cbn. f_equal. congruence.
  Qed.

  Lemma get_period_spec pc c t r pc' : valid c -> pc_ok pc -> get_period pc c t = (r, pc') ->
    r = fresh_period c t /\ pc_ok pc'.
  Proof.
    intros V O. rewrite fresh_period_eq. unfold Points.get_period.
    destruct (negb (has_started c dur t)); [intros E; injection E as <- <-; split; [reflexivity|exact O]|].
    destruct (end_block c dur t) as [eb|] eqn:EB; [|intros E; injection E as <- <-; split; [reflexivity|exact O]].
    assert (R : forall pc1, pc_ok pc1 ->
      match gen_period c t with
      | PSome p => (PSome p, if is_finished c dur t then c_put pc1 t p else pc1)
      | r0 => (r0, pc1)
      end = (r, pc') -> r = gen_period c t /\ pc_ok pc').
    { intros pc1 O1. destruct (gen_period c t) as [|p| |] eqn:G; intros E; injection E as <- <-; (split; [reflexivity|]); try exact O1.
      destruct (is_finished c dur t); [|exact O1]. eapply pc_ok_put; eassumption. }
    destruct (c_get pc t) as [p|] eqn:CG.
    - destruct (p_end p =? m_hash eb) eqn:PE.
      + intros E. injection E as <- <-. split; [|exact O].
        destruct (O _ _ CG) as (c0 & V0 & G0). symmetry. eapply stored_is_current; try eassumption. lia.
      + apply R. apply pc_ok_del. exact O.
    - apply R. exact O.
  Qed.

  (* ---------------------------------------------------------------- epoch points *)
  (* generatePointFromLower without a DB: the lower points are the fresh ones *)
  Fixpoint gather_pure (fuel : nat) (c : list mom) (i start : Z) (acc : point) (n : Z) : option (pres * Z) :=
    match fuel with
    | O => Some (PPanic, n)
    | S fuel' =>
        if i <? start then Some (PPanic, n) else
        match fresh_period c i with
        | PErr => Some (PErr, n)
        | PPanic => Some (PPanic, n)
        | PNone => gather_pure fuel' c (i - 1) start acc n
        | PSome p =>
            match left_append acc p with
            | None => Some (PErr, n)
            | Some acc' => if i =? start then Some (PSome acc', n + 1) else gather_pure fuel' c (i - 1) start acc' (n + 1)
            end
        end
    end.

  Lemma gather_spec fuel : forall pc c i start acc n res pc', valid c -> pc_ok pc ->
    gather fuel pc c i start acc n = (res, pc') -> res = gather_pure fuel c i start acc n /\ pc_ok pc'.
  Proof.
    induction fuel as [|fuel IH]; intros pc c i start acc n res pc' V O; cbn [Points.gather gather_pure].
    - intros E; injection E as <- <-. split; [reflexivity|exact O].
    - destruct (i <? start); [intros E; injection E as <- <-; split; [reflexivity|exact O]|].
      destruct (get_period pc c i) as [r pc1] eqn:GP.
      destruct (get_period_spec _ _ _ _ _ V O GP) as (-> & O1).
      destruct (fresh_period c i) as [|p| |].
      + apply IH; assumption.
      + destruct (left_append acc p) as [acc'|]; [|intros E; injection E as <- <-; split; [reflexivity|exact O1]].
        destruct (i =? start); [intros E; injection E as <- <-; split; [reflexivity|exact O1]|]. apply IH; assumption.
      + intros E; injection E as <- <-; split; [reflexivity|exact O1].
      + intros E; injection E as <- <-; split; [reflexivity|exact O1].
  Qed.

  Definition gen_epoch_pure (c : list mom) (e : Z) (eb : mom) : pres :=
    let start := e * mult in
    match gather_pure (Z.to_nat mult + 1) c (start + mult - 1) start (empty_point (m_hash eb)) 0 with
    | Some (PSome acc, n) => PSome (finish_epoch acc n)
    | Some (r, _) => r
    | None => PErr
    end.
  Lemma gen_epoch_spec pc c e eb r pc' : valid c -> pc_ok pc -> gen_epoch pc c e eb = (r, pc') ->
    r = gen_epoch_pure c e eb /\ pc_ok pc'.
  Proof.
    intros V O. unfold Points.gen_epoch, gen_epoch_pure.
    destruct (gather (Z.to_nat mult + 1) pc c (e * mult + mult - 1) (e * mult) (empty_point (m_hash eb)) 0) as [res pc1] eqn:G.
    destruct (gather_spec _ _ _ _ _ _ _ _ _ V O G) as (-> & O1).
    destruct (gather_pure _ c _ _ _ 0) as [[[|acc| |] n]|]; intros E; injection E as <- <-; split; try reflexivity; exact O1.
  Qed.

  Lemma fresh_epoch_eq c e : valid c ->
    fresh_epoch c e = if negb (has_started c edur e) then PNone else
                      match end_block c edur e with None => PErr | Some eb => gen_epoch_pure c e eb end.
  Proof.
    intros V. unfold Points.fresh_epoch, Points.get_epoch.
    destruct (negb (has_started c edur e)); [reflexivity|].
    destruct (end_block c edur e) as [eb|]; [|reflexivity]. cbn [c_get].
    destruct (gen_epoch [] c e eb) as [r pc'] eqn:G.
    destruct (gen_epoch_spec _ _ _ _ _ _ V pc_ok_nil G) as (-> & _).
    destruct (gen_epoch_pure c e eb); reflexivity.
  Qed.

  (* the end hash of an epoch point is the hash of the epoch's end block *)
  Lemma left_append_end acc p acc' : left_append acc p = Some acc' -> p_end acc' = p_end acc.
  Proof. unfold left_append. destruct (negb _); [discriminate|]. intros E; injection E as <-. reflexivity. Qed.
  Lemma gather_pure_end fuel : forall c i start acc n acc' n',
    gather_pure fuel c i start acc n = Some (PSome acc', n') -> p_end acc' = p_end acc.
  Proof.
    induction fuel as [|fuel IH]; intros c i start acc n acc' n'; cbn [gather_pure]; [discriminate|].
    destruct (i <? start); [discriminate|].
    destruct (fresh_period c i) as [|p| |]; try discriminate.
    - apply IH.
    - destruct (left_append acc p) as [a1|] eqn:LA; [|discriminate].
      destruct (i =? start).
      + intros E; injection E as <- <-. eapply left_append_end; eassumption.
      + intros G. rewrite (IH _ _ _ _ _ _ _ G). eapply left_append_end; eassumption.
  Qed.
  Lemma gen_epoch_pure_end c e eb p : gen_epoch_pure c e eb = PSome p -> p_end p = m_hash eb.
  Proof.
    unfold gen_epoch_pure.
    destruct (gather_pure _ c _ _ _ 0) as [[[|acc| |] n]|] eqn:G; try discriminate.
    intros E; injection E as <-. cbn [finish_epoch p_end]. exact (gather_pure_end _ _ _ _ _ _ _ _ G).
  Qed.

  (* once an epoch is finished its point depends only on the chain before the end of the epoch *)
  Lemma t_end_period_le e i : e * mult <= i <= e * mult + mult - 1 -> t_end dur i <= t_end edur e.
  Proof. unfold Points.t_end, Points.edur. intros R. nia. Qed.
  Lemma t_start_period_le e i : e * mult <= i <= e * mult + mult - 1 -> t_start dur i < t_end edur e.
  Proof. unfold Points.t_start, Points.t_end, Points.edur. intros R. nia. Qed.

  Lemma fresh_period_prefix c c0 e i : e * mult <= i <= e * mult + mult - 1 ->
    is_finished c edur e = true -> is_finished c0 edur e = true ->
    upto c (t_end edur e) = upto c0 (t_end edur e) -> fresh_period c i = fresh_period c0 i.
  Proof.
    intros R F F0 U. rewrite !fresh_period_eq.
    pose proof (t_start_period_le _ _ R) as S. pose proof (t_end_period_le _ _ R) as T.
    unfold Points.is_finished in F, F0. unfold Points.has_started.
    assert ((frontier_ts gts c <? t_start dur i) = false) as -> by lia.
    assert ((frontier_ts gts c0 <? t_start dur i) = false) as -> by lia. cbn [negb].
    unfold Points.end_block, Points.gen_period.
    rewrite <- (upto_upto c _ _ T), <- (upto_upto c0 _ _ T), U. reflexivity.
  Qed.
  Lemma gather_pure_prefix c c0 e : is_finished c edur e = true -> is_finished c0 edur e = true ->
    upto c (t_end edur e) = upto c0 (t_end edur e) ->
    forall fuel i acc n, i <= e * mult + mult - 1 ->
    gather_pure fuel c i (e * mult) acc n = gather_pure fuel c0 i (e * mult) acc n.
  Proof.
    intros F F0 U. induction fuel as [|fuel IH]; intros i acc n Le; cbn [gather_pure]; [reflexivity|].
    destruct (i <? e * mult) eqn:Lt; [reflexivity|].
    rewrite (fresh_period_prefix c c0 e i) by (try assumption; lia).
    destruct (fresh_period c0 i) as [|p| |]; try reflexivity.
    - apply IH. lia.
    - destruct (left_append acc p); [|reflexivity]. destruct (i =? e * mult); [reflexivity|]. apply IH. lia.
  Qed.
  Lemma finished_started c d t : 0 < d -> is_finished c d t = true -> has_started c d t = true.
  Proof. unfold Points.is_finished, Points.has_started, Points.t_end, Points.t_start. intros D F. apply negb_true_iff. nia. Qed.
  Lemma fresh_epoch_prefix c c0 e : valid c -> valid c0 ->
    is_finished c edur e = true -> is_finished c0 edur e = true ->
    upto c (t_end edur e) = upto c0 (t_end edur e) -> fresh_epoch c e = fresh_epoch c0 e.
  Proof.
    intros V V0 F F0 U. rewrite !fresh_epoch_eq by assumption.
    assert (D : 0 < edur) by (unfold Points.edur; nia).
    rewrite (finished_started _ _ _ D F), (finished_started _ _ _ D F0). cbn [negb].
    unfold Points.end_block. rewrite U. destruct (last_opt (upto c0 (t_end edur e))) as [eb|]; [|reflexivity].
    unfold gen_epoch_pure. rewrite (gather_pure_prefix c c0 e F F0 U) by lia. reflexivity.
  Qed.

  Definition ec_ok (ec : cache) : Prop :=
    forall e p, c_get ec e = Some p ->
      exists c0, valid c0 /\ is_finished c0 edur e = true /\ fresh_epoch c0 e = PSome p.
  Lemma ec_ok_nil : ec_ok [].
  Proof. intros e p H. discriminate. Qed.
  Lemma ec_ok_del ec e : ec_ok ec -> ec_ok (c_del ec e).
  Proof. intros O e' p H. rewrite c_get_del in H. destruct (e =? e'); [discriminate|]. exact (O _ _ H). Qed.

  (* the answer to an epoch query: the fresh one; or, while the frontier is the very last momentum before the end of
     an epoch that an ABANDONED branch had already finished, the answer for the finished epoch with that content *)
  Definition epoch_answer_ok (c : list mom) (e : Z) (r : pres) : Prop :=
    r = fresh_epoch c e \/
    (is_finished c edur e = false /\
     exists c0, valid c0 /\ is_finished c0 edur e = true /\
                upto c0 (t_end edur e) = upto c (t_end edur e) /\ r = fresh_epoch c0 e).

  Lemma get_epoch_spec pc ec c e r pc' ec' : valid c -> pc_ok pc -> ec_ok ec ->
    get_epoch pc ec c e = (r, pc', ec') -> epoch_answer_ok c e r /\ pc_ok pc' /\ ec_ok ec'.
  Proof.
    intros V O OE. unfold epoch_answer_ok. pose proof (fresh_epoch_eq c e V) as FE. unfold Points.get_epoch.
    destruct (negb (has_started c edur e)) eqn:HS; rewrite ?HS in FE;
      [intros E; injection E as <- <- <-; repeat split; try assumption; left; symmetry; exact FE|].
    destruct (end_block c edur e) as [eb|] eqn:EB; rewrite ?EB in FE;
      [|intros E; injection E as <- <- <-; repeat split; try assumption; left; symmetry; exact FE].
    rewrite FE.
    assert (R : forall ec1, ec_ok ec1 ->
      match gen_epoch pc c e eb with
      | (PSome p, pc1) => (PSome p, pc1, if is_finished c edur e then c_put ec1 e p else ec1)
      | (r0, pc1) => (r0, pc1, ec1)
      end = (r, pc', ec') -> r = gen_epoch_pure c e eb /\ pc_ok pc' /\ ec_ok ec').
    { intros ec1 O1. destruct (gen_epoch pc c e eb) as [r0 pc1] eqn:G.
      destruct (gen_epoch_spec _ _ _ _ _ _ V O G) as (-> & OP).
      destruct (gen_epoch_pure c e eb) as [|p| |] eqn:GP; intros E; injection E as <- <- <-; repeat split; try assumption.
      destruct (is_finished c edur e) eqn:F; [|exact O1].
      intros e' p' H. rewrite c_get_put in H. destruct (e =? e') eqn:Ee; [|exact (O1 _ _ H)].
      injection H as <-. assert (e = e') as <- by lia. exists c. repeat split; try assumption.
      all: try (rewrite FE; exact GP). }
    destruct (c_get ec e) as [p|] eqn:CG.
    - destruct (p_end p =? m_hash eb) eqn:PE.
      + intros E. injection E as <- <- <-. repeat split; try assumption.
        destruct (OE _ _ CG) as (c0 & V0 & F0 & G0).
        assert (U : upto c0 (t_end edur e) = upto c (t_end edur e)).
        { assert (D : 0 < edur) by (unfold Points.edur; nia).
          pose proof G0 as G0'. rewrite (fresh_epoch_eq c0 e V0), (finished_started _ _ _ D F0) in G0'. cbn [negb] in G0'.
          destruct (end_block c0 edur e) as [eb0|] eqn:EB0; [|discriminate].
          apply gen_epoch_pure_end in G0'. unfold Points.end_block in *.
          apply hash_pins.
          - apply valid_upto; [exact V0|]. intros Z. rewrite Z in EB0. discriminate.
          - apply valid_upto; [exact V|]. intros Z. rewrite Z in EB. discriminate.
          - rewrite EB0, EB. cbn. f_equal. lia. }
        destruct (is_finished c edur e) eqn:F.
        * left. rewrite <- G0, <- FE.
          symmetry. apply fresh_epoch_prefix; try assumption. symmetry. exact U.
        * right. split; [reflexivity|]. exists c0. repeat split; try assumption. symmetry. exact G0.
      + intros E. destruct (R _ (ec_ok_del _ e OE) E) as (-> & A & B). repeat split; try assumption. left. reflexivity.
    - intros E. destruct (R _ OE E) as (-> & A & B). repeat split; try assumption. left. reflexivity.
  Qed.

  (* ---------------------------------------------------------------- the node: all histories *)
  Notation step := (step gts dur mult election).
  Notation run := (run gts dur mult election).
  Notation nstate := (nstate).

  Definition inv (s : nstate) : Prop := valid (n_chain s) /\ pc_ok (n_pc s) /\ ec_ok (n_ec s).
  Definition init : nstate := mkNS [gen] [] [] (-1) (-1).
  Lemma inv_init : inv init.
  Proof. repeat split; [constructor|exact pc_ok_nil|exact ec_ok_nil]. Qed.

  (* operations a node can meet: a new momentum extends the frontier (hash-linked); a rollback keeps the genesis *)
  Definition wf_op (s : nstate) (o : op) : Prop :=
    match o with
    | OInsert m => exists l, last_opt (n_chain s) = Some l /\ m_prev m = m_hash l /\ m_hash m = Hf (m_prev m) (m_ts m) (m_prod m)
    | ORollback k => (k < length (n_chain s))%nat
    | _ => True
    end.
  Definition ans_ok (c : list mom) (o : op) (r : pres) : Prop :=
    match o with
    | OPeriod t => r = fresh_period c t
    | OEpoch e => epoch_answer_ok c e r
    | _ => True
    end.

  Lemma pre_periods_inv fuel : forall pc c i u pc' b, valid c -> pc_ok pc ->
    pre_periods gts dur election fuel pc c i u = (pc', b) -> pc_ok pc'.
  Proof.
    induction fuel as [|fuel IH]; intros pc c i u pc' b V O; cbn [pre_periods]; [intros E; injection E as <- _; exact O|].
    destruct (u <=? i); [intros E; injection E as <- _; exact O|].
    destruct (get_period pc c i) as [r pc1] eqn:G. destruct (get_period_spec _ _ _ _ _ V O G) as (_ & O1).
    destruct r; try (intros E; injection E as <- _; exact O1); apply IH; assumption.
  Qed.
  Lemma pre_epochs_inv fuel : forall pc ec c i u pc' ec' b, valid c -> pc_ok pc -> ec_ok ec ->
    pre_epochs gts dur mult election fuel pc ec c i u = (pc', ec', b) -> pc_ok pc' /\ ec_ok ec'.
  Proof.
    induction fuel as [|fuel IH]; intros pc ec c i u pc' ec' b V O OE; cbn [pre_epochs]; [intros E; injection E as <- <- _; split; assumption|].
    destruct (u <=? i); [intros E; injection E as <- <- _; split; assumption|].
    destruct (get_epoch pc ec c i) as [[r pc1] ec1] eqn:G. destruct (get_epoch_spec _ _ _ _ _ _ _ V O OE G) as (_ & O1 & OE1).
    destruct r; try (intros E; injection E as <- <- _; split; assumption); apply IH; assumption.
  Qed.

  Lemma step_inv s o : inv s -> wf_op s o -> inv (fst (step s o)) /\ ans_ok (n_chain s) o (snd (step s o)).
  Proof.
    intros (V & O & OE) W. destruct o as [m|k|t|e|]; cbn [Points.step wf_op ans_ok] in *.
    - split; [|exact I]. cbn [fst]. destruct W as (l & L & P & H).
      assert (V' : valid (n_chain s ++ [m])) by (econstructor; eassumption).
      unfold insert_momentum.
      destruct (pre_periods _ _ _ _ (n_pc s) _ _ _) as [pc1 ok] eqn:PP.
      pose proof (pre_periods_inv _ _ _ _ _ _ _ V' O PP) as O1.
      destruct (negb ok); [repeat split; assumption|].
      destruct (pre_epochs _ _ _ _ _ pc1 (n_ec s) _ _ _) as [[pc2 ec2] ok2] eqn:PE.
      destruct (pre_epochs_inv _ _ _ _ _ _ _ _ _ V' O1 OE PE) as (O2 & OE2).
      destruct (negb ok2); repeat split; assumption.
    - split; [|exact I]. cbn [fst]. repeat split; cbn; try assumption. apply valid_firstn; [exact V|lia].
    - destruct (get_period (n_pc s) (n_chain s) t) as [r pc] eqn:G.
      destruct (get_period_spec _ _ _ _ _ V O G) as (-> & O1). cbn. repeat split; assumption.
    - destruct (get_epoch (n_pc s) (n_ec s) (n_chain s) e) as [[r pc] ec] eqn:G.
      destruct (get_epoch_spec _ _ _ _ _ _ _ V O OE G) as (A & O1 & OE1). cbn. repeat split; assumption.
    - split; [|exact I]. cbn. repeat split; assumption.
  Qed.

  Fixpoint wf_ops (s : nstate) (ops : list op) : Prop :=
    match ops with [] => True | o :: r => wf_op s o /\ wf_ops (fst (step s o)) r end.
  Fixpoint answers_ok (s : nstate) (ops : list op) : Prop :=
    match ops with
    | [] => True
    | o :: r => ans_ok (n_chain s) o (snd (step s o)) /\ answers_ok (fst (step s o)) r
    end.

  Theorem points_coherent ops : forall s, inv s -> wf_ops s ops -> answers_ok s ops.
  Proof.
    induction ops as [|o r IH]; intros s I W; [exact Logic.I|].
    destruct W as (W1 & W2). destruct (step_inv s o I W1) as (I' & A). split; [exact A|]. apply IH; assumption.
  Qed.

  (* every reachable state keeps the invariant *)
  Lemma run_inv ops : forall s, inv s -> wf_ops s ops -> inv (fst (run s ops)).
  Proof.
    induction ops as [|o r IH]; intros s I W; [exact I|].
    destruct W as (W1 & W2). destruct (step_inv s o I W1) as (I' & _).
    cbn [Points.run]. destruct (step s o) as [s1 x] eqn:S. cbn [fst] in *.
    specialize (IH s1 I' W2). destruct (run s1 r) as [s2 xs]. exact IH.
  Qed.

  (* two nodes with whatever different pasts (other branches seen and abandoned, other queries asked, restarts) that
     now hold the same chain give the same statistics for every finished epoch and for every election tick *)
  Theorem nodes_agree_on_statistics s1 s2 : inv s1 -> inv s2 -> n_chain s1 = n_chain s2 ->
    (forall t, snd (step s1 (OPeriod t)) = snd (step s2 (OPeriod t))) /\
    (forall e, is_finished (n_chain s1) edur e = true -> snd (step s1 (OEpoch e)) = snd (step s2 (OEpoch e))).
  Proof.
    intros I1 I2 E. split.
    - intros t. destruct (step_inv s1 (OPeriod t) I1 Logic.I) as (_ & A1). destruct (step_inv s2 (OPeriod t) I2 Logic.I) as (_ & A2).
      cbn [ans_ok] in A1, A2. rewrite A1, A2, E. reflexivity.
    - intros e F. destruct (step_inv s1 (OEpoch e) I1 Logic.I) as (_ & A1). destruct (step_inv s2 (OEpoch e) I2 Logic.I) as (_ & A2).
      cbn [ans_ok] in A1, A2. unfold epoch_answer_ok in A1, A2. rewrite <- E in A2.
      destruct A1 as [A1|(F1 & _)]; [|rewrite F in F1; discriminate].
      destruct A2 as [A2|(F2 & _)]; [|rewrite F in F2; discriminate].
      rewrite A1, A2. reflexivity.
  Qed.

  (* generatePointFromLower never runs below the first lower tick of the epoch (the `continue` without the
     `i == start` test is harmless: a started epoch has a started first lower tick) and never divides by zero *)
  Lemma fresh_period_not_panic c t : fresh_period c t <> PPanic.
  Proof.
    rewrite fresh_period_eq. destruct (negb _); [discriminate|]. destruct (end_block c dur t); [|discriminate].
    unfold Points.gen_period, gen_period_pre. destruct (election _ t); [|discriminate]. destruct (last_opt _); discriminate.
  Qed.
  Lemma gather_pure_no_panic c start : has_started c dur start = true ->
    forall fuel i acc n, start <= i -> (Z.to_nat (i - start) < fuel)%nat -> 0 <= n ->
    match gather_pure fuel c i start acc n with
    | Some (PPanic, _) => False
    | Some (PSome _, n') => 1 <= n'
    | _ => True
    end.
  Proof.
    intros HS. induction fuel as [|fuel IH]; intros i acc n Le Fu N; [lia|]. cbn [gather_pure].
    destruct (i <? start) eqn:Lt; [lia|].
    destruct (fresh_period c i) as [|p| |] eqn:FP.
    - destruct (Z.eq_dec i start) as [->|Ne].
      + rewrite fresh_period_eq, HS in FP. cbn [negb] in FP. destruct (end_block c dur start); [|discriminate].
        unfold Points.gen_period, gen_period_pre in FP. destruct (election _ start); [|discriminate]. destruct (last_opt _); discriminate.
      + apply IH; lia.
    - destruct (left_append acc p); [|exact I]. destruct (i =? start) eqn:Ei; [lia|]. apply IH; lia.
    - exact I.
    - exfalso. exact (fresh_period_not_panic _ _ FP).
  Qed.
  Theorem epoch_never_panics c e : valid c -> fresh_epoch c e <> PPanic.
  Proof.
    intros V. rewrite fresh_epoch_eq by exact V.
    destruct (negb (has_started c edur e)) eqn:HS; [discriminate|]. destruct (end_block c edur e) as [eb|]; [|discriminate].
    unfold gen_epoch_pure.
    assert (HS' : has_started c dur (e * mult) = true).
    { apply negb_false_iff in HS. unfold Points.has_started, Points.t_start, Points.edur in *. apply negb_true_iff. apply negb_true_iff in HS. nia. }
    pose proof (gather_pure_no_panic c (e * mult) HS' (Z.to_nat mult + 1) (e * mult + mult - 1) (empty_point (m_hash eb)) 0) as G.
    destruct (gather_pure _ c _ _ _ 0) as [[[|acc| |] n]|]; try discriminate.
    exfalso. apply G; lia.
  Qed.
End Proofs.

(* the chain after a step (the caches do not matter) *)
Lemma step_chain gts dur mult election s o :
  n_chain (fst (step gts dur mult election s o)) =
  match o with
  | OInsert m => n_chain s ++ [m]
  | ORollback k => firstn (length (n_chain s) - k) (n_chain s)
  | _ => n_chain s
  end.
Proof.
  destruct o as [m|k|t|e|]; cbn [step fst].
  - unfold insert_momentum. destruct (pre_periods _ _ _ _ _ _ _ _) as [pc1 ok]. destruct (negb ok); [reflexivity|].
    destruct (pre_epochs _ _ _ _ _ _ _ _ _ _) as [[pc2 ec2] ok2]. destruct (negb ok2); reflexivity.
  - reflexivity.
  - destruct (get_period _ _ _ _ _ _) as [r pc]. reflexivity.
  - destruct (get_epoch _ _ _ _ _ _ _ _) as [[r pc] ec]. reflexivity.
  - reflexivity.
Qed.

(* closed form for Props/C11.v: two nodes that reached the same chain by different histories *)
Theorem reachable_nodes_agree gts dur mult election Hf gen :
  (forall a b c a' b' c' : Z, Hf a b c = Hf a' b' c' -> a = a' /\ b = b' /\ c = c') ->
  (forall a b c : Z, Hf a b c <> m_hash gen) -> 0 < dur -> 0 < mult ->
  forall ops1 ops2,
  wf_ops gts dur mult election Hf (init gen) ops1 -> wf_ops gts dur mult election Hf (init gen) ops2 ->
  let s1 := fst (run gts dur mult election (init gen) ops1) in
  let s2 := fst (run gts dur mult election (init gen) ops2) in
  n_chain s1 = n_chain s2 ->
  (forall t, snd (step gts dur mult election s1 (OPeriod t)) = snd (step gts dur mult election s2 (OPeriod t))) /\
  (forall e, is_finished gts (n_chain s1) (edur dur mult) e = true ->
             snd (step gts dur mult election s1 (OEpoch e)) = snd (step gts dur mult election s2 (OEpoch e))).
Proof.
  intros Hi Hg Hd Hm ops1 ops2 W1 W2 s1 s2 E.
  apply (nodes_agree_on_statistics gts dur mult election Hf gen Hi Hg Hd Hm s1 s2); [| |exact E].
  - apply run_inv; try assumption. apply inv_init.
  - apply run_inv; try assumption. apply inv_init.
Qed.
