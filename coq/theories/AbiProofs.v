(* Totality of the ABI decoder model: no slice expression / index of unpack.go, argument.go, abi.go can fail,
   for every type NewType can build and every byte string. *)
From ZV Require Import Prelude GoSem Abi.
Open Scope Z_scope.
Ltac Zify.zify_post_hook ::= Z.div_mod_to_equations.

Definition MaxIdx : Z := 1125899906842624.   (* 2^50 *)

Lemma two63_eq : two63 = 9223372036854775808. Proof. reflexivity. Qed.

Lemma iadd_small a b : - two63 <= a + b < two63 -> iadd a b = a + b.
Proof. intros. unfold iadd. apply wrapS64_small. assumption. Qed.
Lemma isub_small a b : - two63 <= a - b < two63 -> isub a b = a - b.
Proof. intros. unfold isub. apply wrapS64_small. assumption. Qed.
Lemma imul_small a b : - two63 <= a * b < two63 -> imul a b = a * b.
Proof. intros. unfold imul. apply wrapS64_small. assumption. Qed.

Lemma len_nonneg l : 0 <= len l.
Proof. unfold len. lia. Qed.

Lemma Forall_firstn {A} (P : A -> Prop) n l : Forall P l -> Forall P (firstn n l).
Proof.
  revert l; induction n as [|n IH]; intros l H; cbn; [constructor|].
  destruct l; [constructor|]. inversion H; subst. constructor; auto.
Qed.
Lemma Forall_skipn {A} (P : A -> Prop) n l : Forall P l -> Forall P (skipn n l).
Proof.
  revert l; induction n as [|n IH]; intros l H; cbn; [assumption|].
  destruct l; [constructor|]. inversion H; subst. auto.
Qed.

Lemma slice_some l lo hi : 0 <= lo -> lo <= hi -> hi <= len l ->
  exists s, slice l lo hi = Some s /\ len s = hi - lo /\ (Forall is_byte l -> Forall is_byte s).
Proof.
  intros H1 H2 H3. unfold slice.
  replace ((0 <=? lo) && (lo <=? hi) && (hi <=? len l)) with true by (symmetry; rewrite !andb_true_iff; lia).
  eexists; split; [reflexivity|]. split.
  - unfold len in *. rewrite firstn_length, skipn_length. lia.
  - intros HB. apply Forall_firstn, Forall_skipn, HB.
Qed.

Lemma le_value_nonneg l : Forall is_byte l -> 0 <= le_value l.
Proof.
  induction 1 as [|b l Hb _ IH]; cbn [le_value]; [lia|]. unfold is_byte in Hb. lia.
Qed.
Lemma be_value_nonneg l : Forall is_byte l -> 0 <= be_value l.
Proof. intros H. unfold be_value. apply le_value_nonneg. apply Forall_rev. exact H. Qed.

Lemma big_to_int_small x : 0 <= x < two63 -> big_to_int x = x.
Proof.
  intros H. unfold big_to_int, big_uint64, to_int64, two64, two63 in *.
  rewrite Z.abs_eq by lia. rewrite (Z.mod_small x) by lia. rewrite Z.mod_small by lia.
  destruct (x <? 9223372036854775808) eqn:E; lia.
Qed.

(* lengthPrefixPointsTo never panics and returns a region inside the output *)
Lemma lpp_spec index output :
  Forall is_byte output -> len output < MaxData -> 0 <= index -> index + 32 <= len output ->
  match length_prefix_points_to index output with
  | UOk bl => 32 <= fst bl /\ 0 <= snd bl /\ fst bl + snd bl <= len output
  | UErr _ => True
  | UPanic => False
  end.
Proof.
  intros HB HL Hi Hw. unfold length_prefix_points_to, WordSize, MaxData in *.
  rewrite iadd_small by (rewrite two63_eq; lia).
  destruct (slice_some output index (index + 32)) as (w & Ew & Lw & Bw); try lia.
  rewrite Ew. specialize (Bw HB). pose proof (be_value_nonneg w Bw) as Hv.
  destruct (len output <? be_value w + 32) eqn:E1; [exact I|].
  destruct (63 <? bitlen (be_value w + 32)) eqn:E2; [exact I|].
  assert (Ho : big_to_int (be_value w + 32) = be_value w + 32) by (apply big_to_int_small; rewrite two63_eq; lia).
  rewrite Ho. rewrite isub_small by (rewrite two63_eq; lia).
  destruct (slice_some output (be_value w + 32 - 32) (be_value w + 32)) as (lw & Elw & Llw & Blw); try lia.
  rewrite Elw. specialize (Blw HB). pose proof (be_value_nonneg lw Blw) as Hl.
  destruct (63 <? bitlen (be_value w + 32 + be_value lw)) eqn:E3; [exact I|].
  destruct (len output <? be_value w + 32 + be_value lw) eqn:E4; [exact I|].
  cbn [fst snd]. rewrite big_to_int_small by (rewrite two63_eq; lia). lia.
Qed.

Lemma read_integer_no_panic u bits w : len w = 32 -> read_integer u bits w <> UPanic.
Proof.
  intros L. unfold read_integer.
  set (k := if bits =? 8 then 1 else if bits =? 16 then 2 else if bits =? 32 then 4 else if bits =? 64 then 8 else 0).
  assert (Hk : 0 <= k <= 8) by (subst k; repeat destruct (_ =? _); lia).
  destruct (k =? 0); [discriminate|].
  unfold slice_from. rewrite L. rewrite isub_small by (rewrite two63_eq; lia).
  destruct (slice_some w (32 - k) (len w)) as (s & Es & _); try lia. rewrite <- L at 2. rewrite Es. discriminate.
Qed.

Lemma read_bool_no_panic w : len w = 32 -> read_bool w <> UPanic.
Proof.
  intros L. unfold read_bool.
  destruct (slice_some w 0 31) as (s & Es & _); try lia. rewrite Es.
  destruct (negb _); [discriminate|].
  destruct (nth_error w 31) eqn:E.
  - destruct (z =? 0); [discriminate|]. destruct (z =? 1); discriminate.
  - apply nth_error_None in E. unfold len in L. lia.
Qed.

(* the loop of forEachUnpack *)
Lemma each_loop_no_panic f es output n : 0 < es ->
  forall i, 0 <= i -> i + Z.of_nat n * es <= MaxIdx ->
  (forall j, 0 <= j < MaxIdx -> f j output <> UPanic) ->
  each_loop f es output n i <> UPanic.
Proof.
  intros Hes. induction n as [|n IH]; intros i Hi Hb Hf; cbn [each_loop]; [discriminate|].
  unfold ubind. destruct (f i output) eqn:E.
  - assert (IHn : each_loop f es output n (iadd i es) <> UPanic).
    { rewrite iadd_small by (rewrite two63_eq; unfold MaxIdx in *; nia).
      apply IH; try assumption; try nia. }
    destruct (each_loop f es output n (iadd i es)); [discriminate|discriminate|contradiction].
  - discriminate.
  - exfalso. apply (Hf i); [unfold MaxIdx in *; nia | exact E].
Qed.

Lemma for_each_no_panic f es output start size :
  0 < es -> 0 <= start < MaxIdx -> len output < MaxData -> size <= MaxData ->
  (size < 0 \/ len output < start + 32 * size \/ start + size * es <= MaxIdx) ->
  (forall j, 0 <= j < MaxIdx -> f j output <> UPanic) ->
  for_each f es output start size <> UPanic.
Proof.
  intros Hes Hs HL Hsz Hb Hf. unfold for_each, WordSize.
  destruct (size <? 0) eqn:E1; [discriminate|].
  rewrite imul_small by (rewrite two63_eq; unfold MaxData in *; lia).
  rewrite iadd_small by (rewrite two63_eq; unfold MaxData, MaxIdx in *; lia).
  destruct (len output <? start + 32 * size) eqn:E2; [discriminate|].
  destruct Hb as [Hb|[Hb|Hb]]; try lia.
  unfold ubind.
  assert (Hl : each_loop f es output (Z.to_nat size) start <> UPanic).
  { apply each_loop_no_panic; try assumption; lia. }
  destruct (each_loop f es output (Z.to_nat size) start); [discriminate|discriminate|contradiction].
Qed.

Lemma words_bounds t : wf_ty t -> 1 <= words t <= MaxWords.
Proof.
  induction t; cbn [words wf_ty]; unfold MaxWords; try lia.
  intros (Hn & Hw & Hb). specialize (IHt Hw). unfold MaxWords in *. nia.
Qed.

Lemma full_elem_size_eq e : wf_ty e -> full_elem_size e = 32 * words e.
Proof.
  induction e; cbn [full_elem_size words wf_ty]; unfold WordSize; try lia.
  intros (Hn & Hw & Hb). rewrite (IHe Hw). pose proof (words_bounds e Hw) as HB.
  unfold MaxWords in *. rewrite imul_small by (rewrite two63_eq; nia). lia.
Qed.
Lemma array_words_eq t : wf_ty t -> array_words t = words t.
Proof.
  induction t; cbn [array_words words wf_ty]; try lia.
  intros (Hn & Hw & Hb). rewrite (IHt Hw). pose proof (words_bounds t Hw) as HB.
  unfold MaxWords in *. rewrite imul_small by (rewrite two63_eq; nia). lia.
Qed.

(* toGoType never panics *)
Lemma to_go_no_panic t : wf_ty t -> forall index output,
  Forall is_byte output -> len output < MaxData -> 0 <= index < MaxIdx -> to_go t index output <> UPanic.
Proof.
  induction t; intros Hwf index output HB HL Hi;
    cbn [to_go]; unfold WordSize;
    (rewrite iadd_small by (rewrite two63_eq; unfold MaxIdx in *; lia));
    (destruct (len output <? index + 32) eqn:E0; [discriminate|]);
    try (destruct (slice_some output index (index + 32)) as (w & Ew & Lw & Bw); try lia; rewrite Ew;
         assert (Lw' : len w = 32) by lia).
  - apply read_integer_no_panic; assumption.
  - apply read_integer_no_panic; assumption.
  - apply read_bool_no_panic; assumption.
  - (* string *)
    pose proof (lpp_spec index output HB HL) as Hs. unfold ubind.
    destruct (length_prefix_points_to index output) as [[b l]| |]; [|discriminate|exfalso; apply Hs; lia].
    cbn [fst snd] in *. destruct Hs as (H1 & H2 & H3); try lia.
    rewrite iadd_small by (rewrite two63_eq; unfold MaxData in *; lia).
    destruct (slice_some output b (b + l)) as (s & Es & _); try lia. rewrite Es. discriminate.
  - (* bytes *)
    pose proof (lpp_spec index output HB HL) as Hs. unfold ubind.
    destruct (length_prefix_points_to index output) as [[b l]| |]; [|discriminate|exfalso; apply Hs; lia].
    cbn [fst snd] in *. destruct Hs as (H1 & H2 & H3); try lia.
    rewrite iadd_small by (rewrite two63_eq; unfold MaxData in *; lia).
    destruct (slice_some output b (b + l)) as (s & Es & _); try lia. rewrite Es. discriminate.
  - destruct (slice_some w 12 32) as (s & Es & _); try lia. rewrite Es. discriminate.
  - destruct (slice_some w 22 32) as (s & Es & _); try lia. rewrite Es. discriminate.
  - destruct (slice_some w 0 32) as (s & Es & _); try lia. rewrite Es. destruct (len s =? 32); discriminate.
  - cbn [wf_ty] in Hwf. destruct (slice_some w 0 n) as (s & Es & _); try lia. rewrite Es. discriminate.
  - (* slice *)
    cbn [wf_ty] in Hwf.
    pose proof (lpp_spec index output HB HL) as Hs. unfold ubind.
    destruct (length_prefix_points_to index output) as [[b l]| |]; [|discriminate|exfalso; apply Hs; lia].
    cbn [fst snd] in *. destruct Hs as (H1 & H2 & H3); try lia.
    unfold slice_from.
    destruct (slice_some output b (len output)) as (sub & Esub & Lsub & Bsub); try lia. rewrite Esub.
    apply for_each_no_panic; try (unfold MaxIdx, MaxData in *; lia).
    intros j Hj. apply IHt; auto. lia.
  - (* array *)
    cbn [wf_ty] in Hwf. destruct Hwf as (Hn & Hw & Hb).
    pose proof (words_bounds t Hw) as HWB. cbn [words] in Hb.
    rewrite (full_elem_size_eq t Hw).
    apply for_each_no_panic; try (unfold MaxIdx, MaxData, MaxWords in *; nia).
    intros j Hj. apply IHt; auto.
Qed.

(* UnpackValues *)
Fixpoint tuple_words (tys : list ty) : Z := match tys with [] => 0 | t :: r => words t + tuple_words r end.
Definition MaxTuple : Z := 1073741824.   (* 2^30 words of static arguments *)

Lemma tuple_words_nonneg tys : Forall wf_ty tys -> 0 <= tuple_words tys.
Proof.
  induction 1 as [|t r Ht _ IH]; cbn [tuple_words]; [lia|]. pose proof (words_bounds t Ht). lia.
Qed.

Lemma unpack_from_no_panic tys : Forall wf_ty tys -> forall slot data,
  Forall is_byte data -> len data < MaxData -> 0 <= slot -> slot + tuple_words tys <= MaxTuple ->
  unpack_from tys slot data <> UPanic.
Proof.
  induction 1 as [|t r Ht Hr IH]; intros slot data HB HL Hs Hb; cbn [unpack_from]; [discriminate|].
  cbn [tuple_words] in Hb. pose proof (words_bounds t Ht) as HW. pose proof (tuple_words_nonneg r Hr) as HR.
  unfold WordSize, MaxTuple in *.
  rewrite imul_small by (rewrite two63_eq; lia).
  unfold ubind.
  destruct (to_go t (slot * 32) data) eqn:E; [|discriminate|].
  - assert (Hnext : forall s', 0 <= s' -> s' + 1 + tuple_words r <= 1073741824 ->
                               unpack_from r (iadd s' 1) data <> UPanic).
    { intros s' H1 H2. rewrite iadd_small by (rewrite two63_eq; lia). apply IH; auto; lia. }
    assert (Hrest : unpack_from r (iadd (match t with TArray _ _ => iadd slot (isub (array_words t) 1) | _ => slot end) 1) data <> UPanic).
    { destruct t; try (apply Hnext; lia).
      rewrite (array_words_eq _ Ht). unfold MaxWords in *.
      rewrite isub_small by (rewrite two63_eq; lia). rewrite (iadd_small slot) by (rewrite two63_eq; lia).
      apply Hnext; lia. }
    destruct (unpack_from r _ data); [discriminate|discriminate|contradiction].
  - exfalso. revert E. apply to_go_no_panic; auto. unfold MaxIdx. lia.
Qed.

Theorem unpack_values_total tys data :
  Forall wf_ty tys -> tuple_words tys <= MaxTuple -> Forall is_byte data -> len data < MaxData ->
  unpack_values tys data <> UPanic.
Proof. intros. unfold unpack_values. apply unpack_from_no_panic; auto; lia. Qed.

Theorem unpack_total t data : wf_ty t -> Forall is_byte data -> len data < MaxData -> unpack t data <> UPanic.
Proof.
  intros Ht HB HL. unfold unpack, ubind.
  assert (H : unpack_values [t] data <> UPanic).
  { apply unpack_values_total; auto. cbn [tuple_words]. pose proof (words_bounds t Ht). unfold MaxWords, MaxTuple in *. lia. }
  destruct (unpack_values [t] data) as [vs| |]; [|discriminate|contradiction].
  destruct vs as [|v [|? ?]]; discriminate.
Qed.

Theorem unpack_method_total sel tys input :
  Forall wf_ty tys -> tuple_words tys <= MaxTuple -> Forall is_byte input -> len input < MaxData ->
  unpack_method sel tys input <> UPanic.
Proof.
  intros Ht Hw HB HL. unfold unpack_method.
  destruct (len input <=? 4) eqn:E; [discriminate|].
  destruct (slice_some input 0 4) as (s & Es & _); try lia. rewrite Es.
  destruct (bytes_eqb s sel); [|discriminate].
  unfold slice_from. destruct (slice_some input 4 (len input)) as (d & Ed & Ld & Bd); try lia. rewrite Ed.
  apply unpack_values_total; auto. lia.
Qed.

Theorem unpack_empty_method_total sel input : unpack_empty_method sel input <> UPanic.
Proof.
  unfold unpack_empty_method.
  destruct (len input <? 4) eqn:E1; [discriminate|]. destruct (4 <? len input) eqn:E2; [discriminate|].
  destruct (slice_some input 0 4) as (s & Es & _); try lia. rewrite Es. destruct (bytes_eqb s sel); discriminate.
Qed.

(* the ABI types that occur in the embedded contracts' definitions have no fixed arrays: they are all well formed *)
Fixpoint in_use (t : ty) : bool :=
  match t with
  | TArray _ _ | TFixed _ => false
  | TSlice e => in_use e
  | _ => true
  end.
Lemma in_use_wf t : in_use t = true -> wf_ty t.
Proof. induction t; cbn; intros H; try exact I; try discriminate; auto. Qed.
Lemma in_use_words t : in_use t = true -> words t = 1.
Proof. destruct t; cbn; intros H; try reflexivity; discriminate. Qed.

(* non-vacuity: a hostile offset is an error, not a panic; a canonical encoding decodes *)
Example unpack_hostile_offset :
  unpack TString (be_bytes 32 (2 ^ 63 - 32)) = UErr E_slice_offset.
Proof. vm_compute. reflexivity. Qed.
Example unpack_canonical_string :
  unpack TString (be_bytes 32 32 ++ be_bytes 32 3 ++ [97; 98; 99] ++ repeat 0 29) = UOk (VBytes [97; 98; 99]).
Proof. vm_compute. reflexivity. Qed.
