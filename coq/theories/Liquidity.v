(* C10 — liquidity stakes.  Model of vm/embedded/implementation/liquidity.go: LiquidityStake, CancelLiquidityStake,
   UnlockLiquidityStakeEntries, SetIsHalted (the methods that touch stake entries / the halted flag) and of the
   treasury methods Fund and BurnZnn AS THEY ARE in the code (they test `balance >= amount` only).  Storage
   (definition/liquidity.go): the liquidityInfo variable (administrator, halted flag, additional rewards, token tuples
   - a tuple names its token by the STRING form of the token standard) and the table of stake entries keyed by
   stake address ++ id.  Same conventions as Emb.v: [*_validate] = ValidateSendBlock, [*_receive] = ReceiveBlock
   (which validates again), [MPanic] at every place where the Go code can panic.
   Inputs that are not modelled: ZenonTokenStandard.String() (bech32; section variable [zstr], observed strings in the
   correspondence check), the spork address and "accelerator spork enforced" (parameters). *)
From ZV Require Import Prelude GoSem Abi VmReceive Emb LockEnv.
From ZV.gen Require Import Consts.
Open Scope Z_scope.

Definition E_invalid_token := 26.        (* constants.ErrInvalidToken *)

Record lstake := { ls_amount : Z; ls_zts : bytes; ls_weighted : Z; ls_start : Z; ls_revoke : Z; ls_exp : Z }.
Record ltuple := { lt_zts : bytes (* TokenTuple.TokenStandard, a string *); lt_znn_pct : Z; lt_qsr_pct : Z; lt_min : Z }.
Record qstore := { lq_admin : bytes; lq_halted : bool; lq_znn_reward : Z; lq_qsr_reward : Z; lq_tuples : list ltuple;
                   lq_entries : tab lstake (* key = stake address ++ id *) }.
Definition set_entries (st : qstore) (t : tab lstake) : qstore :=
  {| lq_admin := lq_admin st; lq_halted := lq_halted st; lq_znn_reward := lq_znn_reward st; lq_qsr_reward := lq_qsr_reward st;
     lq_tuples := lq_tuples st; lq_entries := t |}.
Definition set_halted (st : qstore) (h : bool) : qstore :=
  {| lq_admin := lq_admin st; lq_halted := h; lq_znn_reward := lq_znn_reward st; lq_qsr_reward := lq_qsr_reward st;
     lq_tuples := lq_tuples st; lq_entries := lq_entries st |}.

(* what the contract owes per token standard: the sum of its stake entries (a cancelled entry stays with amount 0
   until the reward update removes it) *)
Definition liab_liquidity (st : qstore) (z : bytes) : Z := tsum (fun e => zsel (ls_zts e) z (ls_amount e)) (lq_entries st).

Fixpoint tmap {V} (f : V -> V) (t : tab V) : tab V := match t with [] => [] | (k, v) :: r => (k, f v) :: tmap f r end.

Section LiquidityC.
  Variable zstr : bytes -> bytes.        (* types.ZenonTokenStandard.String() *)
  Notation acct := (cacct qstore).
  Notation send := VmReceive.send.

  (* ---------------- LiquidityStake *)
  Definition liquidity_stake_validate (e : env) (s : send) : vres Z :=
    match unpack_args Sel_liquidity_LiquidityStake [TInt 64] (s_data s) with
    | VOk [VInt t] =>
      if (t <? c_StakeTimeMin e) || (c_StakeTimeMax e <? t) then VErr E_staking_period else
      if c_StakeTimeUnit e =? 0 then VPanic                      (* integer division by zero *)
      else if negb (Z.rem t (c_StakeTimeUnit e) =? 0) then VErr E_staking_period else VOk t
    | VOk _ => VPanic
    | VErr c => VErr c | VPanic => VPanic
    end.
  (* the first tuple of the sent token decides: below its minimum -> ErrInvalidTokenOrAmount; no tuple -> ErrInvalidToken *)
  Fixpoint tuple_check (ts : list ltuple) (zs : bytes) (amount : Z) : option Z :=
    match ts with
    | [] => Some E_invalid_token
    | t :: r => if bytes_eqb (lt_zts t) zs then (if amount <? lt_min t then Some E_token_or_amount else None) else tuple_check r zs amount
    end.
  (* getWeightedLiquidityStakeAmount: big.NewInt(LiquidityStakeWeights[stakingTime / StakeTimeUnitSec]) * amount;
     an index outside the weights table is a Go panic *)
  Definition liquidity_weight (e : env) (t : Z) : option Z :=
    let period := Z.quot t (c_StakeTimeUnit e) in
    if period <? 0 then None else nth_error LiquidityStakeWeights (Z.to_nat period).
  Definition liquidity_stake_receive (e : env) (a : acct) (s : send) : mres qstore :=
    match liquidity_stake_validate e s with
    | VErr c => MErr c | VPanic => MPanic
    | VOk _ =>
      match liquidity_stake_validate e s with                 (* DealWithErr(UnpackMethod) on the same (canonical) data *)
      | VOk t =>
        let st := a_store a in
        match tuple_check (lq_tuples st) (zstr (s_zts s)) (s_amount s) with
        | Some c => MErr c
        | None =>
          match liquidity_weight e t with
          | None => MPanic
          | Some w =>
            let ent := {| ls_amount := u256 (s_amount s); ls_zts := s_zts s; ls_weighted := u256 (w * s_amount s);
                          ls_start := e_now e; ls_revoke := 0; ls_exp := wrapS 64 (e_now e + t) |} in
            MOk (with_store a (set_entries st (tput (lq_entries st) (s_from s ++ s_hash s) ent))) []
          end
        end
      | _ => MPanic
      end
    end.

  (* ---------------- CancelLiquidityStake *)
  Definition cancel_liquidity_validate (s : send) : vres bytes :=
    match unpack_args Sel_liquidity_CancelLiquidityStake [THash] (s_data s) with
    | VOk [VBytes id] => if negb (s_amount s =? 0) then VErr E_token_or_amount else VOk id
    | VOk _ => VPanic
    | VErr c => VErr c | VPanic => VPanic
    end.
  Definition cancel_liquidity_receive (e : env) (a : acct) (s : send) : mres qstore :=
    match cancel_liquidity_validate s with
    | VErr c => MErr c | VPanic => MPanic
    | VOk _ =>
      match cancel_liquidity_validate s with
      | VOk id =>
        let st := a_store a in
        match tget (lq_entries st) (s_from s ++ id) with
        | None => MErr E_nonexistent
        | Some ent =>
          if e_now e <? ls_exp ent then MErr E_revoke_not_due else
          let ent' := {| ls_amount := 0; ls_zts := ls_zts ent; ls_weighted := ls_weighted ent; ls_start := ls_start ent;
                         ls_revoke := e_now e; ls_exp := ls_exp ent |} in
          MOk (with_store a (set_entries st (tput (lq_entries st) (s_from s ++ id) ent')))
              [{| d_to := s_from s; d_amount := ls_amount ent; d_zts := ls_zts ent; d_data := [] |}]
        end
      | _ => MPanic
      end
    end.

  (* ---------------- UnlockLiquidityStakeEntries: the administrator brings the expiration of every entry of the token
     named by the send block's token standard forward to now *)
  Definition unlock_liquidity_validate (s : send) : vres unit :=
    match unpack_empty Sel_liquidity_UnlockLiquidityStakeEntries (s_data s) with
    | VOk _ => if negb (s_amount s =? 0) then VErr E_token_or_amount else VOk tt
    | VErr c => VErr c | VPanic => VPanic
    end.
  Definition unlock_entry (now : Z) (z : bytes) (ent : lstake) : lstake :=
    if bytes_eqb (ls_zts ent) z && (now <? ls_exp ent)
    then {| ls_amount := ls_amount ent; ls_zts := ls_zts ent; ls_weighted := ls_weighted ent; ls_start := ls_start ent;
            ls_revoke := ls_revoke ent; ls_exp := now |}
    else ent.
  Definition unlock_liquidity_receive (e : env) (a : acct) (s : send) : mres qstore :=
    match unlock_liquidity_validate s with
    | VErr c => MErr c | VPanic => MPanic
    | VOk _ =>
      let st := a_store a in
      if negb (bytes_eqb (s_from s) (lq_admin st)) then MErr E_permission else
      MOk (with_store a (set_entries st (tmap (unlock_entry (e_now e) (s_zts s)) (lq_entries st)))) []
    end.

  (* ---------------- SetIsHalted *)
  Definition set_halted_validate (s : send) : vres bool :=
    match unpack_args Sel_liquidity_SetIsHalted [TBool] (s_data s) with
    | VOk [VBool b] => if negb (s_amount s =? 0) then VErr E_token_or_amount else VOk b
    | VOk _ => VPanic
    | VErr c => VErr c | VPanic => VPanic
    end.
  Definition set_halted_receive (a : acct) (s : send) : mres qstore :=
    match set_halted_validate s with
    | VErr c => MErr c | VPanic => MPanic
    | VOk _ =>
      match set_halted_validate s with
      | VOk b =>
        let st := a_store a in
        if negb (bytes_eqb (s_from s) (lq_admin st)) then MErr E_permission else
        MOk (with_store a (set_halted st b)) []
      | _ => MErr E_unpack
      end
    end.

  (* ---------------- treasury: Fund / BurnZnn, callable by the spork address.  They compare the requested amounts with the
     WHOLE balance of the contract (context.GetBalance), stakes included. *)
  Variable spork_addr : bytes.
  Variable accel_enforced : bool.          (* context.IsAcceleratorSporkEnforced() *)
  Definition donate_call (amt : Z) (z : bytes) : dsend :=
    {| d_to := AddrAcceleratorContract; d_amount := amt; d_zts := z; d_data := Sel_common_Donate |}.
  Definition fund_validate (s : send) : vres (Z * Z) :=
    if negb (bytes_eqb (s_from s) spork_addr) then VErr E_permission else
    match unpack_args Sel_liquidity_Fund [TUint 256; TUint 256] (s_data s) with
    | VOk [VInt znn; VInt qsr] => VOk (znn, qsr)
    | VOk _ => VPanic
    | VErr c => VErr c | VPanic => VPanic
    end.
  Definition fund_receive (a : acct) (s : send) : mres qstore :=
    match fund_validate s with
    | VErr c => MErr c | VPanic => MPanic
    | VOk _ =>
      match fund_validate s with
      | VOk (znn, qsr) =>
        if negb accel_enforced then MOk a [] else
        if (znn <=? bal_get (a_bal a) ZtsZnn) && (qsr <=? bal_get (a_bal a) ZtsQsr)
        then MOk a [donate_call znn ZtsZnn; donate_call qsr ZtsQsr]
        else MErr E_token_or_amount
      | _ => MPanic
      end
    end.
  Definition burn_znn_validate (s : send) : vres Z :=
    if negb (bytes_eqb (s_from s) spork_addr) then VErr E_permission else
    match unpack_args Sel_liquidity_BurnZnn [TUint 256] (s_data s) with
    | VOk [VInt x] => VOk x
    | VOk _ => VPanic
    | VErr c => VErr c | VPanic => VPanic
    end.
  Definition burn_znn_receive (a : acct) (s : send) : mres qstore :=
    match burn_znn_validate s with
    | VErr c => MErr c | VPanic => MPanic
    | VOk _ =>
      match burn_znn_validate s with
      | VOk x =>
        if negb accel_enforced then MOk a [] else
        if x <=? bal_get (a_bal a) ZtsZnn
        then MOk a [{| d_to := AddrTokenContract; d_amount := x; d_zts := ZtsZnn; d_data := Sel_token_Burn |}]
        else MErr E_token_or_amount
      | _ => MPanic
      end
    end.
End LiquidityC.
