(* The JSON text forms of the scalar fields of an account block (chain/nom/account_block.go ToNomMarshalJson /
   MarshalJSON / UnmarshalJSON / FromNomMarshalJson, rpc/api/ledger_types.go, common/types/{hash,address,
   tokenstandard}.go, common/bytes.go StringToBigInt, encoding/json for uint64 and []byte fields,
   btcutil/bech32). For every field a PRINT function (what MarshalJSON writes) and a PARSE function (what
   UnmarshalJSON accepts, None = the whole block is refused). Characters are byte values. Executable; compared
   with the real marshaller / unmarshaller field by field on every run (the jt functions of TieC18).
   Decimal and hex come from Dec.v (print_dec / set_string10 / parse_dec, hex_enc / hex_dec / parse_hash /
   parse_nonce). *)
From ZV Require Import Prelude Dec.
Open Scope Z_scope.

Definition is_nil {A} (l : list A) : bool := match l with [] => true | _ => false end.
Fixpoint map_opt {A B} (f : A -> option B) (l : list A) : option (list B) :=
  match l with
  | [] => Some []
  | x :: r => match f x, map_opt f r with Some y, Some t => Some (y :: t) | _, _ => None end
  end.
Fixpoint index_of (c : Z) (l : bytes) (i : Z) : option Z :=
  match l with [] => None | x :: r => if x =? c then Some i else index_of c r (i + 1) end.

(* ---- amounts: "amount": "<decimal>" (big.Int.String / common.StringToBigInt: 0 when SetString fails) *)
Definition print_amount (z : Z) : bytes := print_dec z.
Definition parse_amount (s : bytes) : Z := parse_dec s.

(* ---- uint64 fields: a JSON number literal (strconv.FormatUint / the decoder's ParseUint on the literal: digits
   only, no sign, fraction or exponent, below 2^64; the JSON grammar has no leading zeros); null leaves 0 *)
Definition json_null : bytes := [110; 117; 108; 108].
Definition print_u64 (z : Z) : bytes := print_dec z.
Definition parse_u64_lit (s : bytes) : option Z :=
  match s with
  | [] => None
  | c :: r =>
    if (c =? 48) && negb (is_nil r) then None
    else match parse_unsigned s with
         | Some v => if v <? two64 then Some v else None
         | None => None
         end
  end.
Definition parse_u64_field (s : bytes) : option Z :=
  if bytes_eqb s json_null then Some 0 else parse_u64_lit s.

(* ---- nonce: 16 hex characters; nom.AccountBlock.UnmarshalJSON refuses what Nonce.UnmarshalText refuses,
   api.AccountBlock (FromNomMarshalJson) ignores the error and keeps the zero nonce *)
Definition print_nonce (n : bytes) : bytes := hex_enc n.
Definition parse_nonce_nom (s : bytes) : option bytes := parse_nonce s.
Definition zero_nonce : bytes := [0; 0; 0; 0; 0; 0; 0; 0].
Definition parse_nonce_api (s : bytes) : bytes := match parse_nonce s with Some b => b | None => zero_nonce end.

(* ---- hashes: 64 hex characters *)
Definition print_hash (h : bytes) : bytes := hex_enc h.
(* letter case of hex digits: hex.DecodeString takes both *)
Definition hex_upper (c : Z) : Z := if (97 <=? c) && (c <=? 102) then c - 32 else c.
Definition hex_lower (c : Z) : Z := if (65 <=? c) && (c <=? 70) then c + 32 else c.

(* ---- bech32 (addresses "z1…", token standards "zts1…") *)
Definition b32_charset : bytes :=
  [113; 112; 122; 114; 121; 57; 120; 56; 103; 102; 50; 116; 118; 100; 119; 48;
   115; 51; 106; 110; 53; 52; 107; 104; 99; 101; 54; 109; 117; 97; 55; 108].
Definition enc5 (g : Z) : Z := nth (Z.to_nat g) b32_charset 0.
Definition dec5 (c : Z) : option Z := index_of c b32_charset 0.

(* regrouping of bits (bech32.ConvertBits with pad = true), through lists of bits, most significant first *)
Fixpoint bits_be (w : nat) (x : Z) : list bool :=
  match w with O => [] | S k => Z.testbit x (Z.of_nat k) :: bits_be k x end.
Fixpoint val_be (l : list bool) : Z :=
  match l with [] => 0 | b :: r => (if b then 2 ^ Z.of_nat (length r) else 0) + val_be r end.
Definition pad_to (w : nat) (l : list bool) : list bool := l ++ repeat false (w - length l).
Fixpoint chunks (fuel w : nat) (l : list bool) : list (list bool) :=
  match fuel with
  | O => []
  | S f => match l with [] => [] | _ => pad_to w (firstn w l) :: chunks f w (skipn w l) end
  end.
Definition regroup (from to : nat) (xs : bytes) : bytes :=
  let bits := concat (map (bits_be from) xs) in
  map val_be (chunks (length bits) to bits).
Definition to5 (b : bytes) : bytes := regroup 8 5 b.
Definition to8 (g : bytes) : bytes := regroup 5 8 g.

(* the BCH checksum of BIP 173 *)
Definition b32_gen : list Z := [996825010; 642813549; 513874426; 1027748829; 705979059].
Definition gen_xor (b : Z) : Z :=
  fold_left Z.lxor (map (fun ig => if Z.testbit b (fst ig) then snd ig else 0) (combine [0; 1; 2; 3; 4] b32_gen)) 0.
Definition polymod_step (chk v : Z) : Z :=
  Z.lxor (Z.lxor (Z.shiftl (Z.land chk 33554431) 5) v) (gen_xor (Z.shiftr chk 25)).
Definition polymod (vs : list Z) : Z := fold_left polymod_step vs 1.
Definition hrp_expand (hrp : bytes) : bytes :=
  map (fun c => Z.shiftr c 5) hrp ++ [0] ++ map (fun c => Z.land c 31) hrp.
Definition bech32_const : Z := 1.
Definition bech32m_const : Z := 734539939.  (* 0x2bc830a3 *)
Definition checksum (const : Z) (hrp data : bytes) : bytes :=
  let p := Z.lxor (polymod (hrp_expand hrp ++ data ++ [0; 0; 0; 0; 0; 0])) const in
  map (fun i => Z.land (Z.shiftr p (5 * (5 - i))) 31) [0; 1; 2; 3; 4; 5].

Definition bech32_encode (hrp data : bytes) : bytes :=
  hrp ++ [49] ++ map enc5 data ++ map enc5 (checksum bech32_const hrp data).

Definition is_lower (c : Z) : bool := (97 <=? c) && (c <=? 122).
Definition is_upper (c : Z) : bool := (65 <=? c) && (c <=? 90).
Definition to_lower (c : Z) : Z := if is_upper c then c + 32 else c.
Fixpoint last_index (c : Z) (l : bytes) (i best : Z) : Z :=
  match l with [] => best | x :: r => last_index c r (i + 1) (if x =? c then i else best) end.

(* bech32.Decode: length 8..90, printable characters, one letter case, the last '1' separates the prefix, data
   characters of the alphabet, a checksum. The verification polymod(prefix, data, checksum) in {1, 0x2bc830a3}
   (Decode does not look at which of bech32 / bech32m it was) is written as "the six characters are the bech32 or
   the bech32m checksum of what precedes them" (for a BCH code the same; compared with the library on damaged
   checksums on every run). *)
Definition bech32_decode (s : bytes) : option (bytes * bytes) :=
  let n := Z.of_nat (length s) in
  if (n <? 8) || (90 <? n) then None
  else if negb (forallb (fun c => (33 <=? c) && (c <=? 126)) s) then None
  else if existsb is_lower s && existsb is_upper s then None
  else
    let s := map to_lower s in
    let one := last_index 49 s 0 (-1) in
    if (one <? 1) || (n <? one + 7) then None
    else
      let hrp := firstn (Z.to_nat one) s in
      match map_opt dec5 (skipn (Z.to_nat one + 1) s) with
      | None => None
      | Some d =>
        let k := (length d - 6)%nat in
        let payload := firstn k d in
        let tail := skipn k d in
        if bytes_eqb tail (checksum bech32_const hrp payload) || bytes_eqb tail (checksum bech32m_const hrp payload)
        then Some (hrp, payload) else None
      end.

(* types.ParseAddress / ParseZTS: the prefix, then exactly `size` bytes after regrouping with padding *)
Definition parse_bech32 (prefix : bytes) (size : nat) (s : bytes) : option bytes :=
  match bech32_decode s with
  | None => None
  | Some (hrp, payload) =>
    if bytes_eqb hrp prefix then
      let b := to8 payload in if Nat.eqb (length b) size then Some b else None
    else None
  end.
Definition addr_prefix : bytes := [122].
Definition zts_prefix : bytes := [122; 116; 115].
Definition print_address (a : bytes) : bytes := bech32_encode addr_prefix (to5 a).
Definition parse_address (s : bytes) : option bytes := parse_bech32 addr_prefix 20 s.
Definition print_zts (a : bytes) : bytes := bech32_encode zts_prefix (to5 a).
Definition parse_zts (s : bytes) : option bytes := parse_bech32 zts_prefix 10 s.

(* ---- []byte fields ("data", "publicKey", "signature"): base64.StdEncoding inside a JSON string *)
Definition b64_alphabet : bytes :=
  [65; 66; 67; 68; 69; 70; 71; 72; 73; 74; 75; 76; 77; 78; 79; 80; 81; 82; 83; 84; 85; 86; 87; 88; 89; 90;
   97; 98; 99; 100; 101; 102; 103; 104; 105; 106; 107; 108; 109; 110; 111; 112; 113; 114; 115; 116; 117; 118;
   119; 120; 121; 122; 48; 49; 50; 51; 52; 53; 54; 55; 56; 57; 43; 47].
Definition enc6 (v : Z) : Z := nth (Z.to_nat v) b64_alphabet 0.
Definition dec6 (c : Z) : option Z := index_of c b64_alphabet 0.
Fixpoint b64_enc (b : bytes) : bytes :=
  match b with
  | [] => []
  | x :: b1 =>
    match b1 with
    | [] => [enc6 (x / 4); enc6 ((x mod 4) * 16); 61; 61]
    | y :: b2 =>
      match b2 with
      | [] => [enc6 (x / 4); enc6 ((x mod 4) * 16 + y / 16); enc6 ((y mod 16) * 4); 61]
      | z :: r => enc6 (x / 4) :: enc6 ((x mod 4) * 16 + y / 16) :: enc6 ((y mod 16) * 4 + z / 64) :: enc6 (z mod 64)
                  :: b64_enc r
      end
    end
  end.
(* Decode: \r and \n are skipped wherever they are; quanta of four characters; padding only in the last quantum
   and complete; the unused low bits of the last character are not looked at (not the Strict variant) *)
Definition strip_nl (s : bytes) : bytes := filter (fun c => negb ((c =? 10) || (c =? 13))) s.
Fixpoint b64_dec_q (s : bytes) : option bytes :=
  match s with
  | [] => Some []
  | a :: s1 =>
    match s1 with
    | [] => None
    | b :: s2 =>
      match s2 with
      | [] => None
      | c :: s3 =>
        match s3 with
        | [] => None
        | d :: r =>
          if is_nil r && (d =? 61) then
            if c =? 61 then
              match dec6 a, dec6 b with Some x, Some y => Some [x * 4 + y / 16] | _, _ => None end
            else
              match dec6 a, dec6 b, dec6 c with
              | Some x, Some y, Some z => Some [x * 4 + y / 16; (y mod 16) * 16 + z / 4]
              | _, _, _ => None
              end
          else
            match dec6 a, dec6 b, dec6 c, dec6 d, b64_dec_q r with
            | Some x, Some y, Some z, Some w, Some t =>
              Some ((x * 4 + y / 16) :: ((y mod 16) * 16 + z / 4) :: ((z mod 4) * 64 + w) :: t)
            | _, _, _, _, _ => None
            end
        end
      end
    end
  end.
Definition b64_dec (s : bytes) : option bytes := b64_dec_q (strip_nl s).

(* the JSON value of a []byte field: null, a string (base64) or an array of number literals (encoding/json
   fills a byte slice from an array too) *)
Inductive BytesJson := BJNull | BJStr (s : bytes) | BJArr (lits : list bytes).
Definition print_data (b : bytes) : bytes := b64_enc b.
Definition parse_u8_lit (s : bytes) : option Z :=
  match parse_u64_lit s with Some v => if v <? 256 then Some v else None | None => None end.
Definition parse_data (j : BytesJson) : option bytes :=
  match j with
  | BJNull => Some []
  | BJStr s => b64_dec s
  | BJArr lits => map_opt (fun l => if bytes_eqb l json_null then Some 0 else parse_u8_lit l) lits
  end.
