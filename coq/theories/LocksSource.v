(* C10 — sentinel.Revoke and pillar.Revoke of the hand model (Locks.v / Pillar.v) ARE the translated source
   (gen/PureRelease.v). The window verdict (GetSentinelRevokeStatus / PillarGetRevokeStatus), an oracle input of the
   translations, is instantiated with the model's revoke_window — which LocksProofs proves equal to the translations of
   those two functions themselves. [num]: injective encoding of addresses. *)
From ZV Require Import Prelude GoSem Abi VmReceive VmReceiveProofs Emb EmbProofs Locks.
From ZV.gen Require Import Consts Pure PureRelease.
Open Scope Z_scope.

Section SentinelSource.
  Variable num : bytes -> Z.

  Theorem sentinel_revoke_is_source (e : lenv) (a : cacct nstore) (s : send) :
    match sentinel_revoke_validate s with
    | VErr c =>
        sentinel_revoke_receive e a s = MErr c /\
        (c <> 0 -> forall rts znn qsr f nn can until now own,
           RevokeSentinel_receive rts znn qsr c f nn can until now own = Ok (nil, c, rts, znn, qsr, None))
    | VPanic => sentinel_revoke_receive e a s = MPanic
    | VOk _ =>
        match tget (n_ent (a_store a)) (s_from s) with
        | None =>
            sentinel_revoke_receive e a s = MErr E_nonexistent /\
            forall rts znn qsr can until now own,
              RevokeSentinel_receive rts znn qsr 0 0 false can until now own =
              Ok (nil, Err_constants_ErrDataNonExistent, rts, znn, qsr, None)
        | Some ent =>
            match revoke_window (c_SentinelLock e) (c_SentinelRevoke e) (n_reg ent) (l_now e) with
            | Panic => True
            | Ok (can, until) =>
                let src := RevokeSentinel_receive (n_revoke ent) (n_znn ent) (n_qsr ent) 0 0 true can until (l_now e) (num (s_from s)) in
                match sentinel_revoke_receive e a s with
                | MOk a' ds =>
                    ds = [{| d_to := s_from s; d_amount := n_znn ent; d_zts := ZtsZnn; d_data := [] |};
                          {| d_to := s_from s; d_amount := n_qsr ent; d_zts := ZtsQsr; d_data := [] |}] /\
                    src = Ok ([(num (s_from s), n_znn ent, ZnnTokenStandard); (num (s_from s), n_qsr ent, QsrTokenStandard)],
                              0, l_now e, 0, 0, Some 1) /\
                    (exists ent', tget (n_ent (a_store a')) (s_from s) = Some ent' /\
                       n_revoke ent' = l_now e /\ n_znn ent' = 0 /\ n_qsr ent' = 0)
                | MErr c =>
                    (c = E_already_revoked /\ src = Ok (nil, Err_constants_ErrAlreadyRevoked, n_revoke ent, n_znn ent, n_qsr ent, None)) \/
                    (c = E_revoke_not_due /\ src = Ok (nil, Err_constants_RevokeNotDue, n_revoke ent, n_znn ent, n_qsr ent, None))
                | MPanic => False
                end
            end
        end
    end.
  Proof.
    unfold sentinel_revoke_receive.
    destruct (sentinel_revoke_validate s) as [u|c|].
    - cbv zeta. destruct (tget (n_ent (a_store a)) (s_from s)) as [ent|].
      + destruct (revoke_window (c_SentinelLock e) (c_SentinelRevoke e) (n_reg ent) (l_now e)) as [[can until]|]; [|exact I].
        unfold RevokeSentinel_receive. cbv zeta. change (0 =? 0) with true. cbn [negb guard].
        destruct (n_revoke ent =? 0) eqn:Er; cbn [negb].
        * destruct can; cbn [negb].
          -- split; [reflexivity|]. split; [reflexivity|].
             eexists. split; [cbn [a_store with_store n_ent]; rewrite tget_tput, bytes_eqb_refl; reflexivity|].
             cbn. repeat split; reflexivity.
          -- right. split; reflexivity.
        * left. split; reflexivity.
      + split; [reflexivity|]. intros. unfold RevokeSentinel_receive. cbv zeta. reflexivity.
    - split; [reflexivity|]. intros Hc rts znn qsr f nn can until now own.
      unfold RevokeSentinel_receive. cbv zeta. assert ((c =? 0) = false) as -> by lia. reflexivity.
    - reflexivity.
  Qed.
End SentinelSource.

Section PillarSource.
  Variable name_ok : bytes -> bool.
  Variable num : bytes -> Z.
  Hypothesis num_inj : forall x y, num x = num y -> x = y.

  Lemma num_eqb' x y : (num x =? num y) = bytes_eqb x y.
  Proof.
    destruct (bytes_eqb x y) eqn:E.
    - apply bytes_eqb_eq in E. subst. apply Z.eqb_refl.
    - apply Z.eqb_neq. intros Hn. apply num_inj in Hn. subst. rewrite bytes_eqb_refl in E. discriminate.
  Qed.

  Theorem pillar_revoke_is_source (e : lenv) (a : cacct lstore) (s : send) :
    c_PillarStake e = PillarStakeAmount ->
    match pillar_revoke_validate name_ok s with
    | VErr c =>
        pillar_revoke_receive name_ok e a s = MErr c /\
        (c <> 0 -> forall rt amt u g act stake sender f st lft now sv,
           RevokePillar_receive rt amt c u g act stake sender f st lft now sv = Ok (nil, c, rt, amt, None))
    | VPanic => pillar_revoke_receive name_ok e a s = MPanic
    | VOk name =>
        match tget (l_pillars (a_store a)) name with
        | None =>
            pillar_revoke_receive name_ok e a s = MErr E_nonexistent /\
            forall rt amt act stake sender f st lft now sv,
              RevokePillar_receive rt amt 0 0 Err_constants_ErrDataNonExistent act stake sender f st lft now sv =
              Ok (nil, Err_constants_ErrDataNonExistent, rt, amt, None)
        | Some p =>
            match revoke_window (c_PillarLock e) (c_PillarRevoke e) (l_reg p) (l_now e) with
            | Panic => True
            | Ok (can, lft) =>
                let src := RevokePillar_receive (l_revoke p) (l_amount p) 0 0 0 (l_revoke p =? 0) (num (l_owner p))
                             (num (s_from s)) 0 can lft (l_now e) 0 in
                match pillar_revoke_receive name_ok e a s with
                | MOk a' ds =>
                    ds = [{| d_to := l_owner p; d_amount := c_PillarStake e; d_zts := ZtsZnn; d_data := [] |}] /\
                    src = Ok ([(num (l_owner p), PillarStakeAmount, ZnnTokenStandard)], 0, l_now e, 0, Some 1) /\
                    (exists p', tget (l_pillars (a_store a')) name = Some p' /\ l_revoke p' = l_now e /\ l_amount p' = 0)
                | MErr c =>
                    (c = E_not_active /\ src = Ok (nil, Err_constants_ErrNotActive, l_revoke p, l_amount p, None)) \/
                    (c = E_permission /\ src = Ok (nil, Err_constants_ErrPermissionDenied, l_revoke p, l_amount p, None)) \/
                    (c = E_revoke_not_due /\ src = Ok (nil, Err_constants_RevokeNotDue, l_revoke p, l_amount p, None))
                | MPanic => False
                end
            end
        end
    end.
  Proof.
    intros Hstake. unfold pillar_revoke_receive.
    destruct (pillar_revoke_validate name_ok s) as [name|c|].
    - cbv zeta. destruct (tget (l_pillars (a_store a)) name) as [p|].
      + destruct (revoke_window (c_PillarLock e) (c_PillarRevoke e) (l_reg p) (l_now e)) as [[can lft]|]; [|exact I].
        unfold RevokePillar_receive. cbv zeta. change (0 =? 0) with true. cbn [negb guard].
        assert (Hne : (0 =? Err_constants_ErrDataNonExistent) = false) by reflexivity. rewrite Hne.
        rewrite num_eqb'.
        destruct (l_revoke p =? 0); cbn [negb].
        * destruct (bytes_eqb (l_owner p) (s_from s)); cbn [negb].
          -- destruct can; cbn [negb].
             ++ split; [reflexivity|]. split; [reflexivity|].
                eexists. split; [cbn [a_store with_store set_pillars l_pillars]; rewrite tget_tput, bytes_eqb_refl; reflexivity|].
                cbn. split; reflexivity.
             ++ right. right. split; reflexivity.
          -- right. left. split; reflexivity.
        * left. split; reflexivity.
      + split; [reflexivity|]. intros. unfold RevokePillar_receive. cbv zeta. change (0 =? 0) with true. cbn [negb guard].
        rewrite Z.eqb_refl. reflexivity.
    - split; [reflexivity|]. intros Hc rt amt u g act stake sender f st lft now sv.
      unfold RevokePillar_receive. cbv zeta. assert ((c =? 0) = false) as -> by lia. reflexivity.
    - reflexivity.
  Qed.
End PillarSource.

(* liquidity.CancelLiquidityStake of the hand model (Liquidity.v) = the translated source *)
From ZV Require Import Liquidity.
Section LiquiditySource.
  Variable num : bytes -> Z.

  Theorem cancel_liquidity_is_source (e : env) (a : cacct qstore) (s : send) :
    match cancel_liquidity_validate s with
    | VErr c =>
        cancel_liquidity_receive e a s = MErr c /\
        (c <> 0 -> forall rt amt u g f exp now sv own zts,
           CancelLiquidityStake_receive rt amt c u g f exp now sv own zts = Ok (nil, c, rt, amt, None))
    | VPanic => cancel_liquidity_receive e a s = MPanic
    | VOk id =>
        match tget (lq_entries (a_store a)) (s_from s ++ id) with
        | None =>
            cancel_liquidity_receive e a s = MErr E_nonexistent /\
            forall rt amt f exp now sv own zts,
              CancelLiquidityStake_receive rt amt 0 0 Err_constants_ErrDataNonExistent f exp now sv own zts =
              Ok (nil, Err_constants_ErrDataNonExistent, rt, amt, None)
        | Some ent =>
            let src := CancelLiquidityStake_receive (ls_revoke ent) (ls_amount ent) 0 0 0 0 (ls_exp ent) (e_now e) 0
                         (num (s_from s)) (num (ls_zts ent)) in
            if e_now e <? ls_exp ent then
              cancel_liquidity_receive e a s = MErr E_revoke_not_due /\
              src = Ok (nil, Err_constants_RevokeNotDue, ls_revoke ent, ls_amount ent, None)
            else
              exists a',
                cancel_liquidity_receive e a s =
                  MOk a' [{| d_to := s_from s; d_amount := ls_amount ent; d_zts := ls_zts ent; d_data := [] |}] /\
                src = Ok ([(num (s_from s), ls_amount ent, num (ls_zts ent))], 0, e_now e, 0, Some 1) /\
                (exists ent', tget (lq_entries (a_store a')) (s_from s ++ id) = Some ent' /\
                   ls_amount ent' = 0 /\ ls_revoke ent' = e_now e /\ ls_exp ent' = ls_exp ent /\ ls_zts ent' = ls_zts ent)
        end
    end.
  Proof.
    unfold cancel_liquidity_receive.
    destruct (cancel_liquidity_validate s) as [id|c|].
    - cbv zeta. destruct (tget (lq_entries (a_store a)) (s_from s ++ id)) as [ent|].
      + unfold CancelLiquidityStake_receive. cbv zeta. change (0 =? 0) with true. cbn [negb guard].
        assert (Hne : (0 =? Err_constants_ErrDataNonExistent) = false) by reflexivity. rewrite Hne.
        destruct (e_now e <? ls_exp ent) eqn:Ed.
        * split; reflexivity.
        * eexists. split; [reflexivity|]. split; [reflexivity|].
          eexists. split; [cbn [a_store with_store set_entries lq_entries]; rewrite tget_tput, bytes_eqb_refl; reflexivity|].
          cbn. repeat split; reflexivity.
      + split; [reflexivity|]. intros rt amt f exp now sv own zts.
        unfold CancelLiquidityStake_receive. cbv zeta. change (0 =? 0) with true. cbn [negb guard].
        rewrite Z.eqb_refl. reflexivity.
    - split; [reflexivity|]. intros Hc rt amt u g f exp now sv own zts.
      unfold CancelLiquidityStake_receive. cbv zeta. assert ((c =? 0) = false) as -> by lia. reflexivity.
    - reflexivity.
  Qed.
End LiquiditySource.
