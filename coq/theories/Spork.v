(* C17 — model of the spork machinery.
   Mirrors:
     vm/embedded/implementation/spork.go   CreateSporkMethod / ActivateSporkMethod (ValidateSendBlock, ReceiveBlock),
                                           checkSporkMetaDataStatic, checkCommunitySporkAddressValidity
     chain/momentum/embedded.go            IsSporkActive
     vm/vm_context/spork.go                IsAcceleratorSporkEnforced / IsHtlcSporkEnforced / IsBridgeAndLiquiditySporkEnforced
     vm/embedded/embedded.go               GetEmbeddedMethod (the if-chain over the four method tables)
     vm/vm.go                              applySend / generateEmbeddedReceive (use of GetEmbeddedMethod)
     chain/momentum_pool.go                GotAllActiveSporksImplemented, AddMomentumTransaction (halt)
     chain/chain.go                        Init (halt)
   The method tables are NOT written here: gen/Consts.v has them as dumped from the node's in-memory maps on
   every run (SporkTable<Regime>, SporkContracts<Regime>).  Spork ids (hashes) and contract addresses are
   abstract integers; a contract is its index in types.EmbeddedContracts. *)
From ZV Require Import Prelude GoSem.
From ZV.gen Require Import Consts.
Open Scope Z_scope.

(* definition.Spork as stored by the spork contract (name/description do not matter after creation) *)
Record spork := mkSpork { sp_id : Z; sp_activated : bool; sp_enf : Z }.

(* a momentum store, as far as sporks are concerned: height of its frontier momentum and the spork
   contract's storage as of that momentum *)
Record mstore := mkMstore { ms_height : Z; ms_sporks : list spork }.

(* chain/momentum/embedded.go: IsSporkActive *)
Definition is_active (st : mstore) (id : Z) : bool :=
  if ms_height st =? 1 then false
  else existsb (fun s => sp_activated s && (sp_enf s <=? ms_height st) && (sp_id s =? id)) (ms_sporks st).

(* common/types/spork.go: ids of the sporks this binary implements (package variables) *)
Record impl := mkImpl { id_accelerator : Z; id_htlc : Z; id_bridge : Z }.

(* ------------------------------------------------------------------ method tables *)

Inductive regime := Origin | Accelerator | Bridge | Htlc.

Definition table (r : regime) : list Z :=
  match r with Origin => SporkTableOrigin | Accelerator => SporkTableAccelerator | Bridge => SporkTableBridge | Htlc => SporkTableHtlc end.
Definition contracts (r : regime) : list Z :=
  match r with Origin => SporkContractsOrigin | Accelerator => SporkContractsAccelerator
             | Bridge => SporkContractsBridge | Htlc => SporkContractsHtlc end.

(* GetEmbeddedMethod: the if-chain *)
Definition regime_of (st : mstore) (im : impl) : regime :=
  if is_active st (id_htlc im) then Htlc
  else if is_active st (id_bridge im) then Bridge
  else if is_active st (id_accelerator im) then Accelerator
  else Origin.

Definition zmem (x : Z) (l : list Z) : bool := existsb (Z.eqb x) l.
(* (contract index, 4-byte selector) as encoded in the dumped tables *)
Definition enc (c sel : Z) : Z := c * two32 + sel.

Inductive lookup_res := Found | MethodNotFound | ContractDoesntExist | NotContractAddress.

Definition lookup_in (r : regime) (c sel : Z) : lookup_res :=
  if zmem c (contracts r) then (if zmem (enc c sel) (table r) then Found else MethodNotFound)
  else ContractDoesntExist.

(* embedded = the address has the contract prefix byte; c = its index in types.EmbeddedContracts (or any other
   number for an embedded address that is no known contract); sel = first four bytes of the data (-1 if shorter) *)
Definition get_embedded_method (st : mstore) (im : impl) (embedded : bool) (c sel : Z) : lookup_res :=
  if negb embedded then NotContractAddress else lookup_in (regime_of st im) c sel.

(* vm.applySend: a send to an embedded address is rejected unless the method is found (then ValidateSendBlock decides) *)
Definition send_reaches_method (st : mstore) (im : impl) (embedded : bool) (c sel : Z) : bool :=
  match get_embedded_method st im embedded c sel with Found => true | NotContractAddress => true | _ => false end.
(* vm.generateEmbeddedReceive: method missing at receive time = rollback and refund *)
Inductive receive_path := Execute | Refund | ReceivePanic.
Definition receive_path_of (st : mstore) (im : impl) (c sel : Z) : receive_path :=
  match get_embedded_method st im true c sel with
  | Found => Execute
  | MethodNotFound => Refund
  | _ => ReceivePanic          (* method = nil is dereferenced *)
  end.

(* the spork that introduces a (contract, method) pair: the first table, in construction order, that has it *)
Inductive kind := KAccelerator | KBridge | KHtlc.
Definition id_of (im : impl) (k : kind) : Z :=
  match k with KAccelerator => id_accelerator im | KBridge => id_bridge im | KHtlc => id_htlc im end.
Inductive guard := Ungated | GatedBy (k : kind) | NeverCallable.
Definition guard_of (c sel : Z) : guard :=
  if zmem (enc c sel) (table Origin) then Ungated
  else if zmem (enc c sel) (table Accelerator) then GatedBy KAccelerator
  else if zmem (enc c sel) (table Bridge) then GatedBy KBridge
  else if zmem (enc c sel) (table Htlc) then GatedBy KHtlc
  else NeverCallable.

(* ------------------------------------------------------------------ the spork contract *)

Inductive sender := SporkKey | CommunityKey | OtherKey.
Inductive sp_err := EPermission | EInvalidAmount | EForbiddenParam | EUnpack | ENonExistent | EAlreadyActivated.

(* call data after ABI decoding: None = does not unpack *)
Definition meta_ok (name_len desc_len : Z) : bool :=
  negb ((name_len <? SporkNameMinLength) || (SporkNameMaxLength <? name_len)) && negb (SporkDescriptionMaxLength <? desc_len).

(* CreateSporkMethod.ValidateSendBlock *)
Definition create_validate (s : sender) (amount_zero : bool) (data : option (Z * Z)) : option sp_err :=
  match s with
  | OtherKey => Some EPermission
  | _ => if negb amount_zero then Some EInvalidAmount
         else match data with
              | None => Some EForbiddenParam
              | Some (nl, dl) => if meta_ok nl dl then None else Some EForbiddenParam
              end
  end.

(* checkCommunitySporkAddressValidity at the momentum the receive block acknowledges *)
Definition community_ok (h start end_ : Z) : bool := negb (h <? start) && negb (end_ <=? h).

Fixpoint sp_find (id : Z) (l : list spork) : option spork :=
  match l with [] => None | s :: r => if sp_id s =? id then Some s else sp_find id r end.
(* spork.Save: Put under the key derived from the id *)
Fixpoint sp_put (s : spork) (l : list spork) : list spork :=
  match l with [] => [s] | x :: r => if sp_id x =? sp_id s then s :: r else x :: sp_put s r end.

(* CreateSporkMethod.ReceiveBlock; h = height of the acknowledged momentum, new_id = hash of the send block *)
Definition create_receive (s : sender) (amount_zero : bool) (data : option (Z * Z)) (h start end_ : Z) (new_id : Z)
           (l : list spork) : sp_err + list spork :=
  match create_validate s amount_zero data with
  | Some e => inl e
  | None =>
    match s with
    | CommunityKey => if community_ok h start end_ then inr (sp_put (mkSpork new_id false 0) l) else inl EPermission
    | _ => inr (sp_put (mkSpork new_id false 0) l)
    end
  end.

(* ActivateSporkMethod.ValidateSendBlock; unpack_ok = the data decodes to a hash *)
Definition activate_validate (s : sender) (amount_zero unpack_ok : bool) : option sp_err :=
  match s with
  | OtherKey => Some EPermission
  | _ => if negb unpack_ok then Some EUnpack else if negb amount_zero then Some EInvalidAmount else None
  end.

(* ActivateSporkMethod.ReceiveBlock *)
Definition activate_receive (s : sender) (amount_zero unpack_ok : bool) (h start end_ : Z) (id : Z)
           (l : list spork) : sp_err + list spork :=
  match activate_validate s amount_zero unpack_ok with
  | Some e => inl e
  | None =>
    if (match s with CommunityKey => negb (community_ok h start end_) | _ => false end) then inl EPermission
    else match sp_find id l with
         | None => inl ENonExistent
         | Some x => if sp_activated x then inl EAlreadyActivated
                     else inr (sp_put (mkSpork id true (u64 (h + SporkMinHeightDelay))) l)
         end
  end.

(* ------------------------------------------------------------------ halt on an unknown enforced spork *)

(* GotAllActiveSporksImplemented: ids of enforced sporks that are not in ImplementedSporksMap *)
Definition unimplemented (st : mstore) (implemented : list Z) : list Z :=
  map sp_id (filter (fun s => sp_activated s && (sp_enf s <=? ms_height st) && negb (zmem (sp_id s) implemented)) (ms_sporks st)).

Inductive node_state := Running | Halted.
(* chain.Init and momentumPool.AddMomentumTransaction (after the momentum has been stored): os.Exit(2) *)
Definition check_sporks (st : mstore) (implemented : list Z) : node_state :=
  match unimplemented st implemented with [] => Running | _ => Halted end.

(* a node processing the successive frontier stores of a chain: returns the stores it has stored before halting *)
Fixpoint run_node (implemented : list Z) (stores : list mstore) : list mstore * node_state :=
  match stores with
  | [] => ([], Running)
  | st :: r =>
    match check_sporks st implemented with
    | Halted => ([st], Halted)
    | Running => let '(done, fin) := run_node implemented r in (st :: done, fin)
    end
  end.
