(* Model of protocol/chain_bridge.go InsertChain (C16), step by step, over an abstract chain and an abstract pool of
   unconfirmed account blocks.
   A momentum is (hash, previous hash, height); the local chain is the list of own momentums, oldest first, the
   last one is the frontier. A delivered momentum carries its account blocks (all but BlockTypeContractSend,
   which the loop skips) as (identifier, account, account height); the pool is the list of the account blocks that
   have a patch in the node's account pool (chain.GetPatch != nil).
   Verification is split into two ORACLES:
     - [bvalid chain pool b]  : Supervisor.ApplyBlock(b) succeeds (verifier.AccountBlock, vm, changes hash) on this chain
                                with this pool;
     - [mvalid chain pool d]  : Supervisor.ApplyMomentum(d) succeeds (verifier.Momentum, content = delivered blocks,
                                changes hash, producer, signature) with the pool as it is once the blocks of d went
                                through the loop. One part of it is explicit ([apply_momentum] at the end of the file):
                                vm.MomentumVM.applyMomentum hands the pool's patch of EVERY header the content lists to
                                the momentum store, and a header without a patch (GetPatch = nil) is a nil-pointer panic
                                that Supervisor.ApplyMomentum turns into ErrVmRunPanic - the only thing that refuses a
                                momentum listing a block that nobody applied.
   What InsertChain does around them is explicit:
     - a delivered block that already has a patch in the pool is NOT verified again ("already applied", continue);
     - a block that verifies is put in the pool (ForceAddAccountBlockTransaction) and stays there when the momentum
       that carries it fails afterwards;
     - chain.RollbackTo -> accountPool.DeleteMomentum drops the WHOLE pool ([clears = true]; [clears = false] is the
       variant in which pooled blocks survive a rollback, kept only to show what the clearing is needed for);
     - an adopted momentum takes its blocks out of the pool (accountPool.InsertMomentum / rebuild);
     - verifier.getContext: the previous momentum must be one of ours (else ErrMPreviousMissing);
     - ldbManager.Add writes the momentum only if its previous is the current frontier and otherwise returns nil
       without writing (so a verified momentum that does not extend the frontier is skipped silently).
   Go panics are the explicit result ICPanic. [fixed = false] is the code before fix 777dfea (F9): index into an
   empty slice, dereference of a nil target. Definitions only; proofs in SyncProofs.v. *)
From ZV Require Import Prelude GoSem.
Open Scope Z_scope.

Record smom := mkS { s_hash : Z; s_prev : Z; s_height : Z }.
(* an account block: identifier (hash), account, height on the account chain *)
Record blk := mkB { b_id : Z; b_acc : Z; b_height : Z }.
(* d_blocks: the delivered account blocks the loop looks at (all but BlockTypeContractSend), in order;
   d_content: the headers the momentum lists (momentum.Content), all of them *)
Record dmom := mkD { d_mom : smom; d_blocks : list blk; d_content : list blk }.

Definition smom_eqb (a b : smom) : bool :=
  (s_hash a =? s_hash b) && (s_prev a =? s_prev b) && (s_height a =? s_height b).

Inductive ic_err := EEmpty | ELink | ETooFar | ENotLonger | EInvalid | ENoFrontier.
Inductive ic_res := ICOk | ICErr (idx : Z) (e : ic_err) | ICPanic.

(* store.GetMomentumByHeight on the frontier store *)
Fixpoint by_height (c : list smom) (h : Z) : option smom :=
  match c with
  | [] => None
  | m :: r => if s_height m =? h then Some m else by_height r h
  end.
Definition frontier (c : list smom) : option smom := last (map Some c) None.
(* Previous() = (PreviousHash, Height - 1) in uint64; Identifier() = (Hash, Height) *)
Definition prev_is (d m : smom) : bool := (s_prev d =? s_hash m) && (u64 (s_height d - 1) =? s_height m).
(* chain.RollbackTo(target): pop until the frontier is at target's height *)
Fixpoint rollback_to (c : list smom) (h : Z) : list smom :=
  match c with
  | [] => []
  | m :: r => if s_height m =? h then [m] else m :: rollback_to r h
  end.
(* GetMomentumStore(previous) != nil: previous is one of ours, hash and height *)
Definition known_prev (c : list smom) (d : smom) : bool := existsb (prev_is d) c.
Definition extends (c : list smom) (d : smom) : bool :=
  match frontier c with Some f => prev_is d f | None => false end.

Definition blk_eqb (a b : blk) : bool :=
  (b_id a =? b_id b) && (b_acc a =? b_acc b) && (b_height a =? b_height b).
(* chain.GetPatch(address, identifier = (hash, height)) != nil *)
Definition pooled (b : blk) (pool : list blk) : bool := existsb (blk_eqb b) pool.
(* accountPool.InsertMomentum: the blocks of the inserted momentum are confirmed, they leave the pool *)
Definition confirm (bs pool : list blk) : list blk := filter (fun y => negb (pooled y bs)) pool.
(* accountPool.addAccountBlockTransaction(force): a block that does not sit on the pooled frontier of its account
   replaces the pooled blocks of that account from its height on ("rollback blocks and insert this one") *)
Definition force_add (b : blk) (pool : list blk) : list blk :=
  filter (fun y => negb ((b_acc y =? b_acc b) && (b_height b <=? b_height y))) pool ++ [b].

(* the node as InsertChain sees it: own momentums, identifiers of the pooled (unconfirmed) account blocks *)
Definition nstate := (list smom * list blk)%type.

Section InsertChain.
  Variable bvalid : list smom -> list blk -> blk -> bool.   (* the account block passes full verification *)
  Variable mvalid : list smom -> list blk -> dmom -> bool.   (* the momentum passes full verification (chain, pool) *)
  Variable fixed : bool.
  Variable clears : bool.                               (* DeleteMomentum drops the whole pool (the code: true) *)

  (* "remove momentums which we already have": same hash at the same height *)
  Fixpoint skip_known (c : list smom) (ds : list dmom) (start : Z) : Z * list dmom :=
    match ds with
    | [] => (start, [])
    | d :: r => match by_height c (s_height (d_mom d)) with
                | Some our => if s_hash our =? s_hash (d_mom d) then skip_known c r (start + 1) else (start, ds)
                | None => (start, ds)
                end
    end.

  (* the inner loop over detailed.AccountBlocks: false = ApplyBlock returned an error *)
  Fixpoint apply_blocks (c : list smom) (pool : list blk) (bs : list blk) : bool * list blk :=
    match bs with
    | [] => (true, pool)
    | b :: r =>
        if pooled b pool then apply_blocks c pool r                     (* patch != nil: already applied *)
        else if bvalid c pool b then apply_blocks c (force_add b pool) r   (* ApplyBlock, ForceAddAccountBlockTransaction *)
        else (false, pool)
    end.

  (* "Insert momentum now": in order, early return index + start *)
  Fixpoint apply_all (c : list smom) (pool : list blk) (ds : list dmom) (idx : Z) : ic_res * nstate :=
    match ds with
    | [] => (ICOk, (c, pool))
    | d :: r =>
        let '(okb, p1) := apply_blocks c pool (d_blocks d) in
        if okb && (known_prev c (d_mom d) && mvalid c p1 d)
        then if extends c (d_mom d)
             then apply_all (c ++ [d_mom d]) (confirm (d_blocks d) p1) r (idx + 1)
             else apply_all c p1 r (idx + 1)
        else (ICErr idx EInvalid, (c, p1))
    end.

  Definition insert_chain (c : list smom) (pool : list blk) (ds : list dmom) : ic_res * nstate :=
    match ds with
    | [] => (if fixed then ICErr 0 EEmpty else ICPanic, (c, pool))        (* momentums[0] *)
    | _ :: _ =>
      let '(start, rest) := skip_known c ds 0 in
      match rest with
      | [] => (ICOk, (c, pool))                                            (* nothing to insert *)
      | head :: _ =>
        let tail := last rest head in
        match frontier c with
        | None => (ICErr 0 ENoFrontier, (c, pool))
        | Some fr =>
          if prev_is (d_mom head) fr then apply_all c pool rest start
          else
            match by_height c (u64 (s_height (d_mom head) - 1)) with
            | None => (if fixed then ICErr start ELink else ICPanic, (c, pool)) (* target.Identifier() on nil *)
            | Some target =>
              if negb (prev_is (d_mom head) target) then (ICErr start ELink, (c, pool))
              else if 30 <? u64 (s_height fr - s_height target) then (ICErr start ETooFar, (c, pool))
              else if s_height (d_mom tail) <=? s_height fr then (ICErr start ENotLonger, (c, pool))
              else apply_all (rollback_to c (s_height target))             (* rollback BEFORE verification; *)
                             (if clears then [] else pool) rest start      (* DeleteMomentum empties the pool *)
            end
        end
      end
    end.

  (* ---- the insert lock. chain.AcquireInsert serialises the writers of a node (the pillar producing a momentum, the
     fetcher inserting an announced momentum, the downloader importing a batch, the handler pooling broadcast blocks).
     A writer that is served first is a state transformer [w]; InsertChain takes the lock BEFORE it reads anything, so
     all it decides (known prefix, extension or side chain, fork point, the 30-momentum window, strictly longer) is
     decided on [w st], the state under the lock, which is also the state RollbackTo and the insertion act on. *)
  Definition insert_chain_locked (w : nstate -> nstate) (st : nstate) (ds : list dmom) : nstate * (ic_res * nstate) :=
    let st1 := w st in (st1, insert_chain (fst st1) (snd st1) ds).

  (* The variant that reads before it locks (kept only to show what the order is needed for): the frontier store and
     the known prefix are taken from a snapshot [snap] of the chain, the other writer runs, then the window and the
     length are judged on the snapshot while the rollback and the insertion act on the real chain [c]. *)
  Definition insert_chain_stale (snap c : list smom) (pool : list blk) (ds : list dmom) : ic_res * nstate :=
    match ds with
    | [] => (ICErr 0 EEmpty, (c, pool))
    | _ :: _ =>
      let '(start, rest) := skip_known snap ds 0 in
      match rest with
      | [] => (ICOk, (c, pool))
      | head :: _ =>
        let tail := last rest head in
        match frontier snap with
        | None => (ICErr 0 ENoFrontier, (c, pool))
        | Some fr =>
          if prev_is (d_mom head) fr then apply_all c pool rest start
          else
            match by_height snap (u64 (s_height (d_mom head) - 1)) with
            | None => (ICErr start ELink, (c, pool))
            | Some target =>
              if negb (prev_is (d_mom head) target) then (ICErr start ELink, (c, pool))
              else if 30 <? u64 (s_height fr - s_height target) then (ICErr start ETooFar, (c, pool))
              else if s_height (d_mom tail) <=? s_height fr then (ICErr start ENotLonger, (c, pool))
              else apply_all (rollback_to c (s_height target)) (if clears then [] else pool) rest start
            end
        end
      end
    end.
End InsertChain.

(* ---- Supervisor.ApplyMomentum, the part that looks at the pool. vm.MomentumVM.applyMomentum:
       for every header of momentum.Content: momentumStore.AddAccountBlockTransaction(header, pool.GetPatch(header))
   and AddAccountBlockTransaction starts with len(patch.Dump()): a header the pool has no patch for panics, recovered as
   ErrVmRunPanic. [guard = true] is the variant that skips such a header (`patch == nil || len(patch.Dump()) == 0`),
   kept only to show what the panic is needed for. [rest]: everything else ApplyMomentum checks. *)
Definition content_held (p : list blk) (d : dmom) : bool := forallb (fun h => pooled h p) (d_content d).
Definition apply_momentum (guard : bool) (rest : list smom -> dmom -> bool) (c : list smom) (p : list blk) (d : dmom) : bool :=
  (guard || content_held p d) && rest c d.

(* the writer "own pillar": the node produces momentums on its frontier, each confirming blocks of its pool *)
Definition produce (st : nstate) (d : dmom) : nstate := (fst st ++ [d_mom d], confirm (d_blocks d) (snd st)).
Definition produce_all (ds : list dmom) (st : nstate) : nstate := fold_left produce ds st.

(* a well-formed local chain: consecutive heights in [1, 2^64), each momentum names its predecessor *)
Fixpoint linked (c : list smom) : Prop :=
  match c with
  | [] => True
  | m :: r => match r with
              | [] => True
              | n :: _ => s_prev n = s_hash m /\ s_height n = s_height m + 1
              end /\ linked r
  end.
Definition wf_chain (c : list smom) : Prop :=
  c <> [] /\ linked c /\ Forall (fun m => 1 <= s_height m < two64) c.
