(* Model of protocol/chain_bridge.go InsertChain (C16), step by step, over an abstract chain.
   A momentum is (hash, previous hash, height); the local chain is the list of own momentums, oldest first, the
   last one is the frontier. Full verification of a delivered momentum and of its account blocks
   (Supervisor.ApplyBlock for every block, Supervisor.ApplyMomentum) is the ORACLE [valid chain d]; the two
   structural parts of it that InsertChain's behaviour depends on are explicit:
     - verifier.getContext: the previous momentum must be one of ours (else ErrMPreviousMissing);
     - ldbManager.Add writes the momentum only if its previous is the current frontier and otherwise returns nil
       without writing (so a verified momentum that does not extend the frontier is skipped silently).
   Go panics are the explicit result ICPanic. [fixed = false] is the code before fix 777dfea (F9): index into an
   empty slice, dereference of a nil target. Definitions only; proofs in SyncProofs.v. *)
From ZV Require Import Prelude GoSem.
Open Scope Z_scope.

Record smom := mkS { s_hash : Z; s_prev : Z; s_height : Z }.

Definition smom_eqb (a b : smom) : bool :=
  (s_hash a =? s_hash b) && (s_prev a =? s_prev b) && (s_height a =? s_height b).

Inductive ic_err := EEmpty | ELink | ETooFar | ENotLonger | EInvalid | ENoFrontier.
Inductive ic_res := ICOk | ICErr (idx : Z) (e : ic_err) | ICPanic.

(* store.GetMomentumByHeight on the frontier store *)
Fixpoint by_height (c : list smom) (h : Z) : option smom :=
  match c with
  | [] => None
  | m :: r => if s_height m =? h then Some m else by_height r h
  end.
Definition frontier (c : list smom) : option smom := last (map Some c) None.
(* Previous() = (PreviousHash, Height - 1) in uint64; Identifier() = (Hash, Height) *)
Definition prev_is (d m : smom) : bool := (s_prev d =? s_hash m) && (u64 (s_height d - 1) =? s_height m).
(* chain.RollbackTo(target): pop until the frontier is at target's height *)
Fixpoint rollback_to (c : list smom) (h : Z) : list smom :=
  match c with
  | [] => []
  | m :: r => if s_height m =? h then [m] else m :: rollback_to r h
  end.
(* GetMomentumStore(previous) != nil: previous is one of ours, hash and height *)
Definition known_prev (c : list smom) (d : smom) : bool := existsb (prev_is d) c.
Definition extends (c : list smom) (d : smom) : bool :=
  match frontier c with Some f => prev_is d f | None => false end.

Section InsertChain.
  Variable valid : list smom -> smom -> bool.      (* all account blocks and the momentum pass full verification *)
  Variable fixed : bool.

  (* "remove momentums which we already have": same hash at the same height *)
  Fixpoint skip_known (c : list smom) (ds : list smom) (start : Z) : Z * list smom :=
    match ds with
    | [] => (start, [])
    | d :: r => match by_height c (s_height d) with
                | Some our => if s_hash our =? s_hash d then skip_known c r (start + 1) else (start, ds)
                | None => (start, ds)
                end
    end.

  (* "Insert momentum now": in order, early return index + start *)
  Fixpoint apply_all (c : list smom) (ds : list smom) (idx : Z) : ic_res * list smom :=
    match ds with
    | [] => (ICOk, c)
    | d :: r =>
        if known_prev c d && valid c d
        then apply_all (if extends c d then c ++ [d] else c) r (idx + 1)
        else (ICErr idx EInvalid, c)
    end.

  Definition insert_chain (c : list smom) (ds : list smom) : ic_res * list smom :=
    match ds with
    | [] => (if fixed then ICErr 0 EEmpty else ICPanic, c)                (* momentums[0] *)
    | _ :: _ =>
      let '(start, rest) := skip_known c ds 0 in
      match rest with
      | [] => (ICOk, c)                                                    (* nothing to insert *)
      | head :: _ =>
        let tail := last rest head in
        match frontier c with
        | None => (ICErr 0 ENoFrontier, c)
        | Some fr =>
          if prev_is head fr then apply_all c rest start
          else
            match by_height c (u64 (s_height head - 1)) with
            | None => (if fixed then ICErr 0 ELink else ICPanic, c)        (* target.Identifier() on nil *)
            | Some target =>
              if negb (prev_is head target) then (ICErr 0 ELink, c)
              else if 30 <? u64 (s_height fr - s_height target) then (ICErr 0 ETooFar, c)
              else if s_height tail <=? s_height fr then (ICErr 0 ENotLonger, c)
              else apply_all (rollback_to c (s_height target)) rest start  (* rollback BEFORE verification *)
            end
        end
      end
    end.
End InsertChain.

(* a well-formed local chain: consecutive heights in [1, 2^64), each momentum names its predecessor *)
Fixpoint linked (c : list smom) : Prop :=
  match c with
  | [] => True
  | m :: r => match r with
              | [] => True
              | n :: _ => s_prev n = s_hash m /\ s_height n = s_height m + 1
              end /\ linked r
  end.
Definition wf_chain (c : list smom) : Prop :=
  c <> [] /\ linked c /\ Forall (fun m => 1 <= s_height m < two64) c.
