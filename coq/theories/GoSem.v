(* Semantics of the Go subset emitted by go2coq (coq/gen/Pure.v is stated in these terms). *)
From ZV Require Import Prelude.
Open Scope Z_scope.

(* result of wrapping to an unsigned / signed machine integer of n bits *)
Definition wrapU (n : Z) (x : Z) : Z := x mod 2 ^ n.
Definition wrapS (n : Z) (x : Z) : Z := (x + 2 ^ (n - 1)) mod 2 ^ n - 2 ^ (n - 1).

Inductive res (A : Type) := Ok (a : A) | Panic.
Arguments Ok {A} a.
Arguments Panic {A}.
Definition guard {A} (b : bool) (k : res A) : res A := if b then k else Panic.
Definition bind {A B} (r : res A) (k : A -> res B) : res B := match r with Ok a => k a | Panic => Panic end.

(* big.Int observers *)
Definition zcmp (a b : Z) : Z := if a <? b then -1 else if a =? b then 0 else 1.
Definition big_uint64s (x : Z) : Z := Z.sgn x * (Z.abs x mod two64).
Definition bitlen (x : Z) : Z := if x =? 0 then 0 else Z.log2 (Z.abs x) + 1.
(* big.Int.Div / Mod: Euclidean *)
Definition bigMod (x y : Z) : Z := x mod Z.abs y.
Definition bigDiv (x y : Z) : Z := Z.sgn y * (x / Z.abs y).

Lemma wrapU_small n x : 0 <= x < 2 ^ n -> wrapU n x = x.
Proof. intros. unfold wrapU. apply Z.mod_small; auto. Qed.
Lemma wrapS_small n x : 0 < n -> - 2 ^ (n - 1) <= x < 2 ^ (n - 1) -> wrapS n x = x.
Proof.
  intros Hn H. unfold wrapS.
  assert (E : 2 ^ n = 2 * 2 ^ (n - 1)).
  { replace n with (Z.succ (n - 1)) at 1 by lia. rewrite Z.pow_succ_r by lia. reflexivity. }
  rewrite Z.mod_small; lia.
Qed.
Lemma wrapU_range n x : 0 <= n -> 0 <= wrapU n x < 2 ^ n.
Proof. intros. unfold wrapU. apply Z.mod_pos_bound. apply Z.pow_pos_nonneg; lia. Qed.
Lemma wrapU64_small x : 0 <= x < two64 -> wrapU 64 x = x.
Proof. intros. apply wrapU_small. exact H. Qed.
Lemma wrapU32_small x : 0 <= x < two32 -> wrapU 32 x = x.
Proof. intros. apply wrapU_small. exact H. Qed.
Lemma wrapS64_small x : - two63 <= x < two63 -> wrapS 64 x = x.
Proof. intros. apply wrapS_small; [lia|]. exact H. Qed.
