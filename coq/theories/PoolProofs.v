(* C14 — proofs about Pool.v *)
From ZV Require Import Prelude GoSem Pool.
From ZV.gen Require Import Consts.
Open Scope Z_scope.
Ltac Zify.zify_post_hook ::= Z.div_mod_to_equations.

(* ------------------------------------------------------------ priority rule *)
Lemma priority_antisym a b : ~ (wins a b /\ wins b a).
Proof.
  unfold wins, higher_priority. intros [H1 H2].
  set (x := u64 (btotal a * bbase b)) in *. set (y := u64 (btotal b * bbase a)) in *.
  destruct (x <? y) eqn:E1; [discriminate|].
  destruct (y <? x) eqn:E2; [discriminate|].
  replace (x =? y) with true in H1 by lia. replace (y =? x) with true in H2 by lia.
  cbn [andb] in H1, H2.
  destruct (bhash b <=? bhash a) eqn:E3; [discriminate|].
  destruct (bhash a <=? bhash b) eqn:E4; [discriminate|]. lia.
Qed.

Lemma priority_total a b : bhash a <> bhash b -> wins a b \/ wins b a.
Proof.
  unfold wins, higher_priority. intros Hne.
  set (x := u64 (btotal a * bbase b)). set (y := u64 (btotal b * bbase a)).
  destruct (x <? y) eqn:E1.
  - right. replace (y <? x) with false by lia. replace (y =? x) with false by lia. reflexivity.
  - destruct (x =? y) eqn:E2.
    + assert (x = y) by lia. replace (y <? x) with false by lia. replace (y =? x) with true by lia. cbn [andb].
      destruct (bhash b <=? bhash a) eqn:E3.
      * right. replace (bhash a <=? bhash b) with false by lia. reflexivity.
      * left. reflexivity.
    + left. reflexivity.
Qed.

(* under the per-block plasma cap the products do not wrap: the comparison is the one of the true cross products,
   i.e. of the ratios total/base *)
Lemma priority_no_overflow a b :
  0 <= btotal a <= MaxPlasmaForAccountBlock -> 0 <= bbase a <= MaxPlasmaForAccountBlock ->
  0 <= btotal b <= MaxPlasmaForAccountBlock -> 0 <= bbase b <= MaxPlasmaForAccountBlock ->
  (wins a b <-> btotal b * bbase a < btotal a * bbase b \/ (btotal a * bbase b = btotal b * bbase a /\ bhash a < bhash b)).
Proof.
  unfold MaxPlasmaForAccountBlock. intros Ha1 Ha2 Hb1 Hb2. unfold wins, higher_priority.
  assert (H1 : 0 <= btotal a * bbase b < two64) by (unfold two64; nia).
  assert (H2 : 0 <= btotal b * bbase a < two64) by (unfold two64; nia).
  unfold u64. rewrite !Z.mod_small by assumption.
  destruct (btotal a * bbase b <? btotal b * bbase a) eqn:E1; [split; [discriminate|lia]|].
  destruct (btotal a * bbase b =? btotal b * bbase a) eqn:E2; cbn [andb].
  - destruct (bhash b <=? bhash a) eqn:E3.
    + split; [discriminate|lia].
    + split; [intros _; right; lia|reflexivity].
  - split; [intros _; left; lia|reflexivity].
Qed.

(* ------------------------------------------------------------ linked chains *)
Lemma ident_eqb_eq a b : ident_eqb a b = true <-> a = b.
Proof. destruct a, b. unfold ident_eqb. cbn [fst snd]. rewrite andb_true_iff, !Z.eqb_eq. split; [intros [-> ->]; reflexivity|intros E; inversion E; auto]. Qed.

Lemma linked_height rc : linked rc -> snd (frontier_id rc) = Z.of_nat (length rc).
Proof.
  induction rc as [|b r IH]; intros H; [reflexivity|].
  destruct H as [_ [Hh Hl]]. cbn [frontier_id id_of snd length]. rewrite Hh, IH by exact Hl. lia.
Qed.

Lemma linked_app x y : linked (x ++ y) -> linked y.
Proof. induction x as [|b x IH]; intros H; [exact H|]. apply IH. destruct H as [_ [_ H]]. exact H. Qed.

Lemma linked_heights_le rc : linked rc -> Forall (fun b => 1 <= bheight b <= Z.of_nat (length rc)) rc.
Proof.
  induction rc as [|b r IH]; intros H; [constructor|].
  pose proof (linked_height _ H) as Hh. destruct H as [_ [_ Hl]].
  constructor.
  - cbn [frontier_id id_of snd] in Hh. cbn [length] in *. lia.
  - eapply Forall_impl; [|apply IH; exact Hl]. cbn [length]. intros x Hx. lia.
Qed.

Lemma linked_heights_gt x y : linked (x ++ y) -> Forall (fun b => Z.of_nat (length y) < bheight b) x.
Proof.
  induction x as [|b x IH]; intros H; [constructor|].
  pose proof (linked_height _ H) as Hh. destruct H as [_ [_ Hl]].
  constructor.
  - cbn [app frontier_id id_of snd length] in Hh. rewrite app_length in Hh. lia.
  - apply IH. exact Hl.
Qed.

Lemma find_none_all {A} (f : A -> bool) (l : list A) : (forall x, In x l -> f x = false) -> find f l = None.
Proof.
  induction l as [|x l IH]; intros H; [reflexivity|]. cbn [find]. rewrite (H x) by (left; reflexivity).
  apply IH. intros y Hy. apply H. right. exact Hy.
Qed.
Lemma by_height_none rc h : linked rc -> Z.of_nat (length rc) < h -> by_height rc h = None.
Proof.
  intros Hl Hh. unfold by_height. apply find_none_all. intros b Hin.
  pose proof (linked_heights_le _ Hl) as Hf. rewrite Forall_forall in Hf. specialize (Hf b Hin). lia.
Qed.

Lemma by_height_some rc h p : by_height rc h = Some p -> In p rc /\ bheight p = h.
Proof. unfold by_height. intros H. apply find_some in H. destruct H. split; [assumption|lia]. Qed.

Lemma linked_has_height rc h : linked rc -> 1 <= h <= Z.of_nat (length rc) -> exists t, In t rc /\ bheight t = h.
Proof.
  induction rc as [|x r IH]; intros Hl Hh; [cbn [length] in Hh; lia|].
  pose proof (linked_height _ Hl) as Hx. cbn [frontier_id id_of snd] in Hx.
  destruct (Z.eq_dec h (Z.of_nat (length (x :: r)))) as [E|N].
  - exists x. split; [left; reflexivity|lia].
  - destruct Hl as [_ [_ Hl']]. destruct (IH Hl') as [t [Hin Ht]]; [cbn [length] in *; lia|].
    exists t. split; [right; exact Hin|exact Ht].
Qed.

(* ------------------------------------------------------------ the pop loop *)
(* the loop reaches every block that ends a transaction (a block that is not a contract send) and the stable frontier,
   popping whole transactions on the way *)
Lemma pop_until_reach rc n t p : forall mid,
  linked rc -> by_height rc t = Some p -> (n <= Z.to_nat t)%nat ->
  (bsend p = false \/ (Z.to_nat t <= n)%nat) ->
  exists pre r', rc = pre ++ r' /\ pop_until rc n (id_of p) mid = Some r' /\ frontier_id r' = id_of p /\ Z.of_nat (length r') = t.
Proof.
  induction rc as [|x r IH]; intros mid Hl Hb Hn Hp; [discriminate|].
  pose proof (linked_height _ Hl) as Hh. cbn [frontier_id id_of snd] in Hh.
  destruct (Z.eq_dec (bheight x) t) as [Ex|Nx].
  - assert (Hxp : x = p).
    { unfold by_height in Hb. cbn [find] in Hb. replace (bheight x =? t) with true in Hb by lia. congruence. }
    subst x. cbn [pop_until].
    assert (Hskip : mid && bsend p && (n <? length (p :: r))%nat = false).
    { destruct Hp as [Hp|Hp]; [rewrite Hp; destruct mid; reflexivity|].
      replace (n <? length (p :: r))%nat with false; [destruct mid, (bsend p); reflexivity|].
      symmetry. apply Nat.ltb_ge. lia. }
    rewrite Hskip.
    replace (ident_eqb (id_of p) (id_of p)) with true by (symmetry; apply ident_eqb_eq; reflexivity).
    exists [], (p :: r). repeat split. lia.
  - assert (Hb' : by_height r t = Some p).
    { unfold by_height in *. cbn [find] in Hb. replace (bheight x =? t) with false in Hb by lia. exact Hb. }
    destruct Hl as [_ [_ Hl']].
    pose proof (by_height_some _ _ _ Hb') as [Hin Hpt].
    pose proof (linked_heights_le _ Hl') as Hf. rewrite Forall_forall in Hf. specialize (Hf p Hin).
    assert (Hne : ident_eqb (id_of x) (id_of p) = false).
    { destruct (ident_eqb (id_of x) (id_of p)) eqn:E; [|reflexivity]. apply ident_eqb_eq in E. inversion E. lia. }
    assert (Hlen : (length (x :: r) <=? n)%nat = false) by (apply Nat.leb_gt; cbn [length]; lia).
    destruct (IH true Hl' Hb' Hn Hp) as [pre [r' [E1 [E2 [E3 E4]]]]].
    exists (x :: pre), r'. split; [rewrite E1; reflexivity|]. split; [|split; assumption].
    cbn [pop_until]. destruct (mid && bsend x && (n <? length (x :: r))%nat); [exact E2|]. rewrite Hne, Hlen. exact E2.
Qed.

Lemma skipn_suffix {A} (pre r : list A) (n : nat) : (n <= length r)%nat ->
  skipn (length (pre ++ r) - n) (pre ++ r) = skipn (length r - n) r.
Proof.
  intros H. rewrite app_length. replace (length pre + length r - n)%nat with (length pre + (length r - n))%nat by lia.
  rewrite skipn_app. rewrite skipn_all2 by lia. cbn [app]. f_equal. lia.
Qed.

(* ------------------------------------------------------------ transactions *)
Lemma linked_tx l : forall rc, linked rc -> tx_linked l ->
  match l with x :: _ => prev_of x = frontier_id rc /\ bheight x = snd (frontier_id rc) + 1 | [] => True end ->
  linked (rev l ++ rc).
Proof.
  induction l as [|x r IH]; intros rc Hl Ht Hx; [exact Hl|].
  cbn [rev]. rewrite <- app_assoc. cbn [app]. destruct Hx as [Hp Hh]. destruct Ht as [Hy Ht].
  apply IH; [cbn [linked]; repeat split; assumption|exact Ht|].
  destruct r as [|y r]; [exact I|]. cbn [frontier_id id_of snd]. exact Hy.
Qed.
Lemma tx_first_hd descs b : exists tl, descs ++ [b] = tx_first descs b :: tl.
Proof. destruct descs as [|d descs]; [exists []|exists (descs ++ [b])]; reflexivity. Qed.
Lemma tx_chain_rev (descs : list block) (b : block) (rc : list block) : b :: rev descs ++ rc = rev (descs ++ [b]) ++ rc.
Proof. rewrite rev_app_distr. reflexivity. Qed.
Lemma tx_linked_app_l x : forall y, tx_linked (x ++ y) -> tx_linked x.
Proof.
  induction x as [|a x IH]; intros y H; [exact I|]. cbn [app] in H. destruct H as [H1 H2]. cbn [tx_linked]. split; [|eapply IH; exact H2].
  destruct x as [|c x]; [exact I|]. exact H1.
Qed.
Lemma tx_linked_app_r x : forall y, tx_linked (x ++ y) -> tx_linked y.
Proof. induction x as [|a x IH]; intros y H; [exact H|]. cbn [app] in H. destruct H as [_ H2]. apply IH. exact H2. Qed.

(* ------------------------------------------------------------ add *)
Lemma stable_height_is_sh a : wf a -> stable_height a = Z.of_nat (sh a).
Proof.
  intros [Hl Hs]. unfold stable_height, confirmed.
  rewrite linked_height.
  - rewrite skipn_length. lia.
  - rewrite <- (firstn_skipn (length (rchain a) - sh a) (rchain a)) in Hl. apply linked_app in Hl. exact Hl.
Qed.
Lemma skipn_linked rc n : linked rc -> linked (skipn n rc).
Proof. intros H. rewrite <- (firstn_skipn n rc) in H. apply linked_app in H. exact H. Qed.
Lemma confirmed_of_confirmed a : (sh a <= length (rchain a))%nat -> confirmed (mkAcct (confirmed a) (sh a)) = confirmed a.
Proof.
  intros Hs. unfold confirmed. cbn [rchain sh]. rewrite skipn_length.
  replace (length (rchain a) - (length (rchain a) - sh a) - sh a)%nat with 0%nat by lia. reflexivity.
Qed.

Lemma prev_check_cases rc b prev :
  prev_check rc b prev = ROk \/ prev_check rc b prev = RErrNoPrev \/ prev_check rc b prev = RErrPrevMismatch.
Proof.
  unfold prev_check. destruct (bheight b =? 1).
  - destruct (ident_eqb prev (0, 0)); auto.
  - destruct (by_height rc (u64 (bheight b - 1))) as [p|]; [destruct (ident_eqb (id_of p) prev)|]; auto.
Qed.

(* the pop loop of a block that names the empty account-chain, on an account without confirmed blocks: everything goes *)
Lemma pop_until_all rc : forall mid, linked rc -> pop_until rc 0 (0, 0) mid = Some [].
Proof.
  induction rc as [|x r0 IH]; intros mid Hl0; [reflexivity|].
  cbn [pop_until]. pose proof (linked_heights_le _ Hl0) as Hf0. inversion Hf0 as [|? ? Hx _]; subst.
  destruct Hl0 as [_ [_ Hl1]].
  destruct (mid && bsend x && (0 <? length (x :: r0))%nat); [apply IH; exact Hl1|].
  replace (ident_eqb (id_of x) (0, 0)) with false.
  2:{ symmetry. destruct (ident_eqb (id_of x) (0, 0)) eqn:E; [|reflexivity]. apply ident_eqb_eq in E. inversion E. lia. }
  replace (length (x :: r0) <=? 0)%nat with false by (symmetry; apply Nat.leb_gt; cbn [length]; lia).
  apply IH; exact Hl1.
Qed.

(* what addAccountBlockTransaction does with a transaction (descs = []: a block without descendants).
   A failing pop loop (RErrPop) leaves the manager at its stable version: only when the block named as previous is a
   contract send INSIDE a pooled batch - no version of the account ends there *)
Lemma add_tx_spec force a descs b a' r : wf a -> wf_tx descs b -> Z.of_nat (length (rchain a)) < two63 ->
  add_tx force a descs b = (a', r) ->
  wf a' /\ sh a' = sh a /\ confirmed a' = confirmed a /\ r <> RPanic /\
  (length (rchain a') <= S (length descs) + length (rchain a))%nat /\
  (r = ROk -> frontier_id (rchain a') = id_of b) /\ (r <> ROk -> r <> RErrPop -> a' = a) /\
  (r = RErrPop -> rchain a' = confirmed a /\
     exists p, by_height (rchain a) (u64 (bheight b - 1)) = Some p /\ id_of p = prev_of (tx_first descs b) /\
               bsend p = true /\ Z.of_nat (sh a) < bheight p) /\
  (r = ROk -> exists dropped below, rchain a = dropped ++ below /\ rchain a' = b :: rev descs ++ below /\
     frontier_id below = prev_of (tx_first descs b) /\ (length dropped <= length (rchain a) - sh a)%nat /\
     Forall (fun x => bheight (tx_first descs b) <= bheight x) dropped /\ (descs <> [] -> dropped = [])).
Proof.
  intros Hwf [Hu [Hu1 Htx]] Hlen Hadd. pose proof Hwf as [Hl Hs]. unfold add_tx, add_tx_with in Hadd.
  set (f := tx_first descs b) in *.
  assert (Hsame : forall r0, r0 <> RPanic -> r0 <> RErrPop -> r0 <> ROk -> (a, r0) = (a', r) ->
     wf a' /\ sh a' = sh a /\ confirmed a' = confirmed a /\ r <> RPanic /\
     (length (rchain a') <= S (length descs) + length (rchain a))%nat /\
     (r = ROk -> frontier_id (rchain a') = id_of b) /\ (r <> ROk -> r <> RErrPop -> a' = a) /\
     (r = RErrPop -> rchain a' = confirmed a /\
        exists p, by_height (rchain a) (u64 (bheight b - 1)) = Some p /\ id_of p = prev_of f /\
                  bsend p = true /\ Z.of_nat (sh a) < bheight p) /\
     (r = ROk -> exists dropped below, rchain a = dropped ++ below /\ rchain a' = b :: rev descs ++ below /\
        frontier_id below = prev_of f /\ (length dropped <= length (rchain a) - sh a)%nat /\
        Forall (fun x => bheight f <= bheight x) dropped /\ (descs <> [] -> dropped = []))).
  { intros r0 N1 N2 N3 E. inversion E; subst. repeat split; auto; try lia; intros; congruence. }
  (* installing the transaction on a chain whose frontier is its parent *)
  assert (Hinst : forall below, linked below -> frontier_id below = prev_of f -> Z.of_nat (length below) < two63 ->
            linked (b :: rev descs ++ below) /\ bheight f = Z.of_nat (length below) + 1).
  { intros below Hlb Hfb Hbl.
    assert (Hh : bheight f = snd (frontier_id below) + 1).
    { pose proof (linked_height _ Hlb) as Hh. rewrite Hfb in Hh. unfold prev_of in Hh. cbn [snd] in Hh.
      rewrite Hfb. unfold prev_of. cbn [snd]. unfold in_u64, u64, two63, two64 in *. lia. }
    split; [|rewrite Hh, (linked_height _ Hlb); reflexivity].
    rewrite tx_chain_rev. apply linked_tx; [exact Hlb|exact Htx|].
    destruct (tx_first_hd descs b) as [tl Etl]. rewrite Etl. fold f. split; [symmetry; exact Hfb|exact Hh]. }
  destruct (ident_eqb (prev_of f) (frontier_id (rchain a))) eqn:Eff.
  - (* fast-forward *)
    apply ident_eqb_eq in Eff. inversion Hadd; subst a' r. clear Hadd.
    destruct (Hinst (rchain a) Hl (eq_sym Eff) Hlen) as [Hln _].
    cbn [rchain sh]. split; [|split; [reflexivity|split; [|split; [discriminate|split; [|split; [reflexivity|split; [congruence|split; [discriminate|]]]]]]]].
    + split; [exact Hln|]. cbn [rchain sh length]. rewrite app_length. lia.
    + unfold confirmed. cbn [rchain sh]. change (b :: rev descs ++ rchain a) with ((b :: rev descs) ++ rchain a).
      apply skipn_suffix. exact Hs.
    + cbn [length]. rewrite app_length, rev_length. lia.
    + intros _. exists [], (rchain a). cbn [app length]. repeat split; [symmetry; exact Eff|lia|constructor].
  - pose proof (stable_height_is_sh a Hwf) as Hsh.
    destruct (by_height (rchain a) (bheight b)) as [t|] eqn:Et.
    + destruct (ident_eqb (id_of t) (id_of b)); [eapply Hsame; [| | |exact Hadd]; discriminate|].
      destruct (bheight b <=? stable_height a) eqn:Eold; [eapply Hsame; [| | |exact Hadd]; discriminate|].
      destruct (prev_check_cases (rchain a) b (prev_of f)) as [Echk|[Echk|Echk]]; rewrite Echk in Hadd;
        [|eapply Hsame; [| | |exact Hadd]; discriminate|eapply Hsame; [| | |exact Hadd]; discriminate].
      destruct (negb force && negb (higher_priority b t =? 0)) eqn:Epr.
      { destruct (higher_priority b t =? 1); (eapply Hsame; [| | |exact Hadd]; discriminate). }
      unfold prev_check in Echk. destruct (bheight b =? 1) eqn:Eh1.
      { (* the first block of the account: it names the empty account-chain, everything pooled is popped *)
        destruct (ident_eqb (prev_of f) (0, 0)) eqn:Ez; [|discriminate]. apply ident_eqb_eq in Ez.
        apply Z.eqb_eq in Eh1. apply Z.leb_gt in Eold.
        assert (Hsh0 : sh a = 0%nat) by lia.
        assert (Hdescs : descs = []).
        { destruct descs as [|d ds]; [reflexivity|]. exfalso.
          assert (Hinc : forall l x, tx_linked (x :: l ++ [b]) -> bheight x < bheight b).
          { clear. induction l as [|y l IH]; intros x H.
            - cbn [app] in H. destruct H as [[_ H] _]. lia.
            - cbn [app] in H. destruct H as [[_ H1] H2]. specialize (IH y H2). lia. }
          unfold f in *. cbn [tx_first] in *. cbn [app] in Htx. specialize (Hinc ds d Htx).
          assert (E2 : snd (prev_of d) = 0) by (rewrite Ez; reflexivity). unfold prev_of in E2. cbn [snd] in E2.
          unfold in_u64, u64, two63, two64 in *. lia. }
        subst descs. cbn [tx_first] in f. subst f. cbn [rev app length tx_first] in *.
        rewrite Ez, Hsh0, (pop_until_all _ false Hl) in Hadd. inversion Hadd; subst a' r. clear Hadd.
        cbn [rchain sh length].
        split; [split; [cbn [linked frontier_id snd]; split; [exact Ez|split; [change (frontier_id (@nil block)) with (0, 0); cbn [snd]; lia|exact I]]|cbn [rchain sh length]; lia]|].
        split; [symmetry; exact Hsh0|].
        split; [unfold confirmed; cbn [rchain sh length skipn Nat.sub]; rewrite Hsh0, Nat.sub_0_r, skipn_all; reflexivity|].
        split; [discriminate|]. split; [lia|]. split; [reflexivity|]. split; [congruence|]. split; [discriminate|].
        intros _. exists (rchain a), []. split; [symmetry; apply app_nil_r|]. split; [reflexivity|]. split; [symmetry; exact Ez|].
        split; [rewrite Hsh0; lia|]. split; [|congruence].
        eapply Forall_impl; [|apply linked_heights_le; exact Hl]. cbn. intros x Hx. lia. }
      destruct (by_height (rchain a) (u64 (bheight b - 1))) as [p|] eqn:Ep; [|discriminate].
      destruct (ident_eqb (id_of p) (prev_of f)) eqn:Epp; [|discriminate]. clear Echk.
      apply ident_eqb_eq in Epp.
      pose proof (by_height_some _ _ _ Ep) as [Hinp Hhp].
      pose proof (linked_heights_le _ Hl) as Hf. rewrite Forall_forall in Hf. pose proof (Hf p Hinp) as Hpr.
      assert (Hb1 : bheight b - 1 = bheight p) by (unfold in_u64, u64, two63, two64 in *; lia).
      (* the parent of the whole transaction is the block at height(b) - 1: the transaction has no descendants *)
      assert (Hdescs : descs = []).
      { destruct descs as [|d ds]; [reflexivity|]. exfalso.
        assert (Hfp : bheight f - 1 = bheight p).
        { assert (E2 : snd (id_of p) = snd (prev_of f)) by (rewrite Epp; reflexivity).
          unfold prev_of in E2. cbn [id_of snd] in E2. unfold in_u64, u64, two63, two64 in *. lia. }
        (* heights strictly increase along the transaction *)
        assert (Hinc : forall l x, tx_linked (x :: l ++ [b]) -> bheight x < bheight b).
        { clear. induction l as [|y l IH]; intros x H.
          - cbn [app] in H. destruct H as [[_ H] _]. lia.
          - cbn [app] in H. destruct H as [[_ H1] H2]. specialize (IH y H2). lia. }
        unfold f in Hfp. cbn [tx_first] in Hfp. cbn [app] in Htx. specialize (Hinc ds d Htx). lia. }
      subst descs. cbn [tx_first] in f. subst f. cbn [rev app length] in *.
      destruct (pop_until (rchain a) (sh a) (prev_of b) false) as [rc'|] eqn:Epop.
      * (* replaced *)
        assert (Hreach : bsend p = false \/ (Z.to_nat (u64 (bheight b - 1)) <= sh a)%nat -> 
                exists pre r', rchain a = pre ++ r' /\ Some rc' = Some r' /\ frontier_id r' = id_of p /\ Z.of_nat (length r') = u64 (bheight b - 1)).
        { intros Hc. destruct (pop_until_reach (rchain a) (sh a) (u64 (bheight b - 1)) p false Hl Ep ltac:(lia) Hc) as [pre [r' [E1 [E2 [E3 E4]]]]].
          exists pre, r'. rewrite <- Epop, <- Epp. repeat split; assumption. }
        (* whatever p is, a successful loop ends on a suffix whose frontier is the target *)
        assert (Hsuf : forall rc n mid r1, linked rc -> pop_until rc n (prev_of b) mid = Some r1 ->
                  exists pre, rc = pre ++ r1 /\ (frontier_id r1 = prev_of b) /\ (n <= length r1 \/ r1 = rc)%nat).
        { clear - Hu Hb1 Hpr. induction rc as [|x r0 IH]; intros n mid r1 Hl0 H.
          - cbn [pop_until] in H. destruct (ident_eqb (0, 0) (prev_of b)) eqn:E; [|discriminate]. inversion H; subst.
            exists []. apply ident_eqb_eq in E. repeat split; [cbn [frontier_id]; exact E|right; reflexivity].
          - cbn [pop_until] in H. destruct Hl0 as [_ [_ Hl1]].
            destruct (mid && bsend x && (n <? length (x :: r0))%nat) eqn:E0.
            + destruct (IH n true r1 Hl1 H) as [pre [E1 [E2 E3]]]. exists (x :: pre). split; [rewrite E1; reflexivity|]. split; [exact E2|].
              left. destruct E3 as [E3|E3]; [exact E3|]. subst r1. apply andb_prop in E0. destruct E0 as [_ E0]. apply Nat.ltb_lt in E0. cbn [length] in E0. lia.
            + destruct (ident_eqb (id_of x) (prev_of b)) eqn:E1.
              * inversion H; subst. exists []. apply ident_eqb_eq in E1. repeat split; [exact E1|right; reflexivity].
              * destruct (length (x :: r0) <=? n)%nat eqn:E2; [discriminate|].
                destruct (IH n true r1 Hl1 H) as [pre [E3 [E4 E5]]]. exists (x :: pre). split; [rewrite E3; reflexivity|]. split; [exact E4|].
                left. destruct E5 as [E5|E5]; [exact E5|]. subst r1. apply Nat.leb_gt in E2. cbn [length] in E2. lia. }
        destruct (Hsuf (rchain a) (sh a) false rc' Hl Epop) as [pre [E1 [E3 E5]]].
        inversion Hadd; subst a' r. clear Hadd.
        assert (Hl' : linked rc') by (rewrite E1 in Hl; apply linked_app in Hl; exact Hl).
        assert (Hlr : Z.of_nat (length rc') < two63) by (rewrite E1, app_length in Hlen; lia).
        destruct (Hinst rc' Hl' E3 Hlr) as [Hln Hhf]. cbn [rev app tx_first] in Hln, Hhf.
        assert (Hlen' : Z.of_nat (length rc') = bheight p) by lia.
        assert (Hge : (sh a <= length rc')%nat) by lia.
        cbn [rchain sh]. split; [|split; [reflexivity|split; [|split; [discriminate|split; [|split; [reflexivity|split; [congruence|split; [discriminate|]]]]]]]].
        -- split; [exact Hln|cbn [rchain sh length]; lia].
        -- unfold confirmed. cbn [rchain sh length].
           replace (S (length rc') - sh a)%nat with (S (length rc' - sh a)) by lia. cbn [skipn].
           rewrite E1. symmetry. apply skipn_suffix. lia.
        -- rewrite E1, app_length. cbn [length]. lia.
        -- intros _. exists pre, rc'. split; [exact E1|]. split; [reflexivity|]. split; [exact E3|]. split; [rewrite E1, app_length; lia|]. split; [|congruence].
           rewrite E1 in Hl. eapply Forall_impl; [|apply linked_heights_gt with (y := rc'); exact Hl]. cbn. intros x Hx. lia.
      * (* the loop ran into the stable version: p is a send inside a pooled batch *)
        inversion Hadd; subst a' r. clear Hadd. cbn [rchain sh].
        split; [split; [cbn [rchain]; unfold confirmed; apply skipn_linked; exact Hl|cbn [rchain sh]; unfold confirmed; rewrite skipn_length; lia]|].
        split; [reflexivity|]. split; [apply confirmed_of_confirmed; exact Hs|]. split; [discriminate|].
        split; [unfold confirmed; rewrite skipn_length; lia|]. split; [discriminate|]. split; [congruence|]. split; [|discriminate].
        intros _. split; [reflexivity|]. exists p. split; [reflexivity|]. split; [exact Epp|].
        destruct (bsend p) eqn:Esp.
        -- split; [reflexivity|]. destruct (Z_lt_le_dec (Z.of_nat (sh a)) (bheight p)) as [Hgt|Hle]; [exact Hgt|]. exfalso.
           destruct (pop_until_reach (rchain a) (sh a) (u64 (bheight b - 1)) p false Hl Ep ltac:(lia) ltac:(right; lia)) as [pre [r' [_ [E2 _]]]].
           rewrite <- Epp in Epop. congruence.
        -- exfalso. destruct (pop_until_reach (rchain a) (sh a) (u64 (bheight b - 1)) p false Hl Ep ltac:(lia) ltac:(left; exact Esp)) as [pre [r' [_ [E2 _]]]].
           rewrite <- Epp in Epop. congruence.
    + destruct (bheight b <=? stable_height a) eqn:Eold; [eapply Hsame; [| | |exact Hadd]; discriminate|].
      destruct (prev_check_cases (rchain a) b (prev_of f)) as [Echk|[Echk|Echk]]; rewrite Echk in Hadd;
        [|eapply Hsame; [| | |exact Hadd]; discriminate|eapply Hsame; [| | |exact Hadd]; discriminate].
      exfalso. unfold prev_check in Echk. destruct (bheight b =? 1) eqn:Eh1.
      { (* a first block that names the empty account-chain: fast-forward on an empty chain, or a block of height 1 exists *)
        destruct (ident_eqb (prev_of f) (0, 0)) eqn:Ez; [|discriminate]. apply ident_eqb_eq in Ez. apply Z.eqb_eq in Eh1.
        destruct (rchain a) as [|x r0] eqn:Erc.
        - rewrite Ez in Eff. cbn in Eff. discriminate.
        - destruct (linked_has_height (x :: r0) 1 Hl ltac:(cbn [length]; lia)) as [t [Hint Ht]].
          unfold by_height in Et. pose proof (find_none _ _ Et t Hint) as Hn. cbn in Hn. lia. }
      destruct (by_height (rchain a) (u64 (bheight b - 1))) as [p|] eqn:Ep; [|discriminate].
      destruct (ident_eqb (id_of p) (prev_of f)) eqn:Epp; [|discriminate]. clear Echk.
      (* unreachable: the previous block exists, so either the transaction extends the frontier (fast-forward) or a block at its height exists *)
      apply ident_eqb_eq in Epp.
      pose proof (by_height_some _ _ _ Ep) as [Hinp Hhp].
      pose proof (linked_heights_le _ Hl) as Hf. rewrite Forall_forall in Hf. pose proof (Hf p Hinp) as Hpr.
      assert (Hb1 : bheight b - 1 = bheight p) by (unfold in_u64, u64, two63, two64 in *; lia).
      destruct (Z_lt_le_dec (Z.of_nat (length (rchain a))) (bheight b)) as [Hgt|Hle].
      * (* p is the frontier: fast-forward would have applied *)
        assert (Hfr : frontier_id (rchain a) = id_of p).
        { destruct (rchain a) as [|x r0] eqn:Erc; [contradiction|]. cbn [frontier_id].
          pose proof (linked_height _ Hl) as Hx. cbn [frontier_id id_of snd] in Hx.
          destruct Hinp as [->|Hin]; [reflexivity|].
          destruct Hl as [_ [_ Hl']]. pose proof (linked_heights_le _ Hl') as Hf'. rewrite Forall_forall in Hf'. specialize (Hf' p Hin).
          cbn [length] in *. lia. }
        assert (ident_eqb (prev_of f) (frontier_id (rchain a)) = true) by (apply ident_eqb_eq; congruence). congruence.
      * destruct (linked_has_height (rchain a) (bheight b) Hl ltac:(lia)) as [t [Hint Ht]].
        unfold by_height in Et.
        pose proof (find_none _ _ Et t Hint) as Hn. cbn in Hn. lia.
Qed.

Lemma wf_tx_single b : in_u64 (bheight b) -> wf_tx [] b.
Proof. intros H. unfold wf_tx. cbn [tx_first app tx_linked]. auto. Qed.

(* a block without descendants *)
Lemma add_spec force a b a' r : wf a -> in_u64 (bheight b) -> Z.of_nat (length (rchain a)) < two63 ->
  add force a b = (a', r) ->
  wf a' /\ sh a' = sh a /\ confirmed a' = confirmed a /\ r <> RPanic /\
  (length (rchain a') <= S (length (rchain a)))%nat /\
  (r = ROk -> frontier_id (rchain a') = id_of b) /\ (r <> ROk -> r <> RErrPop -> a' = a) /\
  (r = RErrPop -> rchain a' = confirmed a /\
     exists p, by_height (rchain a) (u64 (bheight b - 1)) = Some p /\ id_of p = prev_of b /\ bsend p = true /\ Z.of_nat (sh a) < bheight p).
Proof.
  intros Hwf Hu Hlen Hadd. unfold add in Hadd.
  destruct (add_tx_spec force a [] b a' r Hwf (wf_tx_single b Hu) Hlen Hadd) as [H1 [H2 [H3 [H4 [H5 [H6 [H7 [H8 _]]]]]]]].
  cbn [length tx_first] in *. split; [exact H1|]. split; [exact H2|]. split; [exact H3|]. split; [exact H4|]. split; [lia|]. split; [exact H6|]. split; [exact H7|exact H8].
Qed.

(* a competitor for the FIRST block of an account (height 1, it names the empty account-chain): with nothing of the
   account confirmed it replaces the whole pooled chain when it is forced or wins against the pooled first block
   (canRollback after fix 417e0a5) *)
Lemma first_block_replaced force a b t : wf a -> sh a = 0%nat -> bheight b = 1 -> bprev b = 0 ->
  by_height (rchain a) 1 = Some t -> bhash t <> bhash b -> (force = true \/ wins b t) ->
  add force a b = (mkAcct [b] 0, ROk).
Proof.
  intros Hwf Hs0 Hh Hp Ht Hne Hw. pose proof Hwf as [Hl _].
  unfold add, add_tx, add_tx_with. cbn [tx_first].
  assert (Hprev : prev_of b = (0, 0)) by (unfold prev_of; rewrite Hh, Hp; reflexivity).
  rewrite Hprev.
  pose proof (by_height_some _ _ _ Ht) as [Hin Hht].
  assert (Hff : ident_eqb (0, 0) (frontier_id (rchain a)) = false).
  { destruct (ident_eqb (0, 0) (frontier_id (rchain a))) eqn:E; [|reflexivity]. apply ident_eqb_eq in E.
    pose proof (linked_height _ Hl) as Hx. rewrite <- E in Hx. cbn [snd] in Hx.
    destruct (rchain a); [contradiction|cbn [length] in Hx; lia]. }
  rewrite Hff, Hh, Ht.
  replace (ident_eqb (id_of t) (id_of b)) with false.
  2:{ symmetry. destruct (ident_eqb (id_of t) (id_of b)) eqn:E; [|reflexivity]. apply ident_eqb_eq in E. inversion E. congruence. }
  rewrite (stable_height_is_sh a Hwf), Hs0.
  replace (1 <=? Z.of_nat 0) with false by reflexivity.
  unfold prev_check. rewrite Hh. replace (1 =? 1) with true by reflexivity.
  replace (ident_eqb (0, 0) (0, 0)) with true by reflexivity.
  replace (negb force && negb (higher_priority b t =? 0)) with false.
  2:{ symmetry. destruct Hw as [->|Hw]; [reflexivity|]. unfold wins in Hw. rewrite Hw. destruct force; reflexivity. }
  rewrite (pop_until_all _ false Hl). reflexivity.
Qed.

(* the pooled chain has no contract send for a block to name as its parent: user accounts, and contracts whose receives
   carry no descendants *)
Definition no_sends (a : acct) : Prop := Forall (fun x => bsend x = false) (rchain a).
Lemma add_no_sends force a b a' r : wf a -> in_u64 (bheight b) -> Z.of_nat (length (rchain a)) < two63 -> no_sends a ->
  add force a b = (a', r) -> r <> RErrPop /\ (r <> ROk -> a' = a).
Proof.
  intros Hwf Hu Hlen Hns Hadd.
  destruct (add_spec force a b a' r Hwf Hu Hlen Hadd) as [_ [_ [_ [_ [_ [_ [H7 H8]]]]]]].
  assert (N : r <> RErrPop).
  { intros E. destruct (H8 E) as [_ [p [Hp [_ [Hs _]]]]]. apply by_height_some in Hp. destruct Hp as [Hin _].
    unfold no_sends in Hns. rewrite Forall_forall in Hns. rewrite (Hns p Hin) in Hs. discriminate. }
  split; [exact N|]. intros Hr. apply H7; assumption.
Qed.

(* ------------------------------------------------------------ rebuild *)
(* a chain without the contract sends on its top (they have no receive yet: never re-added) *)
Fixpoint strip (x : list block) : list block :=
  match x with b :: r => if bsend b then strip r else x | [] => [] end.
Lemma strip_app_closed x b y : bsend b = false -> strip (x ++ b :: y) = strip x ++ b :: y.
Proof.
  intros Hb. induction x as [|c x IH]; cbn [app strip].
  - rewrite Hb. reflexivity.
  - destruct (bsend c); [exact IH|reflexivity].
Qed.
Lemma strip_sends x : Forall (fun b => bsend b = true) x -> strip x = [].
Proof. induction 1 as [|c x Hc Hx IH]; [reflexivity|]. cbn [strip]. rewrite Hc. exact IH. Qed.
Lemma strip_suffix x : exists d, x = d ++ strip x.
Proof.
  induction x as [|c x [d IH]]; [exists []; reflexivity|]. cbn [strip]. destruct (bsend c).
  - exists (c :: d). cbn [app]. f_equal. exact IH.
  - exists []. reflexivity.
Qed.
Lemma strip_closed x : top_closed x = true -> strip x = x.
Proof. destruct x as [|c x]; [reflexivity|]. cbn [top_closed strip]. destruct (bsend c); [discriminate|reflexivity]. Qed.
Lemma strip_length x : (length (strip x) <= length x)%nat.
Proof. destruct (strip_suffix x) as [d E]. rewrite E at 2. rewrite app_length. lia. Qed.

Lemma linked_last_prev pend s d : pend <> [] -> linked (pend ++ s) -> prev_of (last pend d) = frontier_id s.
Proof.
  induction pend as [|x p IH]; intros Hne Hl; [congruence|].
  destruct p as [|y p].
  - cbn [last app] in *. destruct Hl as [Hp _]. exact Hp.
  - change (last (x :: y :: p) d) with (last (y :: p) d). apply IH; [discriminate|].
    cbn [app] in Hl. destruct Hl as [_ [_ Hl]]. exact Hl.
Qed.

Lemma readd_spec l : forall pend s, linked (rev l ++ pend ++ s) -> Forall (fun b => bsend b = true) pend ->
  readd s pend l = Some (strip (rev l ++ pend) ++ s).
Proof.
  induction l as [|b l IH]; intros pend s H Hp.
  - cbn [rev app readd]. rewrite (strip_sends _ Hp). reflexivity.
  - cbn [readd]. destruct (bsend b) eqn:Eb.
    + rewrite IH.
      * cbn [rev]. rewrite <- app_assoc. reflexivity.
      * cbn [rev] in H. rewrite <- app_assoc in H. exact H.
      * constructor; assumption.
    + assert (Hprev : prev_of (last pend b) = frontier_id s).
      { cbn [rev] in H. rewrite <- app_assoc in H. apply linked_app in H. cbn [app] in H.
        destruct pend as [|x p].
        - cbn [last app] in *. destruct H as [Hb _]. exact Hb.
        - destruct H as [_ [_ H]]. apply linked_last_prev; [discriminate|exact H]. }
      replace (ident_eqb (prev_of (last pend b)) (frontier_id s)) with true by (symmetry; apply ident_eqb_eq; exact Hprev).
      rewrite IH.
      * rewrite app_nil_r. cbn [rev]. rewrite <- app_assoc. cbn [app].
        rewrite (strip_app_closed (rev l) b pend Eb). rewrite <- app_assoc. reflexivity.
      * cbn [rev app] in *. rewrite <- app_assoc in H. cbn [app] in H. exact H.
      * constructor.
Qed.

Lemma filter_all {A} (f : A -> bool) l : Forall (fun x => f x = true) l -> filter f l = l.
Proof. induction 1 as [|x l Hx Hl IH]; [reflexivity|]. cbn [filter]. rewrite Hx, IH. reflexivity. Qed.
Lemma filter_none {A} (f : A -> bool) l : Forall (fun x => f x = false) l -> filter f l = [].
Proof. induction 1 as [|x l Hx Hl IH]; [reflexivity|]. cbn [filter]. rewrite Hx, IH. reflexivity. Qed.

Lemma rebuild_spec pre ns n : linked (pre ++ ns) ->
  rebuild ns (mkAcct (pre ++ ns) n) =
  if negb (top_closed ns) && existsb (fun b => negb (bsend b)) (rev pre) then None
  else Some (mkAcct (strip pre ++ ns) (length ns)).
Proof.
  intros Hl. unfold rebuild. cbn [rchain].
  pose proof (linked_app _ _ Hl) as Hns. rewrite (linked_height _ Hns).
  rewrite rev_app_distr, filter_app.
  rewrite (filter_none _ (rev ns)).
  2:{ apply Forall_rev. eapply Forall_impl; [|apply linked_heights_le; exact Hns]. cbn. intros x Hx. lia. }
  rewrite (filter_all _ (rev pre)).
  2:{ apply Forall_rev. eapply Forall_impl; [|apply linked_heights_gt with (y := ns); exact Hl]. cbn. intros x Hx. lia. }
  cbn [app]. destruct (negb (top_closed ns) && existsb (fun b => negb (bsend b)) (rev pre)); [reflexivity|].
  rewrite readd_spec.
  - rewrite rev_involutive, app_nil_r. reflexivity.
  - rewrite rev_involutive. cbn [app]. exact Hl.
  - constructor.
Qed.

Lemma top_closed_app pre ns : top_closed (pre ++ ns) = true -> pre <> [] -> top_closed pre = true.
Proof. destruct pre as [|c pre]; [congruence|]. cbn [app top_closed]. auto. Qed.

(* after a momentum that confirms the next k pooled blocks (whole batches of a chain of whole batches): the manager is
   rebuilt without error and holds exactly the same chain; the pool is the previous pool minus the k confirmed blocks *)
Lemma rebuild_exact a k : wf a -> (sh a + k <= length (rchain a))%nat -> aligned a k ->
  step a (OMomentum k) = (mkAcct (rchain a) (sh a + k), ROk) /\
  pooled (mkAcct (rchain a) (sh a + k)) = firstn (length (pooled a) - k) (pooled a) /\
  confirmed (mkAcct (rchain a) (sh a + k)) = skipn (length (pooled a) - k) (pooled a) ++ confirmed a.
Proof.
  intros [Hl Hs] Hk [Ha1 Ha2]. split.
  - cbn [step]. replace (length (rchain a) <? sh a + k)%nat with false by lia.
    set (m := (length (rchain a) - (sh a + k))%nat) in *.
    pose proof (firstn_skipn m (rchain a)) as Hsplit.
    assert (E : rebuild (skipn m (rchain a)) a = Some (mkAcct (rchain a) (sh a + k))).
    { destruct a as [rc n]. cbn [rchain sh] in *. rewrite <- Hsplit at 2. rewrite rebuild_spec by (rewrite Hsplit; exact Hl).
      rewrite Ha2. cbn [negb andb].
      assert (Hst : strip (firstn m rc) = firstn m rc).
      { destruct (firstn m rc) as [|c pre]; [reflexivity|].
        apply strip_closed. apply (top_closed_app (c :: pre) (skipn m rc)); [rewrite Hsplit; exact Ha1|discriminate]. }
      rewrite Hst, Hsplit. f_equal. f_equal. rewrite skipn_length. lia. }
    rewrite E. reflexivity.
  - unfold pooled, confirmed. cbn [rchain sh]. split.
    + rewrite firstn_length. rewrite firstn_firstn. f_equal. lia.
    + rewrite firstn_length.
      replace (Init.Nat.min (length (rchain a) - sh a) (length (rchain a)) - k)%nat with (length (rchain a) - (sh a + k))%nat by lia.
      set (p := (length (rchain a) - sh a)%nat).
      replace (length (rchain a) - (sh a + k))%nat with (p - k)%nat by lia.
      transitivity (skipn (p - k) (firstn p (rchain a) ++ skipn p (rchain a))); [rewrite firstn_skipn; reflexivity|].
      rewrite skipn_app, firstn_length.
      replace (p - k - Init.Nat.min p (length (rchain a)))%nat with 0%nat by lia. reflexivity.
Qed.

(* whatever the momentum confirmed (also a part of a batch: the rebuild then fails and the account's pool is dropped):
   the account after it is the new confirmed chain with a part of the old pool on top *)
Lemma momentum_shape a k : wf a -> (sh a + k <= length (rchain a))%nat ->
  let ns := skipn (length (rchain a) - (sh a + k)) (rchain a) in
  exists x, fst (step a (OMomentum k)) = mkAcct (x ++ ns) (sh a + k) /\ linked (x ++ ns) /\
            (length (x ++ ns) <= length (rchain a))%nat /\ length ns = (sh a + k)%nat /\
            (snd (step a (OMomentum k)) = ROk \/ (snd (step a (OMomentum k)) = RErrPop /\ top_closed ns = false)).
Proof.
  intros [Hl Hs] Hk. cbv zeta. cbn [step]. replace (length (rchain a) <? sh a + k)%nat with false by lia.
  set (m := (length (rchain a) - (sh a + k))%nat).
  pose proof (firstn_skipn m (rchain a)) as Hsplit.
  assert (Hlen : length (skipn m (rchain a)) = (sh a + k)%nat) by (rewrite skipn_length; lia).
  assert (E : rebuild (skipn m (rchain a)) a = rebuild (skipn m (rchain a)) (mkAcct (firstn m (rchain a) ++ skipn m (rchain a)) (sh a))).
  { rewrite Hsplit. destruct a; reflexivity. }
  rewrite E, rebuild_spec by (rewrite Hsplit; exact Hl).
  destruct (negb (top_closed (skipn m (rchain a))) && existsb (fun b => negb (bsend b)) (rev (firstn m (rchain a)))) eqn:G.
  - exists []. cbn [fst snd app]. repeat split; try assumption.
    + apply skipn_linked. exact Hl.
    + rewrite skipn_length. lia.
    + right. split; [reflexivity|]. apply andb_prop in G. destruct G as [G _]. destruct (top_closed (skipn m (rchain a))); [discriminate|reflexivity].
  - exists (strip (firstn m (rchain a))). cbn [fst snd]. rewrite Hlen. repeat split; try assumption.
    + destruct (strip_suffix (firstn m (rchain a))) as [d Ed].
      rewrite <- Hsplit in Hl. rewrite Ed, <- app_assoc in Hl. apply linked_app in Hl. exact Hl.
    + assert (Hsum : (length (rchain a) = length (firstn m (rchain a)) + length (skipn m (rchain a)))%nat)
        by (rewrite <- app_length, Hsplit; reflexivity).
      rewrite app_length. pose proof (strip_length (firstn m (rchain a))). lia.
    + left. reflexivity.
Qed.

(* ------------------------------------------------------------ a momentum that confirms other blocks than the pooled ones *)
Lemma links_on_linked l : forall rc, linked rc -> links_on (frontier_id rc) l = true -> linked (rev l ++ rc).
Proof.
  induction l as [|x r IH]; intros rc Hl H; [exact Hl|].
  cbn [links_on] in H. apply andb_prop in H. destruct H as [H H3]. apply andb_prop in H. destruct H as [H1 H2].
  apply ident_eqb_eq in H1. apply Z.eqb_eq in H2.
  cbn [rev]. rewrite <- app_assoc. cbn [app]. apply IH; [cbn [linked]; repeat split; assumption|exact H3].
Qed.

(* the same blocks on another chain with the same frontier *)
Lemma linked_swap pre : forall low ns, linked (pre ++ low) -> frontier_id low = frontier_id ns -> linked ns -> linked (pre ++ ns).
Proof.
  induction pre as [|x pre IH]; intros low ns H Hf Hns; [exact Hns|].
  cbn [app linked] in *. destruct H as [H1 [H2 H3]].
  assert (E : frontier_id (pre ++ low) = frontier_id (pre ++ ns)) by (destruct pre; [exact Hf|reflexivity]).
  rewrite <- E. repeat split; try assumption. eapply IH; eassumption.
Qed.

(* the blocks of a linked chain above a height: its top part *)
Lemma uncommitted_split rc (h : nat) : linked rc ->
  exists pre low, rc = pre ++ low /\ filter (fun b => Z.of_nat h <? bheight b) (rev rc) = rev pre /\
                  (pre = [] \/ length low = h) /\ (length low <= h)%nat.
Proof.
  intros Hl. set (m := (length rc - h)%nat).
  exists (firstn m rc), (skipn m rc). pose proof (firstn_skipn m rc) as Hsplit.
  split; [symmetry; exact Hsplit|].
  assert (Hlow : (length (skipn m rc) <= h)%nat) by (rewrite skipn_length; lia).
  split; [|split; [|exact Hlow]].
  - rewrite <- Hsplit at 1. rewrite rev_app_distr, filter_app.
    rewrite (filter_none _ (rev (skipn m rc))).
    2:{ apply Forall_rev. eapply Forall_impl; [|apply linked_heights_le; apply skipn_linked; exact Hl]. cbn. intros x Hx. lia. }
    cbn [app]. apply filter_all. apply Forall_rev.
    destruct (Nat.eq_dec m 0) as [E|N]; [rewrite E; constructor|].
    eapply Forall_impl; [|apply linked_heights_gt with (y := skipn m rc); rewrite Hsplit; exact Hl].
    cbn. intros x Hx. rewrite skipn_length in Hx. lia.
  - destruct (Nat.eq_dec m 0) as [E|N]; [left; rewrite E; reflexivity|right; rewrite skipn_length; lia].
Qed.

(* the first transaction does not sit on the frontier: nothing is re-added *)
Lemma readd_unlinked l : forall s pend x0, pend <> [] -> (forall d, last pend d = x0) -> prev_of x0 <> frontier_id s ->
  readd s pend l = None \/ readd s pend l = Some s.
Proof.
  induction l as [|b r IH]; intros s pend x0 Hne Hlast Hx; [right; reflexivity|].
  cbn [readd]. destruct (bsend b).
  - apply (IH s (b :: pend) x0); [discriminate| |exact Hx].
    intros d. destruct pend as [|y pend]; [congruence|]. change (last (b :: y :: pend) d) with (last (y :: pend) d). apply Hlast.
  - rewrite (Hlast b). destruct (ident_eqb (prev_of x0) (frontier_id s)) eqn:E; [apply ident_eqb_eq in E; congruence|]. left. reflexivity.
Qed.
Lemma readd_unlinked0 l s x0 r : l = x0 :: r -> prev_of x0 <> frontier_id s -> readd s [] l = None \/ readd s [] l = Some s.
Proof.
  intros -> Hx. cbn [readd]. destruct (bsend x0).
  - apply (readd_unlinked r s [x0] x0); [discriminate|reflexivity|exact Hx].
  - cbn [last]. destruct (ident_eqb (prev_of x0) (frontier_id s)) eqn:E; [apply ident_eqb_eq in E; congruence|]. left. reflexivity.
Qed.

Lemma rebuild_gen pre low ns n : linked (pre ++ low) -> linked ns -> (length low <= length ns)%nat -> (pre = [] \/ length low = length ns) ->
  rebuild ns (mkAcct (pre ++ low) n) =
  if negb (top_closed ns) && existsb (fun b => negb (bsend b)) (rev pre) then None
  else match readd ns [] (rev pre) with Some rc => Some (mkAcct rc (length ns)) | None => None end.
Proof.
  intros Hl Hns Hle Hc. unfold rebuild. cbn [rchain].
  rewrite (linked_height _ Hns).
  rewrite rev_app_distr, filter_app.
  rewrite (filter_none _ (rev low)).
  2:{ apply Forall_rev. eapply Forall_impl; [|apply linked_heights_le; apply (linked_app pre); exact Hl]. cbn. intros x Hx. lia. }
  rewrite (filter_all _ (rev pre)).
  2:{ apply Forall_rev. destruct Hc as [->|Hc]; [constructor|].
      eapply Forall_impl; [|apply linked_heights_gt with (y := low); exact Hl]. cbn. intros x Hx. lia. }
  cbn [app]. reflexivity.
Qed.

Lemma snoc_case {A} (l : list A) : l = [] \/ exists l' x, l = l' ++ [x].
Proof. induction l as [|x l _] using rev_ind; [left; reflexivity|right; eauto]. Qed.

(* OConfirm: the momentum confirms `newly` (they continue the confirmed chain), whatever the pool holds *)
Lemma confirm_spec a newly : wf a -> links_on (frontier_id (confirmed a)) newly = true ->
  let a' := fst (step a (OConfirm newly)) in
  let ns := rev newly ++ confirmed a in
  wf a' /\ snd (step a (OConfirm newly)) = ROk /\ sh a' = length ns /\
  (exists top, rchain a' = top ++ ns /\ (length top <= length (rchain a) - sh a)%nat /\
     forall x, In x top -> In x (pooled a) /\ Z.of_nat (length ns) < bheight x) /\
  (* the previously pooled block right above the new frontier is not its child: nothing stays pooled *)
  (forall x0, by_height (rchain a) (Z.of_nat (length ns) + 1) = Some x0 -> prev_of x0 <> frontier_id ns -> rchain a' = ns).
Proof.
  intros Hwf Hlk. cbv zeta. pose proof Hwf as [Hl Hs].
  set (ns := rev newly ++ confirmed a).
  assert (Hlc : linked (confirmed a)) by (unfold confirmed; apply skipn_linked; exact Hl).
  assert (Hns : linked ns) by (apply links_on_linked; assumption).
  assert (Hnl : length ns = (length newly + sh a)%nat).
  { unfold ns. rewrite app_length, rev_length. unfold confirmed. rewrite skipn_length. lia. }
  cbn [step]. rewrite Hlk. fold ns.
  destruct (uncommitted_split (rchain a) (length ns) Hl) as [pre [low [E1 [_ [E3 E4]]]]].
  assert (Hpool : forall x, In x pre -> In x (pooled a) /\ Z.of_nat (length ns) < bheight x).
  { intros x Hx. destruct E3 as [->|E3]; [contradiction|]. split.
    - unfold pooled. rewrite E1. rewrite firstn_app.
      apply in_or_app. left. rewrite firstn_all2; [exact Hx|]. rewrite app_length. lia.
    - rewrite E1 in Hl. pose proof (linked_heights_gt _ _ Hl) as Hf. rewrite Forall_forall in Hf. specialize (Hf x Hx). lia. }
  assert (Hlenpre : (length pre <= length (rchain a) - sh a)%nat).
  { destruct E3 as [->|E3]; [cbn [length]; lia|]. rewrite E1, app_length. lia. }
  assert (Erb : rebuild ns a = rebuild ns (mkAcct (pre ++ low) (sh a))) by (rewrite <- E1; destruct a; reflexivity).
  rewrite Erb, (rebuild_gen pre low ns (sh a)) by (try rewrite <- E1; assumption).
  assert (Hempty : wf (mkAcct ns (length ns)) /\ ROk = ROk /\ length ns = length ns /\
            (exists top, ns = top ++ ns /\ (length top <= length (rchain a) - sh a)%nat /\ forall x, In x top -> In x (pooled a) /\ Z.of_nat (length ns) < bheight x) /\
            (forall x0, by_height (rchain a) (Z.of_nat (length ns) + 1) = Some x0 -> prev_of x0 <> frontier_id ns -> ns = ns)).
  { split; [split; [exact Hns|cbn [rchain sh]; lia]|]. split; [reflexivity|]. split; [reflexivity|]. split; [|reflexivity].
    exists []. split; [reflexivity|]. split; [cbn [length]; lia|]. intros x []. }
  destruct (negb (top_closed ns) && existsb (fun b => negb (bsend b)) (rev pre)); [cbn [fst snd rchain sh]; exact Hempty|].
  (* does the lowest of the old blocks above the new frontier sit on it? *)
  destruct (snoc_case pre) as [->|[pre' [x0 ->]]]; [cbn [rev readd fst snd rchain sh]; exact Hempty|].
  assert (Hx0h : bheight x0 = Z.of_nat (length ns) + 1 /\ prev_of x0 = frontier_id low).
  { rewrite E1, <- app_assoc in Hl. apply linked_app in Hl. cbn [app] in Hl. destruct Hl as [H1 [H2 H3]].
    split; [|exact H1]. rewrite H2, (linked_height _ H3). destruct E3 as [E3|E3]; [destruct pre'; discriminate|lia]. }
  assert (Hby : by_height (rchain a) (Z.of_nat (length ns) + 1) = Some x0).
  { rewrite E1, <- app_assoc. unfold by_height. cbn [app].
    assert (Hgt : Forall (fun b => Z.of_nat (length (x0 :: low)) < bheight b) pre').
    { apply linked_heights_gt. rewrite E1, <- app_assoc in Hl. exact Hl. }
    assert (Elow : length low = length ns) by (destruct E3 as [E3|E3]; [destruct pre'; discriminate|exact E3]).
    clear - Hgt Hx0h Elow. destruct Hx0h as [Hx0h _]. induction pre' as [|y q IH]; cbn [app find].
    - replace (bheight x0 =? Z.of_nat (length ns) + 1) with true by lia. reflexivity.
    - inversion Hgt; subst. cbn [length] in H1.
      replace (bheight y =? Z.of_nat (length ns) + 1) with false by lia. apply IH; assumption. }
  destruct (ident_eqb (prev_of x0) (frontier_id ns)) eqn:Elink.
  - (* it does: the old blocks are re-added transaction by transaction *)
    apply ident_eqb_eq in Elink. destruct Hx0h as [_ Hx0p].
    assert (Hsw : linked ((pre' ++ [x0]) ++ ns)).
    { apply (linked_swap _ low); [rewrite <- E1; exact Hl|congruence|exact Hns]. }
    rewrite (readd_spec (rev (pre' ++ [x0])) [] ns); [|rewrite rev_involutive; cbn [app]; exact Hsw|constructor].
    rewrite rev_involutive, app_nil_r. cbn [fst snd rchain sh].
    destruct (strip_suffix (pre' ++ [x0])) as [d Ed].
    split; [split; [rewrite Ed, <- app_assoc in Hsw; apply linked_app in Hsw; exact Hsw|cbn [rchain sh]; rewrite app_length; lia]|].
    split; [reflexivity|]. split; [reflexivity|]. split.
    + exists (strip (pre' ++ [x0])). split; [reflexivity|]. split.
      * pose proof (strip_length (pre' ++ [x0])). lia.
      * intros x Hx. apply Hpool. rewrite Ed. apply in_or_app. right. exact Hx.
    + intros y Hy Hny. rewrite Hby in Hy. inversion Hy; subst y. congruence.
  - (* it does not *)
    assert (Hnl2 : prev_of x0 <> frontier_id ns) by (intros E; apply ident_eqb_eq in E; congruence).
    rewrite rev_app_distr. cbn [rev app].
    destruct (readd_unlinked0 (x0 :: rev pre') ns x0 (rev pre') eq_refl Hnl2) as [E|E]; rewrite E; cbn [fst snd rchain sh]; exact Hempty.
Qed.

(* ------------------------------------------------------------ every operation keeps the invariant *)
Definition op_size (o : op) : nat :=
  match o with OAddTx _ descs _ => S (length descs) | OConfirm newly => length newly | _ => 1 end.
Fixpoint ops_size (ops : list op) : nat := match ops with [] => 0 | o :: r => op_size o + ops_size r end.

(* the rebuild after a momentum fails only when the momentum confirmed a part of a batch (the account's pool is dropped);
   the pop loop fails only for a candidate whose parent is a contract send inside a pooled batch *)
Lemma step_wf a o : wf a -> wf_op o -> Z.of_nat (length (rchain a)) < two63 ->
  wf (fst (step a o)) /\ (length (rchain (fst (step a o))) <= op_size o + length (rchain a))%nat /\
  snd (step a o) <> RPanic /\
  (snd (step a o) = RErrPop -> (exists k, o = OMomentum k /\ ~ aligned a k) \/
     (exists force descs b p, step a o = add_tx force a descs b /\ by_height (rchain a) (u64 (bheight b - 1)) = Some p /\
                              bsend p = true /\ Z.of_nat (sh a) < bheight p)).
Proof.
  intros Hwf Ho Hlen. destruct o as [force b|k|j|force descs b|newly].
  - cbn [step]. destruct (add force a b) as [a' r] eqn:E.
    destruct (add_spec force a b a' r Hwf Ho Hlen E) as [H1 [_ [_ [H4 [H6 [_ [_ H8]]]]]]]. cbn [fst snd op_size].
    split; [exact H1|]. split; [lia|]. split; [exact H4|]. intros Hr. right.
    destruct (H8 Hr) as [_ [p [P1 [_ [P3 P4]]]]]. exists force, [], b, p. split; [symmetry; exact E|repeat split; assumption].
  - destruct (Nat.ltb_spec (length (rchain a)) (sh a + k)) as [Hlt|Hge].
    + cbn [step]. replace (length (rchain a) <? sh a + k)%nat with true by lia. cbn [fst snd op_size]. repeat split; try discriminate; try lia; apply Hwf.
    + destruct (momentum_shape a k Hwf Hge) as [x [E [L [Hle [Hn Hr]]]]]. rewrite E. cbn [rchain sh op_size].
      split; [split; [exact L|cbn [rchain sh]; rewrite app_length; lia]|]. split; [lia|].
      destruct Hr as [Hr|[Hr Hc]]; rewrite Hr; split; try discriminate.
      intros _. left. exists k. split; [reflexivity|]. intros [_ A2]. congruence.
  - cbn [step]. destruct (sh a <? j)%nat eqn:E; cbn [fst snd rchain sh op_size].
    + repeat split; try discriminate; try lia; apply Hwf.
    + destruct Hwf as [Hl Hs].
      split; [split; [apply skipn_linked; exact Hl|cbn [rchain sh]; rewrite skipn_length; lia]|].
      split; [rewrite skipn_length; lia|split; discriminate].
  - cbn [step]. destruct (add_tx force a descs b) as [a' r] eqn:E.
    destruct (add_tx_spec force a descs b a' r Hwf Ho Hlen E) as [H1 [_ [_ [H4 [H6 [_ [_ [H8 _]]]]]]]]. cbn [fst snd op_size].
    split; [exact H1|]. split; [lia|]. split; [exact H4|]. intros Hr. right.
    destruct (H8 Hr) as [_ [p [P1 [_ [P3 P4]]]]]. exists force, descs, b, p. split; [symmetry; exact E|repeat split; assumption].
  - destruct (links_on (frontier_id (confirmed a)) newly) eqn:Elk.
    + destruct (confirm_spec a newly Hwf Elk) as [H1 [H2 [_ [[top [H3 [H4 _]]] _]]]].
      split; [exact H1|]. split; [|split; [rewrite H2; discriminate|rewrite H2; discriminate]].
      rewrite H3. rewrite !app_length, rev_length. cbn [op_size]. destruct Hwf as [_ Hs]. unfold confirmed. rewrite skipn_length. lia.
    + cbn [step]. rewrite Elk. cbn [fst snd op_size]. repeat split; try discriminate; try lia; apply Hwf.
Qed.

Lemma run_wf ops : forall a, wf a -> Forall wf_op ops -> Z.of_nat (length (rchain a) + ops_size ops) < two63 -> wf (run a ops).
Proof.
  induction ops as [|o ops IH]; intros a Hwf Hops Hlen; [exact Hwf|].
  cbn [run]. inversion Hops; subst. cbn [ops_size] in Hlen.
  destruct (step_wf a o Hwf H1 ltac:(lia)) as [Hw [Hl _]].
  apply IH; [exact Hw|assumption|lia].
Qed.

Lemma skipn_add {A} (l : list A) m n : skipn n (skipn m l) = skipn (m + n) l.
Proof.
  revert l. induction m as [|m IH]; intros l; [reflexivity|].
  destruct l as [|x l]; [rewrite !skipn_nil; reflexivity|]. cbn [skipn plus]. apply IH.
Qed.

(* a confirmed block is never displaced by a pool operation *)
Lemma confirmed_never_displaced a o : wf a -> wf_op o -> Z.of_nat (length (rchain a)) < two63 ->
  match o with
  | OAdd _ _ | OAddTx _ _ _ => confirmed (fst (step a o)) = confirmed a
  | OMomentum _ | OConfirm _ => exists newly, confirmed (fst (step a o)) = newly ++ confirmed a
  | ODelete _ => exists dropped, confirmed a = dropped ++ confirmed (fst (step a o))
  end.
Proof.
  intros Hwf Ho Hlen. destruct o as [force b|k|j|force descs b|newly].
  - cbn [step]. destruct (add force a b) as [a' r] eqn:E.
    destruct (add_spec force a b a' r Hwf Ho Hlen E) as [_ [_ [H3 _]]]. exact H3.
  - destruct (Nat.ltb_spec (length (rchain a)) (sh a + k)) as [Hlt|Hge].
    + cbn [step]. replace (length (rchain a) <? sh a + k)%nat with true by lia. exists []. reflexivity.
    + destruct (momentum_shape a k Hwf Hge) as [x [E [_ [_ [Hn _]]]]]. rewrite E.
      set (ns := skipn (length (rchain a) - (sh a + k)) (rchain a)) in *.
      unfold confirmed at 1. cbn [rchain sh].
      assert (Hx : (length (x ++ ns) - (sh a + k) = length x)%nat) by (rewrite app_length; lia).
      rewrite Hx, skipn_app, skipn_all, Nat.sub_diag. cbn [app skipn].
      exists (firstn k ns). rewrite <- (firstn_skipn k ns) at 1.
      f_equal. unfold confirmed, ns. rewrite skipn_add. f_equal. destruct Hwf as [_ Hs]. lia.
  - cbn [step]. destruct (sh a <? j)%nat eqn:E; cbn [fst].
    + exists []. reflexivity.
    + unfold confirmed. cbn [rchain sh]. destruct Hwf as [Hl Hs].
      rewrite skipn_length.
      replace (length (rchain a) - (length (rchain a) - j) - j)%nat with 0%nat by lia. cbn [skipn].
      exists (firstn (sh a - j) (skipn (length (rchain a) - sh a) (rchain a))).
      rewrite <- (firstn_skipn (sh a - j) (skipn (length (rchain a) - sh a) (rchain a))) at 1.
      f_equal. rewrite skipn_add. f_equal. lia.
  - cbn [step]. destruct (add_tx force a descs b) as [a' r] eqn:E.
    destruct (add_tx_spec force a descs b a' r Hwf Ho Hlen E) as [_ [_ [H3 _]]]. exact H3.
  - destruct (links_on (frontier_id (confirmed a)) newly) eqn:Elk.
    + destruct (confirm_spec a newly Hwf Elk) as [_ [_ [H2 [[top [H3 _]] _]]]].
      exists (rev newly). unfold confirmed at 1. rewrite H3, H2.
      rewrite app_length. replace (length top + length (rev newly ++ confirmed a) - length (rev newly ++ confirmed a))%nat with (length top) by lia.
      rewrite skipn_app, skipn_all, Nat.sub_diag. reflexivity.
    + cbn [step]. rewrite Elk. exists []. reflexivity.
Qed.

(* ------------------------------------------------------------ momentum content *)
Definition ends_batch (l : list block) : Prop := match rev l with [] => True | b :: _ => bsend b = false end.

Lemma filter_loop_spec blocks : forall n batch done pending,
  0 <= n -> 0 <= batch -> n = Z.of_nat (length done) -> batch = Z.of_nat (length pending) ->
  ends_batch done -> Forall (fun b => bsend b = true) pending -> n <= MaxAccountBlocksInMomentum ->
  let m := filter_loop blocks n batch in
  n <= m <= MaxAccountBlocksInMomentum /\ m <= n + batch + Z.of_nat (length blocks) /\
  ends_batch (firstn (Z.to_nat m) (done ++ pending ++ blocks)) /\
  (* maximal: what follows is not a complete batch that would still fit *)
  (forall pre x post, skipn (Z.to_nat m) (done ++ pending ++ blocks) = pre ++ x :: post ->
     Forall (fun b => bsend b = true) pre -> bsend x = false -> MaxAccountBlocksInMomentum < m + Z.of_nat (length pre) + 1).
Proof.
  unfold MaxAccountBlocksInMomentum.
  induction blocks as [|b r IH]; intros n batch done pending Hn Hb En Eb Hd Hp Hmax; cbv zeta.
  - cbn [filter_loop]. repeat split; try lia.
    + rewrite app_nil_r. rewrite En, Nat2Z.id. rewrite firstn_app, firstn_all, Nat.sub_diag. cbn [firstn]. rewrite app_nil_r. exact Hd.
    + intros pre x post Hsk Hpre Hx. rewrite app_nil_r in Hsk. rewrite En, Nat2Z.id in Hsk.
      rewrite skipn_app, skipn_all, Nat.sub_diag in Hsk. cbn [skipn app] in Hsk.
      (* x is a non-send block inside pending: impossible *)
      exfalso. rewrite Forall_forall in Hp. specialize (Hp x). rewrite Hsk in Hp.
      rewrite Hp in Hx by (apply in_or_app; right; left; reflexivity). discriminate.
  - cbn [filter_loop]. unfold MaxAccountBlocksInMomentum. destruct (bsend b) eqn:Es.
    + (* contract send: joins the pending batch *)
      specialize (IH n (batch + 1) done (pending ++ [b]) Hn ltac:(lia) En ltac:(rewrite app_length; cbn [length]; lia) Hd
                    ltac:(apply Forall_app; split; [exact Hp|constructor; [exact Es|constructor]]) Hmax).
      cbv zeta in IH. rewrite <- !app_assoc in IH. cbn [app] in IH.
      destruct IH as [I1 [I2 [I3 I4]]]. repeat split; try lia; try assumption. cbn [length]. lia.
    + destruct (100 <? n + (batch + 1)) eqn:Ef.
      * (* the batch does not fit: stop *)
        repeat split; try lia.
        -- rewrite En, Nat2Z.id. rewrite firstn_app, firstn_all, Nat.sub_diag. cbn [firstn]. rewrite app_nil_r. exact Hd.
        -- intros pre x post Hsk Hpre Hx. rewrite En, Nat2Z.id in Hsk.
           rewrite skipn_app, skipn_all, Nat.sub_diag in Hsk. cbn [skipn app] in Hsk.
           (* the first non-send block after `done` is b, preceded by exactly `pending` *)
           assert (Hlen : length pre = length pending).
           { clear - Hsk Hpre Hx Hp Es. revert pre Hsk Hpre. induction pending as [|q pending IHp]; intros pre Hsk Hpre.
             - destruct pre as [|y pre]; [reflexivity|]. cbn [app] in Hsk. inversion Hsk; subst. inversion Hpre; subst. congruence.
             - inversion Hp; subst. destruct pre as [|y pre].
               + cbn [app] in Hsk. inversion Hsk; subst. congruence.
               + cbn [app] in Hsk. inversion Hsk; subst. inversion Hpre; subst. cbn [length]. f_equal. apply IHp; assumption. }
           lia.
      * (* commit the batch *)
        specialize (IH (n + (batch + 1)) 0 (done ++ pending ++ [b]) [] ltac:(lia) ltac:(lia)
                       ltac:(rewrite !app_length; cbn [length]; lia) ltac:(reflexivity)).
        assert (Hd' : ends_batch (done ++ pending ++ [b])).
        { unfold ends_batch. rewrite !rev_app_distr. cbn [rev app]. exact Es. }
        specialize (IH Hd' ltac:(constructor) ltac:(lia)). cbv zeta in IH.
        cbn [app] in IH. rewrite <- !app_assoc in IH. cbn [app] in IH.
        destruct IH as [I1 [I2 [I3 I4]]]. repeat split; try lia; try assumption. cbn [length]. lia.
Qed.

Lemma filter_batches blocks :
  let r := filter_to_commit blocks in
  (exists rest, blocks = r ++ rest /\
     (forall pre x post, rest = pre ++ x :: post -> Forall (fun b => bsend b = true) pre -> bsend x = false ->
        MaxAccountBlocksInMomentum < Z.of_nat (length r) + Z.of_nat (length pre) + 1)) /\
  Z.of_nat (length r) <= MaxAccountBlocksInMomentum /\ ends_batch r.
Proof.
  cbv zeta. unfold filter_to_commit.
  pose proof (filter_loop_spec blocks 0 0 [] [] ltac:(lia) ltac:(lia) eq_refl eq_refl I ltac:(constructor) ltac:(unfold MaxAccountBlocksInMomentum; lia)) as H.
  cbv zeta in H. cbn [app length] in H. destruct H as [H1 [H2 [H3 H4]]].
  set (m := filter_loop blocks 0 0) in *.
  assert (Hlen : length (firstn (Z.to_nat m) blocks) = Z.to_nat m) by (rewrite firstn_length; lia).
  split; [|split].
  - exists (skipn (Z.to_nat m) blocks). split; [symmetry; apply firstn_skipn|].
    intros pre x post Hr Hpre Hx. rewrite Hlen. specialize (H4 pre x post Hr Hpre Hx). lia.
  - rewrite Hlen. lia.
  - exact H3.
Qed.

(* ---- C06: a rollback leaves no trace in the pool. After DeleteMomentum back to j confirmed blocks the account's
   manager holds exactly those j blocks and nothing unconfirmed — whatever had been pooled or confirmed on the abandoned
   branch — so two nodes whose j oldest blocks agree are in the same pool state, and stay so under any later operations *)
Lemma delete_no_trace a1 a2 j :
  (j <= sh a1)%nat -> (j <= sh a2)%nat ->
  skipn (length (rchain a1) - j) (rchain a1) = skipn (length (rchain a2) - j) (rchain a2) ->
  fst (step a1 (ODelete j)) = fst (step a2 (ODelete j)).
Proof.
  intros H1 H2 E. cbn [step].
  assert ((sh a1 <? j)%nat = false) as -> by (apply Nat.ltb_ge; exact H1).
  assert ((sh a2 <? j)%nat = false) as -> by (apply Nat.ltb_ge; exact H2).
  cbn [fst]. rewrite E. reflexivity.
Qed.
Lemma delete_pool_empty a j : wf a -> (j <= sh a)%nat ->
  let a' := fst (step a (ODelete j)) in length (rchain a') = sh a' /\ sh a' = j.
Proof.
  intros [L S] H. cbn [step]. assert ((sh a <? j)%nat = false) as -> by (apply Nat.ltb_ge; exact H).
  cbn [fst rchain sh]. rewrite skipn_length. split; [lia|reflexivity].
Qed.
Lemma delete_then_same a1 a2 j ops :
  (j <= sh a1)%nat -> (j <= sh a2)%nat ->
  skipn (length (rchain a1) - j) (rchain a1) = skipn (length (rchain a2) - j) (rchain a2) ->
  run a1 (ODelete j :: ops) = run a2 (ODelete j :: ops).
Proof. intros H1 H2 E. cbn [run]. rewrite (delete_no_trace a1 a2 j H1 H2 E). reflexivity. Qed.

(* ---- the priority rule of the model IS the source: chain.higherPriority as translated by go2coq from
   chain/account_pool.go on every run (gen/Pure.v; bytes.Compare of the two hashes enters as its result) *)
From ZV.gen Require Pure.
Definition bytes_compare (x y : Z) : Z := if x <? y then -1 else if x =? y then 0 else 1.
Definition priority_code (e : Z) : Z :=
  if e =? 0 then 0 else if e =? Pure.Err_chain_ErrPlasmaRatioIsWorse then 1 else 2.
Lemma higher_priority_is_source a b :
  higher_priority a b =
  priority_code (Pure.higherPriority (btotal a) (bbase b) (btotal b) (bbase a) (bytes_compare (bhash a) (bhash b))).
Proof.
  unfold higher_priority, Pure.higherPriority, priority_code, bytes_compare, u64, GoSem.wrapU.
  change (2 ^ 64) with two64.
  destruct (btotal a * bbase b mod two64 <? btotal b * bbase a mod two64); [reflexivity|].
  destruct (btotal a * bbase b mod two64 =? btotal b * bbase a mod two64); cbn [andb]; [|reflexivity].
  destruct (bhash a <? bhash b) eqn:L.
  - assert ((bhash b <=? bhash a) = false) as -> by lia. reflexivity.
  - destruct (bhash a =? bhash b) eqn:E; (assert ((bhash b <=? bhash a) = true) as -> by lia); reflexivity.
Qed.

(* the insert notification of a momentum that confirmed nothing of this account — also the notification the chain sends
   for a momentum the versioned store did not apply (own momentum inserted after a competing one at the same height):
   the rebuild succeeds and account, confirmed part and pool are what they were *)
Lemma unapplied_momentum_identity a : wf a -> aligned a 0 ->
  step a (OMomentum 0) = (a, ROk).
Proof.
  intros Hwf Hal. pose proof Hwf as [_ Hs].
  assert (Hk : (sh a + 0 <= length (rchain a))%nat) by lia.
  destruct (rebuild_exact a 0 Hwf Hk Hal) as [H _]. rewrite H.
  destruct a as [rc s]. cbn [rchain sh]. rewrite Nat.add_0_r. reflexivity.
Qed.

(* whatever a momentum the store did not apply lists as its content: after any number of such notifications between two
   operations the history behaves as without them *)
Lemma unapplied_momentums_no_trace a n ops : wf a -> aligned a 0 ->
  run a (repeat (OMomentum 0) n ++ ops) = run a ops.
Proof.
  intros Hwf Hal. induction n as [|n IH]; [reflexivity|].
  cbn [repeat app run]. rewrite (unapplied_momentum_identity a Hwf Hal). cbn [fst]. exact IH.
Qed.

(* ------------------------------------------------------------ replacement: exactly the suffix from the competitor's height *)
(* an accepted block (fast-forward, or the winner of a competition / a forced block at an occupied unconfirmed height)
   sits on the chain below its height, which is untouched: what is dropped is exactly the blocks from its height up, all of
   them unconfirmed *)
Lemma add_replaces_suffix force a b a' : wf a -> in_u64 (bheight b) -> Z.of_nat (length (rchain a)) < two63 ->
  add force a b = (a', ROk) ->
  exists dropped below, rchain a = dropped ++ below /\ rchain a' = b :: below /\ frontier_id below = prev_of b /\
    (length dropped <= length (rchain a) - sh a)%nat /\ Forall (fun x => bheight b <= bheight x) dropped.
Proof.
  intros Hwf Hu Hlen Hadd. unfold add in Hadd.
  destruct (add_tx_spec force a [] b a' ROk Hwf (wf_tx_single b Hu) Hlen Hadd) as [_ [_ [_ [_ [_ [_ [_ [_ H9]]]]]]]].
  destruct (H9 eq_refl) as [dropped [below [E1 [E2 [E3 [E4 [E5 _]]]]]]]. exists dropped, below. cbn [rev app tx_first] in *. repeat split; assumption.
Qed.

(* a transaction with descendants: installed on the untouched chain below its first height; and only ever by fast-forward *)
Lemma add_tx_replaces_suffix force a descs b a' : wf a -> wf_tx descs b -> Z.of_nat (length (rchain a)) < two63 ->
  add_tx force a descs b = (a', ROk) ->
  exists dropped below, rchain a = dropped ++ below /\ rchain a' = b :: rev descs ++ below /\
    frontier_id below = prev_of (tx_first descs b) /\ (length dropped <= length (rchain a) - sh a)%nat /\
    Forall (fun x => bheight (tx_first descs b) <= bheight x) dropped /\ (descs <> [] -> dropped = []).
Proof.
  intros Hwf Ht Hlen Hadd.
  destruct (add_tx_spec force a descs b a' ROk Hwf Ht Hlen Hadd) as [_ [_ [_ [_ [_ [_ [_ [_ H9]]]]]]]]. exact (H9 eq_refl).
Qed.

(* ------------------------------------------------------------ the content as the pool composes it *)
(* accountPool.GetNewMomentumContent = filterBlocksToCommit (GetAllUncommittedAccountBlocks ()): ONE walk over the
   concatenation of the accounts' pooled chains (ascending), in the order the map of managers yields the accounts *)
Definition new_momentum_content (chains : list (list block)) : list block := filter_to_commit (concat chains).

Lemma ends_batch_app_r x p : p <> [] -> ends_batch (x ++ p) -> ends_batch p.
Proof.
  intros Hp. unfold ends_batch. rewrite rev_app_distr.
  destruct (rev p) as [|c q] eqn:E; [|cbn [app]; auto].
  exfalso. apply Hp. rewrite <- (rev_involutive p), E. reflexivity.
Qed.

Lemma prefix_of_concat (chains : list (list block)) : forall r rest0, concat chains = r ++ rest0 ->
  exists j p rest, r = concat (firstn j chains) ++ p /\ nth j chains [] = p ++ rest.
Proof.
  induction chains as [|c cs IH]; intros r rest0 H.
  - cbn [concat] in H. symmetry in H. apply app_eq_nil in H. destruct H as [-> ->]. exists 0%nat, [], []. split; reflexivity.
  - cbn [concat] in H. apply app_eq_app in H. destruct H as [l [[E1 E2]|[E1 E2]]].
    + (* c = r ++ l: the cut is inside (or at the end of) this account *)
      exists 0%nat, r, l. cbn [firstn concat app nth]. split; [reflexivity|exact E1].
    + destruct (IH l rest0 E2) as [j [p [rest [Hr Hn]]]].
      exists (S j), p, rest. cbn [firstn concat nth]. split; [|exact Hn]. rewrite E1, Hr, app_assoc. reflexivity.
Qed.

(* whatever the order of the accounts: the content consists of the complete pooled chains of some accounts and a prefix
   of the chain of one more account which ends where a batch ends - no account's batch is split - and respects the limit *)
Lemma content_per_account chains :
  exists j p rest, new_momentum_content chains = concat (firstn j chains) ++ p /\ nth j chains [] = p ++ rest /\ ends_batch p /\
    Z.of_nat (length (new_momentum_content chains)) <= MaxAccountBlocksInMomentum.
Proof.
  unfold new_momentum_content. destruct (filter_batches (concat chains)) as [[rest0 [Hpre _]] [Hlen Hend]]. cbv zeta in *.
  destruct (prefix_of_concat chains _ _ Hpre) as [j [p [rest [Hr Hn]]]].
  exists j, p, rest. split; [exact Hr|]. split; [exact Hn|]. split; [|exact Hlen].
  destruct p as [|c p]; [exact I|]. rewrite Hr in Hend. eapply ends_batch_app_r; [discriminate|exact Hend].
Qed.
