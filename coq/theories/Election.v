(* Model of the pillar election (C05):
     common/types/pillar_delegation.go   SortPDByWeight.Less  (weight desc, then name asc, Go string order)
     chain/momentum/embedded.go          ComputePillarDelegations (weight = sum of the backers' ZNN)
     consensus/election_algorithm.go     filterByWeight, filterRandom (incl. the fill-up loop), shuffleOrder
     consensus/election.go               genProofTime, generateProducers (slot times), generateProducers cache
     consensus/consensus.go              GetMomentumProducer (lookup StartTime == timestamp)
     common/ticker.go                    ToTick / ToTime (whole seconds)
     chain/momentum/range.go             GetMomentumBeforeTime (specification: last momentum strictly before t)
   math/rand's Perm(seed, n) is an ORACLE: a function parameter [perm]; the harness hands over the
   tables it observed, the theorems only assume that perm s n is a permutation of 0..n-1.
   Go panics (index out of range, slice bounds) are the explicit outcome EPanic; loops run on fuel and
   report EFuel when it runs out. Definitions only; proofs are in ElectionProofs.v. *)
From ZV Require Import Prelude GoSem.
Open Scope Z_scope.

Inductive eres (A : Type) := EOk (a : A) | EPanic | EFuel.
Arguments EOk {A} a.
Arguments EPanic {A}.
Arguments EFuel {A}.
Definition ebind {A B} (r : eres A) (k : A -> eres B) : eres B :=
  match r with EOk a => k a | EPanic => EPanic | EFuel => EFuel end.

(* ---- delegations and their order *)
Record deleg := mkD { d_name : bytes; d_addr : Z; d_weight : Z }.

(* Go string comparison: bytewise, a proper prefix is smaller *)
Fixpoint bytes_cmp (a b : bytes) : comparison :=
  match a, b with
  | [], [] => Eq
  | [], _ :: _ => Lt
  | _ :: _, [] => Gt
  | x :: a', y :: b' => match x ?= y with Eq => bytes_cmp a' b' | c => c end
  end.

(* SortPDByWeight.Less(i,j): r := w_j.Cmp(w_i); r == 0 ? name_i < name_j : r < 0 *)
Definition d_less (a b : deleg) : bool :=
  match d_weight b ?= d_weight a with
  | Eq => match bytes_cmp (d_name a) (d_name b) with Lt => true | _ => false end
  | Lt => true
  | Gt => false
  end.
Definition d_leb (a b : deleg) : bool := negb (d_less b a).

(* sort.Sort over a strict total order on distinct elements has exactly one result; the model uses
   insertion sort (the correspondence check compares it with the real sort.Sort on every run) *)
Fixpoint d_insert (x : deleg) (l : list deleg) : list deleg :=
  match l with
  | [] => [x]
  | y :: r => if d_leb x y then x :: l else y :: d_insert x r
  end.
Fixpoint dsort (l : list deleg) : list deleg :=
  match l with [] => [] | x :: r => d_insert x (dsort r) end.

Definition deleg_eqb (a b : deleg) : bool :=
  bytes_eqb (d_name a) (d_name b) && (d_addr a =? d_addr b) && (d_weight a =? d_weight b).

(* ---- ComputePillarDelegations: registered active pillars (name, producing address), delegation
        entries (pillar name, backer), ZNN balance per backer. Storage keeps one entry per backer, and
        computeBackers collects them in a map keyed by backer, hence "distinct backers". *)
Fixpoint has_z (x : Z) (l : list Z) : bool :=
  match l with [] => false | y :: r => (x =? y) || has_z x r end.
Fixpoint balance_of (bal : list (Z * Z)) (a : Z) : Z :=
  match bal with [] => 0 | (k, v) :: r => if k =? a then v else balance_of r a end.
Fixpoint backers_of (name : bytes) (dl : list (bytes * Z)) (seen : list Z) : list Z :=
  match dl with
  | [] => []
  | (n, b) :: r =>
      if bytes_eqb n name && negb (has_z b seen) then b :: backers_of name r (b :: seen)
      else backers_of name r seen
  end.
Fixpoint zsum (l : list Z) : Z := match l with [] => 0 | x :: r => x + zsum r end.
Definition weight_of (dl : list (bytes * Z)) (bal : list (Z * Z)) (name : bytes) : Z :=
  zsum (map (balance_of bal) (backers_of name dl [])).
Definition compute_delegations (pillars : list (bytes * Z)) (dl : list (bytes * Z)) (bal : list (Z * Z)) : list deleg :=
  dsort (map (fun p => mkD (fst p) (snd p) (weight_of dl bal (fst p))) pillars).

(* ---- the election *)
Fixpoint pick (l : list deleg) (idx : list nat) : eres (list deleg) :=
  match idx with
  | [] => EOk []
  | i :: r => match nth_error l i with
              | Some d => ebind (pick l r) (fun t => EOk (d :: t))
              | None => EPanic                         (* index out of range *)
              end
  end.

Section Election.
  Variable perm : Z -> nat -> list nat.        (* rand.New(rand.NewSource(seed)).Perm(n) *)
  Variables nc rc : nat.                       (* NodeCount, RandCount *)

  (* findSeed: int64(height) *)
  Definition find_seed (height : Z) : Z := to_int64 height.

  Definition filter_by_weight (ds : list deleg) : list deleg * list deleg :=
    if (length ds <=? nc)%nat then (ds, [])
    else let s := dsort ds in (firstn nc s, skipn nc s).

  (* for len(result) < total { result = append(result, groupA[Perm(seed, len(groupA))...]) } *)
  Fixpoint fill (fuel : nat) (A : list deleg) (arr : list nat) (result : list deleg) : eres (list deleg) :=
    if (nc <=? length result)%nat then EOk result
    else match fuel with
         | O => EFuel
         | S f => ebind (pick A arr) (fun c => fill f A arr (result ++ c))
         end.

  Definition filter_random (fuel : nat) (gA gB : list deleg) (seed : Z) : eres (list deleg) :=
    let A := dsort gA in
    let B := dsort gB in
    if negb (nc =? length A)%nat then
      ebind (fill fuel A (perm seed (length A)) []) (fun r => EOk (firstn nc r))
    else if (nc <? rc)%nat then EPanic                 (* topTotal < 0: groupA[topIndex[-k]] *)
    else
      let top_total := (nc - rc)%nat in
      let top_index := perm seed (length A) in
      if (length top_index <? nc)%nat then EPanic      (* topIndex[index] out of range *)
      else
        ebind (pick A (firstn top_total top_index)) (fun r1 =>
        ebind (pick A (firstn rc (skipn top_total top_index))) (fun r2 =>
          let B2 := B ++ r2 in
          let p2 := perm (wrapS 64 (seed + 1)) (length B2) in
          if (length p2 <? rc)%nat then EPanic         (* Perm(..)[:RandCount] *)
          else ebind (pick B2 (firstn rc p2)) (fun r3 => EOk (r1 ++ r3)))).

  Definition shuffle_order (producers : list deleg) (seed : Z) : eres (list deleg) :=
    pick producers (perm seed (length producers)).

  Definition select_f (fuel : nat) (ds : list deleg) (height : Z) : eres (list deleg) :=
    let seed := find_seed height in
    let '(gA, gB) := filter_by_weight ds in
    ebind (filter_random fuel gA gB seed) (fun ps => shuffle_order ps seed).

  (* every round of the fill-up loop adds length A >= 1 elements, so nc + 1 rounds are enough whenever
     there is at least one pillar; with none the Go loop does not terminate and the model reports EFuel
     for every amount of fuel (ElectionProofs.no_pillars_no_schedule) *)
  Definition select (ds : list deleg) (height : Z) : eres (list deleg) := select_f (S nc) ds height.
End Election.

(* ---- time: ticker, proof momentum, slots (whole seconds; Go uses time.Time / time.Duration, whose
        int64-nanosecond range is not modelled: see the assumptions of C05) *)
Record msum := mkM { m_hash : Z; m_height : Z; m_ts : Z }.      (* what the election reads of a momentum *)

Section Schedule.
  Variables bt ncz genesis : Z.               (* BlockTime [s], NodeCount, genesis timestamp [s] *)
  Definition tick_len : Z := bt * ncz.
  (* ticker.ToTick: uint64(int64(seconds since start)) / uint64(interval seconds) *)
  Definition to_tick (ts : Z) : Z := u64 (ts - genesis) / u64 tick_len.
  Definition tick_start (tick : Z) : Z := genesis + tick_len * tick.
  (* genProofTime *)
  Definition proof_time (tick : Z) : Z := if tick <? 2 then genesis + 1 else tick_start (tick - 1).
  (* GetMomentumBeforeTime on the frontier store: the last momentum whose timestamp is strictly before t;
     none if the genesis momentum is not before t. [chain] is ordered genesis first. *)
  Fixpoint before_time (chain : list msum) (t : Z) : option msum :=
    match chain with
    | [] => None
    | m :: r => if m_ts m <? t
                then match before_time r t with Some x => Some x | None => Some m end
                else None
    end.
  (* generateProducers: one event per address, consecutive slots of bt seconds from the tick start;
     nil unless there are exactly NodeCount addresses *)
  Fixpoint slot_events (start : Z) (ps : list Z) : list (Z * Z) :=
    match ps with [] => [] | p :: r => (start, p) :: slot_events (start + bt) r end.
  Definition producer_events (tick : Z) (ps : list Z) : list (Z * Z) :=
    if Z.of_nat (length ps) =? ncz then slot_events (tick_start tick) ps else [].
  (* GetMomentumProducer: first event with StartTime == timestamp *)
  Fixpoint find_start (ev : list (Z * Z)) (ts : Z) : option Z :=
    match ev with [] => None | (s, p) :: r => if s =? ts then Some p else find_start r ts end.
End Schedule.

(* result classes of consensus.GetMomentumProducer *)
Inductive prod_res := PFound (addr : Z) | PBeforeGenesis | PNoProof | PNoSlot | PElectionPanic | PElectionFuel.

Section Producer.
  Variable perm : Z -> nat -> list nat.
  Variables nc rc : nat.
  Variables bt genesis : Z.
  (* delegations as of momentum height h: the ledger state the election reads (observed per height) *)
  Variable delegs_at : Z -> list deleg.

  Definition election_for (proof : msum) : eres (list Z) :=
    ebind (select perm nc rc (delegs_at (m_height proof)) (m_height proof)) (fun l => EOk (map d_addr l)).

  Definition momentum_producer (chain : list msum) (ts : Z) : prod_res :=
    if ts <? genesis then PBeforeGenesis else
    let tick := to_tick bt (Z.of_nat nc) genesis ts in
    if to_int64 tick <? 0 then PBeforeGenesis else
    match before_time chain (proof_time bt (Z.of_nat nc) genesis tick) with
    | None => PNoProof
    | Some proof =>
        match election_for proof with
        | EPanic => PElectionPanic
        | EFuel => PElectionFuel
        | EOk ps => match find_start (producer_events bt (Z.of_nat nc) genesis tick ps) ts with
                    | Some a => PFound a
                    | None => PNoSlot
                    end
        end
    end.
End Producer.

(* ---- election cache (consensus/election.go generateProducers + consensus/storage/db.go):
        keyed by the hash of the proof momentum; a hit returns the stored value, a miss computes and stores.
        DeleteMomentum (rollback) leaves the cache alone; LRU eviction removes entries. *)
Section Cache.
  Context {R : Type}.
  Variable compute : Z -> R.                    (* recomputation from the ledger as of the momentum with that hash *)
  Definition cache := list (Z * R).
  Fixpoint cache_get (c : cache) (h : Z) : option R :=
    match c with [] => None | (k, v) :: r => if k =? h then Some v else cache_get r h end.
  Definition cached_election (c : cache) (h : Z) : R * cache :=
    match cache_get c h with
    | Some v => (v, c)
    | None => let v := compute h in (v, (h, v) :: c)
    end.
  Inductive cache_op := CQuery (h : Z) | CEvict (h : Z) | CRollback.
  Fixpoint cache_remove (c : cache) (h : Z) : cache :=
    match c with [] => [] | (k, v) :: r => if k =? h then cache_remove r h else (k, v) :: cache_remove r h end.
  (* run a sequence of operations, collecting the answers of the queries *)
  Fixpoint cache_run (c : cache) (ops : list cache_op) : list (Z * R) * cache :=
    match ops with
    | [] => ([], c)
    | CQuery h :: r => let '(v, c1) := cached_election c h in
                       let '(ans, c2) := cache_run c1 r in ((h, v) :: ans, c2)
    | CEvict h :: r => cache_run (cache_remove c h) r
    | CRollback :: r => cache_run c r
    end.
End Cache.
