(* Proofs about Dec.v: decimal and hex text forms round-trip for every integer / byte string. *)
From ZV Require Import Prelude PoWProofs Dec.
Open Scope Z_scope.
Ltac Zify.zify_post_hook ::= Z.div_mod_to_equations.

Lemma is_digit_char d : 0 <= d < 10 -> is_digit (48 + d) = true.
Proof. intros. unfold is_digit. lia. Qed.

Lemma dec_digits_S k z acc :
  dec_digits (S k) z acc =
  if z <? 10 then (48 + z mod 10) :: acc else dec_digits k (z / 10) ((48 + z mod 10) :: acc).
Proof. reflexivity. Qed.

(* reading the printed digits of z in front of [acc] continues from z *)
Lemma parse_dec_digits k : forall z acc,
  0 <= z < 2 ^ Z.of_nat k ->
  parse_digits 0 (dec_digits (S k) z acc) = parse_digits z acc.
Proof.
  induction k as [|k IH]; intros z acc Hz.
  - cbn in Hz. assert (z = 0) by lia. subst. cbn. reflexivity.
  - rewrite dec_digits_S. destruct (z <? 10) eqn:E.
    + cbn [parse_digits]. rewrite is_digit_char by lia. f_equal. lia.
    + rewrite Nat2Z.inj_succ, Z.pow_succ_r in Hz by lia.
      rewrite IH by lia. cbn [parse_digits]. rewrite is_digit_char by lia. f_equal. lia.
Qed.

Lemma dec_digits_all k : forall z acc, 0 <= z -> Forall (fun c => is_digit c = true) acc ->
  Forall (fun c => is_digit c = true) (dec_digits k z acc).
Proof.
  induction k as [|k IH]; intros z acc Hz Ha; [exact Ha|]. rewrite dec_digits_S.
  assert (Hd : is_digit (48 + z mod 10) = true) by (apply is_digit_char; lia).
  destruct (z <? 10); [constructor; auto|]. apply IH; [lia|constructor; auto].
Qed.
Lemma dec_digits_nonempty k z acc : dec_digits (S k) z acc <> [].
Proof.
  revert z acc; induction k as [|k IH]; intros z acc; rewrite dec_digits_S.
  - destruct (z <? 10); discriminate.
  - destruct (z <? 10); [discriminate|]. apply IH.
Qed.

Lemma dec_fuel_enough z : 0 <= z -> z < 2 ^ Z.of_nat (S (Z.to_nat (Z.log2 z))).
Proof.
  intros Hz. rewrite Nat2Z.inj_succ, Z2Nat.id by apply Z.log2_nonneg.
  destruct (Z.eq_dec z 0) as [->|Hn]; [cbn; lia|]. apply Z.log2_spec. lia.
Qed.

Lemma parse_unsigned_print z : 0 <= z -> parse_unsigned (dec_digits (dec_fuel z) z []) = Some z.
Proof.
  intros Hz. unfold parse_unsigned, dec_fuel.
  destruct (dec_digits (S (S (Z.to_nat (Z.log2 z)))) z []) eqn:E.
  - exfalso. eapply dec_digits_nonempty; eauto.
  - rewrite <- E. rewrite parse_dec_digits; [reflexivity|].
    split; [lia | apply dec_fuel_enough; lia].
Qed.

Lemma print_head_digit z : 0 <= z ->
  exists c r, dec_digits (dec_fuel z) z [] = c :: r /\ is_digit c = true.
Proof.
  intros Hz. unfold dec_fuel.
  pose proof (dec_digits_all (S (S (Z.to_nat (Z.log2 z)))) z [] Hz (Forall_nil _)) as Ha.
  destruct (dec_digits (S (S (Z.to_nat (Z.log2 z)))) z []) as [|c r] eqn:E.
  - exfalso. eapply dec_digits_nonempty; eauto.
  - inversion Ha; subst. eauto.
Qed.

(* common.StringToBigInt(z.String()) = z, for every integer *)
Theorem parse_print_dec z : parse_dec (print_dec z) = z.
Proof.
  unfold parse_dec, print_dec. destruct (z <? 0) eqn:E.
  - unfold set_string10. rewrite Z.eqb_refl. rewrite parse_unsigned_print by lia. cbn. lia.
  - destruct (print_head_digit z ltac:(lia)) as (c & r & Ec & Hc).
    pose proof (parse_unsigned_print z ltac:(lia)) as Hp.
    rewrite Ec in *. unfold set_string10. unfold is_digit in Hc.
    replace (c =? 45) with false by lia. replace (c =? 43) with false by lia.
    rewrite Hp. reflexivity.
Qed.
(* the printed form is canonical: only a sign and digits *)
Theorem print_dec_chars z : Forall (fun c => c = 45 \/ is_digit c = true) (print_dec z).
Proof.
  unfold print_dec. destruct (z <? 0) eqn:E.
  - constructor; [left; reflexivity|].
    eapply Forall_impl; [|apply dec_digits_all; [lia|constructor]]. intros; right; auto.
  - eapply Forall_impl; [|apply dec_digits_all; [lia|constructor]]. intros; right; auto.
Qed.

(* ---- hex *)
Lemma unhex_hexc n : 0 <= n < 16 -> unhex (hexc n) = Some n.
Proof.
  intros Hn. unfold hexc, unhex. destruct (n <? 10) eqn:E.
  - replace ((48 <=? 48 + n) && (48 + n <=? 57)) with true by lia. f_equal. lia.
  - replace ((48 <=? 87 + n) && (87 + n <=? 57)) with false by lia.
    replace ((97 <=? 87 + n) && (87 + n <=? 102)) with true by lia. f_equal. lia.
Qed.
Theorem hex_roundtrip b : Forall byte b -> hex_dec (hex_enc b) = Some b.
Proof.
  induction 1 as [|x b Hx _ IH]; [reflexivity|]. unfold byte in Hx.
  cbn [hex_enc hex_dec]. rewrite !unhex_hexc, IH by lia. f_equal. f_equal. lia.
Qed.
Lemma hex_enc_length b : length (hex_enc b) = (2 * length b)%nat.
Proof. induction b; cbn [hex_enc length]; lia. Qed.
Theorem hash_text_roundtrip h : Forall byte h -> length h = 32%nat -> parse_hash (hex_enc h) = Some h.
Proof. intros Hb Hl. unfold parse_hash. rewrite hex_enc_length, Hl. cbn [Nat.eqb Nat.mul Nat.add]. apply hex_roundtrip; auto. Qed.
Theorem nonce_text_roundtrip n : Forall byte n -> length n = 8%nat -> parse_nonce (hex_enc n) = Some n.
Proof. intros Hb Hl. unfold parse_nonce. rewrite hex_roundtrip by auto. rewrite Hl. reflexivity. Qed.
