(* C15 — the base (devp2p) protocol of a peer connection: what the node does with a message whose code is below
   baseProtocolLength (handshake 0x00, disconnect 0x01, ping 0x02, pong 0x03, the unused rest) or beyond the negotiated
   sub-protocol range, before the protocol handshake and on a running peer.
   Mirrors: p2p/peer.go Peer.handle (dispatch by code), Peer.run (what an error of the read loop / of a protocol turns
   into: the reason written to the remote side and the connection closed), p2p/rlpx.go readProtocolHandshake,
   rlpx.close (a DiscReason other than DiscNetworkError is sent to the remote side), p2p/server.go setupConn
   (identity check, addpeer checkpoint), p2p/peer_error.go discReasonForError.
   The payload of a disconnect message is a BYTE STRING here: rlp.Decode(msg.Payload, &reason) with
   `var reason [1]DiscReason` is modelled on the bytes (list header, first element as a canonical uint of at most 64
   bits, input limit of a bytes.Reader, errors ignored exactly as the Go code ignores them), followed by the Go index
   expression reason[0] with its run-time bounds check as an explicit Panic outcome. *)
From ZV Require Import Prelude GoSem.
From ZV.gen Require Import Consts.
Open Scope Z_scope.

Definition blen (l : bytes) : Z := Z.of_nat (length l).

(* big-endian value of the first n bytes and the rest; None when fewer than n bytes are there (io.ErrUnexpectedEOF /
   ErrValueTooLarge of Stream.readFull, Stream.readByte) *)
Fixpoint take_be (n : nat) (acc : Z) (l : bytes) : option (Z * bytes) :=
  match n with
  | O => Some (acc, l)
  | S k => match l with [] => None | b :: r => take_be k (acc * 256 + b) r end
  end.

(* Stream.List at top level: kind and size of the outermost value. limited = the reader is a *bytes.Reader
   (the payload of a message read from an RLPx frame): then a size above the remaining input is ErrValueTooLarge. *)
Definition rlp_list_head (limited : bool) (p : bytes) : option (Z * bytes) :=
  match p with
  | [] => None                                         (* io.EOF *)
  | b :: r =>
      if b <? 192 then None                            (* byte or string: ErrExpectedList (or a size error) *)
      else if b <? 248 then
        let size := b - 192 in
        if limited && (blen r <? size) then None else Some (size, r)
      else
        let n := b - 247 in                            (* 1..8 length bytes *)
        match take_be (Z.to_nat n) 0 r with
        | None => None
        | Some (v, r') =>
            if (1 <? n) && (nth 0 r 0 =? 0) then None  (* readUint: leading zero, ErrCanonSize *)
            else if v <? 56 then None                  (* ErrCanonSize *)
            else if limited && (blen r' <? v) then None
            else Some (v, r')
        end
  end.

(* decodeUint of the first element of a list with L payload bytes: the value, or None for any error (val is not set) *)
Definition rlp_uint_elem (L : Z) (r : bytes) : option Z :=
  if L =? 0 then None                                  (* EOL *)
  else match r with
       | [] => None                                    (* unlimited reader ran dry *)
       | b :: r' =>
           if b <? 128 then (if b =? 0 then None else Some b)     (* Byte; 0x00 is ErrCanonInt *)
           else if b <? 184 then
             let size := b - 128 in
             if L - 1 <? size then None                (* ErrElemTooLarge *)
             else if 8 <? size then None               (* errUintOverflow *)
             else if size =? 0 then Some 0
             else match take_be (Z.to_nat size) 0 r' with
                  | None => None
                  | Some (v, _) =>
                      if (1 <? size) && (nth 0 r' 0 =? 0) then None   (* ErrCanonInt *)
                      else if v <? 128 then None                          (* ErrCanonSize *)
                      else Some v
                  end
           else None                                   (* long string (>= 56 bytes: overflow) or a list: ErrExpectedString *)
       end.

(* the Go value after `var reason [n]DiscReason; rlp.Decode(payload, &reason)`: n elements, the first one set when
   the list header and the first element decode, everything else zero; the error is dropped *)
Definition decode_reasons (n : nat) (limited : bool) (p : bytes) : list Z :=
  match n with
  | O => []
  | S k =>
      let first := match rlp_list_head limited p with
                   | None => 0
                   | Some (L, r) => match rlp_uint_elem L r with Some v => v | None => 0 end
                   end in
      first :: repeat 0 k
  end.

(* Go index expression l[i] *)
Definition index_res (l : list Z) (i : nat) : res Z :=
  match nth_error l i with Some x => Ok x | None => Panic end.

Definition disc_reason_gen (n : nat) (limited : bool) (p : bytes) : res Z := index_res (decode_reasons n limited p) 0.
Definition disc_reason := disc_reason_gen 1.

(* ---- Peer.handle *)
Inductive hres :=
| HPong                  (* the payload is discarded, a pong is written *)
| HIgnore                (* base protocol message without a meaning: discarded *)
| HDisc (r : Z)          (* returns the DiscReason r as the error of the read loop *)
| HDeliver (c : Z)       (* handed to the sub-protocol with its own code c *)
| HOutOfRange            (* "msg code out of range" *)
| HPanic.

(* plen: sum of the lengths of the running sub-protocols (their code ranges follow the base protocol's) *)
Definition base_handle_gen (n : nat) (limited : bool) (plen code : Z) (p : bytes) : hres :=
  if code =? PingMsg then HPong
  else if code =? DiscMsg then
    match disc_reason_gen n limited p with Ok r => HDisc r | Panic => HPanic end
  else if code <? BaseProtocolLength then HIgnore
  else if code <? BaseProtocolLength + plen then HDeliver (code - BaseProtocolLength)
  else HOutOfRange.
Definition handle_base := base_handle_gen 1.

(* ---- Peer.run: what ends the run loop, the reason handed to rw.close (and so written to the remote side, see
   close_sends) and the reason reported to the server *)
Inductive run_end :=
| EReadDisc (r : Z)      (* read loop: the remote side sent a disconnect message *)
| EReadErr               (* read loop: any other error (frame, timeout, code out of range) *)
| EProtoDisc (r : Z)     (* a protocol returned a DiscReason *)
| EProtoPeerErr          (* a protocol returned a peerError (invalid message / code) *)
| EProtoErr              (* a protocol returned any other error (or returned without one) *)
| ELocal (r : Z).        (* Disconnect(r) was called locally *)

Definition close_reason (e : run_end) : Z :=
  match e with
  | EReadDisc r => r
  | EReadErr => DiscNetworkError
  | EProtoDisc r => r
  | EProtoPeerErr => DiscProtocolError
  | EProtoErr => DiscSubprotocolError
  | ELocal r => r
  end.
Definition reported_reason (e : run_end) : Z :=
  match e with EReadDisc _ => DiscRequested | _ => close_reason e end.
(* rlpx.close: tell the remote end why, except for a network error *)
Definition close_sends (r : Z) : option Z := if r =? DiscNetworkError then None else Some r.

(* one message to a running peer whose sub-protocols accept everything handed to them: the reaction visible to the
   remote side. RStay: connection open; RClosed s: closed, s = the reason written before *)
Inductive reaction := RPong | RStay | RClosed (sent : option Z) | RPanic.
Definition react (limited : bool) (plen code : Z) (p : bytes) : reaction :=
  match handle_base limited plen code p with
  | HPong => RPong
  | HIgnore | HDeliver _ => RStay
  | HDisc r => RClosed (close_sends (close_reason (EReadDisc r)))
  | HOutOfRange => RClosed (close_sends (close_reason EReadErr))
  | HPanic => RPanic
  end.

(* ---- before the protocol handshake: readProtocolHandshake + Server.setupConn *)
Inductive hs_res :=
| HsOk                   (* handshake accepted so far *)
| HsDisc (r : Z)         (* error = DiscReason r *)
| HsErr                  (* any other error *)
| HsPanic.

(* size, code, payload of the first message; decodes / version / id_zero: the decoded handshake (used for code 0 only) *)
Definition read_hs_gen (n : nat) (limited : bool) (size code : Z) (p : bytes) (decodes : bool) (version : Z) (id_zero : bool) : hs_res :=
  if BaseProtocolMaxMsgSize <? size then HsErr
  else if code =? DiscMsg then
    match disc_reason_gen n limited p with Ok r => HsDisc r | Panic => HsPanic end
  else if negb (code =? HandshakeMsg) then HsErr
  else if negb decodes then HsErr
  else if negb (version =? BaseProtocolVersion) then HsDisc DiscIncompatibleVersion
  else if id_zero then HsDisc DiscInvalidIdentity
  else HsOk.
Definition read_hs := read_hs_gen 1.

(* setupConn after the encryption handshake: Some None = refused silently, Some (Some r) = refused and r written,
   None = added as a peer. id_match: the handshake names the identity of the encryption handshake; caps_match: at least
   one of the server's protocols is among the capabilities; room: the peer set has a free slot and the identity is new *)
Inductive setup_res := SAdded | SRefused (sent : option Z) | SPanic.
Definition setup_conn (limited : bool) (size code : Z) (p : bytes) (decodes : bool) (version : Z)
    (id_zero id_match caps_match : bool) : setup_res :=
  match read_hs limited size code p decodes version id_zero with
  | HsPanic => SPanic
  | HsErr => SRefused None
  | HsDisc r => SRefused (close_sends r)
  | HsOk =>
      if negb id_match then SRefused (close_sends DiscUnexpectedIdentity)
      else if negb caps_match then SRefused (close_sends DiscUselessPeer)
      else SAdded
  end.
