From ZV Require Import Prelude PoW.
Open Scope Z_scope.
Ltac Zify.zify_post_hook ::= Z.div_mod_to_equations.

Definition byte (b : Z) := 0 <= b < 256.

Lemma le_value_bound l : Forall byte l -> 0 <= le_value l < 256 ^ Z.of_nat (length l).
Proof.
  induction 1 as [|b l Hb _ IH]; cbn [le_value length]; [cbn; lia|].
  rewrite Nat2Z.inj_succ, Z.pow_succ_r by lia. unfold byte in Hb. lia.
Qed.

Lemma le_bytes_value n x : 0 <= x < 256 ^ Z.of_nat n -> le_value (le_bytes n x) = x.
Proof.
  revert x; induction n as [|n IH]; intros x Hx; cbn [le_bytes le_value].
  - cbn in Hx. lia.
  - rewrite Nat2Z.inj_succ, Z.pow_succ_r in Hx by lia.
    rewrite IH by (split; [apply Z.div_pos; lia | apply Z.div_lt_upper_bound; lia]).
    pose proof (Z.div_mod x 256). lia.
Qed.

Lemma le_bytes_byte n x : Forall byte (le_bytes n x).
Proof.
  revert x; induction n as [|n IH]; intros x; cbn [le_bytes]; constructor; auto.
  unfold byte. apply Z.mod_pos_bound. lia.
Qed.
Lemma le_bytes_length n x : length (le_bytes n x) = n.
Proof. revert x; induction n; intros; cbn; auto. Qed.

(* comparing most-significant-first lists of equal length = comparing values *)
Lemma le_value_app a b : le_value (a ++ b) = le_value a + 256 ^ Z.of_nat (length a) * le_value b.
Proof.
  induction a as [|x a IH]; cbn [app le_value length].
  - change (Z.of_nat 0) with 0. rewrite Z.pow_0_r. lia.
  - rewrite IH, Nat2Z.inj_succ, Z.pow_succ_r by lia. ring.
Qed.

Lemma greater_rev_spec x y :
  length x = length y -> Forall byte x -> Forall byte y ->
  greater_rev x y = (le_value (rev y) <=? le_value (rev x)).
Proof.
  revert y; induction x as [|a x IH]; intros [|b y] Hl Hx Hy; cbn in Hl; try discriminate.
  - reflexivity.
  - inversion Hx as [|? ? Ha Hx']; inversion Hy as [|? ? Hb Hy']; subst.
    cbn [greater_rev rev]. rewrite !le_value_app. cbn [le_value]. rewrite !rev_length.
    injection Hl as Hl. rewrite <- Hl.
    assert (Bx : 0 <= le_value (rev x) < 256 ^ Z.of_nat (length x)).
    { rewrite <- (rev_length x). apply le_value_bound. apply Forall_rev; auto. }
    assert (By : 0 <= le_value (rev y) < 256 ^ Z.of_nat (length x)).
    { rewrite Hl, <- (rev_length y). apply le_value_bound. apply Forall_rev; auto. }
    set (P := 256 ^ Z.of_nat (length x)) in *.
    unfold byte in *.
    destruct (b <? a) eqn:E1.
    + symmetry. apply Z.leb_le. nia.
    + destruct (a <? b) eqn:E2.
      * symmetry. apply Z.leb_gt. nia.
      * assert (a = b) by lia. subst. rewrite IH by auto.
        destruct (le_value (rev y) <=? le_value (rev x)) eqn:E3; symmetry;
          [apply Z.leb_le | apply Z.leb_gt]; lia.
Qed.

Lemma greater_is_numeric x y :
  length x = 8%nat -> length y = 8%nat -> Forall byte x -> Forall byte y ->
  greater x y = (le_value y <=? le_value x).
Proof.
  intros Lx Ly Hx Hy. unfold greater.
  rewrite !firstn_all2 by lia.
  rewrite greater_rev_spec; rewrite ?rev_involutive, ?rev_length; auto using Forall_rev; lia.
Qed.

Lemma div_bounds d : 1 <= d < two64 -> 1 <= two64 / d <= two64.
Proof.
  intros Hd. split.
  - apply Z.div_le_lower_bound; unfold two64 in *; lia.
  - apply Z.div_le_upper_bound; unfold two64 in *; nia.
Qed.

Lemma target_value_exact d : 1 <= d < two64 -> target_value d = two64 - two64 / d.
Proof.
  intros Hd. unfold target_value.
  destruct (d =? 0) eqn:E; [lia|].
  rewrite Z.quot_div_nonneg by (unfold two64; lia).
  unfold big_uint64.
  pose proof (div_bounds d Hd).
  rewrite Z.abs_eq by lia. apply Z.mod_small. unfold two64 in *. lia.
Qed.

Lemma pow_threshold d h8 :
  1 <= d < two64 -> length h8 = 8%nat -> Forall byte h8 ->
  check d h8 = true <-> two64 - two64 / d <= le_value h8.
Proof.
  intros Hd Hl Hb. unfold check, target.
  rewrite greater_is_numeric; auto using le_bytes_byte, le_bytes_length.
  rewrite le_bytes_value.
  - rewrite target_value_exact by auto. apply Z.leb_le.
  - rewrite target_value_exact by auto.
    pose proof (div_bounds d Hd).
    change (256 ^ Z.of_nat 8) with two64. unfold two64 in *. lia.
Qed.



(* Finding F1 (pre-fix code): with the int64 cast the threshold is wrong from 2^63 on *)
Lemma int64cast_refuted :
  exists d, 1 <= d < two64 /\ target_value_int64cast d <> two64 - two64 / d.
Proof. exists two63. split; [unfold two63, two64; lia | vm_compute; discriminate]. Qed.

Lemma int64cast_partial d : 1 <= d < two63 -> target_value_int64cast d = two64 - two64 / d.
Proof.
  intros Hd. unfold target_value_int64cast, to_int64.
  assert (d mod two64 = d) by (apply Z.mod_small; unfold two63, two64 in *; lia).
  rewrite H. destruct (d <? two63) eqn:E; [|lia].
  fold (target_value d). apply target_value_exact. unfold two63, two64 in *; lia.
Qed.

(* ---- the model IS the source: pow.getTargetByDifficulty and pow.greaterDifficulty as translated by go2coq from
   pow/pow.go on every run (gen/Pure.v). The [8]byte target is the little-endian uint64 it holds; the byte slices of
   greaterDifficulty enter byte by byte with their lengths (an index beyond the length is a Panic of the translation). *)
From ZV Require Import GoSem.
From ZV.gen Require Pure Consts.
Lemma target_value_is_source d : Pure.getTargetByDifficulty d = Ok (target_value d).
Proof.
  unfold Pure.getTargetByDifficulty, target_value, guard, wrapU.
  destruct (d =? 0) eqn:E; [reflexivity|]. cbn [negb].
  change (Consts.Big2 ^ Consts.Big64) with two64. change (2 ^ 64) with two64.
  f_equal. unfold big_uint64. apply Z.mod_small. apply Z.mod_pos_bound. reflexivity.
Qed.

Lemma greater_is_source x0 x1 x2 x3 x4 x5 x6 x7 tx y0 y1 y2 y3 y4 y5 y6 y7 ty :
  let x := [x0; x1; x2; x3; x4; x5; x6; x7] ++ tx in
  let y := [y0; y1; y2; y3; y4; y5; y6; y7] ++ ty in
  Pure.greaterDifficulty (Z.of_nat (length x)) x7 (Z.of_nat (length y)) y7 x6 y6 x5 y5 x4 y4 x3 y3 x2 y2 x1 y1 x0 y0
  = Ok (greater x y).
Proof.
  intros x y.
  assert (Lx : 8 <= Z.of_nat (length x)) by (unfold x; rewrite app_length; cbn [length]; lia).
  assert (Ly : 8 <= Z.of_nat (length y)) by (unfold y; rewrite app_length; cbn [length]; lia).
  set (lx := Z.of_nat (length x)) in *. set (ly := Z.of_nat (length y)) in *.
  unfold Pure.greaterDifficulty, guard.
  repeat match goal with
         | |- context [(0 <=? ?k) && (?k <? ?l)] =>
             replace ((0 <=? k) && (k <? l)) with true by (symmetry; apply andb_true_iff; split; lia)
         end.
  unfold greater, x, y. cbn [app firstn rev greater_rev].
  repeat match goal with |- context [?a <? ?b] => destruct (a <? b); try reflexivity end.
Qed.
