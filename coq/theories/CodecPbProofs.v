(* Proofs about CodecPb.v: Deserialize (Serialize b) = b for every account block tree and momentum. *)
From ZV Require Import Prelude PoWProofs Block BlockProofs CodecPb.
From ZV.gen Require Consts.
Open Scope Z_scope.
Ltac Zify.zify_post_hook ::= Z.div_mod_to_equations.

(* Tier A: the field numbers and kinds written in the model are those of the generated descriptors
   (number, kind) with kind 1 = uint64, 2 = bytes, 3 = message, 4 = repeated message *)
Example pb_schema_account_block : Consts.PbAB_fields =
  [1;1; 2;1; 3;1; 4;3; 5;3; 6;1; 7;3; 8;3; 9;3; 10;2; 11;2; 12;3; 13;4; 14;2; 15;1; 17;1; 18;2; 19;1; 20;1; 21;3; 22;2; 23;2].
Proof. reflexivity. Qed.
Example pb_schema_momentum : Consts.PbMom_fields =
  [1;1; 2;1; 3;3; 4;3; 5;1; 6;1; 7;2; 8;4; 9;3; 10;2; 11;2].
Proof. reflexivity. Qed.
Example pb_schema_small :
  (Consts.PbHash_fields, Consts.PbAddress_fields, Consts.PbHashHeight_fields, Consts.PbAccountHeader_fields) =
  ([1;2], [1;2], [1;3; 2;1], [1;3; 2;3]).
Proof. reflexivity. Qed.
Example pb_sizes : (Consts.HashSize, Consts.AddressSize, Consts.ZenonTokenStandardSize, Consts.AccountBlockHeaderRawLen) = (32, 20, 10, 60).
Proof. reflexivity. Qed.

(* ---------------------------------------------------------------- varint *)
Lemma varint_fuel_S n x :
  varint_fuel (S n) x = if x <? 128 then [x] else (x mod 128 + 128) :: varint_fuel n (x / 128).
Proof. reflexivity. Qed.
Lemma get_varint_S n b r :
  get_varint (S n) (b :: r) =
  if b <? 128 then (if Nat.eqb n 0 && (1 <? b) then None else Some (b, r))
  else match get_varint n r with Some (v, r') => Some ((b - 128) + 128 * v, r') | None => None end.
Proof. reflexivity. Qed.

Lemma get_varint_enc : forall n x rest,
  (1 <= n)%nat -> 0 <= x < 2 ^ (7 * Z.of_nat n - 6) ->
  get_varint n (varint_fuel n x ++ rest) = Some (x, rest).
Proof.
  induction n as [|n IH]; intros x rest Hn Hx; [lia|].
  rewrite varint_fuel_S. destruct (x <? 128) eqn:E.
  - cbn [app]. rewrite get_varint_S, E.
    destruct n as [|n]; cbn [Nat.eqb andb]; [|reflexivity].
    change (7 * Z.of_nat 1 - 6) with 1 in Hx. change (2 ^ 1) with 2 in Hx.
    replace (1 <? x) with false by lia. reflexivity.
  - cbn [app]. rewrite get_varint_S.
    replace (x mod 128 + 128 <? 128) with false by lia.
    destruct n as [|n].
    { change (7 * Z.of_nat 1 - 6) with 1 in Hx. change (2 ^ 1) with 2 in Hx. lia. }
    rewrite IH.
    + f_equal. f_equal. lia.
    + lia.
    + replace (7 * Z.of_nat (S (S n)) - 6) with (7 + (7 * Z.of_nat (S n) - 6)) in Hx by lia.
      rewrite Z.pow_add_r in Hx by lia. change (2 ^ 7) with 128 in Hx. lia.
Qed.
Lemma get_varint_varint x rest : 0 <= x < two64 -> get_varint 10 (varint x ++ rest) = Some (x, rest).
Proof. intros. apply get_varint_enc; [lia|]. exact H. Qed.
Lemma varint_cons x : exists c t, varint x = c :: t.
Proof. unfold varint. rewrite varint_fuel_S. destruct (x <? 128); eauto. Qed.
Lemma varint_length_pos x : (1 <= length (varint x))%nat.
Proof. destruct (varint_cons x) as (c & t & ->). cbn. lia. Qed.

(* ---------------------------------------------------------------- one field *)
Definition small (b : bytes) : Prop := lenZ b < two64.
Definition ef_num (e : efield) : Z := match e with EVar n _ | EBytes n _ | EMsg n _ => n end.
Definition ef_ok (e : efield) : Prop :=
  1 <= ef_num e <= max_field_number /\
  match e with EVar _ v => 0 <= v < two64 | EBytes _ b => small b | EMsg _ p => small p end.

Lemma parse_fields_cons k b r :
  parse_fields (S k) (b :: r) =
  match get_varint 10 (b :: r) with
  | None => DErr
  | Some (tag, r) =>
    let num := tag / 8 in
    let wt := tag mod 8 in
    if (num <? 1) || (max_field_number <? num) then DErr else
    if wt =? 0 then
      match get_varint 10 r with
      | None => DErr
      | Some (v, r') => dbind (parse_fields k r') (fun fs => DOk ((num, WVar v) :: fs))
      end
    else if wt =? 2 then
      match get_varint 10 r with
      | None => DErr
      | Some (n, r') =>
        if lenZ r' <? n then DErr
        else dbind (parse_fields k (skipn (Z.to_nat n) r'))
                   (fun fs => DOk ((num, WLen (firstn (Z.to_nat n) r')) :: fs))
      end
    else if wt =? 1 then
      if lenZ r <? 8 then DErr
      else dbind (parse_fields k (skipn 8 r)) (fun fs => DOk ((num, W64 (firstn 8 r)) :: fs))
    else if wt =? 5 then
      if lenZ r <? 4 then DErr
      else dbind (parse_fields k (skipn 4 r)) (fun fs => DOk ((num, W32 (firstn 4 r)) :: fs))
    else if wt =? 3 then DUnsup
    else DErr
  end.
Proof. reflexivity. Qed.

Lemma max_fn_small n : 1 <= n <= max_field_number -> 0 <= n * 8 + 2 < two64.
Proof. unfold max_field_number, two64. lia. Qed.

Lemma parse_var_field k n v rest :
  1 <= n <= max_field_number -> 0 <= v < two64 ->
  parse_fields (S k) ((enc_tag n 0 ++ varint v) ++ rest) =
  dbind (parse_fields k rest) (fun fs => DOk ((n, WVar v) :: fs)).
Proof.
  intros Hn Hv. unfold enc_tag. rewrite <- !app_assoc.
  destruct (varint_cons (n * 8 + 0)) as (c & t & Ec). rewrite Ec. cbn [app].
  rewrite parse_fields_cons. change (c :: t ++ varint v ++ rest) with ((c :: t) ++ varint v ++ rest).
  rewrite <- Ec. rewrite get_varint_varint by (unfold max_field_number, two64 in *; lia).
  cbv zeta. replace ((n * 8 + 0) / 8) with n by lia. replace ((n * 8 + 0) mod 8) with 0 by lia.
  replace ((n <? 1) || (max_field_number <? n)) with false by lia.
  cbn [Z.eqb]. rewrite get_varint_varint by auto. reflexivity.
Qed.

Lemma firstn_lenZ {A} (b r : list A) : firstn (Z.to_nat (lenZ b)) (b ++ r) = b.
Proof. unfold lenZ. rewrite Nat2Z.id. rewrite firstn_app, Nat.sub_diag, firstn_all. cbn. apply app_nil_r. Qed.
Lemma skipn_lenZ {A} (b r : list A) : skipn (Z.to_nat (lenZ b)) (b ++ r) = r.
Proof. unfold lenZ. rewrite Nat2Z.id. rewrite skipn_app, Nat.sub_diag, skipn_all. reflexivity. Qed.

Lemma parse_len_field k n b rest :
  1 <= n <= max_field_number -> small b ->
  parse_fields (S k) (enc_len n b ++ rest) =
  dbind (parse_fields k rest) (fun fs => DOk ((n, WLen b) :: fs)).
Proof.
  intros Hn Hb. unfold enc_len, enc_tag. rewrite <- !app_assoc.
  destruct (varint_cons (n * 8 + 2)) as (c & t & Ec). rewrite Ec. cbn [app].
  rewrite parse_fields_cons. change (c :: t ++ varint (lenZ b) ++ b ++ rest) with ((c :: t) ++ varint (lenZ b) ++ b ++ rest).
  rewrite <- Ec. rewrite get_varint_varint by (apply max_fn_small; auto).
  cbv zeta. replace ((n * 8 + 2) / 8) with n by lia. replace ((n * 8 + 2) mod 8) with 2 by lia.
  replace ((n <? 1) || (max_field_number <? n)) with false by lia.
  cbn [Z.eqb Pos.eqb]. rewrite get_varint_varint by (unfold small, lenZ in *; lia).
  replace (lenZ (b ++ rest) <? lenZ b) with false by (unfold lenZ; rewrite app_length, Nat2Z.inj_add; lia).
  rewrite firstn_lenZ, skipn_lenZ. reflexivity.
Qed.

Lemma parse_efield k e rest :
  ef_ok e -> ef_keep e = true ->
  parse_fields (S k) (enc_efield e ++ rest) =
  dbind (parse_fields k rest) (fun fs => DOk (ef_field e :: fs)).
Proof.
  intros [Hn Hv] Hk. unfold enc_efield. rewrite Hk.
  destruct e; cbn [ef_num ef_field] in *; [apply parse_var_field | apply parse_len_field | apply parse_len_field]; auto.
Qed.

Lemma enc_efield_drop e : ef_keep e = false -> enc_efield e = [].
Proof. intros Hk. unfold enc_efield. rewrite Hk. reflexivity. Qed.

Lemma enc_efields_cons e es : enc_efields (e :: es) = enc_efield e ++ enc_efields es.
Proof. reflexivity. Qed.
Lemma enc_efields_app a b : enc_efields (a ++ b) = enc_efields a ++ enc_efields b.
Proof. unfold enc_efields. rewrite map_app, concat_app. reflexivity. Qed.

Lemma parse_fields_nil k : parse_fields (S k) [] = DOk [].
Proof. reflexivity. Qed.

Lemma parse_efields es : Forall ef_ok es -> forall k,
  (length (filter ef_keep es) < k)%nat ->
  parse_fields k (enc_efields es) = DOk (map ef_field (filter ef_keep es)).
Proof.
  induction 1 as [|e es He _ IH]; intros k Hk.
  - destruct k; [cbn in Hk; lia|]. reflexivity.
  - rewrite enc_efields_cons. cbn [filter] in *. destruct (ef_keep e) eqn:Ek.
    + cbn [length] in Hk. destruct k as [|k]; [lia|].
      rewrite parse_efield by auto. rewrite IH by lia. reflexivity.
    + rewrite enc_efield_drop by auto. cbn [app]. apply IH. exact Hk.
Qed.

Lemma enc_efield_keep_length e : ef_keep e = true -> (1 <= length (enc_efield e))%nat.
Proof.
  intros Hk. unfold enc_efield. rewrite Hk. pose proof (varint_length_pos).
  destruct e; unfold enc_len, enc_tag; rewrite !app_length;
    match goal with |- context [length (varint ?x)] => pose proof (varint_length_pos x) end; lia.
Qed.
Lemma filter_keep_length es : (length (filter ef_keep es) <= length (enc_efields es))%nat.
Proof.
  induction es as [|e es IH]; [cbn; lia|].
  rewrite enc_efields_cons, app_length. cbn [filter]. destruct (ef_keep e) eqn:Ek; cbn [length].
  - pose proof (enc_efield_keep_length e Ek). lia.
  - lia.
Qed.
Theorem parse_enc es : Forall ef_ok es -> parse (enc_efields es) = DOk (map ef_field (filter ef_keep es)).
Proof. intros. unfold parse. apply parse_efields; auto. pose proof (filter_keep_length es). lia. Qed.

(* ---------------------------------------------------------------- readers, stated on what was asked to be written *)
Definition nonempty {A} (b : list A) : bool := match b with [] => false | _ => true end.
Fixpoint evar_values (es : list efield) (n : Z) : list Z :=
  match es with
  | [] => []
  | EVar m v :: r => if (m =? n) && negb (v =? 0) then v :: evar_values r n else evar_values r n
  | _ :: r => evar_values r n
  end.
Fixpoint elen_values (es : list efield) (n : Z) : list bytes :=
  match es with
  | [] => []
  | EBytes m b :: r => if (m =? n) && nonempty b then b :: elen_values r n else elen_values r n
  | EMsg m p :: r => if m =? n then p :: elen_values r n else elen_values r n
  | EVar _ _ :: r => elen_values r n
  end.

Lemma var_values_filter es n : var_values (map ef_field (filter ef_keep es)) n = evar_values es n.
Proof.
  induction es as [|e es IH]; [reflexivity|]. cbn [filter].
  destruct e as [m v|m b|m p]; cbn [ef_keep evar_values].
  - destruct (v =? 0) eqn:Ev; cbn [negb].
    + rewrite andb_false_r. exact IH.
    + rewrite andb_true_r. cbn [map ef_field var_values]. destruct (m =? n); [f_equal|]; exact IH.
  - destruct b; cbn [map ef_field var_values]; exact IH.
  - cbn [map ef_field var_values]. exact IH.
Qed.
Lemma len_values_filter es n : len_values (map ef_field (filter ef_keep es)) n = elen_values es n.
Proof.
  induction es as [|e es IH]; [reflexivity|]. cbn [filter].
  destruct e as [m v|m b|m p]; cbn [ef_keep elen_values].
  - destruct (negb (v =? 0)); cbn [map ef_field len_values]; exact IH.
  - destruct b as [|x b]; cbn [nonempty].
    + rewrite andb_false_r. exact IH.
    + rewrite andb_true_r. cbn [map ef_field len_values]. destruct (m =? n); [f_equal|]; exact IH.
  - cbn [map ef_field len_values]. destruct (m =? n); [f_equal|]; exact IH.
Qed.
Lemma evar_values_app a b n : evar_values (a ++ b) n = evar_values a n ++ evar_values b n.
Proof.
  induction a as [|e a IH]; [reflexivity|]. cbn [app evar_values].
  destruct e; try exact IH. destruct ((n0 =? n) && negb (v =? 0)); cbn [app]; [f_equal|]; exact IH.
Qed.
Lemma elen_values_app a b n : elen_values (a ++ b) n = elen_values a n ++ elen_values b n.
Proof.
  induction a as [|e a IH]; [reflexivity|]. cbn [app elen_values].
  destruct e; try exact IH.
  - destruct ((n0 =? n) && nonempty b0); cbn [app]; [f_equal|]; exact IH.
  - destruct (n0 =? n); cbn [app]; [f_equal|]; exact IH.
Qed.
Lemma last_var v : last (if negb (v =? 0) then [v] else []) 0 = v.
Proof. destruct (v =? 0) eqn:E; cbn; lia. Qed.
Lemma last_bytes (b : bytes) : last (if nonempty b then [b] else []) [] = b.
Proof. destruct b; reflexivity. Qed.

Ltac ef_ok_tac :=
  repeat (first [apply Forall_nil | apply Forall_cons | apply Forall_app; split]);
  try (unfold ef_ok; cbn [ef_num]; split; [unfold max_field_number; lia | try assumption; try lia]).

(* ---------------------------------------------------------------- small messages *)
Lemma dec_bytes1 b : small b -> merge_bytes1 [] (enc_bytes1 b) = DOk b.
Proof.
  intros Hb. unfold merge_bytes1, enc_bytes1. rewrite parse_enc by ef_ok_tac.
  cbn [dbind]. unfold get_bytes. rewrite len_values_filter. cbn [elen_values Z.eqb Pos.eqb andb].
  rewrite last_bytes. reflexivity.
Qed.
Lemma dec_msg_bytes1 b : small b -> dec_msg merge_bytes1 [] [enc_bytes1 b] = DOk (Some b).
Proof. intros Hb. unfold dec_msg. cbn [merge_parts]. rewrite dec_bytes1 by auto. reflexivity. Qed.

(* size bounds: a field costs at most 20 bytes on top of its payload *)
Lemma varint_len x : (length (varint x) <= 10)%nat.
Proof.
  unfold varint. generalize 10%nat. intros n0; revert x.
  induction n0 as [|k IH]; intros x; [cbn; lia|]. rewrite varint_fuel_S.
  destruct (x <? 128); cbn [length]; [lia|]. specialize (IH (x / 128)). lia.
Qed.
Definition payload_len (e : efield) : Z :=
  match e with EVar _ _ => 0 | EBytes _ b => lenZ b | EMsg _ p => lenZ p end.
Lemma enc_efield_len e : lenZ (enc_efield e) <= payload_len e + 20.
Proof.
  unfold enc_efield. destruct (ef_keep e).
  - destruct e as [n v|n b|n p]; unfold enc_len, enc_tag, payload_len, lenZ;
      rewrite !app_length; repeat rewrite Nat2Z.inj_add.
    + pose proof (varint_len (n * 8 + 0)). pose proof (varint_len v). lia.
    + pose proof (varint_len (n * 8 + 2)). pose proof (varint_len (Z.of_nat (length b))). lia.
    + pose proof (varint_len (n * 8 + 2)). pose proof (varint_len (Z.of_nat (length p))). lia.
  - destruct e; unfold payload_len, lenZ; cbn [length]; lia.
Qed.
Lemma lenZ_app {A} (a b : list A) : lenZ (a ++ b) = lenZ a + lenZ b.
Proof. unfold lenZ. rewrite app_length. lia. Qed.
Lemma lenZ_nonneg {A} (a : list A) : 0 <= lenZ a.
Proof. unfold lenZ. lia. Qed.
Lemma enc_bytes1_len b : lenZ (enc_bytes1 b) <= lenZ b + 20.
Proof.
  unfold enc_bytes1, enc_efields. cbn [map concat]. rewrite app_nil_r.
  apply (enc_efield_len (EBytes 1 b)).
Qed.
Lemma enc_hhp_len h n : lenZ (enc_hhp (Some h, n)) <= lenZ h + 60.
Proof.
  unfold enc_hhp, enc_efields. cbn [fst snd option_map enc_opt app map concat].
  rewrite app_nil_r, lenZ_app.
  pose proof (enc_efield_len (EMsg 1 (enc_bytes1 h))). pose proof (enc_efield_len (EVar 2 n)).
  pose proof (enc_bytes1_len h). cbn [payload_len] in *. lia.
Qed.
Lemma enc_ahp_len a h n : lenZ (enc_ahp (Some a, Some (Some h, n))) <= lenZ a + lenZ h + 120.
Proof.
  unfold enc_ahp, enc_efields. cbn [fst snd option_map enc_opt app map concat].
  rewrite app_nil_r, lenZ_app.
  pose proof (enc_efield_len (EMsg 1 (enc_bytes1 a))). pose proof (enc_efield_len (EMsg 2 (enc_hhp (Some h, n)))).
  pose proof (enc_bytes1_len a). pose proof (enc_hhp_len h n). cbn [payload_len] in *. lia.
Qed.

(* values of the fixed-size Go arrays *)
Definition tiny (b : bytes) : Prop := lenZ b <= 64.
Lemma tiny_of_len n b : length b = n -> (n <= 64)%nat -> tiny b.
Proof. intros <- H. unfold tiny, lenZ. lia. Qed.
Lemma tiny_small b : tiny b -> small b.
Proof. unfold tiny, small, two64. lia. Qed.
Lemma tiny_enc1_small b : tiny b -> small (enc_bytes1 b).
Proof. intros Hb. pose proof (enc_bytes1_len b). unfold tiny, small, two64 in *. lia. Qed.

Lemma dec_hhp h n : tiny h -> 0 <= n < two64 ->
  merge_hhp (None, 0) (enc_hhp (Some h, n)) = DOk (Some h, n).
Proof.
  intros Hh Hn. unfold merge_hhp, enc_hhp. cbn [fst snd option_map enc_opt app].
  pose proof (tiny_enc1_small h Hh) as Hs.
  rewrite parse_enc by ef_ok_tac. cbn [dbind].
  unfold get_var. rewrite len_values_filter, var_values_filter.
  cbn [elen_values evar_values Z.eqb Pos.eqb andb].
  unfold merge_opt_bytes1. cbn [merge_parts]. rewrite dec_bytes1 by (apply tiny_small; auto).
  cbn [dbind]. rewrite last_var. reflexivity.
Qed.
Lemma dec_msg_hhp h n : tiny h -> 0 <= n < two64 ->
  dec_msg merge_hhp (None, 0) [enc_hhp (Some h, n)] = DOk (Some (Some h, n)).
Proof. intros. unfold dec_msg. cbn [merge_parts]. rewrite dec_hhp by auto. reflexivity. Qed.
Lemma tiny_hhp_small h n : tiny h -> small (enc_hhp (Some h, n)).
Proof. intros Hh. pose proof (enc_hhp_len h n). unfold tiny, small, two64 in *. lia. Qed.

Lemma dec_ahp a h n : tiny a -> tiny h -> 0 <= n < two64 ->
  merge_ahp (None, None) (enc_ahp (Some a, Some (Some h, n))) = DOk (Some a, Some (Some h, n)).
Proof.
  intros Ha Hh Hn. unfold merge_ahp, enc_ahp. cbn [fst snd option_map enc_opt app].
  pose proof (tiny_enc1_small a Ha). pose proof (tiny_hhp_small h n Hh).
  rewrite parse_enc by ef_ok_tac. cbn [dbind].
  rewrite !len_values_filter. cbn [elen_values Z.eqb Pos.eqb andb].
  unfold merge_opt_bytes1, merge_opt_hhp. cbn [merge_parts].
  rewrite dec_bytes1 by (apply tiny_small; auto). cbn [dbind].
  rewrite dec_hhp by auto. reflexivity.
Qed.

(* ---------------------------------------------------------------- account block *)
Record body_ok (b : ABody) : Prop := mkBodyOk {
  bo_version : is_u64 (ab_version b); bo_chainid : is_u64 (ab_chainid b); bo_blocktype : is_u64 (ab_blocktype b);
  bo_height : is_u64 (ab_height b); bo_ma_height : is_u64 (ab_ma_height b); bo_fused : is_u64 (ab_fused b);
  bo_diff : is_u64 (ab_diff b); bo_base : is_u64 (ab_base b); bo_total : is_u64 (ab_total b);
  bo_hash : blen 32 (ab_hash b); bo_prev : blen 32 (ab_prev b); bo_ma_hash : blen 32 (ab_ma_hash b);
  bo_addr : blen 20 (ab_addr b); bo_to : blen 20 (ab_to b); bo_zts : blen 10 (ab_zts b);
  bo_from : blen 32 (ab_from b); bo_nonce : blen 8 (ab_nonce b); bo_changes : blen 32 (ab_changes b);
  bo_amount : 0 <= ab_amount b < 2 ^ 256;
  bo_data : small (ab_data b); bo_pk : small (ab_pk b); bo_sig : small (ab_sig b)
}.
(* a Go value of type *AccountBlock whose nested encodings stay below 2^64 bytes *)
Inductive pb_ok : AB -> Prop :=
| pb_ok_node b ds : body_ok b -> Forall pb_ok ds -> Forall (fun d => small (serialize_ab d)) ds -> pb_ok (ABNode b ds).

Section AB_induction.
  Variable P : AB -> Prop.
  Hypothesis Hnode : forall b ds, Forall P ds -> P (ABNode b ds).
  Fixpoint AB_ind' (x : AB) : P x :=
    match x with
    | ABNode b ds =>
      Hnode b ds ((fix go (l : list AB) : Forall P l :=
                     match l with
                     | [] => Forall_nil P
                     | d :: r => Forall_cons d (AB_ind' d) (go r)
                     end) ds)
    end.
End AB_induction.

Definition mid_fields (pds : list ABPT) : list efield := map (fun d => EMsg 13 (enc_abpt d)) pds.
Lemma enc_abpt_node p pds : enc_abpt (PNode p pds) = enc_efields (abp_head p ++ mid_fields pds ++ abp_tail p).
Proof. reflexivity. Qed.
Lemma dec_abpt_S k bs :
  dec_abpt (S k) bs =
  dbind (parse bs) (fun fs => dbind (abp_of_fields fs) (fun p =>
  dbind (map_dres (dec_abpt k) (len_values fs 13)) (fun ds => DOk (PNode p ds)))).
Proof. reflexivity. Qed.

Lemma evar_values_mid pds n : evar_values (mid_fields pds) n = [].
Proof. induction pds; cbn; auto. Qed.
Lemma elen_values_mid pds n : n <> 13 -> elen_values (mid_fields pds) n = [].
Proof.
  intros Hn. induction pds as [|d pds IH]; [reflexivity|]. cbn [mid_fields map elen_values].
  replace (13 =? n) with false by lia. exact IH.
Qed.
Lemma elen_values_mid13 pds : elen_values (mid_fields pds) 13 = map enc_abpt pds.
Proof. induction pds as [|d pds IH]; [reflexivity|]. cbn [mid_fields map elen_values Z.eqb Pos.eqb]. f_equal. exact IH. Qed.

Lemma blen_tiny n b : blen n b -> (n <= 64)%nat -> tiny b.
Proof. unfold blen. intros. eapply tiny_of_len; eauto. Qed.

Lemma big32_small_len z : 0 <= z < 2 ^ 256 -> small (big32 z).
Proof. intros Hz. unfold small, lenZ. rewrite big32_length by auto. unfold two64. lia. Qed.

Ltac tiny_tac := first [ eapply blen_tiny; [eassumption | lia] ].

Lemma head_tail_ok b : body_ok b -> Forall ef_ok (abp_head (proto_body b)) /\ Forall ef_ok (abp_tail (proto_body b)).
Proof.
  intros []. unfold abp_head, abp_tail, proto_body. cbn [p_version p_chainid p_blocktype p_hash p_prev p_height p_ma
    p_addr p_to p_amount p_zts p_from p_data p_fused p_diff p_nonce p_base p_total p_changes p_pk p_sig option_map enc_opt app].
  split; ef_ok_tac;
    try (apply tiny_enc1_small; tiny_tac); try (apply tiny_hhp_small; tiny_tac);
    try (apply big32_small_len; assumption); try (apply tiny_small; tiny_tac).
Qed.

Lemma mid_ok ds : Forall (fun d => small (serialize_ab d)) ds -> Forall ef_ok (mid_fields (map proto_ab ds)).
Proof.
  induction 1 as [|d ds Hd _ IH]; [constructor|]. cbn [map mid_fields]. constructor; [|exact IH].
  unfold ef_ok. cbn [ef_num]. split; [unfold max_field_number; lia | exact Hd].
Qed.

Lemma abp_fields_read b pds :
  body_ok b ->
  let fs := map ef_field (filter ef_keep (abp_head (proto_body b) ++ mid_fields pds ++ abp_tail (proto_body b))) in
  abp_of_fields fs = DOk (proto_body b) /\ len_values fs 13 = map enc_abpt pds.
Proof.
  intros Hb fs. subst fs. split.
  - unfold abp_of_fields, get_var, get_bytes.
    rewrite !len_values_filter, !var_values_filter.
    rewrite !elen_values_app, !evar_values_app, !evar_values_mid.
    rewrite !elen_values_mid by discriminate.
    destruct Hb. unfold abp_head, abp_tail, proto_body.
    cbn [p_version p_chainid p_blocktype p_hash p_prev p_height p_ma
         p_addr p_to p_amount p_zts p_from p_data p_fused p_diff p_nonce p_base p_total p_changes p_pk p_sig
         option_map enc_opt app elen_values evar_values Z.eqb Pos.eqb andb].
    rewrite !dec_msg_bytes1 by (apply tiny_small; tiny_tac).
    rewrite dec_msg_hhp by (auto; tiny_tac).
    cbn [dbind]. rewrite ?app_nil_r. rewrite !last_var, !last_bytes. reflexivity.
  - rewrite len_values_filter, !elen_values_app, elen_values_mid13.
    unfold abp_head, abp_tail, proto_body.
    cbn [p_version p_chainid p_blocktype p_hash p_prev p_height p_ma
         p_addr p_to p_amount p_zts p_from p_data p_fused p_diff p_nonce p_base p_total p_changes p_pk p_sig
         option_map enc_opt app elen_values evar_values Z.eqb Pos.eqb andb].
    rewrite app_nil_r. reflexivity.
Qed.

Lemma concat_in_length {A} (x : list A) l : In x l -> (length x <= length (concat l))%nat.
Proof.
  induction l as [|y l IH]; intros Hi; [destruct Hi|]. cbn [concat]. rewrite app_length.
  destruct Hi as [->|Hi]; [lia|]. specialize (IH Hi). lia.
Qed.
Lemma enc_len_longer n p : (length p < length (enc_len n p))%nat.
Proof. unfold enc_len. rewrite !app_length. pose proof (varint_length_pos (n * 8 + 2)). unfold enc_tag. lia. Qed.

Lemma child_shorter p pds d : In d pds -> (length (enc_abpt d) < length (enc_abpt (PNode p pds)))%nat.
Proof.
  intros Hi. rewrite enc_abpt_node, !enc_efields_app, !app_length.
  assert (length (enc_efield (EMsg 13 (enc_abpt d))) <= length (enc_efields (mid_fields pds)))%nat.
  { unfold enc_efields. apply concat_in_length. apply in_map. unfold mid_fields.
    apply (in_map (fun d => EMsg 13 (enc_abpt d))). exact Hi. }
  pose proof (enc_len_longer 13 (enc_abpt d)). unfold enc_efield in H. cbn [ef_keep] in H. lia.
Qed.

Lemma map_dres_ok {A B} (f : A -> dres B) (g : A -> B) l :
  Forall (fun x => f x = DOk (g x)) l -> map_dres f l = DOk (map g l).
Proof. induction 1 as [|x l Hx _ IH]; [reflexivity|]. cbn [map_dres map]. rewrite Hx, IH. reflexivity. Qed.

Lemma map_dres_map_ok {A B C} (f : B -> dres C) (h : A -> B) (g : A -> C) l :
  Forall (fun x => f (h x) = DOk (g x)) l -> map_dres f (map h l) = DOk (map g l).
Proof. induction 1 as [|x l Hx _ IH]; [reflexivity|]. cbn [map_dres map]. rewrite Hx, IH. reflexivity. Qed.

(* proto.Unmarshal (proto.Marshal pb) = pb for the proto of every block tree *)
Lemma dec_enc_abpt : forall x, pb_ok x -> forall k,
  (length (serialize_ab x) < k)%nat -> dec_abpt k (serialize_ab x) = DOk (proto_ab x).
Proof.
  intros x. induction x as [b ds IH] using AB_ind'. intros Hok k Hk.
  inversion Hok as [b' ds' Hb Hds Hsm]; subst b' ds'.
  destruct k as [|k]; [lia|]. unfold serialize_ab in *. cbn [proto_ab] in *.
  rewrite dec_abpt_S, enc_abpt_node.
  destruct (head_tail_ok b Hb) as [Hh Ht].
  rewrite parse_enc by (apply Forall_app; split; [exact Hh | apply Forall_app; split; [apply mid_ok; exact Hsm | exact Ht]]).
  cbn [dbind].
  destruct (abp_fields_read b (map proto_ab ds) Hb) as [E1 E2]. cbv zeta in E1, E2.
  rewrite E1, E2. cbn [dbind]. rewrite map_map.
  rewrite (map_dres_map_ok _ _ proto_ab); [reflexivity|].
  rewrite Forall_forall in IH, Hds. apply Forall_forall. intros d Hd.
  apply IH; auto.
  pose proof (child_shorter (proto_body b) (map proto_ab ds) (proto_ab d) (in_map _ _ _ Hd)). lia.
Qed.

Lemma deproto_ab_node p pds :
  deproto_ab (PNode p pds) =
  dbind (deproto_body p) (fun b => dbind (map_dres deproto_ab pds) (fun ds' => DOk (ABNode b ds'))).
Proof.
  cbn [deproto_ab]. destruct (deproto_body p); cbn [dbind]; try reflexivity.
  f_equal. induction pds as [|d pds IH]; [reflexivity|]. cbn [map_dres]. rewrite IH. reflexivity.
Qed.

Lemma need_len_ok n b : blen n b -> need_len n (Some b) = DOk b.
Proof. unfold blen, need_len. intros ->. rewrite Nat.eqb_refl. reflexivity. Qed.
Lemma need_len'_ok n b : blen n b -> need_len' n b = DOk b.
Proof. unfold blen, need_len'. intros ->. rewrite Nat.eqb_refl. reflexivity. Qed.

Lemma deproto_proto_body b : body_ok b -> deproto_body (proto_body b) = DOk b.
Proof.
  intros []. unfold deproto_body, proto_body, deproto_hh.
  cbn [p_version p_chainid p_blocktype p_hash p_prev p_height p_ma
       p_addr p_to p_amount p_zts p_from p_data p_fused p_diff p_nonce p_base p_total p_changes p_pk p_sig].
  rewrite !need_len_ok, !need_len'_ok by assumption. cbn [dbind fst snd].
  rewrite big_of_big32 by assumption. destruct b; reflexivity.
Qed.

Lemma deproto_proto_ab : forall x, pb_ok x -> deproto_ab (proto_ab x) = DOk x.
Proof.
  intros x. induction x as [b ds IH] using AB_ind'. intros Hok.
  inversion Hok as [b' ds' Hb Hds Hsm]; subst b' ds'.
  cbn [proto_ab]. rewrite deproto_ab_node, deproto_proto_body by exact Hb. cbn [dbind].
  rewrite (map_dres_map_ok _ _ (fun y => y)).
  - cbn [dbind]. rewrite map_id. reflexivity.
  - rewrite Forall_forall in IH, Hds. apply Forall_forall. intros d Hd. apply IH; auto.
Qed.

(* DeserializeAccountBlock (b.Serialize()) = b, for every block tree *)
Theorem ab_pb_roundtrip x : pb_ok x -> deserialize_ab (serialize_ab x) = DOk x.
Proof.
  intros Hok. unfold deserialize_ab. rewrite dec_enc_abpt by (auto; lia). cbn [dbind].
  apply deproto_proto_ab; exact Hok.
Qed.
Corollary serialize_ab_inj x y : pb_ok x -> pb_ok y -> serialize_ab x = serialize_ab y -> x = y.
Proof.
  intros Hx Hy E. pose proof (ab_pb_roundtrip x Hx) as Rx. rewrite E, (ab_pb_roundtrip y Hy) in Rx. congruence.
Qed.

(* ---------------------------------------------------------------- momentum *)
Record mom_ok (m : Mom) : Prop := mkMomOk {
  mo_version : is_u64 (m_version m); mo_chainid : is_u64 (m_chainid m); mo_height : is_u64 (m_height m);
  mo_timestamp : is_u64 (m_timestamp m);
  mo_hash : blen 32 (m_hash m); mo_prev : blen 32 (m_prev m); mo_changes : blen 32 (m_changes m);
  mo_data : small (m_data m); mo_pk : small (m_pk m); mo_sig : small (m_sig m);
  mo_content : Forall ah_wf (m_content m)
}.
Definition mid8 (l : list AHP) : list efield := map (fun h => EMsg 8 (enc_ahp h)) l.
Lemma evar_values_mid8 l n : evar_values (mid8 l) n = [].
Proof. induction l; cbn; auto. Qed.
Lemma elen_values_mid8 l n : n <> 8 -> elen_values (mid8 l) n = [].
Proof.
  intros Hn. induction l as [|d l IH]; [reflexivity|]. cbn [mid8 map elen_values].
  replace (8 =? n) with false by lia. exact IH.
Qed.
Lemma elen_values_mid8_8 l : elen_values (mid8 l) 8 = map enc_ahp l.
Proof. induction l as [|d l IH]; [reflexivity|]. cbn [mid8 map elen_values Z.eqb Pos.eqb]. f_equal. exact IH. Qed.

Lemma ahp_small h : ah_wf h -> small (enc_ahp (proto_aheader h)).
Proof.
  intros []. unfold proto_aheader. pose proof (enc_ahp_len (ah_addr h) (ah_hash h) (ah_height h)).
  unfold blen, small, lenZ, two64 in *. lia.
Qed.
Lemma mid8_ok c : Forall ah_wf c -> Forall ef_ok (mid8 (map proto_aheader c)).
Proof.
  induction 1 as [|h c Hh _ IH]; [constructor|]. cbn [map mid8]. constructor; [|exact IH].
  unfold ef_ok. cbn [ef_num]. split; [unfold max_field_number; lia | apply ahp_small; exact Hh].
Qed.

Definition mp_head (q : MP) : list efield :=
  [EVar 1 (q_version q); EVar 2 (q_chainid q)] ++ enc_opt 3 (option_map enc_bytes1 (q_hash q)) ++
  enc_opt 4 (option_map enc_bytes1 (q_prev q)) ++ [EVar 5 (q_height q); EVar 6 (q_timestamp q); EBytes 7 (q_data q)].
Definition mp_tail (q : MP) : list efield :=
  enc_opt 9 (option_map enc_bytes1 (q_changes q)) ++ [EBytes 10 (q_pk q); EBytes 11 (q_sig q)].
Lemma enc_mp_split q : enc_mp q = enc_efields (mp_head q ++ mid8 (q_content q) ++ mp_tail q).
Proof. unfold enc_mp, mp_head, mp_tail, mid8. rewrite <- !app_assoc. reflexivity. Qed.

Lemma dec_enc_mp m : mom_ok m -> dec_mp (enc_mp (proto_mom m)) = DOk (proto_mom m).
Proof.
  intros []. unfold dec_mp. rewrite enc_mp_split.
  assert (Hh : Forall ef_ok (mp_head (proto_mom m))).
  { unfold mp_head, proto_mom. cbn [q_version q_chainid q_hash q_prev q_height q_timestamp q_data option_map enc_opt app].
    ef_ok_tac; try (apply tiny_enc1_small; tiny_tac). }
  assert (Ht : Forall ef_ok (mp_tail (proto_mom m))).
  { unfold mp_tail, proto_mom. cbn [q_changes q_pk q_sig option_map enc_opt app].
    ef_ok_tac; try (apply tiny_enc1_small; tiny_tac). }
  rewrite parse_enc by (apply Forall_app; split; [exact Hh | apply Forall_app; split; [apply mid8_ok; assumption | exact Ht]]).
  cbn [dbind]. unfold get_var, get_bytes.
  rewrite !len_values_filter, !var_values_filter.
  rewrite !elen_values_app, !evar_values_app, !evar_values_mid8.
  rewrite elen_values_mid8_8. rewrite !elen_values_mid8 by discriminate.
  unfold mp_head, mp_tail, proto_mom.
  cbn [q_version q_chainid q_hash q_prev q_height q_timestamp q_data q_content q_changes q_pk q_sig
       option_map enc_opt app elen_values evar_values Z.eqb Pos.eqb andb].
  rewrite !dec_msg_bytes1 by (apply tiny_small; tiny_tac). cbn [dbind].
  rewrite ?app_nil_r. rewrite map_map.
  rewrite (map_dres_map_ok _ _ proto_aheader).
  - cbn [dbind]. rewrite !last_var, !last_bytes. reflexivity.
  - eapply Forall_impl; [|eassumption]. intros h []. unfold proto_aheader.
    apply dec_ahp; auto; tiny_tac.
Qed.

Lemma deproto_proto_aheader h : ah_wf h -> deproto_aheader (proto_aheader h) = DOk h.
Proof.
  intros []. unfold deproto_aheader, proto_aheader, deproto_hh. cbn [fst snd].
  rewrite !need_len_ok by assumption. cbn [dbind fst snd]. destruct h; reflexivity.
Qed.
Lemma deproto_proto_mom m : mom_ok m -> deproto_mom (proto_mom m) = DOk m.
Proof.
  intros []. unfold deproto_mom, proto_mom.
  cbn [q_version q_chainid q_hash q_prev q_height q_timestamp q_data q_content q_changes q_pk q_sig].
  rewrite !need_len_ok by assumption. cbn [dbind].
  rewrite (map_dres_map_ok _ _ (fun h => h)).
  - cbn [dbind]. rewrite map_id. destruct m; reflexivity.
  - eapply Forall_impl; [|eassumption]. intros h Hh. apply deproto_proto_aheader; exact Hh.
Qed.

(* DeserializeMomentum (m.Serialize()) = m *)
Theorem mom_pb_roundtrip m : mom_ok m -> deserialize_mom (serialize_mom m) = DOk m.
Proof.
  intros Hm. unfold deserialize_mom, serialize_mom. rewrite dec_enc_mp by exact Hm. cbn [dbind].
  apply deproto_proto_mom; exact Hm.
Qed.

(* non-vacuity: a block tree and a momentum that satisfy the shape hypotheses *)
Definition ex_body : ABody :=
  mkABody 1 3 5 (repeat 7 32) (repeat 0 32) 2 (repeat 1 32) 9 (1 :: repeat 2 19) (repeat 3 20) 100 (repeat 4 10)
          (repeat 9 32) [1; 2; 3] 0 0 (repeat 0 8) 0 0 (repeat 8 32) [] [].
Definition ex_block : AB := ABNode ex_body [ABNode ex_body []].
Lemma ex_body_ok : body_ok ex_body.
Proof. constructor; cbv; try (split; congruence); try reflexivity; try (intro; discriminate). Qed.
Lemma ex_block_ok : pb_ok ex_block.
Proof.
  constructor; [apply ex_body_ok| |].
  - constructor; [|constructor]. constructor; [apply ex_body_ok| |]; constructor.
  - constructor; [|constructor]. vm_compute. reflexivity.
Qed.
