(* Executable entry points compared with the implementation by ./check C09. *)
From ZV Require Import Prelude GoSem Abi.
Open Scope Z_scope.

Fixpoint val_eqb (a b : val) {struct a} : bool :=
  match a, b with
  | VInt x, VInt y => x =? y
  | VBool x, VBool y => Bool.eqb x y
  | VBytes x, VBytes y => bytes_eqb x y
  | VList x, VList y =>
    (fix go (x y : list val) : bool :=
       match x, y with
       | [], [] => true
       | u :: x', v :: y' => val_eqb u v && go x' y'
       | _, _ => false
       end) x y
  | _, _ => false
  end.

(* out: (0 ok | 1 error | 2 panic, decoded values) *)
Definition abi_out := (Z * list val)%type.
Definition abi_out_eqb (a b : abi_out) : bool := (fst a =? fst b) && list_eqb val_eqb (snd a) (snd b).
Definition ures_out (r : ures (list val)) : abi_out :=
  match r with UOk vs => (0, vs) | UErr _ => (1, []) | UPanic => (2, []) end.

Definition abi_unpack_method_run (i : bytes * list ty * bytes) : abi_out :=
  let '(sel, tys, data) := i in ures_out (unpack_method sel tys data).
Definition abi_unpack_empty_run (i : bytes * bytes) : Z :=
  match unpack_empty_method (fst i) (snd i) with UOk _ => 0 | UErr _ => 1 | UPanic => 2 end.

(* ---------------------------------------------------------------- vm layer and concrete methods *)
From ZV Require Import VmReceive Emb.
From ZV.gen Require Import Consts.

Definition dproj (d : dsend) : bytes * Z * bytes := (d_to d, d_amount d, d_zts d).
Definition dproj_eqb (a b : bytes * Z * bytes) : bool :=
  let '(t1, a1, z1) := a in let '(t2, a2, z2) := b in bytes_eqb t1 t2 && (a1 =? a2) && bytes_eqb z1 z2.

(* thin tie for every method, modelled or not: the method's verdict (applied with descendants ds / failed) is
   observed; the vm model must produce the receive block's status and descendant list *)
Definition vm_receive_run (i : bytes * Z * bytes * bool * list (bytes * Z * bytes)) : Z * list (bytes * Z * bytes) :=
  let '(from, amount, zts, applied, ds) := i in
  let s := {| s_from := from; s_from_embedded := false; s_amount := amount; s_zts := zts; s_data := []; s_hash := [] |} in
  let m : method unit := fun a _ =>
    if applied then MOk a (map (fun '(t, x, z) => {| d_to := t; d_amount := x; d_zts := z; d_data := [] |}) ds) else MErr 1 in
  (* the contract is given enough balance for whatever the observed descendants move *)
  let b := (zts, 0) :: map (fun '(_, x, z) => (z, x)) ds in
  let b := fold_left (fun acc '(_, x, z) => bal_set acc z (bal_get acc z + x)) ds [] in
  match generate_receive unit (fun _ => None) (fun _ => LFound m) {| a_bal := b; a_store := tt; a_cursor := 0 |} s with
  | RApplied _ ds' => (1, map dproj ds')
  | RRefunded _ ds' _ => (2, map dproj ds')
  | RInternal _ => (8, [])
  | RPanic => (9, [])
  end.
Definition vm_receive_eqb (a b : Z * list (bytes * Z * bytes)) : bool :=
  (fst a =? fst b) && list_eqb dproj_eqb (snd a) (snd b).
Definition vm_receive_removed_run (i : bytes * Z * bytes) : Z * list (bytes * Z * bytes) :=
  let '(from, amount, zts) := i in
  let s := {| s_from := from; s_from_embedded := false; s_amount := amount; s_zts := zts; s_data := []; s_hash := [] |} in
  match generate_receive unit (fun _ => None) (fun _ => LNotFound) {| a_bal := []; a_store := tt; a_cursor := 0 |} s with
  | RApplied _ ds' => (1, map dproj ds')
  | RRefunded _ ds' _ => (2, map dproj ds')
  | RInternal _ => (8, [])
  | RPanic => (9, [])
  end.

(* descendants to contracts: the reward Mint calls always validate; a Donate is deliverable to the contracts
   that have that method in the current spork regime (list observed from embedded.GetEmbeddedMethod) *)
Definition dest_check_of (donate : list bytes) (d : dsend) : option Z :=
  if is_embedded (d_to d) then
    if bytes_eqb (d_to d) AddrTokenContract && ((len (d_data d) =? 33) || (bytes_eqb (d_data d) Sel_token_Burn && (0 <? d_amount d))) then None
    else if existsb (bytes_eqb (d_to d)) donate && bytes_eqb (d_data d) Sel_common_Donate then None
    else Some 101
  else None.

Definition tab_eqb {V} (veqb : V -> V -> bool) (a b : tab V) : bool :=
  (Z.of_nat (length a) =? Z.of_nat (length b)) &&
  forallb (fun kv => match tget b (fst kv) with Some v => veqb (snd kv) v | None => false end) a.

Definition emb_out (S : Type) := (Z * list (bytes * Z * bytes) * S * bals)%type.
Definition run_emb {S} (m : method S) (donate : list bytes) (st : S) (b : bals) (s : send) : emb_out S :=
  let proj a' := map (fun kv => (fst kv, bal_get (a_bal a') (fst kv))) b in
  match generate_receive S (dest_check_of donate) (fun _ => LFound m) {| a_bal := b; a_store := st; a_cursor := 0 |} s with
  | RApplied a' ds => (0, map dproj ds, a_store a', proj a')
  | RRefunded a' ds c => (c, map dproj ds, a_store a', proj a')
  | RInternal _ => (-1, [], st, b)
  | RPanic => (-2, [], st, b)
  end.
Definition bals_eqb (a b : bals) : bool := list_eqb (pair_eqb bytes_eqb Z.eqb) a b.
Definition emb_out_eqb {S} (seqb : S -> S -> bool) (a b : emb_out S) : bool :=
  let '(c1, d1, s1, b1) := a in let '(c2, d2, s2, b2) := b in
  (c1 =? c2) && list_eqb dproj_eqb d1 d2 && seqb s1 s2 && bals_eqb b1 b2.

Definition emb_in (S : Type) := (Z * env * bytes * S * bals * send * list bytes * list (Z * bytes * bytes))%type.
Definition hash_of (tbl : list (Z * bytes * bytes)) (ty : Z) (pre : bytes) : bytes :=
  match find (fun '(t, p, _) => (t =? ty) && bytes_eqb p pre) tbl with Some (_, _, d) => d | None => [] end.

Definition emb_plasma_run (i : emb_in pstore) : emb_out pstore :=
  let '(id, e, self, st, b, s, donate, _) := i in
  run_emb (if id =? 1 then fuse_receive e else cancel_fuse_receive e) donate st b s.
Definition fusion_eqb (x y : fusion) : bool := (f_amount x =? f_amount y) && (f_exp x =? f_exp y) && bytes_eqb (f_ben x) (f_ben y).
Definition pstore_eqb (x y : pstore) : bool := tab_eqb fusion_eqb (p_fusions x) (p_fusions y) && tab_eqb Z.eqb (p_fused x) (p_fused y).
Definition emb_plasma_eqb := emb_out_eqb pstore_eqb.

Definition emb_stake_run (i : emb_in sstore) : emb_out sstore :=
  let '(id, e, self, st, b, s, donate, _) := i in
  run_emb (if id =? 1 then stake_receive e else cancel_stake_receive e) donate st b s.
Definition stake_eqb (x y : stake) : bool :=
  (k_amount x =? k_amount y) && (k_weighted x =? k_weighted y) && (k_start x =? k_start y) && (k_revoke x =? k_revoke y) && (k_exp x =? k_exp y).
Definition emb_stake_eqb := emb_out_eqb (tab_eqb stake_eqb).

Definition emb_htlc_run (i : emb_in hstore) : emb_out hstore :=
  let '(id, e, self, st, b, s, donate, hs) := i in
  run_emb (if id =? 1 then create_receive e else if id =? 2 then reclaim_receive e else if id =? 3 then unlock_receive (hash_of hs) e
           else proxy_receive (id =? 5)) donate st b s.
Definition htlc_eqb (x y : htlc) : bool :=
  bytes_eqb (h_timelocked x) (h_timelocked y) && bytes_eqb (h_hashlocked x) (h_hashlocked y) && bytes_eqb (h_zts x) (h_zts y) &&
  (h_amount x =? h_amount y) && (h_exp x =? h_exp y) && (h_type x =? h_type y) && (h_keymax x =? h_keymax y) && bytes_eqb (h_lock x) (h_lock y).
Definition hstore_eqb (x y : hstore) : bool := tab_eqb htlc_eqb (h_entries x) (h_entries y) && tab_eqb Bool.eqb (h_proxy x) (h_proxy y).
Definition emb_htlc_eqb := emb_out_eqb hstore_eqb.

Definition emb_token_run (i : emb_in tstore) : emb_out tstore :=
  let '(id, e, self, st, b, s, donate, _) := i in
  run_emb (if id =? 1 then mint_receive else if id =? 2 then burn_receive else update_token_receive) donate st b s.
Definition token_eqb (x y : token) : bool :=
  bytes_eqb (t_owner x) (t_owner y) && bytes_eqb (t_name x) (t_name y) && bytes_eqb (t_symbol x) (t_symbol y) && bytes_eqb (t_domain x) (t_domain y) &&
  (t_total x =? t_total y) && (t_max x =? t_max y) && (t_decimals x =? t_decimals y) &&
  Bool.eqb (t_mintable x) (t_mintable y) && Bool.eqb (t_burnable x) (t_burnable y) && Bool.eqb (t_utility x) (t_utility y).
Definition emb_token_eqb := emb_out_eqb (tab_eqb token_eqb).

Definition emb_common_run (i : emb_in cstore) : emb_out cstore :=
  let '(id, e, self, st, b, s, donate, _) := i in
  run_emb (if id =? 1 then deposit_qsr_receive else if id =? 2 then withdraw_qsr_receive self else if id =? 3 then collect_receive
           else donate_receive) donate st b s.
Definition cstore_eqb (x y : cstore) : bool :=
  tab_eqb Z.eqb (q_dep x) (q_dep y) && tab_eqb (pair_eqb Z.eqb Z.eqb) (r_dep x) (r_dep y).
Definition emb_common_eqb := emb_out_eqb cstore_eqb.

(* the four method tables of embedded.go as dumped by the verif hook: nested *)
From ZV Require Import VmReceiveProofs.
Definition method_tables_run (ts : list (list (bytes * bytes))) : bool := mt_chain ts.
