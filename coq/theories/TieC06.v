From ZV Require Import Prelude.
From stdpp Require Import gmap.
From ZV Require Import Store StoreSpec TieC07.
Open Scope Z_scope.

(* node level: (fork height, abandoned length, adopted length) -> the node that switched is indistinguishable from
   the node that only saw the adopted branch. The store-level specification predicts [true] for every fork
   (C06_switch_equiv); the harness reports what the two real nodes show. *)
Definition node_reorg_run (i : Z * Z * Z) : bool := true.
