(* Mailbox / receive discipline over a chain WITH its structure (momentums, unconfirmed pool, replacement, reorg,
   restart).  Executable model, no proofs.  Mirrors
     verifier/account_block.go        fromHash() (missing / receiver mismatch / already received), sequencer()
     chain/account/received.go        the received marker lives in the account's own versioned store
     chain/account/sequencer.go       SequencerFront = entry (lastReceived+1) of the mailbox, nil when equal to its size
     chain/account/mailbox/mailbox.go SequencerPushBack on confirmation
     chain/momentum/ledger_store.go   AddAccountBlockTransaction: sends become visible (and queued) when confirmed
     chain/account_pool.go            fast-forward add, replacement of unconfirmed blocks (pop to the fork point),
                                      DeleteMomentum (the pool is dropped), rebuild after InsertMomentum
   An account's store is a function of the blocks of that account currently on the chain and in the pool, so the
   marker set of account a is "the from-hashes of a's receive blocks" and the contract cursor is their number.
   Addresses and hashes are opaque ids (Ledger.is_emb tells contracts from users). *)
From ZV Require Import Prelude Ledger.
Open Scope Z_scope.

Inductive kind := BSend (to : addr) | BRecv (from : hash).
(* one account block; a contract receive carries its descendant sends (hash, to) *)
Record blk := mkBlk { b_hash : hash; b_addr : addr; b_kind : kind; b_ma : Z; b_descs : list (hash * addr) }.

Record node := mkNode {
  chain : list (list blk);   (* confirmed momentums, oldest first; each: its blocks in content order *)
  pool  : list blk           (* unconfirmed blocks, insertion order *)
}.

Definition blocks_of (n : node) : list blk := concat (chain n) ++ pool n.

(* the send blocks contained in a list of blocks: (hash, from, to) in confirmation order *)
Definition sends_of_blk (b : blk) : list (hash * addr * addr) :=
  match b_kind b with
  | BSend to => [(b_hash b, b_addr b, to)]
  | BRecv _ => map (fun d => (fst d, b_addr b, snd d)) (b_descs b)
  end.
Definition sends_of (l : list blk) : list (hash * addr * addr) := flat_map sends_of_blk l.
Definition conf_sends (c : list (list blk)) : list (hash * addr * addr) := sends_of (concat c).

Fixpoint find_csend (h : hash) (l : list (hash * addr * addr)) : option (addr * addr) :=
  match l with
  | [] => None
  | (h', from, to) :: r => if h' =? h then Some (from, to) else find_csend h r
  end.

(* the contract's mailbox sequencer as of a chain prefix: confirmed sends addressed to c, in confirmation order *)
Fixpoint to_hashes (c : addr) (l : list (hash * addr * addr)) : list hash :=
  match l with
  | [] => []
  | (h, _, to) :: r => if to =? c then h :: to_hashes c r else to_hashes c r
  end.
Definition inbox_at (c : addr) (view : list (list blk)) : list hash := to_hashes c (conf_sends view).

(* the from-hashes of the receive blocks of account a, in chain order *)
Fixpoint recvs_of (a : addr) (l : list blk) : list hash :=
  match l with
  | [] => []
  | b :: r => match b_kind b with
              | BRecv h => if b_addr b =? a then h :: recvs_of a r else recvs_of a r
              | BSend _ => recvs_of a r
              end
  end.

Definition mem_hash (h : hash) (l : list hash) : bool := existsb (Z.eqb h) l.

(* ---- the decision of fromHash() + sequencer() given the facts the verifier reads *)
Definition recv_check (enf : bool) (a : addr) (h : hash)
           (sendto : option addr)        (* momentumStore.GetAccountBlockByHash(from).ToAddress, None = not found *)
           (received : bool)             (* accountStore.IsReceived(from) *)
           (nextinline : option hash)    (* accountStore.SequencerFront(mailbox) *)
  : Z :=
  match sendto with
  | None => E_FROM_MISSING
  | Some to =>
    if enf && negb (to =? a) then E_MISMATCH
    else if received then E_ALREADY
    else if is_emb a then
      match nextinline with
      | None => E_SEQ_NOTHING
      | Some h' => if h' =? h then 0 else E_SEQ_NOT_NEXT
      end
    else 0
  end.

Definition E_MA_MISSING := 16.     (* verifier.ErrABMAMissing / ErrABMAMustNotBeZero *)
Definition E_BAD_EVENT := 17.      (* not an event of the system *)

(* the facts, read from the node: the momentum store as of the acknowledged momentum, the account store = this
   account's blocks on chain + pool.  Contracts never set the received marker (vm.generateEmbeddedReceive only pops). *)
(* the regime of the receiver rule (verifier.ReceiverMismatchEnforcementHeight = E): fromHash() compares the height of
   the node's frontier momentum with E; the genesis momentum has height 1, so that height is the number of momentums.
   Rollbacks can take a node back below E. *)
Definition enforced (E : Z) (n : node) : bool := E <=? Z.of_nat (length (chain n)).

Definition check_blk (E : Z) (n : node) (b : blk) : Z :=
  if (b_ma b <? 1) || (Z.of_nat (length (chain n)) <? b_ma b) then E_MA_MISSING else
  let view := firstn (Z.to_nat (b_ma b)) (chain n) in
  match b_kind b with
  | BSend _ => if is_emb (b_addr b) then E_TYPE else 0
  | BRecv h =>
    let mine := recvs_of (b_addr b) (blocks_of n) in
    recv_check (enforced E n) (b_addr b) h
      (match find_csend h (conf_sends view) with Some (_, to) => Some to | None => None end)
      (if is_emb (b_addr b) then false else mem_hash h mine)
      (nth_error (inbox_at (b_addr b) view) (length mine))
  end.

(* keep only the first m pool blocks of account a (accountPool: pop the manager back to the fork point) *)
Fixpoint keep_first (m : nat) (a : addr) (l : list blk) : list blk :=
  match l with
  | [] => []
  | b :: r => if b_addr b =? a then
                match m with O => keep_first O a r | S m' => b :: keep_first m' a r end
              else b :: keep_first m a r
  end.

Fixpoint find_blk (h : hash) (l : list blk) : option blk :=
  match l with
  | [] => None
  | b :: r => if b_hash b =? h then Some b else find_blk h r
  end.
Fixpoint pick (sel : list hash) (l : list blk) : option (list blk) :=
  match sel with
  | [] => Some []
  | h :: r => match find_blk h l, pick r l with
              | Some b, Some bs => Some (b :: bs)
              | _, _ => None
              end
  end.
Definition acct_blocks (a : addr) (l : list blk) : list blk := filter (fun b => b_addr b =? a) l.
Definition blk_hashes (l : list blk) : list hash := map b_hash l.
Definition hashes_eqb : list hash -> list hash -> bool := list_eqb Z.eqb.
Fixpoint nodup_b (l : list hash) : bool :=
  match l with [] => true | h :: r => negb (mem_hash h r) && nodup_b r end.

(* a momentum may confirm, for every account, a prefix of its unconfirmed blocks (in their order); the hashes of
   the send blocks it confirms are new among the confirmed ones (hash ids are unique) *)
Definition momentum_ok (n : node) (mom rest : list blk) : bool :=
  forallb (fun b => hashes_eqb (blk_hashes (acct_blocks (b_addr b) mom) ++ blk_hashes (acct_blocks (b_addr b) rest))
                               (blk_hashes (acct_blocks (b_addr b) (pool n)))
                    && hashes_eqb (recvs_of (b_addr b) mom ++ recvs_of (b_addr b) rest) (recvs_of (b_addr b) (pool n))) (pool n)
  && nodup_b (map (fun s => fst (fst s)) (conf_sends (chain n ++ [mom]))).

Inductive event :=
| EBlock (keep : Z) (commit : bool) (b : blk)   (* verify b on top of the first [keep] pool blocks of its account
                                                   (keep >= their number: plain fast-forward); insert it if commit *)
| EMomentum (sel : list hash)                   (* a momentum whose content is the selected pool blocks, in this order *)
| ERollback                                     (* reorg: the frontier momentum is removed; DeleteMomentum drops the pool *)
| ERestart.                                     (* the pool lives in memory only *)

Definition step_node (E : Z) (n : node) (e : event) : node * Z :=
  match e with
  | EBlock keep commit b =>
    let n1 := mkNode (chain n) (keep_first (Z.to_nat keep) (b_addr b) (pool n)) in
    let c := check_blk E n1 b in
    if (c =? 0) && commit then (mkNode (chain n1) (pool n1 ++ [b]), 0) else (n, c)
  | EMomentum sel =>
    match pick sel (pool n) with
    | None => (n, E_BAD_EVENT)
    | Some mom =>
      let rest := filter (fun b => negb (mem_hash (b_hash b) sel)) (pool n) in
      if momentum_ok n mom rest then (mkNode (chain n ++ [mom]) rest, 0) else (n, E_BAD_EVENT)
    end
  | ERollback =>
    match chain n with
    | [] | [_] => (n, E_BAD_EVENT)              (* the genesis momentum stays *)
    | _ => (mkNode (removelast (chain n)) [], 0)
    end
  | ERestart => (mkNode (chain n) [], 0)
  end.

Fixpoint run_node (E : Z) (n : node) (es : list event) : node :=
  match es with
  | [] => n
  | e :: r => run_node E (fst (step_node E n e)) r
  end.
Fixpoint run_codes (E : Z) (n : node) (es : list event) : list Z * node :=
  match es with
  | [] => ([], n)
  | e :: r => let '(n1, c) := step_node E n e in
              let '(cs, n2) := run_codes E n1 r in (c :: cs, n2)
  end.

Definition genesis_node : node := mkNode [[]] [].

(* ---- observables of the property *)
(* all blocks (any account) that receive send h *)
Fixpoint receivers (h : hash) (l : list blk) : list blk :=
  match l with
  | [] => []
  | b :: r => match b_kind b with
              | BRecv h' => if h' =? h then b :: receivers h r else receivers h r
              | BSend _ => receivers h r
              end
  end.
(* ... those of them that belong to account a; those that acknowledge a momentum at or above height E *)
Definition receivers_by (a : addr) (h : hash) (l : list blk) : list blk := filter (fun b => b_addr b =? a) (receivers h l).
Definition receivers_from (E : Z) (h : hash) (l : list blk) : list blk := filter (fun b => E <=? b_ma b) (receivers h l).
