(* Concrete embedded-method bodies inside the C01 ledger model.
   The bodies are NOT re-modelled here: they are the definitions of theories/Emb.v (written and tied to
   vm/embedded/implementation/{common,plasma,stake}.go by the C09/C10 checks).  This file is the adapter between the
   id-based ledger of Ledger.v and the byte-based contract models: it runs the body on the received send, on the one
   storage entry the body reads (observed), and turns the descendant sends it returns into the [call] the ledger step
   consumes.  A concrete method can therefore touch the ledger only through the descendants computed by its body:
   for these methods the VM discipline is a property of the model, not an assumption.
   Concrete here: Donate, DepositQsr, WithdrawQsr, CollectReward (common.go), Fuse, CancelFuse (plasma.go),
   Stake, Cancel (stake.go).  Concrete in Ledger.v: IssueToken, Mint, Burn, UpdateToken (token.go).
   Everything else stays the parameter [KOther]. *)
From ZV Require Import Prelude GoSem Abi VmReceive Emb.
From ZV.gen Require Import Consts.
From ZV Require Import Ledger.
Open Scope Z_scope.

(* byte forms of the ids: addresses keep their class (embedded prefix byte), ZNN / QSR / zero are the real standards *)
Definition addr_bytes (a : addr) : bytes := (if is_emb a then ContractAddrByte else 0) :: be_bytes 19 a.
Definition zts_bytes (z : zts) : bytes :=
  if z =? ZnnId then ZtsZnn else if z =? QsrId then ZtsQsr else be_bytes 10 z.
Definition addr_of_bytes (b : bytes) : addr :=
  if bytes_eqb b AddrTokenContract then TokenContract else be_value (tl b).
Definition zts_of_bytes (b : bytes) : zts :=
  if bytes_eqb b ZtsZnn then ZnnId else if bytes_eqb b ZtsQsr then QsrId else be_value b.

Inductive emb_method :=
| MDonate
| MDepositQsr
| MWithdrawQsr (deposit : Z)                       (* definition.GetQsrDeposit(storage, sender).Qsr *)
| MCollectReward (znn qsr : Z)                     (* definition.GetRewardDeposit(storage, sender) *)
| MFuse
| MCancelFuse (entry : option (Z * Z))             (* definition.GetFusionInfo(storage, sender, id): (amount, expiration height) *)
| MStake
| MCancelStake (entry : option (Z * Z)).           (* definition.GetStakeInfo(storage, id, sender): (amount, expiration time) *)

(* frontier momentum of the receive context; the protocol constants are the dumped ones *)
Definition env_at (now height : Z) : env :=
  {| e_now := now; e_height := height;
     c_FuseMinAmount := FuseMinAmount; c_CostPerFusionUnit := CostPerFusionUnit; c_FuseExpiration := FuseExpiration;
     c_StakeMinAmount := StakeMinAmount; c_StakeTimeMin := StakeTimeMinSec; c_StakeTimeMax := StakeTimeMaxSec;
     c_StakeTimeUnit := StakeTimeUnitSec; c_TokenIssueAmount := TokenIssueAmount |}.

Definition vsend (sd : Ledger.send) (data : bytes) : VmReceive.send :=
  {| VmReceive.s_from := addr_bytes (Ledger.s_from sd); s_from_embedded := is_emb (Ledger.s_from sd);
     s_amount := s_amt sd; VmReceive.s_zts := zts_bytes (Ledger.s_zts sd); s_data := data; VmReceive.s_hash := [] |}.

Definition acct0 {S} (st : S) : cacct S := {| a_bal := []; a_store := st; a_cursor := 0 |}.

(* outcome of a body: None = panic; Some None = error (rolled back, refunded); Some (Some ds) = descendants.
   The body must hand the balances back untouched (checked: a body that touched them is reported as a panic). *)
Definition outcome {S} (r : VmReceive.mres S) (dok : bool) : option (option (list (addr * zts * Z * bool))) :=
  match r with
  | MPanic => None
  | MErr _ => Some None
  | MOk a ds =>
    match a_bal a with
    | [] => Some (Some (map (fun d => (addr_of_bytes (d_to d), zts_of_bytes (d_zts d), d_amount d, dok)) ds))
    | _ => None
    end
  end.

Definition key_id (v : vres bytes) : bytes := match v with VOk id => id | _ => [] end.

Definition emb_outcome (m : emb_method) (now height : Z) (sd : Ledger.send) (data : bytes) (dok : bool)
  : option (option (list (addr * zts * Z * bool))) :=
  let e := env_at now height in
  let s := vsend sd data in
  let from := VmReceive.s_from s in
  match m with
  | MDonate => outcome (donate_receive (acct0 tt) s) dok
  | MDepositQsr => outcome (deposit_qsr_receive (acct0 {| q_dep := []; r_dep := [] |}) s) dok
  | MWithdrawQsr dep =>
    outcome (withdraw_qsr_receive [] (acct0 {| q_dep := if dep =? 0 then [] else [(from, dep)]; r_dep := [] |}) s) dok
  | MCollectReward znn qsr =>
    outcome (collect_receive (acct0 {| q_dep := []; r_dep := [(from, (znn, qsr))] |}) s) dok
  | MFuse => outcome (fuse_receive e (acct0 {| p_fusions := []; p_fused := [] |}) s) dok
  | MCancelFuse entry =>
    let id := key_id (cancel_fuse_validate s) in
    let st := match entry with
              | Some (amt, exp) => {| p_fusions := [(from ++ id, {| f_amount := amt; f_exp := exp; f_ben := from |})];
                                      p_fused := [(from, amt)] |}
              | None => {| p_fusions := []; p_fused := [] |}
              end in
    outcome (cancel_fuse_receive e (acct0 st) s) dok
  | MStake => outcome (stake_receive e (acct0 []) s) dok
  | MCancelStake entry =>
    let id := key_id (cancel_stake_validate s) in
    let st := match entry with
              | Some (amt, exp) => [(from ++ id, {| k_amount := amt; k_weighted := 0; k_start := 0; k_revoke := 0; k_exp := exp |})]
              | None => []
              end in
    outcome (cancel_stake_receive e (acct0 st) s) dok
  end.

Definition call_of_emb (m : emb_method) (now height : Z) (sd : Ledger.send) (data : bytes) (dok : bool) : call :=
  match emb_outcome m now height sd data dok with
  | None => KPanic
  | Some None => KOther false []
  | Some (Some ds) => KOther true ds
  end.

(* ops of the tie: the plain ones, and a contract receive whose method is one of the concrete bodies *)
Inductive xop :=
| XPlain (o : op)
| XEmb (c : addr) (h : hash) (m : emb_method) (now height : Z) (data : bytes) (dh : list hash) (rok dok : bool).

Definition op_of_xop (s : state) (x : xop) : op :=
  match x with
  | XPlain o => o
  | XEmb c h m now height data dh rok dok =>
    match find_send h (sends s) with
    | Some sd => OContractReceive c h (call_of_emb m now height sd data dok) dh rok
    | None => OContractReceive c h (KOther false []) dh rok       (* refused: the send is not on the ledger *)
    end
  end.
Definition step_x (enf : bool) (s : state) (x : xop) : state * res := step enf s (op_of_xop s x).
Fixpoint run_x (enf : bool) (s : state) (xs : list xop) : state :=
  match xs with [] => s | x :: r => run_x enf (fst (step_x enf s x)) r end.
