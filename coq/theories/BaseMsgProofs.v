(* C15 — proofs about BaseMsg.v *)
From ZV Require Import Prelude GoSem BaseMsg.
From ZV.gen Require Import Consts.
Open Scope Z_scope.
Ltac Zify.zify_post_hook ::= Z.div_mod_to_equations.

Definition pbytes_ok (l : bytes) : Prop := Forall (fun b => 0 <= b < 256) l.

(* ---- the decode target has one element: reason[0] is in range whatever the payload is *)
Lemma disc_reason_total limited p : exists r, disc_reason limited p = Ok r.
Proof.
  unfold disc_reason, disc_reason_gen, decode_reasons, index_res. cbn [repeat nth_error]. eexists. reflexivity.
Qed.

Lemma handle_base_no_panic limited plen code p : handle_base limited plen code p <> HPanic.
Proof.
  unfold handle_base, base_handle_gen. destruct (disc_reason_total limited p) as [r Hr]. fold disc_reason. rewrite Hr.
  destruct (code =? PingMsg); [discriminate|]. destruct (code =? DiscMsg); [discriminate|].
  destruct (code <? BaseProtocolLength); [discriminate|]. destruct (code <? BaseProtocolLength + plen); discriminate.
Qed.

Lemma react_no_panic limited plen code p : react limited plen code p <> RPanic.
Proof.
  unfold react. pose proof (handle_base_no_panic limited plen code p) as H.
  destruct (handle_base limited plen code p); try discriminate. congruence.
Qed.

Lemma read_hs_no_panic limited size code p d v z : read_hs limited size code p d v z <> HsPanic.
Proof.
  unfold read_hs, read_hs_gen. destruct (disc_reason_total limited p) as [r Hr]. fold disc_reason. rewrite Hr.
  destruct (BaseProtocolMaxMsgSize <? size); [discriminate|]. destruct (code =? DiscMsg); [discriminate|].
  destruct (negb (code =? HandshakeMsg)); [discriminate|]. destruct (negb d); [discriminate|].
  destruct (negb (v =? BaseProtocolVersion)); [discriminate|]. destruct z; discriminate.
Qed.

Lemma setup_conn_no_panic limited size code p d v z im cm : setup_conn limited size code p d v z im cm <> SPanic.
Proof.
  unfold setup_conn. pose proof (read_hs_no_panic limited size code p d v z) as H.
  destruct (read_hs limited size code p d v z); try discriminate; try congruence.
  destruct (negb im); [discriminate|]. destruct (negb cm); discriminate.
Qed.

(* all four entry points at once *)
Lemma base_msg_no_panic limited plen size code p d v z im cm :
  handle_base limited plen code p <> HPanic /\ react limited plen code p <> RPanic /\
  read_hs limited size code p d v z <> HsPanic /\ setup_conn limited size code p d v z im cm <> SPanic.
Proof.
  repeat split; [apply handle_base_no_panic|apply react_no_panic|apply read_hs_no_panic|apply setup_conn_no_panic].
Qed.

(* the bounds check is what the proof rests on: with a target of no element the same dispatch panics on any disconnect *)
Lemma zero_length_target_panics limited plen p : base_handle_gen 0 limited plen DiscMsg p = HPanic.
Proof. reflexivity. Qed.

(* ---- the decoded reason is a uint64 *)
Lemma take_be_bound n : forall acc l v r, pbytes_ok l -> 0 <= acc ->
  take_be n acc l = Some (v, r) -> acc * 256 ^ Z.of_nat n <= v < (acc + 1) * 256 ^ Z.of_nat n.
Proof.
  induction n as [|n IH]; intros acc l v r Hb Ha H.
  - cbn [take_be] in H. inversion H; subst. change (256 ^ Z.of_nat 0) with 1. lia.
  - cbn [take_be] in H. destruct l as [|b l]; [discriminate|].
    inversion Hb as [|? ? Hb0 Hbl]; subst.
    assert (Hab : 0 <= acc * 256 + b) by lia.
    specialize (IH (acc * 256 + b) l v r Hbl Hab H).
    rewrite Nat2Z.inj_succ, Z.pow_succ_r by lia.
    assert (Hp : 0 < 256 ^ Z.of_nat n) by (apply Z.pow_pos_nonneg; lia).
    nia.
Qed.

Lemma rlp_list_head_rest_ok limited p L r : pbytes_ok p -> rlp_list_head limited p = Some (L, r) -> pbytes_ok r.
Proof.
  intros Hb H. unfold rlp_list_head in H. destruct p as [|b p]; [discriminate|].
  inversion Hb as [|? ? Hb0 Hbp]; subst.
  destruct (b <? 192); [discriminate|]. destruct (b <? 248).
  - destruct (limited && (blen p <? b - 192)); [discriminate|]. inversion H; subst. exact Hbp.
  - destruct (take_be (Z.to_nat (b - 247)) 0 p) as [[v r']|] eqn:E; [|discriminate].
    destruct ((1 <? b - 247) && (nth 0 p 0 =? 0)); [discriminate|]. destruct (v <? 56); [discriminate|].
    destruct (limited && (blen r' <? v)); [discriminate|]. inversion H; subst.
    clear - E Hbp. revert E. generalize 0 at 1. generalize (Z.to_nat (b - 247)). intros n. revert p Hbp.
    induction n as [|n IH]; intros p Hbp acc E; cbn [take_be] in E.
    + inversion E; subst. exact Hbp.
    + destruct p as [|c p]; [discriminate|]. inversion Hbp; subst. eapply IH; eassumption.
Qed.

Lemma rlp_uint_elem_range L r v : pbytes_ok r -> rlp_uint_elem L r = Some v -> 0 <= v < two64.
Proof.
  intros Hb H. unfold rlp_uint_elem in H. destruct (L =? 0); [discriminate|].
  destruct r as [|b r]; [discriminate|]. inversion Hb as [|? ? Hb0 Hbr]; subst.
  destruct (b <? 128) eqn:E1.
  - destruct (b =? 0); [discriminate|]. inversion H; subst. unfold two64. lia.
  - destruct (b <? 184) eqn:E2; [|discriminate].
    destruct (L - 1 <? b - 128); [discriminate|]. destruct (8 <? b - 128) eqn:E3; [discriminate|].
    destruct (b - 128 =? 0); [inversion H; subst; unfold two64; lia|].
    destruct (take_be (Z.to_nat (b - 128)) 0 r) as [[w r']|] eqn:E; [|discriminate].
    destruct ((1 <? b - 128) && (nth 0 r 0 =? 0)); [discriminate|]. destruct (w <? 128); [discriminate|].
    inversion H; subst. pose proof (take_be_bound _ 0 _ _ _ Hbr (Z.le_refl 0) E) as Hv.
    rewrite Z2Nat.id in Hv by lia.
    assert (Hle : 256 ^ (b - 128) <= 256 ^ 8) by (apply Z.pow_le_mono_r; lia).
    change (256 ^ 8) with two64 in Hle. lia.
Qed.

Lemma disc_reason_range limited p r : pbytes_ok p -> disc_reason limited p = Ok r -> 0 <= r < two64.
Proof.
  intros Hb H. unfold disc_reason, disc_reason_gen, decode_reasons, index_res in H. cbn [repeat nth_error] in H.
  inversion H as [Hr]. clear H.
  destruct (rlp_list_head limited p) as [[L rest]|] eqn:E; [|unfold two64; lia].
  destruct (rlp_uint_elem L rest) as [v|] eqn:E2; [|unfold two64; lia].
  eapply rlp_uint_elem_range; [eapply rlp_list_head_rest_ok; eassumption|eassumption].
Qed.

(* ---- what every client sends is understood: the one-element list [r] *)
Lemma disc_reason_wellformed_small limited r : 1 <= r < 128 -> disc_reason limited [193; r] = Ok r.
Proof.
  intros H. unfold disc_reason, disc_reason_gen, decode_reasons, index_res, rlp_list_head, rlp_uint_elem, blen.
  cbn [repeat nth_error length Z.of_nat].
  replace (193 <? 192) with false by reflexivity. replace (193 <? 248) with true by reflexivity.
  replace (Z.of_nat 1 <? 193 - 192) with false by reflexivity. rewrite Bool.andb_false_r.
  replace (193 - 192 =? 0) with false by reflexivity.
  destruct (r <? 128) eqn:E; [|lia]. destruct (r =? 0) eqn:E0; [lia|]. reflexivity.
Qed.
Lemma disc_reason_wellformed_byte limited r : 128 <= r < 256 -> disc_reason limited [194; 129; r] = Ok r.
Proof.
  intros H. unfold disc_reason, disc_reason_gen, decode_reasons, index_res, rlp_list_head, rlp_uint_elem, blen.
  cbn [repeat nth_error length Z.of_nat].
  replace (194 <? 192) with false by reflexivity. replace (194 <? 248) with true by reflexivity.
  replace (Z.of_nat 2 <? 194 - 192) with false by reflexivity. rewrite Bool.andb_false_r.
  replace (194 - 192 =? 0) with false by reflexivity.
  replace (129 <? 128) with false by reflexivity. replace (129 <? 184) with true by reflexivity.
  replace (194 - 192 - 1 <? 129 - 128) with false by reflexivity.
  replace (8 <? 129 - 128) with false by reflexivity. replace (129 - 128 =? 0) with false by reflexivity.
  replace (Z.to_nat (129 - 128)) with 1%nat by reflexivity. cbn [take_be].
  replace (1 <? 129 - 128) with false by reflexivity. cbn [andb].
  replace (0 * 256 + r) with r by lia. destruct (r <? 128) eqn:E; [lia|]. reflexivity.
Qed.
(* a payload that is not a list (no payload, a single byte, a string) or an empty list reads as reason 0 *)
Lemma disc_reason_not_a_list limited p : (p = [] \/ exists b r, p = b :: r /\ (b < 192 \/ (b = 192))) ->
  disc_reason limited p = Ok 0.
Proof.
  intros [E|[b [r [E Hb]]]]; subst; unfold disc_reason, disc_reason_gen, decode_reasons, index_res, rlp_list_head;
    cbn [repeat nth_error]; [reflexivity|].
  destruct Hb as [Hb|Hb].
  - destruct (b <? 192) eqn:E; [reflexivity|lia].
  - subst b. replace (192 <? 192) with false by reflexivity. replace (192 <? 248) with true by reflexivity.
    replace (192 - 192) with 0 by reflexivity.
    destruct (limited && (blen r <? 0)); [reflexivity|]. unfold rlp_uint_elem. reflexivity.
Qed.

(* ---- only a disconnect message or a code outside every negotiated range ends the session of a running peer:
   handshake, ping, pong and the unused base codes never do, whatever their payload *)
Lemma react_closed_only_by limited plen code p s : react limited plen code p = RClosed s ->
  code = DiscMsg \/ BaseProtocolLength + plen <= code.
Proof.
  unfold react, handle_base, base_handle_gen. destruct (disc_reason_total limited p) as [r Hr]. fold disc_reason. rewrite Hr.
  destruct (code =? PingMsg) eqn:E1; [discriminate|]. destruct (code =? DiscMsg) eqn:E2; [intros _; left; lia|].
  destruct (code <? BaseProtocolLength) eqn:E3; [discriminate|].
  destruct (code <? BaseProtocolLength + plen) eqn:E4; [discriminate|]. intros _. right. lia.
Qed.
Lemma react_ping limited plen p : react limited plen PingMsg p = RPong.
Proof. reflexivity. Qed.
(* a code beyond the range closes without a word; a disconnect with reason r is answered with r unless r = DiscNetworkError *)
Lemma react_out_of_range limited plen code p : BaseProtocolLength + plen <= code -> 0 <= plen ->
  react limited plen code p = RClosed None.
Proof.
  intros H Hp. unfold react, handle_base, base_handle_gen, PingMsg, DiscMsg, BaseProtocolLength in *.
  destruct (code =? 2) eqn:E1; [lia|]. destruct (code =? 1) eqn:E2; [lia|].
  destruct (code <? 16) eqn:E3; [lia|]. destruct (code <? 16 + plen) eqn:E4; [lia|]. reflexivity.
Qed.

(* ---- a connection becomes a peer only through a well-formed handshake message *)
Lemma setup_added_iff limited size code p d v z im cm :
  setup_conn limited size code p d v z im cm = SAdded <->
  size <= BaseProtocolMaxMsgSize /\ code = HandshakeMsg /\ d = true /\ v = BaseProtocolVersion /\ z = false /\ im = true /\ cm = true.
Proof.
  unfold setup_conn, read_hs, read_hs_gen. destruct (disc_reason_total limited p) as [r Hr]. fold disc_reason. rewrite Hr.
  unfold BaseProtocolMaxMsgSize, DiscMsg, HandshakeMsg, BaseProtocolVersion.
  destruct (2048 <? size) eqn:E0; [split; [discriminate|lia]|].
  destruct (code =? 1) eqn:E1; [split; [discriminate|lia]|].
  destruct (code =? 0) eqn:E2; cbn [negb]; [|split; [discriminate|lia]].
  destruct d; cbn [negb]; [|split; [discriminate|intuition discriminate]].
  destruct (v =? 4) eqn:E3; cbn [negb]; [|split; [discriminate|lia]].
  destruct z; [split; [discriminate|intuition discriminate]|].
  destruct im; cbn [negb]; [|split; [discriminate|intuition discriminate]].
  destruct cm; cbn [negb]; [|split; [discriminate|intuition discriminate]].
  split; [intros _; repeat split; lia|reflexivity].
Qed.

(* the remote side is told the reason of every refusal that is a disconnect reason, except a network error *)
Lemma close_sends_none r : close_sends r = None <-> r = DiscNetworkError.
Proof. unfold close_sends. destruct (r =? DiscNetworkError) eqn:E; split; intros H; try discriminate; try reflexivity; lia. Qed.

(* Peer.run reports DiscRequested exactly when the remote side asked for the disconnect *)
Lemma reported_requested e : (forall r, e <> EProtoDisc r /\ e <> ELocal r) ->
  (reported_reason e = DiscRequested <-> exists r, e = EReadDisc r).
Proof.
  intros Hn. destruct e as [r| |r| | |r]; cbn [reported_reason close_reason];
    unfold DiscRequested, DiscNetworkError, DiscProtocolError, DiscSubprotocolError;
    try (split; [discriminate|intros [x Hx]; discriminate]).
  - split; [intros _; eexists; reflexivity|reflexivity].
  - destruct (Hn r) as [H _]. congruence.
  - destruct (Hn r) as [_ H]. congruence.
Qed.
