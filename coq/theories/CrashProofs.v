From ZV Require Import Prelude.
From stdpp Require Import gmap.
From ZV Require Import Store StoreSpec StoreProofs StoreTheorems Crash.
Open Scope Z_scope.

Lemma add_writes_atomic m prev cid data p k :
  (k <= length (add_writes m prev cid data p))%nat ->
  crash_after m (add_writes m prev cid data p) k = durable m \/
  (exists m' ok, mgr_add m prev cid data p = ROk m' ok /\ crash_after m (add_writes m prev cid data p) k = durable m').
Proof.
  unfold add_writes. destruct (mgr_add m prev cid data p) as [m' ok|] eqn:E.
  - destruct (ident_eqb prev (frontier_id (m_front m))); cbn [length]; intros Hk.
    + destruct k as [|[|k]]; [by left| |cbn in Hk; lia]. right. by exists m', ok.
    + destruct k; [by left|cbn in Hk; lia].
  - cbn [length]. intros Hk. destruct k; [by left|lia].
Qed.

Lemma pop_writes_atomic m k :
  (k <= length (pop_writes m))%nat ->
  crash_after m (pop_writes m) k = durable m \/
  (exists m' ok, mgr_pop m = ROk m' ok /\ crash_after m (pop_writes m) k = durable m').
Proof.
  unfold pop_writes. destruct (mgr_pop m) as [m' ok|] eqn:E; cbn [length]; intros Hk.
  - destruct k as [|[|k]]; [by left| |lia]. right. by exists m', ok.
  - destruct k; [by left|lia].
Qed.

(* a restart keeps the invariant: the reopened store continues to refine the same specification chain *)
Lemma durable_inv m c : Inv m c -> Inv (durable m) c.
Proof.
  intros (? & ? & ? & ? & ?). repeat split; try done.
Qed.

Theorem restart_refines s a ops :
  Rel s a -> wf_ops (ASt (a_chain a) ∅) ops ->
  run (St (durable (s_mgr s)) ∅) ops = arun (ASt (a_chain a) ∅) ops.
Proof.
  intros [HI _] Hwf. apply run_refines; [|done]. split; [by apply durable_inv|].
  intros v. cbn. by rewrite !lookup_empty.
Qed.

(* every reachable store, every commit / rollback, every crash point: the reopened store refines the specification chain
   BEFORE the operation or the one AFTER it (so restart_refines applies to it) - never anything else *)
Lemma crash_in_commit_refines m c prev cid data p k :
  Inv m c -> wf_op c (OAdd prev cid data p) -> (k <= length (add_writes m prev cid data p))%nat ->
  Inv (crash_after m (add_writes m prev cid data p) k) c \/
  Inv (crash_after m (add_writes m prev cid data p) k)
      (CE cid (abs_apply (a_front c) (p ++ frontier_ops cid data)) (p ++ frontier_ops cid data) :: c).
Proof.
  intros HI Hwf Hk. destruct (add_writes_atomic m prev cid data p k Hk) as [->|(m' & ok & Hadd & ->)].
  - left. by apply durable_inv.
  - pose proof (mgr_add_spec m c prev cid data p HI Hwf) as H. rewrite Hadd in H.
    destruct (ident_eqb prev (a_front_id c)); destruct H as [_ H]; [right|left]; by apply durable_inv.
Qed.

Lemma crash_in_rollback_refines m c k :
  Inv m c -> c <> [] -> (k <= length (pop_writes m))%nat ->
  Inv (crash_after m (pop_writes m) k) c \/ Inv (crash_after m (pop_writes m) k) (tail c).
Proof.
  intros HI Hne Hk. destruct (pop_writes_atomic m k Hk) as [->|(m' & ok & Hpop & ->)].
  - left. by apply durable_inv.
  - pose proof (mgr_pop_spec m c HI Hne) as H. rewrite Hpop in H. destruct H as [_ H]. right. by apply durable_inv.
Qed.

(* crash during a commit, then re-deliver it: same chain as without the crash *)
Theorem redeliver_after_crash m c cid data p :
  Inv m c -> wf_op c (OAdd (a_front_id c) cid data p) ->
  exists m', mgr_add (durable m) (a_front_id c) cid data p = ROk m' true /\
             Inv m' (CE cid (abs_apply (a_front c) (p ++ frontier_ops cid data)) (p ++ frontier_ops cid data) :: c).
Proof.
  intros HI Hwf. pose proof (mgr_add_spec (durable m) c (a_front_id c) cid data p (durable_inv _ _ HI) Hwf) as H.
  destruct (mgr_add (durable m) (a_front_id c) cid data p) as [m' ok|]; [|done].
  unfold ident_eqb in H. rewrite bool_decide_true in H by done. destruct H as [-> H]. by exists m'.
Qed.

(* record of finding F8: with the separate puts of the pre-fix code a crash point exists at which the store is
   neither in the state before nor in the state after the commit *)
Definition f8_m : mgr := Mgr ∅ ∅ ∅ ∅.
Definition f8_cid : list Z * Z := ([7], 1).
Definition f8_patch : list pop := [PPut [5] [1]; PPut [6] [2]].
Lemma unbatched_refuted :
  exists k, (k <= length (add_writes_unbatched f8_m zero_id f8_cid [] f8_patch))%nat /\
    let st := crash_after f8_m (add_writes_unbatched f8_m zero_id f8_cid [] f8_patch) k in
    st <> durable f8_m /\
    (forall m' ok, mgr_add f8_m zero_id f8_cid [] f8_patch = ROk m' ok -> st <> durable m').
Proof.
  exists 3%nat. split; [vm_compute; lia|]. cbv zeta. split.
  - intros Heq. apply (f_equal (fun m => m_redo m !! 1)) in Heq. vm_compute in Heq. discriminate.
  - intros m' ok H Heq. apply (f_equal (fun m => m_front m !! [6])) in Heq.
    assert (Hm : mgr_add f8_m zero_id f8_cid [] f8_patch = ROk (match mgr_add f8_m zero_id f8_cid [] f8_patch with ROk x _ => x | RPanic => f8_m end) true)
      by (vm_compute; reflexivity).
    rewrite Hm in H. injection H as <- _. vm_compute in Heq. discriminate.
Qed.

Example crash_point_model : crash_point_run (1, 0, false) = 0 /\ crash_point_run (1, 1, false) = 1 /\ crash_point_run (1, 0, true) = 0.
Proof. repeat split. Qed.
