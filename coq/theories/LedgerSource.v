(* C01 — the balance arithmetic of the ledger model IS the code: vm.enoughFunds (vm/vm.go) and
   accountVmContext.AddBalance / SubBalance (vm/vm_context/balance.go), translated from /repo's source by go2coq on every
   run (gen/PureFunds.v). Inputs of the translations: the balance read from the account store (GetBalance) and the
   results of the store calls; the value handed to SetBalance is an OUTPUT of the translation (captured argument). *)
From ZV Require Import Prelude GoSem Ledger LedgerProofs.
From ZV.gen Require Import Consts Pure PureFunds.
Open Scope Z_scope.

Lemma enough_funds_num z b v : enoughFunds z b 0 v = GoSem.Ok (if z =? 0 then true else v <=? b).
Proof.
  unfold enoughFunds, ZeroTokenStandard.
  destruct (z =? 0); [reflexivity|]. change (0 =? 0) with true. cbn [guard].
  unfold zcmp.
  destruct (Z.ltb_spec b v) as [H|H].
  - assert (Hgt : (v <=? b) = false) by (apply Z.leb_gt; lia). rewrite Hgt. reflexivity.
  - assert (Hle : (v <=? b) = true) by (apply Z.leb_le; lia). rewrite Hle.
    destruct (b =? v); reflexivity.
Qed.

Lemma enough_funds_is_source s a z v :
  enoughFunds z (get_bal (a, z) (bal s)) 0 v = GoSem.Ok (enough_funds s a z v).
Proof. exact (enough_funds_num z (get_bal (a, z) (bal s)) v). Qed.

Lemma sub_balance_num v b : SubBalance v b 0 0 = if v <=? b then GoSem.Ok (Some (b - v)) else GoSem.Panic.
Proof.
  unfold SubBalance. cbv zeta. change (0 =? 0) with true. cbn [guard]. unfold zcmp.
  destruct (Z.ltb_spec b v) as [H|H].
  - assert (Hgt : (v <=? b) = false) by (apply Z.leb_gt; lia). rewrite Hgt. reflexivity.
  - assert (Hle : (v <=? b) = true) by (apply Z.leb_le; lia). rewrite Hle.
    destruct (b =? v); reflexivity.
Qed.

(* SubBalance: the new balance written by SetBalance is the model's, a shortfall is the panic *)
Lemma sub_balance_is_source s a z v :
  SubBalance v (get_bal (a, z) (bal s)) 0 0 =
  match sub_balance s a z v with
  | Some s' => GoSem.Ok (Some (get_bal (a, z) (bal s')))
  | None => GoSem.Panic
  end.
Proof.
  rewrite sub_balance_num. unfold sub_balance.
  destruct (v <=? get_bal (a, z) (bal s)); [|reflexivity].
  cbn [bal]. rewrite get_set_bal_same. reflexivity.
Qed.

Lemma add_balance_is_source s a z v :
  AddBalance v (get_bal (a, z) (bal s)) 0 0 = GoSem.Ok (Some (get_bal (a, z) (bal (add_balance s a z v)))).
Proof.
  unfold AddBalance, add_balance. cbv zeta. change (0 =? 0) with true. cbn [guard bal].
  rewrite get_set_bal_same. reflexivity.
Qed.

(* a failing store call is a panic (DealWithErr), never a silently wrong balance *)
Lemma balance_store_errors_panic v b e1 e2 :
  e1 <> 0 \/ e2 <> 0 ->
  (AddBalance v b e1 e2 = GoSem.Panic) /\ (SubBalance v b e1 e2 = GoSem.Panic \/ e1 = 0 /\ b < v).
Proof.
  intros H. unfold AddBalance, SubBalance. cbv zeta.
  destruct (e1 =? 0) eqn:E1; cbn [guard].
  - assert (e2 =? 0 = false) as -> by lia. split; [reflexivity|].
    destruct (0 <=? zcmp b v) eqn:Ec; [left; reflexivity|].
    right. split; [lia|]. unfold zcmp in Ec. destruct (b <? v) eqn:Eb; [lia|]. destruct (b =? v); discriminate.
  - split; [reflexivity|left; reflexivity].
Qed.
