(* C01 — the balance arithmetic of the ledger model IS the code: vm.enoughFunds (vm/vm.go) and
   accountVmContext.AddBalance / SubBalance (vm/vm_context/balance.go), translated from /repo's source by go2coq on every
   run (gen/PureFunds.v). Inputs of the translations: the balance read from the account store (GetBalance) and the
   results of the store calls; the value handed to SetBalance is an OUTPUT of the translation (captured argument). *)
From ZV Require Import Prelude GoSem Ledger LedgerProofs.
From ZV.gen Require Import Consts Pure PureFunds.
Open Scope Z_scope.

Lemma enough_funds_num z b v : enoughFunds z b 0 v = GoSem.Ok (if z =? 0 then true else v <=? b).
Proof.
  unfold enoughFunds, ZeroTokenStandard.
  destruct (z =? 0); [reflexivity|]. change (0 =? 0) with true. cbn [guard].
  unfold zcmp.
  destruct (Z.ltb_spec b v) as [H|H].
  - assert (Hgt : (v <=? b) = false) by (apply Z.leb_gt; lia). rewrite Hgt. reflexivity.
  - assert (Hle : (v <=? b) = true) by (apply Z.leb_le; lia). rewrite Hle.
    destruct (b =? v); reflexivity.
Qed.

Lemma enough_funds_is_source s a z v :
  enoughFunds z (get_bal (a, z) (bal s)) 0 v = GoSem.Ok (enough_funds s a z v).
Proof. exact (enough_funds_num z (get_bal (a, z) (bal s)) v). Qed.

Lemma sub_balance_num v b : SubBalance v b 0 0 = if v <=? b then GoSem.Ok (Some (b - v)) else GoSem.Panic.
Proof.
  unfold SubBalance. cbv zeta. change (0 =? 0) with true. cbn [guard]. unfold zcmp.
  destruct (Z.ltb_spec b v) as [H|H].
  - assert (Hgt : (v <=? b) = false) by (apply Z.leb_gt; lia). rewrite Hgt. reflexivity.
  - assert (Hle : (v <=? b) = true) by (apply Z.leb_le; lia). rewrite Hle.
    destruct (b =? v); reflexivity.
Qed.

(* SubBalance: the new balance written by SetBalance is the model's, a shortfall is the panic *)
Lemma sub_balance_is_source s a z v :
  SubBalance v (get_bal (a, z) (bal s)) 0 0 =
  match sub_balance s a z v with
  | Some s' => GoSem.Ok (Some (get_bal (a, z) (bal s')))
  | None => GoSem.Panic
  end.
Proof.
  rewrite sub_balance_num. unfold sub_balance.
  destruct (v <=? get_bal (a, z) (bal s)); [|reflexivity].
  cbn [bal]. rewrite get_set_bal_same. reflexivity.
Qed.

Lemma add_balance_is_source s a z v :
  AddBalance v (get_bal (a, z) (bal s)) 0 0 = GoSem.Ok (Some (get_bal (a, z) (bal (add_balance s a z v)))).
Proof.
  unfold AddBalance, add_balance. cbv zeta. change (0 =? 0) with true. cbn [guard bal].
  rewrite get_set_bal_same. reflexivity.
Qed.

(* a failing store call is a panic (DealWithErr), never a silently wrong balance *)
Lemma balance_store_errors_panic v b e1 e2 :
  e1 <> 0 \/ e2 <> 0 ->
  (AddBalance v b e1 e2 = GoSem.Panic) /\ (SubBalance v b e1 e2 = GoSem.Panic \/ e1 = 0 /\ b < v).
Proof.
  intros H. unfold AddBalance, SubBalance. cbv zeta.
  destruct (e1 =? 0) eqn:E1; cbn [guard].
  - assert (e2 =? 0 = false) as -> by lia. split; [reflexivity|].
    destruct (0 <=? zcmp b v) eqn:Ec; [left; reflexivity|].
    right. split; [lia|]. unfold zcmp in Ec. destruct (b <? v) eqn:Eb; [lia|]. destruct (b =? v); discriminate.
  - split; [reflexivity|left; reflexivity].
Qed.

(* vm.applySend / vm.applyReceive (vm/vm.go), translated whole: inputs are the verdicts of GetEmbeddedMethod and of the
   method's ValidateSendBlock, the balance read by enoughFunds, the verdicts of GetAccountBlockByHash / MarkAsReceived;
   the amount handed to SubBalance / AddBalance is an OUTPUT (captured argument, None = the call is not reached). *)
Theorem apply_send_debits gm vs z b amt eff :
  applySend gm vs z b 0 amt = GoSem.Ok (0, eff) ->
  eff = Some amt /\ (z = 0 \/ amt <= b) /\ (gm = Err_constants_ErrNotContractAddress \/ gm = 0 /\ vs = 0).
Proof.
  unfold applySend. cbv zeta. rewrite !enough_funds_num. cbn [bind].
  intros H.
  repeat match type of H with
         | context [if ?c then _ else _] => let E := fresh "E" in destruct c eqn:E
         end; try discriminate; inversion H; subst; try (exfalso; lia); split; try reflexivity; split.
  all: try (left; lia); try (right; lia); try (right; split; lia).
  all: destruct (Z.eqb_spec z 0); [left; assumption|right; lia].
Qed.

Theorem apply_send_refusal gm vs z b amt e eff :
  applySend gm vs z b 0 amt = GoSem.Ok (e, eff) -> e <> 0 -> eff = None.
Proof.
  unfold applySend. cbv zeta. rewrite !enough_funds_num. cbn [bind].
  intros H He.
  repeat match type of H with
         | context [if ?c then _ else _] => let E := fresh "E" in destruct c eqn:E
         end; try discriminate; inversion H; subst; try reflexivity; try (exfalso; lia); exfalso; apply He; reflexivity.
Qed.

(* an accepted send never makes the debit panic: the balance SubBalance then writes is b - amt *)
Theorem apply_send_then_debit gm vs z b amt eff :
  z <> 0 -> applySend gm vs z b 0 amt = GoSem.Ok (0, eff) -> SubBalance amt b 0 0 = GoSem.Ok (Some (b - amt)).
Proof.
  intros Hz H. apply apply_send_debits in H. destruct H as (_ & [Hz0|Hle] & _); [contradiction|].
  rewrite sub_balance_num. assert ((amt <=? b) = true) as -> by (apply Z.leb_le; exact Hle). reflexivity.
Qed.

Theorem apply_receive_credits g m amt eff :
  applyReceive g m amt = (0, eff) -> eff = Some amt /\ g = 0 /\ m = 0.
Proof.
  unfold applyReceive. cbv zeta. intros H.
  repeat match type of H with
         | context [if ?c then _ else _] => let E := fresh "E" in destruct c eqn:E
         end; inversion H; subst; try (exfalso; lia).
  all: try (split; [reflexivity|split; lia]).
Qed.

Theorem apply_receive_refusal g m amt e eff :
  applyReceive g m amt = (e, eff) -> e <> 0 -> eff = None.
Proof.
  unfold applyReceive. cbv zeta. intros H He.
  repeat match type of H with
         | context [if ?c then _ else _] => let E := fresh "E" in destruct c eqn:E
         end; inversion H; subst; try reflexivity; try (exfalso; lia); exfalso; apply He; reflexivity.
Qed.

(* the hand model's apply_send / user_receive (the steps of the C01 invariant) ARE the translated vm.applySend /
   vm.applyReceive: with the translation's inputs instantiated by what the model reads — the balance of the sender, the
   verdict of the embedded lookup / ValidateSendBlock — the source debits exactly where the model records the send, and
   the balance SubBalance writes is the model's new balance; the model's refusals are the source's errors, its E_PANIC is
   the panic of SubBalance (zero token standard with an uncovered amount). *)
Theorem apply_send_is_source s h from to z v gm vs :
  hash_used h s = false ->
  let b := get_bal (from, z) (bal s) in
  let vok := (gm =? Err_constants_ErrNotContractAddress) || ((gm =? 0) && (vs =? 0)) in
  match apply_send s h from to z v vok with
  | inl s' =>
      applySend gm vs z b 0 v = GoSem.Ok (0, Some v) /\
      SubBalance v b 0 0 = GoSem.Ok (Some (get_bal (from, z) (bal s')))
  | inr e =>
      if e =? E_METHOD then exists c, c <> 0 /\ applySend gm vs z b 0 v = GoSem.Ok (c, None)
      else if e =? E_INSUFFICIENT then applySend gm vs z b 0 v = GoSem.Ok (Err_constants_ErrInsufficientBalance, None)
      else applySend gm vs z b 0 v = GoSem.Ok (0, Some v) /\ SubBalance v b 0 0 = GoSem.Panic
  end.
Proof.
  intros Hh. cbv zeta. unfold apply_send. rewrite Hh.
  unfold applySend. cbv zeta. rewrite !enough_funds_num. cbn [bind]. rewrite sub_balance_num.
  unfold enough_funds, sub_balance, ZeroId. cbv zeta.
  destruct (Z.eqb_spec gm Err_constants_ErrNotContractAddress) as [Hn|Hn]; cbn [orb negb].
  - destruct (if z =? 0 then true else v <=? get_bal (from, z) (bal s)) eqn:Ef; cbn [negb].
    + destruct (v <=? get_bal (from, z) (bal s)) eqn:Ev.
      * unfold push_send; cbn [bal]. rewrite get_set_bal_same. split; reflexivity.
      * cbn. split; reflexivity.
    + cbn. reflexivity.
  - destruct (Z.eqb_spec gm 0) as [H0|H0]; cbn [andb negb].
    + destruct (Z.eqb_spec vs 0) as [Hv|Hv]; cbn [negb].
      * destruct (if z =? 0 then true else v <=? get_bal (from, z) (bal s)) eqn:Ef; cbn [negb].
        -- destruct (v <=? get_bal (from, z) (bal s)) eqn:Ev.
           ++ unfold push_send; cbn [bal]. rewrite get_set_bal_same. split; reflexivity.
           ++ cbn. split; reflexivity.
        -- cbn. reflexivity.
      * cbn. exists vs. split; [exact Hv|reflexivity].
    + cbn. exists gm. split; [exact H0|reflexivity].
Qed.

Theorem user_receive_is_source enf s a h s' :
  user_receive enf s a h = (s', ROk true) ->
  exists sd, find_send h (sends s) = Some sd /\
    applyReceive 0 0 (s_amt sd) = (0, Some (s_amt sd)) /\
    AddBalance (s_amt sd) (get_bal (a, s_zts sd) (bal s)) 0 0 = GoSem.Ok (Some (get_bal (a, s_zts sd) (bal s'))).
Proof.
  unfold user_receive. intros H.
  destruct (is_emb a); [discriminate|].
  destruct (find_send h (sends s)) as [sd|]; [|discriminate].
  repeat match type of H with
         | context [if ?c then _ else _] => destruct c; try discriminate
         end.
  inversion H; subst. exists sd. split; [reflexivity|]. split; [reflexivity|].
  unfold AddBalance, add_balance. cbv zeta. change (0 =? 0) with true. cbn [guard bal].
  rewrite get_set_bal_same. reflexivity.
Qed.
