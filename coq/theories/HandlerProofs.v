(* C15 — proofs about Handler.v and Frame.v *)
From ZV Require Import Prelude GoSem Paging PagingProofs Handler Frame.
From ZV.gen Require Import Consts.
From ZV.gen Require Pure.
Open Scope Z_scope.
Ltac Zify.zify_post_hook ::= Z.div_mod_to_equations.

(* ------------------------------------------------------------ the lower range of the momentum store *)
Definition lower_hashes (ht a : Z) : list Z :=
  zseq (Z.max 1 (ht + 1 - a)) (Z.to_nat (ht + 1 - Z.max 1 (ht + 1 - a))).

Lemma lower_hashes_length ht a : 1 <= ht -> 0 <= a -> Z.of_nat (length (lower_hashes ht a)) = Z.min a ht.
Proof. intros. unfold lower_hashes. rewrite zseq_length. lia. Qed.

Lemma map_mark_inside H a n : 1 <= a -> a + Z.of_nat n <= H + 1 ->
  map (fun i => if exists_at H i then i else 0) (zseq a n) = zseq a n.
Proof.
  revert a. induction n as [|n IH]; intros a H1 H2; [reflexivity|].
  rewrite zseq_S. cbn [map]. unfold exists_at at 1.
  replace ((1 <=? a) && (a <=? H)) with true by lia. f_equal. apply IH; lia.
Qed.

Lemma deref_all_some l : Forall (fun x => x <> 0) l -> deref_all (map (fun x => if x =? 0 then None else Some x) l) = Ok l.
Proof.
  induction 1 as [|x l Hx Hl IH]; [reflexivity|].
  cbn [map deref_all]. replace (x =? 0) with false by lia. rewrite IH. reflexivity.
Qed.

Lemma zseq_nonzero a n : 1 <= a -> Forall (fun x => x <> 0) (zseq a n).
Proof.
  intros Ha. apply Forall_forall. intros x Hin. unfold zseq in Hin. apply in_map_iff in Hin.
  destruct Hin as [k [Hk _]]. lia.
Qed.

Lemma store_lower_range H ht a : 1 <= ht <= H -> H < two63 -> 0 <= a < alloc_limit ->
  mom_store_range H ht false a = Some (lower_hashes ht a).
Proof.
  unfold alloc_limit, two63. intros Hht HH Ha. unfold mom_store_range. rewrite mom_range_eq. unfold mom_range_hand.
  rewrite (u64_small (ht + 1)) by (unfold two64; lia).
  assert (Hfrom : (if ht + 1 <=? a then 1 else u64 (ht + 1 - a)) = Z.max 1 (ht + 1 - a)).
  { destruct (ht + 1 <=? a) eqn:E; [lia|]. rewrite u64_small by (unfold two64; lia). lia. }
  rewrite Hfrom.
  rewrite u64_small by (unfold two64; lia).
  unfold alloc_limit. replace (2 ^ 40 <=? ht + 1 - Z.max 1 (ht + 1 - a)) with false by lia.
  rewrite map_mark_inside by lia. reflexivity.
Qed.

Lemma hashes_from_known nc H ht a : 1 <= ht <= H -> H < two63 -> 0 <= a < alloc_limit ->
  hashes_from_hash nc H (Some ht) a = Ok (lower_hashes ht a).
Proof.
  intros. unfold hashes_from_hash, momentums_by_hash. rewrite store_lower_range by assumption.
  cbn [bind]. apply deref_all_some. apply zseq_nonzero. lia.
Qed.

Lemma clamp_bounds limit x : 0 <= limit -> 0 <= x -> 0 <= clamp limit x <= limit /\ clamp limit x <= x.
Proof. intros. unfold clamp. destruct (limit <? x) eqn:E; lia. Qed.

Lemma by_height_some H x y : by_height H x = Some y -> y = x /\ 1 <= x <= H.
Proof. unfold by_height, exists_at. destruct ((1 <=? x) && (x <=? H)) eqn:E; intros Hy; inversion Hy; lia. Qed.
Lemma by_height_inside H x : 1 <= x <= H -> by_height H x = Some x.
Proof. intros. unfold by_height, exists_at. replace ((1 <=? x) && (x <=? H)) with true by lia. reflexivity. Qed.

(* ------------------------------------------------------------ GetBlocks *)
Lemma gather_blocks_spec bc H items : forall n bytes acc l tot,
  0 <= n -> Z.of_nat (length acc) = n -> n < MaxBlockFetch ->
  gather_blocks bc H items n bytes acc = OBlocks l tot -> Z.of_nat (length l) <= MaxBlockFetch.
Proof.
  unfold MaxBlockFetch. induction items as [|i items IH]; intros n bytes acc l tot Hn Hacc Hlt Hg; cbn [gather_blocks] in Hg.
  - assert (El : l = rev acc) by congruence. subst l. rewrite rev_length. lia.
  - destruct i as [h sz| |].
    + destruct (by_height H h) as [x|].
      * destruct (bc && (blocks_byte_limit <? bytes + sz)).
        -- assert (El : l = rev acc) by congruence. subst l. rewrite rev_length. lia.
        -- unfold MaxBlockFetch in Hg. destruct (128 <=? n + 1) eqn:E.
           ++ assert (El : l = rev (x :: acc)) by congruence. subst l. rewrite rev_length. cbn [length]. lia.
           ++ apply (IH (n + 1) (bytes + sz) (x :: acc) l tot); try lia. cbn [length]. lia. exact Hg.
      * apply (IH n bytes acc l tot); auto.
    + apply (IH n bytes acc l tot); auto.
    + discriminate.
Qed.

(* with the byte cap: the encoded sizes of the momentums of a reply sum up to at most the limit *)
Lemma gather_blocks_bytes H items : forall n bytes acc l tot,
  Forall (wf_item H) items -> 0 <= bytes <= blocks_byte_limit ->
  gather_blocks true H items n bytes acc = OBlocks l tot -> bytes <= tot <= blocks_byte_limit.
Proof.
  induction items as [|i items IH]; intros n bytes acc l tot Hwf Hb Hg; cbn [gather_blocks] in Hg.
  - inversion Hg; subst. lia.
  - inversion Hwf as [|? ? Hi Hwf']; subst. destruct i as [h sz| |].
    + cbn [wf_item] in Hi. destruct (by_height H h) as [x|].
      * cbn [andb] in Hg. destruct (blocks_byte_limit <? bytes + sz) eqn:E.
        -- inversion Hg; subst. lia.
        -- destruct (MaxBlockFetch <=? n + 1).
           ++ inversion Hg; subst. lia.
           ++ specialize (IH (n + 1) (bytes + sz) (x :: acc) l tot Hwf' ltac:(lia) Hg). lia.
      * apply (IH n bytes acc l tot); auto.
    + apply (IH n bytes acc l tot); auto.
    + discriminate.
Qed.

Lemma gather_blocks_no_panic bc H items : forall n bytes acc, gather_blocks bc H items n bytes acc <> OPanic.
Proof.
  induction items as [|i items IH]; intros n bytes acc; cbn [gather_blocks]; [discriminate|].
  destruct i as [h sz| |]; try apply IH; try discriminate.
  destruct (by_height H h); [|apply IH]. destruct (bc && _); [discriminate|]. destruct (MaxBlockFetch <=? n + 1); [discriminate|apply IH].
Qed.

Lemma gather_blocks_not_hashes bc H items : forall n bytes acc l, gather_blocks bc H items n bytes acc <> OHashes l.
Proof.
  induction items as [|i items IH]; intros n bytes acc l; cbn [gather_blocks]; [discriminate|].
  destruct i as [h sz| |]; try apply IH; try discriminate.
  destruct (by_height H h); [|apply IH]. destruct (bc && _); [discriminate|]. destruct (MaxBlockFetch <=? n + 1); [discriminate|apply IH].
Qed.

Lemma undecodable_cases code : undecodable code <> OPanic /\ (forall l, undecodable code <> OHashes l) /\ (forall l t, undecodable code <> OBlocks l t).
Proof.
  unfold undecodable.
  destruct (code =? StatusMsg); [repeat split; intros; discriminate|].
  destruct ((code =? GetBlockHashesMsg) || (code =? GetBlockHashesFromNumberMsg) || (code =? NewBlockMsg) || (code =? TxMsg)); [repeat split; intros; discriminate|].
  destruct ((code =? BlockHashesMsg) || (code =? NewBlockHashesMsg)); [repeat split; intros; discriminate|].
  destruct ((code =? GetBlocksMsg) || (code =? BlocksMsg)); repeat split; intros; discriminate.
Qed.

(* ------------------------------------------------------------ the number-based request, fixed code *)
Lemma from_number_outcome H number amount :
  1 <= H < two63 -> in_u64 number -> in_u64 amount ->
  exists l, handle H 0 (RGetHashesFromNumber number amount) = OHashes l /\ Z.of_nat (length l) <= MaxHashFetch.
Proof.
  unfold in_u64. intros HH Hn Ha. unfold handle, handle_gen.
  replace (ProtocolMaxMsgSize <? 0) with false by reflexivity.
  pose proof (clamp_bounds MaxHashFetch amount ltac:(unfold MaxHashFetch; lia) ltac:(lia)) as [Hc1 Hc2].
  set (a := clamp MaxHashFetch amount) in *. unfold MaxHashFetch in *.
  destruct (by_height H (u64 (number + a - 1))) as [l0|] eqn:Eb.
  - apply by_height_some in Eb. destruct Eb as [-> Hin].
    destruct (u64 (number + a - 1) <? number) eqn:E; [exists []; split; [reflexivity|cbn; lia]|].
    rewrite by_height_inside by lia.
    rewrite hashes_from_known by (unfold alloc_limit, two63 in *; lia).
    eexists; split; [reflexivity|]. rewrite rev_length, lower_hashes_length by lia. lia.
  - set (am := if u64 (H - number + 1) <? a then u64 (H - number + 1) else a).
    assert (Hu : 0 <= u64 (H - number + 1)) by (unfold u64, two64; lia).
    assert (Ham : 0 <= am <= 512) by (subst am; destruct (u64 (H - number + 1) <? a) eqn:E'; lia).
    destruct (H <? number) eqn:E; [exists []; split; [reflexivity|cbn; lia]|].
    rewrite by_height_inside by lia.
    rewrite hashes_from_known by (unfold alloc_limit, two63 in *; lia).
    eexists; split; [reflexivity|]. rewrite rev_length, lower_hashes_length by lia. lia.
Qed.

(* ------------------------------------------------------------ main statements *)
Lemma size_gate nc sh bc H size r : ProtocolMaxMsgSize < size -> handle_gen nc sh bc H size r = OErr ErrMsgTooLarge.
Proof. intros. unfold handle_gen. replace (ProtocolMaxMsgSize <? size) with true by lia. reflexivity. Qed.

Lemma handle_size_irrelevant H size r : size <= ProtocolMaxMsgSize -> handle H size r = handle H 0 r.
Proof.
  intros. unfold handle, handle_gen. replace (ProtocolMaxMsgSize <? size) with false by lia.
  replace (ProtocolMaxMsgSize <? 0) with false by reflexivity. reflexivity.
Qed.

Lemma get_hashes_outcome H h amount : 1 <= H < two63 -> in_u64 amount ->
  match h with Some ht => 1 <= ht <= H | None => True end ->
  exists l, handle H 0 (RGetHashes h amount) = OHashes l /\ Z.of_nat (length l) <= MaxHashFetch.
Proof.
  unfold in_u64. intros HH Ha Hh. unfold handle, handle_gen.
  replace (ProtocolMaxMsgSize <? 0) with false by reflexivity.
  pose proof (clamp_bounds MaxHashFetch amount ltac:(unfold MaxHashFetch; lia) ltac:(lia)) as [Hc1 Hc2].
  unfold MaxHashFetch in *.
  destruct h as [ht|].
  - rewrite hashes_from_known by (unfold alloc_limit, two63 in *; lia).
    eexists; split; [reflexivity|]. rewrite lower_hashes_length by lia. lia.
  - exists []. split; [reflexivity|cbn; lia].
Qed.

Lemma no_panic H size r : 1 <= H < two63 -> wf_req H r -> handle H size r <> OPanic.
Proof.
  intros HH Hwf.
  destruct (Z_lt_le_dec ProtocolMaxMsgSize size) as [Hbig|Hsmall].
  - unfold handle. rewrite size_gate by exact Hbig. discriminate.
  - rewrite handle_size_irrelevant by exact Hsmall.
    destruct r as [|h amount|number amount|items|code|code|code|own]; cbn [wf_req] in Hwf.
    + discriminate.
    + destruct Hwf as [Ha Hh]. destruct (get_hashes_outcome H h amount HH Ha Hh) as [l [-> _]]. discriminate.
    + destruct Hwf as [Hn Ha]. destruct (from_number_outcome H number amount HH Hn Ha) as [l [-> _]]. discriminate.
    + unfold handle, handle_gen. replace (ProtocolMaxMsgSize <? 0) with false by reflexivity. apply gather_blocks_no_panic.
    + discriminate.
    + discriminate.
    + unfold handle, handle_gen. replace (ProtocolMaxMsgSize <? 0) with false by reflexivity. apply undecodable_cases.
    + unfold handle, handle_gen. replace (ProtocolMaxMsgSize <? 0) with false by reflexivity.
      destruct (forallb (fun b => b) own); discriminate.
Qed.

Lemma hashes_bounded H size r l : 1 <= H < two63 -> wf_req H r -> handle H size r = OHashes l -> Z.of_nat (length l) <= MaxHashFetch.
Proof.
  intros HH Hwf Hh.
  destruct (Z_lt_le_dec ProtocolMaxMsgSize size) as [Hbig|Hsmall].
  - unfold handle in Hh. rewrite size_gate in Hh by exact Hbig. discriminate.
  - rewrite handle_size_irrelevant in Hh by exact Hsmall.
    destruct r as [|h amount|number amount|items|code|code|code|own]; cbn [wf_req] in Hwf; try discriminate.
    + destruct Hwf as [Ha Hx]. destruct (get_hashes_outcome H h amount HH Ha Hx) as [l' [E Hl]]. rewrite E in Hh. inversion Hh; subst. exact Hl.
    + destruct Hwf as [Hn Ha]. destruct (from_number_outcome H number amount HH Hn Ha) as [l' [E Hl]]. rewrite E in Hh. inversion Hh; subst. exact Hl.
    + unfold handle, handle_gen in Hh. replace (ProtocolMaxMsgSize <? 0) with false in Hh by reflexivity.
      exfalso. eapply gather_blocks_not_hashes. exact Hh.
    + unfold handle, handle_gen in Hh. replace (ProtocolMaxMsgSize <? 0) with false in Hh by reflexivity.
      exfalso. eapply (proj1 (proj2 (undecodable_cases code))). exact Hh.
    + unfold handle, handle_gen in Hh. replace (ProtocolMaxMsgSize <? 0) with false in Hh by reflexivity.
      destruct (forallb (fun b => b) own); discriminate.
Qed.

Lemma blocks_bounded H size r l tot : handle H size r = OBlocks l tot -> Z.of_nat (length l) <= MaxBlockFetch.
Proof.
  intros Hh. unfold handle, handle_gen in Hh.
  destruct (ProtocolMaxMsgSize <? size); [discriminate|].
  destruct r as [|h amount|number amount|items|code|code|code|own]; try discriminate.
  - destruct (hashes_from_hash true H h (clamp MaxHashFetch amount)); discriminate.
  - destruct (by_height H (u64 (number + clamp MaxHashFetch amount - 1))) as [l0|].
    + destruct (l0 <? number); [discriminate|]. destruct (hashes_from_hash true H (by_height H l0) (clamp MaxHashFetch amount)); discriminate.
    + destruct (H <? number); [discriminate|].
      destruct (hashes_from_hash true H (by_height H H) _); discriminate.
  - eapply (gather_blocks_spec true H items 0 0 []); try reflexivity; try (unfold MaxBlockFetch; lia). exact Hh.
  - exfalso. eapply (proj2 (proj2 (undecodable_cases code))). exact Hh.
  - destruct (forallb (fun b => b) own); discriminate.
Qed.

(* the 10 MiB clause for replies: the momentums of a blocks reply take at most ProtocolMaxMsgSize - 16 bytes, so the
   message (list header <= 9 bytes) stays within ProtocolMaxMsgSize *)
Lemma blocks_bytes_bounded H size r l tot : wf_req H r -> handle H size r = OBlocks l tot -> 0 <= tot <= ProtocolMaxMsgSize - 16.
Proof.
  intros Hwf Hh. unfold handle, handle_gen in Hh.
  destruct (ProtocolMaxMsgSize <? size); [discriminate|].
  destruct r as [|h amount|number amount|items|code|code|code|own]; try discriminate.
  - destruct (hashes_from_hash true H h (clamp MaxHashFetch amount)); discriminate.
  - destruct (by_height H (u64 (number + clamp MaxHashFetch amount - 1))) as [l0|].
    + destruct (l0 <? number); [discriminate|]. destruct (hashes_from_hash true H (by_height H l0) (clamp MaxHashFetch amount)); discriminate.
    + destruct (H <? number); [discriminate|].
      destruct (hashes_from_hash true H (by_height H H) _); discriminate.
  - cbn [wf_req] in Hwf. pose proof (gather_blocks_bytes H items 0 0 [] l tot Hwf ltac:(unfold blocks_byte_limit, ProtocolMaxMsgSize; lia) Hh) as Hb.
    unfold blocks_byte_limit in Hb. lia.
  - exfalso. eapply (proj2 (proj2 (undecodable_cases code))). exact Hh.
  - destruct (forallb (fun b => b) own); discriminate.
Qed.

(* what the hash-based request returns: the `amount` (capped) momentums ending at the named one, ascending *)
Lemma get_hashes_exact H ht amount : 1 <= ht <= H -> H < two63 -> in_u64 amount ->
  handle H 0 (RGetHashes (Some ht) amount) = OHashes (lower_hashes ht (clamp MaxHashFetch amount)).
Proof.
  unfold in_u64. intros Hht HH Ha. unfold handle, handle_gen.
  replace (ProtocolMaxMsgSize <? 0) with false by reflexivity.
  pose proof (clamp_bounds MaxHashFetch amount ltac:(unfold MaxHashFetch; lia) ltac:(lia)) as [Hc1 Hc2]. unfold MaxHashFetch in *.
  rewrite hashes_from_known by (unfold alloc_limit, two63 in *; lia). reflexivity.
Qed.

(* ------------------------------------------------------------ findings F2 / F3 (fixed in /repo) *)
Lemma unknown_hash_panic_refuted : exists H amount, 1 <= H /\ in_u64 amount /\ handle_gen false true true H 0 (RGetHashes None amount) = OPanic.
Proof. exists 5, 1. vm_compute. repeat split; congruence. Qed.

Lemma hashes_unbounded_refuted :
  exists H number amount l, in_u64 number /\ in_u64 amount /\
    handle_gen true false true H 0 (RGetHashesFromNumber number amount) = OHashes l /\ MaxHashFetch < Z.of_nat (length l).
Proof.
  exists 600, 0, 0. eexists. split; [vm_compute; split; congruence|]. split; [vm_compute; split; congruence|].
  split; [vm_compute; reflexivity|]. vm_compute. reflexivity.
Qed.

(* before fix 580df5c: the same heavy momentum requested 128 times *)
Lemma blocks_bytes_unbounded_refuted :
  exists H items l tot, Forall (wf_item H) items /\ handle_gen true true false H 0 (RGetBlocks items) = OBlocks l tot /\ ProtocolMaxMsgSize < tot.
Proof.
  exists 5, (repeat (IKnown 5 1679821) 128). eexists. eexists. split.
  - apply Forall_forall. intros x Hin. apply repeat_spec in Hin. subst x. cbn. lia.
  - split; [vm_compute; reflexivity|]. vm_compute. reflexivity.
Qed.

(* ------------------------------------------------------------ handshake *)
Lemma handshake_established code size d g n v :
  handshake code size d g n v = -1 <-> code = StatusMsg /\ size <= ProtocolMaxMsgSize /\ d = true /\ g = true /\ n = true /\ v = true.
Proof.
  unfold handshake, StatusMsg, ProtocolMaxMsgSize, ErrNoStatusMsg, ErrMsgTooLarge, ErrDecode, ErrGenesisBlockMismatch, ErrNetworkIdMismatch, ErrProtocolVersionMismatch.
  destruct (code =? 0) eqn:E1; cbn [negb]; [|split; [discriminate|lia]].
  destruct (10485760 <? size) eqn:E2; [split; [discriminate|lia]|].
  destruct d, g, n, v; cbn [negb]; split; try discriminate; try (intros [_ [_ [? [? [? ?]]]]]; discriminate); intros; repeat split; lia.
Qed.

(* ------------------------------------------------------------ frames *)
Lemma land_low_high lo hi k : 0 <= k -> 0 <= lo < 2 ^ k -> Z.land lo (hi * 2 ^ k) = 0.
Proof.
  intros Hk Hlo. apply Z.bits_inj'. intros n Hn. rewrite Z.land_spec, Z.bits_0.
  destruct (Z_lt_le_dec n k).
  - rewrite Z.mul_pow2_bits_low by lia. apply andb_false_r.
  - replace (Z.testbit lo n) with false; [reflexivity|].
    symmetry. destruct (Z.eq_dec lo 0) as [->|Hnz]; [apply Z.bits_0|].
    apply Z.bits_above_log2; [lia|]. apply Z.log2_lt_pow2; [lia|].
    apply Z.lt_le_trans with (2 ^ k); [lia|]. apply Z.pow_le_mono_r; lia.
Qed.
Lemma lor_add a b : Z.land a b = 0 -> Z.lor a b = a + b.
Proof. intros H. rewrite <- Z.lxor_lor by exact H. symmetry. apply Z.add_nocarry_lxor. exact H. Qed.

Lemma readInt24_range b0 b1 b2 r : 0 <= b0 < 256 -> 0 <= b1 < 256 -> 0 <= b2 < 256 ->
  readInt24 (b0 :: b1 :: b2 :: r) = Ok (b0 * 65536 + b1 * 256 + b2).
Proof.
  intros H0 H1 H2. unfold readInt24. cbn [nth]. unfold Pure.readInt24.
  assert (Hlen : 3 <= Z.of_nat (length (b0 :: b1 :: b2 :: r))) by (cbn [length]; lia).
  replace ((0 <=? 2) && (2 <? Z.of_nat (length (b0 :: b1 :: b2 :: r)))) with true by lia.
  replace ((0 <=? 1) && (1 <? Z.of_nat (length (b0 :: b1 :: b2 :: r)))) with true by lia.
  replace ((0 <=? 0) && (0 <? Z.of_nat (length (b0 :: b1 :: b2 :: r)))) with true by lia.
  cbn [guard]. f_equal.
  rewrite (wrapU_small 32 b2), (wrapU_small 32 b1), (wrapU_small 32 b0) by (change (2 ^ 32) with 4294967296; lia).
  rewrite !Z.shiftl_mul_pow2 by lia.
  rewrite (wrapU_small 32 (b1 * 2 ^ 8)) by (change (2 ^ 32) with 4294967296; change (2 ^ 8) with 256; lia).
  rewrite (wrapU_small 32 (b0 * 2 ^ 16)) by (change (2 ^ 32) with 4294967296; change (2 ^ 16) with 65536; lia).
  rewrite (lor_add b2) by (apply land_low_high; [lia|change (2 ^ 8) with 256; lia]).
  rewrite (wrapU_small 32 (b2 + b1 * 2 ^ 8)) by (change (2 ^ 32) with 4294967296; change (2 ^ 8) with 256; lia).
  rewrite lor_add by (apply land_low_high; [lia|change (2 ^ 8) with 256; change (2 ^ 16) with 65536; lia]).
  rewrite wrapU_small by (change (2 ^ 32) with 4294967296; change (2 ^ 8) with 256; change (2 ^ 16) with 65536; lia).
  change (2 ^ 8) with 256. change (2 ^ 16) with 65536. lia.
Qed.

Lemma rsize_spec fsize : 0 <= fsize < 16777216 ->
  fsize <= rsize fsize < fsize + 16 /\ rsize fsize mod 16 = 0 /\ rsize fsize <= 16777216.
Proof.
  intros H. unfold rsize. destruct (0 <? fsize mod 16) eqn:E.
  - rewrite (wrapU_small 32 (16 - fsize mod 16)) by (change (2 ^ 32) with 4294967296; lia).
    rewrite wrapU_small by (change (2 ^ 32) with 4294967296; lia). lia.
  - lia.
Qed.

Definition bytes_ok (l : list Z) : Prop := Forall (fun b => 0 <= b < 256) l.

Lemma frame_safe avail hmac_ok hdr fmac_ok code_ok :
  bytes_ok hdr -> length hdr = 16%nat ->
  let r := read_msg avail hmac_ok hdr fmac_ok code_ok in
  r <> FPanic /\
  (hmac_ok = false -> r = FShort \/ r = FBadHeaderMAC) /\
  (fmac_ok = false -> forall a f, r <> FMsg a f) /\
  (forall a f, r = FMsg a f -> 0 <= f <= a /\ a <= 16777216 /\ 32 + a + 16 <= avail /\ hmac_ok = true /\ fmac_ok = true /\ code_ok = true).
Proof.
  intros Hb Hl.
  destruct hdr as [|b0 [|b1 [|b2 rest]]]; try discriminate.
  inversion Hb as [|? ? H0 Hb1]; subst. inversion Hb1 as [|? ? H1 Hb2]; subst. inversion Hb2 as [|? ? H2 _]; subst.
  cbv zeta. unfold read_msg. rewrite readInt24_range by assumption.
  set (fs := b0 * 65536 + b1 * 256 + b2).
  assert (Hfs : 0 <= fs < 16777216) by (subst fs; lia).
  pose proof (rsize_spec fs Hfs) as [Hr1 [Hr2 Hr3]].
  destruct (avail <? 32) eqn:E0.
  { repeat split; try discriminate. intros; left; reflexivity. }
  destruct hmac_ok; cbn [negb].
  2:{ repeat split; try discriminate. intros; right; reflexivity. }
  destruct (avail <? 32 + rsize fs) eqn:E1.
  { repeat split; try discriminate. }
  destruct (avail <? 32 + rsize fs + 16) eqn:E2.
  { repeat split; try discriminate. }
  destruct fmac_ok; cbn [negb].
  2:{ repeat split; try discriminate. }
  replace ((0 <=? fs) && (fs <=? rsize fs)) with true by lia. cbn [negb].
  destruct code_ok; cbn [negb].
  2:{ repeat split; try discriminate. }
  repeat split; try discriminate; try (inversion H; subst; lia).
Qed.

Lemma packet_safe len hash_ok sig_ok ptype rlp_ok :
  let r := decode_packet len hash_ok sig_ok ptype rlp_ok in
  r <> PPanic /\
  (forall t, r = PReq t -> headSize + 1 <= len /\ hash_ok = true /\ sig_ok = true /\ rlp_ok = true /\ 1 <= t <= 4) /\
  (hash_ok = false -> r = PTooSmall \/ r = PBadHash) /\
  (sig_ok = false -> r = PTooSmall \/ r = PBadHash \/ r = PBadSig).
Proof.
  cbv zeta. unfold decode_packet, headSize, macSize, sigSize.
  destruct (len <? 32 + 65 + 1) eqn:E0.
  { repeat split; try discriminate; intros; left; reflexivity. }
  replace ((32 <=? len) && (32 <=? 32 + 65) && (32 + 65 <=? len)) with true by lia. cbn [negb].
  destruct hash_ok; cbn [negb].
  2:{ repeat split; try discriminate; intros; right; try left; reflexivity. }
  destruct sig_ok; cbn [negb].
  2:{ repeat split; try discriminate; intros; right; right; reflexivity. }
  replace (0 <? len - (32 + 65)) with true by lia. cbn [negb].
  destruct ((1 <=? ptype) && (ptype <=? 4)) eqn:Et; cbn [negb].
  2:{ repeat split; try discriminate. }
  replace (1 <=? len - (32 + 65)) with true by lia. cbn [negb].
  destruct rlp_ok; cbn [negb].
  2:{ repeat split; try discriminate. }
  repeat split; try discriminate; try (inversion H; subst; lia).
Qed.

(* only momentums that hash to the hash they state reach the downloader and the fetcher *)
Lemma forged_momentum_not_delivered H size own : handle H size (RBlocks own) = ONoReply -> Forall (fun b => b = true) own.
Proof.
  unfold handle, handle_gen. destruct (ProtocolMaxMsgSize <? size); [discriminate|].
  destruct (forallb (fun b => b) own) eqn:E; [|discriminate]. intros _.
  apply Forall_forall. intros b Hb. rewrite forallb_forall in E. exact (E b Hb).
Qed.
Lemma forged_momentum_is_protocol_error H size own : size <= ProtocolMaxMsgSize -> In false own ->
  handle H size (RBlocks own) = OErr ErrDecode.
Proof.
  intros Hs Hin. unfold handle, handle_gen. destruct (ProtocolMaxMsgSize <? size) eqn:E0; [lia|].
  destruct (forallb (fun b => b) own) eqn:E; [|reflexivity].
  rewrite forallb_forall in E. specialize (E false Hin). discriminate.
Qed.
(* record (fixed in /repo, d69e7b3): a momentum stating a requested hash over another height was delivered *)
Lemma forged_momentum_delivered_refuted : exists own, In false own /\ blocks_delivery_unchecked own = ONoReply.
Proof. exists [true; false]. split; [right; left; reflexivity|reflexivity]. Qed.
