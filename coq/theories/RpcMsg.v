(* The decision of the JSON-RPC server (rpc/server) for one document: json.go parseMessage / jsonCodec.readBatch,
   handler.go handleBatch / handleMsg / handleImmediate / handleCallMsg / handleCall, server.go serveSingleRequest
   (http) and client.go read / dispatch (stream transports: websocket, ipc, stdio, in-process).
   A document is abstracted to its class (what the decoder makes of the bytes), a message to the members that the
   handler looks at; the outcome is the list of reply documents or RpcPanic. Executable, compared with the real
   server on every run (TieC18.rpc_session). *)
From ZV Require Import Prelude.
Open Scope Z_scope.

(* the member "id": absent, a scalar (also null; tok identifies the text, 0 = null), an object / array *)
Inductive IdK := IdAbsent | IdVal (tok : Z) | IdBad.
Inductive Suffix := SfxNone | SfxSubscription | SfxSubscribe | SfxUnsubscribe.
(* what registry lookup + parsePositionalArguments give for (method, params): DAny = not known to the harness *)
Inductive Disp := DNotFound | DBadParams | DRun | DAny.
(* the member "method": empty (absent, "", null, not a string) or a name *)
Inductive MethodK := MEmpty | MName (s : Suffix) (d : Disp).
Record Msg := mkMsg { m_id : IdK; m_method : MethodK; m_params : bool; m_result : bool; m_error : bool }.
(* a JSON value in message position: null, another non-object, an object *)
Inductive Elem := ENull | ENonObj | EObj (m : Msg).
(* what decoding the next value of the input gives: a syntax error, an unexpected end, the end, a value *)
Inductive Doc := DocSyntax | DocTrunc | DocEmpty | DocSingle (e : Elem) | DocBatch (es : list Elem).
Inductive Transport := THttp | TStream.

Definition zero_msg : Msg := mkMsg IdAbsent MEmpty false false false.

(* error codes of errors.go *)
Definition code_parse : Z := -32700.
Definition code_invalid_request : Z := -32600.
Definition code_method_not_found : Z := -32601.
Definition code_invalid_params : Z := -32602.
Definition code_default : Z := -32000.
(* kind of a reply: 0 = result, a code = error, kind_ran = the callback ran (a result or the callback's error),
   kind_any = an answer to the call whose kind the harness cannot predict (argument types it does not know) *)
Definition kind_ran : Z := 1.
Definition kind_any : Z := 2.

Definition Reply := (Z * Z)%type.                 (* id token (0 = null), kind *)
Definition ReplyDoc := (bool * list Reply)%type.  (* batch?, replies *)
Inductive Outcome := RpcPanic | Replies (l : list ReplyDoc).

(* ---- json.go: parseMessage. A JSON null in message position leaves a nil *jsonrpcMessage (None); any other
   non-object is a type error that leaves the zero message; an object fills the members *)
Definition parse_elem (e : Elem) : option Msg :=
  match e with ENull => None | ENonObj => Some zero_msg | EObj m => Some m end.
(* readBatch: nil entries are replaced by the zero message *)
Definition fix_nil (o : option Msg) : option Msg := match o with None => Some zero_msg | s => s end.

(* ---- json.go predicates *)
Definition has_valid_id (m : Msg) : bool := match m_id m with IdVal _ => true | _ => false end.
Definition has_method (m : Msg) : bool := match m_method m with MEmpty => false | _ => true end.
Definition is_notification (m : Msg) : bool :=
  match m_id m with IdAbsent => has_method m | _ => false end.
Definition is_call (m : Msg) : bool := has_valid_id m && has_method m.
Definition is_response (m : Msg) : bool :=
  has_valid_id m && negb (has_method m) && negb (m_params m) && (m_result m || m_error m).
Definition id_tok (m : Msg) : Z := match m_id m with IdVal t => t | _ => 0 end.

(* ---- handler.go: handleImmediate: true = handled, nothing to answer *)
Definition handle_immediate (m : Msg) : bool :=
  if is_notification m then
    match m_method m with MName SfxSubscription _ => true | _ => false end
  else is_response m.

(* handleCall: the kind of the answer to a call *)
Definition call_kind (t : Transport) (m : Msg) : Z :=
  match m_method m with
  | MEmpty => code_invalid_request (* not reached *)
  | MName s d =>
    match s, t with
    | SfxSubscribe, THttp => code_default   (* ErrNotificationsUnsupported *)
    | _, _ =>
      match d with
      | DNotFound => code_method_not_found
      | DBadParams => code_invalid_params
      | DRun => kind_ran
      | DAny => kind_any
      end
    end
  end.

(* handleCallMsg: the answer to a message that was not handled immediately *)
Definition handle_call_msg (t : Transport) (m : Msg) : option Reply :=
  if is_notification m then None
  else if is_call m then Some (id_tok m, call_kind t m)
  else if has_valid_id m then Some (id_tok m, code_invalid_request)
  else Some (0, code_invalid_request).

(* a nil message is dereferenced by handleImmediate: RpcPanic *)
Fixpoint handle_elems (t : Transport) (ms : list (option Msg)) : option (list Reply) :=
  match ms with
  | [] => Some []
  | None :: _ => None
  | Some m :: r =>
    match handle_elems t r with
    | None => None
    | Some rs =>
      if handle_immediate m then Some rs
      else match handle_call_msg t m with Some a => Some (a :: rs) | None => Some rs end
    end
  end.

(* handleBatch / handleMsg after readBatch *)
Definition handle_value (fixnil : bool) (t : Transport) (batch : bool) (es : list Elem) : Outcome :=
  let ms := map parse_elem es in
  let ms := if fixnil then map fix_nil ms else ms in
  if batch && match es with [] => true | _ => false end
  then Replies [(false, [(0, code_invalid_request)])]            (* "empty batch": one error object *)
  else match handle_elems t ms with
       | None => RpcPanic
       | Some [] => Replies []
       | Some rs => Replies [(batch, rs)]
       end.

(* one document: what is written, and whether the connection goes on *)
Definition handle_doc (fixnil : bool) (t : Transport) (d : Doc) : Outcome * bool :=
  match d with
  | DocSyntax => (Replies [(false, [(0, code_parse)])], false)   (* http: "parse error"; stream: parseError, close *)
  | DocTrunc => (match t with THttp => Replies [(false, [(0, code_parse)])] | TStream => Replies [] end, false)
  | DocEmpty => (Replies [], false)
  | DocSingle e => (handle_value fixnil t false [e], true)
  | DocBatch es => (handle_value fixnil t true es, true)
  end.

(* the documents of a connection in order (http: one) *)
Fixpoint handle_session_gen (fixnil : bool) (t : Transport) (ds : list Doc) : Outcome :=
  match ds with
  | [] => Replies []
  | d :: r =>
    match handle_doc fixnil t d with
    | (RpcPanic, _) => RpcPanic
    | (Replies a, go) =>
      if go then match t with
                 | THttp => Replies a
                 | TStream => match handle_session_gen fixnil t r with RpcPanic => RpcPanic | Replies b => Replies (a ++ b) end
                 end
      else Replies a
    end
  end.

(* the server as it is: readBatch replaces nil messages *)
Definition handle_session := handle_session_gen true.
(* the same without the replacement in readBatch (record of what the replacement is for) *)
Definition handle_session_nofix := handle_session_gen false.

(* ---- what JSON-RPC asks for: which elements have to be answered, and with which id *)
Definition msg_of (e : Elem) : Msg := match e with EObj m => m | _ => zero_msg end.
Definition needs_reply (e : Elem) : bool :=
  let m := msg_of e in negb (is_notification m) && negb (is_response m).
Definition reply_id (e : Elem) : Z := id_tok (msg_of e).

(* ---- the size gate in front of the decoder: http.go validateRequest (the declared Content-Length against
   maxRequestContentLength) + newHTTPServerConn (io.LimitReader(r.Body, maxRequestContentLength) in front of the JSON
   decoder), websocket.go newWebsocketCodec (conn.SetReadLimit(wsMessageSizeLimit): the declared lengths of the frames of
   one message are added up and the frame that takes the sum over the limit is refused when its header is read).
   A request is abstracted to `need` = the number of bytes up to the end of its first JSON value (what a reader has
   to consume to decode it), the `n` bytes that are really sent, and the framing. The bounds are written down here (and
   in the harness), not read from the code: a bound that moves is a finding. *)
Definition http_body_limit : Z := 5242880.     (* 5 MiB *)
Definition ws_message_limit : Z := 15728640.   (* 15 MiB *)

(* http: a Content-Length d (net/http hands exactly min d n bytes to the handler), or no declared length (chunked
   transfer encoding, which also overrides a Content-Length sent beside it) *)
Inductive Framing := FDeclared (d : Z) | FUndeclared.
(* refused on the declared length (413 / close, nothing is read) | no complete document within what is read ("parse
   error" or silence, nothing runs) | the document is decoded and handed to the handler (a valid call runs) *)
Inductive Gate := GRefused | GNoDocument | GDecoded.

(* body_limited = the LimitReader is in place *)
Definition http_gate_gen (body_limited : bool) (limit need n : Z) (f : Framing) : Gate :=
  match f with
  | FDeclared d =>
    if limit <? d then GRefused
    else let avail := Z.min d n in
         let avail := if body_limited then Z.min avail limit else avail in
         if need <=? avail then GDecoded else GNoDocument
  | FUndeclared =>
    let avail := if body_limited then Z.min n limit else n in
    if need <=? avail then GDecoded else GNoDocument
  end.
Definition http_gate := http_gate_gen true.
(* the same without the reader in front of the decoder: only the declared length is looked at *)
Definition http_gate_unlimited_body := http_gate_gen false.

(* websocket: the frames of one message in order (declared payload lengths; the harness sends what it declares) *)
Fixpoint ws_gate_from (limit need cum : Z) (frames : list Z) : Gate :=
  match frames with
  | [] => GNoDocument
  | f :: r =>
    if limit <? cum + f then GRefused
    else if need <=? cum + f then GDecoded
    else ws_gate_from limit need (cum + f) r
  end.
Definition ws_gate (limit need : Z) (frames : list Z) : Gate := ws_gate_from limit need 0 frames.

Inductive GateIn := GHttp (need n : Z) (f : Framing) | GWs (need : Z) (frames : list Z).
Definition gate_class (g : Gate) : Z := match g with GRefused => 0 | GNoDocument => 1 | GDecoded => 2 end.
Definition size_gate (i : GateIn) : Gate :=
  match i with
  | GHttp need n f => http_gate http_body_limit need n f
  | GWs need frames => ws_gate ws_message_limit need frames
  end.
