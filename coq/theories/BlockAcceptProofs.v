(* Proofs about BlockAccept.v: which fields outside the hash acceptance pins, and which it does not. *)
From ZV Require Import Prelude PoWProofs Block BlockProofs CodecPb CodecPbProofs BlockAccept.
Open Scope Z_scope.
Ltac Zify.zify_post_hook ::= Z.div_mod_to_equations.

(* hash injectivity only on the inputs that occur in a statement *)
Definition collision_free (H : bytes -> bytes) (l : list bytes) : Prop :=
  forall a b, In a l -> In b l -> H a = H b -> a = b.
Definition inputs_of (H : bytes -> bytes) (x : AB) : list bytes :=
  [ab_preimage H x; desc_source x; ab_data (body x)].

Lemma collision_free_incl H l l' : incl l' l -> collision_free H l -> collision_free H l'.
Proof. intros Hi Hc a b Ha Hb. apply Hc; apply Hi; auto. Qed.

Lemma covered_set_changes b ds ch : ab_covered (ABNode (set_changes b ch) ds) = ab_covered (ABNode b ds).
Proof. reflexivity. Qed.
Lemma covered_set_plasma b ds base total : ab_covered (ABNode (set_plasma b base total) ds) = ab_covered (ABNode b ds).
Proof. reflexivity. Qed.
Lemma preimage_set_changes H b ds ch : ab_preimage H (ABNode (set_changes b ch) ds) = ab_preimage H (ABNode b ds).
Proof. reflexivity. Qed.
Lemma preimage_set_plasma H b ds base total : ab_preimage H (ABNode (set_plasma b base total) ds) = ab_preimage H (ABNode b ds).
Proof. reflexivity. Qed.

Section AcceptProofs.
  Variable H : bytes -> bytes.
  Hypothesis H_len : forall x, length (H x) = 32%nat.
  Variable verify : bytes -> bytes -> bytes -> bool.
  Variable pk_addr : bytes -> bytes.
  Variable ctx_plasma : ABCovered -> option (Z * Z).
  Variable ctx_rest : ABCovered -> bool.
  Variable ctx_patch : ABCovered -> list (bytes * bytes).
  Variable desc_rest : ABCovered -> bool.

  Notation accept_user := (accept_user H verify pk_addr ctx_plasma ctx_rest).
  Notation accept_user_tx := (accept_user_tx H verify pk_addr ctx_plasma ctx_rest ctx_patch).
  Notation accept_cr := (accept_cr H desc_rest).
  Notation accept_cr_nofix := (accept_cr_nofix H desc_rest).

  Lemma hash_ok_eq x : hash_ok H x = true -> ab_hash (body x) = H (ab_preimage H x).
  Proof.
    unfold hash_ok. rewrite andb_true_iff. intros [_ E]. apply bytes_eqb_eq in E. symmetry. exact E.
  Qed.

  Lemma accept_user_inv x s : accept_user x = Some s ->
    hash_ok H x = true /\ desc x = [] /\
    verify (ab_pk (body x)) (ab_hash (body x)) (ab_sig (body x)) = true /\
    pk_addr (ab_pk (body x)) = ab_addr (body x) /\
    exists total base, ctx_plasma (ab_covered x) = Some (total, base) /\
                       s = ABNode (set_plasma (body x) base total) [].
  Proof.
    unfold BlockAccept.accept_user, accept_user_obs.
    destruct (hash_ok H x) eqn:Eh; cbn [negb]; [|discriminate].
    destruct (is_nil (ab_sig (body x)) || is_nil (ab_pk (body x))); [discriminate|].
    destruct (Nat.eqb (length (ab_pk (body x))) 32); cbn [negb]; [|discriminate].
    destruct (verify _ _ _) eqn:Ev; cbn [negb]; [|discriminate].
    destruct (bytes_eqb _ _) eqn:Ea; cbn [negb]; [|discriminate].
    destruct (desc x) eqn:Ed; cbn [is_nil negb]; [|discriminate].
    destruct (ctx_rest _); cbn [negb]; [|discriminate].
    destruct (ctx_plasma _) as [[total base]|] eqn:Ep; [|discriminate].
    intros E. injection E as <-. apply bytes_eqb_eq in Ea.
    repeat split; auto. exists total, base. auto.
  Qed.

  (* BasePlasma / TotalPlasma of the stored block are functions of covered fields and context;
     everything else of the stored block is what was delivered *)
  Theorem recomputed_fields x s : accept_user x = Some s ->
    exists total base, ctx_plasma (ab_covered x) = Some (total, base) /\
      ab_base (body s) = base /\ ab_total (body s) = total /\
      s = ABNode (set_plasma (body x) base total) [].
  Proof.
    intros Ha. apply accept_user_inv in Ha as (_ & _ & _ & _ & total & base & Ep & ->).
    exists total, base. cbn. auto.
  Qed.

  Lemma covered_fields_eq x y : ab_covered x = ab_covered y -> ab_hash (body x) = ab_hash (body y) ->
    ab_uncovered x = ab_uncovered y -> body x = body y.
  Proof.
    unfold ab_covered, ab_uncovered. intros Ec Eh Eu.
    destruct x as [[] dx], y as [[] dy]; cbn in *. injection Ec; injection Eu; intros; subst. reflexivity.
  Qed.

  (* same hash, both accepted, same (ChangesHash, PublicKey, Signature): same stored block, patch and bytes *)
  Theorem effect_pinned x1 x2 s1 p1 w1 s2 p2 w2 :
    accept_user_tx x1 = Some (s1, p1, w1) -> accept_user_tx x2 = Some (s2, p2, w2) ->
    ab_wf x1 -> ab_wf x2 ->
    collision_free H (inputs_of H x1 ++ inputs_of H x2) ->
    ab_hash (body x1) = ab_hash (body x2) ->
    ab_changes (body x1) = ab_changes (body x2) -> ab_pk (body x1) = ab_pk (body x2) ->
    ab_sig (body x1) = ab_sig (body x2) ->
    s1 = s2 /\ p1 = p2 /\ w1 = w2.
  Proof.
    unfold BlockAccept.accept_user_tx. intros A1 A2 W1 W2 Hcf Eh Ech Epk Esig.
    destruct (accept_user x1) as [t1|] eqn:E1; [|discriminate].
    destruct (accept_user x2) as [t2|] eqn:E2; [|discriminate].
    injection A1 as <- <- <-. injection A2 as <- <- <-.
    apply accept_user_inv in E1 as (Hh1 & Hd1 & _ & _ & total1 & base1 & Ep1 & ->).
    apply accept_user_inv in E2 as (Hh2 & Hd2 & _ & _ & total2 & base2 & Ep2 & ->).
    apply hash_ok_eq in Hh1, Hh2.
    assert (Ec : ab_covered x1 = ab_covered x2).
    { apply (ab_preimage_injective H H_len); auto.
      - intros E. apply Hcf; auto; unfold inputs_of; cbn; auto 10.
      - intros E. apply Hcf; auto; unfold inputs_of; cbn; auto 10.
      - apply Hcf; [unfold inputs_of; cbn; auto 10 | unfold inputs_of; cbn; auto 10 | congruence]. }
    rewrite Ec in Ep1. rewrite Ep1 in Ep2. injection Ep2 as <- <-.
    assert (Eb : set_plasma (body x1) base1 total1 = set_plasma (body x2) base1 total1).
    { clear - Ec Eh Ech Epk Esig. unfold ab_covered in Ec.
      destruct x1 as [[] d1], x2 as [[] d2]; cbn in *. injection Ec; intros; subst. reflexivity. }
    rewrite Eb, Ec. auto.
  Qed.

  (* F10: anyone can re-deliver an accepted user block with another ChangesHash: accepted, same hash,
     same patch, but the stored bytes differ *)
  Theorem changeshash_variant x s p w ch :
    accept_user_tx x = Some (s, p, w) -> pb_ok s ->
    blen 32 ch -> ch <> ab_changes (body x) ->
    let x' := ABNode (set_changes (body x) ch) (desc x) in
    exists s' w', accept_user_tx x' = Some (s', p, w') /\
                  ab_hash (body x') = ab_hash (body x) /\ w' <> w.
  Proof.
    intros A Hok Hch Hne x'. unfold BlockAccept.accept_user_tx in *.
    destruct (accept_user x) as [t|] eqn:E; [|discriminate]. injection A as <- <- <-.
    pose proof E as E0. apply accept_user_inv in E0 as (Hh & Hd & Hv & Ha & total & base & Ep & ->).
    assert (E' : accept_user x' = Some (ABNode (set_plasma (set_changes (body x) ch) base total) [])).
    { revert E. unfold BlockAccept.accept_user, accept_user_obs, hash_ok, ab_compute_hash. subst x'.
      destruct x as [b ds]. rewrite preimage_set_changes, covered_set_changes. cbn [body desc].
      cbn [set_changes ab_hash ab_sig ab_pk ab_addr]. rewrite Ep.
      destruct (negb (all_zero (ab_hash b)) && bytes_eqb (H (ab_preimage H (ABNode b ds))) (ab_hash b)); cbn [negb]; [|discriminate].
      destruct (is_nil (ab_sig b) || is_nil (ab_pk b)); [discriminate|].
      destruct (Nat.eqb (length (ab_pk b)) 32); cbn [negb]; [|discriminate].
      destruct (verify _ _ _); cbn [negb]; [|discriminate].
      destruct (bytes_eqb _ _); cbn [negb]; [|discriminate].
      destruct ds; cbn [is_nil negb]; [|discriminate].
      destruct (ctx_rest _); cbn [negb]; [|discriminate]. reflexivity. }
    rewrite E'. eexists _, _. split; [subst x'; destruct x; rewrite covered_set_changes; reflexivity|].
    split; [subst x'; destruct x; reflexivity|].
    intros Ew. apply serialize_ab_inj in Ew; auto.
    - injection Ew as Ew. congruence.
    - inversion Hok as [b' ds' Hb Hds Hsm]; subst. constructor; auto.
      destruct Hb. constructor; cbn; auto.
  Qed.

  (* ---------------------------------------------------------------- contract receive *)
  Lemma accept_cr_gen_inv fixed g x s : accept_cr_gen H desc_rest fixed (Some g) x = Some s ->
    s = x /\ ab_changes (body g) = ab_changes (body x) /\ H (ab_preimage H g) = ab_hash (body x) /\
    hash_ok H x = true /\ ab_pk (body x) = [] /\ ab_sig (body x) = [] /\
    forallb (desc_ok H desc_rest fixed) (desc x) = true.
  Proof.
    unfold accept_cr_gen.
    destruct (bytes_eqb (ab_changes (body g)) (ab_changes (body x))) eqn:E1; cbn [negb]; [|discriminate].
    destruct (bytes_eqb (ab_compute_hash H g) (ab_hash (body x))) eqn:E2; cbn [negb]; [|discriminate].
    destruct (hash_ok H x) eqn:E3; cbn [negb]; [|discriminate].
    destruct (ab_pk (body x)) eqn:E4; cbn [is_nil negb orb]; [|discriminate].
    destruct (ab_sig (body x)) eqn:E5; cbn [is_nil negb orb]; [|discriminate].
    destruct (forallb _ _) eqn:E6; cbn [negb]; [|discriminate].
    intros E. injection E as <-. apply bytes_eqb_eq in E1, E2. auto 10.
  Qed.

  Lemma map_covered_eq (xs gs : list AB) :
    map (fun d => ab_hash (body d)) xs = map (fun d => ab_hash (body d)) gs ->
    Forall (fun d => H (ab_preimage H d) = ab_hash (body d)) xs ->
    Forall (fun d => H (ab_preimage H d) = ab_hash (body d)) gs ->
    Forall ab_wf xs -> Forall ab_wf gs ->
    collision_free H (flat_map (inputs_of H) xs ++ flat_map (inputs_of H) gs) ->
    map ab_covered xs = map ab_covered gs.
  Proof.
    revert gs; induction xs as [|d xs IH]; intros [|e gs] Em Hx Hg Wx Wg Hcf; cbn in Em; try discriminate; auto.
    injection Em as Eh Em. inversion Hx; inversion Hg; inversion Wx; inversion Wg; subst. cbn [map]. f_equal.
    - apply (ab_preimage_injective H H_len); auto.
      + intros E. apply Hcf; auto; cbn; rewrite ?in_app_iff; cbn; auto 20.
      + intros E. apply Hcf; auto; cbn; rewrite ?in_app_iff; cbn; auto 20.
      + apply Hcf; [cbn; auto 20 | cbn; rewrite ?in_app_iff; cbn; auto 20 | congruence].
    - apply IH; auto. eapply collision_free_incl; [|exact Hcf].
      intros a Ha. cbn. rewrite !in_app_iff in *. cbn. destruct Ha as [Ha|Ha]; auto 20.
  Qed.

  (* after fix 3d79e01: an accepted contract receive equals the regenerated block on every covered field,
     and so does each of its descendants *)
  Theorem contract_receive_pinned g x s :
    accept_cr (Some g) x = Some s ->
    ab_wf x -> ab_wf g -> Forall ab_wf (desc x) -> Forall ab_wf (desc g) ->
    Forall (fun e => H (ab_preimage H e) = ab_hash (body e)) (desc g) ->
    collision_free H (inputs_of H x ++ inputs_of H g) ->
    collision_free H (flat_map (inputs_of H) (desc x) ++ flat_map (inputs_of H) (desc g)) ->
    s = x /\ ab_covered x = ab_covered g /\ ab_changes (body x) = ab_changes (body g) /\
    map ab_covered (desc x) = map ab_covered (desc g).
  Proof.
    intros A Wx Wg Wdx Wdg Hgen Hcf Hcfd.
    apply accept_cr_gen_inv in A as (-> & Ech & Ehg & Hh & _ & _ & Hd).
    apply hash_ok_eq in Hh.
    assert (Ec : ab_covered x = ab_covered g).
    { apply (ab_preimage_injective H H_len); auto.
      - intros E. apply Hcf; auto; unfold inputs_of; cbn; auto 10.
      - intros E. apply Hcf; auto; unfold inputs_of; cbn; auto 10.
      - apply Hcf; [unfold inputs_of; cbn; auto 10 | unfold inputs_of; cbn; auto 10 | congruence]. }
    repeat split; auto.
    apply map_covered_eq; auto.
    - apply (f_equal cv_desc) in Ec. exact Ec.
    - rewrite forallb_forall in Hd. apply Forall_forall. intros d Hi. specialize (Hd d Hi).
      unfold desc_ok in Hd. rewrite andb_true_iff in Hd. destruct Hd as [Hd _]. apply bytes_eqb_eq in Hd. exact Hd.
  Qed.

  (* before the fix: ANY descendant with the same Hash field (that passes the per-descendant checks) was accepted *)
  Theorem descendant_forgery_nofix g d ds d' :
    accept_cr_nofix (Some g) g = Some g -> desc g = d :: ds ->
    ab_hash (body d') = ab_hash (body d) -> desc_rest (ab_covered d') = true ->
    accept_cr_nofix (Some g) (ABNode (body g) (d' :: ds)) = Some (ABNode (body g) (d' :: ds)).
  Proof.
    intros A Ed Eh Hr. apply accept_cr_gen_inv in A as (_ & _ & Ehg & Hh & Epk & Esig & Hd).
    unfold BlockAccept.accept_cr_nofix, accept_cr_gen. cbn [body desc].
    assert (Ep : ab_preimage H (ABNode (body g) (d' :: ds)) = ab_preimage H g).
    { destruct g as [bg dg]. cbn [desc] in Ed. subst dg. unfold ab_preimage, desc_source, desc_hashes. cbn [body desc map].
      rewrite Eh. reflexivity. }
    replace (bytes_eqb (ab_changes (body g)) (ab_changes (body g))) with true by (symmetry; apply bytes_eqb_eq; reflexivity).
    unfold ab_compute_hash. rewrite Ehg.
    replace (bytes_eqb (ab_hash (body g)) (ab_hash (body g))) with true by (symmetry; apply bytes_eqb_eq; reflexivity).
    cbn [negb].
    assert (Hh' : hash_ok H (ABNode (body g) (d' :: ds)) = true).
    { revert Hh. unfold hash_ok, ab_compute_hash. rewrite Ep. cbn [body]. auto. }
    rewrite Hh'. cbn [negb]. rewrite Epk, Esig. cbn [is_nil negb orb].
    rewrite Ed in Hd. cbn [forallb] in *. rewrite andb_true_iff in Hd. destruct Hd as [_ Hd]. rewrite Hd.
    unfold desc_ok. rewrite Hr. reflexivity.
  Qed.

  (* still open: the plasma fields of an accepted contract receive are not looked at *)
  Theorem contract_uncovered_variant g x base total :
    accept_cr (Some g) x = Some x -> pb_ok x ->
    is_u64 base -> is_u64 total -> (base, total) <> (ab_base (body x), ab_total (body x)) ->
    let x' := ABNode (set_plasma (body x) base total) (desc x) in
    accept_cr (Some g) x' = Some x' /\ ab_hash (body x') = ab_hash (body x) /\
    serialize_ab x' <> serialize_ab x.
  Proof.
    intros A Hok Hb Ht Hne x'. pose proof A as A0.
    apply accept_cr_gen_inv in A0 as (_ & Ech & Ehg & Hh & Epk & Esig & Hd).
    split; [|split].
    - unfold BlockAccept.accept_cr, accept_cr_gen. subst x'. destruct x as [b ds]. cbn [body desc] in *.
      unfold hash_ok, ab_compute_hash in *. rewrite preimage_set_plasma. cbn [body set_plasma ab_changes ab_hash ab_pk ab_sig] in *.
      rewrite Ech, Ehg.
      replace (bytes_eqb (ab_changes b) (ab_changes b)) with true by (symmetry; apply bytes_eqb_eq; reflexivity).
      replace (bytes_eqb (ab_hash b) (ab_hash b)) with true by (symmetry; apply bytes_eqb_eq; reflexivity).
      cbn [negb]. rewrite Hh. cbn [negb]. rewrite Epk, Esig. cbn [is_nil negb orb]. rewrite Hd. reflexivity.
    - subst x'. destruct x; reflexivity.
    - intros Ew. apply serialize_ab_inj in Ew; auto.
      + subst x'. destruct x as [b ds]. injection Ew as Ew. apply Hne.
        rewrite <- Ew. reflexivity.
      + inversion Hok as [b' ds' Hbo Hds Hsm]; subst. subst x'. constructor; auto.
        destruct Hbo. constructor; cbn; auto.
  Qed.
End AcceptProofs.
