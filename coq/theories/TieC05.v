(* Executable entry points compared with the implementation by ./check C05. *)
From ZV Require Import Prelude GoSem Election MomentumVerif.
From ZV.gen Require Import Consts.
Open Scope Z_scope.

Definition deleg_t := (bytes * Z * Z)%type.                 (* name, producing address, weight *)
Definition perm_entry := (Z * Z * list Z)%type.             (* seed, n, observed rand.Perm *)
Definition to_deleg (t : deleg_t) : deleg := let '(n, a, w) := t in mkD n a w.
Definition of_deleg (d : deleg) : deleg_t := (d_name d, d_addr d, d_weight d).
Definition deleg_t_eqb (a b : deleg_t) : bool := deleg_eqb (to_deleg a) (to_deleg b).

(* the observed permutation tables as the oracle function; a missing entry yields [] (-> EPanic downstream) *)
Fixpoint perm_tab (tab : list perm_entry) (seed : Z) (n : nat) : list nat :=
  match tab with
  | [] => []
  | (s, k, p) :: r => if (s =? seed) && (k =? Z.of_nat n) then map Z.to_nat p else perm_tab r seed n
  end.

(* ---- SelectProducers *)
Definition election_in := (Z * Z * Z * list deleg_t * list perm_entry)%type.   (* NodeCount, RandCount, height *)
Definition election_out := (Z * list deleg_t)%type.                            (* 0 ok / 1 panic / 2 no termination *)
Definition election_run (i : election_in) : election_out :=
  let '(nc, rc, h, ds, tab) := i in
  match select (perm_tab tab) (Z.to_nat nc) (Z.to_nat rc) (map to_deleg ds) h with
  | EOk l => (0, map of_deleg l)
  | EPanic => (1, [])
  | EFuel => (2, [])
  end.
Definition election_eqb (a b : election_out) : bool :=
  (fst a =? fst b) && list_eqb deleg_t_eqb (snd a) (snd b).

(* ---- ComputePillarDelegations *)
Definition delegations_in := (list (bytes * Z) * list (bytes * Z) * list (Z * Z))%type.
Definition delegations_run (i : delegations_in) : list deleg_t :=
  let '(pillars, dl, bal) := i in map of_deleg (compute_delegations pillars dl bal).
Definition delegations_eqb (a b : list deleg_t) : bool := list_eqb deleg_t_eqb a b.

(* ---- the ledger as the election sees it: momentums (hash, height, timestamp), delegations per height
        (run-length table: entry (h, ds) holds from height h up to the next entry) *)
Definition msum_t := (Z * Z * Z)%type.
Definition to_msum (t : msum_t) : msum := let '(h, n, ts) := t in mkM h n ts.
Fixpoint delegs_tab (tab : list (Z * list deleg_t)) (h : Z) : list deleg :=
  match tab with
  | [] => []
  | (from, ds) :: r =>
      match r with
      | (next, _) :: _ => if next <=? h then delegs_tab r h else map to_deleg ds
      | [] => map to_deleg ds
      end
  end.
Definition ledger_t := (list msum_t * list (Z * list deleg_t) * list perm_entry * Z)%type.   (* ..., genesis time *)

Definition nc_nat : nat := Z.to_nat ConsensusNodeCount.
Definition rc_nat : nat := Z.to_nat ConsensusRandCount.

(* ---- GetMomentumProducer *)
Definition producer_in := (ledger_t * Z)%type.
Definition producer_out := (Z * Z)%type.       (* class, address *)
Definition prod_code (r : prod_res) : producer_out :=
  match r with
  | PFound a => (0, a) | PBeforeGenesis => (1, 0) | PNoProof => (2, 0) | PNoSlot => (3, 0)
  | PElectionPanic => (4, 0) | PElectionFuel => (5, 0)
  end.
Definition producer_run (i : producer_in) : producer_out :=
  let '((chain, dt, tab, gen), ts) := i in
  prod_code (momentum_producer (perm_tab tab) nc_nat rc_nat ConsensusBlockTime gen (delegs_tab dt) (map to_msum chain) ts).
Definition producer_eqb (a b : producer_out) : bool := (fst a =? fst b) && (snd a =? snd b).

(* ---- ApplyMomentum (+ insertion) *)
Definition hdr_t := (Z * Z * Z)%type.
Definition pblock_t := (Z * Z * Z * Z * bool)%type.
Definition mom_t := (Z * Z * Z * Z * Z * Z * Z * Z * Z * Z * Z * list hdr_t)%type.
Definition to_mom (t : mom_t) : mom :=
  let '(v, c, h, p, n, ts, dl, ch, pk, sg, pr, ct) := t in
  mkMom v c h p n ts dl ch pk sg pr (map (fun x : hdr_t => let '(a, b, k) := x in mkH a b k) ct).
Definition vctx_t := (Z * Z * list pblock_t * list (Z * Z * Z) * exec_res * Z * bool)%type.
Definition to_vctx (chain : list msum_t) (t : vctx_t) : vctx :=
  let '(cid, now, pre, acct, ex, hash, sig) := t in
  mkCtx cid (map to_msum chain) now
        (map (fun x : pblock_t => let '(a, h, n, p, b) := x in mkPB a h n p b) pre)
        (map (fun x : Z * Z * Z => let '(a, h, n) := x in (a, (h, n))) acct)
        ex hash sig.
Definition apply_in := (ledger_t * vctx_t * mom_t)%type.
Definition apply_out := (Z * bool)%type.          (* error class, written to the chain *)
Definition apply_run (i : apply_in) : apply_out :=
  let '((chain, dt, tab, gen), c, m) := i in
  let cx := to_vctx chain c in
  let mm := to_mom m in
  (verr_code (apply_momentum (perm_tab tab) nc_nat rc_nat ConsensusBlockTime gen (delegs_tab dt) cx mm),
   accepted (perm_tab tab) nc_nat rc_nat ConsensusBlockTime gen (delegs_tab dt) cx mm).
Definition apply_eqb (a b : apply_out) : bool := (fst a =? fst b) && Bool.eqb (snd a) (snd b).

(* candidates dated at the wall clock are verified only (not inserted) *)
Definition apply_only_run (i : apply_in) : Z := fst (apply_run i).
