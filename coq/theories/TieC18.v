(* Executable entry points compared with the implementation by ./check C18. *)
From ZV Require Import Prelude GoSem Paging.
From ZV.gen Require Import Consts Pure.
Open Scope Z_scope.

Definition zlist_eqb : list Z -> list Z -> bool := list_eqb Z.eqb.

(* in: (limit, n, index, size); out: None = error reply, Some positions = the returned elements as positions in the
   ground-truth list; a model panic is rendered as an impossible position list *)
Definition paged_api_run (i : Z * Z * Z * Z) : option (list Z) :=
  let '(limit, n, index, size) := i in
  match paged_api limit n index size with AErr => None | APanic => Some [-99] | AList l => Some l end.
Definition paged_api_eqb : option (list Z) -> option (list Z) -> bool := option_eqb zlist_eqb.

Definition rpc_out_eqb (a b : Z * list Z * Z) : bool :=
  let '(e1, l1, c1) := a in let '(e2, l2, c2) := b in (e1 =? e2) && zlist_eqb l1 l2 && (c1 =? c2).
Definition acc_by_height_run (i : Z * Z * Z) := let '(h, height, count) := i in acc_by_height h height count.
Definition mom_by_height_run (i : Z * Z * Z) := let '(h, height, count) := i in mom_by_height h height count.
Definition acc_by_page_run (i : Z * Z * Z) := let '(h, index, size) := i in acc_by_page h index size.
Definition mom_by_page_run (i : Z * Z * Z) := let '(h, index, size) := i in mom_by_page h index size.

Definition mom_store_range_run (i : Z * Z * bool * Z) : option (list Z) :=
  let '(H, height, higher, count) := i in mom_store_range H height higher count.

(* in: (lastEpoch, index, size); out: epochs of the page *)
Definition epoch_page_run (i : Z * Z * Z) : list Z := let '(last, index, size) := i in epoch_page last index size.

Definition GetRange18_run (i : Z * Z * Z) : Z * Z := let '(a, b, c) := i in GetRange a b c.
Definition zz18_eqb (a b : Z * Z) : bool := (fst a =? fst b) && (snd a =? snd b).
