(* Executable entry points compared with the implementation by ./check C18. *)
From ZV Require Import Prelude GoSem Paging.
From ZV.gen Require Import Consts Pure.
Open Scope Z_scope.

Definition zlist_eqb : list Z -> list Z -> bool := list_eqb Z.eqb.

(* in: (limit, n, index, size); out: None = error reply, Some positions = the returned elements as positions in the
   ground-truth list; a model panic is rendered as an impossible position list *)
Definition paged_api_run (i : Z * Z * Z * Z) : option (list Z) :=
  let '(limit, n, index, size) := i in
  match paged_api limit n index size with AErr => None | APanic => Some [-99] | AList l => Some l end.
Definition paged_api_eqb : option (list Z) -> option (list Z) -> bool := option_eqb zlist_eqb.

Definition rpc_out_eqb (a b : Z * list Z * Z) : bool :=
  let '(e1, l1, c1) := a in let '(e2, l2, c2) := b in (e1 =? e2) && zlist_eqb l1 l2 && (c1 =? c2).
Definition acc_by_height_run (i : Z * Z * Z) := let '(h, height, count) := i in acc_by_height h height count.
Definition mom_by_height_run (i : Z * Z * Z) := let '(h, height, count) := i in mom_by_height h height count.
Definition acc_by_page_run (i : Z * Z * Z) := let '(h, index, size) := i in acc_by_page h index size.
Definition mom_by_page_run (i : Z * Z * Z) := let '(h, index, size) := i in mom_by_page h index size.

Definition mom_store_range_run (i : Z * Z * bool * Z) : option (list Z) :=
  let '(H, height, higher, count) := i in mom_store_range H height higher count.

(* in: (lastEpoch, index, size); out: epochs of the page *)
Definition epoch_page_run (i : Z * Z * Z) : list Z := let '(last, index, size) := i in epoch_page last index size.

Definition GetRange18_run (i : Z * Z * Z) : Z * Z := let '(a, b, c) := i in GetRange a b c.
Definition zz18_eqb (a b : Z * Z) : bool := (fst a =? fst b) && (snd a =? snd b).

(* ---- JSON-RPC server: documents of one connection -> reply documents (RpcMsg.v) *)
From ZV Require Import RpcMsg.
Definition rpc_session_run (i : Transport * list Doc) : list ReplyDoc :=
  match handle_session (fst i) (snd i) with
  | RpcPanic => [(true, [(-99, -99)])]      (* never equal to an observation *)
  | Replies l => l
  end.
(* expected vs observed reply: same id; kind_ran = a result or an error of the callback (not one of the server's
   own refusals), kind_any = any answer to the call *)
Definition reply_eqb (e o : Reply) : bool :=
  (fst e =? fst o) &&
  (if snd e =? kind_ran then negb (snd o =? code_parse) && negb (snd o =? code_invalid_request) &&
                              negb (snd o =? code_method_not_found) && negb (snd o =? code_invalid_params)
   else if snd e =? kind_any then negb (snd o =? code_parse) && negb (snd o =? code_invalid_request)
   else snd e =? snd o).
Definition replydoc_eqb (e o : ReplyDoc) : bool := Bool.eqb (fst e) (fst o) && list_eqb reply_eqb (snd e) (snd o).
(* calls of different documents run on their own goroutines: the reply documents of a connection are compared as a
   multiset *)
Fixpoint take_match (e : ReplyDoc) (seen os : list ReplyDoc) (k : list ReplyDoc -> bool) : bool :=
  match os with
  | [] => false
  | o :: r => (replydoc_eqb e o && k (rev_append seen r)) || take_match e (o :: seen) r k
  end.
Fixpoint perm_match (es os : list ReplyDoc) : bool :=
  match es with
  | [] => match os with [] => true | _ => false end
  | e :: r => take_match e [] os (perm_match r)
  end.
Definition rpc_session_eqb (model observed : list ReplyDoc) : bool := perm_match model observed.

(* ---- JSON text forms of the block fields (JsonText.v) *)
From ZV Require Import Dec JsonText.
Inductive JtPrint := PAmount (z : Z) | PU64 (z : Z) | PNonce (b : bytes) | PHash (b : bytes) | PAddr (b : bytes)
                   | PZts (b : bytes) | PData (b : bytes).
Definition jt_print_run (i : JtPrint) : bytes :=
  match i with
  | PAmount z => print_amount z
  | PU64 z => print_u64 z
  | PNonce b => print_nonce b
  | PHash b => print_hash b
  | PAddr b => print_address b
  | PZts b => print_zts b
  | PData b => print_data b
  end.
Inductive JtParse := JAmount (s : bytes) | JU64 (s : bytes) | JNonceNom (s : bytes) | JNonceApi (s : bytes)
                   | JHash (s : bytes) | JAddr (s : bytes) | JZts (s : bytes) | JData (j : BytesJson).
(* None = the unmarshaller refuses the block; amounts and uint64 as one-element lists *)
Definition jt_parse_run (i : JtParse) : option (list Z) :=
  match i with
  | JAmount s => Some [parse_amount s]
  | JU64 s => option_map (fun v => [v]) (parse_u64_field s)
  | JNonceNom s => parse_nonce_nom s
  | JNonceApi s => Some (parse_nonce_api s)
  | JHash s => parse_hash s
  | JAddr s => parse_address s
  | JZts s => parse_zts s
  | JData j => parse_data j
  end.
Definition jt_parse_eqb : option (list Z) -> option (list Z) -> bool := option_eqb zlist_eqb.

(* ---- the size gate in front of the decoder (RpcMsg.v): in = the request as (bytes up to the end of the document,
   bytes sent, framing) / (bytes up to the end of the document, frames); out = 0 refused on the declared length,
   1 no complete document (nothing runs), 2 decoded (the call runs: observed on the side-effect counter).
   Over websocket "refused" and "no complete document" look the same from outside (closed, nothing ran). *)
Definition size_gate_run (i : GateIn) : Z := gate_class (size_gate i).
Definition size_gate_eqb (model observed : Z) : bool :=
  (model =? observed) || ((model =? 1) && (observed =? 0)).
