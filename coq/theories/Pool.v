(* C14 — executable model of chain/account_pool.go for ONE account (accounts are independent: one db.Manager per
   address; the only coupling, rebuild's early return, is modelled by `rebuild` returning None).
   The manager (common/db memdbManager) is a chain of blocks on top of the stable (confirmed) account chain:
   confirmed blocks then pooled blocks, sh = number of confirmed blocks (height of the stable identifier).
   Mirrors: addAccountBlockTransaction (fast-forward / already inserted / canRollback / higherPriority / pop loop / Add),
   higherPriority (uint64 products with wrap), memdbManager.Add / Pop, InsertMomentum -> rebuild, DeleteMomentum,
   filterBlocksToCommit. Block hashes are numbers (the big-endian value of the 32 bytes: bytes.Compare = numeric order). *)
From ZV Require Import Prelude GoSem.
From ZV.gen Require Import Consts.
Open Scope Z_scope.

Record block := mkBlock { bhash : Z; bprev : Z; bheight : Z; btotal : Z; bbase : Z; bsend : bool (* BlockTypeContractSend *) }.

Definition ident := (Z * Z)%type. (* HashHeight *)
Definition ident_eqb (a b : ident) : bool := (fst a =? fst b) && (snd a =? snd b).
Definition id_of (b : block) : ident := (bhash b, bheight b).
Definition prev_of (b : block) : ident := (bprev b, u64 (bheight b - 1)).   (* Height - 1 in uint64 *)

(* rchain: the manager's blocks, NEWEST FIRST (head = frontier; Pop = tail); sh: how many of them (the oldest) are confirmed *)
Record acct := mkAcct { rchain : list block; sh : nat }.

Definition frontier_id (rc : list block) : ident := match rc with [] => (0, 0) | b :: _ => id_of b end.
(* store.ByHeight: the entry stored under that height *)
Definition by_height (rc : list block) (h : Z) : option block := find (fun b => bheight b =? h) rc.
Definition confirmed (a : acct) : list block := skipn (length (rchain a) - sh a) (rchain a).
Definition pooled (a : acct) : list block := firstn (length (rchain a) - sh a) (rchain a).
Definition stable_height (a : acct) : Z := snd (frontier_id (confirmed a)).

(* higherPriority(a, b): 0 = nil, 1 = ErrPlasmaRatioIsWorse, 2 = ErrHashTieBreak *)
Definition higher_priority (a b : block) : Z :=
  let x := u64 (btotal a * bbase b) in
  let y := u64 (btotal b * bbase a) in
  if x <? y then 1
  else if (x =? y) && (bhash b <=? bhash a) then 2      (* bytes.Compare(a.Hash, b.Hash) > -1 *)
  else 0.
Definition wins (a b : block) : Prop := higher_priority a b = 0.

Inductive result := ROk | RAlready | RErrOld | RErrNoPrev | RErrPrevMismatch | RErrRatio | RErrTieBreak | RErrPop | RPanic.

(* manager.Pop until the frontier is `target`; None = "can't rollback stable db".
   memdbManager.Pop removes one TRANSACTION: the frontier commit and the contract sends it carries (the sends directly
   below it that are above the stable version). The loop of addAccountBlockTransaction compares the manager's frontier
   with `target` only between two Pops, i.e. at transaction boundaries; mid = inside the transaction being popped. *)
Fixpoint pop_until (rc : list block) (n_stable : nat) (target : ident) (mid : bool) : option (list block) :=
  match rc with
  | [] => if ident_eqb (0, 0) target then Some [] else None
  | b :: r =>
      if mid && bsend b && (n_stable <? length rc)%nat then pop_until r n_stable target true
      else if ident_eqb (id_of b) target then Some rc
      else if (length rc <=? n_stable)%nat then None
      else pop_until r n_stable target true
  end.

(* a transaction: the descendant sends of a contract receive, oldest first, and the receive (any other block: no
   descendants). GetCommits = descs ++ [b]; Previous() = the previous of the first commit; Identifier() = the one of b *)
Definition tx_first (descs : list block) (b : block) : block := match descs with d :: _ => d | [] => b end.

(* canRollback, after the test against the stable identifier: the block named as previous. The first block of an
   account (height 1) has no previous block to look up: it must name the zero hash-height, the empty account-chain
   (fix 417e0a5; before it ByHeight(0) was looked up and every competitor for height 1 was refused "missing previous");
   any other block must name the block the frontier view has at height - 1. ROk = the rollback may go on *)
Definition prev_check (rc : list block) (b : block) (prev : ident) : result :=
  if bheight b =? 1 then (if ident_eqb prev (0, 0) then ROk else RErrPrevMismatch) else
  match by_height rc (u64 (bheight b - 1)) with
  | None => RErrNoPrev
  | Some p => if ident_eqb (id_of p) prev then ROk else RErrPrevMismatch
  end.
(* canRollback of the code before fix 417e0a5 *)
Definition prev_check_old (rc : list block) (b : block) (prev : ident) : result :=
  match by_height rc (u64 (bheight b - 1)) with
  | None => RErrNoPrev
  | Some p => if ident_eqb (id_of p) prev then ROk else RErrPrevMismatch
  end.

Definition add_tx_with (chk : list block -> block -> ident -> result) (force : bool) (a : acct) (descs : list block) (b : block) : acct * result :=
  let rc := rchain a in
  let prev := prev_of (tx_first descs b) in
  if ident_eqb prev (frontier_id rc) then (mkAcct (b :: rev descs ++ rc) (sh a), ROk)        (* fast-forward *)
  else
    match by_height rc (bheight b) with
    | Some t => if ident_eqb (id_of t) (id_of b) then (a, RAlready) else
        (* canRollback *)
        if bheight b <=? stable_height a then (a, RErrOld) else
        match chk rc b prev with
        | ROk =>
            let pr := higher_priority b t in
            if negb force && negb (pr =? 0) then (a, if pr =? 1 then RErrRatio else RErrTieBreak) else
            match pop_until rc (sh a) prev false with
            | None => (mkAcct (confirmed a) (sh a), RErrPop)    (* the manager is left at its stable version *)
            | Some rc' => (mkAcct (b :: rev descs ++ rc') (sh a), ROk)
            end
        | e => (a, e)
        end
    | None =>
        if bheight b <=? stable_height a then (a, RErrOld) else
        match chk rc b prev with
        | ROk => (a, RPanic)   (* higherPriority(block, nil) *)
        | e => (a, e)
        end
    end.
Definition add_tx := add_tx_with prev_check.
Definition add (force : bool) (a : acct) (b : block) : acct * result := add_tx force a [] b.

(* rebuild of one account after a momentum: new_stable = the new confirmed chain (newest first);
   uncommitted = the old manager's blocks above the new stable height, in ascending order, re-added on a fresh manager
   TRANSACTION by transaction: a contract's batch (its ContractSend descendants and the ContractReceive that carries
   them) is one transaction of the manager. The loop skips the contract sends (pend: the sends skipped since the last
   other block, newest first) and re-adds the block that closes the batch with its descendants: memdbManager.Add
   compares the previous of the FIRST commit of the transaction (the lowest send of the batch, or the block itself)
   with the manager's frontier. None = manager.Add refused ("previous doesn't match"): rebuild returns early.
   The descendants of a contract receive in a manager are the contract sends directly below it (Add inserts the
   commits of one transaction consecutively and a ContractSend only ever enters as a descendant). *)
Fixpoint readd (rc : list block) (pend : list block) (l : list block) : option (list block) :=
  match l with
  | [] => Some rc
  | b :: r =>
      if bsend b then readd rc (b :: pend) r
      else if ident_eqb (prev_of (last pend b)) (frontier_id rc) then readd (b :: pend ++ rc) [] r else None
  end.
Definition top_closed (rc : list block) : bool := match rc with [] => true | b :: _ => negb (bsend b) end.
Definition rebuild (new_stable : list block) (old : acct) : option acct :=
  let h := snd (frontier_id new_stable) in
  let uncommitted := filter (fun b => h <? bheight b) (rev (rchain old)) in
  (* a momentum that confirmed only a part of a batch: the transaction of the batch's receive starts below the new
     stable frontier, Add refuses it *)
  if negb (top_closed new_stable) && existsb (fun b => negb (bsend b)) uncommitted then None else
  match readd new_stable [] uncommitted with
  | Some rc => Some (mkAcct rc (length new_stable))
  | None => None
  end.

(* the run of contract sends on top of a chain *)
Fixpoint firstn_sends (rc : list block) : list block :=
  match rc with b :: r => if bsend b then b :: firstn_sends r else [] | [] => [] end.

(* the rebuild before the fix (84ffe66): every uncommitted block re-added as a transaction of its own, the contract
   sends too; the receive of a batch then came with its descendants again and was refused. A contract receive is told
   from a block without descendants by the contract send below it. *)
Fixpoint readd_per_block (rc : list block) (l : list block) : option (list block) :=
  match l with
  | [] => Some rc
  | b :: r =>
      (* first commit of the block's transaction: the block itself, or the lowest of the sends it carries *)
      let first := if bsend b then b else last (firstn_sends rc) b in
      if ident_eqb (prev_of first) (frontier_id rc) then readd_per_block (b :: rc) r else None
  end.
Definition rebuild_per_block (new_stable : list block) (old : acct) : option acct :=
  let h := snd (frontier_id new_stable) in
  let uncommitted := filter (fun b => h <? bheight b) (rev (rchain old)) in
  match readd_per_block new_stable uncommitted with
  | Some rc => Some (mkAcct rc (length new_stable))
  | None => None
  end.

(* a momentum that confirms the next k pooled blocks of an account whose pooled chain consists of whole batches, and
   confirms whole batches (filter_to_commit below): neither the pooled chain nor the new confirmed chain ends with a
   contract send *)
Definition aligned (a : acct) (k : nat) : Prop :=
  top_closed (rchain a) = true /\ top_closed (skipn (length (rchain a) - (sh a + k)) (rchain a)) = true.

(* blocks (oldest first) that continue the chain whose frontier is `prev`: what the momentum verifier demands of the
   account blocks a momentum confirms *)
Fixpoint links_on (prev : ident) (l : list block) : bool :=
  match l with
  | [] => true
  | x :: r => ident_eqb (prev_of x) prev && (bheight x =? snd prev + 1) && links_on (id_of x) r
  end.

Inductive op := OAdd (force : bool) (b : block) | OMomentum (k : nat) | ODelete (j : nat)
  | OAddTx (force : bool) (descs : list block) (b : block) | OConfirm (newly : list block).

(* OMomentum k: a momentum whose content for this account is the next k pooled blocks (its patches are taken from the
   pool, so the content is always a prefix of the pooled chain); ODelete j: momentums are rolled back so that j blocks
   stay confirmed; the managers are dropped; OAddTx: a transaction of several commits (a contract receive with its
   descendant sends); OConfirm newly: a momentum that confirms `newly` on top of the confirmed blocks, whatever the pool
   holds at these heights (the pillar's own momentum inserted after the pool replaced blocks it was generated with; a
   momentum from sync when the pool is empty): the rebuild re-adds what the old manager has above the new stable height *)
Definition step (a : acct) (o : op) : acct * result :=
  match o with
  | OAdd force b => add force a b
  | OMomentum k =>
      if (length (rchain a) <? sh a + k)%nat then (a, ROk)
      else let ns := skipn (length (rchain a) - (sh a + k)) (rchain a) in
           match rebuild ns a with
           | Some a' => (a', ROk)
           | None => (mkAcct ns (sh a + k), RErrPop)
           end
  | ODelete j => if (sh a <? j)%nat then (a, ROk) else (mkAcct (skipn (length (rchain a) - j) (rchain a)) j, ROk)
  | OAddTx force descs b => add_tx force a descs b
  | OConfirm newly =>
      if links_on (frontier_id (confirmed a)) newly then
        let ns := rev newly ++ confirmed a in
        match rebuild ns a with
        | Some a' => (a', ROk)
        | None => (mkAcct ns (length ns), ROk)     (* logged; the account's manager is deleted *)
        end
      else (a, ROk)
  end.
Fixpoint run (a : acct) (ops : list op) : acct :=
  match ops with [] => a | o :: r => run (fst (step a o)) r end.

(* hash-linked chain with heights ..., 3, 2, 1 *)
Fixpoint linked (rc : list block) : Prop :=
  match rc with
  | [] => True
  | b :: r => prev_of b = frontier_id r /\ bheight b = snd (frontier_id r) + 1 /\ linked r
  end.
Definition wf (a : acct) : Prop := linked (rchain a) /\ (sh a <= length (rchain a))%nat.
(* the commits of one transaction name each other (oldest first) *)
Fixpoint tx_linked (l : list block) : Prop :=
  match l with
  | x :: r => match r with y :: _ => prev_of y = id_of x /\ bheight y = bheight x + 1 | [] => True end /\ tx_linked r
  | [] => True
  end.
Definition wf_tx (descs : list block) (b : block) : Prop :=
  in_u64 (bheight b) /\ in_u64 (bheight (tx_first descs b)) /\ tx_linked (descs ++ [b]).
Definition wf_op (o : op) : Prop :=
  match o with OAdd _ b => in_u64 (bheight b) | OAddTx _ descs b => wf_tx descs b | _ => True end.

(* filterBlocksToCommit *)
Fixpoint filter_loop (blocks : list block) (n_commit : Z) (batch : Z) : Z :=
  match blocks with
  | [] => n_commit
  | b :: r =>
      let batch := batch + 1 in
      if bsend b then filter_loop r n_commit batch
      else if MaxAccountBlocksInMomentum <? n_commit + batch then n_commit
      else filter_loop r (n_commit + batch) 0
  end.
Definition filter_to_commit (blocks : list block) : list block := firstn (Z.to_nat (filter_loop blocks 0 0)) blocks.
