(* Executable entry points compared with the implementation by ./check C14. *)
From ZV Require Import Prelude GoSem.
From ZV Require Export Pool.
From ZV.gen Require Import Consts.
Open Scope Z_scope.

Definition zl14_eqb : list Z -> list Z -> bool := list_eqb Z.eqb.

(* in: ((total, base, hash) of a, (total, base, hash) of b); out: 0 nil / 1 ratio worse / 2 tie-break *)
Definition higher_priority_run (i : (Z * Z * Z) * (Z * Z * Z)) : Z :=
  let '((ta, ba, ha), (tb, bb, hb)) := i in
  higher_priority (mkBlock ha 0 0 ta ba false) (mkBlock hb 0 0 tb bb false).

(* in: is-contract-send flags of the candidate list; out: number of blocks offered for the momentum *)
Definition filter_to_commit_run (l : list bool) : Z :=
  Z.of_nat (length (filter_to_commit (map (fun s => mkBlock 0 0 0 0 0 s) l))).

Definition result_code (r : result) : Z :=
  match r with
  | ROk | RAlready => 0 | RErrRatio => 1 | RErrTieBreak => 2
  | RErrOld | RErrNoPrev | RErrPrevMismatch | RErrPop => 3 | RPanic => 9
  end.
(* in: (account chain oldest first = confirmed ++ pooled, number of confirmed blocks, operation);
   out: (error class, hashes of the pool afterwards oldest first, number of confirmed blocks afterwards) *)
Definition pool_step_run (i : list block * Z * op) : Z * list Z * Z :=
  let '(c, n, o) := i in
  let '(a', r) := step (mkAcct (rev c) (Z.to_nat n)) o in
  (result_code r, map bhash (rev (pooled a')), Z.of_nat (sh a')).
Definition pool_step_eqb (a b : Z * list Z * Z) : bool :=
  let '(c1, l1, n1) := a in let '(c2, l2, n2) := b in (c1 =? c2) && zl14_eqb l1 l2 && (n1 =? n2).
