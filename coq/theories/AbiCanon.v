(* C13, last clause: "the call data of embedded-contract calls is stored in a single canonical encoding".

   Model of the canonical packer of go-zenon: vm/abi/pack.go (packNum / U256, packBytesSlice, packElement),
   vm/abi/type.go Type.pack (slices: element count, offsets of dynamic elements relative to the first offset word),
   vm/abi/argument.go Arguments.Pack (head words, offsets of the dynamic arguments, tails in argument order), for
   the types that occur in the embedded contracts (no fixed arrays, no bytesN);
   and of what every embedded method's ValidateSendBlock does with the call data of a user send
   (vm/embedded/implementation/*.go: `block.Data, err = ABIxxx.PackMethod(name, <what UnpackMethod decoded>)`)
   between the two hash checks of vm/supervisor.go applyBlock (verifier.AccountBlock before the VM runs,
   verifier.AccountBlockTransaction in packBlock after it).  The decoder is the model of Abi.v. *)
From ZV Require Import Prelude GoSem Abi Block BlockAccept.
Open Scope Z_scope.

(* pack.go U256: the low 256 bits, big endian (two's complement for a negative int64) *)
Definition word256 (z : Z) : bytes := be_bytes 32 (z mod 2 ^ 256).
(* common.RightPadBytes(c, (len+31)/32*32) *)
Definition rpad (c : bytes) : bytes := c ++ repeat 0 (Z.to_nat ((32 - len c mod 32) mod 32)).
(* common.LeftPadBytes(c, 32) *)
Definition lpad32 (c : bytes) : bytes := repeat 0 (32 - length c) ++ c.

(* heads and tails of a sequence of packed items; (true, p): p is the tail of a dynamic item and its head word is
   the offset of that tail, counted from the first head word; (false, p): p is the head itself *)
Fixpoint layout_go (items : list (bool * bytes)) (off : Z) : bytes * bytes :=
  match items with
  | [] => ([], [])
  | (true, p) :: r => let ht := layout_go r (off + len p) in (word256 off ++ fst ht, p ++ snd ht)
  | (false, p) :: r => let ht := layout_go r off in (p ++ fst ht, snd ht)
  end.
Definition layout (items : list (bool * bytes)) : bytes :=
  let ht := layout_go items (32 * Z.of_nat (length items)) in fst ht ++ snd ht.

(* Type.pack *)
Fixpoint pack_val (t : ty) (v : val) {struct t} : option bytes :=
  match t with
  | TUint _ | TInt _ => match v with VInt z => Some (word256 z) | _ => None end
  | TBool => match v with VBool b => Some (word256 (if b then 1 else 0)) | _ => None end
  | TAddress | TZts | THash => match v with VBytes c => Some (lpad32 c) | _ => None end
  | TString | TBytes => match v with VBytes c => Some (word256 (len c) ++ rpad c) | _ => None end
  | TSlice e =>
    match v with
    | VList vs =>
      match (fix go (l : list val) : option (list (bool * bytes)) :=
               match l with
               | [] => Some []
               | x :: r => match pack_val e x, go r with
                           | Some p, Some ps => Some ((requires_prefix e, p) :: ps)
                           | _, _ => None
                           end
               end) vs with
      | Some items => Some (word256 (Z.of_nat (length vs)) ++ layout items)
      | None => None
      end
    | _ => None
    end
  | TFixed _ | TArray _ _ => None
  end.

(* Arguments.Pack *)
Fixpoint pack_items (tys : list ty) (vs : list val) : option (list (bool * bytes)) :=
  match tys, vs with
  | [], [] => Some []
  | t :: tr, v :: vr => match pack_val t v, pack_items tr vr with
                        | Some p, Some ps => Some ((requires_prefix t, p) :: ps)
                        | _, _ => None
                        end
  | _, _ => None
  end.
Definition pack_values (tys : list ty) (vs : list val) : option bytes := option_map layout (pack_items tys vs).

(* ---- the padding of dynamic values, spelled out.
   The decoder never reads the bytes between the end of a string / bytes content and the next multiple of 32
   (toGoType: output[begin : begin+length]); whether they are zero is decided by the packer alone.  [pad_len c] is
   their number; [dyn_tail c] is the one tail of the content c that the packer writes: length word, content, zeros.
   [padded_item]: the packed item of a top-level string / bytes argument is a tail of exactly that shape. *)
Definition pad_len (c : bytes) : Z := (32 - len c mod 32) mod 32.
Definition dyn_tail (c : bytes) : bytes := word256 (len c) ++ c ++ repeat 0 (Z.to_nat (pad_len c)).
Definition padded_item (t : ty) (v : val) (it : bool * bytes) : Prop :=
  match t with
  | TString | TBytes => exists c, v = VBytes c /\ it = (true, dyn_tail c)
  | _ => True
  end.
(* the tails of a layout, in the order of the items *)
Fixpoint tails_of (items : list (bool * bytes)) : bytes :=
  match items with
  | [] => []
  | (true, p) :: r => p ++ tails_of r
  | (false, _) :: r => tails_of r
  end.

(* a packer that does not pad with zeros but with whatever [fill] gives it for this content (pack.go packBytesSlice
   with a RightPadBytes that re-slices the value into the capacity of its backing array: for a value handed out by
   the decoder the backing array is the call data itself and the bytes behind the content are the sender's padding).
   Only the shape is modelled: the same number of bytes, any values. *)
Definition dyn_tail_with (fill : bytes -> bytes) (c : bytes) : bytes :=
  word256 (len c) ++ c ++ firstn (Z.to_nat (pad_len c)) (fill c ++ repeat 0 32).

(* the canonical packing of what the argument bytes decode to *)
Definition canonical_of (tys : list ty) (data : bytes) : option bytes :=
  match unpack_values tys data with UOk vs => pack_values tys vs | _ => None end.

(* ValidateSendBlock on the call data of the method (selector sel, argument types tys):
   UnpackMethod / UnpackEmptyMethod, then PackMethod of the decoded values *)
Definition repack (sel : bytes) (tys : list ty) (input : bytes) : option bytes :=
  match tys with
  | [] => match unpack_empty_method sel input with UOk _ => Some sel | _ => None end
  | _ => match unpack_method sel tys input with
         | UOk vs => option_map (app sel) (pack_values tys vs)
         | _ => None
         end
  end.
Definition is_canonical (sel : bytes) (tys : list ty) (input : bytes) : Prop := repack sel tys input = Some input.

Definition set_data (b : ABody) (d : bytes) : ABody :=
  mkABody (ab_version b) (ab_chainid b) (ab_blocktype b) (ab_hash b) (ab_prev b) (ab_height b)
          (ab_ma_hash b) (ab_ma_height b) (ab_addr b) (ab_to b) (ab_amount b) (ab_zts b) (ab_from b)
          d (ab_fused b) (ab_diff b) (ab_nonce b) (ab_base b) (ab_total b) (ab_changes b) (ab_pk b) (ab_sig b).

(* a user send to an embedded contract through Supervisor.applyBlock, as far as Data is concerned:
   1. verifier.AccountBlock: ComputeHash() = Hash on the delivered block;
   2. vm.applySend: ValidateSendBlock replaces Data by the re-packed arguments (static_ok: its other checks);
   3. packBlock -> verifier.AccountBlockTransaction: ComputeHash() = Hash on the block as it is now;
   the block object of step 3 is what is stored. [norepack] is a ValidateSendBlock that returns before the
   re-packing for the inputs it selects (the shape of a missing / skipped re-pack). *)
Section CallAccept.
  Variable H : bytes -> bytes.
  Variable sel : bytes.
  Variable tys : list ty.
  Variable static_ok : bytes -> bool.
  Variable norepack : bytes -> bool.

  Definition accept_call_gen (x : AB) : option AB :=
    if negb (hash_ok H x) then None else
    match repack sel tys (ab_data (body x)) with
    | None => None
    | Some d' =>
      if negb (static_ok (ab_data (body x))) then None else
      let x' := ABNode (set_data (body x) (if norepack (ab_data (body x)) then ab_data (body x) else d')) (desc x) in
      if hash_ok H x' then Some x' else None
    end.
End CallAccept.
Definition accept_call H sel tys static_ok := accept_call_gen H sel tys static_ok (fun _ => false).
