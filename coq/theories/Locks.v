(* C10 — locked funds.  Storage entries of the lock contracts as finite tables (Emb.v: stake, plasma fusion, htlc,
   QSR deposits; here: sentinel and pillar), the release methods of sentinel.go / pillars.go, and the liabilities
   [liab] of each contract per token.  The revoke windows are written once, parametric in the two window lengths
   ([revoke_window]); LocksProofs shows that the go2coq translations Pure.PillarGetRevokeStatus /
   Pure.GetSentinelRevokeStatus are exactly this function at the constants dumped from /repo. *)
From ZV Require Import Prelude GoSem Abi VmReceive Emb.
From ZV Require Export LockEnv Pillar.
From ZV.gen Require Import Consts Pure.
Open Scope Z_scope.

(* ================================================================ sentinel.go *)
Section SentinelC.
  Record sentinel := { n_reg : Z; n_revoke : Z; n_znn : Z; n_qsr : Z }.       (* key = owner *)
  Record nstore := { n_ent : tab sentinel; n_dep : tab Z (* QSR deposits *) }.
  Notation acct := (cacct nstore).
  Notation send := VmReceive.send.

  Definition sentinel_register_validate (e : lenv) (s : send) : vres unit :=
    match unpack_empty Sel_sentinel_Register (s_data s) with
    | VOk _ => if negb (bytes_eqb (s_zts s) ZtsZnn) || negb (s_amount s =? c_SentinelZnn e) then VErr E_token_or_amount else VOk tt
    | VErr c => VErr c | VPanic => VPanic
    end.
  Definition sentinel_register_receive (e : lenv) (a : acct) (s : send) : mres nstore :=
    match sentinel_register_validate e s with
    | VErr c => MErr c | VPanic => MPanic
    | VOk _ =>
      let st := a_store a in
      match tget (n_ent st) (s_from s) with
      | Some _ => MErr E_already_registered
      | None =>
        (* checkAndConsumeQsr *)
        let dep := match tget (n_dep st) (s_from s) with Some v => v | None => 0 end in
        if dep <? c_SentinelQsr e then MErr E_not_enough_deposited_qsr else
        let rest := dep - c_SentinelQsr e in
        let dep' := if rest =? 0 then tdel (n_dep st) (s_from s) else tput (n_dep st) (s_from s) (u256 rest) in
        let ent := {| n_reg := l_now e; n_revoke := 0; n_znn := u256 (c_SentinelZnn e); n_qsr := u256 (c_SentinelQsr e) |} in
        MOk (with_store a {| n_ent := tput (n_ent st) (s_from s) ent; n_dep := dep' |}) []
      end
    end.

  Definition sentinel_revoke_validate (s : send) : vres unit :=
    match unpack_empty Sel_sentinel_Revoke (s_data s) with
    | VOk _ => if negb (s_amount s =? 0) then VErr E_token_or_amount else VOk tt
    | VErr c => VErr c | VPanic => VPanic
    end.
  Definition sentinel_revoke_receive (e : lenv) (a : acct) (s : send) : mres nstore :=
    match sentinel_revoke_validate s with
    | VErr c => MErr c | VPanic => MPanic
    | VOk _ =>
      let st := a_store a in
      match tget (n_ent st) (s_from s) with
      | None => MErr E_nonexistent
      | Some ent =>
        if negb (n_revoke ent =? 0) then MErr E_already_revoked else
        match revoke_window (c_SentinelLock e) (c_SentinelRevoke e) (n_reg ent) (l_now e) with
        | Panic => MPanic                                   (* integer division by zero *)
        | Ok (false, _) => MErr E_revoke_not_due
        | Ok (true, _) =>
          let ent' := {| n_reg := n_reg ent; n_revoke := l_now e; n_znn := 0; n_qsr := 0 |} in
          MOk (with_store a {| n_ent := tput (n_ent st) (s_from s) ent'; n_dep := n_dep st |})
              [{| d_to := s_from s; d_amount := n_znn ent; d_zts := ZtsZnn; d_data := [] |};
               {| d_to := s_from s; d_amount := n_qsr ent; d_zts := ZtsQsr; d_data := [] |}]
        end
      end
    end.

  (* common.go DepositQsr / WithdrawQsr on the sentinel contract's storage *)
  Definition sentinel_deposit_receive (a : acct) (s : send) : mres nstore :=
    match deposit_qsr_validate s with
    | VErr c => MErr c | VPanic => MPanic
    | VOk _ =>
      let st := a_store a in
      let cur := match tget (n_dep st) (s_from s) with Some v => v | None => 0 end in
      MOk (with_store a {| n_ent := n_ent st; n_dep := tput (n_dep st) (s_from s) (u256 (cur + s_amount s)) |}) []
    end.
  Definition sentinel_withdraw_receive (a : acct) (s : send) : mres nstore :=
    match withdraw_qsr_validate s with
    | VErr c => MErr c | VPanic => MPanic
    | VOk _ =>
      let st := a_store a in
      let cur := match tget (n_dep st) (s_from s) with Some v => v | None => 0 end in
      if cur =? 0 then MErr E_nothing_to_withdraw else
      MOk (with_store a {| n_ent := n_ent st; n_dep := tdel (n_dep st) (s_from s) |})
          [{| d_to := s_from s; d_amount := cur; d_zts := ZtsQsr; d_data := [] |}]
    end.
End SentinelC.

(* ================================================================ liabilities *)

(* what each contract owes, per token standard z *)
Definition liab_stake (st : sstore) (z : bytes) : Z := zsel ZtsZnn z (tsum k_amount st).
Definition liab_plasma (st : pstore) (z : bytes) : Z := zsel ZtsQsr z (tsum f_amount (p_fusions st)).
Definition liab_htlc (st : hstore) (z : bytes) : Z := tsum (fun h => zsel (h_zts h) z (h_amount h)) (h_entries st).
Definition liab_sentinel (st : nstore) (z : bytes) : Z :=
  zsel ZtsZnn z (tsum n_znn (n_ent st)) + zsel ZtsQsr z (tsum n_qsr (n_ent st) + tsum (fun v => v) (n_dep st)).
Definition liab_pillar (st : lstore) (z : bytes) : Z :=
  zsel ZtsZnn z (tsum l_amount (l_pillars st)) + zsel ZtsQsr z (tsum (fun v => v) (l_dep st)).
Definition liab_common (st : cstore) (z : bytes) : Z := zsel ZtsQsr z (tsum (fun v => v) (q_dep st)).

(* fused total of a beneficiary = sum of its fusion entries *)
Definition fused_of (st : pstore) (b : bytes) : Z := match tget (p_fused st) b with Some v => v | None => 0 end.
Definition entries_of (st : pstore) (b : bytes) : Z := tsum (fun f => zsel (f_ben f) b (f_amount f)) (p_fusions st).
