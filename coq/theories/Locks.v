(* C10 — locked funds.  Storage entries of the lock contracts as finite tables (Emb.v: stake, plasma fusion, htlc,
   QSR deposits; here: sentinel and pillar), the release methods of sentinel.go / pillars.go, and the liabilities
   [liab] of each contract per token.  The revoke windows are written once, parametric in the two window lengths
   ([revoke_window]); LocksProofs shows that the go2coq translations Pure.PillarGetRevokeStatus /
   Pure.GetSentinelRevokeStatus are exactly this function at the constants dumped from /repo. *)
From ZV Require Import Prelude GoSem Abi VmReceive Emb.
From ZV.gen Require Import Consts Pure.
Open Scope Z_scope.

Definition E_already_registered := 18.
Definition E_not_enough_deposited_qsr := 19.
Definition E_already_revoked := 20.
Definition E_invalid_name := 21.
Definition E_not_active := 22.

(* implementation.PillarGetRevokeStatus / GetSentinelRevokeStatus with the window lengths as parameters *)
Definition revoke_window (lock rev reg now : Z) : res (bool * Z) :=
  guard (negb (wrapS 64 (lock + rev) =? 0))
    (let epochTime := wrapS 64 (Z.rem (wrapS 64 (now - reg)) (wrapS 64 (lock + rev))) in
     if epochTime <? lock then Ok (false, wrapS 64 (lock - epochTime))
     else Ok (true, wrapS 64 (wrapS 64 (lock + rev) - epochTime))).

(* frontier momentum time + the constants of the two contracts (the harness shortens the windows) *)
Record lenv := { l_now : Z;
                 c_SentinelLock : Z; c_SentinelRevoke : Z; c_SentinelZnn : Z; c_SentinelQsr : Z;
                 c_PillarLock : Z; c_PillarRevoke : Z; c_PillarStake : Z }.

(* ================================================================ sentinel.go *)
Section SentinelC.
  Record sentinel := { n_reg : Z; n_revoke : Z; n_znn : Z; n_qsr : Z }.       (* key = owner *)
  Record nstore := { n_ent : tab sentinel; n_dep : tab Z (* QSR deposits *) }.
  Notation acct := (cacct nstore).
  Notation send := VmReceive.send.

  Definition sentinel_register_validate (e : lenv) (s : send) : vres unit :=
    match unpack_empty Sel_sentinel_Register (s_data s) with
    | VOk _ => if negb (bytes_eqb (s_zts s) ZtsZnn) || negb (s_amount s =? c_SentinelZnn e) then VErr E_token_or_amount else VOk tt
    | VErr c => VErr c | VPanic => VPanic
    end.
  Definition sentinel_register_receive (e : lenv) (a : acct) (s : send) : mres nstore :=
    match sentinel_register_validate e s with
    | VErr c => MErr c | VPanic => MPanic
    | VOk _ =>
      let st := a_store a in
      match tget (n_ent st) (s_from s) with
      | Some _ => MErr E_already_registered
      | None =>
        (* checkAndConsumeQsr *)
        let dep := match tget (n_dep st) (s_from s) with Some v => v | None => 0 end in
        if dep <? c_SentinelQsr e then MErr E_not_enough_deposited_qsr else
        let rest := dep - c_SentinelQsr e in
        let dep' := if rest =? 0 then tdel (n_dep st) (s_from s) else tput (n_dep st) (s_from s) (u256 rest) in
        let ent := {| n_reg := l_now e; n_revoke := 0; n_znn := u256 (c_SentinelZnn e); n_qsr := u256 (c_SentinelQsr e) |} in
        MOk (with_store a {| n_ent := tput (n_ent st) (s_from s) ent; n_dep := dep' |}) []
      end
    end.

  Definition sentinel_revoke_validate (s : send) : vres unit :=
    match unpack_empty Sel_sentinel_Revoke (s_data s) with
    | VOk _ => if negb (s_amount s =? 0) then VErr E_token_or_amount else VOk tt
    | VErr c => VErr c | VPanic => VPanic
    end.
  Definition sentinel_revoke_receive (e : lenv) (a : acct) (s : send) : mres nstore :=
    match sentinel_revoke_validate s with
    | VErr c => MErr c | VPanic => MPanic
    | VOk _ =>
      let st := a_store a in
      match tget (n_ent st) (s_from s) with
      | None => MErr E_nonexistent
      | Some ent =>
        if negb (n_revoke ent =? 0) then MErr E_already_revoked else
        match revoke_window (c_SentinelLock e) (c_SentinelRevoke e) (n_reg ent) (l_now e) with
        | Panic => MPanic                                   (* integer division by zero *)
        | Ok (false, _) => MErr E_revoke_not_due
        | Ok (true, _) =>
          let ent' := {| n_reg := n_reg ent; n_revoke := l_now e; n_znn := 0; n_qsr := 0 |} in
          MOk (with_store a {| n_ent := tput (n_ent st) (s_from s) ent'; n_dep := n_dep st |})
              [{| d_to := s_from s; d_amount := n_znn ent; d_zts := ZtsZnn; d_data := [] |};
               {| d_to := s_from s; d_amount := n_qsr ent; d_zts := ZtsQsr; d_data := [] |}]
        end
      end
    end.

  (* common.go DepositQsr / WithdrawQsr on the sentinel contract's storage *)
  Definition sentinel_deposit_receive (a : acct) (s : send) : mres nstore :=
    match deposit_qsr_validate s with
    | VErr c => MErr c | VPanic => MPanic
    | VOk _ =>
      let st := a_store a in
      let cur := match tget (n_dep st) (s_from s) with Some v => v | None => 0 end in
      MOk (with_store a {| n_ent := n_ent st; n_dep := tput (n_dep st) (s_from s) (u256 (cur + s_amount s)) |}) []
    end.
  Definition sentinel_withdraw_receive (a : acct) (s : send) : mres nstore :=
    match withdraw_qsr_validate s with
    | VErr c => MErr c | VPanic => MPanic
    | VOk _ =>
      let st := a_store a in
      let cur := match tget (n_dep st) (s_from s) with Some v => v | None => 0 end in
      if cur =? 0 then MErr E_nothing_to_withdraw else
      MOk (with_store a {| n_ent := n_ent st; n_dep := tdel (n_dep st) (s_from s) |})
          [{| d_to := s_from s; d_amount := cur; d_zts := ZtsQsr; d_data := [] |}]
    end.
End SentinelC.

(* ================================================================ pillars.go (Revoke, DepositQsr, WithdrawQsr) *)
Section PillarC.
  Variable name_ok : bytes -> bool.      (* checkPillarNameStatic: length bound + regexp, observed from the implementation *)

  Record pillar := { l_owner : bytes; l_amount : Z; l_reg : Z; l_revoke : Z }.   (* key = name; other fields untouched *)
  Record lstore := { l_pillars : tab pillar; l_dep : tab Z }.
  Notation acct := (cacct lstore).
  Notation send := VmReceive.send.

  Definition pillar_revoke_validate (s : send) : vres bytes :=
    match unpack_args Sel_pillars_Revoke [TString] (s_data s) with
    | VOk [VBytes name] =>
      if negb (name_ok name) then VErr E_invalid_name else
      if negb (s_amount s =? 0) then VErr E_token_or_amount else VOk name
    | VOk _ => VPanic
    | VErr c => VErr c | VPanic => VPanic
    end.
  Definition pillar_revoke_receive (e : lenv) (a : acct) (s : send) : mres lstore :=
    match pillar_revoke_validate s with
    | VErr c => MErr c | VPanic => MPanic
    | VOk _ =>
      match pillar_revoke_validate s with
      | VOk name =>
        let st := a_store a in
        match tget (l_pillars st) name with
        | None => MErr E_nonexistent
        | Some p =>
          if negb (l_revoke p =? 0) then MErr E_not_active else
          if negb (bytes_eqb (l_owner p) (s_from s)) then MErr E_permission else
          match revoke_window (c_PillarLock e) (c_PillarRevoke e) (l_reg p) (l_now e) with
          | Panic => MPanic
          | Ok (false, _) => MErr E_revoke_not_due
          | Ok (true, _) =>
            let p' := {| l_owner := l_owner p; l_amount := 0; l_reg := l_reg p; l_revoke := l_now e |} in
            MOk (with_store a {| l_pillars := tput (l_pillars st) name p'; l_dep := l_dep st |})
                [{| d_to := l_owner p; d_amount := c_PillarStake e; d_zts := ZtsZnn; d_data := [] |}]
          end
        end
      | _ => MPanic
      end
    end.

  Definition pillar_deposit_receive (a : acct) (s : send) : mres lstore :=
    match deposit_qsr_validate s with
    | VErr c => MErr c | VPanic => MPanic
    | VOk _ =>
      let st := a_store a in
      let cur := match tget (l_dep st) (s_from s) with Some v => v | None => 0 end in
      MOk (with_store a {| l_pillars := l_pillars st; l_dep := tput (l_dep st) (s_from s) (u256 (cur + s_amount s)) |}) []
    end.
  Definition pillar_withdraw_receive (a : acct) (s : send) : mres lstore :=
    match withdraw_qsr_validate s with
    | VErr c => MErr c | VPanic => MPanic
    | VOk _ =>
      let st := a_store a in
      let cur := match tget (l_dep st) (s_from s) with Some v => v | None => 0 end in
      if cur =? 0 then MErr E_nothing_to_withdraw else
      MOk (with_store a {| l_pillars := l_pillars st; l_dep := tdel (l_dep st) (s_from s) |})
          [{| d_to := s_from s; d_amount := cur; d_zts := ZtsQsr; d_data := [] |}]
    end.
End PillarC.

(* ================================================================ liabilities *)
Fixpoint tsum {V} (f : V -> Z) (t : tab V) : Z := match t with [] => 0 | (_, v) :: r => f v + tsum f r end.
(* keys are unique (a leveldb table) *)
Fixpoint tnodup {V} (t : tab V) : Prop := match t with [] => True | (k, _) :: r => tget r k = None /\ tnodup r end.

Definition zsel (z z' : bytes) (x : Z) : Z := if bytes_eqb z z' then x else 0.

(* what each contract owes, per token standard z *)
Definition liab_stake (st : sstore) (z : bytes) : Z := zsel ZtsZnn z (tsum k_amount st).
Definition liab_plasma (st : pstore) (z : bytes) : Z := zsel ZtsQsr z (tsum f_amount (p_fusions st)).
Definition liab_htlc (st : hstore) (z : bytes) : Z := tsum (fun h => zsel (h_zts h) z (h_amount h)) (h_entries st).
Definition liab_sentinel (st : nstore) (z : bytes) : Z :=
  zsel ZtsZnn z (tsum n_znn (n_ent st)) + zsel ZtsQsr z (tsum n_qsr (n_ent st) + tsum (fun v => v) (n_dep st)).
Definition liab_pillar (st : lstore) (z : bytes) : Z :=
  zsel ZtsZnn z (tsum l_amount (l_pillars st)) + zsel ZtsQsr z (tsum (fun v => v) (l_dep st)).
Definition liab_common (st : cstore) (z : bytes) : Z := zsel ZtsQsr z (tsum (fun v => v) (q_dep st)).

(* fused total of a beneficiary = sum of its fusion entries *)
Definition fused_of (st : pstore) (b : bytes) : Z := match tget (p_fused st) b with Some v => v | None => 0 end.
Definition entries_of (st : pstore) (b : bytes) : Z := tsum (fun f => zsel (f_ben f) b (f_amount f)) (p_fusions st).
